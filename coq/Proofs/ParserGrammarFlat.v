(* C03, token level: facts about the grammar alone (no parser functions):
   classifier tables of the parser = those of the spec, first sets, and the algebra of the flat operator tail
   cut at a priority limit (OpsQ), which is what precedence climbing consumes. *)
From Coq Require Import List NArith ZArith Bool Lia.
From LH Require Import Base.Bytes Base.Res Model.Lexer Model.Ast Model.Parser Spec.LuaGrammar.
From LH Require Import Proofs.ParserGrammarBase.
Import ListNotations.

(* ------------------------------------------------------------------ the parser's tables are the spec's *)
Lemma is_unop_unop k : is_unop k = unop k.
Proof. destruct k; reflexivity. Qed.
Lemma prio_binop k : binop k = Nat.ltb 0 (prio k).
Proof. destruct k; reflexivity. Qed.
Lemma prio_le_12 k : prio k <= 12.
Proof. destruct k; simpl; lia. Qed.
Lemma prio_not_11 k : prio k <> 11.
Proof. destruct k; simpl; lia. Qed.
Lemma prio_sub k : (if is_right_assoc k then Nat.pred (prio k) else prio k) <= 11.
Proof. destruct k; simpl; lia. Qed.
Lemma prio_sub_ge k lim : lim < prio k -> lim <= (if is_right_assoc k then Nat.pred (prio k) else prio k).
Proof. destruct k; simpl; lia. Qed.
Lemma suffix_none k : starts_suffix k = false <-> suffix_start_of k = SfxNone.
Proof. destruct k; simpl; split; congruence. Qed.
Lemma is_ret_end_follow k : is_ret_end k = block_follow k.
Proof. destruct k; reflexivity. Qed.
Lemma is_block_end_follow k : is_block_end k = block_follow k || tk_eqb k TkKwReturn.
Proof. destruct k; reflexivity. Qed.
Lemma s_const_txt : s_const = txt_const. Proof. reflexivity. Qed.
Lemma s_close_txt : s_close = txt_close. Proof. reflexivity. Qed.

Lemma stat_start_inv k :
  match stat_start_of k with
  | StSemi => k = TkSepSemi | StBreak => k = TkKwBreak | StLabel => k = TkSepLabel | StGoto => k = TkKwGoto
  | StDo => k = TkKwDo | StWhile => k = TkKwWhile | StRepeat => k = TkKwRepeat | StIf => k = TkKwIf
  | StFor => k = TkKwFor | StFunction => k = TkKwFunction | StLocal => k = TkKwLocal | StIllegal => k = IKIllegal
  | StOther => True
  end.
Proof. destruct k; simpl; auto. Qed.
Lemma exp0_start_inv k :
  match exp0_start_of k with
  | E0Vararg => k = TkVararg | E0Nil => k = TkKwNil | E0True => k = TkKwTrue | E0False => k = TkKwFalse
  | E0String => k = TkString | E0Number => k = TkNumber | E0Table => k = TkSepLcurly | E0Function => k = TkKwFunction
  | E0Other => True
  end.
Proof. destruct k; simpl; auto. Qed.
Lemma suffix_start_inv k :
  match suffix_start_of k with
  | SfxBrack => k = TkSepLbrack | SfxDot => k = TkSepDot
  | SfxCall => k = TkSepColon \/ k = TkSepLparen \/ k = TkSepLcurly \/ k = TkString
  | SfxNone => starts_suffix k = false
  end.
Proof. destruct k; simpl; auto. Qed.

(* ------------------------------------------------------------------ terminals *)
Lemma T_hdk k ts r : T k ts r -> hdk ts = k.
Proof. intros (t & -> & K). exact K. Qed.
Lemma T_len k ts r : T k ts r -> length ts = S (length r).
Proof. intros (t & -> & K). reflexivity. Qed.
Lemma T_wfl k ts r : T k ts r -> k <> TkEOF -> wfl ts -> wfl r.
Proof. intros (t & -> & K) N W. eapply wfl_tail; eauto. congruence. Qed.
Lemma T_of_hd t r : T (kd t) (t :: r) r.
Proof. exists t. auto. Qed.

(* ------------------------------------------------------------------ first sets *)
Definition simple_first (k : tkind) : bool :=
  match k with
  | TkKwNil | TkKwTrue | TkKwFalse | TkVararg | TkString | TkNumber | TkSepLcurly | TkKwFunction
  | TkIdentifier | TkSepLparen => true
  | _ => false
  end.
Definition exp_first (k : tkind) : bool := unop k || simple_first k.

Section First.
  Variable classify : list N -> numcls.
  Notation Simple := (Simple classify).
  Notation Operand := (Operand classify).
  Notation Exp := (Exp classify).
  Notation ExpList := (ExpList classify).
  Notation PrefixExp := (PrefixExp classify).
  Notation Args := (Args classify).
  Notation Table := (Table classify).
  Notation Field := (Field classify).
  Notation Stat := (Stat classify).

  Lemma prefix_first k ts r : PrefixExp k ts r -> hdk ts = TkIdentifier \/ hdk ts = TkSepLparen.
  Proof. intros H; inversion H; subst; match goal with H : T _ ts _ |- _ => apply T_hdk in H; auto end. Qed.
  Lemma table_first ts r : Table ts r -> hdk ts = TkSepLcurly.
  Proof. intros H; inversion H; subst; match goal with H : T _ ts _ |- _ => apply T_hdk in H; auto end. Qed.
  Lemma simple_first_ok ts r : Simple ts r -> simple_first (hdk ts) = true.
  Proof.
    intros H; inversion H; subst;
      try (match goal with H : T _ ts _ |- _ => apply T_hdk in H; rewrite H; reflexivity end).
    - simpl. match goal with H : kd _ = _ |- _ => rewrite H end. reflexivity.
    - match goal with H : Table _ _ |- _ => apply table_first in H; rewrite H end. reflexivity.
    - match goal with H : PrefixExp _ _ _ |- _ => apply prefix_first in H; destruct H as [H|H]; rewrite H end;
        reflexivity.
  Qed.
  Lemma operand_first ts r : Operand ts r -> exp_first (hdk ts) = true.
  Proof.
    intros H; inversion H; subst.
    - simpl. unfold exp_first. match goal with H : unop _ = true |- _ => rewrite H end. reflexivity.
    - unfold exp_first. erewrite simple_first_ok by eauto. apply orb_true_r.
  Qed.
  Lemma exp_first_ok ts r : Exp ts r -> exp_first (hdk ts) = true.
  Proof. intros H; inversion H; subst. eapply operand_first; eauto. Qed.
  Lemma explist_first ts r : ExpList ts r -> exp_first (hdk ts) = true.
  Proof. intros H; inversion H; subst. eapply exp_first_ok; eauto. Qed.
  Lemma field_first ts r : Field ts r -> hdk ts = TkSepLbrack \/ exp_first (hdk ts) = true.
  Proof.
    intros H; inversion H; subst.
    - left. eapply T_hdk; eauto.
    - right. match goal with H : T _ ts _ |- _ => apply T_hdk in H; rewrite H end. reflexivity.
    - right. eapply exp_first_ok; eauto.
  Qed.
  Lemma args_first ts r : Args ts r -> hdk ts = TkSepLparen \/ hdk ts = TkSepLcurly \/ hdk ts = TkString.
  Proof.
    intros H; inversion H; subst; try (match goal with H : T _ ts _ |- _ => apply T_hdk in H; auto end).
    right; left. eapply table_first; eauto.
  Qed.
  Lemma simple_not_unop ts r : Simple ts r -> unop (hdk ts) = false.
  Proof. intros H. apply simple_first_ok in H. destruct (hdk ts); simpl in *; congruence. Qed.

  (* what p_stat dispatches on *)
  Lemma stat_first ts r : Stat ts r -> is_block_end (hdk ts) = false.
  Proof.
    intros H; inversion H; subst;
      try (match goal with H : T _ ts _ |- _ => apply T_hdk in H; rewrite H; reflexivity end);
      match goal with H : PrefixExp _ ts _ |- _ => apply prefix_first in H; destruct H as [H|H]; rewrite H end;
      reflexivity.
  Qed.
End First.

Lemma exp_first_cases k : exp_first k = true ->
  k <> TkSepRparen /\ k <> TkSepRcurly /\ k <> TkSepLbrack /\ k <> TkSepSemi /\ block_follow k = false /\
  k <> TkKwReturn /\ k <> TkEOF /\ k <> TkSepComma /\ k <> TkOpAssign.
Proof. destruct k; simpl; intros; try discriminate; repeat split; congruence. Qed.

(* ------------------------------------------------------------------ the flat operator form cut at a limit *)
Section Ops.
  Variable Q : list ltok -> list ltok -> Prop.     (* the simple expressions *)

  Inductive OperandQ : list ltok -> list ltok -> Prop :=
  | OQ_unop ts t r1 r : ts = t :: r1 -> unop (kd t) = true -> OperandQ r1 r -> OperandQ ts r
  | OQ_simple ts r : Q ts r -> OperandQ ts r.

  (* { binop operand } up to the first operator whose priority is <= lim *)
  Inductive OpsQ (lim : nat) : list ltok -> list ltok -> Prop :=
  | OpsQ_end ts : prio (hdk ts) <= lim -> OpsQ lim ts ts
  | OpsQ_cons ts t r1 r2 r : ts = t :: r1 -> lim < prio (kd t) -> OperandQ r1 r2 -> OpsQ lim r2 r -> OpsQ lim ts r.

  Lemma ops_end lim ts r : OpsQ lim ts r -> prio (hdk r) <= lim.
  Proof. induction 1; auto. Qed.

  (* cutting at a higher limit first *)
  Lemma ops_split lim lim' ts r : lim <= lim' -> OpsQ lim ts r -> exists r', OpsQ lim' ts r' /\ OpsQ lim r' r.
  Proof.
    intros L H. induction H as [ts Hp | ts t r1 r2 r E Hp Ho Ht IH].
    - exists ts. split; constructor; lia.
    - destruct (Nat.le_gt_cases (prio (kd t)) lim') as [Hle|Hgt].
      + exists ts. split.
        * constructor. subst ts. simpl. exact Hle.
        * econstructor; eauto.
      + destruct IH as (r' & H1 & H2). exists r'. split; [econstructor; eauto | exact H2].
  Qed.
  Lemma ops_join lim lim' ts r' r : lim <= lim' -> OpsQ lim' ts r' -> OpsQ lim r' r -> OpsQ lim ts r.
  Proof.
    intros L H. induction H as [ts Hp | ts t r1 r2 r0 E Hp Ho Ht IH]; intros H2.
    - exact H2.
    - econstructor; eauto. lia.
  Qed.
  Lemma ops_10_11 ts r : OpsQ 10 ts r <-> OpsQ 11 ts r.
  Proof.
    split; induction 1.
    - constructor. lia.
    - econstructor; eauto. pose proof (prio_not_11 (kd t)). lia.
    - constructor. pose proof (prio_not_11 (hdk ts)). lia.
    - econstructor; eauto. lia.
  Qed.
  Lemma ops_stop lim ts r : OpsQ lim ts r -> prio (hdk ts) <= lim -> r = ts.
  Proof. intros H L. inversion H; subst; auto. simpl in L. lia. Qed.

  Hypothesis Qlen : forall ts r, Q ts r -> length r < length ts.
  Lemma operandq_len ts r : OperandQ ts r -> length r < length ts.
  Proof. induction 1; subst; simpl in *; [lia | auto]. Qed.
  Lemma opsq_len lim ts r : OpsQ lim ts r -> length r <= length ts.
  Proof. induction 1; subst; simpl in *; [lia|]. apply operandq_len in H1. lia. Qed.
End Ops.

Section FlatSpec.
  Variable classify : list N -> numcls.
  (* the spec's Operand / BinTail are the Q-versions at Q = Simple, limit 0 *)
  Lemma operand_q ts r : Operand classify ts r <-> OperandQ (Simple classify) ts r.
  Proof.
    split.
    - revert ts r.
      fix IH 3. intros ts r H. destruct H as [ts t r1 r E U H | ts r H].
      + eapply OQ_unop; eauto.
      + apply OQ_simple. exact H.
    - induction 1.
      + eapply Op_unop; eauto.
      + apply Op_simple. assumption.
  Qed.
  Lemma bintail_q ts r : BinTail classify ts r <-> OpsQ (Simple classify) 0 ts r.
  Proof.
    split.
    - revert ts r.
      fix IH 3. intros ts r H. destruct H as [ts B | ts t r1 r2 r E B Ho Ht].
      + apply OpsQ_end. rewrite prio_binop in B. apply Nat.ltb_ge in B. exact B.
      + eapply OpsQ_cons; eauto.
        * rewrite prio_binop in B. apply Nat.ltb_lt in B. exact B.
        * apply operand_q. exact Ho.
    - induction 1 as [ts B | ts t r1 r2 r E B Ho Ht IH].
      + apply BT_end. rewrite prio_binop. apply Nat.ltb_ge. exact B.
      + eapply BT_cons; eauto.
        * rewrite prio_binop. apply Nat.ltb_lt. exact B.
        * apply operand_q. exact Ho.
  Qed.
End FlatSpec.
