(* C13 - whole files: the lexer's map writes = the entries of the file's gaps (lockstep of lex_loop with the layout
   function file_gaps of the spec), the layout satisfies chain_ok, hence (Proofs/CommentsTable.v) the documentation of
   a line = spec_comment on the table of comment lines of the file. *)
From Coq Require Import List NArith ZArith Bool Lia ZifyN ZifyNat ZifyBool.
From LH Require Import Base.Bytes Base.Res Model.Codec Model.Lexer Model.Ast Model.Parser Model.LuaFront Model.Comments
  Spec.CommentSpec.
From LH Require Import Base.Utf8 Proofs.CodecProofs Proofs.LexerTotalProgress Proofs.LexerTotalMain Proofs.CommentsLines Proofs.CommentsGap
  Proofs.CommentsAttach Proofs.CommentsTable.
Import ListNotations.
Local Open Scope Z_scope.

(* ------------------------------------------------------------------ the structural gap parser is lossless *)
Lemma span_white_app : forall l a b, span_white l = (a, b) -> l = a ++ b.
Proof.
  induction l as [|c t IH]; intros a b H; cbn [span_white] in H; [injection H as <- <-; reflexivity|].
  destruct (is_white c).
  - destruct (span_white t) as [a' b'] eqn:E. injection H as <- <-. cbn [app]. f_equal. apply IH. reflexivity.
  - injection H as <- <-. reflexivity.
Qed.

Lemma span_line_app : forall l a b, span_line l = (a, b) -> l = a ++ b.
Proof.
  induction l as [|c t IH]; intros a b H; cbn [span_line] in H; [injection H as <- <-; reflexivity|].
  destruct (is_newline c).
  - injection H as <- <-. reflexivity.
  - destruct (span_line t) as [a' b'] eqn:E. injection H as <- <-. cbn [app]. f_equal. apply IH. reflexivity.
Qed.

Lemma parse_gline_render : forall l gl r, parse_gline l = (gl, r) -> l = render_gline gl ++ r.
Proof.
  intros l gl r H. unfold parse_gline in H. destruct (span_white l) as [ind r0] eqn:E. apply span_white_app in E. subst l.
  assert (Hnone : (mkGl ind None, r0) = (gl, r) -> ind ++ r0 = render_gline gl ++ r).
  { intros H0. injection H0 as <- <-. unfold render_gline. cbn [gl_indent gl_comment]. rewrite app_nil_r. reflexivity. }
  destruct r0 as [|c0 r0]; [exact (Hnone H)|].
  destruct (N.eq_dec c0 45%N) as [->|Hc0].
  - destruct r0 as [|c1 r1]; [exact (Hnone H)|].
    destruct (N.eq_dec c1 45%N) as [->|Hc1].
    + destruct (span_line r1) as [t r2] eqn:E2. apply span_line_app in E2. subst r1. injection H as <- <-.
      unfold render_gline. cbn [gl_indent gl_comment]. rewrite <- !app_assoc. reflexivity.
    + apply Hnone. rewrite <- H. clear - Hc1.
      destruct c1 as [|q]; [reflexivity|]. do 6 (destruct q as [q|q|]; try reflexivity). exfalso. apply Hc1. reflexivity.
  - apply Hnone. rewrite <- H. clear - Hc0.
    destruct c0 as [|q]; [reflexivity|]. do 6 (destruct q as [q|q|]; try reflexivity). exfalso. apply Hc0. reflexivity.
Qed.

Lemma parse_rest_render : forall f l rest tl, parse_rest f l = (rest, tl) -> l = render_rest rest ++ tl.
Proof.
  induction f as [|f IH]; intros l rest tl H; cbn [parse_rest] in H; [injection H as <- <-; reflexivity|].
  assert (Hstop : ([] : list (nlk * gline), l) = (rest, tl) -> l = render_rest rest ++ tl).
  { intros H0. injection H0 as <- <-. reflexivity. }
  assert (Hstep : forall k r, l = nl_bytes k ++ r ->
            (let '(gl, r1) := parse_gline r in let '(rest0, tl0) := parse_rest f r1 in ((k, gl) :: rest0, tl0)) = (rest, tl) ->
            l = render_rest rest ++ tl).
  { intros k r Hl H0. destruct (parse_gline r) as [gl r1] eqn:E1. destruct (parse_rest f r1) as [rest0 tl0] eqn:E2.
    injection H0 as <- <-. apply parse_gline_render in E1. apply IH in E2. subst r r1. rewrite Hl.
    cbn [render_rest]. rewrite <- !app_assoc. reflexivity. }
  destruct l as [|c0 r0]; [exact (Hstop H)|].
  destruct (N.eq_dec c0 10%N) as [->|H10].
  - exact (Hstep NlLF r0 eq_refl H).
  - destruct (N.eq_dec c0 13%N) as [->|H13].
    + destruct r0 as [|c1 r1]; [exact (Hstop H)|].
      destruct (N.eq_dec c1 10%N) as [->|H10'].
      * exact (Hstep NlCRLF r1 eq_refl H).
      * apply Hstop. rewrite <- H. clear - H10'.
        destruct c1 as [|q]; [reflexivity|]. do 4 (destruct q as [q|q|]; try reflexivity). exfalso. apply H10'. reflexivity.
    + apply Hstop. rewrite <- H. clear - H10 H13.
      destruct c0 as [|q]; [reflexivity|]. do 4 (destruct q as [q|q|]; try reflexivity); exfalso; auto.
Qed.

Lemma parse_gap_render : forall l g tail, parse_gap l = (g, tail) -> l = render_gap g ++ tail.
Proof.
  intros l g tail H. unfold parse_gap in H. destruct (parse_gline l) as [g0 r] eqn:E1.
  destruct (parse_rest (length r) r) as [rest tl] eqn:E2. injection H as <- <-.
  apply parse_gline_render in E1. apply parse_rest_render in E2. subst l r.
  unfold render_gap. cbn [g_first g_rest]. rewrite <- app_assoc. reflexivity.
Qed.

(* a structured gap followed by a token has no comment on its last line *)
Lemma last_cons : forall (A : Type) (l : list A) a d, last (a :: l) d = last l a.
Proof.
  intros A l. induction l as [|b l IH]; intros a d; [reflexivity|].
  change (last (a :: b :: l) d) with (last (b :: l) d). rewrite IH. symmetry. apply IH.
Qed.

Lemma rest_ok_last : forall r l0 tail,
  rest_ok (match gl_comment l0 with Some _ => true | None => false end) r tail = true -> tail <> [] ->
  gl_comment (last (map snd r) l0) = None.
Proof.
  induction r as [|[k l] t IH]; intros l0 tail H Ht.
  - cbn [rest_ok] in H. cbn [map last]. destruct (gl_comment l0); [|reflexivity]. destruct tail; [congruence|discriminate H].
  - cbn [rest_ok] in H. apply andb_true_iff in H. destruct H as [_ H]. cbn [map snd]. rewrite last_cons. apply (IH l tail H Ht).
Qed.

Lemma gap_ok_last : forall g tail, gap_ok g tail = true -> tail <> [] -> gl_comment (last_gline g) = None.
Proof.
  intros g tail H Ht. unfold gap_ok in H. apply andb_true_iff in H. destruct H as [_ H].
  unfold last_gline. apply (rest_ok_last _ _ tail H Ht).
Qed.

(* ------------------------------------------------------------------ lex_loop and file_gaps_f in lockstep *)
(* the lines the non-EOF tokens end on *)
Definition tok_lines (ts : list ltok) : list Z :=
  map (fun t => tline (lt t)) (filter (fun t => negb (tk_eqb (tk (lt t)) TkEOF)) ts).

Section Layout.
  Variable gbk_runes : list N -> Z.

  Lemma lex_gaps : forall f p2 p1 s acc rs lo,
    file_gaps_f gbk_runes f (pline p1) s = Some rs ->
    lo <= pline p1 -> pline p1 <= line s -> 0 < line s ->
    exists ts, lex_loop gbk_runes f p2 p1 s acc = Ok (rev acc ++ ts)
               /\ flat_map lcomments ts = flat_map gap_entries rs /\ chain_ok lo rs
               /\ pline p1 :: tok_lines ts = map gr_p rs.
  Proof.
    induction f as [|f IH]; intros p2 p1 s acc rs lo H Hlo Hp Hpos; [discriminate H|].
    cbn [file_gaps_f] in H. destruct (parse_gap (chunk s)) as [g tail] eqn:Epg.
    destruct (gap_ok g tail) eqn:Eok; [|discriminate H].
    apply parse_gap_render in Epg.
    assert (Hws := skip_ws_gap_state p2 p1 s g tail Epg Eok Hp).
    cbn [lex_loop]. unfold next_token. rewrite Hws.
    destruct (scan_token gbk_runes (after_gap s g tail)) as [[t s2] es2] eqn:Est.
    set (r := mkGr (pline p1) (line s) (pos s - lsp s) g) in *.
    assert (Hent : spec_entries (pline p1) (line s) (pos s - lsp s) g = gap_entries r) by reflexivity.
    destruct tail as [|c0 tail'].
    - injection H as <-.
      apply scan_token_eof in Est; [|reflexivity]. destruct Est as [Hk ->]. cbn [lt]. rewrite Hk.
      eexists. split; [cbn [rev]; reflexivity|]. split.
      + cbn [flat_map lcomments]. rewrite Hent. reflexivity.
      + split; [cbn [chain_ok]; repeat split; try assumption; left; reflexivity|].
        unfold tok_lines. cbn [filter lt]. rewrite Hk. reflexivity.
    - destruct (file_gaps_f gbk_runes f (tline t) s2) as [rs'|] eqn:Erec; [|discriminate H]. injection H as <-.
      assert (Hprog := scan_token_progress gbk_runes _ _ _ _ Est). destruct Hprog as [Hk _]; [cbn [after_gap chunk]; discriminate|].
      assert (Hlines := scan_token_lines gbk_runes _ _ _ _ Est). destruct Hlines as [Hl1 Hl2].
      change (line (after_gap s g (c0 :: tail'))) with (gap_end r) in Hl1.
      cbn [lt]. rewrite (match_eof _ _ _ Hk).
      destruct (IH p1 (Some t) s2 (mkLtok t ([] ++ es2) (spec_entries (pline p1) (line s) (pos s - lsp s) g) :: acc) rs' (gap_end r))
        as [ts [Hlex [Hcm [Hch Htl]]]]; [exact Erec|exact Hl1|exact Hl2| |].
      { pose proof (gap_end_ge r). cbn [gr_L r] in *. lia. }
      eexists. split; [rewrite Hlex; cbn [rev]; rewrite <- app_assoc; reflexivity|]. split.
      + cbn [app flat_map lcomments]. rewrite Hcm, Hent. reflexivity.
      + split.
        * cbn [chain_ok]. repeat split; try assumption.
          right. apply (gap_ok_last g (c0 :: tail') Eok). discriminate.
        * cbn [map gr_p r]. rewrite <- Htl. cbn [pline app]. unfold tok_lines. cbn [filter lt].
          assert (Hne : tk_eqb (tk t) TkEOF = false) by (unfold tk_eqb; destruct (tkind_eq_dec (tk t) TkEOF); [congruence|reflexivity]).
          rewrite Hne. reflexivity.
  Qed.

  Lemma skip_first_line_line : forall bs, line (skip_first_line bs) = 1.
  Proof.
    intros bs. unfold skip_first_line.
    match goal with |- context [mkLst ?b 1 0 0] => generalize b end. intros bs1. cbv zeta.
    destruct bs1 as [|c0 r]; [reflexivity|].
    destruct c0 as [|q]; [reflexivity|]. do 6 (destruct q as [q|q|]; try reflexivity).
  Qed.

  Theorem file_layout : forall bs rs, file_gaps gbk_runes bs = Some rs ->
    exists ts, lex_all gbk_runes bs = Ok ts /\ cm_writes ts = flat_map gap_entries rs /\ chain_ok 0 rs
               /\ 0 :: tok_lines ts = map gr_p rs.
  Proof.
    intros bs rs H. unfold file_gaps in H.
    destruct (lex_gaps (S (S (length bs))) None None (skip_first_line bs) [] rs 0) as [ts [H1 [H2 [H3 H4]]]];
      [exact H|cbn [pline]; lia|cbn [pline]; rewrite skip_first_line_line; lia|rewrite skip_first_line_line; lia|].
    exists ts. split; [exact H1|]. split; [exact H2|]. split; [exact H3|exact H4].
  Qed.
End Layout.

(* ------------------------------------------------------------------ what the parser's view of the tokens keeps *)
Lemma lost_run_comments : forall r es cs es' cs' r',
  lost_run r es cs = (es', cs', r') -> cs ++ flat_map lcomments r = cs' ++ flat_map lcomments r'.
Proof.
  induction r as [|t r IH]; intros es cs es' cs' r' H; cbn [lost_run] in H; [injection H as <- <- <-; reflexivity|].
  destruct (tkind_eq_dec (tk (lt t)) TkEOF) as [He|Hne].
  - rewrite He in H. injection H as <- <- <-. reflexivity.
  - rewrite (match_eof _ _ _ Hne) in H. destruct (is_unfinished_str t).
    + apply IH in H. rewrite <- H. cbn [flat_map]. rewrite <- app_assoc. reflexivity.
    + injection H as <- <- <-. cbn [flat_map]. rewrite <- app_assoc. reflexivity.
Qed.

Lemma parser_view_comments : forall ts, cm_writes (parser_view ts) = cm_writes ts.
Proof.
  intros [|t1 r]; [reflexivity|]. unfold parser_view. destruct (is_unfinished_str t1); [|reflexivity].
  destruct (lost_run r [] []) as [[es cs] r'] eqn:E. apply lost_run_comments in E.
  unfold cm_writes. cbn [flat_map lcomments app] in *. rewrite <- app_assoc, <- E. reflexivity.
Qed.

Lemma firstn_full : forall (A : Type) k (l : list A), length (firstn k l) = length l -> firstn k l = l.
Proof. intros A k l H. rewrite firstn_length in H. apply firstn_all2. lia. Qed.

(* ------------------------------------------------------------------ the theorem *)
Section File.
  Variable gbk_runes : list N -> Z.
  Variable classify : list N -> numcls.

  Lemma reads_all_writes : forall bs ts, lex_all gbk_runes bs = Ok ts -> parser_reads_all gbk_runes classify bs = true ->
    comment_writes gbk_runes classify bs = Ok (Some (cm_writes ts)).
  Proof.
    intros bs ts Hl H. unfold parser_reads_all in H. unfold comment_writes. rewrite Hl in *. cbv zeta in H.
    unfold consumed_tokens in *.
    destruct (p_block_loc classify (fuel_of_tokens (parser_view ts)) (init_pst (parser_view ts))) as [[b st1]| |]; try discriminate H.
    destruct (Nat.leb 31 _); [discriminate H|].
    destruct (tk_eqb _ TkEOF).
    - rewrite parser_view_comments. reflexivity.
    - apply Nat.eqb_eq in H. apply firstn_full in H. rewrite H, parser_view_comments. reflexivity.
  Qed.

  Theorem comment_attach_file : forall bs, file_class gbk_runes classify bs = true ->
    forall L, pure_at (file_table gbk_runes bs) L = None ->
      doc_comment gbk_runes classify bs L = Ok (Some (spec_comment (file_table gbk_runes bs) L)).
  Proof.
    intros bs Hc L HL. unfold file_class in Hc. apply andb_true_iff in Hc. destruct Hc as [Hg Hr].
    unfold file_table in *. destruct (file_gaps gbk_runes bs) as [rs|] eqn:Eg; [|discriminate Hg].
    destruct (file_layout gbk_runes bs rs Eg) as [ts [Hlex [Hcm [Hch _]]]].
    destruct (table_attach rs 0 Hch) as [Hguard Hspec].
    unfold doc_comment. rewrite (reads_all_writes bs ts Hlex Hr). rewrite Hcm.
    rewrite (attach_lookup _ Hguard). rewrite (Hspec L HL). reflexivity.
  Qed.

  (* the guard on the entries, discharged for the class (the statement the partial theorem assumed) *)
  Theorem file_attach_guard : forall bs, file_class gbk_runes classify bs = true ->
    exists es, comment_writes gbk_runes classify bs = Ok (Some es) /\ attach_guard es = true.
  Proof.
    intros bs Hc. unfold file_class in Hc. apply andb_true_iff in Hc. destruct Hc as [Hg Hr].
    destruct (file_gaps gbk_runes bs) as [rs|] eqn:Eg; [|discriminate Hg].
    destruct (file_layout gbk_runes bs rs Eg) as [ts [Hlex [Hcm [Hch _]]]].
    exists (cm_writes ts). split; [apply (reads_all_writes bs ts Hlex Hr)|]. rewrite Hcm. apply (table_attach rs 0 Hch).
  Qed.
  (* the side condition on L holds for every line a token ends on (a declaration's name is a token): such a line is
     never a comment-only line *)
  Theorem token_lines_no_comment : forall bs ts, file_class gbk_runes classify bs = true ->
    lex_all gbk_runes bs = Ok ts ->
    forall t, In t ts -> tk (lt t) <> TkEOF -> pure_at (file_table gbk_runes bs) (tline (lt t)) = None.
  Proof.
    intros bs ts Hc Hl t Ht Hk. unfold file_class in Hc. apply andb_true_iff in Hc. destruct Hc as [Hg _].
    unfold file_table. destruct (file_gaps gbk_runes bs) as [rs|] eqn:Eg; [|discriminate Hg].
    destruct (file_layout gbk_runes bs rs Eg) as [ts' [Hlex [_ [Hch Htl]]]]. rewrite Hl in Hlex. injection Hlex as <-.
    rewrite pure_at_gaps. apply (chain_p_no_pure rs 0 Hch).
    rewrite <- Htl. right. unfold tok_lines. apply in_map_iff. exists t. split; [reflexivity|].
    apply filter_In. split; [exact Ht|]. unfold tk_eqb. destruct (tkind_eq_dec (tk (lt t)) TkEOF); [congruence|reflexivity].
  Qed.
  (* a file without syntax errors (lexical errors do not matter) is read to its end *)
  Lemma no_syntax_error_reads_all : forall bs b le,
    parse_bytes gbk_runes classify bs = Ok (PR b le []) -> parser_reads_all gbk_runes classify bs = true.
  Proof.
    intros bs b le H. unfold parse_bytes in H. unfold parser_reads_all.
    destruct (lex_all gbk_runes bs) as [ts| |]; cbn [rbind] in H; try discriminate H.
    cbv zeta. unfold parse_tokens in H. unfold consumed_tokens.
    destruct (p_block_loc classify (fuel_of_tokens (parser_view ts)) (init_pst (parser_view ts))) as [[b1 st1]| |];
      cbn [rbind] in H; try discriminate H.
    destruct (Nat.leb 31 _); [discriminate H|]. injection H as _ _ Hpe.
    unfold expect in *. destruct (tk_eqb (now_kind (next st1)) TkEOF) eqn:E.
    - rewrite E. apply Nat.eqb_refl.
    - unfold err in Hpe. cbn [perrs] in Hpe. destruct (perrs (next st1)); discriminate Hpe.
  Qed.

  Corollary comment_attach_valid_file : forall bs b le rs,
    parse_bytes gbk_runes classify bs = Ok (PR b le []) -> file_gaps gbk_runes bs = Some rs ->
    forall L, pure_at (table_of_gaps rs) L = None ->
      doc_comment gbk_runes classify bs L = Ok (Some (spec_comment (table_of_gaps rs) L)).
  Proof.
    intros bs b le rs Hp Hg L HL.
    assert (Hc : file_class gbk_runes classify bs = true).
    { unfold file_class. rewrite Hg. apply (no_syntax_error_reads_all bs b le Hp). }
    assert (Ht : file_table gbk_runes bs = table_of_gaps rs) by (unfold file_table; rewrite Hg; reflexivity).
    rewrite <- Ht in *. apply comment_attach_file; assumption.
  Qed.
  (* the documentation text of a hover (textdocument_hover.go getHoverStr: ConvertStrToUtf8(GetStrComment(GetLineComment))),
     end to end from the file bytes: the spec comment, cleaned up line by line; bytes unchanged when that text is
     valid UTF-8 without a two-byte character (the open finding C13-two-byte-utf8 is the other case) *)
  Theorem hover_doc_file : forall (gbk_decode : list N -> option (list N)) bs es,
    file_class gbk_runes classify bs = true -> comment_writes gbk_runes classify bs = Ok (Some es) ->
    forall L, pure_at (file_table gbk_runes bs) L = None ->
      hover_doc gbk_decode es L = convert gbk_decode (get_str_comment (spec_comment (file_table gbk_runes bs) L)) /\
      forall cps, get_str_comment (spec_comment (file_table gbk_runes bs) L) = Base.Utf8.utf8_of cps ->
        forallb Base.Utf8.scalar cps = true -> existsb Base.Utf8.is_two_byte cps = false ->
        hover_doc gbk_decode es L = get_str_comment (spec_comment (file_table gbk_runes bs) L).
  Proof.
    intros gbk_decode bs es Hc Hw L HL.
    assert (Hd := comment_attach_file bs Hc L HL). unfold doc_comment in Hd. rewrite Hw in Hd. injection Hd as Hd.
    unfold hover_doc. rewrite Hd. split; [reflexivity|].
    intros cps He Hs Ht. rewrite He. apply Proofs.CodecProofs.convert_identity; assumption.
  Qed.
End File.
Print Assumptions comment_attach_file.
Print Assumptions token_lines_no_comment.
