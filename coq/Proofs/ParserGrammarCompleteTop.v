(* C03, token level, completeness: top level.  Derivable token lists end with their only EOF token; a Chunk is
   parsed by parse_tokens with fuel_of_tokens without any parse error (and the lexical errors are exactly those
   carried by the tokens, unless they trigger the 31-error cut-off). *)
From Coq Require Import List NArith ZArith Bool Arith Lia.
From LH Require Import Base.Bytes Base.Res Model.Lexer Model.Ast Model.Parser Model.LuaFront Spec.LuaGrammar.
From LH Require Import Proofs.ParserGrammarBase Proofs.ParserGrammarMono Proofs.ParserGrammarFlat
     Proofs.ParserGrammarComplete Proofs.ParserGrammarPost Proofs.ParserGrammarCompleteMain.
From LH Require Import Proofs.LexerTotalWf Proofs.ParserTotalBase Proofs.ParserTotalSteps Proofs.ParserTotalMain.
Import ListNotations.


(* ------------------------------------------------------------------ derivable token lists are well formed *)
Lemma T_wfl_up k ts r : T k ts r -> k <> TkEOF -> wfl r -> wfl ts.
Proof. intros (t & -> & K) N W. constructor; [congruence | assumption]. Qed.
Lemma cons_wfl_up t r : kd t <> TkEOF -> wfl r -> wfl (t :: r).
Proof. intros; constructor; assumption. Qed.

Ltac tup := match goal with H : T ?k ?ts _ |- wfl ?ts => apply (T_wfl_up _ _ _ H); [discriminate|] end.

Lemma nametail_wfl ts r : NameTail ts r -> wfl r -> wfl ts.
Proof. induction 1; intros W; auto. repeat tup. auto. Qed.
Lemma namelist_wfl ts r : NameList ts r -> wfl r -> wfl ts.
Proof. intros (r1 & H1 & H2) W. tup. eapply nametail_wfl; eauto. Qed.
Lemma attrib_wfl c ts r : Attrib c ts r -> wfl r -> wfl ts.
Proof.
  intros H W. destruct H as [ts N | ts r1 t r2 r H1 E K S H2 | ts r1 t r2 r H1 E K S H2]; auto;
    (tup; subst r1; apply cons_wfl_up; [congruence|]; tup; assumption).
Qed.
Lemma atttail_wfl n ts r : AttTail n ts r -> wfl r -> wfl ts.
Proof. induction 1; intros W; auto. repeat tup. eapply attrib_wfl; eauto. Qed.
Lemma attnamelist_wfl n ts r : AttNameList n ts r -> wfl r -> wfl ts.
Proof.
  intros (c & m & r1 & r2 & H1 & H2 & H3 & _) W. tup.
  eapply attrib_wfl; eauto. eapply atttail_wfl; eauto.
Qed.
Lemma partail_wfl ts r : ParTail ts r -> wfl r -> wfl ts.
Proof. induction 1; intros W; auto; repeat tup; auto. Qed.
Lemma parlist_wfl ts r : ParList ts r -> wfl r -> wfl ts.
Proof. intros H W. destruct H; auto; repeat tup; auto. eapply partail_wfl; eauto. Qed.
Lemma dotnames_wfl ts r : DotNames ts r -> wfl r -> wfl ts.
Proof. induction 1; intros W; auto; repeat tup; auto. Qed.
Lemma funcname_wfl ts r : FuncName ts r -> wfl r -> wfl ts.
Proof.
  intros (r1 & r2 & H1 & H2 & H3) W. tup. eapply dotnames_wfl; eauto.
  destruct H3; auto. repeat tup. auto.
Qed.

Lemma sep_kind_not_eof k : k = TkSepComma \/ k = TkSepSemi -> k <> TkEOF.
Proof. intros [->| ->]; discriminate. Qed.

Section WflUp.
  Variable classify : list N -> numcls.
  Definition Up (ts r : list ltok) : Prop := wfl r -> wfl ts.

  Ltac up :=
    repeat first
      [ assumption
      | match goal with
        | H : T ?k ?ts _ |- wfl ?ts => apply (T_wfl_up _ _ _ H); [discriminate|]
        | H : Up ?ts _ |- wfl ?ts => apply H
        | H : NameList ?ts _ |- wfl ?ts => apply (namelist_wfl _ _ H)
        | H : AttNameList _ ?ts _ |- wfl ?ts => apply (attnamelist_wfl _ _ _ H)
        | H : ParList ?ts _ |- wfl ?ts => apply (parlist_wfl _ _ H)
        | H : FuncName ?ts _ |- wfl ?ts => apply (funcname_wfl _ _ H)
        | E : ?ts = ?t :: _ |- wfl ?ts => rewrite E; apply cons_wfl_up;
            [first [ apply unop_not_eof; assumption | apply binop_not_eof; assumption
                   | apply sep_kind_not_eof; assumption | congruence ] |]
        end ].

  Theorem wfl_up_all :
    (forall ts r, Block classify ts r -> Up ts r) /\
    (forall ts r, RetTail classify ts r -> Up ts r) /\
    (forall ts r, Stats classify ts r -> Up ts r) /\
    (forall ts r, Stat classify ts r -> Up ts r) /\
    (forall ts r, IfTail classify ts r -> Up ts r) /\
    (forall ts r, ForStep classify ts r -> Up ts r) /\
    (forall ts r, VarTail classify ts r -> Up ts r) /\
    (forall ts r, ExpList classify ts r -> Up ts r) /\
    (forall ts r, ExpTail classify ts r -> Up ts r) /\
    (forall ts r, Exp classify ts r -> Up ts r) /\
    (forall ts r, Operand classify ts r -> Up ts r) /\
    (forall ts r, BinTail classify ts r -> Up ts r) /\
    (forall ts r, Simple classify ts r -> Up ts r) /\
    (forall (k : pkind) ts r, PrefixExp classify k ts r -> Up ts r) /\
    (forall (k0 : pkind) ts (k : pkind) r, Suffixes classify k0 ts k r -> Up ts r) /\
    (forall ts r, Args classify ts r -> Up ts r) /\
    (forall ts r, Table classify ts r -> Up ts r) /\
    (forall ts r, FieldTail classify ts r -> Up ts r) /\
    (forall ts r, Field classify ts r -> Up ts r) /\
    (forall ts r, FuncBody classify ts r -> Up ts r).
  Proof.
    apply (grammar_mind classify (fun ts r => Up ts r) (fun ts r => Up ts r) (fun ts r => Up ts r)
             (fun ts r => Up ts r) (fun ts r => Up ts r) (fun ts r => Up ts r) (fun ts r => Up ts r)
             (fun ts r => Up ts r) (fun ts r => Up ts r) (fun ts r => Up ts r) (fun ts r => Up ts r)
             (fun ts r => Up ts r) (fun ts r => Up ts r) (fun _ ts r => Up ts r) (fun _ ts _ r => Up ts r)
             (fun ts r => Up ts r) (fun ts r => Up ts r) (fun ts r => Up ts r) (fun ts r => Up ts r)
             (fun ts r => Up ts r)); intros; intros W; up.
  Qed.
End WflUp.

(* ------------------------------------------------------------------ the top level *)
Lemma wfl_wfr l : wfl l -> wfr l.
Proof.
  induction 1 as [e K | t r N W [Hne Hl]].
  - split; [discriminate | exact K].
  - split; [discriminate|]. destruct r; [congruence | exact Hl].
Qed.

Lemma rest_next_last st t : rest st = [t] -> rest (next st) = [mkLtok (lt t) [] []].
Proof. intros R. unfold next. rewrite R. reflexivity. Qed.

#[local] Opaque expect next err la.

Section Top.
  Variable classify : list N -> numcls.

  Lemma chunk_wfl ts : Chunk classify ts -> wfl ts.
  Proof.
    intros (r & e & HB & -> & K). destruct (wfl_up_all classify) as (U & _).
    apply (U _ _ HB). constructor. exact K.
  Qed.

  (* what BeginAnalyze returns on a chunk: no parse error; the lexical errors are those carried by the tokens *)
  Definition chunk_result (ts : list ltok) (r : parse_result) : Prop :=
    if Nat.leb 31 (length (flat_map lerrs ts)) then r = PRTooMany
    else exists b, r = PR b (flat_map lerrs ts) [].

  Theorem parse_tokens_complete_gen ts fuel :
    Chunk classify ts -> 10 * length ts + 9 <= fuel ->
    exists r, parse_tokens classify fuel ts = Ok r /\ chunk_result ts r.
  Proof.
    intros HC Hf. pose proof (chunk_wfl ts HC) as W. destruct HC as (r & e & HB & -> & K).
    unfold parse_tokens.
    destruct (PT_all classify fuel) as (_ & I2 & _).
    destruct (I2 (init_pst ts)) as (b & st1 & E & _); [apply wfl_wfr; exact W | rewrite m_init; lia |].
    destruct (complete_all classify) as (CB & _).
    assert (A0 : at_ (init_pst ts) ts []) by (repeat split; assumption).
    pose proof (pblock_loc classify _ _ (CB _ _ HB) fuel (init_pst ts) [] A0) as P.
    destruct (mono_all classify fuel) as (_ & M2 & _). pose proof (M2 _ _ _ E) as (_ & Hlex & _).
    rewrite E in *. cbn [post] in P. destruct P as (R & Pe & _).
    rewrite (expect_ok st1 e [] TkEOF R K).
    assert (Hp : perrs (next st1) = []) by (rewrite perrs_next; exact Pe).
    assert (Hl : lseen (next st1) = flat_map lerrs ts).
    { pose proof (lex_total_next st1) as X. rewrite Hlex in X. unfold lex_total in X.
      rewrite (rest_next_last _ _ R) in X. cbn in X. rewrite app_nil_r in X. exact X. }
    rewrite Hp, Hl. cbn [length Nat.add]. unfold chunk_result.
    destruct (Nat.leb 31 (length (flat_map lerrs ts))); eauto.
  Qed.

  Theorem parse_tokens_complete ts :
    Chunk classify ts -> exists r, parse_tokens classify (fuel_of_tokens ts) ts = Ok r /\ chunk_result ts r.
  Proof. intros HC. apply parse_tokens_complete_gen; [exact HC | unfold fuel_of_tokens; lia]. Qed.

  (* as the pipeline runs it: bytes -> lexer -> parser_view -> parser *)
  Variable gbk_runes : list N -> Z.
  Corollary parse_bytes_complete bs ts :
    lex_all gbk_runes bs = Ok ts -> Chunk classify (parser_view ts) ->
    exists r, parse_bytes gbk_runes classify bs = Ok r /\ chunk_result (parser_view ts) r.
  Proof.
    intros E HC. unfold parse_bytes. rewrite E. cbn [rbind]. cbv zeta. apply parse_tokens_complete. exact HC.
  Qed.
End Top.
