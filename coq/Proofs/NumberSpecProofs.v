(* The executable numeral spec (spec_value) is exactly the declarative one (Denotes) of Spec/LuaNumeral.v. *)
From Coq Require Import List NArith ZArith Bool Lia ZifyN ZifyNat ZifyBool.
From LH Require Import Spec.LuaNumeral.
Import ListNotations.
Local Open Scope N_scope.

(* ---------- span ---------- *)
Definition stops (p : N -> bool) (r : list N) : Prop :=
  match r with [] => True | c :: _ => p c = false end.

Lemma num_span_spec p s : forall a r, num_span p s = (a, r) ->
  s = a ++ r /\ forallb p a = true /\ stops p r.
Proof.
  induction s as [|c s IH]; intros a r H; cbn in H.
  - injection H as <- <-. cbn. auto.
  - destruct (p c) eqn:Hc.
    + destruct (num_span p s) as [a' b'] eqn:E. injection H as <- <-.
      destruct (IH a' b' eq_refl) as (H1 & H2 & H3). subst s. cbn. rewrite Hc, H2. auto.
    + injection H as <- <-. cbn. rewrite Hc. auto.
Qed.

Lemma num_span_app p a r : forallb p a = true -> stops p r -> num_span p (a ++ r) = (a, r).
Proof.
  induction a as [|c a IH]; intros Ha Hr; cbn.
  - destruct r as [|c r]; [reflexivity|]. cbn in Hr. cbn. rewrite Hr. reflexivity.
  - cbn in Ha. apply andb_true_iff in Ha as [Hc Ha]. rewrite Hc, (IH Ha Hr). reflexivity.
Qed.

Lemma forallb_app_iff (p : N -> bool) a b : forallb p (a ++ b) = true <-> forallb p a = true /\ forallb p b = true.
Proof. rewrite forallb_app, andb_true_iff. tauto. Qed.

Lemma forallb_In (p : N -> bool) s c : forallb p s = true -> In c s -> p c = true.
Proof. intros H Hin. rewrite forallb_forall in H. auto. Qed.

(* ---------- digits, exponent, mantissa ---------- *)
Lemma num_digits1_iff isd s : num_digits1 isd s = true <-> Digits1 isd s.
Proof.
  unfold num_digits1, Digits1. destruct s as [|c s]; cbn [num_nonempty andb].
  - split; [discriminate|]. intros [H _]. congruence.
  - split; intros H; [split; [discriminate|exact H]|apply H].
Qed.

Lemma num_nonempty_app a b : num_nonempty (a ++ b) = num_nonempty a || num_nonempty b.
Proof. destruct a; cbn; [destruct b|]; reflexivity. Qed.

Lemma num_nonempty_true s : num_nonempty s = true <-> s <> [].
Proof. destruct s; cbn; split; congruence. Qed.

Lemma digit_not_sign d : num_digit d = true -> (d =? 43) || (d =? 45) = false.
Proof. unfold num_digit. intros H. lia. Qed.

Lemma exponent_sound mark s : num_exponent_ok mark s = true -> Exponent mark s (num_nonempty s).
Proof.
  destruct s as [|c r]; cbn [num_exponent_ok num_nonempty]; intros H; [constructor|].
  apply andb_true_iff in H as [Hc H]. apply N.eqb_eq in Hc. subst c.
  destruct r as [|d r'].
  - discriminate H.
  - destruct ((d =? 43) || (d =? 45)) eqn:Hs.
    + apply num_digits1_iff in H.
      apply (Exp_present mark [d] r'); [|exact H].
      apply orb_true_iff in Hs as [Hs|Hs]; apply N.eqb_eq in Hs; subst d; auto.
    + apply num_digits1_iff in H. apply (Exp_present mark [] (d :: r')); auto.
Qed.

Lemma exponent_complete mark s ex : Exponent mark s ex ->
  num_exponent_ok mark s = true /\ ex = num_nonempty s.
Proof.
  intros [|sg ds Hsg Hds]; [cbn; auto|].
  split; [|reflexivity]. cbn [num_exponent_ok]. rewrite N.eqb_refl. cbn [andb].
  destruct Hds as [Hne Hall].
  destruct Hsg as [->|[->| ->]]; cbn [app].
  - destruct ds as [|d ds]; [congruence|].
    cbn in Hall. apply andb_true_iff in Hall as [Hd Hall].
    rewrite (digit_not_sign d Hd). apply num_digits1_iff. split; [discriminate|]. cbn. rewrite Hd, Hall. reflexivity.
  - cbn. apply num_digits1_iff. split; assumption.
  - cbn. apply num_digits1_iff. split; assumption.
Qed.

Lemma exponent_stops mark s ex (isd : N -> bool) : Exponent mark s ex -> isd mark = false -> stops isd s.
Proof. intros [|] Hm; cbn; auto. Qed.

Lemma mant_exp_sound isd mark t : num_mant_exp isd mark t = true ->
  exists m pt e, t = m ++ e /\ Mantissa isd m pt /\ Exponent mark e (num_nonempty e) /\
                 (pt = false -> num_digits1 isd m = true).
Proof.
  unfold num_mant_exp. destruct (num_span isd t) as [a r1] eqn:E1.
  destruct (num_span_spec _ _ _ _ E1) as (Ht & Ha & Hs1). subst t.
  destruct r1 as [|c r].
  - intros H. exists a, false, []. rewrite app_nil_r. apply num_nonempty_true in H.
    assert (Hd : Digits1 isd a) by (split; assumption).
    repeat split; try assumption; try constructor; try assumption.
    intros _. apply num_digits1_iff. exact Hd.
  - destruct (c =? 46) eqn:Hc.
    + apply N.eqb_eq in Hc. subst c.
      destruct (num_span isd r) as [b r2] eqn:E2.
      destruct (num_span_spec _ _ _ _ E2) as (Hr & Hb & Hs2). subst r.
      intros H. apply andb_true_iff in H as [Hne He].
      exists (a ++ 46 :: b), true, r2. split; [rewrite <- app_assoc; reflexivity|].
      split; [|split; [apply exponent_sound; exact He|discriminate]].
      constructor; try assumption.
      rewrite <- num_nonempty_app in Hne. apply num_nonempty_true. exact Hne.
    + intros H. apply andb_true_iff in H as [Hne He].
      exists a, false, (c :: r). apply num_nonempty_true in Hne.
      assert (Hd : Digits1 isd a) by (split; assumption).
      repeat split; try assumption; try (constructor; assumption).
      * apply exponent_sound. exact He.
      * intros _. apply num_digits1_iff. exact Hd.
Qed.

Lemma mant_exp_complete isd mark m pt e ex :
  Mantissa isd m pt -> Exponent mark e ex -> isd 46 = false -> isd mark = false -> mark <> 46 ->
  num_mant_exp isd mark (m ++ e) = true.
Proof.
  intros Hm He H46 Hmk Hne. pose proof (exponent_stops mark e ex isd He Hmk) as Hst.
  destruct (exponent_complete _ _ _ He) as [Hok _].
  unfold num_mant_exp. destruct Hm as [a [Hane Ha]|a b Ha Hb Hab].
  - rewrite (num_span_app isd a e Ha Hst).
    apply num_nonempty_true in Hane.
    destruct e as [|c r]; [exact Hane|].
    assert (c = mark) by (inversion He; reflexivity). subst c.
    apply N.eqb_neq in Hne. rewrite Hne, Hane, Hok. reflexivity.
  - rewrite <- app_assoc. cbn [app].
    rewrite (num_span_app isd a (46 :: b ++ e) Ha H46).
    rewrite N.eqb_refl. rewrite (num_span_app isd b e Hb Hst).
    rewrite <- num_nonempty_app. apply num_nonempty_true in Hab. rewrite Hab, Hok. reflexivity.
Qed.

(* the characters of mantissa / exponent texts *)
Lemma mantissa_chars isd m pt c : Mantissa isd m pt -> In c m -> isd c = true \/ c = 46.
Proof.
  intros [a [_ Ha]|a b Ha Hb _] Hin.
  - left. exact (forallb_In _ _ _ Ha Hin).
  - apply in_app_or in Hin as [Hin|[Hin|Hin]].
    + left. exact (forallb_In _ _ _ Ha Hin).
    + right. congruence.
    + left. exact (forallb_In _ _ _ Hb Hin).
Qed.
Lemma exponent_chars mark e ex c : Exponent mark e ex -> In c e ->
  c = mark \/ c = 43 \/ c = 45 \/ num_digit c = true.
Proof.
  intros [|sg ds Hsg [_ Hds]] Hin; [destruct Hin|].
  destruct Hin as [<-|Hin]; [auto|].
  apply in_app_or in Hin as [Hin|Hin].
  - destruct Hsg as [->|[->| ->]]; cbn in Hin; intuition.
  - right; right; right. exact (forallb_In _ _ _ Hds Hin).
Qed.

Lemma hexdigit_of_digit c : num_digit c = true -> num_hexdigit c = true.
Proof. unfold num_hexdigit. intros ->. reflexivity. Qed.

(* ---------- hex body, LuaJIT suffix ---------- *)
Lemma num_hex_body_some s r : num_hex_body s = Some r <-> s = 48 :: 120 :: r.
Proof.
  unfold num_hex_body. destruct s as [|a [|b s]]; try (split; intros H; discriminate H).
  destruct ((a =? 48) && (b =? 120)) eqn:E.
  - apply andb_true_iff in E as [E1 E2]. apply N.eqb_eq in E1, E2. subst. split; intros H; congruence.
  - split; intros H; [discriminate|]. injection H as -> -> ->. cbn in E. discriminate.
Qed.

Lemma num_hex_body_in s r : num_hex_body s = Some r -> In 120 s.
Proof. intros H. apply num_hex_body_some in H. subst. cbn. auto. Qed.

Lemma num_is_hex_int_iff s : num_is_hex_int s = true <-> exists hs, s = 48 :: 120 :: hs /\ Digits1 num_hexdigit hs.
Proof.
  unfold num_is_hex_int. destruct (num_hex_body s) as [r|] eqn:E.
  - apply num_hex_body_some in E. subst. rewrite num_digits1_iff. split.
    + intros H. exists r. auto.
    + intros (hs & H1 & H2). injection H1 as <-. exact H2.
  - split; [discriminate|]. intros (hs & H1 & _). subst. cbn in E. discriminate.
Qed.

Lemma strip_jit_sound s i : num_strip_jit s = Some i -> s = i ++ [108; 108] \/ s = i ++ [117; 108; 108].
Proof.
  unfold num_strip_jit. destruct (rev s) as [|a [|b r]] eqn:E; try discriminate.
  destruct ((a =? 108) && (b =? 108)) eqn:Hab; [|discriminate].
  apply andb_true_iff in Hab as [Ha Hb]. apply N.eqb_eq in Ha, Hb. subst a b.
  assert (Hs : s = rev r ++ [108; 108]).
  { rewrite <- (rev_involutive s), E. cbn. rewrite <- app_assoc. reflexivity. }
  destruct r as [|c r'].
  - intros H. injection H as <-. left. exact Hs.
  - destruct (c =? 117) eqn:Hc.
    + apply N.eqb_eq in Hc. subst c. intros H. injection H as <-. right.
      rewrite Hs. cbn. rewrite <- app_assoc. reflexivity.
    + intros H. injection H as <-. left. exact Hs.
Qed.

Lemma strip_jit_complete isd i suf :
  Digits1 isd i -> isd 117 = false -> JitSuffix suf -> num_strip_jit (i ++ suf) = Some i.
Proof.
  intros [Hne Hall] H117 Hsuf. unfold num_strip_jit.
  destruct Hsuf as [->| ->]; rewrite rev_app_distr; cbn [rev app].
  - cbn. destruct (rev i) as [|c r'] eqn:E.
    + apply (f_equal (@rev N)) in E. rewrite rev_involutive in E. cbn in E. congruence.
    + assert (Hc : isd c = true).
      { eapply forallb_In; [exact Hall|]. apply in_rev. rewrite E. left. reflexivity. }
      destruct (c =? 117) eqn:Hcu.
      * apply N.eqb_eq in Hcu. subst c. congruence.
      * rewrite <- E, rev_involutive. reflexivity.
  - cbn. rewrite rev_involutive. reflexivity.
Qed.

(* ---------- spec_value_lc = DenotesLc ---------- *)
Lemma digits1_no_nondigit isd s c : num_digits1 isd s = true -> In c s -> isd c = true.
Proof. intros H Hin. apply num_digits1_iff in H as [_ H]. eapply forallb_In; eauto. Qed.

Theorem spec_value_lc_sound t v : spec_value_lc t = Some v -> DenotesLc t v.
Proof.
  unfold spec_value_lc.
  destruct (num_digits1 num_digit t) eqn:Hd.
  { apply num_digits1_iff in Hd.
    destruct (num_value 10 t <=? max_int64) eqn:Hv; intros H; injection H as <-.
    - apply D_dec_int; [exact Hd|]. apply N.leb_le. exact Hv.
    - apply D_dec_int_overflow; [exact Hd|]. apply N.leb_gt. exact Hv. }
  destruct (num_is_hex_int t) eqn:Hh.
  { intros H. injection H as <-. apply num_is_hex_int_iff in Hh as (hs & -> & Hhs).
    unfold num_hex_int_value. cbn. apply D_hex_int. exact Hhs. }
  match goal with |- (if ?b then _ else _) = _ -> _ => destruct b eqn:Hf end.
  { intros H. injection H as <-. apply orb_true_iff in Hf as [Hf|Hf].
    - destruct (mant_exp_sound _ _ _ Hf) as (m & pt & e & -> & Hm & He & Hint).
      apply (D_dec_float m pt e (num_nonempty e)); try assumption.
      destruct pt; [reflexivity|]. destruct e as [|c e]; [|reflexivity].
      rewrite app_nil_r in Hd. rewrite (Hint eq_refl) in Hd. discriminate.
    - destruct (num_hex_body t) as [r|] eqn:Hb; [|discriminate].
      apply num_hex_body_some in Hb. subst t.
      destruct (mant_exp_sound _ _ _ Hf) as (m & pt & e & -> & Hm & He & Hint).
      apply (D_hex_float m pt e (num_nonempty e)); try assumption.
      destruct pt; [reflexivity|]. destruct e as [|c e]; [|reflexivity].
      rewrite app_nil_r in Hh. unfold num_is_hex_int in Hh. cbn in Hh. rewrite (Hint eq_refl) in Hh. discriminate. }
  destruct (num_strip_jit t) as [i|] eqn:Hs; [|discriminate].
  apply strip_jit_sound in Hs.
  assert (Hsuf : exists suf, t = i ++ suf /\ JitSuffix suf).
  { destruct Hs as [Hs|Hs]; [exists [108; 108]|exists [117; 108; 108]]; unfold JitSuffix; auto. }
  destruct Hsuf as (suf & -> & Hsuf).
  destruct (num_digits1 num_digit i) eqn:Hdi.
  { destruct (num_value 10 i <? two64) eqn:Hv; [|discriminate]. intros H. injection H as <-.
    apply D_jit_dec; [apply num_digits1_iff; exact Hdi|exact Hsuf|apply N.ltb_lt; exact Hv]. }
  destruct (num_is_hex_int i) eqn:Hhi; [|discriminate].
  intros H. injection H as <-. apply num_is_hex_int_iff in Hhi as (hs & -> & Hhs).
  unfold num_hex_int_value. cbn. apply D_jit_hex; assumption.
Qed.

Lemma not_digits1_if_has isd s c : In c s -> isd c = false -> num_digits1 isd s = false.
Proof.
  intros Hin Hc. destruct (num_digits1 isd s) eqn:E; [|reflexivity].
  rewrite (digits1_no_nondigit _ _ _ E Hin) in Hc. discriminate.
Qed.

Lemma not_hex_int_if_no_x s : ~ In 120 s -> num_is_hex_int s = false.
Proof.
  intros H. destruct (num_is_hex_int s) eqn:E; [|reflexivity].
  apply num_is_hex_int_iff in E as (hs & -> & _). exfalso. apply H. cbn. auto.
Qed.

Lemma no_hex_body_if_no_x s : ~ In 120 s -> num_hex_body s = None.
Proof.
  intros H. destruct (num_hex_body s) eqn:E; [|reflexivity].
  exfalso. apply H. eapply num_hex_body_in; eauto.
Qed.

Lemma jit_suffix_chars suf c : JitSuffix suf -> In c suf -> c = 108 \/ c = 117.
Proof. intros [->| ->] Hin; cbn in Hin; intuition. Qed.

Lemma jit_suffix_head suf : JitSuffix suf -> exists c r, suf = c :: r /\ (c = 108 \/ c = 117).
Proof. intros [->| ->]; eauto. Qed.

(* a mantissa/exponent text with a point or an exponent contains a character that is no digit *)
Lemma float_has_nondigit isd mark m pt e ex :
  Mantissa isd m pt -> Exponent mark e ex -> pt || ex = true -> isd 46 = false -> isd mark = false ->
  exists c, In c (m ++ e) /\ isd c = false.
Proof.
  intros Hm He Hf H46 Hmk. destruct pt.
  - inversion Hm; subst. exists 46. split; [|exact H46]. apply in_or_app. left. apply in_or_app. right. left. reflexivity.
  - cbn in Hf. subst ex. inversion He; subst. exists mark. split; [|exact Hmk]. apply in_or_app. right. left. reflexivity.
Qed.

Theorem spec_value_lc_complete t v : DenotesLc t v -> spec_value_lc t = Some v.
Proof.
  intros H. unfold spec_value_lc. destruct H as
    [ds Hds Hv|ds Hds Hv|m pt e ex Hm He Hf|hs Hhs|m pt e ex Hm He Hf|ds suf Hds Hsuf Hv|hs suf Hhs Hsuf].
  - apply num_digits1_iff in Hds. rewrite Hds. apply N.leb_le in Hv. rewrite Hv. reflexivity.
  - apply num_digits1_iff in Hds. rewrite Hds. apply N.leb_gt in Hv. rewrite Hv. reflexivity.
  - (* decimal float *)
    destruct (float_has_nondigit num_digit 101 m pt e ex Hm He Hf eq_refl eq_refl) as (c & Hin & Hc).
    rewrite (not_digits1_if_has _ _ _ Hin Hc).
    assert (Hx : ~ In 120 (m ++ e)).
    { intros Hx. apply in_app_or in Hx as [Hx|Hx].
      - destruct (mantissa_chars _ _ _ _ Hm Hx) as [Hx'|Hx']; [cbn in Hx'|]; discriminate.
      - destruct (exponent_chars _ _ _ _ He Hx) as [Hx'|[Hx'|[Hx'|Hx']]]; try discriminate. }
    rewrite (not_hex_int_if_no_x _ Hx).
    rewrite (mant_exp_complete num_digit 101 m pt e ex Hm He eq_refl eq_refl) by discriminate.
    reflexivity.
  - (* hex integer *)
    rewrite (not_digits1_if_has num_digit (48 :: 120 :: hs) 120) by (cbn; auto).
    assert (Hh : num_is_hex_int (48 :: 120 :: hs) = true) by (apply num_is_hex_int_iff; eauto).
    rewrite Hh. reflexivity.
  - (* hex float *)
    rewrite (not_digits1_if_has num_digit (48 :: 120 :: m ++ e) 120) by (cbn; auto).
    destruct (float_has_nondigit num_hexdigit 112 m pt e ex Hm He Hf eq_refl eq_refl) as (c & Hin & Hc).
    assert (Hh : num_is_hex_int (48 :: 120 :: m ++ e) = false).
    { unfold num_is_hex_int. cbn. apply (not_digits1_if_has _ _ _ Hin Hc). }
    rewrite Hh. cbn [num_hex_body N.eqb Pos.eqb andb].
    rewrite (mant_exp_complete num_hexdigit 112 m pt e ex Hm He eq_refl eq_refl) by discriminate.
    rewrite orb_true_r. reflexivity.
  - (* LuaJIT decimal *)
    destruct (jit_suffix_head _ Hsuf) as (c & r & -> & Hc).
    assert (Hcd : num_digit c = false) by (destruct Hc as [->| ->]; reflexivity).
    rewrite (not_digits1_if_has num_digit (ds ++ c :: r) c) by (try apply in_or_app; cbn; auto).
    assert (Hx : ~ In 120 (ds ++ c :: r)).
    { intros Hx. apply in_app_or in Hx as [Hx|Hx].
      - destruct Hds as [_ Hall]. pose proof (forallb_In _ _ _ Hall Hx) as Hx'. discriminate.
      - destruct (jit_suffix_chars _ _ Hsuf Hx); discriminate. }
    rewrite (not_hex_int_if_no_x _ Hx), (no_hex_body_if_no_x _ Hx).
    assert (Hme : num_mant_exp num_digit 101 (ds ++ c :: r) = false).
    { unfold num_mant_exp. destruct Hds as [_ Hall]. rewrite (num_span_app num_digit ds (c :: r) Hall Hcd).
      destruct Hc as [->| ->]; cbn; rewrite andb_false_r; reflexivity. }
    rewrite Hme. cbn [orb].
    rewrite (strip_jit_complete num_digit ds (c :: r) Hds eq_refl Hsuf).
    apply num_digits1_iff in Hds. rewrite Hds. apply N.ltb_lt in Hv. rewrite Hv. reflexivity.
  - (* LuaJIT hex *)
    destruct (jit_suffix_head _ Hsuf) as (c & r & -> & Hc).
    assert (Hch : num_hexdigit c = false) by (destruct Hc as [->| ->]; reflexivity).
    rewrite (not_digits1_if_has num_digit (48 :: 120 :: hs ++ c :: r) 120) by (cbn; auto).
    assert (Hh : num_is_hex_int (48 :: 120 :: hs ++ c :: r) = false).
    { unfold num_is_hex_int. cbn. apply (not_digits1_if_has _ _ c); [apply in_or_app; cbn; auto|exact Hch]. }
    rewrite Hh.
    assert (Hme1 : num_mant_exp num_digit 101 (48 :: 120 :: hs ++ c :: r) = false) by reflexivity.
    rewrite Hme1. cbn [num_hex_body N.eqb Pos.eqb andb orb].
    assert (Hme2 : num_mant_exp num_hexdigit 112 (hs ++ c :: r) = false).
    { unfold num_mant_exp. destruct Hhs as [_ Hall]. rewrite (num_span_app num_hexdigit hs (c :: r) Hall Hch).
      destruct Hc as [->| ->]; cbn; rewrite andb_false_r; reflexivity. }
    rewrite Hme2.
    change (48 :: 120 :: hs ++ c :: r) with ((48 :: 120 :: hs) ++ c :: r).
    assert (Hd1 : Digits1 (fun x => num_hexdigit x || (x =? 120)) (48 :: 120 :: hs)).
    { split; [discriminate|]. cbn. destruct Hhs as [_ Hall].
      apply forallb_forall. intros x Hx. rewrite (forallb_In _ _ _ Hall Hx). reflexivity. }
    rewrite (strip_jit_complete _ _ (c :: r) Hd1 eq_refl Hsuf).
    rewrite (not_digits1_if_has num_digit (48 :: 120 :: hs) 120) by (cbn; auto).
    assert (Hh2 : num_is_hex_int (48 :: 120 :: hs) = true) by (apply num_is_hex_int_iff; eauto).
    rewrite Hh2. reflexivity.
Qed.

Theorem spec_value_iff s v : spec_value s = Some v <-> Denotes s v.
Proof. unfold spec_value, Denotes. split; [apply spec_value_lc_sound|apply spec_value_lc_complete]. Qed.

Corollary spec_numeral_iff s : spec_value s <> None <-> Numeral s.
Proof.
  unfold Numeral. split.
  - intros H. destruct (spec_value s) as [v|] eqn:E; [|congruence]. exists v. apply spec_value_iff. exact E.
  - intros [v Hv]. apply spec_value_iff in Hv. congruence.
Qed.

(* a numeral denotes exactly one value *)
Corollary denotes_functional s v1 v2 : Denotes s v1 -> Denotes s v2 -> v1 = v2.
Proof. intros H1 H2. apply spec_value_iff in H1, H2. congruence. Qed.
