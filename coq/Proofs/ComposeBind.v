(* Binder family, composition (C06 C11 C12 C14), part 1: model level.
   The two resolver theorems are composed: the position resolver (FindMinScope / FindLocVar, Proofs/PositionBind*.v:
   `define_local_core`) supplies the C05 hypotheses of the traversal-resolver theorem (Proofs/TraverseBind*.v:
   `refs_local_final`).  One boolean guard on the chunk - the guard of C05 alone:
     bind_guard W P = in_fragment P && laid2_b W P && no_repoint P
   (the parser shape tb_shape and the layout laid_b W of the traversal theorem follow from it: Proofs/ComposeBindLaid.v)
   plus the class guards: classB_ok per occurrence (B1 B2 B3 tags; B5 is repaired: no tag), classA_ok per name (B3 B4 tags).
   Results (all cursors columns sc <= col <= ec of the occurrence, both ends):
     - position_is_binder     : resolve_at answers the declaration Lua binds the occurrence to;
     - refs_local_closed      : references / rename = the binder's occurrence set of the variable (In-iff, NoDup);
     - c12_clause1_model      : every reference resolves via definition to the same declaration;
     - c12_clause2_model      : the occurrence is among the references of its own declaration;
     - complete_locals_names  : every visible local name is among the local labels (C14). *)
From Coq Require Import List NArith ZArith Bool Lia Permutation.
From LH Require Import Base.Bytes Model.Lexer Model.Ast Model.Scope Model.Globals Model.Resolve Spec.LuaScope
  Proofs.ResolveBasics Proofs.ResolveWitness
  Proofs.PositionBindBase Proofs.PositionBindFinal Proofs.PositionBindWitness
  Proofs.TraverseBindDefs Proofs.TraverseBind Proofs.TraverseBindRefs Proofs.TraverseBindLaidBase Proofs.TraverseBindLaid
  Proofs.TraverseBindSpecDecls Proofs.TraverseBindSpecLaid Proofs.TraverseBindFinal Proofs.ComposeBindLaid.
Import ListNotations.
Local Open Scope Z_scope.

(* ------------------------------------------------------------------ the guards *)
Definition bind_guard (W : Z) (P : block) : bool := in_fragment P && laid2_b W P && no_repoint P.

Lemma bind_guard_parts W P : bind_guard W P = true ->
  in_fragment P = true /\ tb_shape P = true /\ laid_b W P = true /\ laid2_b W P = true /\ no_repoint P = true.
Proof.
  unfold bind_guard. intros H.
  apply andb_true_iff in H. destruct H as [H H3]. apply andb_true_iff in H. destruct H as [H1 H2].
  assert (Hsh : shape_ok P = true).
  { unfold laid2_b in H2. apply andb_true_iff in H2. destruct H2 as [H2 _]. apply andb_true_iff in H2. destruct H2 as [H2 _].
    apply andb_true_iff in H2. apply H2. }
  split; [exact H1|]. split; [exact (frag_shape_tb_shape P H1 Hsh)|]. split; [exact (laid2_laid W P H2)|].
  split; assumption.
Qed.

Lemma bind_guard_core W P : bind_guard W P = core_guards_b W P.
Proof. reflexivity. Qed.

(* per occurrence: no class tag on it (B1 B2 B3), no B3 / B4 tag on any occurrence of its name *)
Definition occ_guard (P : block) (o : socc) : bool := classB_ok o && classA_ok (bind_file P) (s_name o).

(* per variable (declaration Loc d): every occurrence the binder gives d satisfies occ_guard *)
Definition var_guard (P : block) (d : loc) : bool :=
  forallb (fun s => negb (binding_eqb (s_bind s) (BLocal d)) || occ_guard P s) (bind_file P).

(* whole chunk *)
Definition all_occ_guard (P : block) : bool := forallb (occ_guard P) (bind_file P).

Lemma occ_guard_parts P o : occ_guard P o = true -> classB_ok o = true /\ classA_ok (bind_file P) (s_name o) = true.
Proof. unfold occ_guard. intros H. apply andb_true_iff in H. exact H. Qed.

Lemma var_guard_occ P d s : var_guard P d = true -> In s (bind_file P) -> s_bind s = BLocal d -> occ_guard P s = true.
Proof.
  unfold var_guard. intros H Hin Hb. rewrite forallb_forall in H. specialize (H s Hin).
  rewrite (proj2 (binding_eqb_local _ _) Hb) in H. exact H.
Qed.

Lemma all_occ_guard_var P d : all_occ_guard P = true -> var_guard P d = true.
Proof.
  unfold all_occ_guard, var_guard. intros H. rewrite forallb_forall in *. intros s Hs. rewrite (H s Hs). apply orb_true_r.
Qed.

(* ------------------------------------------------------------------ C05 read on resolve_at *)
Lemma resolve_local_at P w f n line col d :
  resolve_local P n line col = Some d ->
  exists v, resolve_at w f (analyse P) n line col = TLocal v /\ v_loc v = d.
Proof.
  unfold resolve_local, resolve_at.
  destruct (find_loc_var (chain_at (analyse P) line col) n (mkLoc line col line col)) as [v|]; cbn [option_map]; intros H.
  - injection H as <-. exists v. split; reflexivity.
  - discriminate.
Qed.

Theorem position_is_binder W P w f o d col :
  bind_guard W P = true -> In o (bind_file P) -> classB_ok o = true -> s_bind o = BLocal d ->
  sc (s_loc o) <= col <= ec (s_loc o) ->
  exists v, resolve_at w f (analyse P) (s_name o) (sl (s_loc o)) col = TLocal v /\ v_loc v = d.
Proof.
  intros Hg Hin Hc Hb Hcol. destruct (bind_guard_parts W P Hg) as (Hf & _ & _ & HL2 & Hn).
  apply resolve_local_at.
  exact (define_local_core P Hf (ex_intro _ W HL2) Hn o Hin Hc d Hb col Hcol).
Qed.

Corollary define_is_binder W P w f o d col :
  bind_guard W P = true -> In o (bind_file P) -> classB_ok o = true -> s_bind o = BLocal d ->
  sc (s_loc o) <= col <= ec (s_loc o) ->
  define_at w f (analyse P) (s_name o) (sl (s_loc o)) col = Some [(f, d)].
Proof.
  intros Hg Hin Hc Hb Hcol. destruct (position_is_binder W P w f o d col Hg Hin Hc Hb Hcol) as (v & Hv & <-).
  exact (define_of_local _ _ _ _ _ _ _ Hv).
Qed.

(* ------------------------------------------------------------------ distinct Locs *)
Lemma NoDup_map_filter {A B} (g : A -> B) (p : A -> bool) l : NoDup (map g l) -> NoDup (map g (filter p l)).
Proof.
  induction l as [|a r IH]; intros H; cbn; [constructor|].
  cbn in H. inversion H as [|? ? Hni Hnd]; subst.
  destruct (p a); cbn; [constructor|]; auto.
  intros Hin. apply Hni. apply in_map_iff in Hin. destruct Hin as [x [Hx Hxin]]. apply filter_In in Hxin.
  apply in_map_iff. exists x. split; [exact Hx|apply Hxin].
Qed.

Lemma NoDup_map_pair {A B} (f : B) (l : list A) (g : A -> loc) :
  NoDup (map g l) -> NoDup (map (fun x => (f, g x)) l).
Proof.
  induction l as [|a r IH]; intros H; cbn; [constructor|].
  cbn in H. inversion H as [|? ? Hni Hnd]; subst. constructor; [|auto].
  intros Hin. apply Hni. apply in_map_iff in Hin. destruct Hin as [x [Hx Hxin]]. injection Hx as Hx.
  apply in_map_iff. exists x. split; assumption.
Qed.

Lemma spec_locs_nodup W P : tb_shape P = true -> laid_b W P = true -> NoDup (slocs (bind_file P)).
Proof. intros Hs Hl. destruct (laid_occ_locs W P Hs Hl) as (a & b & _ & _ & Hnd & _). exact Hnd. Qed.

Lemma Forall2_locs P os os' : Forall2 (occ_agrees P) os os' -> map o_loc os = slocs os'.
Proof. intros H. induction H as [|o s l l' [A _] _ IH]; cbn; [reflexivity|]. rewrite A, IH. reflexivity. Qed.

Lemma traverse_locs_nodup W P : tb_shape P = true -> laid_b W P = true -> NoDup (map o_loc (fi_occs (analyse P))).
Proof.
  intros Hs Hl. destruct (traverse_bind_core P Hs) as (os' & Hp & Hf).
  rewrite (Forall2_locs P _ _ Hf). unfold slocs.
  apply (Permutation_NoDup (Permutation_map s_loc Hp)). unfold nd. apply NoDup_map_filter.
  exact (spec_locs_nodup W P Hs Hl).
Qed.

Lemma inside_self W l : idok W l -> inside l l = true.
Proof.
  intros (E1 & E2 & (E3 & E4) & _). unfold inside, in_location.
  replace (sl l <? sl l) with false by (symmetry; apply Z.ltb_irrefl).
  replace (el l <? sl l) with false by (symmetry; apply Z.ltb_ge; lia).
  replace (sl l >? el l) with false by (symmetry; rewrite Z.gtb_ltb; apply Z.ltb_ge; lia).
  replace (el l >? el l) with false by (symmetry; rewrite Z.gtb_ltb; apply Z.ltb_irrefl).
  cbn [orb].
  replace (sc l <? sc l) with false by (symmetry; apply Z.ltb_irrefl).
  replace (ec l >? ec l) with false by (symmetry; rewrite Z.gtb_ltb; apply Z.ltb_irrefl).
  replace (ec l <? sc l) with false by (symmetry; apply Z.ltb_ge; lia).
  replace (sc l >? ec l) with false by (symmetry; rewrite Z.gtb_ltb; apply Z.ltb_ge; lia).
  rewrite !andb_false_r. reflexivity.
Qed.

(* ------------------------------------------------------------------ C06 / C11: references of a local, closed *)
Theorem refs_local_closed mode W P w f o d col :
  bind_guard W P = true -> In o (bind_file P) -> occ_guard P o = true -> s_bind o = BLocal d ->
  sc (s_loc o) <= col <= ec (s_loc o) ->
  exists l, references_at mode w f (analyse P) (s_name o) (sl (s_loc o)) col = Some l /\
            (forall x, In x l <-> In x (spec_refs [(f, bind_file P)] f o)) /\
            NoDup l /\ NoDup (spec_refs [(f, bind_file P)] f o).
Proof.
  intros Hg Hin Hog Hb Hcol. destruct (bind_guard_parts W P Hg) as (Hf & Hs & Hl & HL2 & Hn).
  destruct (occ_guard_parts P o Hog) as [HcB HcA].
  destruct (position_is_binder W P w f o d col Hg Hin HcB Hb Hcol) as (v & Hv & Hvd). subst d.
  destruct (refs_local_final mode P W w f (s_name o) (sl (s_loc o)) col v o Hf Hs Hl HcA Hv Hin eq_refl Hb)
    as (l & Hrl & Hiff).
  exists l. split; [exact Hrl|]. split; [exact Hiff|].
  pose proof (spec_locs_nodup W P Hs Hl) as Hnds.
  assert (Hnd2 : NoDup (spec_refs [(f, bind_file P)] f o)).
  { unfold spec_refs, same_var, file_occs. rewrite Hb. cbn [find fst snd]. rewrite beq_bytes_refl.
    apply NoDup_map_pair. apply NoDup_map_filter. exact Hnds. }
  split; [|exact Hnd2].
  (* the answer list: declaration first, then the matching traversal occurrences *)
  unfold references_at, references_of_target in Hrl. rewrite Hv in Hrl. cbv zeta in Hrl. injection Hrl as Hrl.
  set (tl := map (fun o0 : occ => (f, o_loc o0))
                 (filter (fun o0 => occ_matches_local (s_name o) (v_loc v) o0 && negb (inside (v_loc v) (o_loc o0)))
                         (fi_occs (analyse P)))) in Hrl.
  assert (Htl : NoDup tl).
  { unfold tl. apply NoDup_map_pair. apply NoDup_map_filter. exact (traverse_locs_nodup W P Hs Hl). }
  rewrite <- Hrl. constructor; [|exact Htl].
  intros Hd. unfold tl in Hd. apply in_map_iff in Hd. destruct Hd as (o0 & Ho0 & Hin0). injection Ho0 as Ho0.
  apply filter_In in Hin0. destruct Hin0 as [_ Hm]. apply andb_true_iff in Hm. destruct Hm as [_ Hni].
  apply negb_true_iff in Hni. rewrite Ho0 in Hni.
  (* the declaration Loc is an identifier Loc: it lies inside itself *)
  destruct (bound_has_named_decl P o (v_loc v) Hin Hb) as (sd & Hsd & _ & Hsl & _).
  destruct (laid_occ_locs W P Hs Hl) as (a & b & HW & Hall & _). rewrite Forall_forall in Hall.
  assert (Hid : idok W (v_loc v)) by (rewrite <- Hsl; apply Hall; apply in_map; exact Hsd).
  rewrite (inside_self W _ Hid) in Hni. discriminate.
Qed.

(* ------------------------------------------------------------------ C12, clauses 1 and 2 at model level *)
Lemma same_name_of_bound W P o o' d :
  tb_shape P = true -> laid_b W P = true -> In o (bind_file P) -> s_bind o = BLocal d ->
  In o' (bind_file P) -> s_bind o' = BLocal d -> s_name o' = s_name o.
Proof.
  intros Hs Hl Hin Hb Hin' Hb'. pose proof (laid_decl_layout W P o d Hs Hl Hin Hb) as Hlay.
  unfold decl_layout_ok in Hlay. rewrite forallb_forall in Hlay. specialize (Hlay o' Hin').
  rewrite (proj2 (binding_eqb_local _ _) Hb') in Hlay. cbn [negb orb] in Hlay.
  apply andb_true_iff in Hlay. destruct Hlay as [Hn _]. apply beq_bytes_eq in Hn. exact Hn.
Qed.

Lemma in_spec_refs_local P f o d r :
  s_bind o = BLocal d ->
  (In r (spec_refs [(f, bind_file P)] f o) <->
   exists o', In o' (bind_file P) /\ s_bind o' = BLocal d /\ r = (f, s_loc o')).
Proof.
  intros Hb. unfold spec_refs, same_var, file_occs. rewrite Hb. cbn [find fst snd]. rewrite beq_bytes_refl.
  rewrite in_map_iff. split.
  - intros (o' & Hr & Hin). apply filter_In in Hin. destruct Hin as [Hin Hm]. apply binding_eqb_local in Hm.
    exists o'. repeat split; auto.
  - intros (o' & Hin & Hb' & Hr). exists o'. split; [auto|]. apply filter_In. split; [exact Hin|].
    apply binding_eqb_local. exact Hb'.
Qed.

(* clause 1: every reference of the occurrence under the cursor resolves, via definition and at every cursor column
   of the reference, to the declaration the cursor's occurrence resolves to *)
Theorem c12_clause1_model W P w f o d col :
  bind_guard W P = true -> In o (bind_file P) -> s_bind o = BLocal d -> var_guard P d = true ->
  sc (s_loc o) <= col <= ec (s_loc o) ->
  exists l, references_at MRefs w f (analyse P) (s_name o) (sl (s_loc o)) col = Some l /\
            define_at w f (analyse P) (s_name o) (sl (s_loc o)) col = Some [(f, d)] /\
            forall r, In r l ->
              exists o', In o' (bind_file P) /\ r = (f, s_loc o') /\ s_bind o' = BLocal d /\ s_name o' = s_name o /\
                         forall col', sc (s_loc o') <= col' <= ec (s_loc o') ->
                           define_at w f (analyse P) (s_name o') (sl (s_loc o')) col' = Some [(f, d)].
Proof.
  intros Hg Hin Hb Hvg Hcol. destruct (bind_guard_parts W P Hg) as (Hf & Hs & Hl & HL2 & Hn).
  pose proof (var_guard_occ P d o Hvg Hin Hb) as Hog.
  destruct (refs_local_closed MRefs W P w f o d col Hg Hin Hog Hb Hcol) as (l & Hrl & Hiff & _).
  exists l. split; [exact Hrl|]. split.
  - exact (define_is_binder W P w f o d col Hg Hin (proj1 (occ_guard_parts P o Hog)) Hb Hcol).
  - intros r Hr. apply Hiff in Hr. apply (in_spec_refs_local P f o d r Hb) in Hr. destruct Hr as (o' & Hin' & Hb' & ->).
    exists o'. split; [exact Hin'|]. split; [reflexivity|]. split; [exact Hb'|].
    split; [exact (same_name_of_bound W P o o' d Hs Hl Hin Hb Hin' Hb')|].
    intros col' Hcol'.
    exact (define_is_binder W P w f o' d col' Hg Hin' (proj1 (occ_guard_parts P o' (var_guard_occ P d o' Hvg Hin' Hb'))) Hb' Hcol').
Qed.

(* clause 2: the occurrence is among the references of its own declaration (asked at any cursor column of the
   declaration's identifier) *)
Theorem c12_clause2_model W P w f o d :
  bind_guard W P = true -> In o (bind_file P) -> s_bind o = BLocal d -> var_guard P d = true ->
  exists sd, In sd (bind_file P) /\ is_decl (s_role sd) = true /\ s_loc sd = d /\ s_name sd = s_name o /\
             s_bind sd = BLocal d /\
    forall col', sc d <= col' <= ec d ->
      exists l', references_at MRefs w f (analyse P) (s_name o) (sl d) col' = Some l' /\ In (f, s_loc o) l'.
Proof.
  intros Hg Hin Hb Hvg. destruct (bound_has_named_decl P o d Hin Hb) as (sd & Hsd & Hdecl & Hsl & Hsn & Hsb).
  exists sd. repeat split; auto. intros col' Hcol'.
  pose proof (var_guard_occ P d sd Hvg Hsd Hsb) as Hog.
  rewrite <- Hsl in Hcol'.
  destruct (refs_local_closed MRefs W P w f sd d col' Hg Hsd Hog Hsb Hcol') as (l' & Hrl & Hiff & _).
  rewrite Hsn, Hsl in Hrl. exists l'. split; [exact Hrl|].
  apply Hiff. apply (in_spec_refs_local P f sd d _ Hsb). exists o. repeat split; auto.
Qed.

(* ------------------------------------------------------------------ C14: every visible local is offered *)
Lemma env_names_in en : forall seen n, In n (env_names en seen) -> exists x, In x en /\ fst (fst x) = n.
Proof.
  induction en as [|[[m dl] fl] r IH]; intros seen n H; cbn [env_names] in H; [destruct H|].
  destruct (name_in m seen).
  - destruct (IH _ _ H) as (x & Hx & Hn). exists x. split; [right; exact Hx|exact Hn].
  - destruct H as [<-|H]; [exists (m, dl, fl); split; [left; reflexivity|reflexivity]|].
    destruct (IH _ _ H) as (x & Hx & Hn). exists x. split; [right; exact Hx|exact Hn].
Qed.

Lemma need_show_prefix pre n : starts_with pre n = true -> need_show pre n = true.
Proof.
  unfold starts_with, need_show. intros H. apply beq_bytes_eq in H. destruct pre as [|c pre']; [reflexivity|].
  destruct (is_letter c); [|reflexivity]. destruct n as [|c' n']; cbn [length firstn] in H; [discriminate|].
  injection H as -> _. cbn [existsb]. rewrite N.eqb_refl. reflexivity.
Qed.

Theorem complete_at_visible P w o col pre n :
  in_fragment P = true -> Laid2 P -> no_repoint P = true ->
  In o (bind_file P) -> is_decl (s_role o) = false -> sc (s_loc o) <= col <= ec (s_loc o) ->
  In n (env_names (s_env o) []) -> starts_with pre n = true ->
  In n (complete_at w (analyse P) pre (sl (s_loc o)) col).
Proof.
  intros Hf HL Hn Hin Hd Hcol Hv Hp. destruct (env_names_in _ _ _ Hv) as (x & Hx & <-).
  unfold complete_at. apply filter_In. split; [|exact (need_show_prefix _ _ Hp)].
  apply in_or_app. left. exact (complete_locals_core P Hf HL Hn o Hin Hd col Hcol x Hx).
Qed.
