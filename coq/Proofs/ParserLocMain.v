(* C04, names level: the two theorems.

   parse_tokens_names : on every token list that ends with an EOF token, for every fuel and numeral classifier: if
       parse_tokens returns an AST without syntax error, every name-bearing node (name, Loc) of the AST is the text and
       the GetNowTokenLoc-Loc of an IDENTIFIER token of that list - an element of Spec.LspRange.tok_locs zero_tok ts.
       (A Loc taken one token too late - the seeded change seeded/C04 - is the Loc of a different token.)
   name_range_exact : composition with the token-level theorem tok_range_exact: for every valid-UTF-8 file inside
       file_class_ok that parses without lexical and without syntax error, every name-bearing AST node is reported with a
       range that lies in the document, has start <= end and covers exactly the identifier (Spec.LspRange.covers). *)
From Coq Require Import List NArith ZArith Bool Arith Lia.
From LH Require Import Base.Bytes Base.Res Base.Utf8 Model.Lexer Model.Ast Model.Parser Model.Number Model.LuaFront
     Spec.LspRange.
From LH Require Import Proofs.LexerTotalWf Proofs.LexerTotalMain Proofs.ParserTotalBase Proofs.ParserTotalMain
     Proofs.LexerRangeMain Proofs.ParserLocBase Proofs.ParserLocSteps.
Import ListNotations.

Section Main.
  Variable classify : list N -> numcls.
  Variable ts : list ltok.
  Hypothesis Hwf : wfr ts.

  Theorem PL_all : forall n, PL classify ts n.
  Proof.
    induction n as [|n IH].
    - unfold PL. repeat apply conj; intros; apply post_oof.
    - unfold PL. repeat apply conj.
      + apply S_block; assumption.
      + apply S_block_loc; assumption.
      + apply S_block_loc_excl; assumption.
      + apply S_stats; assumption.
      + apply S_stat; assumption.
      + apply S_assign_or_call; assumption.
      + apply S_if_tail; assumption.
      + apply S_varlist_tail; assumption.
      + apply S_explist; assumption.
      + apply S_explist_tail; assumption.
      + apply S_subexp; assumption.
      + apply S_binop_loop; assumption.
      + apply S_exp0; assumption.
      + apply S_prefixexp; assumption.
      + apply S_finish_prefix; assumption.
      + apply S_args; assumption.
      + apply S_table; assumption.
      + apply S_fieldlist_tail; assumption.
      + apply S_field; assumption.
      + apply S_funcdef; assumption.
  Qed.

  Lemma expect_ok_next k st : perrs (expect k st) = [] -> expect k st = next st.
  Proof.
    unfold expect. destruct (tk_eqb _ _); [reflexivity|]. cbn [err perrs]. intros H.
    apply app_eq_nil in H as [_ H]. discriminate.
  Qed.

  (* what an error-free run of parse_tokens establishes *)
  Lemma parse_tokens_run fuel b le :
    parse_tokens classify fuel ts = Ok (PR b le []) ->
    Forall (Good ts) (name_locs b) /\
    exists st, Inv ts st /\ now_kind st = TkEOF /\ lseen st = le.
  Proof.
    unfold parse_tokens. intros H.
    destruct (PL_all fuel) as (_ & I2 & _).
    assert (HI0 : Inv ts (init_pst ts)) by (apply Inv_init; destruct Hwf as [Hne _]; exact Hne).
    specialize (I2 (init_pst ts) HI0).
    destruct (p_block_loc classify fuel (init_pst ts)) as [[b0 st1]|k|]; try discriminate.
    specialize (I2 b0 st1 eq_refl). destruct I2 as (HI1 & _ & HG).
    cbv zeta in H. destruct (Nat.leb 31 _); [discriminate|]. injection H as <- Hle Hpe.
    split.
    - eapply Forall_impl; [|exact HG]. intros x Hx. apply Hx.
      apply (mono_expect_r st1 TkEOF st1 (mono_refl st1)). exact Hpe.
    - exists (expect TkEOF st1). split; [apply Inv_expect; assumption|]. split; [|exact Hle].
      rewrite (expect_ok_next _ _ Hpe). apply perrs_expect_nil. exact Hpe.
  Qed.

  Theorem parse_tokens_names fuel b le :
    parse_tokens classify fuel ts = Ok (PR b le []) ->
    Forall (fun x => exists t, In (t, snd x) (tok_locs zero_tok ts) /\ tk t = TkIdentifier /\ tstr t = fst x)
           (name_locs b).
  Proof. intros H. exact (proj1 (parse_tokens_run fuel b le H)). Qed.

  (* the lexical errors reported with an error-free parse are those of ALL tokens: the parser has read the whole list *)
  Theorem parse_tokens_lexerrs fuel b le :
    wf_tokens ts -> parse_tokens classify fuel ts = Ok (PR b le []) -> le = flat_map lerrs ts.
  Proof.
    intros Hw H. destruct (parse_tokens_run fuel b le H) as (_ & st & HI & Hk & <-).
    apply Inv_eof_all; assumption.
  Qed.
End Main.

(* ------------------------------------------------------------------ composition with the token-level theorem *)
Definition names_covered (cps : list N) (b : block) : bool :=
  forallb (fun x => covers cps (snd x) (fst x)) (name_locs b).

Lemma flat_lerrs_nil ts : flat_map lerrs ts = [] -> cls_lexerr ts = false.
Proof.
  induction ts as [|t ts IH]; [reflexivity|]. cbn [flat_map]. intros H. apply app_eq_nil in H as [H1 H2].
  unfold cls_lexerr. cbn [existsb]. rewrite H1. apply IH, H2.
Qed.

Lemma parser_view_noerr ts : flat_map lerrs (parser_view ts) = [] -> parser_view ts = ts.
Proof.
  unfold parser_view. destruct ts as [|t1 r]; [reflexivity|].
  destruct (is_unfinished_str t1) eqn:Hu; [|reflexivity]. intros H. exfalso.
  destruct (lost_run r [] []) as [[es cs] r']. cbn [flat_map lerrs] in H.
  apply app_eq_nil in H as [H _]. apply app_eq_nil in H as [H _].
  unfold is_unfinished_str in Hu. rewrite H in Hu. destruct (tk (lt t1)); discriminate.
Qed.

Lemma covered_in cps : forall ts prev t l,
  forallb (fun p => negb (raw_kind (tk (fst p))) || covers cps (snd p) (tstr (fst p))) (tok_locs prev ts) = true ->
  In (t, l) (tok_locs prev ts) -> raw_kind (tk t) = true -> covers cps l (tstr t) = true.
Proof.
  intros ts prev t l H Hin Hr. rewrite forallb_forall in H. specialize (H _ Hin). cbn [fst snd] in H.
  rewrite Hr in H. exact H.
Qed.

Theorem name_range_exact : forall gbk classify cps b,
  forallb scalar cps = true -> file_class_ok cps = true ->
  parse_bytes gbk classify (utf8_of cps) = Ok (PR b [] []) ->
  names_covered cps b = true.
Proof.
  intros gbk classify cps b Hsc Hg H. unfold parse_bytes in H.
  destruct (lex_all gbk (utf8_of cps)) as [ts|k|] eqn:Elex; try discriminate. cbn [rbind] in H. cbv zeta in H.
  pose proof (lex_all_wf gbk _ _ Elex) as Hwt.
  pose proof (parser_view_wf ts Hwt) as Hwv.
  pose proof (parse_tokens_lexerrs classify _ (wf_tokens_wfr _ Hwv) _ _ _ Hwv H) as Hle. symmetry in Hle.
  pose proof (parser_view_noerr ts Hle) as Hv. rewrite Hv in *.
  pose proof (parse_tokens_names classify ts (wf_tokens_wfr _ Hwt) _ _ _ H) as Hn.
  pose proof (tok_range_exact gbk cps ts Hsc Hg Elex (flat_lerrs_nil ts Hle)) as Hc.
  unfold all_tokens_covered in Hc. unfold names_covered. apply forallb_forall. intros x Hx.
  rewrite Forall_forall in Hn. destruct (Hn x Hx) as (t & Hin & Hk & <-).
  eapply covered_in; [exact Hc|exact Hin|]. rewrite Hk. reflexivity.
Qed.

Print Assumptions PL_all.
Print Assumptions parse_tokens_names.
Print Assumptions parse_tokens_lexerrs.
Print Assumptions name_range_exact.
