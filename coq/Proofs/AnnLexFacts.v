(* Facts about the annotation lexer model (Model/AnnLexer.v):
   - no Go slice / index site can fault (go_next, go_slice, go_index always in range);
   - the measure mu (unread bytes + 1 for a buffered real token) never grows and drops when a real token is consumed;
   - what lex_token returns on texts of a known shape (used by the round-trip proofs). *)
From Coq Require Import String Ascii List Arith NArith Bool Lia ZifyN ZifyNat ZifyBool.
From LH Require Import Base.Bytes Base.Res Model.AnnLexer.
Import ListNotations.
Local Open Scope N_scope.

(* ------------------------------------------------------------------ kinds *)
Lemma kind_code_inj a b : kind_code a = kind_code b -> a = b.
Proof. destruct a; destruct b; cbn; intros H; try reflexivity; discriminate H. Qed.

Lemma kind_eqb_eq a b : kind_eqb a b = true <-> a = b.
Proof.
  unfold kind_eqb. rewrite N.eqb_eq. split; [apply kind_code_inj | intros ->; reflexivity].
Qed.

Lemma kind_eqb_refl a : kind_eqb a a = true.
Proof. apply kind_eqb_eq. reflexivity. Qed.

Lemma kind_eqb_neq a b : kind_eqb a b = false <-> a <> b.
Proof.
  split.
  - intros H E. apply kind_eqb_eq in E. congruence.
  - intros H. destruct (kind_eqb a b) eqn:E; [apply kind_eqb_eq in E; contradiction | reflexivity].
Qed.

(* a "real" token is one whose scanning consumed at least one byte: every kind except EOF and Other *)
Definition real (k : akind) : bool := negb (kind_eqb k KEOF || kind_eqb k KOther).
Definition tw (t : tok) : nat := if real (tkind t) then 1%nat else 0%nat.

(* the measure: unread bytes, plus one for a buffered real token *)
Definition mu (l : lx) : nat :=
  (length (chunk l) + match ahead l with Some t => tw t | None => 0 end)%nat.

Lemma assoc_bytes_in {A} s (tbl : list (bytes * A)) v :
  assoc_bytes s tbl = Some v -> In (s, v) tbl.
Proof.
  induction tbl as [|[k x] r IH]; cbn; [discriminate|].
  destruct (beq_bytes s k) eqn:E.
  - intros H. injection H as ->. apply beq_bytes_eq in E. subst. left. reflexivity.
  - intros H. right. apply IH. exact H.
Qed.

Lemma kw_lookup_real s k : kw_lookup s = Some k -> real k = true.
Proof.
  intros H. apply assoc_bytes_in in H. unfold keyword_bytes in H.
  repeat (destruct H as [H|H]; [injection H as _ <-; reflexivity|]). destruct H.
Qed.

(* ------------------------------------------------------------------ scanning helpers *)
Lemma skip_ws_length c : (length (skip_ws c) <= length c)%nat.
Proof. induction c as [|b r IH]; cbn; [lia|]. destruct (is_ws b); cbn; lia. Qed.

Lemma id_end_bounds r i : (i <= id_end r i <= i + length r)%nat.
Proof.
  revert i. induction r as [|b r IH]; intros i; cbn; [lia|].
  destruct (is_id_cont b); [specialize (IH (S i)); lia | lia].
Qed.

Lemma str_end_bounds d r i : (i <= str_end d r i <= i + length r)%nat.
Proof.
  revert i. induction r as [|b r IH]; intros i; cbn; [lia|].
  destruct (d =? b); [lia | specialize (IH (S i)); lia].
Qed.

Lemma go_next_ok c n : (n <= length c)%nat -> go_next c n = Ok (skipn n c).
Proof. intros H. unfold go_next. apply Nat.leb_le in H. rewrite H. reflexivity. Qed.

Lemma go_slice_ok c a b : (a <= b <= length c)%nat -> go_slice c a b = Ok (firstn (b - a) (skipn a c)).
Proof.
  intros [H1 H2]. unfold go_slice. apply Nat.leb_le in H1. apply Nat.leb_le in H2. rewrite H1, H2. reflexivity.
Qed.

Lemma scan_identifier_ok b r :
  exists s c', scan_identifier (b :: r) = Ok (s, c') /\ (length c' + 1 <= length (b :: r))%nat.
Proof.
  unfold scan_identifier. cbn [skipn].
  pose proof (id_end_bounds r 1) as Hb.
  set (i := id_end r 1) in *.
  rewrite go_slice_ok by (cbn [length]; lia).
  rewrite go_next_ok by (cbn [length]; lia).
  cbn [rbind]. eexists. eexists. split; [reflexivity|].
  rewrite skipn_length. cbn [length]. lia.
Qed.

Lemma scan_short_string_ok b r :
  exists s c', scan_short_string (b :: r) = Ok (s, c') /\ (length c' + 1 <= length (b :: r))%nat.
Proof.
  unfold scan_short_string. cbn [go_index nth_error rbind skipn].
  pose proof (str_end_bounds b r 1) as Hb.
  set (i := str_end b r 1) in *.
  assert (Hs : exists s, (if Nat.leb 1 (i - 1) then go_slice (b :: r) 1 (i - 1) else Ok []) = Ok s).
  { destruct (Nat.leb 1 (i - 1)) eqn:E; [|eexists; reflexivity].
    apply Nat.leb_le in E. rewrite go_slice_ok by (cbn [length]; lia). eexists. reflexivity. }
  destruct Hs as [s ->]. cbn [rbind].
  rewrite go_next_ok by (cbn [length]; lia). cbn [rbind].
  eexists. eexists. split; [reflexivity|].
  rewrite skipn_length. cbn [length]. lia.
Qed.

(* ------------------------------------------------------------------ lex_token is total and consumes *)
Lemma lex_token_ok c0 :
  exists t c', lex_token c0 = Ok (t, c') /\ (length c' + tw t <= length c0)%nat.
Proof.
  unfold lex_token. pose proof (skip_ws_length c0) as Hw.
  destruct (skip_ws c0) as [|b r] eqn:Ec.
  - eexists. eexists. split; [reflexivity|]. cbn. lia.
  - assert (Hp : forall k, exists t c', (do c' <- go_next (b :: r) 1; Ok (mkTok k [b], c')) = Ok (t, c')
                                      /\ (length c' + tw t <= length c0)%nat).
    { intros k. cbn. eexists. eexists. split; [reflexivity|]. unfold tw. cbn [length] in Hw.
      destruct (real _); lia. }
    assert (Ho : exists t c',
               (if is_id_start b then
                  do sc <- scan_identifier (b :: r);
                  let '(s, c') := sc in
                  match kw_lookup s with Some k => Ok (mkTok k s, c') | None => Ok (mkTok KIdent s, c') end
                else Ok (mkTok KOther (b :: r), b :: r)) = Ok (t, c') /\ (length c' + tw t <= length c0)%nat).
    { destruct (is_id_start b).
      - destruct (scan_identifier_ok b r) as (s & c' & -> & Hl). cbn [rbind].
        destruct (kw_lookup s); eexists; eexists; (split; [reflexivity|]); unfold tw; destruct (real _); lia.
      - eexists. eexists. split; [reflexivity|].
        change (tw {| tkind := KOther; tstr := b :: r |}) with 0%nat. lia. }
    Ltac lex_if := match goal with |- exists t c', (if ?x =? ?y then _ else _) = _ /\ _ => destruct (x =? y) end.
    do 10 (lex_if; [apply Hp|]).
    lex_if.
    { destruct (test_prefix s_dots (b :: r)) eqn:Et; [|apply Ho].
      assert (3 <= length (b :: r))%nat.
      { unfold s_dots in Et. destruct r as [|b1 [|b2 r2]]; cbn in Et |- *; try lia;
          repeat (rewrite ?andb_false_r in Et; try discriminate Et). }
      rewrite go_next_ok by assumption. cbn [rbind]. eexists. eexists. split; [reflexivity|].
      rewrite skipn_length. change (tw {| tkind := KVararg; tstr := s_dots |}) with 1%nat. lia. }
    lex_if; [apply Hp|].
    destruct ((b =? 39) || (b =? 34)); [|apply Ho].
    destruct (scan_short_string_ok b r) as (s & c' & -> & Hl). cbn [rbind].
    eexists. eexists. split; [reflexivity|]. change (tw {| tkind := KString; tstr := s |}) with 1%nat. lia.
Qed.

Lemma next_token_ok l :
  exists t l', next_token l = Ok (t, l') /\ (mu l' + tw t <= mu l)%nat /\ ahead l' = None
               /\ (forall a, ahead l = Some a -> t = a /\ chunk l' = chunk l).
Proof.
  unfold next_token, mu. destruct l as [c [a|]]; cbn [ahead chunk].
  - eexists. eexists. split; [reflexivity|]. cbn. split; [lia|]. split; [reflexivity|].
    intros a0 H. injection H as <-. split; reflexivity.
  - destruct (lex_token_ok c) as (t & c' & -> & Hl). cbn [rbind].
    eexists. eexists. split; [reflexivity|]. cbn. split; [lia|]. split; [reflexivity|]. intros a H. discriminate H.
Qed.

Lemma look_ahead_ok l :
  exists l', look_ahead l = Ok l' /\ (mu l' <= mu l)%nat /\ exists t, ahead l' = Some t.
Proof.
  unfold look_ahead, mu. destruct l as [c [a|]]; cbn [ahead chunk].
  - eexists. split; [reflexivity|]. cbn. split; [lia|]. eexists. reflexivity.
  - destruct (lex_token_ok c) as (t & c' & -> & Hl). cbn [rbind].
    eexists. split; [reflexivity|]. cbn. split; [lia|]. eexists. reflexivity.
Qed.

Lemma check_head_ok s c : length s = 2%nat -> exists r, check_head s c = Ok r /\
  match r with Some c' => c = s ++ c' | None => True end.
Proof.
  intros Hs. unfold check_head. destruct (test_prefix s c) eqn:Et; [|eexists; split; [reflexivity|exact I]].
  destruct s as [|x [|y [|? ?]]]; try discriminate Hs.
  destruct c as [|a [|b c']]; cbn in Et; try discriminate Et.
  - rewrite andb_false_r in Et. discriminate Et.
  - apply andb_true_iff in Et as [E1 E2]. apply andb_true_iff in E2 as [E2 _].
    apply N.eqb_eq in E1. apply N.eqb_eq in E2. subst.
    cbn. eexists. split; reflexivity.
Qed.

(* ------------------------------------------------------------------ lex_token on texts of a known shape *)
(* the next byte does not continue an identifier *)
Definition stop (rest : bytes) : bool :=
  match rest with [] => true | b :: _ => negb (is_id_cont b) end.

Lemma lex_token_ws b c : is_ws b = true -> lex_token (b :: c) = lex_token c.
Proof. intros H. unfold lex_token. cbn [skip_ws]. rewrite H. reflexivity. Qed.

Lemma lex_token_sp c : lex_token (32 :: c) = lex_token c.
Proof. apply lex_token_ws. reflexivity. Qed.

Lemma lex_token_nil : lex_token [] = Ok (mkTok KEOF s_EOF, []).
Proof. reflexivity. Qed.

Lemma lex_comma c : lex_token (44 :: c) = Ok (mkTok KComma [44], c). Proof. reflexivity. Qed.
Lemma lex_lparen c : lex_token (40 :: c) = Ok (mkTok KLparen [40], c). Proof. reflexivity. Qed.
Lemma lex_rparen c : lex_token (41 :: c) = Ok (mkTok KRparen [41], c). Proof. reflexivity. Qed.
Lemma lex_lbrack c : lex_token (91 :: c) = Ok (mkTok KLbrack [91], c). Proof. reflexivity. Qed.
Lemma lex_rbrack c : lex_token (93 :: c) = Ok (mkTok KRbrack [93], c). Proof. reflexivity. Qed.
Lemma lex_bor c : lex_token (124 :: c) = Ok (mkTok KBor [124], c). Proof. reflexivity. Qed.
Lemma lex_lt c : lex_token (60 :: c) = Ok (mkTok KLt [60], c). Proof. reflexivity. Qed.
Lemma lex_gt c : lex_token (62 :: c) = Ok (mkTok KGt [62], c). Proof. reflexivity. Qed.
Lemma lex_at c : lex_token (64 :: c) = Ok (mkTok KAt [64], c). Proof. reflexivity. Qed.
Lemma lex_option c : lex_token (63 :: c) = Ok (mkTok KOption [63], c). Proof. reflexivity. Qed.
Lemma lex_colon c : lex_token (58 :: c) = Ok (mkTok KColon [58], c). Proof. reflexivity. Qed.
Lemma lex_dots c : lex_token (s_dots ++ c) = Ok (mkTok KVararg s_dots, c). Proof. reflexivity. Qed.

Lemma id_end_app r rest i :
  forallb is_id_cont r = true -> stop rest = true -> id_end (r ++ rest) i = (i + length r)%nat.
Proof.
  revert i. induction r as [|b r IH]; intros i Hr Hs; cbn [app length].
  - destruct rest as [|x rest]; cbn in *; [lia|]. destruct (is_id_cont x); [discriminate|lia].
  - cbn in Hr. apply andb_true_iff in Hr as [Hb Hr]. cbn [id_end]. rewrite Hb. rewrite IH by assumption. lia.
Qed.

Lemma scan_identifier_app b r rest :
  forallb is_id_cont r = true -> stop rest = true ->
  scan_identifier ((b :: r) ++ rest) = Ok (b :: r, rest).
Proof.
  intros Hr Hs. unfold scan_identifier. cbn [app skipn].
  rewrite id_end_app by assumption.
  rewrite go_slice_ok by (cbn [length]; rewrite app_length; lia).
  rewrite go_next_ok by (cbn [length]; rewrite app_length; lia).
  cbn [rbind]. rewrite Nat.sub_0_r. cbn [skipn Nat.add].
  f_equal. f_equal.
  - change (b :: r ++ rest) with ((b :: r) ++ rest).
    replace (S (length r)) with (length (b :: r)) by reflexivity.
    rewrite firstn_app, Nat.sub_diag, firstn_all. cbn [firstn]. apply app_nil_r.
  - rewrite skipn_app, skipn_all, Nat.sub_diag. reflexivity.
Qed.

Lemma id_start_facts c : is_id_start c = true ->
  is_ws c = false /\ (c =? 44) = false /\ (c =? 40) = false /\ (c =? 41) = false /\ (c =? 91) = false /\
  (c =? 93) = false /\ (c =? 124) = false /\ (c =? 60) = false /\ (c =? 62) = false /\ (c =? 64) = false /\
  (c =? 63) = false /\ (c =? 46) = false /\ (c =? 58) = false /\ (c =? 39) = false /\ (c =? 34) = false.
Proof.
  unfold is_id_start, is_letter, is_digit, is_ws. intros H. lia.
Qed.

(* an identifier-shaped word followed by a non-identifier byte is one token: a keyword or an identifier *)
Lemma lex_word b r rest :
  is_id_start b = true -> forallb is_id_cont r = true -> stop rest = true ->
  lex_token ((b :: r) ++ rest) =
  Ok (mkTok (match kw_lookup (b :: r) with Some k => k | None => KIdent end) (b :: r), rest).
Proof.
  intros Hb Hr Hs.
  destruct (id_start_facts b Hb) as (W & E1 & E2 & E3 & E4 & E5 & E6 & E7 & E8 & E9 & E10 & E11 & E12 & E13 & E14).
  unfold lex_token. cbn [app skip_ws]. rewrite W.
  rewrite E1, E2, E3, E4, E5, E6, E7, E8, E9, E10, E11, E12, E13, E14. cbn [orb]. rewrite Hb.
  change (b :: r ++ rest) with ((b :: r) ++ rest). rewrite scan_identifier_app by assumption. cbn [rbind].
  destruct (kw_lookup (b :: r)); reflexivity.
Qed.

Lemma str_end_app d s rest i :
  forallb (fun c => negb (d =? c)) s = true -> str_end d (s ++ d :: rest) i = (i + length s + 1)%nat.
Proof.
  revert i. induction s as [|c s IH]; intros i Hs; cbn [app length str_end].
  - rewrite N.eqb_refl. lia.
  - cbn in Hs. apply andb_true_iff in Hs as [Hc Hs]. apply negb_true_iff in Hc. rewrite Hc.
    rewrite IH by assumption. lia.
Qed.

(* a quoted string without the delimiter inside *)
Lemma lex_string d s rest :
  (d =? 39) || (d =? 34) = true -> forallb (fun c => negb (d =? c)) s = true ->
  lex_token (d :: s ++ d :: rest) = Ok (mkTok KString s, rest).
Proof.
  intros Hd Hs.
  assert (Hq : d = 39 \/ d = 34) by lia.
  assert (W : is_ws d = false) by (unfold is_ws; lia).
  unfold lex_token. cbn [skip_ws]. rewrite W.
  replace (d =? 44) with false by lia. replace (d =? 40) with false by lia. replace (d =? 41) with false by lia.
  replace (d =? 91) with false by lia. replace (d =? 93) with false by lia. replace (d =? 124) with false by lia.
  replace (d =? 60) with false by lia. replace (d =? 62) with false by lia. replace (d =? 64) with false by lia.
  replace (d =? 63) with false by lia. replace (d =? 46) with false by lia. replace (d =? 58) with false by lia.
  rewrite Hd.
  unfold scan_short_string. cbn [go_index nth_error rbind skipn].
  rewrite str_end_app by assumption.
  replace (Nat.leb 1 (1 + length s + 1 - 1)) with true by (symmetry; apply Nat.leb_le; lia).
  rewrite go_slice_ok by (cbn [length]; rewrite app_length; cbn [length]; lia).
  rewrite go_next_ok by (cbn [length]; rewrite app_length; cbn [length]; lia).
  cbn [rbind]. f_equal. f_equal.
  - f_equal. replace (1 + length s + 1 - 1 - 1)%nat with (length s) by lia.
    cbn [skipn]. rewrite firstn_app, Nat.sub_diag, firstn_all. cbn [firstn]. apply app_nil_r.
  - replace (1 + length s + 1)%nat with (S (length s + 1)) by lia. cbn [skipn].
    rewrite skipn_app. rewrite skipn_all2 by lia. cbn [app].
    replace (length s + 1 - length s)%nat with 1%nat by lia. reflexivity.
Qed.
