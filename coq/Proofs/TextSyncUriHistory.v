(* C02, histories over URIs: the cache keyed by decoded path simulates the client's per-URI texts as long as the
   decode is injective on the URIs in use.  Induction over the history; the per-change work is Proofs/TextSyncHistory. *)
From Coq Require Import List NArith Bool Lia ZifyN ZifyNat ZifyBool.
From LH Require Import Base.Bytes Base.Res Base.Utf8 Model.TextSync Model.TextSyncUri Spec.LspText Spec.LspTextUri
                       Proofs.TextSyncScan Proofs.TextSyncHistory Proofs.TextSyncUriKey.
Import ListNotations.
Local Open Scope N_scope.

Lemma beq_bytes_refl a : beq_bytes a a = true.
Proof. apply beq_bytes_eq. reflexivity. Qed.

Lemma beq_bytes_neq a b : a <> b -> beq_bytes a b = false.
Proof. intros H. destruct (beq_bytes a b) eqn:E; [|reflexivity]. apply beq_bytes_eq in E. contradiction. Qed.

Section Hist.
  Variables fx ux sx : bool.
  Variable prefix : list N.
  Variable U : list (list N).                   (* the URIs in use *)
  Let key := uri_key ux prefix.
  Hypothesis HU : forall u1 u2, In u1 U -> In u2 U -> key u1 = key u2 -> u1 = u2.

  Definition UInv (s cs : kcache) : Prop :=
    (forall u, In u U -> s (key u) = option_map utf8_of (cs u)) /\
    (forall k, (forall u, In u U -> key u <> k) -> s k = None) /\
    (forall u t, cs u = Some t -> forallb scalar t = true).

  Lemma UInv_empty : UInv kempty kempty.
  Proof. split; [reflexivity|]. split; [reflexivity|]. intros u t H; discriminate. Qed.

  Lemma UInv_upd s cs u v : UInv s cs -> In u U -> (forall t, v = Some t -> forallb scalar t = true) ->
    UInv (kupd s (key u) (option_map utf8_of v)) (kupd cs u v).
  Proof.
    intros (H1 & H2 & H3) Hu Hv. split; [|split].
    - intros u' Hu'. unfold kupd. destruct (beq_bytes u' u) eqn:E.
      + apply beq_bytes_eq in E. subst u'. rewrite beq_bytes_refl. reflexivity.
      + rewrite beq_bytes_neq; [apply H1, Hu'|].
        intros Ek. apply HU in Ek; [|exact Hu'|exact Hu]. subst u'. rewrite beq_bytes_refl in E. discriminate.
    - intros k Hk. unfold kupd. rewrite beq_bytes_neq; [apply H2, Hk|].
      intros E. apply (Hk u Hu). symmetry. exact E.
    - intros u' t. unfold kupd. destruct (beq_bytes u' u); [apply Hv|apply H3].
  Qed.

  Let lua := fun u => is_lua_key (key u).

  Lemma ustep_agrees s cs n :
    UInv s cs -> In (unote_uri n) U -> unote_ok lua cs n = true -> unote_class_ok (text_ok fx) cs n = true ->
    sx || negb (is_save_nil n) = true ->
    exists s', usync_step fx ux sx prefix s (enc_unote n) = Ok s' /\ UInv s' (uspec_step cs n) /\
               urejected fx ux prefix s (enc_unote n) = false.
  Proof.
    intros HI Hu Hok Hcl Hsv. pose proof HI as (Hs & Hnone & Hsc).
    destruct n as [u t|u chs|u [t|]|u];
      cbn [unote_uri unote_ok unote_class_ok enc_unote usync_step uspec_step urejected option_map is_save_nil] in *;
      fold key.
    - apply andb_true_iff in Hok as [Hok _]. apply andb_true_iff in Hok as [Hlua Ht].
      unfold lua in Hlua. rewrite Hlua.
      eexists; repeat split;
        apply (UInv_upd s cs u (Some t) HI Hu); intros t' E; injection E as <-; exact Ht.
    - rewrite (Hs u Hu). destruct (cs u) as [cur|] eqn:Ecs; [|discriminate]. cbn [option_map].
      destruct (apply_changes_agree fx chs cur (Hsc u cur Ecs) Hok Hcl) as (d' & H1 & H2 & H3).
      rewrite H3, H1. eexists; repeat split;
        apply (UInv_upd s cs u (Some d') HI Hu); intros t' E; injection E as <-; exact H2.
    - destruct (cs u) as [cur|] eqn:Ecs; [|discriminate]. apply beq_bytes_eq in Hok. subst t.
      eexists; repeat split.
      + intros u' Hu'. unfold kupd. destruct (beq_bytes (key u') (key u)) eqn:E; [|apply Hs, Hu'].
        apply beq_bytes_eq in E. apply HU in E; [|exact Hu'|exact Hu]. subst u'. rewrite Ecs. reflexivity.
      + intros k Hk. unfold kupd. rewrite beq_bytes_neq; [apply Hnone, Hk|].
        intros E. apply (Hk u Hu). symmetry. exact E.
      + exact Hsc.
    - destruct sx; [|discriminate]. eexists; repeat split; assumption.
    - eexists; repeat split; apply (UInv_upd s cs u None HI Hu); intros t' E; discriminate.
  Qed.

  Lemma uhistory_agrees ns : forall s cs,
    UInv s cs -> incl (uris ns) U -> uconformant_from lua cs ns = true -> uclass_ok_from (text_ok fx) cs ns = true ->
    save_ok sx ns = true ->
    exists s', urun fx ux sx prefix s (map enc_unote ns) = Ok s' /\ UInv s' (fold_left uspec_step ns cs) /\
               uany_rejected fx ux sx prefix s (map enc_unote ns) = false.
  Proof.
    induction ns as [|n t IH]; intros s cs HI Hin Hok Hcl Hsv.
    - exists s. repeat split; apply HI.
    - cbn [uconformant_from uclass_ok_from] in Hok, Hcl.
      apply andb_true_iff in Hok as [Hok Hok']. apply andb_true_iff in Hcl as [Hcl Hcl'].
      assert (Hsv1 : sx || negb (is_save_nil n) = true /\ save_ok sx t = true).
      { unfold save_ok, save_nil in *. cbn [existsb] in Hsv. destruct sx; [split; reflexivity|].
        cbn [orb] in *. rewrite negb_orb in Hsv. apply andb_true_iff in Hsv. exact Hsv. }
      destruct Hsv1 as [Hsv1 Hsv2].
      assert (Hu : In (unote_uri n) U) by (apply Hin; left; reflexivity).
      assert (Hin' : incl (uris t) U) by (intros x Hx; apply Hin; right; exact Hx).
      destruct (ustep_agrees s cs n HI Hu Hok Hcl Hsv1) as (s1 & Hstep & HI1 & Hrej).
      destruct (IH s1 (uspec_step cs n) HI1 Hin' Hok' Hcl' Hsv2) as (s' & Hrun & HI' & Hrej').
      exists s'. cbn [map urun uany_rejected fold_left]. rewrite Hstep, Hrej, Hrun, Hrej'. repeat split; apply HI'.
  Qed.
End Hist.

Theorem usync_history : forall fx ux sx prefix ns,
  uconformant ux prefix ns = true -> uclass_ok fx ns = true -> save_ok sx ns = true ->
  inj_on ux prefix (uris ns) = true ->
  usync_statement fx ux sx prefix ns /\ ustale fx ux sx prefix ns = false.
Proof.
  intros fx ux sx prefix ns Hok Hcl Hsv Hinj.
  destruct (uhistory_agrees fx ux sx prefix (uris ns) (inj_on_spec ux prefix (uris ns) Hinj) ns kempty kempty
              (UInv_empty ux prefix (uris ns)) (incl_refl _) Hok Hcl Hsv) as (s & Hrun & (H1 & H2 & _) & Hrej).
  split; [|exact Hrej]. exists s. split; [exact Hrun|]. split; [exact H1|exact H2].
Qed.

(* with the repair of the position arithmetic the class guard is vacuous *)
Lemma uclass_ok_from_true (P : list N -> bool) : (forall d, P d = true) ->
  forall ns cs, uclass_ok_from P cs ns = true.
Proof.
  intros HP. induction ns as [|n t IH]; intros cs; cbn [uclass_ok_from]; [reflexivity|].
  rewrite IH, andb_true_r. destruct n as [u x|u chs|u x|u]; cbn [unote_class_ok]; try reflexivity.
  destruct (cs u); [apply changes_class_ok_true, HP|reflexivity].
Qed.

Lemma uclass_ok_fixed ns : uclass_ok true ns = true.
Proof. apply uclass_ok_from_true. intros d. reflexivity. Qed.

(* all three repairs in place: every conformant history over canonical URIs *)
Theorem usync_history_fixed : forall raw prefix ns,
  forallb (canonical raw prefix) (uris ns) = true -> uconformant true prefix ns = true ->
  usync_statement true true true prefix ns /\ ustale true true true prefix ns = false.
Proof.
  intros raw prefix ns Hcan Hok.
  apply usync_history; [exact Hok|apply uclass_ok_fixed|reflexivity|exact (inj_on_canonical raw prefix _ Hcan)].
Qed.

(* ---------- the number-keyed model of Model/TextSync.v is this model under any injective naming ---------- *)
Section Refine.
  Variables fx ux : bool.
  Variable prefix : list N.
  Variable name : N -> list N.                  (* the URI of document d *)
  Let key := fun d => uri_key ux prefix (name d).
  Hypothesis Hinj : forall d1 d2, key d1 = key d2 -> d1 = d2.
  Hypothesis Hlua : forall d, is_lua d = is_lua_key (key d).

  Definition lift_note (n : note) : unote :=
    match n with
    | DidOpen d t => UOpen (name d) t
    | DidChange d chs => UChange (name d) chs
    | DidSave d t => USave (name d) t
    | DidClose d => UClose (name d)
    end.

  Definition Sim (s : cache) (ks : kcache) : Prop := forall d, ks (key d) = s d.

  Lemma Sim_upd s ks d v : Sim s ks -> Sim (upd s d v) (kupd ks (key d) v).
  Proof.
    intros H d'. unfold upd, kupd. destruct (d' =? d) eqn:E.
    - apply N.eqb_eq in E. subst d'. rewrite beq_bytes_refl. reflexivity.
    - rewrite beq_bytes_neq; [apply H|]. intros Ek. apply Hinj in Ek. subst d'. rewrite N.eqb_refl in E. discriminate.
  Qed.

  (* sx = false: Model/TextSync.v is the code before the didSave repair *)
  Lemma step_refines s ks n : Sim s ks ->
    match sync_step fx s n, usync_step fx ux false prefix ks (lift_note n) with
    | Ok s', Ok ks' => Sim s' ks'
    | Fault a, Fault b => a = b
    | OutOfFuel, OutOfFuel => True
    | _, _ => False
    end.
  Proof.
    intros H. destruct n as [d t|d chs|d [t|]|d]; cbn [sync_step usync_step lift_note unote_uri]; fold (key d).
    - rewrite <- Hlua. destruct (is_lua d); [apply Sim_upd, H|exact H].
    - rewrite (H d). destruct (s d) as [cur|]; [|exact H].
      destruct (apply_changes fx cur chs) as [[new|e]|f|]; [apply Sim_upd, H|exact H|reflexivity|exact I].
    - apply Sim_upd, H.
    - reflexivity.
    - apply Sim_upd, H.
  Qed.

  Lemma run_refines ns : forall s ks, Sim s ks ->
    match run fx s ns, urun fx ux false prefix ks (map lift_note ns) with
    | Ok s', Ok ks' => Sim s' ks'
    | Fault a, Fault b => a = b
    | OutOfFuel, OutOfFuel => True
    | _, _ => False
    end.
  Proof.
    induction ns as [|n t IH]; intros s ks H; cbn [run urun map]; [exact H|].
    pose proof (step_refines s ks n H) as Hs.
    destruct (sync_step fx s n) as [s1|a|], (usync_step fx ux false prefix ks (lift_note n)) as [ks1|b|];
      try contradiction; [apply IH, Hs|exact Hs|exact I].
  Qed.
End Refine.

Theorem run_refines_empty : forall fx ux prefix name,
  (forall d1 d2, uri_key ux prefix (name d1) = uri_key ux prefix (name d2) -> d1 = d2) ->
  (forall d, is_lua d = is_lua_key (uri_key ux prefix (name d))) ->
  forall ns,
  match run fx empty_cache ns, urun fx ux false prefix kempty (map (lift_note name) ns) with
  | Ok s', Ok ks' => forall d, ks' (uri_key ux prefix (name d)) = s' d
  | Fault a, Fault b => a = b
  | OutOfFuel, OutOfFuel => True
  | _, _ => False
  end.
Proof.
  intros fx ux prefix name Hinj Hlua ns.
  apply (run_refines fx ux prefix name Hinj Hlua ns empty_cache kempty). intros d. reflexivity.
Qed.
