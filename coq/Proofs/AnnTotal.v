(* C01 (annotation part) / C16: the annotation front end model never faults and never runs out of fuel.

   Every parser function is shown to satisfy a Hoare-style postcondition `post Q r`:
     r = POk a l'  ->  Q a l'        r = PErr _  ->  True        r = PFault _ / PFuel  ->  False
   with Q bounding the measure mu of the new lexer state; fuel 6 * mu + rank is enough for each function. *)
From Coq Require Import String Ascii List Arith NArith Bool Lia ZifyN ZifyNat ZifyBool.
From LH Require Import Base.Bytes Base.Res Model.AnnLexer Model.AnnAst Model.AnnParser Proofs.AnnLexFacts.
Import ListNotations.
Local Open Scope nat_scope.

Definition post {A} (Q : A -> lx -> Prop) (r : PR A) : Prop :=
  match r with
  | POk a l => Q a l
  | PErr _ => True
  | PFault _ => False
  | PFuel => False
  end.

Lemma post_bind {A B} (Q1 : A -> lx -> Prop) (Q : B -> lx -> Prop) (m : PR A) (k : A -> lx -> PR B) :
  post Q1 m -> (forall a l, Q1 a l -> post Q (k a l)) -> post Q (pbind m k).
Proof. destruct m; cbn; intros H1 H2; auto. Qed.

Lemma post_weaken {A} (Q1 Q2 : A -> lx -> Prop) (m : PR A) :
  post Q1 m -> (forall a l, Q1 a l -> Q2 a l) -> post Q2 m.
Proof. destruct m; cbn; auto. Qed.

Lemma post_err {A} (Q : A -> lx -> Prop) ty need msg l : post Q (error_print ty need msg l).
Proof. exact I. Qed.

(* ------------------------------------------------------------------ token-level helpers *)
Definition ahead_kind (l : lx) : option akind := match ahead l with Some t => Some (tkind t) | None => None end.
Definition rw (k : akind) : nat := if real k then 1 else 0.

Lemma ntp_post l :
  post (fun t l' => mu l' + tw t <= mu l /\ ahead l' = None /\
                    (forall k, ahead_kind l = Some k -> tkind t = k)) (next_token_p l).
Proof.
  unfold next_token_p. destruct (next_token_ok l) as (t & l' & -> & Hm & Ha & Hs). cbn.
  split; [exact Hm|]. split; [exact Ha|].
  intros k Hk. unfold ahead_kind in Hk. destruct (ahead l) as [a|] eqn:E; [|discriminate].
  injection Hk as <-. destruct (Hs a eq_refl) as [-> _]. reflexivity.
Qed.

Lemma lap_post l :
  post (fun _ l' => mu l' <= mu l /\ exists t, ahead l' = Some t) (look_ahead_p l).
Proof.
  unfold look_ahead_p. destruct (look_ahead_ok l) as (l' & -> & Hm & Ht). cbn. auto.
Qed.

Lemma lak_post l :
  post (fun k l' => mu l' <= mu l /\ ahead_kind l' = Some k) (look_ahead_kind l).
Proof.
  unfold look_ahead_kind. eapply post_bind; [apply lap_post|].
  intros _ l' [Hm [t Ht]]. rewrite Ht. cbn. split; [exact Hm|]. unfold ahead_kind. rewrite Ht. reflexivity.
Qed.

Lemma tw_kind t k : tkind t = k -> tw t = rw k.
Proof. intros <-. reflexivity. Qed.

Lemma nok_post k l :
  post (fun _ l' => mu l' + rw k <= mu l /\ ahead l' = None) (next_of_kind k l).
Proof.
  unfold next_of_kind. eapply post_bind; [apply ntp_post|].
  intros t l' (Hm & Ha & _). destruct (kind_eqb (tkind t) k) eqn:E; [|apply post_err].
  apply kind_eqb_eq in E. cbn. rewrite <- (tw_kind _ _ E). auto.
Qed.

Lemma keyword_name_post t l (Q : bytes -> lx -> Prop) :
  (real (tkind t) = true -> Q (tstr t) l) -> post Q (keyword_name t l).
Proof.
  intros H. unfold keyword_name. destruct (kw_lookup (tstr t)) as [ik|] eqn:E; [|apply post_err].
  destruct (kind_eqb ik (tkind t)) eqn:E2; [|apply post_err].
  apply kind_eqb_eq in E2. cbn. apply H. rewrite <- E2. eapply kw_lookup_real. exact E.
Qed.

Lemma nfn_post l :
  post (fun _ l' => mu l' + 1 <= mu l /\ ahead l' = None) (next_field_name l).
Proof.
  unfold next_field_name. eapply post_bind; [apply ntp_post|].
  intros t l' (Hm & Ha & _). destruct (kind_eqb (tkind t) KIdent) eqn:E.
  - apply kind_eqb_eq in E. cbn. rewrite (tw_kind _ _ E) in Hm. cbn in Hm. auto.
  - apply keyword_name_post. intros Hr. unfold tw in Hm. rewrite Hr in Hm. auto.
Qed.

Lemma npn_post l :
  post (fun _ l' => mu l' + 1 <= mu l /\ ahead l' = None) (next_param_name l).
Proof.
  unfold next_param_name. eapply post_bind; [apply ntp_post|].
  intros t l' (Hm & Ha & _).
  destruct (kind_eqb (tkind t) KIdent || kind_eqb (tkind t) KVararg) eqn:E.
  - apply orb_true_iff in E as [E|E]; apply kind_eqb_eq in E; cbn; rewrite (tw_kind _ _ E) in Hm; cbn in Hm; auto.
  - apply keyword_name_post. intros Hr. unfold tw in Hm. rewrite Hr in Hm. auto.
Qed.

Lemma nti_post l :
  post (fun _ l' => mu l' + 1 <= mu l /\ ahead l' = None) (next_type_identifier l).
Proof.
  unfold next_type_identifier. eapply post_bind; [apply ntp_post|].
  intros t l' (Hm & Ha & _). destruct (kind_eqb (tkind t) KIdent) eqn:E; [|apply post_err].
  apply kind_eqb_eq in E. cbn. rewrite (tw_kind _ _ E) in Hm. cbn in Hm. auto.
Qed.

(* consuming the token that LookAheadKind has just shown to be of the real kind k *)
Lemma ntp_real_post k l :
  ahead_kind l = Some k -> real k = true ->
  post (fun _ l' => mu l' + 1 <= mu l /\ ahead l' = None) (next_token_p l).
Proof.
  intros Hk Hr. eapply post_weaken; [apply ntp_post|].
  intros t l' (Hm & Ha & Hs). specialize (Hs k Hk). rewrite (tw_kind _ _ Hs) in Hm. unfold rw in Hm.
  rewrite Hr in Hm. auto.
Qed.

Lemma split_str_quotes_ok s : exists r, split_str_quotes s = Ok r.
Proof.
  unfold split_str_quotes. destruct (Nat.leb (length s) 2) eqn:E; [eexists; reflexivity|].
  apply Nat.leb_gt in E.
  destruct (_ || _); [|eexists; reflexivity].
  rewrite go_slice_ok by lia. cbn. eexists. reflexivity.
Qed.

Lemma ssq_post s l : post (fun _ l' => l' = l) (lift_res (split_str_quotes s) l).
Proof. destruct (split_str_quotes_ok s) as [r ->]. reflexivity. Qed.

(* ------------------------------------------------------------------ tactics *)
Ltac kind_facts :=
  repeat match goal with
         | H : kind_eqb _ _ = true |- _ => apply kind_eqb_eq in H; try subst
         end.

(* one step of symbolic execution under `post` *)
Ltac pstep :=
  lazymatch goal with
  | |- post _ (pbind (look_ahead_kind _) _) =>
    eapply post_bind; [apply lak_post | intros ? ? [? ?]]
  | |- post _ (pbind (look_ahead_p _) _) =>
    eapply post_bind; [apply lap_post | intros ? ? [? ?]]
  | |- post _ (pbind (next_of_kind _ _) _) =>
    eapply post_bind; [apply nok_post | cbn [rw real kind_eqb kind_code N.eqb Pos.eqb orb negb]; intros ? ? [? ?]]
  | |- post _ (pbind (next_field_name _) _) =>
    eapply post_bind; [apply nfn_post | intros ? ? [? ?]]
  | |- post _ (pbind (next_param_name _) _) =>
    eapply post_bind; [apply npn_post | intros ? ? [? ?]]
  | |- post _ (pbind (next_type_identifier _) _) =>
    eapply post_bind; [apply nti_post | intros ? ? [? ?]]
  | |- post _ (pbind (next_token_p _) _) =>
    eapply post_bind; [apply ntp_post | intros ? ? (? & ? & ?)]
  | |- post _ (pbind (lift_res (split_str_quotes _) _) _) =>
    eapply post_bind; [apply ssq_post | let Hq := fresh "Hq" in intros ? ? Hq; cbn beta in Hq; subst]
  | |- post _ (next_of_kind _ _) =>
    eapply post_weaken; [apply nok_post | cbn [rw real kind_eqb kind_code N.eqb Pos.eqb orb negb]; intros ? ? [? ?]]
  | |- post _ (pbind (pbind _ _) _) => fail
  | |- post _ (pbind (if ?b then _ else _) _) => fail
  | |- post _ (if ?b then _ else _) => destruct b eqn:?
  | |- post _ (error_print _ _ _ _) => exact I
  | |- post _ (POk _ _) => cbn [post]
  end.

(* ------------------------------------------------------------------ fun<...> generic names *)
Lemma fun_generic_loop_post fuel : forall l,
  mu l + 1 <= fuel ->
  post (fun _ l' => mu l' + 1 <= mu l) (fun_generic_loop fuel l).
Proof.
  induction fuel as [|f IH]; intros l Hf; [lia|].
  cbn [fun_generic_loop]. repeat pstep.
  - eapply post_weaken; [apply IH; lia|]. cbn. intros. lia.
  - lia.
Qed.

(* ------------------------------------------------------------------ the array suffixes T[][]... *)
Lemma array_suffix_loop_post fuel : forall sub l,
  mu l + 1 <= fuel ->
  post (fun _ l' => mu l' <= mu l) (array_suffix_loop fuel sub l).
Proof.
  induction fuel as [|f IH]; intros sub l Hf; [lia|].
  cbn [array_suffix_loop]. repeat pstep.
  - eapply post_weaken; [apply IH; lia|]. cbn. intros. lia.
  - lia.
Qed.

(* ------------------------------------------------------------------ the type parser *)
Definition Qdec (l : lx) {A} : A -> lx -> Prop := fun _ l' => mu l' + 1 <= mu l.

Definition tot_single f := forall l, 6 * mu l + 2 <= f -> post (Qdec l) (parse_single_type f l).
Definition tot_one f := forall l, 6 * mu l + 4 <= f -> post (Qdec l) (parse_one_type f l).
Definition tot_loop f := forall acc l, 6 * mu l + 3 <= f -> post (Qdec l) (one_type_loop f acc l).
Definition tot_fun f := forall l, 6 * mu l + 1 <= f -> post (Qdec l) (parse_fun_type f l).
Definition tot_params f := forall acc l, 6 * mu l + 5 <= f -> post (Qdec l) (fun_params_loop f acc l).
Definition tot_rets f := forall acc l, 6 * mu l + 5 <= f -> post (Qdec l) (fun_rets_loop f acc l).
Definition tot_table f := forall l, 6 * mu l + 1 <= f -> post (Qdec l) (parse_table_type f l).

Definition tot_all f :=
  tot_single f /\ tot_one f /\ tot_loop f /\ tot_fun f /\ tot_params f /\ tot_rets f /\ tot_table f.

(* the token consumed by NextToken() is the one LookAheadKind has just shown to be of a real kind *)
Ltac ntp_fin :=
  match goal with
  | H3 : forall k, ahead_kind ?l0 = Some k -> tkind ?a = k, H0 : ahead_kind ?l0 = Some ?k, H1 : context [tw ?a] |- _ =>
    rewrite (tw_kind _ _ (H3 _ H0)) in H1; cbn in H1
  end; lia.

Ltac use_ih H :=
  eapply post_bind; [apply H; lia | unfold Qdec; intros ? ? ?].
Ltac end_ih H :=
  eapply post_weaken; [apply H; lia | unfold Qdec; intros; lia].

Lemma tot_all_holds : forall f, tot_all f.
Proof.
  induction f as [|f (IHs & IHo & IHl & IHf & IHp & IHr & IHt)].
  { repeat split; intro; intros; lia. }
  repeat split.
  - (* parse_single_type *)
    intros l Hf. cbn [parse_single_type]. unfold Qdec.
    pstep.
    eapply post_bind with (Q1 := fun _ l' => mu l' + 1 <= mu l).
    { repeat pstep; kind_facts.
      + use_ih IHo. repeat pstep; lia.
      + end_ih IHf.
      + end_ih IHt.
      + lia.
      + ntp_fin.
      + ntp_fin. }
    intros sub lA HA. eapply post_weaken; [apply array_suffix_loop_post; lia|]. cbn. intros. lia.
  - (* parse_one_type *)
    intros l Hf. cbn [parse_one_type]. unfold Qdec. pstep. end_ih IHl.
  - (* one_type_loop *)
    intros acc l Hf. cbn [one_type_loop]. unfold Qdec.
    use_ih IHs. repeat pstep.
    + end_ih IHl.
    + lia.
  - (* parse_fun_type *)
    intros l Hf. cbn [parse_fun_type]. unfold Qdec.
    pstep. pstep.
    eapply post_bind with (Q1 := fun _ l' => mu l' + 1 <= mu l).
    { repeat pstep.
      + eapply post_bind; [apply fun_generic_loop_post; lia|]. cbn. intros. repeat pstep. lia.
      + lia. }
    intros _ lA HA. pstep. pstep.
    eapply post_bind with (Q1 := fun _ l' => mu l' + 2 <= mu l).
    { repeat pstep.
      + lia.
      + end_ih IHp. }
    intros ps lB HB. pstep. pstep.
    eapply post_bind with (Q1 := fun _ l' => mu l' + 3 <= mu l).
    { repeat pstep.
      + end_ih IHr.
      + lia. }
    intros rs lC HC. cbn. lia.
  - (* fun_params_loop *)
    intros acc l Hf. cbn [fun_params_loop]. unfold Qdec.
    pstep. pstep.
    eapply post_bind with (Q1 := fun _ l' => mu l' + 1 <= mu l).
    { repeat pstep; lia. }
    intros ok1 lA HA.
    eapply post_bind with (Q1 := fun _ l' => mu l' + 1 <= mu l).
    { repeat pstep.
      + end_ih IHo.
      + lia. }
    intros ty lB HB. repeat pstep.
    + end_ih IHp.
    + lia.
  - (* fun_rets_loop *)
    intros acc l Hf. cbn [fun_rets_loop]. unfold Qdec.
    use_ih IHo. repeat pstep.
    + end_ih IHr.
    + lia.
  - (* parse_table_type *)
    intros l Hf. cbn [parse_table_type]. unfold Qdec.
    repeat pstep.
    + lia.
    + use_ih IHo. pstep. use_ih IHo. repeat pstep. lia.
Qed.

Lemma one_type_post f l : 6 * mu l + 4 <= f -> post (fun _ l' => mu l' + 1 <= mu l) (parse_one_type f l).
Proof. apply (tot_all_holds f). Qed.
Lemma fun_type_post f l : 6 * mu l + 1 <= f -> post (fun _ l' => mu l' + 1 <= mu l) (parse_fun_type f l).
Proof. apply (tot_all_holds f). Qed.

(* ------------------------------------------------------------------ statements *)
Definition Qany {A} : A -> lx -> Prop := fun _ _ => True.

Ltac one_ih := eapply post_bind; [apply one_type_post; lia | let Hq := fresh "Hq" in intros ? ? Hq; cbn beta in Hq].

Lemma type_items_loop_post fuel : forall acc l,
  6 * mu l + 5 <= fuel -> post (fun _ l' => mu l' + 1 <= mu l) (type_items_loop fuel acc l).
Proof.
  induction fuel as [|f IH]; intros acc l Hf; [lia|].
  cbn [type_items_loop]. pstep.
  eapply post_bind with (Q1 := fun _ l' => mu l' <= mu l).
  { repeat pstep; lia. }
  intros ce lA HA. one_ih. repeat pstep.
  - eapply post_weaken; [apply IH; lia|]. cbn. intros. lia.
  - lia.
Qed.

Lemma class_parents_loop_post fuel : forall cname acc l,
  mu l + 1 <= fuel -> post (fun _ l' => mu l' + 1 <= mu l) (class_parents_loop fuel cname acc l).
Proof.
  induction fuel as [|f IH]; intros cname acc l Hf; [lia|].
  cbn [class_parents_loop]. repeat pstep.
  - eapply post_weaken; [apply IH; lia|]. cbn. intros. lia.
  - lia.
Qed.

Lemma return_items_loop_post fuel : forall acc l,
  6 * mu l + 5 <= fuel -> post (fun _ l' => mu l' + 1 <= mu l) (return_items_loop fuel acc l).
Proof.
  induction fuel as [|f IH]; intros acc l Hf; [lia|].
  cbn [return_items_loop]. one_ih. pstep.
  eapply post_bind with (Q1 := fun _ l' => mu l' + 1 <= mu l).
  { repeat pstep; lia. }
  intros opt lA HA. repeat pstep.
  - eapply post_weaken; [apply IH; lia|]. cbn. intros. lia.
  - lia.
Qed.

Lemma generic_items_loop_post fuel : forall acc l,
  mu l + 1 <= fuel -> post (fun _ l' => mu l' + 1 <= mu l) (generic_items_loop fuel acc l).
Proof.
  induction fuel as [|f IH]; intros acc l Hf; [lia|].
  cbn [generic_items_loop]. pstep. pstep.
  eapply post_bind with (Q1 := fun _ l' => mu l' + 1 <= mu l).
  { repeat pstep; lia. }
  intros parent lA HA. repeat pstep.
  - eapply post_weaken; [apply IH; lia|]. cbn. intros. lia.
  - lia.
Qed.

Lemma parse_type_state_post fuel l : 6 * mu l + 5 <= fuel -> post Qany (parse_type_state fuel l).
Proof.
  intros Hf. unfold parse_type_state. pstep.
  eapply post_bind; [apply type_items_loop_post; lia|]. intros. exact I.
Qed.

Lemma parse_alias_state_post fuel l : 6 * mu l + 5 <= fuel -> post Qany (parse_alias_state fuel l).
Proof.
  intros Hf. unfold parse_alias_state. repeat pstep; try exact I. one_ih. exact I.
Qed.

Lemma parse_class_state_post fuel l : 6 * mu l + 5 <= fuel -> post Qany (parse_class_state fuel l).
Proof.
  intros Hf. unfold parse_class_state. pstep. pstep. pstep.
  eapply post_bind with (Q1 := Qany).
  { repeat pstep; try exact I.
    eapply post_weaken; [apply class_parents_loop_post; lia|]. intros. exact I. }
  intros. exact I.
Qed.

Lemma parse_overload_state_post fuel l : 6 * mu l + 5 <= fuel -> post Qany (parse_overload_state fuel l).
Proof.
  intros Hf. unfold parse_overload_state. pstep.
  eapply post_bind; [apply fun_type_post; lia|]. intros. exact I.
Qed.

Lemma parse_field_state_post fuel l : 6 * mu l + 5 <= fuel -> post Qany (parse_field_state fuel l).
Proof.
  intros Hf. unfold parse_field_state. pstep. pstep.
  eapply post_bind with (Q1 := fun _ l' => mu l' <= mu l).
  { repeat pstep; lia. }
  intros sc lA HA. pstep. pstep.
  eapply post_bind with (Q1 := fun _ l' => mu l' <= mu l).
  { repeat pstep; lia. }
  intros co lB HB. one_ih. exact I.
Qed.

Lemma parse_param_state_post fuel l : 6 * mu l + 5 <= fuel -> post Qany (parse_param_state fuel l).
Proof.
  intros Hf. unfold parse_param_state. pstep. pstep.
  eapply post_bind with (Q1 := fun _ l' => mu l' <= mu l).
  { repeat pstep; lia. }
  intros isc lA HA. pstep. pstep.
  eapply post_bind with (Q1 := fun _ l' => mu l' <= mu l).
  { repeat pstep; lia. }
  intros opt lB HB. one_ih. exact I.
Qed.

Lemma parse_return_state_post fuel l : 6 * mu l + 5 <= fuel -> post Qany (parse_return_state fuel l).
Proof.
  intros Hf. unfold parse_return_state. pstep.
  eapply post_bind; [apply return_items_loop_post; lia|]. intros. exact I.
Qed.

Lemma parse_generic_state_post fuel l : 6 * mu l + 5 <= fuel -> post Qany (parse_generic_state fuel l).
Proof.
  intros Hf. unfold parse_generic_state. pstep.
  eapply post_bind; [apply generic_items_loop_post; lia|]. intros. exact I.
Qed.

Lemma parse_vararg_state_post fuel l : 6 * mu l + 5 <= fuel -> post Qany (parse_vararg_state fuel l).
Proof.
  intros Hf. unfold parse_vararg_state. pstep. one_ih. exact I.
Qed.

Lemma parse_enum_state_post l : post Qany (parse_enum_state l).
Proof.
  unfold parse_enum_state. repeat pstep; exact I.
Qed.

Lemma parse_one_state_post fuel l : 6 * mu l + 5 <= fuel -> post Qany (parse_one_state fuel l).
Proof.
  intros Hf. unfold parse_one_state. pstep.
  destruct a; try exact I;
    first [ apply parse_type_state_post | apply parse_alias_state_post | apply parse_class_state_post
          | apply parse_overload_state_post | apply parse_field_state_post | apply parse_param_state_post
          | apply parse_return_state_post | apply parse_generic_state_post | apply parse_vararg_state_post
          | apply parse_enum_state_post ]; lia.
Qed.

(* ------------------------------------------------------------------ the C01 lemmas *)

(* ParserLine never sees a runtime panic (the type assertion in its recover() cannot fail) and terminates *)
Theorem ann_parse_line_no_fault : forall line, exists r, ann_parse_line (fuel_of line) line = Ok r.
Proof.
  intros line. unfold ann_parse_line.
  pose proof (parse_one_state_post (fuel_of line) (mkLx line None)) as H.
  assert (Hf : 6 * mu (mkLx line None) + 5 <= fuel_of line).
  { unfold mu, fuel_of. cbn [chunk ahead]. lia. }
  specialize (H Hf). destruct (parse_one_state (fuel_of line) (mkLx line None)); cbn in H; try contradiction;
    eexists; reflexivity.
Qed.

Theorem parse_type_no_fault : forall text, exists r, parse_type (fuel_of text) text = Ok r.
Proof.
  intros text. unfold parse_type.
  pose proof (one_type_post (fuel_of text) (mkLx text None)) as H.
  assert (Hf : 6 * mu (mkLx text None) + 4 <= fuel_of text).
  { unfold mu, fuel_of. cbn [chunk ahead]. lia. }
  specialize (H Hf). destruct (parse_one_type (fuel_of text) (mkLx text None)); cbn in H; try contradiction;
    eexists; reflexivity.
Qed.

(* the lexer alone: every call of NextTokenStruct / lookAheardToken returns *)
Theorem ann_lex_total : forall l, (exists t l', next_token l = Ok (t, l')) /\ (exists l', look_ahead l = Ok l').
Proof.
  intros l. split.
  - destruct (next_token_ok l) as (t & l' & H & _). eauto.
  - destruct (look_ahead_ok l) as (l' & H & _). eauto.
Qed.

(* parserExtraAliasLine runs outside recover(): it never panics at all *)
Lemma look_ahead_kind_ok l : exists k l', look_ahead_kind l = POk k l'.
Proof.
  unfold look_ahead_kind, look_ahead_p. destruct (look_ahead_ok l) as (l' & -> & _ & t & Ht). cbn.
  rewrite Ht. eauto.
Qed.

Lemma parse_extra_alias_line_ok l : exists r l', parse_extra_alias_line l = POk r l'.
Proof.
  unfold parse_extra_alias_line. destruct (look_ahead_kind_ok l) as (k & l' & ->). cbn [pbind].
  destruct (negb (kind_eqb k KString)); [eauto|].
  destruct (split_str_quotes_ok (ahead_str l')) as [sq ->]. cbn [lift_res pbind].
  unfold next_token_p. destruct (next_token_ok l') as (t & l'' & -> & _). cbn. eauto.
Qed.

Theorem frag_step_no_fault : forall fr ln, exists fr', frag_step fr ln = Ok fr'.
Proof.
  intros fr [lno text]. unfold frag_step.
  destruct (check_head_ok s_alias_head text eq_refl) as (ah & -> & _). cbn [rbind].
  destruct ah as [c|].
  - destruct (parse_extra_alias_line_ok (mkLx c None)) as (r & l' & ->). destruct r; eauto.
  - destruct (check_head_ok s_head text eq_refl) as (h & -> & _). cbn [rbind].
    destruct h as [c|]; [|eauto].
    destruct (ann_parse_line_no_fault c) as [r ->]. cbn [rbind].
    destruct r as [s|e]; [destruct s|]; eauto.
Qed.

Theorem frag_loop_no_fault : forall lines fr, exists fr', frag_loop fr lines = Ok fr'.
Proof.
  induction lines as [|ln rest IH]; intros fr; cbn [frag_loop]; [eauto|].
  destruct (frag_step_no_fault fr ln) as [fr' ->]. cbn [rbind]. apply IH.
Qed.

(* ------------------------------------------------------------------ Stats and Lines stay aligned while reading *)
Lemma append_alias_last_length stats ct : length (append_alias_last stats ct) = length stats.
Proof.
  unfold append_alias_last. destruct (rev stats) as [|lst before] eqn:Er; [reflexivity|].
  destruct (is_alias lst); [|reflexivity].
  rewrite app_length, rev_length. cbn [length].
  rewrite <- (rev_length stats), Er. cbn [length]. lia.
Qed.

Definition aligned (fr : frag) : Prop := length (f_stats fr) = length (f_lines fr).

Lemma frag_step_aligned fr ln fr' : frag_step fr ln = Ok fr' -> aligned fr -> aligned fr'.
Proof.
  destruct ln as [lno text]. unfold frag_step, aligned. intros H Ha.
  destruct (check_head s_alias_head text) as [[c|]| |]; cbn [rbind] in H; try discriminate H.
  - destruct (parse_extra_alias_line (mkLx c None)) as [[ct|] l'| | |]; try discriminate H;
      injection H as <-; [|exact Ha]. cbn [f_stats f_lines]. rewrite append_alias_last_length. exact Ha.
  - destruct (check_head s_head text) as [[c|]| |]; cbn [rbind] in H; try discriminate H.
    + destruct (ann_parse_line (fuel_of c) c) as [[s|e]| |]; cbn [rbind] in H; try discriminate H.
      * destruct s; injection H as <-; cbn [f_stats f_lines]; try exact Ha; rewrite !app_length; cbn [length]; lia.
      * injection H as <-. exact Ha.
    + injection H as <-. exact Ha.
Qed.

Lemma frag_loop_aligned ls : forall fr fr', frag_loop fr ls = Ok fr' -> aligned fr -> aligned fr'.
Proof.
  induction ls as [|ln ls IH]; intros fr fr' H Ha; cbn [frag_loop] in H.
  - injection H as <-. exact Ha.
  - destruct (frag_step fr ln) as [fr1| |] eqn:E; cbn [rbind] in H; try discriminate H.
    eapply IH; [exact H|]. eapply frag_step_aligned; eassumption.
Qed.

(* clearEmpytAlias on aligned Stats / Lines: the slice expressions are in range, and the result is the list of
   (statement, line) pairs without the aliases that have no type *)
Definition keep_pair (p : astat * N) : bool := negb (empty_alias (fst p)).

Lemma clear_loop_aligned : forall stats lines, length stats = length lines ->
  clear_loop stats lines =
  Ok (map fst (filter keep_pair (combine stats lines)), map snd (filter keep_pair (combine stats lines))).
Proof.
  induction stats as [|s r IH]; intros [|x lr] Hlen; cbn [length] in Hlen; try discriminate Hlen; [reflexivity|].
  cbn [clear_loop combine filter].
  assert (Hk : keep_pair (s, x) = negb (empty_alias s)) by reflexivity. rewrite Hk.
  destruct (empty_alias s); cbn [negb].
  - apply IH. lia.
  - cbn [tl]. rewrite IH by lia. reflexivity.
Qed.

Lemma clear_empty_alias_ok fr : aligned fr -> exists fr', clear_empty_alias fr = Ok fr' /\ aligned fr'.
Proof.
  intros Ha. unfold clear_empty_alias. rewrite (clear_loop_aligned _ _ Ha). cbn [rbind fst snd].
  eexists. split; [reflexivity|]. unfold aligned. cbn [f_stats f_lines]. rewrite !map_length. reflexivity.
Qed.

(* ------------------------------------------------------------------ the repaired loop (lastAliasState) *)
Theorem frag_step_fx_no_fault : forall st ln, exists st', frag_step_fx st ln = Ok st'.
Proof.
  intros [fr la] [lno text]. unfold frag_step_fx.
  destruct (check_head_ok s_alias_head text eq_refl) as (ah & -> & _). cbn [rbind].
  destruct ah as [c|].
  - destruct (parse_extra_alias_line_ok (mkLx c None)) as (r & l' & ->). destruct r; [destruct la|]; eauto.
  - destruct (check_head_ok s_head text eq_refl) as (h & -> & _). cbn [rbind].
    destruct h as [c|]; [|eauto].
    destruct (ann_parse_line_no_fault c) as [r ->]. cbn [rbind].
    destruct r as [s|e]; [destruct s|]; eauto.
Qed.

Theorem frag_loop_fx_no_fault : forall lines st, exists st', frag_loop_fx st lines = Ok st'.
Proof.
  induction lines as [|ln rest IH]; intros st; cbn [frag_loop_fx]; [eauto|].
  destruct (frag_step_fx_no_fault st ln) as [st' ->]. cbn [rbind]. apply IH.
Qed.

Lemma frag_step_fx_aligned st ln st' : frag_step_fx st ln = Ok st' -> aligned (fst st) -> aligned (fst st').
Proof.
  destruct st as [fr la]. destruct ln as [lno text]. unfold frag_step_fx, aligned. cbn [fst]. intros H Ha.
  destruct (check_head s_alias_head text) as [[c|]| |]; cbn [rbind] in H; try discriminate H.
  - destruct (parse_extra_alias_line (mkLx c None)) as [[ct|] l'| | |]; try discriminate H.
    + destruct la; injection H as <-; cbn [fst f_stats f_lines]; [|exact Ha].
      rewrite append_alias_last_length. exact Ha.
    + injection H as <-. exact Ha.
  - destruct (check_head s_head text) as [[c|]| |]; cbn [rbind] in H; try discriminate H.
    + destruct (ann_parse_line (fuel_of c) c) as [[s|e]| |]; cbn [rbind] in H; try discriminate H.
      * destruct s; injection H as <-; cbn [fst f_stats f_lines]; try exact Ha; rewrite !app_length; cbn [length]; lia.
      * injection H as <-. exact Ha.
    + injection H as <-. exact Ha.
Qed.

Lemma frag_loop_fx_aligned ls : forall st st', frag_loop_fx st ls = Ok st' -> aligned (fst st) -> aligned (fst st').
Proof.
  induction ls as [|ln ls IH]; intros st st' H Ha; cbn [frag_loop_fx] in H.
  - injection H as <-. exact Ha.
  - destruct (frag_step_fx st ln) as [st1| |] eqn:E; cbn [rbind] in H; try discriminate H.
    eapply IH; [exact H|]. eapply frag_step_fx_aligned; eassumption.
Qed.

(* ParseCommentFragment, before and after the repair of the continuation lines: for every list of comment lines
   (arbitrary bytes) it returns; no panic escapes *)
Theorem parse_fragment_gen_no_fault : forall cont lines, exists fr, parse_fragment_gen cont lines = Ok fr.
Proof.
  intros cont lines. unfold parse_fragment_gen. destruct cont.
  - destruct (frag_loop_fx_no_fault lines (mkFrag [] [] [], false)) as [st Hst]. rewrite Hst. cbn [rbind].
    destruct (clear_empty_alias_ok (fst st) (frag_loop_fx_aligned lines _ _ Hst eq_refl)) as (fr' & -> & _). eauto.
  - destruct (frag_loop_no_fault lines (mkFrag [] [] [])) as [fr Hfr]. rewrite Hfr. cbn [rbind].
    destruct (clear_empty_alias_ok fr (frag_loop_aligned lines _ _ Hfr eq_refl)) as (fr' & -> & _). eauto.
Qed.

(* ... and Lines[i] is the line of Stats[i]: the two slices have the same length for ALL inputs *)
Theorem parse_fragment_gen_aligned : forall cont lines fr, parse_fragment_gen cont lines = Ok fr -> aligned fr.
Proof.
  intros cont lines fr. unfold parse_fragment_gen. destruct cont.
  - destruct (frag_loop_fx_no_fault lines (mkFrag [] [] [], false)) as [st Hst]. rewrite Hst. cbn [rbind].
    destruct (clear_empty_alias_ok (fst st) (frag_loop_fx_aligned lines _ _ Hst eq_refl)) as (fr' & -> & Ha).
    intros H. injection H as <-. exact Ha.
  - destruct (frag_loop_no_fault lines (mkFrag [] [] [])) as [fr0 Hfr]. rewrite Hfr. cbn [rbind].
    destruct (clear_empty_alias_ok fr0 (frag_loop_aligned lines _ _ Hfr eq_refl)) as (fr' & -> & Ha).
    intros H. injection H as <-. exact Ha.
Qed.

(* the code as it is (cited by Properties/C01.v) *)
Theorem parse_fragment_no_fault : forall lines, exists fr, parse_fragment lines = Ok fr.
Proof. exact (parse_fragment_gen_no_fault (fx_cont deployed)). Qed.

Theorem parse_fragment_aligned : forall lines fr, parse_fragment lines = Ok fr -> aligned fr.
Proof. exact (parse_fragment_gen_aligned (fx_cont deployed)). Qed.
