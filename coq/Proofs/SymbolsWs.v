(* C19 - workspace/symbol candidates of the repaired collection code (fx_wsdecl, fx_wsnested, fx_wsgmem) and of the
   repaired first pass (deep_global_fix).  The two general lemmas hold for EVERY state of the symbol tables. *)
From Coq Require Import List NArith ZArith Bool.
From LH Require Import Base.Bytes Base.Res Model.Lexer Model.Ast Model.Parser Model.LuaFront Model.Symbols Spec.SymbolSpec
  Proofs.SymbolsJudge Proofs.SymbolsWitness Proofs.SymbolsExamples.
Import ListNotations.

(* sc is a scope of the tree below r (r itself, a block / function scope inside it, at any depth) *)
Inductive reach : scope -> scope -> Prop :=
| reach_refl : forall r, reach r r
| reach_step : forall r sub sc, In sub (s_subs r) -> reach sub sc -> reach r sc.

Lemma scope_vars_in : forall only_func vars nm vs v,
    In (nm, vs) vars -> In v vs -> is_some (v_func v) = true ->
    In (mkW nm true (v_loc v) false) (w_scope_vars true only_func vars).
Proof.
  intros only_func vars nm vs v Hvars Hv Hf. unfold w_scope_vars. apply in_flat_map. exists (nm, vs). split; [exact Hvars|].
  cbn [fst snd]. apply in_flat_map. exists v. split; [exact Hv|]. rewrite Hf. cbn [negb]. rewrite andb_false_r. left. reflexivity.
Qed.

Lemma go_in : forall l sub w,
    In sub l -> In w (w_subscopes true [] sub) ->
    In w ((fix go (l : list scope) : list wsym := match l with [] => [] | x :: l' => w_subscopes true [] x ++ go l' end) l).
Proof.
  induction l as [|x l IH]; intros sub w Hin Hw; [destruct Hin|]. apply in_or_app. destruct Hin as [->|Hin]; [left; exact Hw|].
  right. eapply IH; eauto.
Qed.

Lemma subscopes_reach : forall r sc, reach r sc -> forall w, In w (w_scope_vars true true (s_vars sc)) -> In w (w_subscopes true [] r).
Proof.
  intros r sc H. induction H as [r|r sub sc Hsub Hreach IH]; intros w Hw.
  - destruct r as [fid vars subs]. cbn [w_subscopes]. destruct fid; cbn [memN existsb]; apply in_or_app; left; exact Hw.
  - specialize (IH w Hw). destruct r as [fid vars subs]. cbn [s_subs] in Hsub. cbn [w_subscopes].
    destruct fid; cbn [memN existsb]; apply in_or_app; right; eapply go_in; eauto.
Qed.

(* every function-valued local variable of EVERY scope of the file (main block, bodies of local AND global functions and of
   member functions, nested blocks - any depth), every declaration of a name separately, is a workspace/symbol candidate
   under its own name, located at the declaring identifier *)
Theorem ws_local_functions : forall s sc nm vs v,
    reach (main_scope s) sc -> In (nm, vs) (s_vars sc) -> In v vs -> is_some (v_func v) = true ->
    In (mkW nm true (v_loc v) false) (file_wsyms fx_all s).
Proof.
  intros s sc nm vs v Hreach Hvars Hv Hf. unfold file_wsyms. cbn [fx_all fx_wsdecl fx_wsnested].
  apply in_or_app. right. inversion Hreach as [r Hr|r sub sc0 Hsub Hreach' Hr Hsc]; subst.
  - apply in_or_app. left. eapply scope_vars_in; eauto.
  - apply in_or_app. right. apply in_or_app. left. apply in_flat_map. exists sub. split; [exact Hsub|].
    eapply subscopes_reach; [exact Hreach'|]. eapply scope_vars_in; eauto.
Qed.

(* every member of every global of the file - defined through `_G.` or not - is a candidate named <global>.<key>, located
   at the member's identifier *)
Theorem ws_global_members : forall s k g mk mv,
    In (k, g) (globs s) -> In (mk, mv) (v_sub g) ->
    In (mkW (k ++ [c_dot] ++ mk) (is_some (v_func mv)) (v_loc mv) false) (file_wsyms fx_all s).
Proof.
  intros s k g mk mv Hg Hm. unfold file_wsyms. apply in_or_app. left. apply in_flat_map. exists (k, g). split; [exact Hg|].
  cbn [fst snd fx_all fx_wsgmem negb]. rewrite andb_false_r. right. unfold w_members. apply in_flat_map. exists (mk, mv).
  split; [exact Hm|]. cbn [fst snd]. destruct (v_func mv); left; reflexivity.
Qed.

(* ------------------------------------------------------------------ witnesses: before (fx_round2 = /repo after d582d9c) and after *)
Definition ws_of_bytes (fx : fixes) (bs : list N) : option (list (bytes * bool * loc * bool)) :=
  match analyse_bytes no_gbk bs with
  | Ok (FsOk st) => Some (map (fun w => (w_name w, w_fn w, w_loc w, w_g w)) (file_wsyms fx (finalize st)))
  | _ => None
  end.

(* local function dup() end <LF> local dup = 5 *)
Definition w_dup : list N := [108;111;99;97;108;32;102;117;110;99;116;105;111;110;32;100;117;112;40;41;32;101;110;100;10;108;111;99;97;108;32;100;117;112;32;61;32;53;10]%N.
(* function gouter() <LF>   local function inner() end <LF> end *)
Definition w_nested : list N := [102;117;110;99;116;105;111;110;32;103;111;117;116;101;114;40;41;10;32;32;108;111;99;97;108;32;102;117;110;99;116;105;111;110;32;105;110;110;101;114;40;41;32;101;110;100;10;101;110;100;10]%N.
Definition n_dup : bytes := [100;117;112]%N.
Definition n_inner : bytes := [105;110;110;101;114]%N.
Definition n_gouter : bytes := [103;111;117;116;101;114]%N.
Definition n_GT : bytes := [71;84]%N.
Definition n_GT_f : bytes := [71;84;46;102]%N.
Definition n_Cfg : bytes := [67;102;103]%N.
Definition n_Cfg_load : bytes := [67;102;103;46;108;111;97;100]%N.
Definition n_init : bytes := [105;110;105;116]%N.

Lemma ws_redeclared_witness :
  ws_of_bytes fx_round2 w_dup = Some [(n_dup, false, mkLoc 2 6 2 9, false)] /\
  ws_of_bytes deployed w_dup = Some [(n_dup, true, mkLoc 1 15 1 18, false); (n_dup, false, mkLoc 2 6 2 9, false)].
Proof. vm_compute. split; reflexivity. Qed.

Lemma ws_nested_witness :
  ws_of_bytes fx_round2 w_nested = Some [(n_gouter, true, mkLoc 1 9 1 15, false)] /\
  ws_of_bytes deployed w_nested = Some [(n_gouter, true, mkLoc 1 9 1 15, false); (n_inner, true, mkLoc 2 17 2 22, false)].
Proof. vm_compute. split; reflexivity. Qed.

Lemma ws_G_member_witness :
  ws_of_bytes fx_round2 w_G_member = Some [(n_GT, false, mkLoc 1 3 1 5, true)] /\
  ws_of_bytes deployed w_G_member = Some [(n_GT, false, mkLoc 1 3 1 5, true); (n_GT_f, true, mkLoc 2 15 2 16, false)].
Proof. vm_compute. split; reflexivity. Qed.

(* member of a global defined at a deeper level: child entry of the outline and workspace candidate *)
Lemma deep_global_witness :
  (exists ss s c, outline_of_bytes deployed w_deep_global = Some ss /\ nth_error ss 0 = Some s /\ s_children s = [c] /\
                  s_key s = n_Cfg /\ s_decl s = mkLoc 1 16 1 19 /\ s_loc s = mkLoc 1 16 3 23 /\
                  c_key c = n_Cfg_load /\ c_fn c = true /\ c_decl c = mkLoc 3 13 3 17 /\ c_loc c = mkLoc 3 0 3 23) /\
  ws_of_bytes deployed w_deep_global =
    Some [(n_Cfg, false, mkLoc 1 16 1 19, false); (n_Cfg_load, true, mkLoc 3 13 3 17, false); (n_init, true, mkLoc 1 9 1 13, false)].
Proof. split; [do 3 eexists|]; vm_compute; repeat split. Qed.
