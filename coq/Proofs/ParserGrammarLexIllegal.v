(* C03: a token of kind "illegal" always carries a lexical error (scan_token attaches LeIllegal), for every token
   list the lexer model produces and for what parser_view makes of it.  This turns "no lexical error" into the
   guard no_illegal_b of the token-level soundness theorem. *)
From Coq Require Import List NArith ZArith Bool Lia.
From LH Require Import Base.Bytes Base.Res Model.Lexer Model.LuaFront Spec.LuaGrammar.
From LH Require Import Proofs.ParserTotalMain.
Import ListNotations.

Definition ill_err (t : ltok) : Prop := kd t = IKIllegal -> lerrs t <> [].

Lemma lookup_kw_not_illegal str : forall l k,
  Forall (fun p => snd p <> IKIllegal) l -> lookup_kw str l = Some k -> k <> IKIllegal.
Proof.
  induction l as [|[w k0] l IH]; intros k F H; [discriminate|]. cbn [lookup_kw] in H.
  inversion F as [|? ? F1 F2]; subst. destruct (beq_bytes str w).
  - injection H as <-. exact F1.
  - eapply IH; eauto.
Qed.
Lemma keywords_not_illegal : Forall (fun p => snd p <> IKIllegal) keywords.
Proof. unfold keywords. repeat constructor; discriminate. Qed.

Section WithOracle.
  Context {fx : FxEscape}.
  Variable gbk_runes : list N -> Z.

  Lemma scan_token_illegal s t s' es :
    scan_token gbk_runes s = (t, s', es) -> tk t = IKIllegal -> es <> [].
  Proof.
    intros H K. unfold scan_token in H.
    destruct (chunk s) as [|c rest] eqn:Hch.
    - injection H as <- _ _. discriminate K.
    - cbv zeta in H.
      repeat match type of H with
             | context [if ?b then _ else _] => destruct b eqn:?
             end;
        try (destruct rest as [|c1 rest'];
             [|repeat match type of H with
                      | context [if ?b then _ else _] => destruct b eqn:?
                      end]).
      all: try (unfold simple in H; injection H as <- _ _; discriminate K).
      all: repeat match type of H with
                  | context [match ?x with pair _ _ => _ end] => destruct x
                  end.
      all: try (injection H as <- _ _; discriminate K).
      all: try (injection H as _ _ <-; discriminate).
      all: injection H as <- _ _; unfold mk in K; cbn [tk] in K;
        repeat match type of K with context [if ?b then _ else _] => destruct b; try discriminate K end.
  Qed.

  Lemma next_token_illegal prev2 prev1 s lt1 s1 :
    next_token gbk_runes prev2 prev1 s = (lt1, s1) -> ill_err lt1.
  Proof.
    unfold next_token. intros H.
    destruct (skip_ws prev2 prev1 s) as [[s0 cms] es1].
    destruct (scan_token gbk_runes s0) as [[t s2] es2] eqn:Hs. injection H as <- _.
    intros K. cbn in K. cbn [lerrs]. pose proof (scan_token_illegal _ _ _ _ Hs K) as Hne.
    destruct es1; [exact Hne | discriminate].
  Qed.

  Lemma lex_loop_illegal : forall f prev2 prev1 s acc ts,
    lex_loop gbk_runes f prev2 prev1 s acc = Ok ts -> Forall ill_err acc -> Forall ill_err ts.
  Proof.
    induction f as [|f IH]; intros prev2 prev1 s acc ts H F; [discriminate|]. cbn [lex_loop] in H.
    destruct (next_token gbk_runes prev2 prev1 s) as [lt1 s1] eqn:Hn.
    pose proof (next_token_illegal _ _ _ _ _ Hn) as Q.
    assert (F' : Forall ill_err (lt1 :: acc)) by (constructor; assumption).
    destruct (tk (lt lt1)); try (eapply IH; eassumption).
    injection H as <-. change (rev acc ++ [lt1]) with (rev (lt1 :: acc)). apply Forall_rev. exact F'.
  Qed.

  Theorem lex_all_illegal bs ts : lex_all gbk_runes bs = Ok ts -> Forall ill_err ts.
  Proof. unfold lex_all. intros H. eapply lex_loop_illegal; eauto. Qed.
End WithOracle.

Lemma parser_view_illegal ts : Forall ill_err ts -> Forall ill_err (parser_view ts).
Proof.
  intros F. unfold parser_view. destruct ts as [|t1 r]; [constructor|].
  destruct (is_unfinished_str t1) eqn:Hu; [|exact F].
  apply is_unfinished_str_kind in Hu. inversion F as [|? ? F1 F2]; subst.
  destruct (lost_run_suffix r [] []) as [pre Hp].
  destruct (lost_run r [] []) as [[es cs] r']. cbn [snd] in Hp. constructor.
  - intros K. unfold kd in K. cbn [lt] in K. congruence.
  - rewrite Hp in F2. apply Forall_app in F2. tauto.
Qed.

(* no lexical error at all => no illegal token *)
Lemma no_lexerr_no_illegal ts :
  Forall ill_err ts -> flat_map lerrs ts = [] -> forallb (fun t => negb (tk_eqb (kd t) IKIllegal)) ts = true.
Proof.
  induction 1 as [|t r Q F IH]; intros E; [reflexivity|]. cbn [flat_map] in E. apply app_eq_nil in E.
  destruct E as [E1 E2]. cbn [forallb]. rewrite (IH E2), andb_true_r.
  unfold tk_eqb. destruct (tkind_eq_dec (kd t) IKIllegal) as [K|K]; [|reflexivity].
  exfalso. exact (Q K E1).
Qed.
