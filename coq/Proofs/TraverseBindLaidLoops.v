(* Traversal resolver, layout part 2: for a chunk of the fragment whose Locs are laid out like token spans (`laid_b W P`,
   Spec/LuaScope.v) every look-up of a name n is position-clean (`tr_clean P n`), provided the chunk contains no
   statement `function n(...)` (`no_funcstat P n`; that statement on a local declared without a value is class B4:
   the re-pointed ReferExp contains the name being defined). *)
From Coq Require Import List NArith ZArith Bool Lia.
From LH Require Import Base.Bytes Model.Lexer Model.Ast Model.Scope Spec.LuaScope Proofs.TraverseBindDefs
  Proofs.TraverseBindSim Proofs.TraverseBindLoops Proofs.TraverseBindLaidBase Proofs.TraverseBindLaidPieces.
Import ListNotations.
Local Open Scope Z_scope.

(* ------------------------------------------------------------------ the syntactic guard *)
Definition is_funcstat (nm : list N) (vars es : list exp) : bool :=
  match vars, es with
  | [EName n _], [EFunc _ (_ :: _) _ _ _ _ _ _] => beq_bytes n nm
  | _, _ => false
  end.

Fixpoint nfs_exp (nm : list N) (e : exp) {struct e} : bool :=
  match e with
  | EUnop _ e1 _ | EParens e1 _ => nfs_exp nm e1
  | EBinop _ e1 e2 _ | EIndex e1 e2 _ => nfs_exp nm e1 && nfs_exp nm e2
  | ECall p _ args _ => nfs_exp nm p && forallb (nfs_exp nm) args
  | ETable ks vs _ =>
    forallb (fun k => match k with Some k' => nfs_exp nm k' | None => true end) ks && forallb (nfs_exp nm) vs
  | EFunc _ _ _ _ b _ _ _ => nfs_block nm b
  | _ => true
  end
with nfs_stat (nm : list N) (s : stat) {struct s} : bool :=
  match s with
  | SBreak | SLabel _ _ | SGoto _ _ => true
  | SDo b _ => nfs_block nm b
  | SCall e => nfs_exp nm e
  | SIf es bs _ => forallb (nfs_exp nm) es && forallb (nfs_block nm) bs
  | SWhile e b _ => nfs_exp nm e && nfs_block nm b
  | SRepeat b e _ => nfs_block nm b && nfs_exp nm e
  | SForNum _ _ e1 e2 e3 b _ => nfs_exp nm e1 && nfs_exp nm e2 && nfs_exp nm e3 && nfs_block nm b
  | SForIn _ _ es b _ => forallb (nfs_exp nm) es && nfs_block nm b
  | SAssign vars es _ => negb (is_funcstat nm vars es) && forallb (nfs_exp nm) es
  | SLocal _ _ _ es _ => forallb (nfs_exp nm) es
  | SLocalFunc _ _ f _ => nfs_exp nm f
  end
with nfs_block (nm : list N) (b : block) {struct b} : bool :=
  match b with
  | Block ss ret _ => forallb (nfs_stat nm) ss && match ret with Some es => forallb (nfs_exp nm) es | None => true end
  end.

(* the chunk has no statement `function n(...)` *)
Definition no_funcstat (P : block) (n : list N) : bool := nfs_block n P.

(* ------------------------------------------------------------------ marks of if statements *)
Fixpoint zipapp (cs bls : list (list mark)) {struct cs} : list mark :=
  match cs, bls with
  | c :: cs', b :: bls' => c ++ b ++ zipapp cs' bls'
  | _, _ => []
  end.
Definition blockmarks (b : block) : list mark :=
  match block_stats b, block_ret b with
  | [], None => []
  | _, _ => MOpen (block_loc b) :: m_block b ++ [MClose (block_loc b)]
  end.
Lemma m_stat_if es bs l : m_stat (SIf es bs l) = zipapp (map m_exp es) (map blockmarks bs).
Proof. reflexivity. Qed.

Ltac zlia :=
  repeat match goal with
         | H : ?T |- _ =>
           lazymatch T with
           | (_ <= _)%Z => fail
           | (_ < _)%Z => fail
           | _ => clear H
           end
         end; lia.

Section Laid.
  Variable W : Z.
  Hypothesis HW : 0 < W.
  Variable nm : list N.

  (* the region a declaration / re-pointing refers to lies inside the marks of the expression *)
  Lemma region_of_exp e a b : chain W a (m_exp e) b -> InReg W (ref_of_exp e) a b.
  Proof.
    destruct e; cbn [ref_of_exp InReg m_exp]; auto; intros H.
    - rewrite app_assoc in H. destruct (chain_region W _ _ _ _ H) as [H1 [H2 [H3 _]]]. auto.
    - destruct H as [H1 [H2 [_ [_ H3]]]]. cbn [mark_key chain] in *.
      destruct (mark_ok_idok W l H2) as [_ [_ Hc]]. auto.
    - rewrite app_assoc in H. destruct (chain_region W _ _ _ _ H) as [H1 [H2 [H3 _]]]. auto.
  Qed.

  Lemma Born_of_InReg n l r flag A B :
    idok W l -> hi W l <= B -> InReg W r A B -> Born W A B (mkV n l r flag).
  Proof.
    intros Hid Hh Hr. pose proof (idok_lt W _ Hid). destruct Hid as [_ [_ [Hc _]]].
    unfold Born. cbn [v_loc v_ref]. repeat split; try lia. destruct r; auto.
  Qed.

  (* ---- assignment targets *)
  Lemma repoint_evo n eo ra rb v :
    match eo with Some e => InReg W (ref_of_exp e) ra rb | None => True end -> EvoVar W ra rb v (repoint n eo v).
  Proof.
    intros H. unfold repoint. destruct (v_empty v); [|apply EvoVar_refl].
    destruct eo as [e|]; split; cbn; auto.
  Qed.

  Lemma upd_first_evo p f ra rb : forall vs vs',
    (forall v, EvoVar W ra rb v (f v)) -> upd_first p f vs = Some vs' -> Forall2 (EvoVar W ra rb) vs vs'.
  Proof.
    induction vs as [|v r IH]; intros vs' Hf Hu; [discriminate|]. cbn in Hu. destruct (p v).
    - injection Hu as <-. constructor; [apply Hf|apply Forall2_refl; apply EvoVar_refl].
    - destruct (upd_first p f r) as [r'|] eqn:E; [|discriminate]. injection Hu as <-.
      constructor; [apply EvoVar_refl|apply IH; auto].
  Qed.

  Lemma upd_frames_evo p f ra rb fs :
    (forall v, EvoVar W ra rb v (f v)) -> Evo W ra rb (map f_vars fs) (map f_vars (upd_frames p f fs)).
  Proof.
    intros Hf. induction fs as [|fr r IH]; [constructor|]. cbn.
    destruct (upd_first p f (f_vars fr)) as [vs'|] eqn:E.
    - cbn. constructor; [eapply upd_first_evo; eauto|apply Evo_refl].
    - cbn. constructor; [apply Forall2_refl; apply EvoVar_refl|exact IH].
  Qed.

  Definition st_repoint (n : list N) (l : loc) (eo : option exp) (st : tstate) : tstate :=
    mkT (upd_frames (var_hit n l) (repoint n eo) (t_frames st)) (t_globals st) (t_occs st).

  Lemma assign_name_vss flv slv n l eo st :
    vss (assign_name flv slv n l eo st) = vss (st_repoint n l eo st) \/ vss (assign_name flv slv n l eo st) = vss st.
  Proof.
    unfold assign_name. destruct (lookup st n l); [left; reflexivity|].
    destruct (find_global_limit (t_globals st) n flv slv l); right; reflexivity.
  Qed.

  (* a target at l in [A, m], the assigned expression's region in [m, rb] *)
  Lemma assign_name_clean flv slv n l eo A m rb st :
    idok W l -> A <= lo W l -> hi W l <= m -> m <= rb ->
    match eo with Some e => InReg W (ref_of_exp e) m rb | None => True end ->
    vss st <> [] -> G W (vss st) A m ->
    cl_assign_name nm n l eo st = true /\ Evo W m rb (vss st) (vss (assign_name flv slv n l eo st)).
  Proof.
    intros Hid Ha Hm Hmr Hreg Hn Hg.
    assert (Hev : Evo W m rb (vss st) (vss (st_repoint n l eo st))).
    { unfold vss, st_repoint. cbn [t_frames]. apply upd_frames_evo. intros v. apply repoint_evo. exact Hreg. }
    split.
    - unfold cl_assign_name. fold (st_repoint n l eo st).
      unfold clean_at. rewrite !vars_of_vss.
      rewrite (G_clean W HW (vss st) n l A m Hg Hid Ha Hm).
      assert (Hg1 : G W (vss (st_repoint n l eo st)) A m).
      { apply (G_evo W _ _ m rb A m Hg Hev). right. lia. }
      rewrite (G_clean W HW _ n l A m Hg1 Hid Ha Hm). apply orb_true_r.
    - destruct (assign_name_vss flv slv n l eo st) as [E|E]; rewrite E; [exact Hev|apply Evo_refl].
  Qed.

  (* the target of `function n(...)`, n <> nm *)
  Lemma assign_name_other flv slv n l eo ra rb st :
    beq_bytes n nm = false ->
    match eo with Some e => InReg W (ref_of_exp e) ra rb | None => True end ->
    cl_assign_name nm n l eo st = true /\ Evo W ra rb (vss st) (vss (assign_name flv slv n l eo st)).
  Proof.
    intros Hne Hreg. split; [unfold cl_assign_name; rewrite Hne; reflexivity|].
    destruct (assign_name_vss flv slv n l eo st) as [E|E]; rewrite E; [|apply Evo_refl].
    unfold vss, st_repoint. cbn [t_frames]. apply upd_frames_evo. intros v. apply repoint_evo. exact Hreg.
  Qed.

  (* ------------------------------------------------------------------ the statements proved by mutual induction *)
  Definition CE (e : exp) : Prop :=
    frag_exp e = true -> tb_shp_exp e = true -> nfs_exp nm e = true ->
    forall flv a b, chain W a (m_exp e) b -> PieceE W (tr_exp flv e) (cl_exp nm flv e) a b.
  (* for a function expression the marks of its own Loc are irrelevant *)
  Definition CEF (e : exp) : Prop :=
    match e with
    | EFunc _ _ _ pls bk _ _ _ =>
      frag_exp e = true -> tb_shp_exp e = true -> nfs_exp nm e = true ->
      forall flv a b, chain W a (flat_map id_marks pls ++ m_block bk) b ->
                      PieceE W (tr_exp flv e) (cl_exp nm flv e) a b
    | _ => True
    end.
  Definition Pe (e : exp) : Prop := CE e /\ CEF e.
  Definition Ps (s : stat) : Prop :=
    frag_stat s = true -> tb_shp_stat s = true -> nfs_stat nm s = true ->
    forall flv slv a b, chain W a (m_stat s) b -> PieceS W (tr_stat flv slv s) (cl_stat nm flv slv s) a b.
  Definition Pb (b : block) : Prop :=
    frag_block b = true -> tb_shp_block b = true -> nfs_block nm b = true ->
    forall flv slv a c, chain W a (m_block b) c -> PieceS W (tr_block flv slv b) (cl_block nm flv slv b) a c.

  Lemma exps_piece flv : forall es a b,
    Forall Pe es -> forallb frag_exp es = true -> forallb tb_shp_exp es = true -> forallb (nfs_exp nm) es = true ->
    chain W a (flat_map m_exp es) b ->
    PieceE W (apply_all (map (fun e => tr_exp flv e) es))
           (cl_all (map (fun e => (tr_exp flv e, cl_exp nm flv e)) es)) a b.
  Proof.
    intros es a b Hall Hf Hs Hn Hch.
    apply (PieceE_list W (fun e => tr_exp flv e) (fun e => cl_exp nm flv e) m_exp); [|exact Hch].
    rewrite forallb_forall in Hf, Hs, Hn. rewrite Forall_forall in *. intros e He a' b' Hc.
    exact (proj1 (Hall e He) (Hf e He) (Hs e He) (Hn e He) flv a' b' Hc).
  Qed.

  (* a block in its own scope; an empty block has no marks *)
  Lemma block_scope_piece flv slv bk a c :
    Pb bk -> frag_block bk = true -> tb_shp_block bk = true -> nfs_block nm bk = true ->
    chain W a (blockmarks bk) c ->
    PieceE W (fun st => pop (tr_block flv slv bk (push (block_loc bk) st)))
           (fun st => cl_block nm flv slv bk (push (block_loc bk) st)) a c.
  Proof.
    intros Hb Hf Hs Hn Hch. destruct bk as [ss ret l]. unfold blockmarks in Hch. cbn [block_stats block_ret block_loc] in *.
    destruct ss as [|s ss'].
    - destruct ret as [es|].
      + destruct (chain_region W _ _ _ _ Hch) as [_ [H2 [H3 H4]]].
        eapply PieceE_sub; [apply PieceE_scope; exact (Hb Hf Hs Hn flv slv _ _ H4)|exact H2|exact H3].
      + eapply PieceE_ext; [| |exact (PieceE_scope W l _ _ a c (PieceS_id W a c))]; intros; reflexivity.
    - destruct (chain_region W _ _ _ _ Hch) as [_ [H2 [H3 H4]]].
      eapply PieceE_sub; [apply PieceE_scope; exact (Hb Hf Hs Hn flv slv _ _ H4)|exact H2|exact H3].
  Qed.

  Lemma if_piece flv slv : forall es bs a b,
    length es = length bs ->
    Forall Pe es -> Forall Pb bs ->
    forallb frag_exp es = true -> forallb tb_shp_exp es = true -> forallb (nfs_exp nm) es = true ->
    forallb frag_block bs = true -> forallb tb_shp_block bs = true -> forallb (nfs_block nm) bs = true ->
    chain W a (zipapp (map m_exp es) (map blockmarks bs)) b ->
    PieceE W (if_loop (map (fun e => tr_exp flv e) es) (map (fun bk => (block_loc bk, tr_block flv (slv + 1) bk)) bs))
           (cl_if_loop (map (fun e => (tr_exp flv e, cl_exp nm flv e)) es)
                       (map (fun bk => (block_loc bk, tr_block flv (slv + 1) bk, cl_block nm flv (slv + 1) bk)) bs)) a b.
  Proof.
    induction es as [|e es' IH]; intros bs a b Hlen He Hb Hfe Hse Hne Hfb Hsb Hnb Hch.
    - destruct bs; [|discriminate]. eapply PieceE_ext; [| |apply PieceE_id]; intros; reflexivity.
    - destruct bs as [|bk bs']; [discriminate|]. injection Hlen as Hlen.
      inversion He as [|? ? He1 He2]; subst. inversion Hb as [|? ? Hb1 Hb2]; subst.
      cbn [forallb] in *.
      apply andb_true_iff in Hfe. destruct Hfe as [Hfe1 Hfe2]. apply andb_true_iff in Hne. destruct Hne as [Hne1 Hne2].
      apply andb_true_iff in Hse. destruct Hse as [Hse1 Hse2].
      apply andb_true_iff in Hfb. destruct Hfb as [Hfb1 Hfb2]. apply andb_true_iff in Hsb. destruct Hsb as [Hsb1 Hsb2].
      apply andb_true_iff in Hnb. destruct Hnb as [Hnb1 Hnb2].
      cbn [map zipapp] in Hch. destruct (chain_app W _ _ _ _ Hch) as [c1 [C1 C2]].
      destruct (chain_app W _ _ _ _ C2) as [c2 [C3 C4]].
      pose proof (chain_le W _ _ _ C1) as L1. pose proof (chain_le W _ _ _ C3) as L2. pose proof (chain_le W _ _ _ C4) as L3.
      pose proof (proj1 He1 Hfe1 Hse1 Hne1 flv a c1 C1) as P1.
      pose proof (block_scope_piece flv (slv + 1) bk c1 c2 Hb1 Hfb1 Hsb1 Hnb1 C3) as P2.
      pose proof (IH bs' c2 b Hlen He2 Hb2 Hfe2 Hse2 Hne2 Hfb2 Hsb2 Hnb2 C4) as P3.
      assert (La : a <= c2) by (clear - L1 L2; lia).
      pose proof (PieceE_seq W _ _ _ _ a c1 c2 L1 L2 P1 P2) as P12.
      pose proof (PieceE_seq W _ _ _ _ a c2 b La L3 P12 P3) as H.
      eapply PieceE_ext; [| |exact H]; intros; reflexivity.
  Qed.

  (* ---- assignment, general form: targets in [A, m], right-hand sides in [c0, B] *)
  Lemma assign_piece flv slv : forall vars es A m c0 B st,
    (forall v, In v vars -> exists n l, v = EName n l) ->
    Forall Pe es -> forallb frag_exp es = true -> forallb tb_shp_exp es = true -> forallb (nfs_exp nm) es = true ->
    chain W A (flat_map m_exp vars) m -> chain W c0 (flat_map m_exp es) B -> m <= c0 ->
    vss st <> [] -> G W (vss st) A m -> G W (vss st) c0 B ->
    cl_assign_loop nm flv slv (map (tgt_c flv nm) vars) (map (fun e => (e, tr_exp flv e, cl_exp nm flv e)) es) st = true /\
    Evo W m B (vss st) (vss (assign_loop flv slv (map (tgt_m flv) vars) (map (fun e => (e, tr_exp flv e)) es) st)).
  Proof.
    induction vars as [|v vars' IH]; intros es A m c0 B st Hv He Hf Hs Hn Ht Hx Hmc Hne Hg1 Hg2.
    - pose proof (exps_piece flv es c0 B He Hf Hs Hn Hx st Hne Hg2) as [P1 P2].
      cbn [map assign_loop cl_assign_loop]. rewrite !map_map. cbn [fst snd]. split; [exact P1|].
      exact (Evo_widen W _ _ _ _ _ _ P2 Hmc (Z.le_refl B)).
    - destruct (Hv v (or_introl eq_refl)) as [n [l ->]].
      assert (Hv' : forall v, In v vars' -> exists n l, v = EName n l) by (intros v0 H0; apply Hv; right; exact H0).
      cbn [flat_map m_exp] in Ht. destruct (chain_id W _ _ _ _ Ht) as [Hid [Ha Ht']].
      pose proof (idok_lt W _ Hid) as Hlt. pose proof (chain_le W _ _ _ Ht') as Hlm.
      pose proof (chain_le W _ _ _ Hx) as HcB.
      destruct es as [|e es'].
      + cbn [map]. rewrite assign_loop_cons_nil. cbn [cl_assign_loop tgt_c ct_clean ct_run tgt_m tgt_run].
        destruct (assign_name_clean flv slv n l None A m m st Hid Ha Hlm (Z.le_refl m) I Hne Hg1) as [Q1 Q2].
        remember (assign_name flv slv n l None st) as st2 eqn:Est2 in *. clear Est2.
        assert (Hne2 : vss st2 <> []) by exact (Evo_nonempty W _ _ _ _ Q2 Hne).
        assert (G1' : G W (vss st2) (hi W l) m).
        { apply (G_evo W _ _ m m (hi W l) m (G_sub W (vss st) A m (hi W l) m Hg1 ltac:(zlia) (Z.le_refl m)) Q2). right. zlia. }
        assert (G2' : G W (vss st2) c0 B).
        { apply (G_evo W _ _ m m c0 B Hg2 Q2). left. zlia. }
        destruct (IH [] (hi W l) m c0 B st2 Hv' He Hf Hs Hn Ht' Hx Hmc Hne2 G1' G2') as [R1 R2].
        split; [rewrite Q1; exact R1|].
        eapply Evo_trans; [exact (Evo_widen W m m m B _ _ Q2 (Z.le_refl m) ltac:(zlia))|exact R2].
      + inversion He as [|? ? He1 He2]; subst. cbn [forallb] in Hf, Hs, Hn.
        apply andb_true_iff in Hf. destruct Hf as [Hf1 Hf2]. apply andb_true_iff in Hn. destruct Hn as [Hn1 Hn2].
        apply andb_true_iff in Hs. destruct Hs as [Hs1 Hs2].
        cbn [flat_map] in Hx. destruct (chain_app W _ _ _ _ Hx) as [c1 [X1 X2]].
        pose proof (chain_le W _ _ _ X1) as L1. pose proof (chain_le W _ _ _ X2) as L2.
        cbn [map]. rewrite assign_loop_cons. cbn [cl_assign_loop tgt_c ct_clean ct_run tgt_m tgt_run].
        destruct (proj1 He1 Hf1 Hs1 Hn1 flv c0 c1 X1 st Hne (G_sub W _ _ _ _ _ Hg2 (Z.le_refl c0) L2)) as [P1 P2].
        remember (tr_exp flv e st) as st1 eqn:Est1 in *. clear Est1.
        assert (Hne1 : vss st1 <> []) by exact (Evo_nonempty W _ _ _ _ P2 Hne).
        assert (G1a : G W (vss st1) A m).
        { apply (G_evo W _ _ c0 c1 A m Hg1 P2). right. zlia. }
        pose proof (InReg_widen W _ _ _ m c1 (region_of_exp e c0 c1 X1) Hmc (Z.le_refl c1)) as Hreg.
        destruct (assign_name_clean flv slv n l (Some e) A m c1 st1 Hid Ha Hlm ltac:(zlia) Hreg Hne1 G1a) as [Q1 Q2].
        remember (assign_name flv slv n l (Some e) st1) as st2 eqn:Est2 in *. clear Est2.
        assert (Hne2 : vss st2 <> []) by exact (Evo_nonempty W _ _ _ _ Q2 Hne1).
        assert (G1' : G W (vss st2) (hi W l) m).
        { apply (G_evo W _ _ m c1 (hi W l) m (G_sub W (vss st1) A m (hi W l) m G1a ltac:(zlia) (Z.le_refl m)) Q2). right. zlia. }
        assert (G2' : G W (vss st2) c1 B).
        { assert (G2a : G W (vss st1) c1 B).
          { apply (G_evo W (vss st) (vss st1) c0 c1 c1 B (G_sub W (vss st) c0 B c1 B Hg2 L1 (Z.le_refl B)) P2).
            left. zlia. }
          apply (G_evo W (vss st1) (vss st2) m c1 c1 B G2a Q2). left. zlia. }
        destruct (IH es' (hi W l) m c1 B st2 Hv' He2 Hf2 Hs2 Hn2 Ht' X2 ltac:(zlia) Hne2 G1' G2') as [R1 R2].
        split; [rewrite P1, Q1; exact R1|].
        eapply Evo_trans; [exact (Evo_widen W _ _ _ _ _ _ P2 Hmc L2)|].
        eapply Evo_trans; [exact (Evo_widen W _ _ _ _ _ _ Q2 (Z.le_refl m) L2)|exact R2].
  Qed.

  (* ---- local n_0, ... = e_0, ...: names in ls (before c0), initialisers in [c0, B] *)
  Lemma vss_add_rest lastc flag : forall pl st vs r,
    vss st = vs :: r ->
    vss (fold_left (fun s nl => add_var (mkV (fst nl) (snd nl) lastc flag) s) pl st)
    = (rev (map (fun p : list N * loc => mkV (fst p) (snd p) lastc flag) pl) ++ vs) :: r.
  Proof.
    induction pl as [|p pl' IH]; intros st vs r E; [exact E|]. cbn [fold_left map rev].
    rewrite (IH _ _ _ (vss_add _ st vs r E)). rewrite <- app_assoc. reflexivity.
  Qed.

  (* since fixes/C07-multi-local-order.diff: all the initialisers first (a piece over [c0, B]), then the names *)
  Lemma vss_fold_add : forall (vl : list ventry) st vs r,
    vss st = vs :: r -> vss (fold_left (fun s v => add_var v s) vl st) = (rev vl ++ vs) :: r.
  Proof.
    induction vl as [|v vl' IH]; intros st vs r E; [exact E|]. cbn [fold_left rev].
    rewrite (IH _ _ _ (vss_add v st vs r E)). rewrite <- app_assoc. reflexivity.
  Qed.

  Lemma exps_inreg : forall es c0 B, chain W c0 (flat_map m_exp es) B ->
    forall e, In e es -> InReg W (ref_of_exp e) c0 B.
  Proof.
    induction es as [|x r IH]; intros c0 B Hx e He; [destruct He|].
    cbn [flat_map] in Hx. destruct (chain_app W _ _ _ _ Hx) as [c1 [X1 X2]].
    pose proof (chain_le W _ _ _ X1) as L1. pose proof (chain_le W _ _ _ X2) as L2.
    destruct He as [<-|He].
    - exact (InReg_widen W _ _ _ c0 B (region_of_exp x c0 c1 X1) (Z.le_refl c0) L2).
    - exact (InReg_widen W _ _ _ c0 B (IH c1 B X2 e He) L1 (Z.le_refl B)).
  Qed.

  (* a declared variable with its InitLoc *)
  Lemma Born_of_InReg5 n l r flag il tb A B :
    idok W l -> hi W l <= B -> InReg W r A B ->
    match il with Some i => colok W i /\ hi W i <= B | None => True end ->
    Born W A B (mkV5 n l r flag il tb).
  Proof.
    intros Hid Hh Hr Hil. pose proof (idok_lt W _ Hid). destruct Hid as [_ [_ [Hc _]]].
    unfold Born, InitOK. cbn [v_loc v_ref v_init]. split; [lia|]. split; [lia|]. split; [destruct r; auto|exact Hil].
  Qed.

  Lemma local_vars_born cA c0 B il : c0 <= B ->
    match il with Some i => colok W i /\ hi W i <= B | None => True end ->
    forall es pl lastc,
    (forall e, In e es -> InReg W (ref_of_exp e) cA B) ->
    (forall p, In p pl -> idok W (snd p) /\ hi W (snd p) <= c0) ->
    InReg W lastc cA B ->
    Forall (Born W cA B) (local_vars es pl lastc il).
  Proof.
    intros HcB Hil. induction es as [|e r IH]; intros pl lastc Hes Hp Hlast; cbn [local_vars].
    - apply Forall_forall. intros v Hv. apply in_map_iff in Hv. destruct Hv as [p [<- Hin]].
      destruct (Hp p Hin) as [Hid Hh]. apply Born_of_InReg5; [exact Hid|zlia|exact Hlast|exact Hil].
    - destruct pl as [|[n l] pl']; [constructor|].
      destruct (Hp (n, l) (or_introl eq_refl)) as [Hid Hh]. cbn [snd] in Hid, Hh.
      constructor.
      + apply Born_of_InReg5; [exact Hid|zlia| |exact Hil]. apply Hes. left. reflexivity.
      + apply IH.
        * intros e0 He0. apply Hes. right. exact He0.
        * intros p Hin. apply Hp. right. exact Hin.
        * pose proof (Hes e (or_introl eq_refl)) as He. destruct e; cbn [InReg]; auto.
  Qed.

  Lemma local_piece_gen (f : exp -> tT) (c : exp -> tC) : forall es (pl : list (list N * loc)) cA c0 B lastc il st,
    PieceE W (apply_all (map f es)) (cl_all (map (fun e => (f e, c e)) es)) c0 B ->
    chain W c0 (flat_map m_exp es) B ->
    (forall p, In p pl -> idok W (snd p) /\ hi W (snd p) <= c0) ->
    InReg W lastc cA c0 -> cA <= c0 ->
    match il with Some i => colok W i /\ hi W i <= B | None => True end ->
    vss st <> [] -> G W (vss st) c0 B ->
    cl_local_loop (map (fun e => (e, f e, c e)) es) pl st = true /\
    EvoS W cA B (vss st) (vss (local_loop (map (fun e => (e, f e)) es) pl lastc il st)).
  Proof.
    intros es pl cA c0 B lastc il st HP Hx Hp Hlast HcA Hil Hne Hg.
    pose proof (chain_le W _ _ _ Hx) as HcB.
    destruct (HP st Hne Hg) as [P1 P2].
    rewrite (cl_local_loop_shape f c es pl st), (local_loop_shape f es pl lastc il st), local_adds_fold.
    split; [exact P1|].
    destruct (vss st) as [|vs r] eqn:E; [contradiction|].
    pose proof (Evo_widen W _ _ _ _ _ _ P2 HcA (Z.le_refl B)) as P2'.
    inversion P2' as [|? vs1 ? r1 Hv1 Hr1 E0 E1]; subst.
    rewrite (vss_fold_add _ _ vs1 r1 (eq_sym E1)).
    exists (rev (local_vars es pl lastc il)), vs1. repeat split; auto.
    apply Forall_rev. apply (local_vars_born cA c0 B il HcB Hil).
    - intros e He. exact (InReg_widen W _ _ _ cA B (exps_inreg es c0 B Hx e He) HcA (Z.le_refl B)).
    - exact Hp.
    - exact (InReg_widen W _ _ _ cA B Hlast (Z.le_refl cA) HcB).
  Qed.

  (* the marks of a local statement behind the names: the initialiser list inside its region (when there is one) *)
  Lemma local_marks_chain ns ls es l c0 b :
    chain W c0 (region_marks (init_loc ns ls es l) (flat_map m_exp es)) b ->
    exists c1 c2, c0 <= c1 /\ c2 <= b /\ chain W c1 (flat_map m_exp es) c2 /\
                  match init_loc ns ls es l with Some i => colok W i /\ hi W i <= c2 | None => True end.
  Proof.
    destruct (init_loc ns ls es l) as [il|]; cbn [region_marks]; intros H.
    - destruct (chain_region W _ _ _ _ H) as [Hc [H2 [H3 H4]]].
      exists (lo W il), (hi W il). split; [exact H2|]. split; [exact H3|]. split; [exact H4|].
      split; [exact Hc|apply Z.le_refl].
    - exists c0, b. split; [apply Z.le_refl|]. split; [apply Z.le_refl|]. split; [exact H|exact I].
  Qed.

  Lemma local_piece flv : forall es (pl : list (list N * loc)) cA c0 B lastc il st,
    Forall Pe es -> forallb frag_exp es = true -> forallb tb_shp_exp es = true -> forallb (nfs_exp nm) es = true ->
    chain W c0 (flat_map m_exp es) B ->
    (forall p, In p pl -> idok W (snd p) /\ hi W (snd p) <= c0) ->
    InReg W lastc cA c0 -> cA <= c0 ->
    match il with Some i => colok W i /\ hi W i <= B | None => True end ->
    vss st <> [] -> G W (vss st) c0 B ->
    cl_local_loop (map (fun e => (e, tr_exp flv e, cl_exp nm flv e)) es) pl st = true /\
    EvoS W cA B (vss st) (vss (local_loop (map (fun e => (e, tr_exp flv e)) es) pl lastc il st)).
  Proof.
    intros es pl cA c0 B lastc il st He Hf Hs Hn Hx Hp Hlast HcA Hil Hne Hg.
    exact (local_piece_gen (fun e => tr_exp flv e) (fun e => cl_exp nm flv e) es pl cA c0 B lastc il st
                           (exps_piece flv es c0 B He Hf Hs Hn Hx) Hx Hp Hlast HcA Hil Hne Hg).
  Qed.

  Lemma stats_piece flv slv : forall ss a b,
    Forall Ps ss -> forallb frag_stat ss = true -> forallb tb_shp_stat ss = true -> forallb (nfs_stat nm) ss = true ->
    chain W a (flat_map m_stat ss) b ->
    PieceS W (apply_all (map (fun s => tr_stat flv slv s) ss))
           (cl_all (map (fun s => (tr_stat flv slv s, cl_stat nm flv slv s)) ss)) a b.
  Proof.
    induction ss as [|s r IH]; intros a b Hall Hf Hs Hn Hch.
    - apply PieceS_id.
    - inversion Hall as [|? ? Hx Hr]; subst. cbn [forallb] in *.
      apply andb_true_iff in Hf. destruct Hf as [Hf1 Hf2]. apply andb_true_iff in Hs. destruct Hs as [Hs1 Hs2].
      apply andb_true_iff in Hn. destruct Hn as [Hn1 Hn2].
      cbn [flat_map] in Hch. destruct (chain_app W _ _ _ _ Hch) as [c [C1 C2]].
      pose proof (PieceS_seq W _ _ _ _ a c b (chain_le W _ _ _ C1) (chain_le W _ _ _ C2)
                             (Hx Hf1 Hs1 Hn1 flv slv a c C1) (IH c b Hr Hf2 Hs2 Hn2 C2)) as H.
      eapply PieceS_ext; [| |exact H]; intros; reflexivity.
  Qed.
End Laid.
