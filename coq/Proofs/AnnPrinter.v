(* C16, the implementation printer annotateast.TypeConvertStr:
   - abs (embed_one t) = t: the expected implementation tree denotes the documented type (abs forgets only
     singleton MultiTypes);
   - TypeConvertStr with the repairs `fx` (Model/AnnPrint.v) prints exactly the canonical text `show_bare true` on
     every documented type that avoids the forms whose repair is missing in `fx` (`pguard fx`): fun types when
     fx_fun = false, string constants when fx_const = false, a union directly inside a union when fx_union = false;
     hence reading the printed text gives the same type.  With all repairs the guard is `doc_type` alone. *)
From Coq Require Import String Ascii List Arith NArith Bool Lia.
From LH Require Import Base.Bytes Base.Res Model.AnnLexer Model.AnnAst Model.AnnParser Model.AnnPrint
  Spec.AnnGrammar Proofs.AnnLexFacts Proofs.AnnRoundtrip.
Import ListNotations.

Notation shw := (show_bare true).

(* ------------------------------------------------------------------ abs . embed = id *)
Section Faith.
Variable nested : bool.
Lemma abs_wrap_one t a : is_union t = false -> abs (wrap_one t a) = abs a.
Proof. intros H. unfold wrap_one. rewrite H. reflexivity. Qed.

Definition FaithB (t : dtype) : Prop := abs (embed_bare nested t) = t.

Lemma abs_multi_map (ts : list dtype) (f : dtype -> atype) :
  2 <= length ts -> (forall m, In m ts -> abs (f m) = m) -> abs (AMulti (map f ts)) = DUnion ts.
Proof.
  intros Hlen H. cbn [abs]. destruct ts as [|x [|y ts]]; cbn [length] in Hlen; try lia.
  cbn [map]. f_equal. rewrite map_map. change (abs (f x) :: abs (f y) :: map (fun z => abs (f z)) ts)
    with (map (fun z => abs (f z)) (x :: y :: ts)).
  rewrite <- (map_id (x :: y :: ts)) at 2. apply map_ext_in. exact H.
Qed.

Lemma abs_wrap_member m : doc_type m = true -> FaithB m -> abs (wrap_member m (embed_bare nested m)) = m.
Proof.
  intros Hd HB. unfold wrap_member, wrap_one. destruct m; cbn [member_paren is_union is_fun orb]; try exact HB.
Qed.

Lemma abs_wrap_item m : FaithB m -> abs (wrap_item nested m (embed_bare nested m)) = m.
Proof.
  unfold FaithB, wrap_item, wrap_one, item_paren.
  destruct nested, m; intros HB; cbn [is_union is_fun is_array orb andb]; exact HB.
Qed.

Lemma abs_wrap_sub m : FaithB m -> abs (wrap_sub m (embed_bare nested m)) = m.
Proof.
  intros HB. unfold wrap_sub, wrap_one. destruct m; cbn [sub_paren is_union is_fun]; exact HB.
Qed.

Lemma wrap_sub_not_normal m a : forall s c, wrap_sub m a <> ANormal s c \/ is_union m = true.
Proof. intros s c. unfold wrap_sub, wrap_one. destruct (sub_paren m), (is_union m); auto; left; discriminate. Qed.

Lemma faithB_all : forall n t, tsize t <= n -> doc_type t = true -> FaithB t.
Proof.
  induction n as [|n IH]; intros t Hs Hd; [pose proof (tsize_pos t); lia|].
  unfold FaithB. destruct t as [nm|s q|i| |k v|ps rs|ts]; cbn [embed_bare abs]; try reflexivity.
  - cbn [tsize doc_type] in Hs, Hd. f_equal. apply abs_wrap_item. apply IH; [lia|exact Hd].
  - cbn [tsize doc_type] in Hs, Hd. apply andb_true_iff in Hd as [Hk Hv].
    f_equal; apply abs_wrap_sub; apply IH; (lia || assumption).
  - cbn [tsize doc_type] in Hs, Hd. apply andb_true_iff in Hd as [Hdp Hdr]. f_equal.
    + rewrite map_map. rewrite <- (map_id ps) at 2. apply map_ext_in. intros [[pn po] pot] Hin.
      rewrite forallb_forall in Hdp. specialize (Hdp _ Hin). cbn [doc_param] in Hdp.
      apply andb_true_iff in Hdp as [_ Hpt].
      destruct pot as [pt|]; [|reflexivity].
      pose proof (list_sum_in (fun p : bytes * bool * option dtype =>
                                 match p with (_, _, Some t) => S (tsize t) | _ => 1 end) _ _ Hin) as Hsz.
      cbn beta iota in Hsz.
      assert (HB : FaithB pt) by (apply IH; [lia|exact Hpt]).
      pose proof (abs_wrap_sub pt HB) as Ha.
      unfold wrap_sub, wrap_one in *. destruct (sub_paren pt); [rewrite Ha; reflexivity|].
      destruct (is_union pt) eqn:Eu; [|rewrite Ha; reflexivity].
      destruct pt; try discriminate Eu. cbn [embed_bare] in *. rewrite Ha. reflexivity.
    + rewrite map_map. rewrite <- (map_id rs) at 2. apply map_ext_in. intros r Hin.
      rewrite forallb_forall in Hdr. pose proof (list_sum_in tsize _ _ Hin) as Hsz.
      apply abs_wrap_sub. apply IH; [lia|apply Hdr; exact Hin].
  - cbn [tsize doc_type] in Hs, Hd. apply andb_true_iff in Hd as [Hlen Hdt]. apply Nat.leb_le in Hlen.
    apply (abs_multi_map ts (fun m => wrap_member m (embed_bare nested m)) Hlen).
    intros m Hin. rewrite forallb_forall in Hdt. pose proof (list_sum_in tsize _ _ Hin) as Hsz.
    apply abs_wrap_member; [apply Hdt; exact Hin|]. apply IH; [lia|apply Hdt; exact Hin].
Qed.

(* the tree the text must be read as denotes the documented type again *)
Theorem abs_embed_one_gen : forall t, doc_type t = true -> abs (embed_one nested t) = t.
Proof.
  intros t Hd. pose proof (faithB_all (tsize t) t (le_n _) Hd) as HB. unfold FaithB in HB.
  unfold embed_one, wrap_one. destruct (is_union t) eqn:Eu; [exact HB|].
  cbn [abs]. exact HB.
Qed.
End Faith.

Theorem abs_embed_one : forall t, doc_type t = true -> abs (embed_type t) = t.
Proof. exact (abs_embed_one_gen true). Qed.
Theorem abs_embed_one_plain : forall t, doc_type t = true -> abs (embed_type_plain t) = t.
Proof. exact (abs_embed_one_gen false). Qed.

(* ------------------------------------------------------------------ TypeConvertStr = show under the guard of the missing repairs *)
Fixpoint asize (a : atype) : nat :=
  match a with
  | AMulti ts => S (list_sum (map asize ts))
  | AArray i => S (asize i)
  | ATable k v => S (asize k + asize v)
  | AFun ps rs => S (list_sum (map (fun p : bytes * bool * atype => asize (snd p)) ps) + list_sum (map asize rs))
  | _ => 1
  end.
Lemma asize_pos a : 1 <= asize a.
Proof. destruct a; cbn; lia. Qed.

(* guard of the printer theorems, on the documented type the tree denotes: documented, and none of the forms whose
   repair is missing *)
Definition pguard (fx : ann_fixes) (d : dtype) : bool :=
  doc_type d && (fx_fun fx || negb (has_fun d)) && (fx_const fx || negb (has_const d)) &&
  (fx_union fx || negb (has_union_in_union d)).
(* the code as it is *)
Definition printer_guard (a : atype) : bool := pguard deployed (abs a).

Lemma shw_nonempty d : doc_type d = true -> shw d <> [].
Proof.
  intros Hd. destruct d as [nm|s q|i| |k v|ps rs|ts]; cbn [show_bare].
  - cbn [doc_type] in Hd. unfold type_name_ok, plain_name in Hd. apply orb_true_iff in Hd as [Hd|Hd].
    + apply andb_true_iff in Hd as [Hd _]. destruct nm; [discriminate Hd|discriminate].
    + apply beq_bytes_eq in Hd. subst. discriminate.
  - unfold show_const. destruct q; discriminate.
  - intros E. apply app_eq_nil in E as [_ E]. discriminate E.
  - discriminate.
  - discriminate.
  - discriminate.
  - cbn [doc_type] in Hd. apply andb_true_iff in Hd as [Hlen Hdt]. apply Nat.leb_le in Hlen.
    destruct ts as [|m [|m2 ts]]; cbn [length] in Hlen; try lia.
    cbn [map]. rewrite join_cons2. intros E. apply app_eq_nil in E as [_ E]. apply app_eq_nil in E as [E _].
    discriminate E.
Qed.

(* the fold of TypeConvertStr over non-empty member strings is the " | " join *)
Definition tcs_step (acc : bytes) (s : bytes) : bytes :=
  if is_nil s then acc else (if is_nil acc then s else acc ++ s_bar ++ s).

Lemma fold_tcs_acc (l : list bytes) (acc : bytes) :
  acc <> [] -> Forall (fun s => s <> []) l ->
  fold_left tcs_step l acc = acc ++ concat (map (fun s => s_bar ++ s) l).
Proof.
  revert acc. induction l as [|s l IH]; intros acc Ha HF; cbn [fold_left map concat]; [rewrite app_nil_r; reflexivity|].
  inversion HF as [|? ? Hs HF']; subst. unfold tcs_step at 2.
  destruct s as [|b s]; [contradiction|]. cbn [is_nil]. destruct acc as [|a acc]; [contradiction|]. cbn [is_nil].
  rewrite IH; [|discriminate|exact HF']. rewrite <- !app_assoc. reflexivity.
Qed.

Lemma join_as_concat (sep : bytes) (l : list bytes) : forall s,
  s ++ concat (map (fun x => sep ++ x) l) = join sep (s :: l).
Proof.
  induction l as [|s2 l IH]; intros s; cbn [map concat]; [rewrite app_nil_r; reflexivity|].
  rewrite join_cons2. rewrite <- IH. rewrite <- !app_assoc. reflexivity.
Qed.

Lemma fold_tcs_join (l : list bytes) : Forall (fun s => s <> []) l -> fold_left tcs_step l [] = join t_bar l.
Proof.
  destruct l as [|s l]; [reflexivity|]. intros HF. inversion HF as [|? ? Hs HF']; subst.
  cbn [fold_left]. unfold tcs_step at 2. destruct s as [|b s]; [contradiction|]. cbn [is_nil].
  rewrite fold_tcs_acc; [|discriminate|exact HF']. apply (join_as_concat s_bar).
Qed.

Lemma join_sep_eq sep l : join_sep sep l = join sep l.
Proof. induction l as [|x l IH]; [reflexivity|]. cbn [join_sep join]. rewrite IH. reflexivity. Qed.

Lemma in_parens_eq b s : in_parens b s = paren b s.
Proof. reflexivity. Qed.

Lemma existsb_false_in' {A} (p : A -> bool) l x : existsb p l = false -> In x l -> p x = false.
Proof.
  intros H Hin. destruct (p x) eqn:E; [|reflexivity].
  assert (existsb p l = true) by (apply existsb_exists; eauto). congruence.
Qed.

(* needParenInArray decides exactly what the canonical printer parenthesises under [] *)
Lemma need_paren_abs : forall n a, asize a <= n -> doc_type (abs a) = true ->
  need_paren_in_array a = item_paren true (abs a).
Proof.
  induction n as [|n IH]; intros a Hs Hd; [pose proof (asize_pos a); lia|].
  destruct a as [nm c|ts|i| |k v|ps rs|nm q c]; try reflexivity.
  destruct ts as [|x [|y ts]].
  - discriminate Hd.
  - cbn [abs need_paren_in_array] in *. apply IH; [cbn in Hs; lia|exact Hd].
  - reflexivity.
Qed.

(* isFuncType / isUnionType decide what the canonical printer parenthesises in a union and in a list *)
Lemma is_fun_type_abs : forall n a, asize a <= n -> is_fun_type a = is_fun (abs a).
Proof.
  induction n as [|n IH]; intros a Hs; [pose proof (asize_pos a); lia|].
  destruct a as [nm c|ts|i| |k v|ps rs|nm q c]; try reflexivity.
  destruct ts as [|x [|y ts]]; try reflexivity.
  cbn [abs is_fun_type]. apply IH. cbn in Hs. lia.
Qed.

Lemma is_union_type_abs : forall n a, asize a <= n -> doc_type (abs a) = true ->
  is_union_type a = is_union (abs a).
Proof.
  induction n as [|n IH]; intros a Hs Hd; [pose proof (asize_pos a); lia|].
  destruct a as [nm c|ts|i| |k v|ps rs|nm q c]; try reflexivity.
  destruct ts as [|x [|y ts]].
  - discriminate Hd.
  - cbn [abs is_union_type] in *. apply IH; [cbn in Hs; lia|exact Hd].
  - reflexivity.
Qed.

(* the parameter type the tree denotes: none for the default the parser supplies *)
Definition abs_param_type (t : atype) : option dtype :=
  match t with
  | ANormal s false => if beq_bytes s [97; 110; 121]%N then None else Some (abs t)
  | _ => Some (abs t)
  end.
Lemma abs_param_type_default t :
  abs_param_type t = if is_default_param_type t then None else Some (abs t).
Proof. destruct t as [nm [|]|ts|i| |k v|ps rs|nm q c]; reflexivity. Qed.

Lemma abs_fun ps rs :
  abs (AFun ps rs) =
  DFun (map (fun p : bytes * bool * atype => (fst (fst p), snd (fst p), abs_param_type (snd p))) ps) (map abs rs).
Proof.
  cbn [abs]. f_equal. apply map_ext. intros [[n o] t]. reflexivity.
Qed.

Section Printer.
Variable fx : ann_fixes.
Notation tcs := (type_convert_str_fx fx).

(* the guard as a conjunction, and its heredity *)
Definition G (d : dtype) : Prop :=
  doc_type d = true /\ (fx_fun fx = false -> has_fun d = false) /\
  (fx_const fx = false -> has_const d = false) /\ (fx_union fx = false -> has_union_in_union d = false).

Lemma pguard_G d : pguard fx d = true -> G d.
Proof.
  unfold pguard, G. intros H. repeat (apply andb_true_iff in H as [H ?]).
  repeat match goal with X : _ || _ = true |- _ => apply orb_true_iff in X end.
  repeat split; auto; intros E;
    match goal with X : _ \/ _ |- _ => destruct X as [X|X]; [congruence|apply negb_true_iff in X; exact X] end.
Qed.

Lemma G_doc d : G d -> doc_type d = true.
Proof. intros [H _]. exact H. Qed.

Lemma G_array i : G (DArray i) -> G i.
Proof. unfold G. cbn [doc_type has_fun has_const has_union_in_union]. tauto. Qed.

Lemma G_table k v : G (DTable k v) -> G k /\ G v.
Proof.
  unfold G. cbn [doc_type has_fun has_const has_union_in_union]. intros (Hd & Hf & Hc & Hu).
  apply andb_true_iff in Hd as [Hd1 Hd2].
  repeat split; auto; intros E;
    [ specialize (Hf E) | specialize (Hc E) | specialize (Hu E)
    | specialize (Hf E) | specialize (Hc E) | specialize (Hu E) ];
    match goal with X : _ || _ = false |- _ => apply orb_false_iff in X as [? ?]; assumption end.
Qed.

Lemma G_union ts m : G (DUnion ts) -> In m ts -> G m /\ (fx_union fx = false -> is_union m = false).
Proof.
  unfold G. cbn [doc_type has_fun has_const has_union_in_union]. intros (Hd & Hf & Hc & Hu) Hin.
  apply andb_true_iff in Hd as [_ Hd]. rewrite forallb_forall in Hd.
  repeat split; auto; intros E.
  - exact (existsb_false_in' _ _ _ (Hf E) Hin).
  - exact (existsb_false_in' _ _ _ (Hc E) Hin).
  - specialize (Hu E). apply orb_false_iff in Hu as [_ Hu]. exact (existsb_false_in' _ _ _ Hu Hin).
  - specialize (Hu E). apply orb_false_iff in Hu as [Hu _]. exact (existsb_false_in' _ _ _ Hu Hin).
Qed.

Lemma G_fun ps rs : G (DFun ps rs) ->
  fx_fun fx = true /\
  (forall n o t, In (n, o, Some t) ps -> G t) /\ (forall r, In r rs -> G r).
Proof.
  unfold G. cbn [doc_type has_fun has_const has_union_in_union]. intros (Hd & Hf & Hc & Hu).
  assert (Hfx : fx_fun fx = true) by (destruct (fx_fun fx); [reflexivity|discriminate (Hf eq_refl)]).
  apply andb_true_iff in Hd as [Hdp Hdr]. rewrite forallb_forall in Hdp, Hdr.
  split; [exact Hfx|]. split.
  - intros n o t Hin. pose proof (Hdp _ Hin) as Hp. cbn [doc_param] in Hp. apply andb_true_iff in Hp as [_ Hp].
    repeat split; auto; intros E; try congruence.
    + specialize (Hc E). apply orb_false_iff in Hc as [Hc _]. exact (existsb_false_in' _ _ _ Hc Hin).
    + specialize (Hu E). apply orb_false_iff in Hu as [Hu _]. exact (existsb_false_in' _ _ _ Hu Hin).
  - intros r Hin. repeat split; auto; intros E; try congruence.
    + specialize (Hc E). apply orb_false_iff in Hc as [_ Hc]. exact (existsb_false_in' _ _ _ Hc Hin).
    + specialize (Hu E). apply orb_false_iff in Hu as [_ Hu]. exact (existsb_false_in' _ _ _ Hu Hin).
Qed.

(* a fun type is parenthesised by the repaired printer exactly where the canonical one does; without the repair
   the guard excludes fun types *)
Lemma fun_paren_ok a : G (abs a) -> fx_fun fx && is_fun_type a = is_fun (abs a).
Proof.
  intros (_ & Hf & _). rewrite (is_fun_type_abs (asize a) a (le_n _)).
  destruct (fx_fun fx); [reflexivity|]. specialize (Hf eq_refl).
  destruct (abs a); try reflexivity. discriminate Hf.
Qed.

(* the members of a MultiType, as TypeConvertStr adds them *)
Definition member_str (many : bool) (one : atype) : bytes :=
  let s := tcs one in
  if is_nil s then []
  else in_parens (many && ((fx_fun fx && is_fun_type one) || (fx_union fx && is_union_type one))) s.

Lemma tcs_multi ts :
  tcs (AMulti ts) = fold_left tcs_step (map (member_str (Nat.ltb 1 (length ts))) ts) [].
Proof.
  cbn [type_convert_str_fx]. generalize (Nat.ltb 1 (length ts)). intros many.
  generalize (@nil N). induction ts as [|x ts IH]; intros acc; cbn [fold_left map]; [reflexivity|].
  rewrite <- IH. f_equal. unfold member_str, tcs_step.
  destruct (tcs x) as [|c r]; [reflexivity|]. cbn [is_nil].
  destruct (many && _); reflexivity.
Qed.

Lemma tcs_show : forall n a, asize a <= n -> G (abs a) -> tcs a = shw (abs a).
Proof.
  induction n as [|n IH]; intros a Hs Hg; [pose proof (asize_pos a); lia|].
  destruct a as [nm c|ts|i| |k v|ps rs|nm q c].
  - reflexivity.
  - (* MultiType *)
    destruct ts as [|x [|y ts]].
    + cbn [abs] in Hg. apply G_doc in Hg. discriminate Hg.
    + cbn [abs] in Hg |- *. rewrite tcs_multi. cbn [map fold_left length]. unfold tcs_step, member_str.
      assert (Hx : asize x <= n) by (cbn in Hs; lia).
      rewrite (IH x Hx Hg). cbn [Nat.ltb Nat.leb andb in_parens].
      destruct (shw (abs x)); reflexivity.
    + set (l := x :: y :: ts) in *.
      assert (Habs : abs (AMulti l) = DUnion (map abs l)) by reflexivity.
      rewrite Habs in Hg |- *.
      rewrite tcs_multi. cbn [show_bare]. rewrite map_map.
      assert (Hmany : Nat.ltb 1 (length l) = true) by reflexivity. rewrite Hmany.
      assert (Hmap : map (member_str true) l = map (fun z => paren (member_paren (abs z)) (shw (abs z))) l).
      { apply map_ext_in. intros z Hin.
        destruct (G_union _ (abs z) Hg (in_map abs _ _ Hin)) as [Gz Huz].
        pose proof (list_sum_in asize _ _ Hin) as Hsz. cbn [asize] in Hs.
        assert (Hsz' : asize z <= n) by (clear - Hs Hsz; lia).
        unfold member_str. rewrite (IH z Hsz' Gz).
        destruct (shw (abs z)) as [|c0 r0] eqn:Es; [exfalso; exact (shw_nonempty _ (G_doc _ Gz) Es)|].
        cbn [is_nil andb]. rewrite (fun_paren_ok z Gz).
        rewrite (is_union_type_abs (asize z) z (le_n _) (G_doc _ Gz)).
        assert (Hu : fx_union fx && is_union (abs z) = is_union (abs z)).
        { destruct (fx_union fx); [reflexivity|]. rewrite (Huz eq_refl). reflexivity. }
        rewrite Hu. unfold member_paren. rewrite orb_comm. reflexivity. }
      rewrite Hmap. apply fold_tcs_join. apply Forall_forall. intros s Hin.
      apply in_map_iff in Hin as (z & <- & Hin).
      destruct (G_union _ (abs z) Hg (in_map abs _ _ Hin)) as [Gz _].
      pose proof (shw_nonempty _ (G_doc _ Gz)) as Hne.
      destruct (member_paren (abs z)); cbn [paren]; [discriminate|exact Hne].
  - (* ArrayType *)
    cbn [abs] in Hg |- *. apply G_array in Hg.
    cbn [show_bare type_convert_str_fx].
    cbn [asize] in Hs. assert (Hsi : asize i <= n) by (clear - Hs; lia).
    rewrite (need_paren_abs n i Hsi (G_doc _ Hg)).
    rewrite (IH i Hsi Hg).
    destruct (item_paren true (abs i)); reflexivity.
  - reflexivity.
  - (* TableType *)
    cbn [abs] in Hg |- *. apply G_table in Hg as [Gk Gv].
    cbn [show_bare type_convert_str_fx]. cbn [asize] in Hs.
    assert (Hsk : asize k <= n) by (clear - Hs; lia). assert (Hsv : asize v <= n) by (clear - Hs; lia).
    rewrite (IH k Hsk Gk), (IH v Hsv Gv).
    rewrite (fun_paren_ok k Gk), (fun_paren_ok v Gv). reflexivity.
  - (* FuncType: only with the repair *)
    rewrite abs_fun in Hg |- *. destruct (G_fun _ _ Hg) as (Hfx & Gp & Gr).
    cbn [type_convert_str_fx]. rewrite Hfx. cbn [show_bare]. rewrite !join_sep_eq, !map_map.
    cbn [asize] in Hs.
    f_equal. f_equal; [|f_equal].
    + f_equal. apply map_ext_in. intros [[pn po] pt] Hin. cbn [fst snd].
      rewrite abs_param_type_default. destruct (is_default_param_type pt) eqn:Edef; [reflexivity|].
      assert (Gt : G (abs pt)).
      { apply (Gp pn po). apply in_map_iff. exists (pn, po, pt). cbn [fst snd].
        rewrite abs_param_type_default, Edef. split; [reflexivity|exact Hin]. }
      pose proof (list_sum_in (fun p : bytes * bool * atype => asize (snd p)) _ _ Hin) as Hsz. cbn [snd] in Hsz.
      assert (Hsz' : asize pt <= n) by (clear - Hs Hsz; lia).
      rewrite (IH pt Hsz' Gt). rewrite (is_fun_type_abs (asize pt) pt (le_n _)). reflexivity.
    + assert (Hnil : is_nil (map abs rs) = is_nil rs) by (destruct rs; reflexivity). rewrite Hnil.
      destruct (is_nil rs); [reflexivity|]. rewrite ?join_sep_eq. f_equal. f_equal. apply map_ext_in. intros r Hin.
      assert (Gt : G (abs r)) by (apply Gr; apply in_map; exact Hin).
      pose proof (list_sum_in asize _ _ Hin) as Hsz.
      assert (Hsz' : asize r <= n) by (clear - Hs Hsz; lia).
      rewrite (IH r Hsz' Gt). rewrite (is_fun_type_abs (asize r) r (le_n _)). reflexivity.
  - (* ConstType: only with the repair *)
    destruct Hg as (_ & _ & Hc & _). cbn [abs has_const] in Hc.
    assert (Hfx : fx_const fx = true) by (destruct (fx_const fx); [reflexivity|discriminate (Hc eq_refl)]).
    cbn [abs show_bare type_convert_str_fx]. rewrite Hfx. unfold show_const. destruct q; [|reflexivity].
    cbn [app]. rewrite <- app_assoc. reflexivity.
Qed.

(* print, then read: the same documented type *)
Theorem impl_printer_fx : forall a, pguard fx (abs a) = true ->
  exists a', parse_type (fuel_of (tcs a)) (tcs a) = Ok (inl (a', [])) /\ abs a' = abs a.
Proof.
  intros a Hg. apply pguard_G in Hg. pose proof (tcs_show (asize a) a (le_n _) Hg) as Ht.
  exists (embed_type (abs a)). split; [|apply abs_embed_one; exact (G_doc _ Hg)].
  rewrite Ht. apply (type_roundtrip (abs a) (G_doc _ Hg)).
Qed.
End Printer.

(* with all repairs: every documented type (C16_impl_printer_full for the repaired printer) *)
Lemma pguard_all d : doc_type d = true -> pguard all_fixes d = true.
Proof. intros H. unfold pguard. rewrite H. reflexivity. Qed.

Theorem impl_printer_full_all_fixes : forall a, doc_type (abs a) = true ->
  exists a', parse_type (fuel_of (type_convert_str_fx all_fixes a)) (type_convert_str_fx all_fixes a)
             = Ok (inl (a', [])) /\ abs a' = abs a.
Proof. intros a Hd. apply impl_printer_fx. apply pguard_all. exact Hd. Qed.

(* the code as it is: every documented type without a fun type *)
Lemma pguard_deployed d : doc_type d = true -> has_fun d = false -> pguard deployed d = true.
Proof. intros H1 H2. unfold pguard. rewrite H1, H2. reflexivity. Qed.

Theorem impl_printer_partial : forall a, doc_type (abs a) = true -> has_fun (abs a) = false ->
  exists a', parse_type (fuel_of (type_convert_str a)) (type_convert_str a) = Ok (inl (a', [])) /\ abs a' = abs a.
Proof. intros a Hd Hf. apply (impl_printer_fx deployed). apply pguard_deployed; assumption. Qed.
