(* C16, the implementation printer annotateast.TypeConvertStr:
   - abs (embed_one t) = t: the expected implementation tree denotes the documented type (abs forgets only
     singleton MultiTypes);
   - on types without fun types, string constants and unions directly inside unions, TypeConvertStr prints exactly
     the canonical text (array items that are unions / arrays keep their parentheses: needParenInArray), hence
     reading the printed text gives the same type. *)
From Coq Require Import String Ascii List Arith NArith Bool Lia.
From LH Require Import Base.Bytes Base.Res Model.AnnLexer Model.AnnAst Model.AnnParser Model.AnnPrint
  Spec.AnnGrammar Proofs.AnnLexFacts Proofs.AnnRoundtrip.
Import ListNotations.

Notation shw := (show_bare true).

(* ------------------------------------------------------------------ abs . embed = id *)
Section Faith.
Variable nested : bool.
Lemma abs_wrap_one t a : is_union t = false -> abs (wrap_one t a) = abs a.
Proof. intros H. unfold wrap_one. rewrite H. reflexivity. Qed.

Definition FaithB (t : dtype) : Prop := abs (embed_bare nested t) = t.

Lemma abs_multi_map (ts : list dtype) (f : dtype -> atype) :
  2 <= length ts -> (forall m, In m ts -> abs (f m) = m) -> abs (AMulti (map f ts)) = DUnion ts.
Proof.
  intros Hlen H. cbn [abs]. destruct ts as [|x [|y ts]]; cbn [length] in Hlen; try lia.
  cbn [map]. f_equal. rewrite map_map. change (abs (f x) :: abs (f y) :: map (fun z => abs (f z)) ts)
    with (map (fun z => abs (f z)) (x :: y :: ts)).
  rewrite <- (map_id (x :: y :: ts)) at 2. apply map_ext_in. exact H.
Qed.

Lemma abs_wrap_member m : doc_type m = true -> FaithB m -> abs (wrap_member m (embed_bare nested m)) = m.
Proof.
  intros Hd HB. unfold wrap_member, wrap_one. destruct m; cbn [member_paren is_union is_fun orb]; try exact HB.
Qed.

Lemma abs_wrap_item m : FaithB m -> abs (wrap_item nested m (embed_bare nested m)) = m.
Proof.
  unfold FaithB, wrap_item, wrap_one, item_paren.
  destruct nested, m; intros HB; cbn [is_union is_fun is_array orb andb]; exact HB.
Qed.

Lemma abs_wrap_sub m : FaithB m -> abs (wrap_sub m (embed_bare nested m)) = m.
Proof.
  intros HB. unfold wrap_sub, wrap_one. destruct m; cbn [sub_paren is_union is_fun]; exact HB.
Qed.

Lemma wrap_sub_not_normal m a : forall s c, wrap_sub m a <> ANormal s c \/ is_union m = true.
Proof. intros s c. unfold wrap_sub, wrap_one. destruct (sub_paren m), (is_union m); auto; left; discriminate. Qed.

Lemma faithB_all : forall n t, tsize t <= n -> doc_type t = true -> FaithB t.
Proof.
  induction n as [|n IH]; intros t Hs Hd; [pose proof (tsize_pos t); lia|].
  unfold FaithB. destruct t as [nm|s q|i| |k v|ps rs|ts]; cbn [embed_bare abs]; try reflexivity.
  - cbn [tsize doc_type] in Hs, Hd. f_equal. apply abs_wrap_item. apply IH; [lia|exact Hd].
  - cbn [tsize doc_type] in Hs, Hd. apply andb_true_iff in Hd as [Hk Hv].
    f_equal; apply abs_wrap_sub; apply IH; (lia || assumption).
  - cbn [tsize doc_type] in Hs, Hd. apply andb_true_iff in Hd as [Hdp Hdr]. f_equal.
    + rewrite map_map. rewrite <- (map_id ps) at 2. apply map_ext_in. intros [[pn po] pot] Hin.
      rewrite forallb_forall in Hdp. specialize (Hdp _ Hin). cbn [doc_param] in Hdp.
      apply andb_true_iff in Hdp as [_ Hpt].
      destruct pot as [pt|]; [|reflexivity].
      pose proof (list_sum_in (fun p : bytes * bool * option dtype =>
                                 match p with (_, _, Some t) => S (tsize t) | _ => 1 end) _ _ Hin) as Hsz.
      cbn beta iota in Hsz.
      assert (HB : FaithB pt) by (apply IH; [lia|exact Hpt]).
      pose proof (abs_wrap_sub pt HB) as Ha.
      unfold wrap_sub, wrap_one in *. destruct (sub_paren pt); [rewrite Ha; reflexivity|].
      destruct (is_union pt) eqn:Eu; [|rewrite Ha; reflexivity].
      destruct pt; try discriminate Eu. cbn [embed_bare] in *. rewrite Ha. reflexivity.
    + rewrite map_map. rewrite <- (map_id rs) at 2. apply map_ext_in. intros r Hin.
      rewrite forallb_forall in Hdr. pose proof (list_sum_in tsize _ _ Hin) as Hsz.
      apply abs_wrap_sub. apply IH; [lia|apply Hdr; exact Hin].
  - cbn [tsize doc_type] in Hs, Hd. apply andb_true_iff in Hd as [Hlen Hdt]. apply Nat.leb_le in Hlen.
    apply (abs_multi_map ts (fun m => wrap_member m (embed_bare nested m)) Hlen).
    intros m Hin. rewrite forallb_forall in Hdt. pose proof (list_sum_in tsize _ _ Hin) as Hsz.
    apply abs_wrap_member; [apply Hdt; exact Hin|]. apply IH; [lia|apply Hdt; exact Hin].
Qed.

(* the tree the text must be read as denotes the documented type again *)
Theorem abs_embed_one_gen : forall t, doc_type t = true -> abs (embed_one nested t) = t.
Proof.
  intros t Hd. pose proof (faithB_all (tsize t) t (le_n _) Hd) as HB. unfold FaithB in HB.
  unfold embed_one, wrap_one. destruct (is_union t) eqn:Eu; [exact HB|].
  cbn [abs]. exact HB.
Qed.
End Faith.

Theorem abs_embed_one : forall t, doc_type t = true -> abs (embed_type t) = t.
Proof. exact (abs_embed_one_gen true). Qed.
Theorem abs_embed_one_plain : forall t, doc_type t = true -> abs (embed_type_plain t) = t.
Proof. exact (abs_embed_one_gen false). Qed.

(* ------------------------------------------------------------------ TypeConvertStr = show on the guarded fragment *)
Fixpoint asize (a : atype) : nat :=
  match a with
  | AMulti ts => S (list_sum (map asize ts))
  | AArray i => S (asize i)
  | ATable k v => S (asize k + asize v)
  | AFun ps rs => S (list_sum (map (fun p : bytes * bool * atype => asize (snd p)) ps) + list_sum (map asize rs))
  | _ => 1
  end.
Lemma asize_pos a : 1 <= asize a.
Proof. destruct a; cbn; lia. Qed.

(* guard of C16_impl_printer_partial, on the documented type the tree denotes *)
Definition printer_ok (d : dtype) : bool :=
  doc_type d && negb (has_fun d) && negb (has_const d) && negb (has_union_in_union d).
Definition printer_guard (a : atype) : bool := printer_ok (abs a).

Lemma printer_ok_inv d : printer_ok d = true ->
  doc_type d = true /\ has_fun d = false /\ has_const d = false /\ has_union_in_union d = false.
Proof.
  unfold printer_ok. intros H.
  repeat (apply andb_true_iff in H as [H ?]).
  repeat match goal with X : negb _ = true |- _ => apply negb_true_iff in X end. auto.
Qed.
Lemma printer_ok_intro d :
  doc_type d = true -> has_fun d = false -> has_const d = false ->
  has_union_in_union d = false -> printer_ok d = true.
Proof. unfold printer_ok. intros -> -> -> ->. reflexivity. Qed.

Lemma shw_nonempty d : doc_type d = true -> shw d <> [].
Proof.
  intros Hd. destruct d as [nm|s q|i| |k v|ps rs|ts]; cbn [show_bare].
  - cbn [doc_type] in Hd. unfold type_name_ok, plain_name in Hd. apply orb_true_iff in Hd as [Hd|Hd].
    + apply andb_true_iff in Hd as [Hd _]. destruct nm; [discriminate Hd|discriminate].
    + apply beq_bytes_eq in Hd. subst. discriminate.
  - unfold show_const. destruct q; discriminate.
  - intros E. apply app_eq_nil in E as [_ E]. discriminate E.
  - discriminate.
  - discriminate.
  - discriminate.
  - cbn [doc_type] in Hd. apply andb_true_iff in Hd as [Hlen Hdt]. apply Nat.leb_le in Hlen.
    destruct ts as [|m [|m2 ts]]; cbn [length] in Hlen; try lia.
    cbn [map]. rewrite join_cons2. intros E. apply app_eq_nil in E as [_ E]. apply app_eq_nil in E as [E _].
    discriminate E.
Qed.

(* the fold of TypeConvertStr over non-empty member strings is the " | " join *)
Definition tcs_step (acc : bytes) (s : bytes) : bytes :=
  if is_nil s then acc else (if is_nil acc then s else acc ++ s_bar ++ s).

Lemma fold_tcs_acc (l : list bytes) (acc : bytes) :
  acc <> [] -> Forall (fun s => s <> []) l ->
  fold_left tcs_step l acc = acc ++ concat (map (fun s => s_bar ++ s) l).
Proof.
  revert acc. induction l as [|s l IH]; intros acc Ha HF; cbn [fold_left map concat]; [rewrite app_nil_r; reflexivity|].
  inversion HF as [|? ? Hs HF']; subst. unfold tcs_step at 2.
  destruct s as [|b s]; [contradiction|]. cbn [is_nil]. destruct acc as [|a acc]; [contradiction|]. cbn [is_nil].
  rewrite IH; [|discriminate|exact HF']. rewrite <- !app_assoc. reflexivity.
Qed.

Lemma join_as_concat (sep : bytes) (l : list bytes) : forall s,
  s ++ concat (map (fun x => sep ++ x) l) = join sep (s :: l).
Proof.
  induction l as [|s2 l IH]; intros s; cbn [map concat]; [rewrite app_nil_r; reflexivity|].
  rewrite join_cons2. rewrite <- IH. rewrite <- !app_assoc. reflexivity.
Qed.

Lemma fold_tcs_join (l : list bytes) : Forall (fun s => s <> []) l -> fold_left tcs_step l [] = join t_bar l.
Proof.
  destruct l as [|s l]; [reflexivity|]. intros HF. inversion HF as [|? ? Hs HF']; subst.
  cbn [fold_left]. unfold tcs_step at 2. destruct s as [|b s]; [contradiction|]. cbn [is_nil].
  rewrite fold_tcs_acc; [|discriminate|exact HF']. apply (join_as_concat s_bar).
Qed.

Lemma tcs_multi ts :
  type_convert_str (AMulti ts) = fold_left tcs_step (map type_convert_str ts) [].
Proof.
  cbn [type_convert_str]. generalize (@nil N). induction ts as [|x ts IH]; intros acc; cbn [fold_left map]; [reflexivity|].
  rewrite IH. reflexivity.
Qed.

(* needParenInArray decides exactly what the canonical printer parenthesises under [] *)
Lemma need_paren_abs : forall n a, asize a <= n -> doc_type (abs a) = true ->
  need_paren_in_array a = item_paren true (abs a).
Proof.
  induction n as [|n IH]; intros a Hs Hd; [pose proof (asize_pos a); lia|].
  destruct a as [nm c|ts|i| |k v|ps rs|nm q c]; try reflexivity.
  destruct ts as [|x [|y ts]].
  - discriminate Hd.
  - cbn [abs need_paren_in_array] in *. apply IH; [cbn in Hs; lia|exact Hd].
  - reflexivity.
Qed.

Lemma tcs_show : forall n a, asize a <= n -> printer_guard a = true -> type_convert_str a = shw (abs a).
Proof.
  induction n as [|n IH]; intros a Hs Hg; [pose proof (asize_pos a); lia|].
  unfold printer_guard in Hg.
  destruct a as [nm c|ts|i| |k v|ps rs|nm q c].
  - reflexivity.
  - (* MultiType *)
    destruct ts as [|x [|y ts]].
    + cbn [abs] in Hg. apply printer_ok_inv in Hg as (Hd & _). discriminate Hd.
    + cbn [abs] in Hg |- *. rewrite tcs_multi. cbn [map fold_left]. unfold tcs_step.
      assert (Hx : asize x <= n) by (cbn in Hs; lia).
      rewrite (IH x Hx Hg). destruct (shw (abs x)); reflexivity.
    + set (l := x :: y :: ts) in *.
      assert (Habs : abs (AMulti l) = DUnion (map abs l)) by reflexivity.
      rewrite Habs in Hg |- *. apply printer_ok_inv in Hg as (Hd & Hf & Hc & Hu).
      cbn [doc_type has_fun has_const has_union_in_union] in Hd, Hf, Hc, Hu.
      apply andb_true_iff in Hd as [_ Hdt]. apply orb_false_iff in Hu as [Hu1 Hu2].
      assert (Hmem : forall z, In z l -> printer_ok (abs z) = true /\ member_paren (abs z) = false).
      { intros z Hin. pose proof (in_map abs _ _ Hin) as Hin'.
        rewrite forallb_forall in Hdt.
        assert (E1 : has_fun (abs z) = false).
        { destruct (has_fun (abs z)) eqn:E; [|reflexivity].
          assert (existsb has_fun (map abs l) = true) by (apply existsb_exists; eauto). congruence. }
        assert (E2 : has_const (abs z) = false).
        { destruct (has_const (abs z)) eqn:E; [|reflexivity].
          assert (existsb has_const (map abs l) = true) by (apply existsb_exists; eauto). congruence. }
        assert (E4 : has_union_in_union (abs z) = false).
        { destruct (has_union_in_union (abs z)) eqn:E; [|reflexivity].
          assert (existsb has_union_in_union (map abs l) = true) by (apply existsb_exists; eauto). congruence. }
        assert (E5 : is_union (abs z) = false).
        { destruct (is_union (abs z)) eqn:E; [|reflexivity].
          assert (existsb is_union (map abs l) = true) by (apply existsb_exists; eauto). congruence. }
        split; [apply printer_ok_intro; auto|].
        unfold member_paren. rewrite E5. destruct (abs z); try reflexivity. discriminate E1. }
      rewrite tcs_multi. cbn [show_bare]. rewrite map_map.
      assert (Hmap : map type_convert_str l = map (fun z => paren (member_paren (abs z)) (shw (abs z))) l).
      { apply map_ext_in. intros z Hin. destruct (Hmem z Hin) as [Hok Hmp]. rewrite Hmp. cbn [paren].
        pose proof (list_sum_in asize _ _ Hin) as Hsz. cbn [asize] in Hs.
        assert (Hsz' : asize z <= n) by (clear - Hs Hsz; lia). exact (IH z Hsz' Hok). }
      rewrite Hmap. apply fold_tcs_join. apply Forall_forall. intros s Hin.
      apply in_map_iff in Hin as (z & <- & Hin). destruct (Hmem z Hin) as [Hok Hmp]. rewrite Hmp. cbn [paren].
      apply printer_ok_inv in Hok as (D1 & _). apply shw_nonempty; assumption.
  - (* ArrayType *)
    cbn [abs] in Hg |- *. apply printer_ok_inv in Hg as (Hd & Hf & Hc & Hu).
    cbn [doc_type has_fun has_const has_union_in_union] in Hd, Hf, Hc, Hu.
    cbn [show_bare type_convert_str].
    cbn [asize] in Hs. assert (Hsi : asize i <= n) by (clear - Hs; lia).
    rewrite (need_paren_abs n i Hsi Hd).
    rewrite (IH i Hsi (printer_ok_intro _ Hd Hf Hc Hu)).
    destruct (item_paren true (abs i)); reflexivity.
  - reflexivity.
  - (* TableType *)
    cbn [abs] in Hg |- *. apply printer_ok_inv in Hg as (Hd & Hf & Hc & Hu).
    cbn [doc_type has_fun has_const has_union_in_union] in Hd, Hf, Hc, Hu.
    apply andb_true_iff in Hd as [Hd1 Hd2]. apply orb_false_iff in Hf as [Hf1 Hf2].
    apply orb_false_iff in Hc as [Hc1 Hc2].
    apply orb_false_iff in Hu as [Hu1 Hu2].
    cbn [show_bare type_convert_str]. cbn [asize] in Hs.
    assert (Hsk : asize k <= n) by (clear - Hs; lia). assert (Hsv : asize v <= n) by (clear - Hs; lia).
    rewrite (IH k Hsk (printer_ok_intro _ Hd1 Hf1 Hc1 Hu1)).
    rewrite (IH v Hsv (printer_ok_intro _ Hd2 Hf2 Hc2 Hu2)).
    assert (Sk : sub_paren (abs k) = false) by (unfold sub_paren; destruct (abs k); try reflexivity; discriminate Hf1).
    assert (Sv : sub_paren (abs v) = false) by (unfold sub_paren; destruct (abs v); try reflexivity; discriminate Hf2).
    rewrite Sk, Sv. reflexivity.
  - cbn [abs] in Hg. apply printer_ok_inv in Hg as (_ & Hf & _). discriminate Hf.
  - cbn [abs] in Hg. apply printer_ok_inv in Hg as (_ & _ & Hc & _). discriminate Hc.
Qed.

(* C16_impl_printer_partial *)
Theorem impl_printer_partial : forall a, printer_guard a = true ->
  exists a', parse_type (fuel_of (type_convert_str a)) (type_convert_str a) = Ok (inl (a', [])) /\ abs a' = abs a.
Proof.
  intros a Hg. pose proof (tcs_show (asize a) a (le_n _) Hg) as Ht.
  unfold printer_guard in Hg. apply printer_ok_inv in Hg as (Hd & _).
  exists (embed_type (abs a)). split; [|apply abs_embed_one; exact Hd].
  rewrite Ht. apply (type_roundtrip (abs a) Hd).
Qed.
