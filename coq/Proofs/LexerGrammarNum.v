(* C03, lexical level, numerals: every numeral token of a lexically valid text is a text lexer.scanNumber can cut
   (num_lexer_token of Proofs/NumberProofs.v), hence - by C03_number_ok_token - the parser's "not a number" error on
   it is raised exactly when the lexeme is no Numeral of Spec/LuaNumeral.v. *)
From Coq Require Import List NArith ZArith Bool Arith Lia ZifyNat ZifyN ZifyBool.
From LH Require Import Base.Bytes Base.Res Model.Lexer Model.Number Spec.LuaNumeral Spec.LuaLex.
From LH Require Import Proofs.NumberSpecProofs Proofs.NumberGo Proofs.NumberProofs Proofs.LexerGrammarMain.
Import ListNotations.
Local Open Scope N_scope.

Lemma numch_lexer_char c : lx_numch c = true -> num_lexer_char c = true.
Proof. unfold lx_numch, lx_xdigit, lx_digit, num_lexer_char, is_digit. lia. Qed.
Lemma sign_lexer_char c : lx_sign c = true -> num_lexer_char c = true.
Proof. unfold lx_sign, num_lexer_char, is_digit. lia. Qed.
Lemma expo_dec_lexer_char c : expo_dec c = true -> num_lexer_char c = true.
Proof. unfold expo_dec, num_lexer_char, is_digit. lia. Qed.
Lemma expo_hex_lexer_char c : expo_hex c = true -> num_lexer_char c = true.
Proof. unfold expo_hex, num_lexer_char, is_digit. lia. Qed.

Lemma num_tail_chars expo (Hex : forall c, expo c = true -> num_lexer_char c = true) :
  forall l, forallb num_lexer_char (firstn (num_tail expo l) l) = true.
Proof.
  fix IH 1. intros [|c t]; cbn [num_tail]; [reflexivity|].
  destruct (expo c) eqn:Ee.
  - pose proof (Hex c Ee) as Hc. destruct t as [|s t']; cbn [firstn forallb]; [rewrite Hc; reflexivity|].
    destruct (lx_sign s) eqn:Es.
    + pose proof (sign_lexer_char s Es) as Hs. destruct t' as [|d t'']; cbn [firstn forallb]; [rewrite Hc, Hs; reflexivity|].
      destruct (lx_numch d) eqn:Ed; cbn [firstn forallb]; [|rewrite Hc, Hs; reflexivity].
      rewrite Hc, Hs, (numch_lexer_char d Ed), (IH t''). reflexivity.
    + destruct (lx_numch s) eqn:En; cbn [firstn forallb]; [|rewrite Hc; reflexivity].
      rewrite Hc, (numch_lexer_char s En), (IH t'). reflexivity.
  - destruct (lx_numch c) eqn:En; cbn [firstn forallb]; [|reflexivity].
    rewrite (numch_lexer_char c En), (IH t). reflexivity.
Qed.

Lemma num_cut_token bs : num_starts bs = true -> num_lexer_token (firstn (num_len bs) bs) = true.
Proof.
  intros Hst. destruct bs as [|c t]; [discriminate|]. cbn [num_starts] in Hst.
  assert (A : forall (d : N) (t : list N), num_lexer_char d = true ->
            forallb num_lexer_char (firstn (match t with
              | x :: t' => if (d =? 48) && ((x =? 120) || (x =? 88)) then S (S (num_tail expo_hex t')) else S (num_tail expo_dec t)
              | [] => 1%nat end) (d :: t)) = true).
  { intros d [|x t'] Hd; cbn [firstn forallb]; [rewrite Hd; reflexivity|].
    destruct ((d =? 48) && ((x =? 120) || (x =? 88))) eqn:E; cbn [firstn forallb].
    - rewrite Hd, (num_tail_chars expo_hex expo_hex_lexer_char t').
      replace (num_lexer_char x) with true by (unfold num_lexer_char; lia). reflexivity.
    - rewrite Hd. exact (num_tail_chars expo_dec expo_dec_lexer_char (x :: t')). }
  unfold num_lexer_token, num_len. apply andb_true_iff. destruct (c =? 46) eqn:E46.
  - destruct t as [|d t']; [cbn [hd_is] in Hst; unfold lx_digit in Hst; lia|].
    cbn [hd_is] in Hst. assert (Hd : lx_digit d = true) by (unfold lx_digit in *; lia).
    split.
    + cbn [firstn forallb]. replace (num_lexer_char c) with true by (unfold num_lexer_char; lia).
      apply A. unfold num_lexer_char, is_digit, lx_digit in *. lia.
    + destruct t' as [|x t'']; cbn [firstn num_token_start]; [unfold is_digit, lx_digit in *; lia|].
      destruct ((d =? 48) && ((x =? 120) || (x =? 88))); cbn [firstn num_token_start]; unfold is_digit, lx_digit in *; lia.
  - assert (Hc : lx_digit c = true) by (cbn [andb] in Hst; rewrite orb_false_r in Hst; exact Hst).
    split.
    + apply A. unfold num_lexer_char, is_digit, lx_digit in *. lia.
    + destruct t as [|x t']; cbn [firstn num_token_start]; [unfold is_digit, lx_digit in *; lia|].
      destruct ((c =? 48) && ((x =? 120) || (x =? 88))); cbn [firstn num_token_start]; unfold is_digit, lx_digit in *; lia.
Qed.

Lemma name_kind_not_number w : name_kind w <> TkNumber.
Proof.
  unfold name_kind. destruct (find _ lx_keywords) as [p|] eqn:E; [|discriminate].
  apply find_some in E as [Hin _]. cbn in Hin.
  repeat (destruct Hin as [<-|Hin]; [discriminate|]). contradiction.
Qed.

Lemma op_match_not_number bs w k : op_match bs = Some (w, k) -> k <> TkNumber.
Proof.
  unfold op_match. intros E. apply find_some in E as [Hin _]. cbn in Hin.
  repeat (destruct Hin as [Hin|Hin]; [injection Hin as <- <-; discriminate|]). contradiction.
Qed.

Lemma token_number_cut Esc t bs r : Token Esc t bs r -> sk t = TkNumber -> num_lexer_token (stxt t) = true.
Proof.
  intros [c body r0 _ _ _|bs0 H|bs0 w k H1 _|q bs0 r0 _ _|bs0 r0 _]; cbn [sk stxt]; intros Hk; try discriminate.
  - exfalso. exact (name_kind_not_number _ Hk).
  - apply num_cut_token. exact H.
  - exfalso. exact (op_match_not_number _ _ _ H1 Hk).
Qed.

Theorem lex_numbers_cut Esc bs ts : Lex Esc bs ts ->
  Forall (fun t => sk t = TkNumber -> num_lexer_token (stxt t) = true) ts.
Proof.
  induction 1 as [bs _|bs r1 t r ts _ HT _ IH]; constructor; [|exact IH]. exact (token_number_cut _ _ _ _ HT).
Qed.

(* on the numeral tokens of a lexically valid text the parser's numeral check is exactly the grammar of numerals *)
Theorem lexes_numbers_checked bs ts : LexesTo bs ts ->
  Forall (fun t => sk t = TkNumber -> (classify_number (stxt t) <> Ok NumBad <-> Numeral (stxt t))) ts.
Proof.
  intros H. apply lex_numbers_cut in H. revert H. apply Forall_impl. intros t Ht Hk.
  apply number_ok_token. exact (Ht Hk).
Qed.
