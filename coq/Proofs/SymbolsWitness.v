(* C19 - concrete witnesses (vm_compute on the parsed bytes of small files). *)
From Coq Require Import List NArith ZArith Bool.
From LH Require Import Base.Bytes Base.Res Model.Lexer Model.Ast Model.Parser Model.LuaFront Model.Symbols Spec.SymbolSpec
  Proofs.SymbolsJudge.
Import ListNotations.

Definition no_gbk (_ : list N) : Z := 0%Z.      (* ASCII files never consult the GBK oracle *)

(* outline of a one-file workspace *)
Definition outline_of_bytes (fx : fixes) (bs : list N) : option (list sym) :=
  match analyse_bytes no_gbk bs with
  | Ok (FsOk st) => Some (find_all_symbol fx (finalize st))
  | _ => None
  end.

(* local u = { k = 1, g = function() end } *)
Definition w_local : list N :=
  [108;111;99;97;108;32;117;32;61;32;123;32;107;32;61;32;49;44;32;103;32;61;32;102;117;110;99;116;105;111;110;40;41;32;101;110;100;32;125]%N.
(* t = {} <LF> t.v = 1 *)
Definition w_global : list N := [116;32;61;32;123;125;10;116;46;118;32;61;32;49]%N.
(* h = function() end *)
Definition w_assigned : list N := [104;32;61;32;102;117;110;99;116;105;111;110;40;41;32;101;110;100]%N.
(* local x = 1 <LF> local x = 2 *)
Definition w_shadow : list N := [108;111;99;97;108;32;120;32;61;32;49;10;108;111;99;97;108;32;120;32;61;32;50]%N.

Definition key_is (k : bytes) (s : sym) : bool := beq_bytes (s_key s) k.

(* the entry of `u`: declared at 1:6-1:7 (Loc convention, line from 1), reported 1:37-1:7 = LSP 0:37-0:7 *)
Lemma rewrite_local_witness :
  exists s, outline_of_bytes fx_none w_local = Some [s] /\
            s_key s = [117%N] /\ s_decl s = mkLoc 1 6 1 7 /\ s_loc s = mkLoc 1 37 1 7 /\
            well_formed (s_loc s) = false /\ contains (s_loc s) (s_decl s) = false.
Proof. eexists. vm_compute. repeat split. Qed.

(* the entry of `t`: declared at 1:0-1:1, reported from column 3 *)
Lemma rewrite_global_witness :
  exists s, outline_of_bytes fx_none w_global = Some [s] /\
            s_key s = [116%N] /\ s_decl s = mkLoc 1 0 1 1 /\ s_loc s = mkLoc 1 3 2 1 /\
            contains (s_loc s) (s_decl s) = false.
Proof. eexists. vm_compute. repeat split. Qed.

(* with the fix both ranges are well formed and contain the declaring identifier *)
Lemma rewrite_witnesses_fixed :
  (exists s, outline_of_bytes deployed w_local = Some [s] /\ s_loc s = mkLoc 1 6 1 37 /\
             well_formed (s_loc s) = true /\ contains (s_loc s) (s_decl s) = true) /\
  (exists s, outline_of_bytes deployed w_global = Some [s] /\ s_loc s = mkLoc 1 0 2 3 /\
             well_formed (s_loc s) = true /\ contains (s_loc s) (s_decl s) = true).
Proof. split; eexists; vm_compute; repeat split. Qed.

(* a function-valued assignment before fixes/C19-assigned-function-range.diff (fx_round1 = /repo after the first repair):
   the entry has no children and its range is the function literal *)
Lemma assigned_function_witness :
  exists s, outline_of_bytes fx_round1 w_assigned = Some [s] /\
            s_key s = [104%N] /\ s_children s = [] /\ s_fn s = true /\
            s_decl s = mkLoc 1 0 1 1 /\ s_loc s = mkLoc 1 4 1 18 /\ contains (s_loc s) (s_decl s) = false.
Proof. eexists; vm_compute; repeat split. Qed.

(* repaired: the range is the Union of the identifier and the function literal *)
Lemma assigned_function_repaired :
  exists s, outline_of_bytes deployed w_assigned = Some [s] /\
            s_key s = [104%N] /\ s_fn s = true /\
            s_decl s = mkLoc 1 0 1 1 /\ s_loc s = mkLoc 1 0 1 18 /\ contains (s_loc s) (s_decl s) = true.
Proof. eexists; vm_compute; repeat split. Qed.

(* two top-level declarations of x: before fixes/C19-shadowed-top-local.diff one entry (the second) *)
Lemma shadowed_witness :
  exists s, outline_of_bytes fx_round1 w_shadow = Some [s] /\ s_key s = [120%N] /\ s_decl s = mkLoc 2 6 2 7.
Proof. eexists; vm_compute; repeat split. Qed.

(* repaired: one entry per declaration *)
Lemma shadowed_repaired :
  exists s1 s2, outline_of_bytes deployed w_shadow = Some [s1; s2] /\
                s_key s1 = [120%N] /\ s_decl s1 = mkLoc 1 6 1 7 /\ s_loc s1 = mkLoc 1 6 1 7 /\
                s_key s2 = [120%N] /\ s_decl s2 = mkLoc 2 6 2 7 /\ s_loc s2 = mkLoc 2 6 2 7.
Proof. do 2 eexists; vm_compute; repeat split. Qed.
