(* Traversal resolver: the replayed layout hypothesis restricted to the FIRST look-up of an assignment target
   (`tr_clean1`): what the layout alone (Laid) guarantees.  The second look-up of cgAssignStat (after the re-pointing
   of an empty local) is the business of class B4 (Proofs/TraverseBindB4.v). *)
From Coq Require Import List NArith ZArith Bool.
From LH Require Import Base.Bytes Model.Lexer Model.Ast Model.Scope Spec.LuaScope Proofs.TraverseBindDefs.
Import ListNotations.
Local Open Scope Z_scope.

(* assign_name: the look-up before the re-pointing and the look-up of `log` after it *)
Definition cl1_assign_name (nm : list N) (n : list N) (l : loc) (eo : option exp) (st : tstate) : bool :=
  negb (beq_bytes n nm) || clean_at st n l.

Definition ct_clean1 (nm : list N) (v : ctarget) (eo : option exp) (s : tstate) : bool :=
  match v with CName n l => cl1_assign_name nm n l eo s | COther _ c => c s end.

Fixpoint cl1_assign_loop (nm : list N) (flv slv : Z) (vars : list ctarget) (vis : list (exp * tT * tC))
         (st : tstate) {struct vars} : bool :=
  match vars with
  | [] => cl_all (map (fun x => (snd (fst x), snd x)) vis) st
  | v :: vars' =>
    match vis with
    | (e, f, c) :: vis' =>
      c st && ct_clean1 nm v (Some e) (f st) && cl1_assign_loop nm flv slv vars' vis' (ct_run flv slv v (Some e) (f st))
    | [] => ct_clean1 nm v None st && cl1_assign_loop nm flv slv vars' [] (ct_run flv slv v None st)
    end
  end.

Fixpoint cl1_exp (nm : list N) (flv : Z) (e : exp) (st : tstate) {struct e} : bool :=
  match e with
  | EName n l => negb (beq_bytes n nm) || clean_at st n l
  | EParens e1 _ => cl1_exp nm flv e1 st
  | EUnop _ e1 _ => cl1_exp nm flv e1 st
  | EBinop _ e1 e2 _ => cl1_exp nm flv e1 st && cl1_exp nm flv e2 (tr_exp flv e1 st)
  | EIndex p k _ => cl1_exp nm flv p st && cl1_exp nm flv k (tr_exp flv p st)
  | ECall p _ args _ =>
    cl1_exp nm flv p st && cl_all (map (fun a => (tr_exp flv a, cl1_exp nm flv a)) args) (tr_exp flv p st)
  | ETable ks vs _ =>
    cl_all (map (fun k => match k with
                          | Some k' => (tr_exp flv k', cl1_exp nm flv k')
                          | None => (fun s => s, fun _ => true)
                          end) ks) st
    && cl_all (map (fun a => (tr_exp flv a, cl1_exp nm flv a)) vs)
              (apply_all (map (fun k => match k with Some k' => tr_exp flv k' | None => fun s => s end) ks) st)
  | EFunc _ _ pars plocs b l _ _ =>
    cl1_block nm (flv + 1) 0 b (add_params (combine pars plocs) (push l st))
  | _ => true
  end
with cl1_stat (nm : list N) (flv slv : Z) (s : stat) (st : tstate) {struct s} : bool :=
  match s with
  | SBreak | SLabel _ _ | SGoto _ _ => true
  | SDo b l => cl1_block nm flv (slv + 1) b (push l st)
  | SCall e => cl1_exp nm flv e st
  | SIf es bs _ =>
    cl_if_loop (map (fun e => (tr_exp flv e, cl1_exp nm flv e)) es)
               (map (fun b => (block_loc b, tr_block flv (slv + 1) b, cl1_block nm flv (slv + 1) b)) bs) st
  | SWhile e b l => cl1_exp nm flv e st && cl1_block nm flv (slv + 1) b (push l (tr_exp flv e st))
  | SRepeat b e l =>
    cl1_block nm flv (slv + 1) b (push l st) && cl1_exp nm flv e (tr_block flv (slv + 1) b (push l st))
  | SForNum n vl e1 e2 e3 b l =>
    let s0 := push l st in
    let s1 := tr_exp flv e1 s0 in
    let s2 := tr_exp flv e2 s1 in
    let s3 := tr_exp flv e3 s2 in
    cl1_exp nm flv e1 s0 && cl1_exp nm flv e2 s1 && cl1_exp nm flv e3 s2
    && cl1_block nm flv (slv + 1) b (add_var (mkV n vl RNone false) s3)
  | SForIn ns ls es b l =>
    let s0 := push l st in
    cl_all (map (fun e => (tr_exp flv e, cl1_exp nm flv e)) es) s0
    && cl1_block nm flv (slv + 1) b
                (add_params (combine ns ls) (apply_all (map (fun e => tr_exp flv e) es) s0))
  | SAssign vars es _ =>
    cl1_assign_loop nm flv slv
                   (map (fun v => match v with
                                  | EName n l => CName n l
                                  | EIndex p k _ =>
                                    COther (fun s => tr_exp flv k (tr_exp flv p s))
                                           (fun s => cl1_exp nm flv p s && cl1_exp nm flv k (tr_exp flv p s))
                                  | _ => COther (fun s => s) (fun _ => true)
                                  end) vars)
                   (map (fun e => (e, tr_exp flv e, cl1_exp nm flv e)) es) st
  | SLocal ns ls _ es _ =>
    cl_local_loop (map (fun e => (e, tr_exp flv e, cl1_exp nm flv e)) es) (combine ns ls) st
  | SLocalFunc n nl f _ => cl1_exp nm flv f (add_var (mkV n nl (ref_of_exp f) false) st)
  end
with cl1_block (nm : list N) (flv slv : Z) (b : block) (st : tstate) {struct b} : bool :=
  match b with
  | Block ss ret _ =>
    cl_all (map (fun s => (tr_stat flv slv s, cl1_stat nm flv slv s)) ss) st
    && match ret with
       | Some es => cl_all (map (fun e => (tr_exp flv e, cl1_exp nm flv e)) es)
                           (apply_all (map (fun s => tr_stat flv slv s) ss) st)
       | None => true
       end
  end.


Definition tr_clean1 (b : block) (n : list N) : bool := cl1_block n 0 0 b (st0 b).
