(* C20 - where and why the faithful model (Model/Patterns.v) deviates from the documented patterns
   (Spec/PatternSpec.v): site by site (node, check type, index inside the node).  Each deviation is attributed to a
   named class (the classes are the `class` fields of known_findings/C20.json); a deviation none of the known causes
   explains is CUnexplained, which is no finding class, so the check raises an alarm for it.  *)
From Coq Require Import List NArith ZArith Bool Arith.
From LH Require Import Base.Bytes Base.Res Model.Lexer Model.Ast Model.Parser Model.LuaFront Spec.PatternSpec Model.Patterns.
Import ListNotations.
Local Open Scope N_scope.

Inductive cls :=
| CUnvisited        (* pattern inside an expression the first pass never visits: `local a = 1, 2, <here>` *)
| C14Collision      (* 14 reported for different operands whose internal names coincide: "!a" == a, a["b.c"] == a.b.c *)
| C14Unnamed        (* 14 not reported: identical operands that have no internal name (literals, calls, operators, ...) *)
| C1516Nil          (* 15 / 16 not reported when the other operand is the literal nil (GetExpLoc has no NilExp case) *)
| C5IntPlace        (* 5 for an integer key is placed on the whole constructor (and several collapse into one) *)
| C5Collision       (* 5 reported for different keys whose key strings coincide: ["!a"] / [a], ["#int1"] / [1] *)
| C5Empty           (* 5 not reported for a repeated empty string key *)
| C19Else           (* 19 reported on the `else` keyword: the synthetic `true` of an else branch is compared *)
| C19NilPlace       (* 19 for a repeated `nil` condition is placed at line -1 (zero Location) *)
| C19Parens         (* 19 not reported for conditions differing only by grouping parentheses *)
| C20Parens         (* 20 not reported for `a = (a)` *)
| CLocCollision     (* two different places carry the same Loc (column defects of the lexer, property C04), so their
                       reports are one (type, Loc, message) for the de-duplication *)
| CUnexplained.

Definition cls_eqb (a b : cls) : bool :=
  match a, b with
  | CUnvisited, CUnvisited | C14Collision, C14Collision | C14Unnamed, C14Unnamed | C1516Nil, C1516Nil
  | C5IntPlace, C5IntPlace | C5Collision, C5Collision | C5Empty, C5Empty | C19Else, C19Else
  | C19NilPlace, C19NilPlace | C19Parens, C19Parens | C20Parens, C20Parens | CLocCollision, CLocCollision
  | CUnexplained, CUnexplained => true
  | _, _ => false
  end.

Definition place_eqb (a b : place) : bool := (fst a =? fst b) && loc_eqb (snd a) (snd b).
Definition places_of (rs : list report) : list place := map (fun r => (r_ty r, r_loc r)) rs.
Definition of_ty (ty : N) (ps : list place) : list place := filter (fun p => fst p =? ty) ps.
Definition subset_places (a b : list place) : bool := forallb (fun p => existsb (place_eqb p) b) a.
Definition same_places (a b : list place) : bool :=
  subset_places a b && subset_places b a && Nat.eqb (length a) (length b).

Definition is_nil (e : exp) : bool := match e with ENil _ => true | _ => false end.

(* a grouping parenthesis at the expression level *)
Fixpoint has_parens (e : exp) : bool :=
  match e with
  | EParens _ _ => true
  | EUnop _ x _ => has_parens x
  | EBinop _ a b _ => has_parens a || has_parens b
  | EIndex p k _ => has_parens p || has_parens k
  | ECall p _ args _ => has_parens p || (fix go (l : list exp) : bool :=
                                           match l with [] => false | x :: r => has_parens x || go r end) args
  | _ => false
  end.

Section Classes.
  Variable fx : fixes.
  Variable fclose : list N -> list N -> bool.

  Definition dev_binop (op : tkind) (a b : exp) (l : loc) : list cls :=
    let m := places_of (binop_checks fx fclose op a b l) in
    let s := spec_binop fclose op a b l in
    let nilcase (ty : N) :=
        let mt := of_ty ty m in
        let st := of_ty ty s in
        if same_places mt st then []
        else match mt with
             | [] => if is_nil a || is_nil b then [C1516Nil] else [CUnexplained]
             | _ => [CUnexplained]
             end in
    nilcase 15 ++ nilcase 16
    ++ (if same_places (of_ty 21 m) (of_ty 21 s) then [] else [CUnexplained])
    ++ (let mt := of_ty 14 m in
        let st := of_ty 14 s in
        if same_places mt st then []
        else match mt, st with
             | [], _ => if has_hash (exp_name a) || has_hash (exp_name b) then [C14Unnamed] else [CUnexplained]
             | _, [] => [C14Collision]
             | _, _ => [CUnexplained]
             end).

  Definition is_int_key (k : option exp) : bool := match k with Some (EInt _ _) => true | _ => false end.
  Definition is_empty_str_key (k : option exp) : bool := match k with Some (EStr [] _) => true | _ => false end.

  (* key by key: what the model reports (tabKeyMap = mseen) against what the pattern demands (sseen) *)
  Fixpoint dev_table (ks : list (option exp)) (parent : loc) (mseen : list (list N)) (sseen : list keynf) : list cls :=
    match ks with
    | [] => []
    | k :: r =>
      let mk := match k with
                | Some ke => match key_str fx ke parent with
                             | Some (key, _, l) => match key with [] => None | _ => Some (key, l) end
                             | None => None
                             end
                | None => None
                end in
      let mrep := match mk with Some (key, l) => if mem_bytes key mseen then Some l else None | None => None end in
      let mseen' := match mk with
                    | Some (key, _) => if mem_bytes key mseen then mseen else key :: mseen
                    | None => mseen
                    end in
      let snf := key_nf k in
      let srep := match snf, k with
                  | Some nf, Some ke => if existsb (keynf_eqb nf) sseen then Some (exp_loc ke) else None
                  | _, _ => None
                  end in
      let sseen' := match snf with
                    | Some nf => if existsb (keynf_eqb nf) sseen then sseen else nf :: sseen
                    | None => sseen
                    end in
      (match mrep, srep with
       | None, None => []
       | Some lm, Some ls => if loc_eqb lm ls then [] else if is_int_key k then [C5IntPlace] else [CUnexplained]
       | Some _, None => [C5Collision]
       | None, Some _ => if is_empty_str_key k then [C5Empty] else [CUnexplained]
       end) ++ dev_table r parent mseen' sseen'
    end.

  (* as sets of places: multiplicities differ only when two parameters carry the same Loc (CLocCollision below) *)
  Definition dev_params (pars : list (list N)) (plocs : list loc) : list cls :=
    let m := places_of (param_checks pars plocs) in
    let s := spec_params (combine pars plocs) [] in
    if subset_places m s && subset_places s m then [] else [CUnexplained].

  (* condition by condition; [nreal] = number of conditions written in the source, [nmod] = the number of entries of
     IfStat.Exps the code compares *)
  Fixpoint dev_if (nmod nreal : nat) (seen : list exp) (cs : list exp) (j : nat) : list cls :=
    match cs with
    | [] => []
    | c :: r =>
      let mrep := if Nat.ltb j nmod && existsb (fun c' => cmp fx fclose c' c) seen
                  then Some (get_exp_loc fx c) else None in
      let real := Nat.ltb j nreal in
      let srep := if real && existsb (fun c' => same_b fclose c' c) seen then Some (exp_loc c) else None in
      (match mrep, srep with
       | None, None => []
       | Some lm, Some ls => if loc_eqb lm ls then [] else if is_nil c then [C19NilPlace] else [CUnexplained]
       | Some _, None => if negb real then [C19Else] else [CUnexplained]
       | None, Some _ => if has_parens c || existsb has_parens seen then [C19Parens] else [CUnexplained]
       end) ++ dev_if nmod nreal (c :: seen) r (S j)
    end.

  Definition dev_assign (vars es : list exp) (l : loc) : list cls :=
    let m := places_of (assign_checks fx fclose vars es l) in
    let s := spec_assign fclose vars es l in
    (if same_places (of_ty 7 m) (of_ty 7 s) then [] else [CUnexplained])
    ++ (let mt := of_ty 20 m in
        let st := of_ty 20 s in
        if same_places mt st then []
        else match mt with
             | [] => if existsb has_parens vars || existsb has_parens es then [C20Parens] else [CUnexplained]
             | _ => [CUnexplained]
             end).

  Definition dev_local (names : list (list N)) (es : list exp) (l : loc) : list cls :=
    if same_places (places_of (local_checks names es l)) (spec_local names es l) then [] else [CUnexplained].

  Definition dev_node (elses : list loc) (visited : bool) (n : node) : list cls :=
    if visited then
      match n with
      | NE (EBinop op a b l) => dev_binop op a b l
      | NE (ETable ks _ l) => dev_table ks l [] []
      | NE (EFunc _ _ pars plocs _ _ _ _) => dev_params pars plocs
      | NS (SIf es _ _) => dev_if (length (conds_of fx elses es)) (length (real_conds elses es)) [] es 0
      | NS (SAssign vars es l) => dev_assign vars es l
      | NS (SLocal names _ _ es l) => dev_local names es l
      | _ => []
      end
    else match spec_node fclose elses n with [] => [] | _ => [CUnvisited] end.

  (* the sub-nodes with "is visited by the first pass": only the surplus expressions of a local declaration
     beyond index nNames are skipped, before C20-local-surplus (assignment targets are Name / TableAccess in an
     error-free parse) *)
  Definition children_flag (n : node) : list (node * bool) :=
    match n with
    | NS (SLocal names _ _ es _) =>
      combine (map NE es) (map (fun i => fx_surplus fx || Nat.leb i (length names)) (seq 0 (length es)))
    | _ => map (fun c => (c, true)) (children_all n)
    end.

  Fixpoint devs (fuel : nat) (elses : list loc) (visited : bool) (n : node) : list cls :=
    match fuel with
    | O => []
    | S f => dev_node elses visited n
             ++ flat_map (fun cv => devs f elses (visited && snd cv) (fst cv)) (children_flag n)
    end.

  Fixpoint nodup_cls (l : list cls) : list cls :=
    match l with
    | [] => []
    | x :: r => if existsb (cls_eqb x) r then nodup_cls r else x :: nodup_cls r
    end.

  (* the classes of a file: the known causes of its deviations, or CUnexplained alone if some deviation has none *)
  Fixpoint has_dup_place (l : list place) : bool :=
    match l with
    | [] => false
    | p :: r => existsb (place_eqb p) r || has_dup_place r
    end.
  Definition classes_of (elses : list loc) (b : block) : list cls :=
    let ds := devs (nsize (NB b)) elses true (NB b)
              ++ (if has_dup_place (demanded fclose elses b) then [CLocCollision] else []) in
    if existsb (cls_eqb CUnexplained) ds then [CUnexplained] else nodup_cls ds.

  (* IfStat.HasElse is recovered from the Locs of the `else` tokens (Model/Patterns.v, has_else): exact when the number
     of if statements that look like having an else branch is the number of `else` tokens (in an error-free file every
     `else` token belongs to exactly one if statement, and that one looks so) *)
  Definition looks_else (elses : list loc) (n : node) : bool :=
    match n with NS (SIf es _ _) => has_else elses es | _ => false end.
  Definition else_exact (elses : list loc) (b : block) : bool :=
    Nat.eqb (length (filter (looks_else elses) (subnodes (nsize (NB b)) (NB b)))) (length elses).
End Classes.

(* ------------------------------------------------------------------ the guard of the whole-file theorem
   (Proofs/PatternsFile.v, file_exact): no comparison whose operands are the same but have no internal name (the
   remaining deviation of check 14), no local declaration with two or more surplus values (unless C20-local-surplus is
   in), and the sanity of an error-free parse: operands of binary operators / conditions are no BadExpr and carry a
   Loc, assignment targets are names or table accesses *)
Definition is_bad (e : exp) : bool := match e with EBad _ => true | _ => false end.
Definition real_loc_b (e : exp) : bool := negb (is_bad e) && negb (loc_eqb (exp_loc e) zero_loc).
Definition var_like_b (e : exp) : bool := match e with EName _ _ | EIndex _ _ _ => true | _ => false end.

Definition node_guard_b (fx : fixes) (fclose : list N -> list N -> bool) (n : node) : bool :=
  match n with
  | NE (EBinop op a b _) =>
    real_loc_b a && real_loc_b b && (negb (cmp_op op && same_b fclose a b) || negb (has_hash (exp_name a)))
  | NS (SIf es _ _) => forallb (fun c => negb (is_bad c)) es
  | NS (SAssign vars _ _) => forallb var_like_b vars
  | NS (SLocal names _ _ es _) => fx_surplus fx || Nat.leb (length es) (S (length names))
  | _ => true
  end.
Definition file_guard_b (fx : fixes) (fclose : list N -> list N -> bool) (b : block) : bool :=
  forallb (node_guard_b fx fclose) (subnodes (nsize (NB b)) (NB b)).

(* ------------------------------------------------------------------ one file, from its bytes: model / spec / classes *)
Record outcome := mkOutcome {
  o_model : list report;          (* what the model of the Go code reports (= run_bytes) *)
  o_valid : bool;                 (* the file parses without any lexical or syntax error *)
  o_spec : list place;            (* what the property demands (meaningful when o_valid) *)
  o_classes : list cls;
  o_else_exact : bool;            (* the recovery of IfStat.HasElse is unambiguous (else_exact) *)
  o_guard : bool }.               (* the file passes the guard of the whole-file theorem (file_guard_b) *)

Section Check.
  Variable fx : fixes.
  Variable fclose : list N -> list N -> bool.
  Variable gbk_runes : list N -> Z.
  Variable classify : list N -> numcls.

  Definition check_bytes (bs : list N) : Res outcome :=
    do ts0 <- lex_all gbk_runes bs ;
    let ts := parser_view ts0 in
    do r <- parse_tokens classify (fuel_of_tokens ts) ts ;
    match r with
    | PR b le pe =>
      let elses := else_locs zero_tok ts in
      Ok (mkOutcome (run_block fx fclose elses b)
                    (match le, pe with [], [] => true | _, _ => false end)
                    (demanded fclose elses b)
                    (classes_of fx fclose elses b)
                    (else_exact elses b)
                    (file_guard_b fx fclose b))
    | PRTooMany => Ok (mkOutcome [] false [] [] true true)
    end.

  Lemma check_bytes_model bs :
    match check_bytes bs, run_bytes fx fclose gbk_runes classify bs with
    | Ok o, Ok m => o_model o = m
    | Fault k, Fault k' => k = k'
    | OutOfFuel, OutOfFuel => True
    | _, _ => False
    end.
  Proof.
    unfold check_bytes, run_bytes.
    destruct (lex_all gbk_runes bs) as [ts| |]; cbn [rbind]; auto.
    destruct (parse_tokens classify (fuel_of_tokens (parser_view ts)) (parser_view ts)) as [[b le pe|]| |];
      cbn [rbind o_model]; auto.
  Qed.

  (* ... and run_bytes is the shared front end (parse_bytes) followed by run_block on the parsed block *)
  Lemma run_bytes_front_end bs :
    match parse_bytes gbk_runes classify bs, run_bytes fx fclose gbk_runes classify bs with
    | Ok (PR b _ _), Ok m => exists elses, m = run_block fx fclose elses b
    | Ok PRTooMany, Ok m => m = []
    | Fault k, Fault k' => k = k'
    | OutOfFuel, OutOfFuel => True
    | _, _ => False
    end.
  Proof.
    unfold run_bytes, parse_bytes.
    destruct (lex_all gbk_runes bs) as [ts| |]; cbn [rbind]; auto.
    destruct (parse_tokens classify (fuel_of_tokens (parser_view ts)) (parser_view ts)) as [[b le pe|]| |];
      cbn [rbind]; eauto.
  Qed.
End Check.
