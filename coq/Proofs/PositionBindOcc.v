(* Position resolver = Lua's binder, part 7: every occurrence of the reference binder is an identifier mark. *)
From Coq Require Import List NArith ZArith Bool Lia.
From LH Require Import Base.Bytes Model.Lexer Model.Ast Model.Scope Model.Globals Model.Resolve Spec.LuaScope
  Proofs.PositionBindBase Proofs.PositionBindKeys Proofs.PositionBindFacts Proofs.PositionBindLook Proofs.PositionBindPos
  Proofs.PositionBindLocal Proofs.PositionBindMain.
Import ListNotations.
Local Open Scope Z_scope.

Lemma zip_incl_c {X} (cs bls : list (list X)) : length cs = length bls -> forall c, In c cs -> incl c (zip_if cs bls).
Proof.
  revert bls. induction cs as [|c0 r IH]; intros [|b0 rb] Hlen c Hc; cbn in *; try contradiction; try discriminate.
  destruct Hc as [->|Hc]; [apply incl_appl; apply incl_refl|].
  apply incl_appr. apply incl_appr. apply IH; [lia|exact Hc].
Qed.
Lemma zip_incl_b {X} (cs bls : list (list X)) : length cs = length bls -> forall b, In b bls -> incl b (zip_if cs bls).
Proof.
  revert bls. induction cs as [|c0 r IH]; intros [|b0 rb] Hlen b Hb; cbn in *; try contradiction; try discriminate.
  destruct Hb as [->|Hb]; [apply incl_appr; apply incl_appl; apply incl_refl|].
  apply incl_appr. apply incl_appr. apply IH; [lia|exact Hb].
Qed.

Lemma assign_incl vars es l x : In x (vars ++ es) -> incl (m2_exp x) (m2_stat (SAssign vars es l)).
Proof.
  intros Hx.
  assert (Hgen : incl (m2_exp x) (flat_map m2_exp vars ++ flat_map m2_exp es)).
  { apply in_app_or in Hx. destruct Hx as [Hx|Hx]; [apply incl_appl|apply incl_appr]; apply incl_flat_map_in; exact Hx. }
  cbn [m2_stat].
  destruct vars as [|v0 [|v1 vr]]; try exact Hgen; destruct v0; try exact Hgen;
    destruct es as [|e0 [|e1 er]]; try exact Hgen; destruct e0; try exact Hgen; destruct fname; try exact Hgen.
  cbn [app] in Hx. destruct Hx as [<-|[<-|[]]]; cbn [m2_exp].
  - intros m Hm. right. apply in_or_app. left. exact Hm.
  - intros m [Hm|Hm]; [left; exact Hm|right]. apply in_or_app. right. exact Hm.
Qed.

Definition Me (e : exp) : Prop := forall flv slv reg en o, In o (b_exp flv slv reg e en) -> idm (s_loc o) (m2_exp e).
Definition Ms (s : stat) : Prop := forall flv slv reg en o, In o (snd (b_stat flv slv reg s en)) -> idm (s_loc o) (m2_stat s).
Definition Mb (b : block) : Prop := forall flv slv reg en o, In o (snd (b_block flv slv reg b en)) -> idm (s_loc o) (m2_block b).

Lemma Me_list es : Forall Me es -> forall flv slv reg en o,
  In o (flat_map (fun e => b_exp flv slv reg e en) es) -> idm (s_loc o) (flat_map m2_exp es).
Proof.
  intros H flv slv reg en o Hin. apply in_flat_map in Hin. destruct Hin as (e & He & Ho).
  rewrite Forall_forall in H. eapply idm_mono; [apply (incl_flat_map_in m2_exp es e He)|eapply H; eauto].
Qed.

Lemma decl_idm en flv slv reg b (ns : list (list N)) (ls : list loc) p lp :
  In (p, lp) (combine ns ls) -> idm (s_loc (decl_occ en flv slv reg b (p, lp))) (flat_map id_marks ls).
Proof. intros H. cbn. apply in_combine_r in H. eapply idm_mono; [apply (incl_flat_map_in id_marks ls lp H)|apply id_marks_idm]. Qed.

Lemma occ_marks : (forall e, core_e e -> Me e) /\ (forall s, core_s s -> Ms s) /\ (forall b, core_b b -> Mb b).
Proof.
  apply core_ind3.
  - intros e Ha _ flv slv reg en o Hin. destruct e; try contradiction; cbn [b_exp] in Hin; try contradiction.
    destruct Hin as [<-|[]]. apply id_marks_idm.
  - intros o x l _ IH. exact IH.
  - intros o a b l _ _ IHa IHb flv slv reg en o0 Hin. cbn [b_exp m2_exp] in *. apply in_app_or in Hin.
    destruct Hin as [Hin|Hin]; [eapply idm_mono; [apply incl_appl; apply incl_refl|eapply IHa; eauto]
                               |eapply idm_mono; [apply incl_appr; apply incl_refl|eapply IHb; eauto]].
  - intros x l _ IH. exact IH.
  - intros na ln args l _ _ IH flv slv reg en o Hin. cbn [b_exp m2_exp app] in *. destruct Hin as [<-|Hin].
    + cbn [s_loc]. split; [right; left; reflexivity|right; right; left; reflexivity].
    + eapply idm_mono; [|eapply Me_list; eauto]. intros m Hm. right. apply in_or_app. right. apply in_or_app. left. exact Hm.
  - intros f ps pls b l va _ _ IH flv slv reg en o Hin. cbn [b_exp m2_exp] in *. apply in_app_or in Hin. destruct Hin as [Hin|Hin].
    + apply in_map_iff in Hin. destruct Hin as ([p lp] & <- & Hin).
      eapply idm_mono; [|eapply decl_idm; eauto]. intros m Hm. right. apply in_or_app. left. exact Hm.
    + eapply idm_mono; [|eapply IH; eauto]. intros m Hm. right. apply in_or_app. right. apply in_or_app. left. exact Hm.
  - intros flv slv reg en o [].
  - intros b l _ IH flv slv reg en o Hin. cbn [b_stat snd m2_stat] in *.
    eapply idm_mono; [|eapply IH; eauto]. intros m Hm. right. apply in_or_app. left. exact Hm.
  - intros na ln args l _ IH. exact IH.
  - intros es bs l Hlen _ _ IHe IHb flv slv reg en o Hin. cbn [b_stat snd m2_stat] in *. apply in_app_or in Hin.
    rewrite Forall_forall in IHe, IHb. destruct Hin as [Hin|Hin]; apply in_flat_map in Hin; destruct Hin as (x & Hx & Ho).
    + eapply idm_mono; [|eapply IHe; eauto]. apply zip_incl_c; [rewrite !map_length; exact Hlen|apply in_map; exact Hx].
    + eapply idm_mono; [|eapply IHb; eauto].
      intros m Hm. apply (zip_incl_b (map m2_exp es) (map (fun b => MOpen (block_loc b) :: m2_block b ++ [MClose (block_loc b)]) bs)
                            ltac:(rewrite !map_length; exact Hlen) (MOpen (block_loc x) :: m2_block x ++ [MClose (block_loc x)])).
      * apply (in_map (fun b => MOpen (block_loc b) :: m2_block b ++ [MClose (block_loc b)])). exact Hx.
      * right. apply in_or_app. left. exact Hm.
  - intros e b l _ _ IHe IHb flv slv reg en o Hin. cbn [b_stat snd m2_stat] in *. apply in_app_or in Hin. destruct Hin as [Hin|Hin].
    + eapply idm_mono; [|eapply IHe; eauto]. intros m Hm. right. apply in_or_app. left. exact Hm.
    + eapply idm_mono; [|eapply IHb; eauto]. intros m Hm. right. apply in_or_app. right. apply in_or_app. left. exact Hm.
  - intros b e l _ _ IHb IHe flv slv reg en o Hin. cbn [b_stat m2_stat] in *.
    destruct (b_block flv (slv + 1) l b en) as [en1 os] eqn:Eb. cbn [snd] in Hin. apply in_app_or in Hin. destruct Hin as [Hin|Hin].
    + eapply idm_mono; [|eapply (IHb flv (slv + 1) l en); rewrite Eb; exact Hin]. intros m Hm. right. apply in_or_app. left. exact Hm.
    + eapply idm_mono; [|eapply IHe; eauto]. intros m Hm. right. apply in_or_app. right. apply in_or_app. left. exact Hm.
  - intros n0 vl e1 e2 e3 b l _ _ _ _ _ IH1 IH2 IH3 IHb flv slv reg en o Hin. cbn [b_stat snd m2_stat] in *.
    apply in_app_or in Hin. destruct Hin as [Hin|[<-|Hin]].
    + apply in_tag_if in Hin. destruct Hin as (o0 & Hin & (Hl & _) & _). rewrite Hl.
      apply in_app_or in Hin. destruct Hin as [Hin|Hin]; [|apply in_app_or in Hin; destruct Hin as [Hin|Hin]].
      * eapply idm_mono; [|eapply IH1; eauto]. intros m Hm. right. apply in_or_app. right. apply in_or_app. left. exact Hm.
      * eapply idm_mono; [|eapply IH2; eauto]. intros m Hm. right. do 2 (apply in_or_app; right). apply in_or_app. left. exact Hm.
      * eapply idm_mono; [|eapply IH3; eauto]. intros m Hm. right. do 3 (apply in_or_app; right). apply in_or_app. left. exact Hm.
    + cbn [s_loc decl_occ snd]. split; right; apply in_or_app; left; [left; reflexivity|right; left; reflexivity].
    + eapply idm_mono; [|eapply IHb; eauto]. intros m Hm. right. do 4 (apply in_or_app; right). apply in_or_app. left. exact Hm.
  - intros ns ls es b l _ _ _ IHe IHb flv slv reg en o Hin. cbn [b_stat snd m2_stat] in *.
    apply in_app_or in Hin. destruct Hin as [Hin|Hin]; [|apply in_app_or in Hin; destruct Hin as [Hin|Hin]].
    + apply in_tag_if in Hin. destruct Hin as (o0 & Hin & (Hl & _) & _). rewrite Hl.
      eapply idm_mono; [|eapply Me_list; eauto]. intros m Hm. right. apply in_or_app. right. apply in_or_app. left. exact Hm.
    + apply in_map_iff in Hin. destruct Hin as ([p lp] & <- & Hin).
      eapply idm_mono; [|eapply decl_idm; eauto]. intros m Hm. right. apply in_or_app. left. exact Hm.
    + eapply idm_mono; [|eapply IHb; eauto]. intros m Hm. right. do 2 (apply in_or_app; right). apply in_or_app. left. exact Hm.
  - intros vars es l Hv _ IHe flv slv reg en o Hin.
    destruct (in_b_assign flv slv reg vars es l en o Hv Hin) as [(n0 & ln & Hvin & (Hl & _))|(e & o0 & He & Ho0 & (Hl & _))]; rewrite Hl.
    + cbn [s_loc]. eapply idm_mono; [apply (assign_incl vars es l (EName n0 ln)); apply in_or_app; left; exact Hvin|apply id_marks_idm].
    + rewrite Forall_forall in IHe. eapply idm_mono; [apply (assign_incl vars es l e); apply in_or_app; right; exact He|eapply IHe; eauto].
  - intros ns ls at_ es l _ _ _ IHe flv slv reg en o Hin.
    destruct (in_b_local flv slv reg ns ls at_ es l en o Hin) as [(i & e & o0 & Hnth & Ho0 & (Hl & _))|((nm & lx) & bb & Hnl & ->)].
    + rewrite Hl. cbn [m2_stat]. rewrite Forall_forall in IHe. pose proof (nth_error_In _ _ Hnth) as He.
      eapply idm_mono; [|eapply IHe; eauto]. apply incl_appr.
      eapply incl_tran; [apply incl_flat_map_in; exact He|apply incl_region_marks].
    + cbn [m2_stat]. apply in_combine_l in Hnl. eapply idm_mono; [apply incl_appl; apply incl_refl|eapply decl_idm; eauto].
  - intros n0 nl f ps pls b lf va l _ _ IH flv slv reg en o Hin. cbn [b_stat snd] in Hin. destruct Hin as [<-|Hin].
    + cbn [s_loc decl_occ snd m2_stat]. split; right; apply in_or_app; left; [left; reflexivity|right; left; reflexivity].
    + pose proof (IH _ _ _ _ _ Hin) as H. cbn [m2_stat]. cbn [m2_exp] in H. eapply idm_mono; [|exact H].
      intros m [Hm|Hm]; [left; exact Hm|right]. apply in_or_app. right. exact Hm.
  - intros ss ret l _ IHs _ IHr flv slv reg en o Hin. rewrite b_block_snd in Hin. cbn [m2_block].
    assert (EM : match ret with Some es => flat_map m2_exp es | None => [] end = flat_map m2_exp (ret_exps ret))
      by (destruct ret; reflexivity).
    rewrite EM. apply in_app_or in Hin. destruct Hin as [Hin|Hin].
    + destruct (in_seq_stats _ o en Hin) as (pre & f & post & Emap & Ho).
      apply map_eq_app in Emap. destruct Emap as (ss1 & l2 & Ess & Epre & El2).
      apply map_eq_cons in El2. destruct El2 as (s & ss2 & El2 & Ef & Epost). subst.
      rewrite Forall_forall in IHs.
      eapply idm_mono; [|eapply (IHs s); [apply in_or_app; right; left; reflexivity|exact Ho]].
      apply incl_appl. apply incl_flat_map_in. apply in_or_app. right. left. reflexivity.
    + eapply idm_mono; [apply incl_appr; apply incl_refl|eapply Me_list; eauto].
Qed.
