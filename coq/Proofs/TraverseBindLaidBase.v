(* Traversal resolver, layout part 0: from `Laid` (Spec/LuaScope.v: the boundary marks in textual order have
   non-decreasing keys line*W+column, identifiers are non-empty, on one line, columns in [0,W)) to IsCorrectPosition.
   - keys vs the (line, column) comparisons of IsBeforeLoc / IsContainLoc;
   - `chain a ms b`: the marks ms are sorted and lie in [a, b];
   - `PosOK v a b`: the variable v is accepted by IsCorrectPosition at every identifier lying in [a, b];
   - `EvoVar` / `Born`: what re-pointing and declaring inside [a, b] may do to the variables. *)
From Coq Require Import List NArith ZArith Bool Lia.
From LH Require Import Base.Bytes Model.Lexer Model.Ast Model.Scope Spec.LuaScope Proofs.TraverseBindDefs.
Import ListNotations.
Local Open Scope Z_scope.

Ltac zb :=
  rewrite ?Z.gtb_ltb;
  repeat match goal with
         | |- context [Z.ltb ?a ?b] => destruct (Z.ltb_spec a b)
         | |- context [Z.leb ?a ?b] => destruct (Z.leb_spec a b)
         | |- context [Z.eqb ?a ?b] => destruct (Z.eqb_spec a b)
         end; cbn [andb orb negb]; try reflexivity; try lia.

Section Layout.
  Variable W : Z.
  Hypothesis HW : 0 < W.

  Lemma key_le_lex l1 c1 l2 c2 :
    0 <= c1 < W -> 0 <= c2 < W -> key W l1 c1 <= key W l2 c2 -> l1 < l2 \/ (l1 = l2 /\ c1 <= c2).
  Proof.
    unfold key. intros H1 H2 H. destruct (Z.lt_trichotomy l1 l2) as [Hl|[Hl|Hl]].
    - left. exact Hl.
    - right. subst. split; [reflexivity|lia].
    - exfalso. assert ((l2 + 1) * W <= l1 * W) by (apply Z.mul_le_mono_nonneg_r; lia). lia.
  Qed.

  Lemma key_lt_lex l1 c1 l2 c2 :
    0 <= c1 < W -> 0 <= c2 < W -> key W l1 c1 < key W l2 c2 -> l1 < l2 \/ (l1 = l2 /\ c1 < c2).
  Proof.
    unfold key. intros H1 H2 H. destruct (Z.lt_trichotomy l1 l2) as [Hl|[Hl|Hl]].
    - left. exact Hl.
    - right. subst. split; [reflexivity|lia].
    - exfalso. assert ((l2 + 1) * W <= l1 * W) by (apply Z.mul_le_mono_nonneg_r; lia). lia.
  Qed.

  Definition colok (l : loc) : Prop := 0 <= sc l < W /\ 0 <= ec l < W.
  Lemma col_ok_colok l : col_ok W l = true -> colok l.
  Proof.
    unfold col_ok, colok. intros H. repeat (apply andb_true_iff in H; destruct H as [H ?]).
    apply Z.leb_le in H. apply Z.ltb_lt in H2. apply Z.leb_le in H1. apply Z.ltb_lt in H0. lia.
  Qed.

  (* an identifier occurrence *)
  Definition idok (l : loc) : Prop := sl l = el l /\ sc l < ec l /\ colok l.
  Lemma mark_ok_idok l : mark_ok W (MIdS l) = true -> idok l.
  Proof.
    cbn. intros H. apply andb_true_iff in H. destruct H as [H Hc]. apply andb_true_iff in H. destruct H as [H1 H2].
    apply Z.eqb_eq in H1. apply Z.ltb_lt in H2. split; [exact H1|split; [exact H2|apply col_ok_colok; exact Hc]].
  Qed.
  Lemma idok_lt l : idok l -> lo W l < hi W l.
  Proof. intros [H1 [H2 _]]. unfold lo, hi, key. rewrite H1. lia. Qed.

  Lemma before_ok vl l : 0 <= sc vl < W -> idok l -> lo W vl <= lo W l -> loc_before vl l = true.
  Proof.
    intros Hv [_ [_ [Hc _]]] H. unfold lo in H. destruct (key_le_lex _ _ _ _ Hv Hc H) as [Hl|[Hl Hcc]];
      unfold loc_before; zb.
  Qed.

  Lemma not_contains_before rl l : colok rl -> idok l -> hi W rl <= lo W l -> loc_contains rl l = false.
  Proof.
    intros [_ Hr] Hl H. pose proof (idok_lt l Hl) as Hlt. destruct Hl as [Hs [_ [_ Hc]]].
    assert (Hk : key W (el rl) (ec rl) < key W (el l) (ec l)) by (unfold hi, lo in *; lia).
    destruct (key_lt_lex _ _ _ _ Hr Hc Hk) as [Hlt'|[Heq Hcc]]; unfold loc_contains; zb.
  Qed.

  Lemma not_contains_after rl l : colok rl -> idok l -> hi W l <= lo W rl -> loc_contains rl l = false.
  Proof.
    intros [Hr _] Hl H. pose proof (idok_lt l Hl) as Hlt. destruct Hl as [Hs [_ [Hc _]]].
    assert (Hk : key W (sl l) (sc l) < key W (sl rl) (sc rl)) by (unfold hi, lo in *; lia).
    destruct (key_lt_lex _ _ _ _ Hc Hr Hk) as [Hlt'|[Heq Hcc]]; unfold loc_contains; zb.
  Qed.

  Lemma contains_ok fl nl : colok fl -> idok nl -> lo W fl <= lo W nl -> hi W nl <= hi W fl -> loc_contains fl nl = true.
  Proof.
    intros [Hf1 Hf2] [Hs [_ [Hc1 Hc2]]] H1 H2. unfold lo, hi in *.
    destruct (key_le_lex _ _ _ _ Hf1 Hc1 H1) as [A|[A A']];
      destruct (key_le_lex _ _ _ _ Hc2 Hf2 H2) as [B|[B B']]; unfold loc_contains; zb.
  Qed.

  (* ------------------------------------------------------------------ sorted marks within bounds *)
  Fixpoint chain (a : Z) (ms : list mark) (b : Z) {struct ms} : Prop :=
    match ms with
    | [] => a <= b
    | m :: r => a <= mark_key W m /\ mark_ok W m = true /\ chain (mark_key W m) r b
    end.

  Lemma chain_le : forall ms a b, chain a ms b -> a <= b.
  Proof. induction ms as [|m r IH]; intros a b H; [exact H|]. destruct H as [H1 [_ H2]]. apply IH in H2. lia. Qed.

  Lemma chain_widen : forall ms a a' b b', chain a ms b -> a' <= a -> b <= b' -> chain a' ms b'.
  Proof.
    induction ms as [|m r IH]; intros a a' b b' H Ha Hb; cbn in *; [lia|].
    destruct H as [H1 [H2 H3]]. repeat split; [lia|exact H2|]. apply (IH _ _ _ _ H3); lia.
  Qed.

  Lemma chain_app : forall x y a b, chain a (x ++ y) b -> exists c, chain a x c /\ chain c y b.
  Proof.
    induction x as [|m r IH]; intros y a b H.
    - exists a. split; [cbn; lia|exact H].
    - cbn in H. destruct H as [H1 [H2 H3]]. destruct (IH _ _ _ H3) as [c [C1 C2]].
      exists c. split; [cbn; repeat split; assumption|exact C2].
  Qed.

  Lemma chain_cons m r a b : chain a (m :: r) b -> a <= mark_key W m /\ mark_ok W m = true /\ chain (mark_key W m) r b.
  Proof. intros H. exact H. Qed.

  (* MOpen l :: mid ++ [MClose l] *)
  Lemma chain_region l mid a b :
    chain a (MOpen l :: mid ++ [MClose l]) b ->
    colok l /\ a <= lo W l /\ hi W l <= b /\ chain (lo W l) mid (hi W l).
  Proof.
    intros H. destruct H as [H1 [H2 H3]]. cbn [mark_key mark_ok] in *.
    destruct (chain_app _ _ _ _ H3) as [c [C1 C2]]. destruct C2 as [D1 [_ D2]]. cbn [mark_key chain] in *.
    split; [apply col_ok_colok; exact H2|]. split; [exact H1|]. split; [exact D2|].
    apply (chain_widen _ _ _ _ _ C1); lia.
  Qed.

  Lemma chain_id l r a b : chain a (id_marks l ++ r) b -> idok l /\ a <= lo W l /\ chain (hi W l) r b.
  Proof.
    intros H. cbn in H. destruct H as [H1 [H2 [H3 [_ H4]]]].
    split; [apply mark_ok_idok; exact H2|]. split; [exact H1|exact H4].
  Qed.

  (* the identifiers of a list of declared names *)
  Lemma chain_ids : forall ls a b, chain a (flat_map id_marks ls) b ->
    forall l, In l ls -> idok l /\ a <= lo W l /\ hi W l <= b.
  Proof.
    induction ls as [|x r IH]; intros a b H l Hin; [destruct Hin|].
    cbn [flat_map] in H. destruct (chain_id _ _ _ _ H) as [A1 [A2 A3]].
    destruct Hin as [->|Hin].
    - split; [exact A1|]. split; [exact A2|apply chain_le in A3; exact A3].
    - destruct (IH _ _ A3 l Hin) as [B1 [B2 B3]]. split; [exact B1|]. split; [|exact B3].
      pose proof (idok_lt x A1). lia.
  Qed.

  (* ------------------------------------------------------------------ variables accepted inside [a, b] *)
  Definition Out (rl : loc) (a b : Z) : Prop := colok rl /\ (hi W rl <= a \/ b <= lo W rl).
  Definition RefOK (r : refexp) (vl : loc) (a b : Z) : Prop :=
    match r with
    | RNone => True
    | RFunc fl => loc_contains fl vl = true \/ Out fl a b
    | RName rl | RCall rl => Out rl a b
    end.
  (* the initialiser list of the declaring statement lies before a (the variable was added after it) *)
  Definition InitOK (v : ventry) (a : Z) : Prop :=
    match v_init v with Some il => colok il /\ hi W il <= a | None => True end.
  Definition PosOK (v : ventry) (a b : Z) : Prop :=
    lo W (v_loc v) <= a /\ 0 <= sc (v_loc v) < W /\ (RefOK (v_ref v) (v_loc v) a b /\ InitOK v a).

  Lemma out_not_contains rl l a b : Out rl a b -> idok l -> a <= lo W l -> hi W l <= b -> loc_contains rl l = false.
  Proof.
    intros [Hc [H|H]] Hl Ha Hb.
    - apply not_contains_before; auto. lia.
    - apply not_contains_after; auto. lia.
  Qed.

  Lemma icp_clean v l a b : PosOK v a b -> idok l -> a <= lo W l -> hi W l <= b -> is_correct_position v l = true.
  Proof.
    intros [H1 [H2 [H3 H4]]] Hl Ha Hb. unfold is_correct_position.
    rewrite (before_ok (v_loc v) l H2 Hl) by lia. cbn [negb].
    assert (Hih : init_hides v l = false).
    { unfold init_hides. unfold InitOK in H4. destruct (v_init v) as [il|]; [|reflexivity].
      destruct H4 as [Hc Hh]. rewrite (not_contains_before il l Hc Hl) by lia. reflexivity. }
    rewrite Hih.
    destruct (v_ref v) as [|fl|rl|rl]; cbn [RefOK] in H3.
    - reflexivity.
    - destruct H3 as [H3|H3]; [rewrite H3; reflexivity|].
      rewrite (out_not_contains fl l a b H3 Hl Ha Hb). destruct (loc_contains fl (v_loc v)); reflexivity.
    - rewrite (out_not_contains rl l a b H3 Hl Ha Hb). reflexivity.
    - rewrite (out_not_contains rl l a b H3 Hl Ha Hb). reflexivity.
  Qed.

  Definition G (vss : list (list ventry)) (a b : Z) : Prop := Forall (Forall (fun v => PosOK v a b)) vss.

  Lemma PosOK_sub v A B a b : PosOK v A B -> A <= a -> b <= B -> PosOK v a b.
  Proof.
    intros [H1 [H2 [H3 H4]]] Ha Hb. split; [lia|]. split; [lia|]. split.
    - destruct (v_ref v) as [|fl|rl|rl]; cbn [RefOK] in *; auto.
      + destruct H3 as [H3|[Hc H3]]; [left; exact H3|right; split; [exact Hc|lia]].
      + destruct H3 as [Hc H3]. split; [exact Hc|lia].
      + destruct H3 as [Hc H3]. split; [exact Hc|lia].
    - unfold InitOK in *. destruct (v_init v) as [il|]; [|exact I]. destruct H4 as [Hc Hh]. split; [exact Hc|lia].
  Qed.

  Lemma G_sub vss A B a b : G vss A B -> A <= a -> b <= B -> G vss a b.
  Proof.
    intros H Ha Hb. unfold G in *. eapply Forall_impl; [|exact H]. intros vs Hvs.
    eapply Forall_impl; [|exact Hvs]. intros v Hv. exact (PosOK_sub v A B a b Hv Ha Hb).
  Qed.

  Lemma G_clean vss n l a b :
    G vss a b -> idok l -> a <= lo W l -> hi W l <= b ->
    match find (name_is n) (concat vss) with Some v => is_correct_position v l | None => true end = true.
  Proof.
    intros Hg Hl Ha Hb. destruct (find (name_is n) (concat vss)) as [v|] eqn:E; [|reflexivity].
    apply find_some in E. destruct E as [Hin _]. apply in_concat in Hin. destruct Hin as [vs [Hvs Hv]].
    unfold G in Hg. rewrite Forall_forall in Hg. specialize (Hg vs Hvs). rewrite Forall_forall in Hg.
    eapply icp_clean; eauto.
  Qed.

  (* ------------------------------------------------------------------ evolution of the variables *)
  Definition InReg (r : refexp) (a b : Z) : Prop :=
    match r with
    | RNone => True
    | RFunc rl | RName rl | RCall rl => colok rl /\ a <= lo W rl /\ hi W rl <= b
    end.

  Definition EvoVar (a b : Z) (v v' : ventry) : Prop :=
    (v_loc v' = v_loc v /\ v_init v' = v_init v) /\ (v_ref v' = v_ref v \/ InReg (v_ref v') a b).

  Lemma EvoVar_refl a b v : EvoVar a b v v.
  Proof. split; [split; reflexivity|left; reflexivity]. Qed.

  Lemma InReg_widen r a b a' b' : InReg r a b -> a' <= a -> b <= b' -> InReg r a' b'.
  Proof. destruct r; cbn; auto; intros [H1 [H2 H3]] Ha Hb; repeat split; try apply H1; lia. Qed.

  Lemma EvoVar_widen a b a' b' v v' : EvoVar a b v v' -> a' <= a -> b <= b' -> EvoVar a' b' v v'.
  Proof. intros [H1 H2] Ha Hb. split; [exact H1|]. destruct H2 as [H2|H2]; [left; exact H2|right]. eapply InReg_widen; eauto. Qed.

  Lemma EvoVar_trans a b v1 v2 v3 : EvoVar a b v1 v2 -> EvoVar a b v2 v3 -> EvoVar a b v1 v3.
  Proof.
    intros [[A1 A0] A2] [[B1 B0] B2]. split; [split; congruence|]. destruct B2 as [B2|B2]; [|right; exact B2].
    rewrite B2. exact A2.
  Qed.

  (* a re-pointed variable is still accepted in a disjoint interval *)
  Lemma PosOK_evo v v' a b a' b' :
    PosOK v a' b' -> EvoVar a b v v' -> (b <= a' \/ b' <= a) -> PosOK v' a' b'.
  Proof.
    intros [H1 [H2 [H3 H4]]] [[E1 E0] E2] Hd. unfold PosOK. rewrite E1. split; [lia|]. split; [lia|]. split.
    - destruct E2 as [E2|E2]; [rewrite E2; exact H3|].
      destruct (v_ref v') as [|fl|rl|rl]; cbn [RefOK InReg] in *; auto.
      + right. destruct E2 as [Hc [Ea Eb]]. split; [exact Hc|lia].
      + destruct E2 as [Hc [Ea Eb]]. split; [exact Hc|lia].
      + destruct E2 as [Hc [Ea Eb]]. split; [exact Hc|lia].
    - unfold InitOK in *. rewrite E0. exact H4.
  Qed.

  Definition Evo (a b : Z) (vss vss' : list (list ventry)) : Prop := Forall2 (Forall2 (EvoVar a b)) vss vss'.

  Lemma Forall2_refl {A} (R : A -> A -> Prop) l : (forall x, R x x) -> Forall2 R l l.
  Proof. intros H. induction l; constructor; auto. Qed.
  Lemma Forall2_trans {A} (R : A -> A -> Prop) l1 l2 l3 :
    (forall x y z, R x y -> R y z -> R x z) -> Forall2 R l1 l2 -> Forall2 R l2 l3 -> Forall2 R l1 l3.
  Proof.
    intros Ht H. revert l3. induction H; intros l3 H3; inversion H3; subst; constructor; eauto.
  Qed.
  Lemma Forall2_imp {A B} (R R' : A -> B -> Prop) l1 l2 :
    (forall x y, R x y -> R' x y) -> Forall2 R l1 l2 -> Forall2 R' l1 l2.
  Proof. intros Hi H. induction H; constructor; auto. Qed.

  Lemma Evo_refl a b vss : Evo a b vss vss.
  Proof. apply Forall2_refl. intros vs. apply Forall2_refl. apply EvoVar_refl. Qed.
  Lemma Evo_trans a b v1 v2 v3 : Evo a b v1 v2 -> Evo a b v2 v3 -> Evo a b v1 v3.
  Proof.
    apply Forall2_trans. intros x y z. apply Forall2_trans. apply EvoVar_trans.
  Qed.
  Lemma Evo_widen a b a' b' v1 v2 : Evo a b v1 v2 -> a' <= a -> b <= b' -> Evo a' b' v1 v2.
  Proof.
    intros H Ha Hb. eapply Forall2_imp; [|exact H]. intros x y Hxy. eapply Forall2_imp; [|exact Hxy].
    intros v v' Hv. exact (EvoVar_widen a b a' b' v v' Hv Ha Hb).
  Qed.

  Lemma Forall_Forall2_evo (P Q : ventry -> Prop) (R : ventry -> ventry -> Prop) vs vs' :
    (forall v v', P v -> R v v' -> Q v') -> Forall P vs -> Forall2 R vs vs' -> Forall Q vs'.
  Proof.
    intros Hi Hp Hr. induction Hr; [constructor|]. inversion Hp; subst. constructor; eauto.
  Qed.

  Lemma G_evo vss vss' a b a' b' : G vss a' b' -> Evo a b vss vss' -> (b <= a' \/ b' <= a) -> G vss' a' b'.
  Proof.
    intros Hg He Hd. unfold G, Evo in *. induction He as [|vs vs' r r' Hv Hr IH]; [constructor|].
    inversion Hg; subst. constructor; [|apply IH; assumption].
    eapply Forall_Forall2_evo; [|eassumption|exact Hv]. intros v v' Hp Hev.
    exact (PosOK_evo v v' a b a' b' Hp Hev Hd).
  Qed.

  (* a variable declared inside [A, B] *)
  Definition Born (A B : Z) (v : ventry) : Prop :=
    lo W (v_loc v) <= B /\ 0 <= sc (v_loc v) < W /\
    (match v_ref v with
     | RNone => True
     | RFunc fl => loc_contains fl (v_loc v) = true \/ InReg (RFunc fl) A B
     | r => InReg r A B
     end /\ InitOK v B).

  Lemma Born_PosOK A B v a b : Born A B v -> B <= a -> PosOK v a b.
  Proof.
    intros [H1 [H2 [H3 H4]]] Ha. split; [lia|]. split; [lia|]. split.
    - destruct (v_ref v) as [|fl|rl|rl]; cbn [RefOK InReg] in *; auto.
      + destruct H3 as [H3|[Hc [_ H3]]]; [left; exact H3|right; split; [exact Hc|lia]].
      + destruct H3 as [Hc [_ H3]]. split; [exact Hc|lia].
      + destruct H3 as [Hc [_ H3]]. split; [exact Hc|lia].
    - unfold InitOK in *. destruct (v_init v) as [il|]; [|exact I]. destruct H4 as [Hc Hh]. split; [exact Hc|lia].
  Qed.

  Lemma Born_widen A B A' B' v : Born A B v -> A' <= A -> B <= B' -> Born A' B' v.
  Proof.
    intros [H1 [H2 [H3 H4]]] Ha Hb. split; [lia|]. split; [lia|]. split.
    - destruct (v_ref v) as [|fl|rl|rl]; auto.
      + destruct H3 as [H3|H3]; [left; exact H3|right; eapply InReg_widen; eauto].
      + eapply InReg_widen; eauto.
      + eapply InReg_widen; eauto.
    - unfold InitOK in *. destruct (v_init v) as [il|]; [|exact I]. destruct H4 as [Hc Hh]. split; [exact Hc|lia].
  Qed.

  (* statement level: the innermost frame gains declarations *)
  Definition EvoS (A B : Z) (vss vss' : list (list ventry)) : Prop :=
    match vss, vss' with
    | vs :: r, vs' :: r' =>
      exists news olds, vs' = news ++ olds /\ Forall2 (EvoVar A B) vs olds /\ Forall (Born A B) news /\ Evo A B r r'
    | _, _ => False
    end.

  Lemma Evo_EvoS A B vs r vss' : Evo A B (vs :: r) vss' -> EvoS A B (vs :: r) vss'.
  Proof.
    intros H. inversion H as [|? vs' ? r' Hv Hr]; subst. cbn. exists [], vs'. repeat split; auto.
  Qed.

  Lemma EvoS_trans A B v1 v2 v3 : EvoS A B v1 v2 -> EvoS A B v2 v3 -> EvoS A B v1 v3.
  Proof.
    destruct v1 as [|x1 r1]; [contradiction|]. destruct v2 as [|x2 r2]; [contradiction|].
    destruct v3 as [|x3 r3]; [intros _ []|].
    intros [n1 [o1 [E1 [F1 [B1 R1]]]]] [n2 [o2 [E2 [F2 [B2 R2]]]]]. subst x2.
    apply Forall2_app_inv_l in F2. destruct F2 as [o2a [o2b [Fa [Fb Eo]]]]. subst o2.
    exists (n2 ++ o2a), o2b. repeat split.
    - rewrite E2, app_assoc. reflexivity.
    - eapply Forall2_trans; [apply EvoVar_trans|exact F1|exact Fb].
    - apply Forall_app. split; [exact B2|].
      eapply Forall_Forall2_evo; [|exact B1|exact Fa].
      intros v v' [H1 [H2 [H3 H4]]] [[E1 E0] E2']. unfold Born. rewrite E1. split; [lia|]. split; [lia|]. split.
      * destruct E2' as [E2'|E2'].
        -- rewrite E2'. destruct (v_ref v); auto.
        -- destruct (v_ref v') as [|fl|rl|rl]; auto; try (right; exact E2').
      * unfold InitOK in *. rewrite E0. exact H4.
    - eapply Evo_trans; eassumption.
  Qed.

  Lemma EvoS_widen A B A' B' v1 v2 : EvoS A B v1 v2 -> A' <= A -> B <= B' -> EvoS A' B' v1 v2.
  Proof.
    destruct v1 as [|x1 r1]; [contradiction|]. destruct v2 as [|x2 r2]; [contradiction|].
    intros [n [o [E [F [Bn R]]]]] Ha Hb. exists n, o. repeat split; auto.
    - eapply Forall2_imp; [|exact F]. intros v v' Hv. exact (EvoVar_widen A B A' B' v v' Hv Ha Hb).
    - eapply Forall_impl; [|exact Bn]. intros v Hv. exact (Born_widen A B A' B' v Hv Ha Hb).
    - exact (Evo_widen A B A' B' _ _ R Ha Hb).
  Qed.

  (* after a statement in [a, c], the state is good for what follows in [c, b] *)
  Lemma G_evoS_fwd vss vss' a c b : G vss c b -> EvoS a c vss vss' -> G vss' c b.
  Proof.
    destruct vss as [|vs r]; [intros _ []|]. destruct vss' as [|vs' r']; [intros _ []|].
    intros Hg [n [o [E [F [Bn R]]]]]. unfold G in *. inversion Hg as [|? ? Hvs Hr]; subst.
    constructor.
    - apply Forall_app. split.
      + eapply Forall_impl; [|exact Bn]. intros v Hv. eapply Born_PosOK; [exact Hv|lia].
      + eapply Forall_Forall2_evo; [|exact Hvs|exact F]. intros v v' Hp Hev.
        apply (PosOK_evo v v' a c c b Hp Hev). left. lia.
    - apply (G_evo r r' a c c b Hr R). left. lia.
  Qed.
End Layout.
