(* C03, lexical level: the manual's escape sequences (EscLua) against the ones the code accepts (EscCode).
   - lex_lua_code : every text that is lexically valid with the manual's escapes is valid with the code's (same tokens);
   - lex_code_lua : conversely when no_bad_escape holds of the text;
   - lex_fx_lua / lex_lua_fx : the grammar with the escapes the REPAIRED code accepts silently (EscFx true) is the manual's
     grammar, no guard; lex_fx_code / lex_code_fx : with EscFx false it is the grammar with the code's old escapes.
   Pure facts about Spec/LuaLex.v; the model is not involved. *)
From Coq Require Import List NArith ZArith Bool Arith Lia ZifyNat ZifyN ZifyBool.
From LH Require Import Base.Bytes Model.Lexer Spec.LuaNumeral Spec.LuaLex.
From LH Require Import Proofs.LexerGrammarBase Proofs.LexerGrammarStr.
Import ListNotations.
Local Open Scope N_scope.

Definition quote (q : N) : Prop := q = 34 \/ q = 39.

(* ------------------------------------------------------------------ plain bytes inside a string *)
Definition plain (q c : N) : Prop := c <> q /\ c <> 92 /\ lx_newline c = false.

Lemma add_plain Esc q a : Forall (plain q) a -> forall b r, StrItems Esc q b r -> StrItems Esc q (a ++ b) r.
Proof.
  induction 1 as [|c a (H1 & H2 & H3) _ IH]; intros b r HS; cbn [app]; [exact HS|].
  apply SI_plain; [exact H1|exact H2|exact H3|]. apply IH. exact HS.
Qed.

Lemma drop_plain Esc q a : Forall (fun c => c <> q /\ c <> 92) a ->
  forall b r, StrItems Esc q (a ++ b) r -> StrItems Esc q b r.
Proof.
  induction 1 as [|c a (H1 & H2) _ IH]; intros b r HS; cbn [app] in HS; [exact HS|].
  inversion HS as [r0 E1 E2|c0 bs0 r0 _ _ _ HS' E1 E2|e bs0 r0 _ _ E1 E2]; subst.
  - congruence.
  - apply IH. exact HS'.
  - congruence.
Qed.

Lemma forallb_In' {A} (p : A -> bool) l x : forallb p l = true -> In x l -> p x = true.
Proof. intros H Hin. rewrite forallb_forall in H. apply H. exact Hin. Qed.

Lemma digits_plain q ds : quote q -> forallb lx_digit ds = true -> Forall (plain q) ds.
Proof.
  intros Hq Hd. apply Forall_forall. intros c Hin. pose proof (forallb_In' _ _ _ Hd Hin) as Hc.
  unfold plain, lx_digit, lx_newline in *. destruct Hq; subst q; repeat split; lia.
Qed.

Lemma xdigits_plain q hs : quote q -> forallb lx_xdigit hs = true -> Forall (plain q) hs.
Proof.
  intros Hq Hd. apply Forall_forall. intros c Hin. pose proof (forallb_In' _ _ _ Hd Hin) as Hc.
  unfold plain, lx_xdigit, lx_digit, lx_newline in *. destruct Hq; subst q; repeat split; lia.
Qed.

Lemma plain_weak q a : Forall (plain q) a -> Forall (fun c => c <> q /\ c <> 92) a.
Proof. apply Forall_impl. intros c (H1 & H2 & _). split; assumption. Qed.

Lemma simple_escape_char c : simple_escape c = true ->
  lx_newline c = false /\ c <> 120 /\ c <> 122 /\ lx_digit c = false.
Proof. rewrite simple_escape_eq. cbn [existsb]. unfold lx_newline, lx_digit. lia. Qed.

(* ------------------------------------------------------------------ manual => code *)
Lemma str_lua_code q (Hq : quote q) : forall l r, StrItems EscLua q l r -> StrItems EscCode q l r.
Proof.
  induction 1 as [r|c bs r H1 H2 H3 _ IH|e bs r He _ IH].
  - constructor.
  - apply SI_plain; assumption.
  - destruct He as [c r0 Hs|c r0 Hn Hr|c d r0 Hc Hd Hne|ws r0 Hw Hr|h1 h2 r0 H1 H2|ds r0 Hne Hd Hlen Hmax Hval|hs r0 Hne Hh Hval].
    + apply SI_esc; [|exact IH]. destruct (simple_escape_char c Hs) as (A & B & C & D). apply Ec_char; assumption.
    + apply SI_esc; [|exact IH]. apply Ec_newline; assumption.
    + apply SI_esc; [|exact IH]. apply Ec_newline2; assumption.
    + apply SI_esc; [|exact IH]. apply Ec_z; assumption.
    + apply SI_esc; [|exact IH]. apply Ec_hex; assumption.
    + (* \ddd : the code takes every following digit as well *)
      destruct (take_while_split lx_digit r0) as (A & B & C).
      set (ds' := take_while lx_digit r0) in *.
      assert (Er : r0 = ds' ++ skipn (length ds') r0) by (rewrite <- C at 1; symmetry; apply firstn_skipn).
      rewrite Er, app_assoc. apply SI_esc.
      * apply Ec_dec; [destruct ds; [congruence|discriminate]|rewrite forallb_app, Hd, A; reflexivity|exact B].
      * apply (drop_plain _ q ds'); [apply plain_weak, digits_plain; assumption|]. rewrite <- Er. exact IH.
    + (* \u{XXX} : the code takes `u` and reads the rest as plain bytes *)
      change (117 :: 123 :: hs ++ [125]) with ([117] ++ (123 :: hs ++ [125])). rewrite <- app_assoc.
      apply SI_esc; [apply Ec_char; [reflexivity|discriminate|discriminate|reflexivity]|].
      apply add_plain; [|exact IH].
      constructor; [destruct Hq; subst q; repeat split; discriminate|].
      apply Forall_app. split; [apply xdigits_plain; assumption|].
      constructor; [destruct Hq; subst q; repeat split; discriminate|constructor].
Qed.

Lemma token_lua_code t bs r : Token EscLua t bs r -> Token EscCode t bs r.
Proof.
  intros [c body r0 H1 H2 H3|bs0 H|bs0 w k H1 H2|q bs0 r0 Hq HS|bs0 r0 HL].
  - apply Tk_name; assumption.
  - apply Tk_number; assumption.
  - apply Tk_op; assumption.
  - apply Tk_short; [exact Hq|]. apply str_lua_code; assumption.
  - apply Tk_long; assumption.
Qed.

Theorem lex_lua_code bs ts : Lex EscLua bs ts -> Lex EscCode bs ts.
Proof.
  induction 1 as [bs HS|bs r1 t r ts HS HT _ IH].
  - apply Lex_end. exact HS.
  - eapply Lex_token; [exact HS|apply token_lua_code; exact HT|exact IH].
Qed.

(* ------------------------------------------------------------------ the guard *)
Notation nbe := no_bad_escape_from.

Lemma nbe_suffix a : forall p b, nbe p (a ++ b) = true -> exists p', nbe p' b = true.
Proof.
  induction a as [|c a IH]; intros p b H; cbn [app] in H; [exists p; exact H|].
  cbn [no_bad_escape_from] in H. destruct p.
  - apply andb_true_iff in H as [_ H]. exact (IH _ _ H).
  - destruct (c =? 92); exact (IH _ _ H).
Qed.

Lemma nbe_skip a : Forall (fun c => c <> 92) a -> forall b, nbe false (a ++ b) = true -> nbe false b = true.
Proof.
  induction 1 as [|c a Hc _ IH]; intros b H; cbn [app] in H; [exact H|].
  cbn [no_bad_escape_from] in H. replace (c =? 92) with false in H by lia. apply IH. exact H.
Qed.

Lemma nbe_after_quote p q l : quote q -> nbe p (q :: l) = true -> nbe false l = true.
Proof.
  intros Hq H. cbn [no_bad_escape_from] in H. destruct p.
  - apply andb_true_iff in H as [_ H]. exact H.
  - replace (q =? 92) with false in H by (destruct Hq; subst q; reflexivity). exact H.
Qed.

Lemma esc_code_tail e r : EscCode e r -> exists c e', e = c :: e' /\ Forall (fun x => x <> 92) e'.
Proof.
  intros [h1 h2 r0 H1 H2|r0 _|c r0 _ _|c d r0 _ Hd _|ws r0 Hw _|ds r0 Hne Hd _|c r0 _ _ _ _].
  - eexists _, _. split; [reflexivity|]. repeat constructor; unfold lx_xdigit, lx_digit in *; lia.
  - eexists _, _. split; [reflexivity|constructor].
  - eexists _, _. split; [reflexivity|constructor].
  - eexists _, _. split; [reflexivity|]. repeat constructor. unfold lx_newline in Hd. lia.
  - eexists _, _. split; [reflexivity|]. apply Forall_forall. intros x Hin.
    pose proof (forallb_In' _ _ _ Hw Hin) as Hx. unfold lx_blank, lx_space, lx_newline in Hx. lia.
  - destruct ds as [|c ds']; [congruence|]. eexists _, _. split; [reflexivity|]. cbn [forallb] in Hd.
    apply andb_true_iff in Hd as [_ Hd]. apply Forall_forall. intros x Hin.
    pose proof (forallb_In' _ _ _ Hd Hin) as Hx. unfold lx_digit in Hx. lia.
  - eexists _, _. split; [reflexivity|constructor].
Qed.

(* one escape sequence of the code that starts a legal escape of the manual *)
Lemma esc_code_lua q (Hq : quote q) e bs r :
  EscCode e bs -> legal_escape (e ++ bs) = true -> StrItems EscLua q bs r -> StrItems EscLua q (92 :: e ++ bs) r.
Proof.
  intros He Hl HS.
  destruct He as [h1 h2 r0 H1 H2|r0 Hx|c r0 Hn Hr|c d r0 Hc Hd Hne|ws r0 Hw Hr|ds r0 Hne Hd Hr|c r0 Hn Hx Hz Hd].
  - apply SI_esc; [apply El_hex; assumption|exact HS].
  - exfalso. cbn [app legal_escape] in Hl. cbn in Hl.
    destruct r0 as [|h1 [|h2 r']]; try discriminate. rewrite (Hx h1 h2 r' eq_refl) in Hl. discriminate.
  - apply SI_esc; [apply El_newline; assumption|exact HS].
  - apply SI_esc; [apply El_newline2; assumption|exact HS].
  - apply SI_esc; [apply El_z; assumption|exact HS].
  - (* a run of digits: the first three (at most) are the escape, the others plain *)
    destruct ds as [|c ds']; [congruence|]. cbn [app] in Hl. unfold legal_escape in Hl.
    cbn [forallb] in Hd. pose proof Hd as Hd0. apply andb_true_iff in Hd as [Hc Hds].
    assert (T : take_while lx_digit (c :: ds' ++ r0) = c :: ds').
    { change (c :: ds' ++ r0) with ((c :: ds') ++ r0). apply take_while_app; assumption. }
    rewrite T in Hl.
    replace (simple_escape c || lx_newline c || (c =? 122)) with false in Hl
      by (rewrite simple_escape_eq; cbn [existsb]; unfold lx_newline, lx_digit in *; lia).
    replace (c =? 120) with false in Hl by (unfold lx_digit in Hc; lia). rewrite Hc in Hl.
    apply N.leb_le in Hl.
    set (ds := c :: ds') in *.
    assert (Hall : forallb lx_digit (firstn 3 ds ++ skipn 3 ds) = true) by (rewrite firstn_skipn; subst ds; exact Hd0).
    rewrite forallb_app in Hall. apply andb_true_iff in Hall as [HA HB].
    rewrite <- (firstn_skipn 3 ds), <- app_assoc.
    apply SI_esc.
    + apply El_dec.
      * subst ds. discriminate.
      * exact HA.
      * rewrite firstn_length. lia.
      * destruct (Nat.le_gt_cases 3 (length ds)) as [Hge|Hlt].
        -- left. rewrite firstn_length. lia.
        -- right. rewrite skipn_all2 by lia. exact Hr.
      * exact Hl.
    + apply add_plain; [|exact HS]. apply digits_plain; [exact Hq|exact HB].
  - cbn [app] in Hl |- *. unfold legal_escape in Hl.
    destruct (simple_escape c) eqn:Es.
    { apply (SI_esc EscLua q [c] r0 r); [apply El_simple; exact Es|exact HS]. }
    rewrite Hn, Hd in Hl. replace (c =? 122) with false in Hl by lia. replace (c =? 120) with false in Hl by lia.
    cbn [orb] in Hl. destruct (c =? 117) eqn:Eu; [|discriminate]. apply N.eqb_eq in Eu. subst c.
    destruct r0 as [|b t']; [discriminate|].
    destruct (take_while_split lx_xdigit t') as (A & B & C). set (hs := take_while lx_xdigit t') in *.
    apply andb_true_iff in Hl as [Hl Hv]. apply andb_true_iff in Hl as [Hl Hclose].
    apply andb_true_iff in Hl as [Hb Hne]. apply N.eqb_eq in Hb. subst b. apply N.ltb_lt in Hv.
    destruct (skipn (length hs) t') as [|cl r'] eqn:Esk; [discriminate|]. cbn [hd_is] in Hclose.
    apply N.eqb_eq in Hclose. subst cl.
    assert (Et : t' = hs ++ 125 :: r') by (rewrite <- C, <- Esk; symmetry; apply firstn_skipn).
    rewrite Et in HS |- *.
    replace (92 :: 117 :: 123 :: hs ++ 125 :: r') with (92 :: (117 :: 123 :: hs ++ [125]) ++ r')
      by (cbn [app]; rewrite <- app_assoc; reflexivity).
    apply SI_esc.
    + apply El_utf8; [destruct hs; [discriminate|discriminate]|exact A|exact Hv].
    + apply (drop_plain _ q (123 :: hs ++ [125])).
      * apply plain_weak. constructor; [destruct Hq; subst q; repeat split; discriminate|].
        apply Forall_app. split; [apply xdigits_plain; assumption|].
        constructor; [destruct Hq; subst q; repeat split; discriminate|constructor].
      * cbn [app]. rewrite <- app_assoc. exact HS.
Qed.

Lemma str_code_lua q (Hq : quote q) : forall l r, StrItems EscCode q l r -> nbe false l = true ->
  StrItems EscLua q l r /\ nbe false r = true.
Proof.
  induction 1 as [r|c bs r H1 H2 H3 _ IH|e bs r He _ IH]; intros Hn.
  - split; [constructor|]. exact (nbe_after_quote _ _ _ Hq Hn).
  - cbn [no_bad_escape_from] in Hn. replace (c =? 92) with false in Hn by lia.
    destruct (IH Hn) as [A B]. split; [apply SI_plain; assumption|exact B].
  - cbn [no_bad_escape_from N.eqb Pos.eqb] in Hn.
    destruct (esc_code_tail _ _ He) as (c & e' & -> & Hno).
    cbn [app no_bad_escape_from] in Hn. apply andb_true_iff in Hn as [Hl Hn].
    apply (nbe_skip _ Hno) in Hn. destruct (IH Hn) as [A B]. split; [|exact B].
    apply esc_code_lua; assumption.
Qed.

(* every escape sequence of the manual passes the boolean test used by the guard *)
Lemma esc_lua_legal e r : EscLua e r -> legal_escape (e ++ r) = true.
Proof.
  intros [c r0 Hs|c r0 Hn Hr|c d r0 Hc Hd Hne|ws r0 Hw Hr|h1 h2 r0 H1 H2|ds r0 Hne Hd Hlen Hmax Hval|hs r0 Hne Hh Hval];
    cbn [app]; unfold legal_escape.
  - rewrite Hs. reflexivity.
  - rewrite Hn, orb_true_r. reflexivity.
  - rewrite Hc, orb_true_r. reflexivity.
  - reflexivity.
  - cbn [simple_escape]. replace (simple_escape 120 || lx_newline 120 || (120 =? 122)) with false by reflexivity.
    cbn [N.eqb Pos.eqb]. rewrite H1, H2. reflexivity.
  - destruct ds as [|c ds']; [congruence|]. cbn [app forallb] in *. pose proof Hd as Hd0.
    apply andb_true_iff in Hd as [Hc Hds].
    replace (simple_escape c || lx_newline c || (c =? 122)) with false
      by (rewrite simple_escape_eq; cbn [existsb]; unfold lx_newline, lx_digit in *; lia).
    replace (c =? 120) with false by (unfold lx_digit in Hc; lia). rewrite Hc.
    apply N.leb_le.
    assert (E : firstn 3 (take_while lx_digit (c :: ds' ++ r0)) = c :: ds'); [|rewrite E; exact Hval].
    destruct Hmax as [H3|Hr].
    + cbn [take_while]. rewrite Hc.
      assert (P : forall (a b : list N), forallb lx_digit a = true -> exists x, take_while lx_digit (a ++ b) = a ++ x).
      { induction a as [|y a IH]; intros b Ha; cbn [app]; [eexists; reflexivity|]. cbn [forallb] in Ha.
        apply andb_true_iff in Ha as [Hy Ha]. cbn [take_while]. rewrite Hy. destruct (IH b Ha) as [x ->]. eexists. reflexivity. }
      destruct (P ds' r0 Hds) as [x ->].
      change (c :: ds' ++ x) with ((c :: ds') ++ x). rewrite firstn_app. cbn [length] in H3 |- *.
      replace (3 - S (length ds'))%nat with 0%nat by lia. rewrite firstn_O, app_nil_r.
      apply firstn_all2. cbn [length]. lia.
    + change (c :: ds' ++ r0) with ((c :: ds') ++ r0). rewrite (take_while_app lx_digit (c :: ds') r0 Hd0 Hr).
      apply firstn_all2. exact Hlen.
  - replace (simple_escape 117 || lx_newline 117 || (117 =? 122)) with false by reflexivity.
    cbn [N.eqb Pos.eqb lx_digit N.leb N.compare Pos.compare Pos.compare_cont andb]. cbn [app].
    rewrite <- app_assoc. cbn [app].
    assert (T : take_while lx_xdigit (hs ++ 125 :: r0) = hs) by (apply take_while_app; [exact Hh|reflexivity]).
    rewrite T. rewrite skipn_app, Nat.sub_diag, skipn_all. cbn [app skipn hd_is].
    destruct hs as [|h hs']; [congruence|]. cbn [negb andb N.eqb Pos.eqb]. apply N.ltb_lt. exact Hval.
Qed.


(* ------------------------------------------------------------------ the variants of the code (EscFx) *)
Lemma lex_str_mono (E1 E2 : list N -> list N -> Prop) :
  (forall q l r, quote q -> StrItems E1 q l r -> StrItems E2 q l r) ->
  forall bs ts, Lex E1 bs ts -> Lex E2 bs ts.
Proof.
  intros HM. induction 1 as [bs HS|bs r1 t r ts HS HT _ IH].
  - apply Lex_end. exact HS.
  - eapply Lex_token; [exact HS| |exact IH].
    destruct HT as [c body r0 H1 H2 H3|bs0 H|bs0 w k H1 H2|q bs0 r0 Hq HS'|bs0 r0 HL].
    + apply Tk_name; assumption.
    + apply Tk_number; assumption.
    + apply Tk_op; assumption.
    + apply Tk_short; [exact Hq|]. apply HM; assumption.
    + apply Tk_long; assumption.
Qed.

Lemma str_esc_mono (E1 E2 : list N -> list N -> Prop) q :
  (forall e r, E1 e r -> E2 e r) -> forall l r, StrItems E1 q l r -> StrItems E2 q l r.
Proof.
  intros HM. induction 1 as [r|c bs r H1 H2 H3 _ IH|e bs r He _ IH].
  - constructor.
  - apply SI_plain; assumption.
  - apply SI_esc; [apply HM; exact He|exact IH].
Qed.

(* before the repair: all of EscCode *)
Theorem lex_fx_code fx bs ts : Lex (EscFx fx) bs ts -> Lex EscCode bs ts.
Proof. apply lex_str_mono. intros q l r _. apply str_esc_mono. apply esc_fx_code. Qed.

Theorem lex_code_fx bs ts : Lex EscCode bs ts -> Lex (EscFx false) bs ts.
Proof. apply lex_str_mono. intros q l r _. apply str_esc_mono. apply esc_code_fx_false. Qed.

(* after the repair: exactly the manual's escapes *)
Lemma str_fx_lua q (Hq : quote q) : forall l r, StrItems (EscFx true) q l r -> StrItems EscLua q l r.
Proof.
  induction 1 as [r|c bs r H1 H2 H3 _ IH|e bs r [He Hl] _ IH].
  - constructor.
  - apply SI_plain; assumption.
  - apply esc_code_lua; [exact Hq|exact He|exact (Hl eq_refl)|exact IH].
Qed.

Lemma si_esc_legal fx q e bs r :
  EscCode e bs -> legal_escape (e ++ bs) = true -> StrItems (EscFx fx) q bs r -> StrItems (EscFx fx) q (92 :: e ++ bs) r.
Proof. intros He Hl HS. apply SI_esc; [split; [exact He|intros _; exact Hl]|exact HS]. Qed.

Lemma str_lua_fx fx q (Hq : quote q) : forall l r, StrItems EscLua q l r -> StrItems (EscFx fx) q l r.
Proof.
  induction 1 as [r|c bs r H1 H2 H3 _ IH|e bs r He _ IH].
  - constructor.
  - apply SI_plain; assumption.
  - pose proof (esc_lua_legal _ _ He) as Hleg.
    destruct He as [c r0 Hs|c r0 Hn Hr|c d r0 Hc Hd Hne|ws r0 Hw Hr|h1 h2 r0 H1 H2|ds r0 Hne Hd Hlen Hmax Hval|hs r0 Hne Hh Hval].
    + apply si_esc_legal; [|exact Hleg|exact IH]. destruct (simple_escape_char c Hs) as (A & B & C & D). apply Ec_char; assumption.
    + apply si_esc_legal; [|exact Hleg|exact IH]. apply Ec_newline; assumption.
    + apply si_esc_legal; [|exact Hleg|exact IH]. apply Ec_newline2; assumption.
    + apply si_esc_legal; [|exact Hleg|exact IH]. apply Ec_z; assumption.
    + apply si_esc_legal; [|exact Hleg|exact IH]. apply Ec_hex; assumption.
    + (* \ddd : the code takes every following digit as well *)
      destruct (take_while_split lx_digit r0) as (A & B & C).
      set (ds' := take_while lx_digit r0) in *.
      assert (Er : r0 = ds' ++ skipn (length ds') r0) by (rewrite <- C at 1; symmetry; apply firstn_skipn).
      rewrite Er, app_assoc. apply si_esc_legal.
      * apply Ec_dec; [destruct ds; [congruence|discriminate]|rewrite forallb_app, Hd, A; reflexivity|exact B].
      * rewrite <- app_assoc, <- Er. exact Hleg.
      * apply (drop_plain _ q ds'); [apply plain_weak, digits_plain; assumption|]. rewrite <- Er. exact IH.
    + (* \u{XXX} : the code takes `u` and reads the rest as plain bytes *)
      change (117 :: 123 :: hs ++ [125]) with ([117] ++ (123 :: hs ++ [125])) in *. rewrite <- app_assoc in *.
      apply si_esc_legal; [apply Ec_char; [reflexivity|discriminate|discriminate|reflexivity]|exact Hleg|].
      apply add_plain; [|exact IH].
      constructor; [destruct Hq; subst q; repeat split; discriminate|].
      apply Forall_app. split; [apply xdigits_plain; assumption|].
      constructor; [destruct Hq; subst q; repeat split; discriminate|constructor].
Qed.

Theorem lex_fx_lua bs ts : Lex (EscFx true) bs ts -> Lex EscLua bs ts.
Proof. apply lex_str_mono. intros q l r Hq. apply str_fx_lua. exact Hq. Qed.

Theorem lex_lua_fx fx bs ts : Lex EscLua bs ts -> Lex (EscFx fx) bs ts.
Proof. apply lex_str_mono. intros q l r Hq. apply str_lua_fx. exact Hq. Qed.

(* every class consumes a prefix *)
Lemma long_bracket_prefix bs r : LongBracket bs r -> exists a, bs = a ++ r.
Proof. intros [n body r0 _]. exists (lb_open n ++ body ++ lb_close n). rewrite <- !app_assoc. reflexivity. Qed.

Lemma comment_prefix bs r : Comment bs r -> exists a, bs = a ++ r.
Proof.
  intros [bs0 r0 HL|body r0 _ _ _].
  - destruct (long_bracket_prefix _ _ HL) as [a ->]. exists (45 :: 45 :: a). reflexivity.
  - exists (45 :: 45 :: body). reflexivity.
Qed.

Lemma sep_prefix bs r : Sep bs r -> exists a, bs = a ++ r.
Proof.
  induction 1 as [r|c bs r _ _ [a ->]|bs r1 r HC _ [a ->]].
  - exists []. reflexivity.
  - exists (c :: a). reflexivity.
  - destruct (comment_prefix _ _ HC) as [a' ->]. exists (a' ++ a). apply app_assoc.
Qed.

Lemma str_items_prefix Esc q bs r : StrItems Esc q bs r -> exists a, bs = a ++ r.
Proof.
  induction 1 as [r|c bs r _ _ _ _ [a ->]|e bs r _ _ [a ->]].
  - exists [q]. reflexivity.
  - exists (c :: a). reflexivity.
  - exists (92 :: e ++ a). cbn [app]. rewrite <- app_assoc. reflexivity.
Qed.

Lemma token_code_lua t bs r p : Token EscCode t bs r -> nbe p bs = true ->
  Token EscLua t bs r /\ exists p', nbe p' r = true.
Proof.
  intros [c body r0 H1 H2 H3|bs0 H|bs0 w k H1 H2|q bs0 r0 Hq HS|bs0 r0 HL] Hn.
  - split; [apply Tk_name; assumption|]. apply (nbe_suffix (c :: body) p). exact Hn.
  - split; [apply Tk_number; assumption|]. apply (nbe_suffix (firstn (num_len bs0) bs0) p). rewrite firstn_skipn. exact Hn.
  - split; [apply Tk_op; assumption|]. apply (nbe_suffix (firstn (length w) bs0) p). rewrite firstn_skipn. exact Hn.
  - apply (nbe_after_quote _ _ _ Hq) in Hn. destruct (str_code_lua q Hq _ _ HS Hn) as [A B].
    split; [apply Tk_short; assumption|]. exists false. exact B.
  - split; [apply Tk_long; assumption|]. destruct (long_bracket_prefix _ _ HL) as [a ->]. exact (nbe_suffix a p _ Hn).
Qed.

Theorem lex_code_lua bs ts : Lex EscCode bs ts -> forall p, nbe p bs = true -> Lex EscLua bs ts.
Proof.
  induction 1 as [bs HS|bs r1 t r ts HS HT _ IH]; intros p Hn.
  - apply Lex_end. exact HS.
  - destruct (sep_prefix _ _ HS) as [a ->]. apply nbe_suffix in Hn as [p1 Hn1].
    destruct (token_code_lua _ _ _ _ HT Hn1) as [HT' [p2 Hn2]].
    eapply Lex_token; [exact HS|exact HT'|exact (IH _ Hn2)].
Qed.

Lemma strip_nbe bs : no_bad_escape bs = true -> exists p, nbe p (strip_first_line (strip_bom bs)) = true.
Proof.
  intros H. unfold no_bad_escape in H.
  assert (P1 : exists a, bs = a ++ strip_bom bs).
  { unfold strip_bom.
    repeat match goal with
           | |- context [match ?x with _ => _ end] => is_var x; destruct x
           end; try (exists []; reflexivity). exists [239; 187; 191]. reflexivity. }
  destruct P1 as [a Ea]. rewrite Ea in H. apply nbe_suffix in H as [p1 H1].
  assert (P2 : forall l, exists a, l = a ++ drop_line l).
  { induction l as [|c t [a' IHt]]; [exists []; reflexivity|]. cbn [drop_line].
    destruct (lx_newline c); [exists []; reflexivity|]. exists (c :: a'). cbn [app]. rewrite <- IHt. reflexivity. }
  unfold strip_first_line. destruct (strip_bom bs) as [|c t]; [exists p1; exact H1|].
  destruct (c =? 35); [|exists p1; exact H1].
  destruct (P2 t) as [a' Ea']. rewrite Ea' in H1. exact (nbe_suffix (c :: a') p1 _ H1).
Qed.
