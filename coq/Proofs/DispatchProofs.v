(* C10 - lemmas about the dispatcher model: step characterisation, the lock invariant (mutual exclusion of the
   critical sections), races only between may_race bodies, the notification barrier, progress. *)
From Coq Require Import String.
From Coq Require Import List Bool Arith PeanoNat Lia.
From LH Require Import Model.Dispatch.
Import ListNotations.

(* ------------------------------------------------------------------ lists *)
Lemma set_nth_length {A} i (x : A) l : length (set_nth i x l) = length l.
Proof. revert i; induction l as [|y l IH]; intros [|i]; simpl; auto. Qed.

Lemma nth_error_set_nth_eq {A} i (x : A) l : i < length l -> nth_error (set_nth i x l) i = Some x.
Proof.
  revert i; induction l as [|y l IH]; intros [|i] H; simpl in *; try lia; auto.
  apply IH; lia.
Qed.

Lemma nth_error_set_nth_neq {A} i j (x : A) l : i <> j -> nth_error (set_nth i x l) j = nth_error l j.
Proof.
  revert i j; induction l as [|y l IH]; intros [|i] [|j] H; simpl; auto; try congruence.
Qed.

Lemma nth_set_cases {A} i j (x y : A) l :
  nth_error (set_nth i x l) j = Some y ->
  (j = i /\ y = x /\ i < length l) \/ (j <> i /\ nth_error l j = Some y).
Proof.
  intros H. destruct (Nat.eq_dec j i) as [->|Hne].
  - left. assert (Hlt : i < length l).
    { rewrite <- (set_nth_length i x l). apply nth_error_Some. congruence. }
    rewrite nth_error_set_nth_eq in H by exact Hlt. injection H as <-. auto.
  - right. split; [exact Hne|]. rewrite nth_error_set_nth_neq in H by congruence. exact H.
Qed.

Lemma nth_app_one_cases {A} (l : list A) z j y :
  nth_error (l ++ [z]) j = Some y -> nth_error l j = Some y \/ (j = length l /\ y = z).
Proof.
  intros H. destruct (Nat.lt_ge_cases j (length l)) as [Hlt|Hge].
  - left. rewrite nth_error_app1 in H by exact Hlt. exact H.
  - right. rewrite nth_error_app2 in H by exact Hge.
    destruct (j - length l) as [|k] eqn:E; simpl in H.
    + injection H as <-. split; [lia|reflexivity].
    + destruct k; discriminate.
Qed.

Lemma firstn_S_nth {A} (l : list A) n a : nth_error l n = Some a -> firstn (S n) l = firstn n l ++ [a].
Proof.
  revert n; induction l as [|y l IH]; intros [|n] H; simpl in *; try discriminate.
  - injection H as ->. reflexivity.
  - f_equal. apply IH. exact H.
Qed.

(* ------------------------------------------------------------------ static reading of bodies *)
Lemma res_eqb_eq a b : res_eqb a b = true <-> a = b.
Proof.
  unfold res_eqb. rewrite Nat.eqb_eq. split; [|intros ->; reflexivity].
  destruct a, b; simpl; intros H; try reflexivity; discriminate.
Qed.

Lemma conflict_sym a b : conflict a b = conflict b a.
Proof.
  unfold conflict. rewrite (orb_comm (is_wr (snd a))). f_equal.
  unfold res_eqb. apply Nat.eqb_sym.
Qed.

Lemma held_after_app h l1 l2 : held_after h (l1 ++ l2) = held_after (held_after h l1) l2.
Proof. revert h; induction l1 as [|a l1 IH]; intros h; simpl; auto. Qed.

Lemma held_at_0 body : held_at body 0 = false.
Proof. reflexivity. Qed.

Lemma held_at_S body pc a :
  nth_error body pc = Some a -> held_at body (S pc) = flag_step (held_at body pc) a.
Proof.
  intros H. unfold held_at. rewrite (firstn_S_nth _ _ _ H), held_after_app. reflexivity.
Qed.

Lemma bracketed_from_unlock h l pc :
  bracketed_from h l = true -> nth_error l pc = Some Unlock -> held_after h (firstn pc l) = true.
Proof.
  revert h pc; induction l as [|a l IH]; intros h [|pc] Hb Hn; simpl in *; try discriminate.
  - injection Hn as ->. simpl in Hb. apply andb_true_iff in Hb as [Hh _]. exact Hh.
  - apply andb_true_iff in Hb as [_ Hb]. apply IH; assumption.
Qed.

Lemma bracketed_unlock_held body pc :
  bracketed body = true -> nth_error body pc = Some Unlock -> held_at body pc = true.
Proof. apply bracketed_from_unlock. Qed.

Lemma bracketed_from_lock h l pc :
  bracketed_from h l = true -> nth_error l pc = Some Lock -> held_after h (firstn pc l) = false.
Proof.
  revert h pc; induction l as [|a l IH]; intros h [|pc] Hb Hn; simpl in *; try discriminate.
  - injection Hn as ->. simpl in Hb. apply andb_true_iff in Hb as [Hh _].
    destruct h; [discriminate|reflexivity].
  - apply andb_true_iff in Hb as [_ Hb]. apply IH; assumption.
Qed.

Lemma bracketed_from_end h l :
  bracketed_from h l = true -> held_after h l = false.
Proof.
  revert h; induction l as [|a l IH]; intros h Hb; simpl in *.
  - destruct h; [discriminate|reflexivity].
  - apply andb_true_iff in Hb as [_ Hb]. apply IH; exact Hb.
Qed.

Lemma unlocked_from_in h l pc r m :
  nth_error l pc = Some (Acc r m) -> held_after h (firstn pc l) = false -> In (r, m) (unlocked_from h l).
Proof.
  revert h pc; induction l as [|a l IH]; intros h [|pc] Hn Hh; simpl in *; try discriminate.
  - injection Hn as ->. subst h. left; reflexivity.
  - destruct a as [r' m'| | |b]; simpl in *.
    + destruct h; [|right]; apply (IH _ pc); assumption.
    + apply (IH _ pc); assumption.
    + apply (IH _ pc); assumption.
    + apply (IH _ pc); assumption.
Qed.

Lemma unlocked_accs_in body pc r m :
  nth_error body pc = Some (Acc r m) -> held_at body pc = false -> In (r, m) (unlocked_accs body).
Proof. apply unlocked_from_in. Qed.

Lemma all_accs_in l pc r m : nth_error l pc = Some (Acc r m) -> In (r, m) (all_accs l).
Proof.
  revert pc; induction l as [|a l IH]; intros [|pc] Hn; simpl in *; try discriminate.
  - injection Hn as ->. left; reflexivity.
  - destruct a; simpl; try right; eapply IH; eassumption.
Qed.

Lemma may_race_intro_l b1 b2 a b :
  In a (unlocked_accs b1) -> In b (all_accs b2) -> conflict a b = true -> may_race b1 b2 = true.
Proof.
  intros Ha Hb Hc. unfold may_race. apply orb_true_iff. left.
  apply existsb_exists. exists a. split; [exact Ha|].
  apply existsb_exists. exists b. split; assumption.
Qed.

Lemma may_race_intro_r b1 b2 a b :
  In a (all_accs b1) -> In b (unlocked_accs b2) -> conflict a b = true -> may_race b1 b2 = true.
Proof.
  intros Ha Hb Hc. unfold may_race. apply orb_true_iff. right.
  apply existsb_exists. exists b. split; [exact Hb|].
  apply existsb_exists. exists a. split; assumption.
Qed.

Lemma may_race_nil_l b1 b2 : unlocked_accs b1 = [] -> unlocked_accs b2 = [] -> may_race b1 b2 = false.
Proof. intros H1 H2. unfold may_race. rewrite H1, H2. reflexivity. Qed.

Lemma may_race_sym b1 b2 : may_race b1 b2 = may_race b2 b1.
Proof.
  unfold may_race. rewrite orb_comm. f_equal.
  - apply eq_true_iff_eq. rewrite !existsb_exists. split; intros (x & Hx & H); exists x; (split; [exact Hx|]);
      rewrite existsb_exists in *; destruct H as (y & Hy & H); exists y; (split; [exact Hy|]);
      rewrite conflict_sym; exact H.
  - apply eq_true_iff_eq. rewrite !existsb_exists. split; intros (x & Hx & H); exists x; (split; [exact Hx|]);
      rewrite existsb_exists in *; destruct H as (y & Hy & H); exists y; (split; [exact Hy|]);
      rewrite conflict_sym; exact H.
Qed.

Lemma locked_body_spec body :
  locked_body body = true <-> bracketed body = true /\ unlocked_accs body = [].
Proof.
  unfold locked_body. rewrite andb_true_iff. split; intros [H1 H2]; split; auto.
  - destruct (unlocked_accs body); [reflexivity|discriminate].
  - rewrite H2. reflexivity.
Qed.

(* ------------------------------------------------------------------ the transition system *)
Section Dispatcher.
  Variable hs : list handler.
  Variable bgs : list handler.
  Variable conc : nat.

  Notation body_of := (body_of hs bgs).
  Notation step := (step hs bgs conc).
  Notation run := (run hs bgs conc).
  Notation reachable := (reachable hs bgs conc).

  (* what one step can do *)
  Inductive step_spec (l : label) (s s' : state) : Prop :=
  | SDispatch m q :
      l = LDispatch -> s_queue s = m :: q -> barrier_open (s_pool s) = true ->
      s' = mkState q (s_pool s ++ [new_task hs bgs m]) (s_mutex s) (s_log s) -> step_spec l s s'
  | SStart i t :
      l = LStart i -> nth_error (s_pool s) i = Some t -> is_waiting t = true -> running_count (s_pool s) < conc ->
      s' = mkState (s_queue s) (set_nth i (set_st t Running) (s_pool s)) (s_mutex s) (s_log s) -> step_spec l s s'
  | SAcc i t r m :
      l = LStep i -> nth_error (s_pool s) i = Some t -> is_running t = true -> nth_error (t_body t) (t_pc t) = Some (Acc r m) ->
      s' = mkState (s_queue s) (set_nth i (adv t (t_holds t)) (s_pool s)) (s_mutex s) (s_log s) -> step_spec l s s'
  | SLock i t :
      l = LStep i -> nth_error (s_pool s) i = Some t -> is_running t = true -> nth_error (t_body t) (t_pc t) = Some Lock ->
      s_mutex s = false ->
      s' = mkState (s_queue s) (set_nth i (adv t true) (s_pool s)) true (s_log s ++ [i]) -> step_spec l s s'
  | SUnlock i t :
      l = LStep i -> nth_error (s_pool s) i = Some t -> is_running t = true -> nth_error (t_body t) (t_pc t) = Some Unlock ->
      s_mutex s = true ->
      s' = mkState (s_queue s) (set_nth i (adv t false) (s_pool s)) false (s_log s) -> step_spec l s s'
  | SSpawn i t b :
      l = LStep i -> nth_error (s_pool s) i = Some t -> is_running t = true -> nth_error (t_body t) (t_pc t) = Some (Spawn b) ->
      s' = mkState (s_queue s) (set_nth i (adv t (t_holds t)) (s_pool s) ++ [bg_task hs bgs b]) (s_mutex s) (s_log s) ->
      step_spec l s s'
  | SFinish i t :
      l = LFinish i -> nth_error (s_pool s) i = Some t -> is_running t = true -> length (t_body t) <= t_pc t ->
      s' = mkState (s_queue s) (set_nth i (set_st t Done) (s_pool s)) (s_mutex s) (s_log s) -> step_spec l s s'.

  Lemma step_sound l s s' : step l s = Some s' -> step_spec l s s'.
  Proof.
    destruct l as [|i|i|i]; unfold Dispatch.step; intros H.
    - destruct (s_queue s) as [|m q] eqn:Eq; [discriminate|].
      destruct (barrier_open (s_pool s)) eqn:Eb; [|discriminate].
      injection H as <-. eapply SDispatch; eauto.
    - destruct (nth_error (s_pool s) i) as [t|] eqn:En; [|discriminate].
      destruct (is_waiting t && (running_count (s_pool s) <? conc)) eqn:Ec; [|discriminate].
      apply andb_true_iff in Ec as [Ew Ec]. apply Nat.ltb_lt in Ec.
      injection H as <-. eapply SStart; eauto.
    - destruct (nth_error (s_pool s) i) as [t|] eqn:En; [|discriminate].
      destruct (is_running t) eqn:Er; [|discriminate].
      destruct (nth_error (t_body t) (t_pc t)) as [[r m| | |b]|] eqn:Ea; try discriminate.
      + injection H as <-. eapply SAcc; eauto.
      + destruct (s_mutex s) eqn:Em; [discriminate|]. injection H as <-. eapply SLock; eauto.
      + destruct (s_mutex s) eqn:Em; [|discriminate]. injection H as <-. eapply SUnlock; eauto.
      + injection H as <-. eapply SSpawn; eauto.
    - destruct (nth_error (s_pool s) i) as [t|] eqn:En; [|discriminate].
      destruct (is_running t && (length (t_body t) <=? t_pc t)) eqn:Ec; [|discriminate].
      apply andb_true_iff in Ec as [Er Ec]. apply Nat.leb_le in Ec.
      injection H as <-. eapply SFinish; eauto.
  Qed.

  Lemma run_app l1 l2 s :
    run (l1 ++ l2) s = match run l1 s with Some s' => run l2 s' | None => None end.
  Proof.
    revert s; induction l1 as [|l l1 IH]; intros s; simpl; [reflexivity|].
    destruct (step l s); [apply IH|reflexivity].
  Qed.

  (* induction over reachable states *)
  Lemma reachable_ind' (msgs : list msg) (P : state -> Prop) :
    P (init msgs) ->
    (forall l s s', reachable msgs s -> P s -> step_spec l s s' -> P s') ->
    forall s, reachable msgs s -> P s.
  Proof.
    intros H0 Hstep s [ls Hrun]. revert s Hrun.
    induction ls as [|l ls IH] using rev_ind; intros s Hrun.
    - simpl in Hrun. injection Hrun as <-. exact H0.
    - rewrite run_app in Hrun. destruct (run ls (init msgs)) as [s1|] eqn:E1; [|discriminate].
      simpl in Hrun. destruct (step l s1) as [s2|] eqn:E2; [|discriminate]. injection Hrun as <-.
      eapply Hstep; [exists ls; exact E1 | apply IH; reflexivity | eapply step_sound; exact E2].
  Qed.

  (* ---------------------------------------------------------------- the lock invariant *)
  Definition task_ok (t : task) : Prop :=
    t_holds t = held_at (t_body t) (t_pc t) /\ t_body t = body_of (t_bg t) (t_h t).

  Record Inv (s : state) : Prop := {
    inv_tasks : forall i t, nth_error (s_pool s) i = Some t -> task_ok t;
    inv_excl : forall i j ti tj,
        nth_error (s_pool s) i = Some ti -> nth_error (s_pool s) j = Some tj ->
        t_holds ti = true -> t_holds tj = true -> i = j;
    inv_free : s_mutex s = false -> forall i t, nth_error (s_pool s) i = Some t -> t_holds t = false }.

  (* every body of the two tables takes and releases the mutex in a well-bracketed way *)
  Definition tables_bracketed : Prop := forall b h, bracketed (body_of b h) = true.

  Lemma tables_bracketed_of_forallb :
    forallb (fun h => bracketed (hbody h)) (hs ++ bgs) = true -> tables_bracketed.
  Proof.
    intros H b h. unfold Dispatch.body_of.
    destruct (nth_error (if b then bgs else hs) h) as [x|] eqn:E; [|reflexivity].
    rewrite forallb_forall in H. apply H. apply nth_error_In in E.
    apply in_or_app. destruct b; auto.
  Qed.

  Lemma task_ok_new m : task_ok (new_task hs bgs m).
  Proof. split; reflexivity. Qed.
  Lemma task_ok_bg b : task_ok (bg_task hs bgs b).
  Proof. split; reflexivity. Qed.
  Lemma task_ok_set_st t st : task_ok t -> task_ok (set_st t st).
  Proof. intros [H1 H2]. split; assumption. Qed.
  Lemma task_ok_adv t a :
    task_ok t -> nth_error (t_body t) (t_pc t) = Some a -> task_ok (adv t (flag_step (t_holds t) a)).
  Proof.
    intros [H1 H2] Ha. split; simpl; [|exact H2].
    rewrite (held_at_S _ _ _ Ha), H1. reflexivity.
  Qed.

  Lemma Inv_init msgs : Inv (init msgs).
  Proof.
    split; simpl.
    - intros i t H. destruct i; discriminate.
    - intros i j ti tj H. destruct i; discriminate.
    - intros _ i t H. destruct i; discriminate.
  Qed.

  (* a pool update that changes neither who holds the mutex nor the bodies *)
  Lemma Inv_same_holds s i t t' q' :
    Inv s -> nth_error (s_pool s) i = Some t -> task_ok t' -> t_holds t' = t_holds t ->
    Inv (mkState q' (set_nth i t' (s_pool s)) (s_mutex s) (s_log s)).
  Proof.
    intros [Ht He Hf] Hi Hok Hh. split; simpl.
    - intros j u Hj. apply nth_set_cases in Hj as [(-> & -> & _)|(Hne & Hj)]; [exact Hok|eauto].
    - intros j k tj tk Hj Hk Hhj Hhk.
      apply nth_set_cases in Hj as [(-> & -> & _)|(Hnj & Hj)];
        apply nth_set_cases in Hk as [(-> & -> & _)|(Hnk & Hk)]; auto.
      + rewrite Hh in Hhj. eapply He; eauto.
      + rewrite Hh in Hhk. eapply He; eauto.
      + eapply He; eauto.
    - intros Hm j u Hj. apply nth_set_cases in Hj as [(-> & -> & _)|(Hne & Hj)]; [|eauto].
      rewrite Hh. eapply Hf; eauto.
  Qed.

  Lemma Inv_append s t :
    Inv s -> task_ok t -> t_holds t = false ->
    Inv (mkState (s_queue s) (s_pool s ++ [t]) (s_mutex s) (s_log s)).
  Proof.
    intros [Ht He Hf] Hok Hh. split; simpl.
    - intros j u Hj. apply nth_app_one_cases in Hj as [Hj|[_ ->]]; eauto.
    - intros j k tj tk Hj Hk Hhj Hhk.
      apply nth_app_one_cases in Hj as [Hj|[_ ->]]; apply nth_app_one_cases in Hk as [Hk|[_ ->]];
        try congruence. eapply He; eauto.
    - intros Hm j u Hj. apply nth_app_one_cases in Hj as [Hj|[_ ->]]; eauto.
  Qed.

  Lemma Inv_step l s s' : tables_bracketed -> Inv s -> step_spec l s s' -> Inv s'.
  Proof.
    intros Hbr HI Hs. destruct Hs as [m q _ Hq Hb ->|i t _ Hi Hw Hc ->|i t r m _ Hi Hr Ha ->|i t _ Hi Hr Ha Hm ->
                                     |i t _ Hi Hr Ha Hm ->|i t b _ Hi Hr Ha ->|i t _ Hi Hr Hlen ->].
    - (* dispatch *)
      pose proof (Inv_append s (new_task hs bgs m) HI (task_ok_new m) eq_refl) as H.
      destruct HI as [Ht He Hf]. destruct H as [Ht' He' Hf']. split; simpl in *; auto.
    - (* start *)
      apply (Inv_same_holds s i t); auto.
      apply task_ok_set_st. eapply inv_tasks; eauto.
    - (* access *)
      apply (Inv_same_holds s i t); auto.
      apply (task_ok_adv t (Acc r m)); [eapply inv_tasks; eauto|exact Ha].
    - (* lock *)
      assert (Hok : task_ok (adv t true)).
      { apply (task_ok_adv t Lock); [eapply inv_tasks; eauto|exact Ha]. }
      destruct HI as [Ht He Hf]. split; simpl.
      + intros j u Hj. apply nth_set_cases in Hj as [(-> & -> & _)|(Hne & Hj)]; [exact Hok|eauto].
      + intros j k tj tk Hj Hk Hhj Hhk.
        apply nth_set_cases in Hj as [(-> & -> & _)|(Hnj & Hj)];
          apply nth_set_cases in Hk as [(-> & -> & _)|(Hnk & Hk)]; auto.
        * rewrite (Hf Hm _ _ Hk) in Hhk. discriminate.
        * rewrite (Hf Hm _ _ Hj) in Hhj. discriminate.
        * rewrite (Hf Hm _ _ Hj) in Hhj. discriminate.
      + discriminate.
    - (* unlock *)
      assert (Hok : task_ok (adv t false)).
      { apply (task_ok_adv t Unlock); [eapply inv_tasks; eauto|exact Ha]. }
      assert (Hheld : t_holds t = true).
      { destruct (inv_tasks s HI i t Hi) as [H1 H2]. rewrite H1.
        apply bracketed_unlock_held; [rewrite H2; apply Hbr|exact Ha]. }
      destruct HI as [Ht He Hf]. split; simpl.
      + intros j u Hj. apply nth_set_cases in Hj as [(-> & -> & _)|(Hne & Hj)]; [exact Hok|eauto].
      + intros j k tj tk Hj Hk Hhj Hhk.
        apply nth_set_cases in Hj as [(-> & -> & _)|(Hnj & Hj)]; [discriminate|].
        apply nth_set_cases in Hk as [(-> & -> & _)|(Hnk & Hk)]; [discriminate|].
        eapply He; eauto.
      + intros _ j u Hj. apply nth_set_cases in Hj as [(-> & -> & _)|(Hne & Hj)]; [reflexivity|].
        destruct (t_holds u) eqn:Hu; [|reflexivity].
        exfalso. apply Hne. eapply He; eauto.
    - (* spawn *)
      assert (HI1 : Inv (mkState (s_queue s) (set_nth i (adv t (t_holds t)) (s_pool s)) (s_mutex s) (s_log s))).
      { apply (Inv_same_holds s i t); auto.
        apply (task_ok_adv t (Spawn b)); [eapply inv_tasks; eauto|exact Ha]. }
      apply (Inv_append _ (bg_task hs bgs b) HI1 (task_ok_bg b) eq_refl).
    - (* finish *)
      apply (Inv_same_holds s i t); auto.
      apply task_ok_set_st. eapply inv_tasks; eauto.
  Qed.

  Lemma Inv_reachable msgs s : tables_bracketed -> reachable msgs s -> Inv s.
  Proof.
    intros Hbr. apply reachable_ind'; [apply Inv_init|].
    intros l s1 s2 _ HI Hs. eapply Inv_step; eauto.
  Qed.

  (* ---------------------------------------------------------------- races *)
  Lemma next_acc_spec t a :
    next_acc t = Some a ->
    is_running t = true /\ nth_error (t_body t) (t_pc t) = Some (Acc (fst a) (snd a)).
  Proof.
    unfold next_acc. destruct (is_running t); [|discriminate].
    destruct (nth_error (t_body t) (t_pc t)) as [[r m| | |b]|]; try discriminate.
    intros H. injection H as <-. auto.
  Qed.

  (* mutual exclusion of the critical sections *)
  Theorem mutual_exclusion msgs s i j ti tj :
    tables_bracketed -> reachable msgs s ->
    nth_error (s_pool s) i = Some ti -> nth_error (s_pool s) j = Some tj ->
    t_holds ti = true -> t_holds tj = true -> i = j.
  Proof. intros Hbr Hr. apply (inv_excl s (Inv_reachable msgs s Hbr Hr)). Qed.

  (* a race needs an access made outside the lock: it can only happen between bodies that may_race *)
  Theorem race_pair_may_race msgs s i j ti tj :
    tables_bracketed -> reachable msgs s -> race_pair s i j ->
    nth_error (s_pool s) i = Some ti -> nth_error (s_pool s) j = Some tj ->
    may_race (t_body ti) (t_body tj) = true.
  Proof.
    intros Hbr Hr [Hne (ti' & tj' & a & b & Hi & Hj & Ha & Hb & Hc)] Hi' Hj'.
    rewrite Hi in Hi'. injection Hi' as <-. rewrite Hj in Hj'. injection Hj' as <-.
    pose proof (Inv_reachable msgs s Hbr Hr) as HI.
    apply next_acc_spec in Ha as [_ Ha]. apply next_acc_spec in Hb as [_ Hb].
    destruct (inv_tasks s HI i ti' Hi) as [Hhi _]. destruct (inv_tasks s HI j tj' Hj) as [Hhj _].
    destruct (t_holds ti') eqn:Ei.
    - destruct (t_holds tj') eqn:Ej.
      + exfalso. apply Hne. eapply (inv_excl s HI); eauto.
      + eapply may_race_intro_r; [eapply all_accs_in; exact Ha| |exact Hc].
        destruct b as [rb mb]. eapply unlocked_accs_in; [exact Hb|congruence].
    - eapply may_race_intro_l; [|eapply all_accs_in; exact Hb|exact Hc].
      destruct a as [ra ma]. eapply unlocked_accs_in; [exact Ha|congruence].
  Qed.

  (* the discipline: every body of both tables takes the mutex before touching shared state *)
  Definition discipline : Prop := forall b h, locked_body (body_of b h) = true.

  Lemma discipline_of_forallb :
    forallb locked (hs ++ bgs) = true -> discipline.
  Proof.
    intros H b h. unfold Dispatch.body_of.
    destruct (nth_error (if b then bgs else hs) h) as [x|] eqn:E; [|reflexivity].
    rewrite forallb_forall in H. apply (H x). apply nth_error_In in E.
    apply in_or_app. destruct b; auto.
  Qed.

  Theorem discipline_sound msgs s : discipline -> reachable msgs s -> ~ race s.
  Proof.
    intros Hd Hr (i & j & Hrace).
    assert (Hbr : tables_bracketed).
    { intros b h. destruct (proj1 (locked_body_spec _) (Hd b h)) as [H _]. exact H. }
    pose proof Hrace as [_ (ti & tj & _ & _ & Hi & Hj & _)].
    pose proof (race_pair_may_race msgs s i j ti tj Hbr Hr Hrace Hi Hj) as Hm.
    pose proof (Inv_reachable msgs s Hbr Hr) as HI.
    destruct (inv_tasks s HI i ti Hi) as [_ Hbi]. destruct (inv_tasks s HI j tj Hj) as [_ Hbj].
    rewrite may_race_nil_l in Hm; [discriminate| |].
    - rewrite Hbi. apply (proj1 (locked_body_spec _) (Hd _ _)).
    - rewrite Hbj. apply (proj1 (locked_body_spec _) (Hd _ _)).
  Qed.

  (* boolean race check = the Prop *)
  Lemma race_pair_b_spec s i j : race_pair_b s i j = true <-> race_pair s i j.
  Proof.
    unfold race_pair_b, race_pair. split.
    - intros H. apply andb_true_iff in H as [Hne H]. apply negb_true_iff, Nat.eqb_neq in Hne.
      split; [exact Hne|].
      destruct (nth_error (s_pool s) i) as [ti|]; [|discriminate].
      destruct (nth_error (s_pool s) j) as [tj|]; [|discriminate].
      destruct (next_acc ti) as [a|] eqn:Ea; [|discriminate].
      destruct (next_acc tj) as [b|] eqn:Eb; [|discriminate].
      exists ti, tj, a, b. auto.
    - intros [Hne (ti & tj & a & b & Hi & Hj & Ha & Hb & Hc)].
      apply andb_true_iff. split; [apply negb_true_iff, Nat.eqb_neq; exact Hne|].
      rewrite Hi, Hj, Ha, Hb. exact Hc.
  Qed.

  Lemma race_b_spec s : race_b s = true <-> race s.
  Proof.
    unfold race_b, race. split.
    - intros H. apply existsb_exists in H as (i & _ & H). apply existsb_exists in H as (j & _ & H).
      exists i, j. apply race_pair_b_spec. exact H.
    - intros (i & j & H). pose proof H as [_ (ti & tj & _ & _ & Hi & Hj & _)].
      apply existsb_exists. exists i. split.
      { apply in_seq. split; [lia|]. simpl. apply nth_error_Some. congruence. }
      apply existsb_exists. exists j. split.
      { apply in_seq. split; [lia|]. simpl. apply nth_error_Some. congruence. }
      apply race_pair_b_spec. exact H.
  Qed.

  (* a successful witness search is a reachable race *)
  Lemma racy_sched_sound msgs ls i j :
    racy_sched hs bgs conc msgs ls i j = true -> exists s, reachable msgs s /\ race_pair s i j.
  Proof.
    unfold racy_sched. destruct (run ls (init msgs)) as [s|] eqn:E; [|discriminate].
    intros H. exists s. split; [exists ls; exact E|apply race_pair_b_spec; exact H].
  Qed.

  Lemma first_some_sound {A B} (f : A -> option B) l y :
    first_some f l = Some y -> exists x, In x l /\ f x = Some y.
  Proof.
    induction l as [|x l IH]; simpl; [discriminate|].
    destruct (f x) as [y'|] eqn:E.
    - intros H. injection H as <-. exists x. auto.
    - intros H. destruct (IH H) as (x' & Hin & Hx'). exists x'. auto.
  Qed.

  Lemma find_witness_sound msgs i li j lj ls :
    find_witness hs bgs conc msgs i li j lj = Some ls ->
    exists s, reachable msgs s /\ race_pair s i j.
  Proof.
    unfold find_witness. intros H.
    apply first_some_sound in H as (pi & _ & H).
    apply first_some_sound in H as (pj & _ & H).
    apply first_some_sound in H as (o & _ & H).
    destruct (racy_sched hs bgs conc msgs (sched (length msgs) i pi j pj o) i j) eqn:E; [|discriminate].
    eapply racy_sched_sound; exact E.
  Qed.

  (* ---------------------------------------------------------------- the notification barrier *)
  (* goroutines are listed in creation order: a notification created before a dispatched message has completed *)
  Definition Barrier (s : state) : Prop :=
    forall i j ti tj, i < j ->
      nth_error (s_pool s) i = Some ti -> nth_error (s_pool s) j = Some tj ->
      t_notif ti = true -> t_bg tj = false -> t_st ti = Done.

  Lemma barrier_open_spec pool i t :
    barrier_open pool = true -> nth_error pool i = Some t -> t_notif t = true -> t_st t = Done.
  Proof.
    unfold barrier_open. rewrite forallb_forall. intros H Hi Hn.
    specialize (H t (nth_error_In _ _ Hi)). rewrite Hn in H. simpl in H.
    unfold is_done in H. destruct (t_st t); try discriminate. reflexivity.
  Qed.

  (* replacing task i by one with the same flags and a status that is Done whenever the old one was *)
  Lemma Barrier_set s i t t' q' m' l' :
    Barrier s -> nth_error (s_pool s) i = Some t ->
    t_notif t' = t_notif t -> t_bg t' = t_bg t -> (t_st t = Done -> t_st t' = Done) ->
    Barrier (mkState q' (set_nth i t' (s_pool s)) m' l').
  Proof.
    intros HB Hi Hn Hb Hst j k tj tk Hlt Hj Hk Hnj Hbk. simpl in *.
    apply nth_set_cases in Hj as [(-> & -> & _)|(Hnj' & Hj)];
      apply nth_set_cases in Hk as [(-> & -> & _)|(Hnk' & Hk)]; try lia.
    - apply Hst. rewrite Hn in Hnj. eapply (HB i k); eauto.
    - rewrite Hb in Hbk. eapply (HB j i); eauto.
    - eapply (HB j k); eauto.
  Qed.

  Lemma Barrier_step l s s' : Barrier s -> step_spec l s s' -> Barrier s'.
  Proof.
    intros HB Hs. destruct Hs as [m q _ Hq Hb ->|i t _ Hi Hw Hc ->|i t r m _ Hi Hr Ha ->|i t _ Hi Hr Ha Hm ->
                                 |i t _ Hi Hr Ha Hm ->|i t b _ Hi Hr Ha ->|i t _ Hi Hr Hlen ->].
    - intros j k tj tk Hlt Hj Hk Hnj Hbk. simpl in *.
      apply nth_app_one_cases in Hk as [Hk|[-> ->]].
      + assert (Hj' : nth_error (s_pool s) j = Some tj).
        { rewrite nth_error_app1 in Hj; [exact Hj|]. apply Nat.lt_trans with k; [exact Hlt|].
          apply nth_error_Some. congruence. }
        eapply (HB j k); eauto.
      + rewrite nth_error_app1 in Hj by exact Hlt. eapply barrier_open_spec; eauto.
    - eapply Barrier_set; eauto. intros Hd. unfold is_waiting in Hw. rewrite Hd in Hw. discriminate.
    - eapply Barrier_set; eauto.
    - eapply Barrier_set; eauto.
    - eapply Barrier_set; eauto.
    - assert (HB1 : Barrier (mkState (s_queue s) (set_nth i (adv t (t_holds t)) (s_pool s)) (s_mutex s) (s_log s))).
      { eapply Barrier_set; eauto. }
      intros j k tj tk Hlt Hj Hk Hnj Hbk. simpl in *.
      apply nth_app_one_cases in Hk as [Hk|[-> ->]]; [|discriminate].
      assert (Hj' : nth_error (set_nth i (adv t (t_holds t)) (s_pool s)) j = Some tj).
      { rewrite nth_error_app1 in Hj; [exact Hj|]. apply Nat.lt_trans with k; [exact Hlt|].
        apply nth_error_Some. congruence. }
      eapply (HB1 j k); simpl; eauto.
    - eapply Barrier_set; eauto.
  Qed.

  Lemma Barrier_reachable msgs s : reachable msgs s -> Barrier s.
  Proof.
    apply reachable_ind'.
    - intros i j ti tj _ Hi. destruct i; discriminate.
    - intros l s1 s2 _ HB Hs. eapply Barrier_step; eauto.
  Qed.

  (* so a message handled after a notification never overlaps with it, whatever the locks *)
  Theorem notification_barrier msgs s i j ti tj :
    reachable msgs s -> i < j ->
    nth_error (s_pool s) i = Some ti -> nth_error (s_pool s) j = Some tj ->
    t_notif ti = true -> t_bg tj = false -> race_pair s i j -> False.
  Proof.
    intros Hr Hlt Hi Hj Hn Hb [_ (ti' & tj' & a & b & Hi' & Hj' & Ha & _)].
    rewrite Hi in Hi'. injection Hi' as <-.
    pose proof (Barrier_reachable msgs s Hr i j ti tj Hlt Hi Hj Hn Hb) as Hd.
    apply next_acc_spec in Ha as [Hrun _]. unfold is_running in Hrun. rewrite Hd in Hrun. discriminate.
  Qed.

  (* ---------------------------------------------------------------- progress (no deadlock) *)
  Definition enabled (s : state) : Prop := exists l s', step l s = Some s'.

  Lemma filter_length_pos {A} (f : A -> bool) l x : In x l -> f x = true -> 0 < length (filter f l).
  Proof.
    induction l as [|y l IH]; simpl; [tauto|].
    intros [->|Hin] Hf.
    - rewrite Hf. simpl. lia.
    - destruct (f y); simpl; [lia|auto].
  Qed.

  Lemma existsb_nth {A} (f : A -> bool) l :
    existsb f l = true -> exists i x, nth_error l i = Some x /\ f x = true.
  Proof.
    intros H. apply existsb_exists in H as (x & Hin & Hf).
    apply In_nth_error in Hin as [i Hi]. eauto.
  Qed.

  (* a running task that is not blocked can move *)
  Lemma running_task_moves s i t :
    Inv s -> tables_bracketed ->
    nth_error (s_pool s) i = Some t -> is_running t = true ->
    (nth_error (t_body t) (t_pc t) = Some Lock -> s_mutex s = false) ->
    enabled s.
  Proof.
    intros HI Hbr Hi Hr Hlock.
    destruct (nth_error (t_body t) (t_pc t)) as [[r m| | |b]|] eqn:Ea.
    - exists (LStep i). eexists. unfold Dispatch.step. rewrite Hi, Hr, Ea. reflexivity.
    - exists (LStep i). eexists. unfold Dispatch.step. rewrite Hi, Hr, Ea, (Hlock eq_refl). reflexivity.
    - assert (Hheld : t_holds t = true).
      { destruct (inv_tasks s HI i t Hi) as [H1 H2]. rewrite H1.
        apply bracketed_unlock_held; [rewrite H2; apply Hbr|exact Ea]. }
      assert (Hm : s_mutex s = true).
      { destruct (s_mutex s) eqn:Em; [reflexivity|]. rewrite (inv_free s HI Em i t Hi) in Hheld. discriminate. }
      exists (LStep i). eexists. unfold Dispatch.step. rewrite Hi, Hr, Ea, Hm. reflexivity.
    - exists (LStep i). eexists. unfold Dispatch.step. rewrite Hi, Hr, Ea. reflexivity.
    - exists (LFinish i). eexists. unfold Dispatch.step. rewrite Hi, Hr.
      apply nth_error_None in Ea. apply Nat.leb_le in Ea. rewrite Ea. reflexivity.
  Qed.

  (* the holder of the mutex is a running task (it acquired it while running and has not returned):
     needed for progress; proved as part of an extended invariant *)
  Definition HolderRuns (s : state) : Prop :=
    (forall i t, nth_error (s_pool s) i = Some t -> t_holds t = true -> is_running t = true) /\
    (s_mutex s = true -> exists i t, nth_error (s_pool s) i = Some t /\ t_holds t = true) /\
    (forall i t, nth_error (s_pool s) i = Some t -> is_waiting t = true -> t_pc t = 0).

  Lemma held_false_at_end body : bracketed body = true -> forall pc, length body <= pc -> held_at body pc = false.
  Proof.
    intros Hb pc Hlen. unfold held_at. rewrite firstn_all2 by exact Hlen.
    apply bracketed_from_end. exact Hb.
  Qed.

  Lemma HolderRuns_step l s s' :
    tables_bracketed -> Inv s -> HolderRuns s -> step_spec l s s' -> HolderRuns s'.
  Proof.
    intros Hbr HI (H1 & H2 & H3) Hs.
    destruct Hs as [m q _ Hq Hb ->|i t _ Hi Hw Hc ->|i t r m _ Hi Hr Ha ->|i t _ Hi Hr Ha Hm ->
                   |i t _ Hi Hr Ha Hm ->|i t b _ Hi Hr Ha ->|i t _ Hi Hr Hlen ->]; simpl.
    - split; [|split]; simpl.
      + intros j u Hj Hh. apply nth_app_one_cases in Hj as [Hj|[_ ->]]; [eauto|discriminate].
      + intros Hm. destruct (H2 Hm) as (j & u & Hj & Hh). exists j, u. split; [|exact Hh].
        rewrite nth_error_app1; [exact Hj|]. apply nth_error_Some. congruence.
      + intros j u Hj Hwj. apply nth_app_one_cases in Hj as [Hj|[_ ->]]; [eauto|reflexivity].
    - assert (Hnh : t_holds t = false).
      { destruct (inv_tasks s HI i t Hi) as [Hh _]. rewrite Hh, (H3 i t Hi Hw). reflexivity. }
      split; [|split]; simpl.
      + intros j u Hj Hh. apply nth_set_cases in Hj as [(-> & -> & _)|(Hne & Hj)]; [reflexivity|eauto].
      + intros Hm. destruct (H2 Hm) as (j & u & Hj & Hh). destruct (Nat.eq_dec j i) as [->|Hne].
        * rewrite Hi in Hj. injection Hj as <-. congruence.
        * exists j, u. split; [|exact Hh]. rewrite nth_error_set_nth_neq by congruence. exact Hj.
      + intros j u Hj Hwj. apply nth_set_cases in Hj as [(-> & -> & _)|(Hne & Hj)]; [discriminate|eauto].
    - split; [|split]; simpl.
      + intros j u Hj Hh. apply nth_set_cases in Hj as [(-> & -> & _)|(Hne & Hj)]; [exact Hr|eauto].
      + intros Hm. destruct (H2 Hm) as (j & u & Hj & Hh). destruct (Nat.eq_dec j i) as [->|Hne].
        * rewrite Hi in Hj. injection Hj as <-. exists i, (adv t (t_holds t)). split; [|exact Hh].
          apply nth_error_set_nth_eq. apply nth_error_Some. congruence.
        * exists j, u. split; [|exact Hh]. rewrite nth_error_set_nth_neq by congruence. exact Hj.
      + intros j u Hj Hwj. apply nth_set_cases in Hj as [(-> & -> & _)|(Hne & Hj)]; [|eauto].
        unfold is_waiting in Hwj. unfold is_running in Hr. simpl in Hwj. destruct (t_st t); discriminate.
    - split; [|split]; simpl.
      + intros j u Hj Hh. apply nth_set_cases in Hj as [(-> & -> & _)|(Hne & Hj)]; [exact Hr|eauto].
      + intros _. exists i, (adv t true). split; [|reflexivity].
        apply nth_error_set_nth_eq. apply nth_error_Some. congruence.
      + intros j u Hj Hwj. apply nth_set_cases in Hj as [(-> & -> & _)|(Hne & Hj)]; [|eauto].
        unfold is_waiting in Hwj. unfold is_running in Hr. simpl in Hwj. destruct (t_st t); discriminate.
    - split; [|split]; simpl.
      + intros j u Hj Hh. apply nth_set_cases in Hj as [(-> & -> & _)|(Hne & Hj)]; [discriminate|eauto].
      + discriminate.
      + intros j u Hj Hwj. apply nth_set_cases in Hj as [(-> & -> & _)|(Hne & Hj)]; [|eauto].
        unfold is_waiting in Hwj. unfold is_running in Hr. simpl in Hwj. destruct (t_st t); discriminate.
    - split; [|split]; simpl.
      + intros j u Hj Hh. apply nth_app_one_cases in Hj as [Hj|[_ ->]]; [|discriminate].
        apply nth_set_cases in Hj as [(-> & -> & _)|(Hne & Hj)]; [exact Hr|eauto].
      + intros Hm. destruct (H2 Hm) as (j & u & Hj & Hh). destruct (Nat.eq_dec j i) as [->|Hne].
        * rewrite Hi in Hj. injection Hj as <-. exists i, (adv t (t_holds t)). split; [|exact Hh].
          rewrite nth_error_app1 by (rewrite set_nth_length; apply nth_error_Some; congruence).
          apply nth_error_set_nth_eq. apply nth_error_Some. congruence.
        * exists j, u. split; [|exact Hh].
          rewrite nth_error_app1 by (rewrite set_nth_length; apply nth_error_Some; congruence).
          rewrite nth_error_set_nth_neq by congruence. exact Hj.
      + intros j u Hj Hwj. apply nth_app_one_cases in Hj as [Hj|[_ ->]]; [|discriminate].
        apply nth_set_cases in Hj as [(-> & -> & _)|(Hne & Hj)]; [|eauto].
        unfold is_waiting in Hwj. unfold is_running in Hr. simpl in Hwj. destruct (t_st t); discriminate.
    - assert (Hnh : t_holds t = false).
      { destruct (inv_tasks s HI i t Hi) as [Hh Hb]. rewrite Hh.
        apply held_false_at_end; [rewrite Hb; apply Hbr|exact Hlen]. }
      split; [|split]; simpl.
      + intros j u Hj Hh. apply nth_set_cases in Hj as [(-> & -> & _)|(Hne & Hj)]; [simpl in Hh; congruence|eauto].
      + intros Hm. destruct (H2 Hm) as (j & u & Hj & Hh). destruct (Nat.eq_dec j i) as [->|Hne].
        * rewrite Hi in Hj. injection Hj as <-. congruence.
        * exists j, u. split; [|exact Hh]. rewrite nth_error_set_nth_neq by congruence. exact Hj.
      + intros j u Hj Hwj. apply nth_set_cases in Hj as [(-> & -> & _)|(Hne & Hj)]; [discriminate|eauto].
  Qed.

  Lemma HolderRuns_reachable msgs s : tables_bracketed -> reachable msgs s -> Inv s /\ HolderRuns s.
  Proof.
    intros Hbr Hr. revert s Hr. apply (reachable_ind' msgs (fun s => Inv s /\ HolderRuns s)).
    - split; [apply Inv_init|]. split; [|split]; simpl; try discriminate; intros i t H; destruct i; discriminate.
    - intros l s1 s2 _ [HI HH] Hs. split; [eapply Inv_step; eauto|eapply HolderRuns_step; eauto].
  Qed.

  (* no deadlock: from every reachable state that is not complete some step is possible *)
  Theorem progress msgs s :
    tables_bracketed -> 0 < conc -> reachable msgs s -> complete s = false -> enabled s.
  Proof.
    intros Hbr Hconc Hr Hc. destruct (HolderRuns_reachable msgs s Hbr Hr) as [HI (H1 & H2 & H3)].
    destruct (s_mutex s) eqn:Em.
    - (* the holder runs and is never blocked *)
      destruct (H2 eq_refl) as (i & t & Hi & Hh).
      apply (running_task_moves s i t HI Hbr Hi (H1 i t Hi Hh)).
      intros Ha. exfalso.
      destruct (inv_tasks s HI i t Hi) as [Hhh Hb]. rewrite Hhh in Hh.
      unfold held_at in Hh. rewrite (bracketed_from_lock false (t_body t) (t_pc t)) in Hh; [discriminate| |exact Ha].
      rewrite Hb. apply Hbr.
    - (* mutex free: any running task can move *)
      destruct (existsb is_running (s_pool s)) eqn:Er.
      + apply existsb_nth in Er as (i & t & Hi & Hrun).
        apply (running_task_moves s i t HI Hbr Hi Hrun). intros _. exact Em.
      + (* nobody runs: a waiting task can start, or the next message can be dispatched *)
        assert (Hnr : forall i t, nth_error (s_pool s) i = Some t -> is_running t = false).
        { intros i t Hi. destruct (is_running t) eqn:E; [|reflexivity].
          assert (existsb is_running (s_pool s) = true); [|congruence].
          apply existsb_exists. exists t. split; [eapply nth_error_In; eauto|exact E]. }
        assert (Hcount : running_count (s_pool s) = 0).
        { unfold running_count. destruct (filter _ (s_pool s)) as [|x l] eqn:Ef; [reflexivity|].
          assert (Hin : In x (filter (fun t => is_running t && negb (t_bg t)) (s_pool s))) by (rewrite Ef; left; reflexivity).
          apply filter_In in Hin as [Hin Hx]. apply andb_true_iff in Hx as [Hx _].
          apply In_nth_error in Hin as [i Hi]. rewrite (Hnr i x Hi) in Hx. discriminate. }
        destruct (existsb is_waiting (s_pool s)) eqn:Ew.
        * apply existsb_nth in Ew as (i & t & Hi & Hw).
          exists (LStart i). eexists. unfold Dispatch.step. rewrite Hi, Hw, Hcount.
          apply Nat.ltb_lt in Hconc. rewrite Hconc. reflexivity.
        * assert (Hdone : forallb is_done (s_pool s) = true).
          { apply forallb_forall. intros t Hin. apply In_nth_error in Hin as [i Hi].
            pose proof (Hnr i t Hi) as Hx.
            assert (Hy : is_waiting t = false).
            { destruct (is_waiting t) eqn:E; [|reflexivity].
              assert (existsb is_waiting (s_pool s) = true); [|congruence].
              apply existsb_exists. exists t. split; [eapply nth_error_In; eauto|exact E]. }
            unfold is_running in Hx. unfold is_waiting in Hy. unfold is_done. destruct (t_st t); congruence. }
          unfold complete in Hc. rewrite Hdone, andb_true_r in Hc.
          destruct (s_queue s) as [|m q] eqn:Eq; [discriminate|].
          exists LDispatch. eexists. unfold Dispatch.step. rewrite Eq.
          assert (Hbo : barrier_open (s_pool s) = true).
          { unfold barrier_open. apply forallb_forall. intros t Hin.
            rewrite forallb_forall in Hdone. rewrite (Hdone t Hin). apply orb_true_r. }
          rewrite Hbo. reflexivity.
  Qed.
  (* ---------------------------------------------------------------- checked witnesses *)
  Lemma witness_check_sound h w :
    witness_check hs bgs conc h w = true ->
    exists s i j ti, reachable (fst w) s /\ race_pair s i j /\
                     nth_error (s_pool s) i = Some ti /\ t_h ti = h /\ t_bg ti = false.
  Proof.
    unfold witness_check. destruct (run (snd w) (init (fst w))) as [s|] eqn:E; [|discriminate].
    intros H. apply existsb_exists in H as (i & _ & H).
    destruct (nth_error (s_pool s) i) as [ti|] eqn:Ei; [|discriminate].
    apply andb_true_iff in H as [H Hr]. apply andb_true_iff in H as [Hh Hb].
    apply existsb_exists in Hr as (j & _ & Hr).
    exists s, i, j, ti. split; [exists (snd w); exact E|]. split; [apply race_pair_b_spec; exact Hr|].
    split; [exact Ei|]. split; [apply Nat.eqb_eq; exact Hh|apply negb_true_iff; exact Hb].
  Qed.

  Lemma refuted_b_sound h :
    refuted_b hs bgs conc h = true ->
    exists msgs s i j ti, reachable msgs s /\ race_pair s i j /\
                          nth_error (s_pool s) i = Some ti /\ t_h ti = h /\ t_bg ti = false.
  Proof.
    unfold refuted_b. destruct (refute hs bgs conc h) as [w|]; [|discriminate].
    intros H. destruct (witness_check_sound h w H) as (s & i & j & ti & H1). exists (fst w), s, i, j, ti. exact H1.
  Qed.

  Lemma bg_witness_check_sound b w :
    bg_witness_check hs bgs conc b w = true ->
    exists s i j ti, reachable (fst w) s /\ race_pair s i j /\
                     nth_error (s_pool s) i = Some ti /\ t_h ti = b /\ t_bg ti = true.
  Proof.
    unfold bg_witness_check. destruct (run (snd w) (init (fst w))) as [s|] eqn:E; [|discriminate].
    intros H. apply existsb_exists in H as (i & _ & H).
    destruct (nth_error (s_pool s) i) as [ti|] eqn:Ei; [|discriminate].
    apply andb_true_iff in H as [H Hr]. apply andb_true_iff in H as [Hh Hb].
    apply existsb_exists in Hr as (j & _ & Hr).
    exists s, i, j, ti. split; [exists (snd w); exact E|]. split; [apply race_pair_b_spec; exact Hr|].
    split; [exact Ei|]. split; [apply Nat.eqb_eq; exact Hh|exact Hb].
  Qed.

  Lemma bg_refuted_b_sound b :
    bg_refuted_b hs bgs conc b = true ->
    exists msgs s i j ti, reachable msgs s /\ race_pair s i j /\
                          nth_error (s_pool s) i = Some ti /\ t_h ti = b /\ t_bg ti = true.
  Proof.
    unfold bg_refuted_b. destruct (bg_refute hs bgs conc b) as [w|]; [|discriminate].
    intros H. destruct (bg_witness_check_sound b w H) as (s & i & j & ti & H1). exists (fst w), s, i, j, ti. exact H1.
  Qed.

  (* a race always has a side whose body breaks the discipline *)
  Lemma may_race_blames b1 b2 : may_race b1 b2 = true -> unlocked_accs b1 <> [] \/ unlocked_accs b2 <> [].
  Proof.
    unfold may_race. intros H. apply orb_true_iff in H as [H|H]; apply existsb_exists in H as (x & Hx & _).
    - left. intros E. rewrite E in Hx. destruct Hx.
    - right. intros E. rewrite E in Hx. destruct Hx.
  Qed.
End Dispatcher.
