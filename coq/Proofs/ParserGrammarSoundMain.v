(* C03, token level, soundness: the induction on the fuel and the top-level theorems.
   parse_tokens_sound : a run of BeginAnalyze (any fuel) that reports no parse error on a token list that ends with
                        its only EOF token and has no token of kind "illegal" parsed a Chunk of the grammar.
   parse_tokens_iff   : with the pipeline's fuel, Chunk <-> no parse error (below the 31-error cut-off). *)
From Coq Require Import List NArith ZArith Bool Arith Lia.
From LH Require Import Base.Bytes Base.Res Model.Lexer Model.Ast Model.Parser Model.LuaFront Spec.LuaGrammar.
From LH Require Import Proofs.ParserGrammarBase Proofs.ParserGrammarMono Proofs.ParserGrammarFlat
     Proofs.ParserGrammarComplete Proofs.ParserGrammarPost Proofs.ParserGrammarCompleteMain
     Proofs.ParserGrammarCompleteTop
     Proofs.ParserGrammarSoundBase Proofs.ParserGrammarSoundDefs Proofs.ParserGrammarSoundStat
     Proofs.ParserGrammarSoundStat2 Proofs.ParserGrammarSoundExp.
From LH Require Import Proofs.LexerTotalWf Proofs.LexerTotalMain Proofs.ParserTotalBase Proofs.ParserTotalMain.
Import ListNotations.

(* ------------------------------------------------------------------ the guard, as a boolean *)
Fixpoint ends_eof_b (ts : list ltok) : bool :=
  match ts with
  | [] => false
  | [e] => tk_eqb (kd e) TkEOF
  | t :: r => negb (tk_eqb (kd t) TkEOF) && ends_eof_b r
  end.
Definition no_illegal_b (ts : list ltok) : bool := forallb (fun t => negb (tk_eqb (kd t) IKIllegal)) ts.
Definition tokens_ok (ts : list ltok) : bool := ends_eof_b ts && no_illegal_b ts.

Lemma ends_eof_wfl ts : ends_eof_b ts = true <-> wfl ts.
Proof.
  split.
  - induction ts as [|t r IH]; [discriminate|]. destruct r as [|t2 r].
    + cbn. intros H. constructor. apply tk_eqb_eq. exact H.
    + intros H. change (negb (tk_eqb (kd t) TkEOF) && ends_eof_b (t2 :: r) = true) in H.
      apply andb_true_iff in H. destruct H as [H1 H2]. apply negb_true_iff in H1. apply tk_eqb_neq in H1.
      constructor; auto.
  - induction 1 as [e K | t r N W IH].
    + cbn. apply tk_eqb_eq. exact K.
    + destruct r as [|t2 r]; [inversion W|].
      change (negb (tk_eqb (kd t) TkEOF) && ends_eof_b (t2 :: r) = true).
      apply andb_true_iff. split; [|exact IH]. apply negb_true_iff. apply tk_eqb_neq. exact N.
Qed.
Lemma no_illegal_legal ts : no_illegal_b ts = true <-> legal ts.
Proof.
  unfold no_illegal_b, legal. rewrite forallb_forall, Forall_forall. split; intros H t Hin.
  - specialize (H t Hin). apply negb_true_iff in H. apply tk_eqb_neq. exact H.
  - apply negb_true_iff. apply tk_eqb_neq. apply H. exact Hin.
Qed.
Lemma tokens_ok_okl ts : tokens_ok ts = true <-> okl ts.
Proof.
  unfold tokens_ok, okl. rewrite andb_true_iff, ends_eof_wfl, no_illegal_legal. tauto.
Qed.

(* what the lexer guarantees (lex_all_wf) is the first half of the guard *)
Lemma wf_tokens_wfl' ts : LexerTotalWf.wf_tokens ts -> wfl ts.
Proof.
  intros (Hne & Hl & Hall). induction ts as [|t r IH]; [congruence|]. destruct r as [|t2 r].
  - constructor. exact Hl.
  - constructor.
    + apply Hall. left. reflexivity.
    + apply IH; [discriminate | exact Hl |]. intros x Hx. apply Hall. right. exact Hx.
Qed.

Section Main.
  Variable classify : list N -> numcls.

  Theorem sound_all : forall n, sound_at classify n.
  Proof.
    induction n as [|n IH].
    - unfold sound_at, C_block, C_block_loc, C_block_loc_excl, C_stats, C_stat, C_assign_or_call, C_if_tail,
        C_varlist_tail, C_explist, C_explist_tail, C_subexp, C_binop_loop, C_exp0, C_prefixexp, C_finish_prefix,
        C_args, C_table, C_fieldlist_tail, C_field, C_funcdef.
      repeat apply conj; intros; discriminate.
    - unfold sound_at. repeat apply conj.
      + apply S_block; exact IH.
      + apply S_block_loc; exact IH.
      + apply S_block_loc_excl; exact IH.
      + apply S_stats; exact IH.
      + apply S_stat; exact IH.
      + apply S_assign_or_call; exact IH.
      + apply S_if_tail; exact IH.
      + apply S_varlist_tail; exact IH.
      + apply S_explist; exact IH.
      + apply S_explist_tail; exact IH.
      + apply S_subexp; exact IH.
      + apply S_binop_loop; exact IH.
      + apply S_exp0; exact IH.
      + apply S_prefixexp; exact IH.
      + apply S_finish_prefix; exact IH.
      + apply S_args; exact IH.
      + apply S_table; exact IH.
      + apply S_fieldlist_tail; exact IH.
      + apply S_field; exact IH.
      + apply S_funcdef; exact IH.
  Qed.

  Theorem parse_tokens_sound : forall fuel ts b le,
    tokens_ok ts = true -> parse_tokens classify fuel ts = Ok (PR b le []) -> Chunk classify ts.
  Proof.
    intros fuel ts b le G H. apply tokens_ok_okl in G. unfold parse_tokens in H.
    destruct (p_block_loc classify fuel (init_pst ts)) as [[b0 st1]|k|] eqn:E; try discriminate.
    destruct (Nat.leb 31 _); [discriminate|]. injection H as _ _ Hp.
    destruct (mono_all classify fuel) as (_ & M2 & _). pose proof (proj1 (M2 _ _ _ E)) as Hm.
    pose proof (ec_expect_ge TkEOF st1) as Hx. unfold ec in Hm, Hx. rewrite Hp in Hx. cbn [length] in Hx. cbn [init_pst perrs length] in Hm.
    destruct (sound_all fuel) as (_ & S2 & _).
    destruct (S2 _ _ _ E G ltac:(unfold ec; cbn [init_pst perrs length]; lia)) as [HB [W L]].
    cbn [init_pst rest] in HB.
    destruct (wfl_hd _ W) as (t & r & Er).
    unfold expect in Hp. rewrite (now_kind_next _ _ _ Er) in Hp.
    destruct (tk_eqb (kd t) TkEOF) eqn:K.
    - apply tk_eqb_eq in K. rewrite Er in W. inversion W; subst; [|congruence].
      exists [t], t. rewrite <- Er. auto.
    - unfold err in Hp. cbn [perrs] in Hp. destruct (perrs (next st1)); discriminate.
  Qed.

  (* both directions with the fuel of the pipeline; the 31-error cut-off (lexical errors count) is excluded *)
  Theorem parse_tokens_iff : forall ts,
    tokens_ok ts = true -> length (flat_map lerrs ts) < 31 ->
    (Chunk classify ts <-> exists b, parse_tokens classify (fuel_of_tokens ts) ts = Ok (PR b (flat_map lerrs ts) [])).
  Proof.
    intros ts G Hl. split.
    - intros HC. destruct (parse_tokens_complete classify ts HC) as (r & E & R). unfold chunk_result in R.
      destruct (Nat.leb 31 (length (flat_map lerrs ts))) eqn:C; [apply Nat.leb_le in C; lia|].
      destruct R as [b ->]. eauto.
    - intros [b E]. eapply parse_tokens_sound; eauto.
  Qed.

  (* as the pipeline runs it: bytes -> lexer -> parser_view -> parser *)
  Variable gbk_runes : list N -> Z.
  Corollary parse_bytes_sound : forall bs ts b le,
    lex_all gbk_runes bs = Ok ts -> no_illegal_b (parser_view ts) = true ->
    parse_bytes gbk_runes classify bs = Ok (PR b le []) -> Chunk classify (parser_view ts).
  Proof.
    intros bs ts b le E G H. unfold parse_bytes in H. rewrite E in H. cbn [rbind] in H. cbv zeta in H.
    eapply parse_tokens_sound; [|exact H]. unfold tokens_ok. rewrite G, andb_true_r.
    apply ends_eof_wfl. apply wf_tokens_wfl'. apply parser_view_wf. eapply lex_all_wf. exact E.
  Qed.
End Main.
