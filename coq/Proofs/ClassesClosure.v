(* C15: the traversal with its two visited structures computes exactly the reachability closure of the spec:
   for the repaired lookup (fx = true, fix 53b8e25) without any guard; for the lookup before the fix
   (fx = false) provided no multiply-declared name is referred to from a file that declares it (shadow_free).

   Soundness (every class it returns is reachable) needs no hypothesis.
   Completeness is a depth-first-search argument with a set Q of PENDING names: names that are already in strMap
   (or are the class being expanded) but whose declarations are still being processed further up the call stack.
     settled s n   all declarations of n are in repeatTypeList
     okname Q s m  m is settled or pending
     closed Q s d  every name d refers to is okname
     Inv Q s       every name of strMap is okname
   getClassTypeInfoList n returns with n settled and with every definition it added closed; at top level nothing
   is pending, so the final repeatTypeList is closed under "refers to" and contains the start names. *)
From Coq Require Import List NArith ZArith Bool Lia Relations Operators_Properties Permutation.
From LH Require Import Base.Res Model.Classes Spec.ClassClosure Proofs.ClassesTotal.
Import ListNotations.
Local Open Scope N_scope.

Lemma rbind_ok {A B} (r : Res A) (k : A -> Res B) b :
  rbind r k = Ok b -> exists a, r = Ok a /\ k a = Ok b.
Proof. destruct r as [a| |]; simpl; intros H; try discriminate. exists a. split; [reflexivity|exact H]. Qed.

Lemma id_inj (tm : tmap) d d' :
  NoDup (map d_id tm) -> In d tm -> In d' tm -> d_id d = d_id d' -> d = d'.
Proof.
  induction tm as [|x tm IH]; intros Hnd H1 H2 He; [destruct H1|].
  simpl in Hnd. inversion Hnd as [|? ? Hnot Hnd']; subst.
  destruct H1 as [->|H1], H2 as [->|H2].
  - reflexivity.
  - exfalso. apply Hnot. rewrite He. apply in_map. exact H2.
  - exfalso. apply Hnot. rewrite <- He. apply in_map. exact H1.
  - apply IH; assumption.
Qed.

Lemma sdefs_in tm n d : In d (sdefs tm n) <-> n <> n_any /\ In d (global_defs tm n).
Proof.
  unfold sdefs. destruct (n =? n_any) eqn:E.
  - apply N.eqb_eq in E. split; [intros []|intros [H _]; congruence].
  - apply N.eqb_neq in E. tauto.
Qed.

Lemma edge_of_ref tm n d m :
  n <> n_any -> In d (global_defs tm n) -> In m (refs_of d) -> edge tm n m.
Proof.
  intros Hn Hd Hm. unfold edge, succs. apply in_flat_map. exists d. split; [|exact Hm].
  apply sdefs_in. split; assumption.
Qed.

Lemma edge_inv tm n m : edge tm n m -> exists d, n <> n_any /\ In d (global_defs tm n) /\ In m (refs_of d).
Proof.
  unfold edge, succs. intros H. apply in_flat_map in H. destruct H as [d [Hd Hm]].
  apply sdefs_in in Hd. exists d. tauto.
Qed.

(* ================================================================== soundness *)
Section Sound.
  Variable fx : bool.
  Variable tm : tmap.

  Definition from (n : name) (d : def) : Prop := exists m, reach tm n m /\ In d (sdefs tm m).

  Definition SoundV (V : visitor) : Prop :=
    forall n f l s o s', In n_any (s_names s) -> n <> n_any -> V n f l s = Ok (o, s') ->
      incl (s_names s) (s_names s') /\ forall d, In d o -> from n d.

  Lemma notin_names_neq_any s m : In n_any (s_names s) -> mem m (s_names s) = false -> m <> n_any.
  Proof. intros Ha Hm E. subst. apply mem_false_iff in Hm. contradiction. Qed.

  Lemma parents_s V self ps f l : SoundV V -> forall s o s',
    In n_any (s_names s) -> parents_loop V self ps f l s = Ok (o, s') ->
    incl (s_names s) (s_names s') /\ forall d, In d o -> exists p, In p ps /\ from p d.
  Proof.
    intros HV. induction ps as [|p ps IH]; intros s o s' Ha H; simpl in H.
    - injection H as <- <-. split; [apply incl_refl|intros d []].
    - destruct (mem p (s_names s) || (self =? p)) eqn:Hsk.
      + destruct (IH s o s' Ha H) as [I1 I2]. split; [exact I1|].
        intros d Hd. destruct (I2 d Hd) as [q [Hq Hf]]. exists q. split; [right; exact Hq|exact Hf].
      + apply orb_false_iff in Hsk. destruct Hsk as [Hm _].
        apply rbind_ok in H. destruct H as [[o1 s1] [E1 H]].
        apply rbind_ok in H. destruct H as [[o2 s2] [E2 H]]. simpl in H. injection H as <- <-.
        destruct (HV p f l s o1 s1 Ha (notin_names_neq_any s p Ha Hm) E1) as [I1 F1].
        destruct (IH s1 o2 s2 (I1 _ Ha) E2) as [I2 F2].
        split; [eapply incl_tran; eassumption|].
        intros d Hd. apply in_app_or in Hd. destruct Hd as [Hd|Hd].
        * exists p. split; [left; reflexivity|apply F1; exact Hd].
        * destruct (F2 d Hd) as [q [Hq Hf]]. exists q. split; [right; exact Hq|exact Hf].
  Qed.

  Lemma names_s V ns f l : SoundV V -> forall s o s',
    In n_any (s_names s) -> names_loop V ns f l s = Ok (o, s') ->
    incl (s_names s) (s_names s') /\ forall d, In d o -> exists p, In p ns /\ from p d.
  Proof.
    intros HV. induction ns as [|p ns IH]; intros s o s' Ha H; simpl in H.
    - injection H as <- <-. split; [apply incl_refl|intros d []].
    - destruct (mem p (s_names s)) eqn:Hm.
      + destruct (IH s o s' Ha H) as [I1 I2]. split; [exact I1|].
        intros d Hd. destruct (I2 d Hd) as [q [Hq Hf]]. exists q. split; [right; exact Hq|exact Hf].
      + apply rbind_ok in H. destruct H as [[o1 s1] [E1 H]].
        apply rbind_ok in H. destruct H as [[o2 s2] [E2 H]]. simpl in H. injection H as <- <-.
        assert (Ha' : In n_any (s_names (add_name p s))) by (right; exact Ha).
        destruct (HV p f l (add_name p s) o1 s1 Ha' (notin_names_neq_any s p Ha Hm) E1) as [I1 F1].
        destruct (IH s1 o2 s2 (I1 _ Ha') E2) as [I2 F2].
        split.
        * eapply incl_tran; [|exact I2]. eapply incl_tran; [|exact I1]. apply incl_tl, incl_refl.
        * intros d Hd. apply in_app_or in Hd. destruct Hd as [Hd|Hd].
          -- exists p. split; [left; reflexivity|apply F1; exact Hd].
          -- destruct (F2 d Hd) as [q [Hq Hf]]. exists q. split; [right; exact Hq|exact Hf].
  Qed.

  Lemma from_step n p d : edge tm n p -> from p d -> from n d.
  Proof.
    intros He [m [Hr Hd]]. exists m. split; [|exact Hd].
    eapply rt_trans; [apply rt_step; exact He|exact Hr].
  Qed.

  Lemma one_def_s V n d : SoundV V -> n <> n_any -> In d (global_defs tm n) -> forall s o s',
    In n_any (s_names s) -> one_def V n d s = Ok (o, s') ->
    incl (s_names s) (s_names s') /\ forall d', In d' o -> from n d'.
  Proof.
    intros HV Hn Hd s o s' Ha H. unfold one_def in H.
    destruct (d_kind d) as [ps fs|t] eqn:Hk.
    - apply rbind_ok in H. destruct H as [[o1 s1] [E1 H]]. simpl in H. injection H as <- <-.
      destruct (parents_s V n ps (d_file d) (d_line d) HV s o1 s1 Ha E1) as [I1 F1].
      split; [exact I1|]. intros d' [<-|Hd'].
      + exists n. split; [apply rt_refl|apply sdefs_in; split; assumption].
      + destruct (F1 d' Hd') as [p [Hp Hf]]. apply from_step with p; [|exact Hf].
        apply edge_of_ref with d; [exact Hn|exact Hd|]. unfold refs_of. rewrite Hk. exact Hp.
    - destruct (names_s V (normal_names t) (d_file d) (d_line d) HV s o s' Ha H) as [I1 F1].
      split; [exact I1|]. intros d' Hd'.
      destruct (F1 d' Hd') as [p [Hp Hf]]. apply from_step with p; [|exact Hf].
      apply edge_of_ref with d; [exact Hn|exact Hd|]. unfold refs_of. rewrite Hk. exact Hp.
  Qed.

  Lemma defs_s V n ds : SoundV V -> n <> n_any -> (forall d, In d ds -> In d (global_defs tm n)) ->
    forall s o s', In n_any (s_names s) -> defs_loop V n ds s = Ok (o, s') ->
    incl (s_names s) (s_names s') /\ forall d', In d' o -> from n d'.
  Proof.
    intros HV Hn. induction ds as [|d ds IH]; intros Hin s o s' Ha H; simpl in H.
    - injection H as <- <-. split; [apply incl_refl|intros d []].
    - assert (Hin' : forall d0, In d0 ds -> In d0 (global_defs tm n)) by (intros d0 H0; apply Hin; right; exact H0).
      destruct (mem (d_id d) (s_defs s)); [apply IH; assumption|].
      apply rbind_ok in H. destruct H as [[o1 s1] [E1 H]].
      apply rbind_ok in H. destruct H as [[o2 s2] [E2 H]]. simpl in H. injection H as <- <-.
      destruct (one_def_s V n d HV Hn (Hin d (or_introl eq_refl)) (add_def d s) o1 s1 Ha E1) as [I1 F1].
      destruct (IH Hin' s1 o2 s2 (I1 _ Ha) E2) as [I2 F2].
      split; [eapply incl_tran; [exact I1|exact I2]|].
      intros d' Hd'. apply in_app_or in Hd'. destruct Hd' as [Hd'|Hd']; [apply F1|apply F2]; exact Hd'.
  Qed.

  Lemma visit_body_s V : SoundV V -> SoundV (visit_body_v fx tm V).
  Proof.
    intros HV n f l s o s' Ha Hn H. unfold visit_body_v in H.
    destruct (best tm f n l) as [b|] eqn:Hb.
    - apply best_in in Hb. destruct Hb as [Hin [_ Hnm]].
      assert (Hbg : In b (global_defs tm n)) by (apply global_defs_in; split; assumption).
      destruct fx.
      + apply (defs_s V n (b :: global_defs tm n) HV Hn) with (s := s); [|exact Ha|exact H].
        intros d [<-|Hd]; assumption.
      + destruct (mem (d_id b) (s_defs s)).
        * injection H as <- <-. split; [apply incl_refl|intros d []].
        * apply (one_def_s V n b HV Hn) with (s := add_def b s) (s' := s'); [exact Hbg|exact Ha|exact H].
    - apply (defs_s V n (global_defs tm n) HV Hn) with (s := s); [tauto|exact Ha|exact H].
  Qed.

  Lemma visit_s fuel : SoundV (visit_v fx tm fuel).
  Proof.
    induction fuel as [|k IH]; simpl; [intros n f l s o s' _ _ H; discriminate|].
    apply visit_body_s. exact IH.
  Qed.

  Theorem class_list_v_sound fuel t f l o :
    class_list_v fx fuel tm t f l = Ok o -> forall d, In d o -> reachable_def tm t d.
  Proof.
    unfold class_list_v. intros H d Hd.
    apply rbind_ok in H. destruct H as [[o1 s1] [E1 H]]. simpl in H. injection H as <-.
    assert (Ha : In n_any (s_names st0)) by (left; reflexivity).
    destruct (names_s (visit_v fx tm fuel) (normal_names t) f l (visit_s fuel) st0 o1 s1 Ha E1) as [_ F].
    destruct (F d Hd) as [p [Hp [m [Hr Hm]]]]. exists p, m. tauto.
  Qed.
End Sound.

(* the deployed variant *)
Theorem class_list_sound tm fuel t f l o :
  class_list fuel tm t f l = Ok o -> forall d, In d o -> reachable_def tm t d.
Proof. exact (class_list_v_sound c15_split_fixed tm fuel t f l o). Qed.

(* ================================================================== completeness *)
Section Complete.
  Variable fx : bool.
  Variable tm : tmap.
  Hypothesis Hwf : NoDup (map d_id tm).
  (* a reference from file f to name n sees every declaration of n: always so after the repair; before it only
     under the guard ref_ok *)
  Definition okref (f : N) (n : name) : Prop := fx = true \/ ref_ok tm f n = true.
  (* second half of shadow_free *)
  Hypothesis HG2 : forall d n, In d tm -> In n (refs_of d) -> okref (d_file d) n.

  Definition marked (s : st) (d : def) : Prop := In (d_id d) (s_defs s).
  Definition settled (s : st) (n : name) : Prop :=
    n = n_any \/ forall d, In d (global_defs tm n) -> marked s d.
  Definition okname (Q : name -> Prop) (s : st) (m : name) : Prop := settled s m \/ Q m.
  Definition closed (Q : name -> Prop) (s : st) (d : def) : Prop :=
    forall m, In m (refs_of d) -> okname Q s m.
  Definition Inv (Q : name -> Prop) (s : st) : Prop := forall m, In m (s_names s) -> okname Q s m.
  Definition mono (s s' : st) : Prop := incl (s_names s) (s_names s') /\ incl (s_defs s) (s_defs s').
  Definition is_class (d : def) : Prop := exists ps fs, d_kind d = DClass ps fs.

  (* what a stretch of the traversal from state s to state s' with output o guarantees *)
  Definition Seg (Q : name -> Prop) (s s' : st) (o : list def) : Prop :=
    mono s s' /\ Inv Q s' /\
    forall d, In d tm -> marked s' d -> ~ marked s d -> closed Q s' d /\ (is_class d -> In d o).

  Lemma marked_dec s d : {marked s d} + {~ marked s d}.
  Proof. unfold marked. apply in_dec. apply N.eq_dec. Qed.

  Lemma mono_refl s : mono s s.
  Proof. split; apply incl_refl. Qed.
  Lemma mono_trans a b c : mono a b -> mono b c -> mono a c.
  Proof. intros [A1 A2] [B1 B2]. split; eapply incl_tran; eassumption. Qed.

  Lemma settled_mono s s' n : mono s s' -> settled s n -> settled s' n.
  Proof. intros [_ M] [E|H]; [left; exact E|right]. intros d Hd. apply M. apply H. exact Hd. Qed.
  Lemma okname_mono Q s s' m : mono s s' -> okname Q s m -> okname Q s' m.
  Proof. intros M [H|H]; [left; eapply settled_mono; eassumption|right; exact H]. Qed.
  Lemma closed_mono Q s s' d : mono s s' -> closed Q s d -> closed Q s' d.
  Proof. intros M H m Hm. eapply okname_mono; [exact M|apply H; exact Hm]. Qed.

  Lemma okname_weaken (Q Q' : name -> Prop) s m : (forall x, Q x -> Q' x) -> okname Q s m -> okname Q' s m.
  Proof. intros W [H|H]; [left; exact H|right; apply W; exact H]. Qed.
  Lemma Inv_weaken (Q Q' : name -> Prop) s : (forall x, Q x -> Q' x) -> Inv Q s -> Inv Q' s.
  Proof. intros W H m Hm. eapply okname_weaken; [exact W|apply H; exact Hm]. Qed.

  Lemma Seg_refl Q s : Inv Q s -> Seg Q s s [].
  Proof. intros HI. split; [apply mono_refl|]. split; [exact HI|]. intros d _ Hm Hn. contradiction. Qed.

  Lemma Seg_trans Q s s1 s2 o1 o2 : Seg Q s s1 o1 -> Seg Q s1 s2 o2 -> Seg Q s s2 (o1 ++ o2).
  Proof.
    intros [M1 [I1 C1]] [M2 [I2 C2]]. split; [eapply mono_trans; eassumption|]. split; [exact I2|].
    intros d Hd Hm2 Hn. destruct (marked_dec s1 d) as [Hm1|Hn1].
    - destruct (C1 d Hd Hm1 Hn) as [Hc Ho]. split; [eapply closed_mono; eassumption|].
      intros Hk. apply in_or_app. left. apply Ho. exact Hk.
    - destruct (C2 d Hd Hm2 Hn1) as [Hc Ho]. split; [exact Hc|].
      intros Hk. apply in_or_app. right. apply Ho. exact Hk.
  Qed.

  Lemma Seg_out Q s s' o o' : incl o o' -> Seg Q s s' o -> Seg Q s s' o'.
  Proof.
    intros Hi [M [I C]]. split; [exact M|]. split; [exact I|].
    intros d Hd Hm Hn. destruct (C d Hd Hm Hn) as [Hc Ho]. split; [exact Hc|].
    intros Hk. apply Hi. apply Ho. exact Hk.
  Qed.

  Lemma Seg_add_name Q m s s' o : Seg Q (add_name m s) s' o -> Seg Q s s' o.
  Proof.
    intros [[M1 M2] [I C]]. split; [|split; [exact I|exact C]].
    split; [|exact M2]. intros x Hx. apply M1. right. exact Hx.
  Qed.

  (* entering one (so far unmarked) definition d, then a stretch that closes d *)
  Lemma Seg_add_def Q d s s' o :
    In d tm -> Seg Q (add_def d s) s' o -> closed Q s' d -> (is_class d -> In d o) -> Seg Q s s' o.
  Proof.
    intros Hd [[M1 M2] [I C]] Hc Ho. split.
    - split; [exact M1|]. intros x Hx. apply M2. right. exact Hx.
    - split; [exact I|]. intros d' Hd' Hm Hn.
      destruct (N.eq_dec (d_id d') (d_id d)) as [E|E].
      + assert (d' = d) by (apply (id_inj tm); assumption). subst d'. split; assumption.
      + apply C; [exact Hd'|exact Hm|]. intros [Hx|Hx]; [congruence|contradiction].
  Qed.

  (* once n is settled it need not be pending any longer *)
  Lemma Seg_discharge (Q : name -> Prop) n s s' o :
    Seg (fun m => Q m \/ m = n) s s' o -> settled s' n -> Seg Q s s' o.
  Proof.
    intros [M [I C]] Hs.
    assert (W : forall m, okname (fun m => Q m \/ m = n) s' m -> okname Q s' m).
    { intros m [H|[H|H]]; [left; exact H|right; exact H|left; subst; exact Hs]. }
    split; [exact M|]. split.
    - intros m Hm. apply W. apply I. exact Hm.
    - intros d Hd Hm Hn. destruct (C d Hd Hm Hn) as [Hc Ho]. split; [|exact Ho].
      intros m Hmm. apply W. apply Hc. exact Hmm.
  Qed.

  (* a name looked up from a place that may refer to it sees all its declarations *)
  Lemma lookup_single f n l b d :
    ref_ok tm f n = true -> best tm f n l = Some b -> In d (global_defs tm n) -> d = b.
  Proof.
    intros Hr Hb Hd. unfold ref_ok in Hr. apply negb_true_iff, andb_false_iff in Hr.
    assert (Hbf : In b (file_defs tm f n)) by (apply best_of_in in Hb; exact Hb).
    destruct Hr as [Hm|Hdf].
    - destruct (best_in tm f n l b Hb) as [Hin [_ Hnm]].
      assert (Hbg : In b (global_defs tm n)) by (apply global_defs_in; split; assumption).
      unfold multi in Hm. destruct (global_defs tm n) as [|x [|y r]]; [destruct Hd| |discriminate].
      destruct Hd as [<-|[]], Hbg as [<-|[]]. reflexivity.
    - unfold defined_in in Hdf. destruct (file_defs tm f n); [destruct Hbf|discriminate].
  Qed.

  Definition GoodC (V : visitor) : Prop :=
    forall (Q : name -> Prop) n f l s o s',
      okref f n -> n <> n_any -> In n_any (s_names s) ->
      Inv (fun m => Q m \/ m = n) s ->
      V n f l s = Ok (o, s') ->
      Seg Q s s' o /\ settled s' n.

  Lemma parents_c (Q : name -> Prop) V self ps f l :
    GoodC V -> Q self -> (forall p, In p ps -> okref f p) ->
    forall s o s', In n_any (s_names s) -> Inv Q s -> parents_loop V self ps f l s = Ok (o, s') ->
    Seg Q s s' o /\ forall p, In p ps -> okname Q s' p.
  Proof.
    intros HV Hself. induction ps as [|p ps IH]; intros Hr s o s' Ha HI H; simpl in H.
    - injection H as <- <-. split; [apply Seg_refl; exact HI|intros p []].
    - assert (Hr' : forall q, In q ps -> okref f q) by (intros q Hq; apply Hr; right; exact Hq).
      destruct (mem p (s_names s) || (self =? p)) eqn:Hsk.
      + destruct (IH Hr' s o s' Ha HI H) as [S1 K1]. split; [exact S1|].
        intros q [<-|Hq]; [|apply K1; exact Hq].
        apply orb_true_iff in Hsk. destruct Hsk as [Hm|He].
        * apply mem_true_iff in Hm. eapply okname_mono; [exact (proj1 S1)|apply HI; exact Hm].
        * apply N.eqb_eq in He. subst. right. exact Hself.
      + apply orb_false_iff in Hsk. destruct Hsk as [Hm _].
        apply rbind_ok in H. destruct H as [[o1 s1] [E1 H]].
        apply rbind_ok in H. destruct H as [[o2 s2] [E2 H]]. simpl in H. injection H as <- <-.
        assert (HI' : Inv (fun m => Q m \/ m = p) s) by (eapply Inv_weaken; [|exact HI]; intros x Hx; left; exact Hx).
        destruct (HV Q p f l s o1 s1 (Hr p (or_introl eq_refl)) (notin_names_neq_any s p Ha Hm) Ha HI' E1) as [S1 T1].
        destruct S1 as [M1 [I1 C1]].
        destruct (IH Hr' s1 o2 s2 (proj1 M1 _ Ha) I1 E2) as [S2 K2].
        split; [apply Seg_trans with s1; [split; [exact M1|split; [exact I1|exact C1]]|exact S2]|].
        intros q [<-|Hq]; [|apply K2; exact Hq].
        left. eapply settled_mono; [exact (proj1 S2)|exact T1].
  Qed.

  Lemma names_c (Q : name -> Prop) V ns f l :
    GoodC V -> (forall p, In p ns -> okref f p) ->
    forall s o s', In n_any (s_names s) -> Inv Q s -> names_loop V ns f l s = Ok (o, s') ->
    Seg Q s s' o /\ forall p, In p ns -> okname Q s' p.
  Proof.
    intros HV. induction ns as [|p ns IH]; intros Hr s o s' Ha HI H; simpl in H.
    - injection H as <- <-. split; [apply Seg_refl; exact HI|intros p []].
    - assert (Hr' : forall q, In q ns -> okref f q) by (intros q Hq; apply Hr; right; exact Hq).
      destruct (mem p (s_names s)) eqn:Hm.
      + destruct (IH Hr' s o s' Ha HI H) as [S1 K1]. split; [exact S1|].
        intros q [<-|Hq]; [|apply K1; exact Hq].
        apply mem_true_iff in Hm. eapply okname_mono; [exact (proj1 S1)|apply HI; exact Hm].
      + apply rbind_ok in H. destruct H as [[o1 s1] [E1 H]].
        apply rbind_ok in H. destruct H as [[o2 s2] [E2 H]]. simpl in H. injection H as <- <-.
        assert (Ha' : In n_any (s_names (add_name p s))) by (right; exact Ha).
        assert (HI' : Inv (fun m => Q m \/ m = p) (add_name p s)).
        { intros m [<-|Hmm]; [right; right; reflexivity|].
          destruct (HI m Hmm) as [Hs|Hq]; [left; exact Hs|right; left; exact Hq]. }
        destruct (HV Q p f l (add_name p s) o1 s1 (Hr p (or_introl eq_refl)) (notin_names_neq_any s p Ha Hm) Ha' HI' E1) as [S1 T1].
        apply Seg_add_name in S1. destruct S1 as [M1 [I1 C1]].
        destruct (IH Hr' s1 o2 s2 (proj1 M1 _ Ha) I1 E2) as [S2 K2].
        split; [apply Seg_trans with s1; [split; [exact M1|split; [exact I1|exact C1]]|exact S2]|].
        intros q [<-|Hq]; [|apply K2; exact Hq].
        left. eapply settled_mono; [exact (proj1 S2)|exact T1].
  Qed.

  Lemma one_def_c (Q : name -> Prop) V n d :
    GoodC V -> Q n -> In d tm ->
    forall s o s', In n_any (s_names s) -> Inv Q s -> one_def V n d s = Ok (o, s') ->
    Seg Q s s' o /\ closed Q s' d /\ (is_class d -> In d o).
  Proof.
    intros HV Hq Hd s o s' Ha HI H. unfold one_def in H.
    destruct (d_kind d) as [ps fs|t] eqn:Hk.
    - apply rbind_ok in H. destruct H as [[o1 s1] [E1 H]]. simpl in H. injection H as <- <-.
      assert (Hr : forall p, In p ps -> okref (d_file d) p).
      { intros p Hp. apply HG2; [exact Hd|]. unfold refs_of. rewrite Hk. exact Hp. }
      destruct (parents_c Q V n ps (d_file d) (d_line d) HV Hq Hr s o1 s1 Ha HI E1) as [S1 K1].
      split; [eapply Seg_out; [|exact S1]; apply incl_tl, incl_refl|].
      split; [|intros _; left; reflexivity].
      intros m Hm. unfold refs_of in Hm. rewrite Hk in Hm. apply K1. exact Hm.
    - assert (Hr : forall p, In p (normal_names t) -> okref (d_file d) p).
      { intros p Hp. apply HG2; [exact Hd|]. unfold refs_of. rewrite Hk. exact Hp. }
      destruct (names_c Q V (normal_names t) (d_file d) (d_line d) HV Hr s o s' Ha HI H) as [S1 K1].
      split; [exact S1|]. split.
      + intros m Hm. unfold refs_of in Hm. rewrite Hk in Hm. apply K1. exact Hm.
      + intros [ps [fs Hc]]. congruence.
  Qed.

  Lemma defs_c (Q : name -> Prop) V n ds :
    GoodC V -> Q n -> (forall d, In d ds -> In d tm) ->
    forall s o s', In n_any (s_names s) -> Inv Q s -> defs_loop V n ds s = Ok (o, s') ->
    Seg Q s s' o /\ forall d, In d ds -> marked s' d.
  Proof.
    intros HV Hq. induction ds as [|d ds IH]; intros Hin s o s' Ha HI H; simpl in H.
    - injection H as <- <-. split; [apply Seg_refl; exact HI|intros d []].
    - assert (Hin' : forall d0, In d0 ds -> In d0 tm) by (intros d0 H0; apply Hin; right; exact H0).
      destruct (mem (d_id d) (s_defs s)) eqn:Hm.
      + destruct (IH Hin' s o s' Ha HI H) as [S1 K1]. split; [exact S1|].
        intros d0 [<-|H0]; [|apply K1; exact H0].
        apply mem_true_iff in Hm. apply (proj2 (proj1 S1)). exact Hm.
      + apply rbind_ok in H. destruct H as [[o1 s1] [E1 H]].
        apply rbind_ok in H. destruct H as [[o2 s2] [E2 H]]. simpl in H. injection H as <- <-.
        assert (Mad : mono s (add_def d s)) by (split; [apply incl_refl|apply incl_tl, incl_refl]).
        assert (HI1 : Inv Q (add_def d s)).
        { intros m Hmm. eapply okname_mono; [exact Mad|apply HI; exact Hmm]. }
        destruct (one_def_c Q V n d HV Hq (Hin d (or_introl eq_refl)) (add_def d s) o1 s1 Ha HI1 E1) as [S1 [Hc Ho]].
        assert (S1' : Seg Q s s1 o1) by (apply Seg_add_def with d; [apply Hin; left; reflexivity|exact S1|exact Hc|exact Ho]).
        destruct S1' as [M1 [I1 C1]].
        destruct (IH Hin' s1 o2 s2 (proj1 M1 _ Ha) I1 E2) as [S2 K2].
        split; [apply Seg_trans with s1; [split; [exact M1|split; [exact I1|exact C1]]|exact S2]|].
        intros d0 [<-|H0]; [|apply K2; exact H0].
        apply (proj2 (proj1 S2)). apply (proj2 (proj1 S1)). left. reflexivity.
  Qed.

  Lemma visit_body_c V : GoodC V -> GoodC (visit_body_v fx tm V).
  Proof.
    intros HV Q n f l s o s' Hr Hn Ha HI H. unfold visit_body_v in H.
    set (Q' := fun m => Q m \/ m = n) in *.
    assert (Hq' : Q' n) by (right; reflexivity).
    assert (Hin : forall d, In d (global_defs tm n) -> In d tm) by (intros d Hd; apply global_defs_in in Hd; tauto).
    destruct (best tm f n l) as [b|] eqn:Hb.
    - destruct (best_in tm f n l b Hb) as [Hbin _].
      destruct fx eqn:Hfx.
      + (* repaired lookup: best first, then the whole workspace list *)
        assert (Hin2 : forall d, In d (b :: global_defs tm n) -> In d tm) by (intros d [<-|Hd]; [exact Hbin|apply Hin; exact Hd]).
        destruct (defs_c Q' V n (b :: global_defs tm n) HV Hq' Hin2 s o s' Ha HI H) as [S1 K1].
        assert (Hs : settled s' n) by (right; intros d Hd; apply K1; right; exact Hd).
        split; [apply Seg_discharge with n; assumption|exact Hs].
      + destruct Hr as [Hr|Hr]; [congruence|].
        assert (Hall : forall d, In d (global_defs tm n) -> d = b) by (intros d Hd; eapply lookup_single; eassumption).
        destruct (mem (d_id b) (s_defs s)) eqn:Hm.
        * injection H as <- <-. apply mem_true_iff in Hm.
          assert (Hs : settled s n) by (right; intros d Hd; rewrite (Hall d Hd); exact Hm).
          split; [|exact Hs]. apply Seg_discharge with n; [|exact Hs]. apply Seg_refl. exact HI.
        * assert (Mad : mono s (add_def b s)) by (split; [apply incl_refl|apply incl_tl, incl_refl]).
          assert (HI1 : Inv Q' (add_def b s)).
          { intros m Hmm. eapply okname_mono; [exact Mad|apply HI; exact Hmm]. }
          destruct (one_def_c Q' V n b HV Hq' Hbin (add_def b s) o s' Ha HI1 H) as [S1 [Hc Ho]].
          assert (S1' : Seg Q' s s' o) by (apply Seg_add_def with b; assumption).
          assert (Hs : settled s' n).
          { right. intros d Hd. rewrite (Hall d Hd). apply (proj2 (proj1 S1)). left. reflexivity. }
          split; [apply Seg_discharge with n; assumption|exact Hs].
    - destruct (defs_c Q' V n (global_defs tm n) HV Hq' Hin s o s' Ha HI H) as [S1 K1].
      assert (Hs : settled s' n) by (right; exact K1).
      split; [apply Seg_discharge with n; assumption|exact Hs].
  Qed.

  Lemma visit_c fuel : GoodC (visit_v fx tm fuel).
  Proof.
    induction fuel as [|k IH]; simpl; [intros Q n f l s o s' _ _ _ _ H; discriminate|].
    apply visit_body_c. exact IH.
  Qed.

  Theorem class_list_v_complete fuel t f l o :
    (forall n, In n (normal_names t) -> okref f n) ->
    class_list_v fx fuel tm t f l = Ok o ->
    forall d, reachable_def tm t d -> is_class d -> In d o.
  Proof.
    intros HG1 H d [n0 [n [Hn0 [Hr Hd]]]] Hk. unfold class_list_v in H.
    apply rbind_ok in H. destruct H as [[o1 s1] [E1 H]]. simpl in H. injection H as <-.
    set (Q0 := fun _ : name => False).
    assert (Ha : In n_any (s_names st0)) by (left; reflexivity).
    assert (HI0 : Inv Q0 st0).
    { intros m [<-|[]]. left. left. reflexivity. }
    destruct (names_c Q0 (visit_v fx tm fuel) (normal_names t) f l (visit_c fuel) HG1 st0 o1 s1 Ha HI0 E1) as [[M [I C]] K].
    assert (Hset : forall m, reach tm n0 m -> settled s1 m).
    { intros m Hm. induction Hm using clos_refl_trans_ind_left.
      - destruct (K n0 Hn0) as [Hs|[]]. exact Hs.
      - apply edge_inv in H. destruct H as [dd [Hy [Hdd Hz]]].
        destruct IHHm as [E|Hall]; [contradiction|].
        assert (Hddtm : In dd tm) by (apply global_defs_in in Hdd; tauto).
        destruct (C dd Hddtm (Hall dd Hdd) (fun X => X)) as [Hc _].
        destruct (Hc z Hz) as [Hs|[]]. exact Hs. }
    apply sdefs_in in Hd. destruct Hd as [Hne Hd].
    destruct (Hset n Hr) as [E|Hall]; [contradiction|].
    assert (Hdtm : In d tm) by (apply global_defs_in in Hd; tauto).
    destruct (C d Hdtm (Hall d Hd) (fun X => X)) as [_ Ho]. apply Ho. exact Hk.
  Qed.
End Complete.

(* the repaired lookup: complete without any guard *)
Theorem class_list_complete_fixed tm :
  wf_tm tm -> forall fuel t f l o,
    class_list_v true fuel tm t f l = Ok o ->
    forall d, reachable_def tm t d -> is_class d -> In d o.
Proof.
  intros Hwf fuel t f l o. apply (class_list_v_complete true tm Hwf).
  - intros d n _ _. left. reflexivity.
  - intros n _. left. reflexivity.
Qed.

(* the lookup before the fix: complete under the guard (the round-1 theorem) *)
Theorem class_list_complete_before tm :
  wf_tm tm ->
  (forall d n, In d tm -> In n (refs_of d) -> ref_ok tm (d_file d) n = true) ->
  forall fuel t f l o, (forall n, In n (normal_names t) -> ref_ok tm f n = true) ->
    class_list_v false fuel tm t f l = Ok o ->
    forall d, reachable_def tm t d -> is_class d -> In d o.
Proof.
  intros Hwf G2 fuel t f l o G1. apply (class_list_v_complete false tm Hwf).
  - intros d n Hd Hn. right. apply G2; assumption.
  - intros n Hn. right. apply G1. exact Hn.
Qed.

(* ================================================================== the two directions together *)
Lemma shadow_free_split tm t f :
  shadow_free tm t f = true ->
  (forall n, In n (normal_names t) -> ref_ok tm f n = true) /\
  (forall d n, In d tm -> In n (refs_of d) -> ref_ok tm (d_file d) n = true).
Proof.
  unfold shadow_free. rewrite andb_true_iff, !forallb_forall. intros [H1 H2]. split; [exact H1|].
  intros d n Hd Hn. specialize (H2 d Hd). rewrite forallb_forall in H2. apply H2. exact Hn.
Qed.

Lemma member_names_in o x :
  In x (member_names o) <-> exists d, In d o /\ In x (map f_name (class_fields d)).
Proof. unfold member_names. apply in_flat_map. Qed.

Lemma members_spec_is_class tm t d x :
  reachable_def tm t d -> In x (map f_name (class_fields d)) -> is_class d.
Proof.
  intros _ Hx. unfold class_fields in Hx.
  destruct (d_kind d) as [ps fs|t0] eqn:Hk; [exists ps, fs; exact Hk|destruct Hx].
Qed.

(* both variants: members = closure as soon as every reference sees all declarations *)
Theorem members_v_eq_closure fx tm t f l :
  wf_tm tm -> (fx = true \/ shadow_free tm t f = true) ->
  forall x, In x (model_members_v fx tm t f l) <-> members_spec tm t x.
Proof.
  intros Hwf Hg x.
  unfold model_members_v. destruct (class_list_v_terminates tm fx t f l) as [o Ho]. rewrite Ho.
  rewrite member_names_in. unfold members_spec. split.
  - intros [d [Hd Hx]]. exists d. split; [|exact Hx]. eapply class_list_v_sound; eassumption.
  - intros [d [Hd Hx]]. exists d. split; [|exact Hx].
    assert (Hk : is_class d) by (eapply members_spec_is_class; eassumption).
    destruct Hg as [->|Hsf].
    + eapply class_list_complete_fixed; eassumption.
    + destruct fx; [eapply class_list_complete_fixed; eassumption|].
      apply shadow_free_split in Hsf. destruct Hsf as [G1 G2].
      eapply class_list_complete_before; eassumption.
Qed.

(* the code before the fix, under the guard (round 1) *)
Theorem members_eq_closure_before tm t f l :
  wf_tm tm -> shadow_free tm t f = true ->
  forall x, In x (model_members_v false tm t f l) <-> members_spec tm t x.
Proof. intros Hwf Hsf. apply members_v_eq_closure; [exact Hwf|right; exact Hsf]. Qed.

(* the repaired code: the FULL statement, no guard *)
Theorem members_full_fixed tm t f l :
  wf_tm tm -> forall x, In x (model_members_v true tm t f l) <-> members_spec tm t x.
Proof. intros Hwf. apply members_v_eq_closure; [exact Hwf|left; reflexivity]. Qed.

(* the deployed model *)
Theorem members_full tm t f l :
  wf_tm tm -> forall x, In x (model_members tm t f l) <-> members_spec tm t x.
Proof. exact (members_full_fixed tm t f l). Qed.

Theorem class_list_complete tm :
  wf_tm tm -> forall fuel t f l o,
    class_list fuel tm t f l = Ok o ->
    forall d, reachable_def tm t d -> is_class d -> In d o.
Proof. exact (class_list_complete_fixed tm). Qed.

(* without any guard, either variant: never MORE than the closure *)
Theorem members_v_sound fx tm t f l x : In x (model_members_v fx tm t f l) -> members_spec tm t x.
Proof.
  unfold model_members_v. destruct (class_list_v_terminates tm fx t f l) as [o Ho]. rewrite Ho.
  rewrite member_names_in. intros [d [Hd Hx]]. exists d. split; [|exact Hx].
  eapply class_list_v_sound; eassumption.
Qed.

Theorem members_sound tm t f l x : In x (model_members tm t f l) -> members_spec tm t x.
Proof. exact (members_v_sound c15_split_fixed tm t f l x). Qed.

(* ================================================================== consequences of the full statement *)
Theorem members_place_free tm t f l f' l' :
  wf_tm tm -> forall x, In x (model_members tm t f l) <-> In x (model_members tm t f' l').
Proof.
  intros Hwf x. rewrite (members_full tm t f l Hwf x), (members_full tm t f' l' Hwf x). reflexivity.
Qed.

Lemma normal_names_multi_in ts n :
  In n (normal_names (TMulti ts)) <-> exists t, In t ts /\ In n (normal_names t).
Proof.
  induction ts as [|a r IH].
  - cbn. split; [intros []|intros [t [[] _]]].
  - change (normal_names (TMulti (a :: r))) with (normal_names a ++ normal_names (TMulti r)).
    rewrite in_app_iff, IH. split.
    + intros [H|[t [Ht Hn]]]; [exists a; split; [left; reflexivity|exact H]|exists t; split; [right; exact Ht|exact Hn]].
    + intros [t [[<-|Ht] Hn]]; [left; exact Hn|right; exists t; split; assumption].
Qed.

Lemma members_spec_perm tm ts ts' x :
  Permutation ts ts' -> members_spec tm (TMulti ts) x -> members_spec tm (TMulti ts') x.
Proof.
  intros Hp [d [[n0 [n [Hn0 [Hr Hd]]]] Hx]]. exists d. split; [|exact Hx].
  exists n0, n. split; [|split; assumption].
  apply normal_names_multi_in in Hn0. destruct Hn0 as [t [Ht Hn]].
  apply normal_names_multi_in. exists t. split; [|exact Hn].
  eapply Permutation_in; eassumption.
Qed.

Theorem union_order_free tm ts ts' f l :
  wf_tm tm -> Permutation ts ts' ->
  forall x, In x (model_members tm (TMulti ts) f l) <-> In x (model_members tm (TMulti ts') f l).
Proof.
  intros Hwf Hp x. rewrite (members_full tm _ f l Hwf x), (members_full tm _ f l Hwf x). split.
  - apply members_spec_perm. exact Hp.
  - apply members_spec_perm. apply Permutation_sym. exact Hp.
Qed.
