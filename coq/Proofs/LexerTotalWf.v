(* Shape of the token list the Lua lexer model hands to the parser: non-empty, ends with its only EOF token. *)
From Coq Require Import List NArith ZArith Bool.
From LH Require Import Base.Bytes Base.Res Model.Lexer.
Import ListNotations.

Definition dflt_ltok : ltok := mkLtok zero_tok [] [].

Definition wf_tokens (ts : list ltok) : Prop :=
  ts <> [] /\
  tk (lt (last ts dflt_ltok)) = TkEOF /\
  (forall t, In t (removelast ts) -> tk (lt t) <> TkEOF).
