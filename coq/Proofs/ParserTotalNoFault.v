(* C01, Lua parser model: the parser model has no Fault site.  For every fuel, every state and every classify oracle
   each of the 20 mutually recursive functions (and the 6 helper loops) returns Ok or OutOfFuel, never Fault. *)
From Coq Require Import List NArith ZArith Bool Arith Lia.
From LH Require Import Base.Bytes Base.Res Model.Lexer Model.Ast Model.Parser.
From LH Require Import Proofs.LexerTotalWf Proofs.ParserTotalBase Proofs.ParserTotalEqs.
Import ListNotations.
Set Default Proof Using "Type".

Ltac nf_step :=
  cbv beta iota zeta;
  lazymatch goal with
  | |- nofault (Ok _) => apply nofault_ok
  | |- nofault OutOfFuel => apply nofault_oof
  | |- nofault (match ?x with _ => _ end) =>
    lazymatch type of x with
    | Res _ => apply nofault_bind; [|intros]
    | _ => destruct x
    end
  | |- _ => solve [auto]
  end.
Ltac nf := repeat nf_step.

(* ---------------------------------------------------------------- helper loops *)
Lemma nf_namelist_tail : forall n st names locs, nofault (p_namelist_tail n st names locs).
Proof. induction n as [|n IH]; intros; cbn [p_namelist_tail]; nf. Qed.

Lemma nf_local_namelist_tail : forall n st sc names locs attrs, nofault (p_local_namelist_tail n st sc names locs attrs).
Proof. induction n as [|n IH]; intros; cbn [p_local_namelist_tail]; nf. Qed.

Lemma nf_parlist_tail : forall n st names locs, nofault (p_parlist_tail n st names locs).
Proof. induction n as [|n IH]; intros; cbn [p_parlist_tail]; nf. Qed.

Lemma nf_parlist n st : nofault (p_parlist n st).
Proof. unfold p_parlist. pose proof nf_parlist_tail. nf. Qed.

Lemma nf_funcname_dots : forall n st b f e c fn, nofault (p_funcname_dots n st b f e c fn).
Proof. induction n as [|n IH]; intros; cbn [p_funcname_dots]; nf. Qed.

Lemma nf_funcname n st : nofault (p_funcname n st).
Proof. unfold p_funcname. pose proof nf_funcname_dots. nf. Qed.

Section NoFault.
  Variable classify : list N -> numcls.

  Definition NF (n : nat) : Prop :=
    (forall st, nofault (p_block classify n st)) /\
    (forall st, nofault (p_block_loc classify n st)) /\
    (forall st, nofault (p_block_loc_excl classify n st)) /\
    (forall st acc, nofault (p_stats classify n st acc)) /\
    (forall st, nofault (p_stat classify n st)) /\
    (forall st, nofault (p_assign_or_call classify n st)) /\
    (forall st es bs, nofault (p_if_tail classify n st es bs)) /\
    (forall st vars nv, nofault (p_varlist_tail classify n st vars nv)) /\
    (forall st, nofault (p_explist classify n st)) /\
    (forall st acc, nofault (p_explist_tail classify n st acc)) /\
    (forall lim st, nofault (p_subexp classify n lim st)) /\
    (forall lim bbl e st, nofault (p_binop_loop classify n lim bbl e st)) /\
    (forall st, nofault (p_exp0 classify n st)) /\
    (forall st, nofault (p_prefixexp classify n st)) /\
    (forall e bl st, nofault (p_finish_prefix classify n e bl st)) /\
    (forall st, nofault (p_args classify n st)) /\
    (forall st, nofault (p_table classify n st)) /\
    (forall st ks vs, nofault (p_fieldlist_tail classify n st ks vs)) /\
    (forall st, nofault (p_field classify n st)) /\
    (forall bl st, nofault (p_funcdef classify n bl st)).

  Lemma NF_all : forall n, NF n.
  Proof.
    induction n as [|n IH].
    - unfold NF. repeat split; intros; apply nofault_oof.
    - destruct IH as (I1 & I2 & I3 & I4 & I5 & I6 & I7 & I8 & I9 & I10 & I11 & I12 & I13 & I14 & I15 & I16 & I17
                      & I18 & I19 & I20).
      pose proof nf_namelist_tail as J1. pose proof nf_local_namelist_tail as J2. pose proof nf_parlist as J3.
      pose proof nf_funcname as J4.
      unfold NF. repeat split; intros.
      + rewrite p_block_S. nf.
      + rewrite p_block_loc_S. nf.
      + rewrite p_block_loc_excl_S. nf.
      + rewrite p_stats_S. nf.
      + rewrite p_stat_S. nf.
      + rewrite p_assign_or_call_S. nf.
      + rewrite p_if_tail_S. nf.
      + rewrite p_varlist_tail_S. nf.
      + rewrite p_explist_S. nf.
      + rewrite p_explist_tail_S. nf.
      + rewrite p_subexp_S. nf.
      + rewrite p_binop_loop_S. nf.
      + rewrite p_exp0_S. nf.
      + rewrite p_prefixexp_S. nf.
      + rewrite p_finish_prefix_S. nf.
      + rewrite p_args_S. nf.
      + rewrite p_table_S. nf.
      + rewrite p_fieldlist_tail_S. nf.
      + rewrite p_field_S. nf.
      + rewrite p_funcdef_S. nf.
  Qed.

  Theorem parse_no_fault : forall fuel ts k, parse_tokens classify fuel ts <> Fault k.
  Proof.
    intros fuel ts. change (nofault (parse_tokens classify fuel ts)). unfold parse_tokens.
    destruct (NF_all fuel) as (_ & I2 & _). nf.
  Qed.
End NoFault.

Print Assumptions parse_no_fault.
