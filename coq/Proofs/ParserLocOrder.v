(* C04, Loc order: every function of the parser model, run on a key-ordered token list (ParserLocKeys.TokOrd), only
   produces Locs that start before they end and lie between the first token of the construct and the last token
   consumed; the look-ahead and the current token only move forward.  Holds with and without syntax errors.
   One lemma per function (post / kstep symbolic execution), assembled in ParserLocOrderMain.v. *)
From Coq Require Import List NArith ZArith Bool Arith Lia.
From LH Require Import Base.Bytes Base.Res Model.Lexer Model.Ast Model.Parser Spec.LspRange.
From LH Require Import Proofs.LexerTotalWf Proofs.ParserTotalBase Proofs.ParserTotalEqs Proofs.ParserLocBase
     Proofs.ParserLocSteps Proofs.ParserLocKeys.
Import ListNotations.
Local Open Scope Z_scope.

(* the three ways parseAssignOrFuncCallStat looks at the prefix expression *)
Lemma pe_cases (pe : exp) :
  (exists l, pe = EBad l) \/ (exists p nm args l, pe = ECall p nm args l) \/
  (forall (T : Type) (A : T) (B : exp -> option (list N * loc) -> list exp -> T) (C : T),
     match pe with EBad _ => A | ECall p nm args _ => B p nm args | _ => C end = C).
Proof. destruct pe; eauto 10; right; right; reflexivity. Qed.

Section Order.
  Variable key : Z -> Z -> Z.
  Variable classify : list N -> numcls.
  Variable ts : list ltok.
  Hypothesis Hwf : wfr ts.
  Hypothesis Hord : TokOrd key ts.

  Local Notation Inv := (Inv ts).
  Local Notation ka := (ka key).
  Local Notation kb := (kb key).
  Local Notation kc := (kc key).
  Local Notation kd := (kd key).
  Local Notation F2 := (F2 key).
  Local Notation within := (within key).
  Local Notation WithinL := (WithinL key).
  Local Notation lo := (lo key).
  Local Notation hi := (hi key).

  (* result predicate: invariant kept, look-ahead and current token only move forward, all Locs in [A0, end of the
     last consumed token] *)
  Definition RK (A0 : Z) (st : pst) (L : list loc) (st' : pst) : Prop :=
    Inv st' /\ ka st <= ka st' /\ kc st <= kc st' /\ kb st <= kb st' /\ (F2 st -> F2 st') /\ WithinL A0 L (kb st').

  (* the same with the START of the look-ahead as upper bound (then / elseif / else blocks end there) *)
  Definition RKx (A0 : Z) (st : pst) (L : list loc) (st' : pst) : Prop :=
    Inv st' /\ ka st <= ka st' /\ kc st <= kc st' /\ kb st <= kb st' /\ (F2 st -> F2 st') /\ WithinL A0 L (kc st').

  Definition KE (k : tkind) (s : pst) : Prop :=
    ka (expect k s) = ka (next s) /\ kb (expect k s) = kb (next s) /\
    kc (expect k s) = kc (next s) /\ kd (expect k s) = kd (next s).
  Definition KR (e : perr) (s : pst) : Prop :=
    ka (err e s) = ka s /\ kb (err e s) = kb s /\ kc (err e s) = kc s /\ kd (err e s) = kd s.
  Lemma ke k s : KE k s.
  Proof. apply k_expect. Qed.
  Lemma kr e s : KR e s.
  Proof. repeat split. Qed.

  Ltac inv_solve :=
    repeat first [assumption | apply (Inv_expect ts Hwf) | apply (Inv_next ts Hwf) | apply (Inv_err ts)].

  Ltac kf_state_add s :=
    lazymatch goal with
    | _ : KF key s |- _ => fail
    | _ => let H := fresh "KS" in assert (H : KF key s) by (apply (kf_state key ts Hord); solve [inv_solve])
    end.
  Ltac kf_next_add s :=
    lazymatch goal with
    | _ : KFN key s |- _ => fail
    | _ => let H := fresh "KN" in assert (H : KFN key s) by (apply (kf_next key ts Hwf Hord); solve [inv_solve]);
           try kf_state_add (next s)
    end.
  Ltac kf_expect_add k s :=
    lazymatch goal with
    | _ : KE k s |- _ => fail
    | _ => pose proof (ke k s); try kf_next_add s
    end.
  Ltac kf_err_add e s :=
    lazymatch goal with
    | _ : KR e s |- _ => fail
    | _ => pose proof (kr e s)
    end.
  Ltac kfacts :=
    repeat match goal with
           | |- context [expect ?k ?s] => kf_expect_add k s
           | H : context [expect ?k ?s] |- _ => kf_expect_add k s
           | |- context [err ?e ?s] => kf_err_add e s
           | H : context [err ?e ?s] |- _ => kf_err_add e s
           | |- context [next ?s] => kf_next_add s
           | H : context [next ?s] |- _ => kf_next_add s
           | s : pst |- _ => kf_state_add s
           end.

  Ltac clr := repeat match goal with H : context [post] |- _ => clear H end.

  Ltac kunfold :=
    unfold KE, KR, ParserLocKeys.KF, ParserLocKeys.KFN, ParserLocKeys.F2 in *;
    repeat match goal with H : _ /\ _ |- _ => destruct H end;
    unfold ParserLocKeys.ka, ParserLocKeys.kb, ParserLocKeys.kc, ParserLocKeys.kd in *;
    rewrite ?lo_range, ?hi_range, ?lo_range_excl, ?hi_range_excl in *.

  (* arithmetic side condition *)
  Ltac klia := clr; kfacts; kunfold; lia.

  Ltac within_solve :=
    first [ left; reflexivity
          | match goal with
            | H : ParserLocKeys.within key ?a ?l ?b |- ParserLocKeys.within key _ ?l _ =>
              apply (within_weaken key a b _ _ l H); lia
            end
          | right; rewrite ?lo_range, ?hi_range, ?lo_range_excl, ?hi_range_excl; lia ].

  Ltac hyp_norm :=
    cbn [locs_exp locs_stat locs_ostat locs_okey oloc fst snd] in *;
    repeat match goal with
           | H : Forall _ (_ :: _) |- _ => apply Forall_cons_iff in H; destruct H
           | H : Forall _ (_ ++ _) |- _ => apply Forall_app in H; destruct H
           | H : Forall _ [] |- _ => clear H
           end.

  Ltac within_hyp :=
    match goal with
    | H : Forall (ParserLocKeys.within key ?a ?b) ?L |- Forall (ParserLocKeys.within key _ _) ?L =>
      apply (WithinL_weaken key a b _ _ L H); lia
    | H : Forall (fun l => ParserLocKeys.within key ?a l ?b) ?L |- Forall (fun l => ParserLocKeys.within key _ l _) ?L =>
      apply (WithinL_weaken key a b _ _ L H); lia
    end.

  Ltac locs_norm :=
    rewrite ?locs_exp_table, ?locs_stat_if, ?locs_set_block_loc;
    cbn [locs_exp locs_stat locs_block locs_ostat locs_okey oloc fst snd];
    repeat match goal with |- context [locs_xblock (set_block_loc ?b ?l)] => unfold locs_xblock at 1 end;
    rewrite ?flat_map_app, ?locs_set_block_loc, ?block_loc_set; cbn [flat_map app].

  (* goal: WithinL A0 L B, all facts needed by lia already in the context (kfacts; kunfold) *)
  Ltac within_list :=
    unfold ParserLocKeys.WithinL in *;
    repeat first [ apply Forall_nil | within_hyp | apply Forall_app; split | apply Forall_cons; [within_solve|] ].

  Ltac wl_solve := clr; locs_norm; kfacts; kunfold; within_list.

  Ltac side :=
    lazymatch goal with
    | |- ParserLocBase.Inv _ _ => unstick; solve [inv_solve]
    | |- ParserLocKeys.WithinL _ _ _ _ => unstick; solve [wl_solve]
    | |- Forall _ _ => unstick; solve [wl_solve]
    | |- _ <= _ => unstick; solve [klia]
    | |- ParserLocKeys.F2 _ _ => unstick; solve [klia]
    | |- _ => idtac
    end.

  Ltac unpack H :=
    try unfold RK in H; try unfold RKx in H;
    repeat match goal with
           | H0 : _ /\ _ |- _ => destruct H0
           end;
    unfold ParserLocKeys.WithinL in *;
    repeat match goal with
           | H' : Forall _ (_ ++ _) |- _ =>
             let H1 := fresh "HG" in let H2 := fresh "HG" in apply Forall_app in H'; destruct H' as [H1 H2]
           end.

  Ltac useih := match goal with Hi : _, A : Z |- _ => eapply (Hi A); side end.

  Ltac rk_solve :=
    clr; try unfold RK; try unfold RKx; cbn [fst snd];
    unstick;
    locs_norm; kfacts; kunfold;
    repeat match goal with |- _ /\ _ => split end;
    first [ solve [inv_solve] | lia | solve [within_list] ].

  Ltac finish := apply post_ret; rk_solve.

  (* ---------------------------------------------------------------- p_local_attr *)
  Lemma local_attr_k st a st' : p_local_attr st = (a, st') -> Inv st ->
    Inv st' /\ ka st <= ka st' /\ kc st <= kc st' /\ kb st <= kb st' /\ (F2 st -> F2 st').
  Proof.
    unfold p_local_attr. intros H HI.
    repeat match type of H with context [if ?b then _ else _] => destruct b end;
      injection H as <- <-; (split; [solve [inv_solve]|]); kfacts; kunfold; repeat split; lia.
  Qed.

  Ltac kcall :=
    eapply post_bind; [ useih | let a := fresh "a" in let s := fresh "st" in let HQ := fresh "HQ" in
                                intros a s HQ; unpack HQ ].
  Ltac ktail :=
    eapply post_weaken; [ useih | let a := fresh "a" in let s := fresh "st" in let HQ := fresh "HQ" in
                                  intros a s HQ; unpack HQ; rk_solve ].

  Ltac kstep :=
    cbv beta iota zeta;
    lazymatch goal with
    | |- post _ (Ok (_, _)) => finish
    | |- post _ OutOfFuel => apply post_oof
    | |- post _ (match (match ?y with _ => _ end) with _ => _ end) =>
      lazymatch type of y with
      | Res _ => apply post_assoc
      | _ => innermost y ltac:(fun z =>
               lazymatch type of z with
               | Res _ => apply post_assoc
               | _ => destruct z eqn:?; hyp_norm
               end)
      end
    | |- post _ (match ?x with _ => _ end) =>
      innermost x ltac:(fun z =>
        lazymatch type of z with
        | Res _ =>
          match z with
          | context [if ?b then _ else _] => destruct b eqn:?
          | context [match ?v with _ => _ end] => is_var v; destruct v
          | _ => kcall
          end
        | _ => destruct z eqn:?; hyp_norm;
               try match goal with
                   | Ha : p_local_attr _ = (_, _) |- _ =>
                     apply local_attr_k in Ha; [destruct Ha as (? & ? & ? & ? & ?)|solve [inv_solve]]
                   end
        end)
    | |- post _ ?z =>
      match z with
      | context [if ?b then _ else _] => destruct b eqn:?
      | context [match ?v with _ => _ end] => is_var v; destruct v
      | _ => ktail
      end
    end.
  Ltac go := repeat kstep.

  (* ---------------------------------------------------------------- helper loops *)
  Lemma K_namelist_tail : forall n A0 st names locs, Inv st -> A0 <= kc st -> WithinL A0 locs (kb st) ->
    post (fun a st' => RK A0 st (snd a) st') (p_namelist_tail n st names locs).
  Proof.
    induction n as [|n IH]; intros A0 st names locs HI HA HG; [apply post_oof|]. cbn [p_namelist_tail]. go.
  Qed.
  Lemma K_local_namelist_tail : forall n A0 st sc names locs attrs, Inv st -> A0 <= kc st -> WithinL A0 locs (kb st) ->
    post (fun a st' => RK A0 st (snd (fst a)) st') (p_local_namelist_tail n st sc names locs attrs).
  Proof.
    induction n as [|n IH]; intros A0 st sc names locs attrs HI HA HG; [apply post_oof|].
    cbn [p_local_namelist_tail]. go.
  Qed.

  Lemma K_parlist_tail : forall n A0 st names locs, Inv st -> A0 <= kc st -> WithinL A0 locs (kb st) ->
    post (fun a st' => RK A0 st (snd (fst a)) st') (p_parlist_tail n st names locs).
  Proof.
    induction n as [|n IH]; intros A0 st names locs HI HA HG; [apply post_oof|]. cbn [p_parlist_tail]. go.
  Qed.

  Lemma K_parlist n A0 st : Inv st -> A0 <= kc st ->
    post (fun a st' => RK A0 st (snd (fst a)) st') (p_parlist n st).
  Proof.
    intros HI HA. pose proof (fun A n => K_parlist_tail n A) as J.
    assert (E : p_parlist n st =
                if tk_eqb (la st) TkSepRparen then Ok ([], [], false, st)
                else if tk_eqb (la st) TkVararg then Ok ([], [], true, next st)
                else let st1 := expect TkIdentifier st in p_parlist_tail n st1 [now_str st1] [now_loc st1])
      by (unfold p_parlist; destruct (la st); reflexivity).
    rewrite E. go.
  Qed.

  Lemma K_funcname_dots : forall n A0 st b f e c fn, Inv st -> A0 <= kc st ->
    A0 <= lo b -> lo b <= kb st -> WithinL A0 (locs_exp e) (kb st) ->
    post (fun a st' => RK A0 st (locs_exp (fst (fst a))) st') (p_funcname_dots n st b f e c fn).
  Proof.
    induction n as [|n IH]; intros A0 st b f e c fn HI HA Hb1 Hb2 HG; [apply post_oof|]. cbn [p_funcname_dots]. go.
  Qed.

  Lemma K_funcname n A0 st : Inv st -> A0 <= kc st ->
    post (fun a st' => RK A0 st (locs_exp (fst (fst (fst a)))) st') (p_funcname n st).
  Proof. intros HI HA. pose proof (fun A n => K_funcname_dots n A) as J. unfold p_funcname. go. Qed.
  (* ---------------------------------------------------------------- the 20 mutually recursive functions *)
  Definition PK (n : nat) : Prop :=
    (forall A0 st, Inv st -> A0 <= kc st ->
       post (fun b st' => RK A0 st (locs_block b) st') (p_block classify n st)) /\
    (forall A0 st, Inv st -> A0 <= kc st ->
       post (fun b st' => RK A0 st (locs_block b) st') (p_block_loc classify n st)) /\
    (forall A0 st, Inv st -> A0 <= kc st -> F2 st ->
       post (fun b st' => RKx A0 st (locs_xblock b) st') (p_block_loc_excl classify n st)) /\
    (forall A0 st acc, Inv st -> A0 <= kc st -> WithinL A0 (flat_map locs_stat acc) (kb st) ->
       post (fun ss st' => RK A0 st (flat_map locs_stat ss) st') (p_stats classify n st acc)) /\
    (forall A0 st, Inv st -> A0 <= kc st ->
       post (fun os st' => RK A0 st (locs_ostat os) st') (p_stat classify n st)) /\
    (forall A0 st, Inv st -> A0 <= kc st ->
       post (fun os st' => RK A0 st (locs_ostat os) st') (p_assign_or_call classify n st)) /\
    (forall A0 st es bs, Inv st -> A0 <= kc st -> F2 st -> WithinL A0 (flat_map locs_exp es) (kc st) ->
       WithinL A0 (flat_map locs_xblock bs) (kc st) ->
       post (fun a st' => RKx A0 st (flat_map locs_exp (fst a) ++ flat_map locs_xblock (snd a)) st')
            (p_if_tail classify n st es bs)) /\
    (forall A0 st vars nv, Inv st -> A0 <= kc st -> F2 st -> WithinL A0 (flat_map locs_exp vars) (kb st) ->
       post (fun a st' => RK A0 st (flat_map locs_exp (fst a)) st') (p_varlist_tail classify n st vars nv)) /\
    (forall A0 st, Inv st -> A0 <= kc st ->
       post (fun es st' => RK A0 st (flat_map locs_exp es) st' /\ F2 st' /\ kd st <= kb st' /\ kc st <= ka st') (p_explist classify n st)) /\
    (forall A0 st acc, Inv st -> A0 <= kc st -> F2 st -> WithinL A0 (flat_map locs_exp acc) (kb st) ->
       post (fun es st' => RK A0 st (flat_map locs_exp es) st') (p_explist_tail classify n st acc)) /\
    (forall A0 lim st, Inv st -> A0 <= kc st ->
       post (fun e st' => RK A0 st (locs_exp e) st' /\ F2 st' /\ kd st <= kb st' /\ kc st <= ka st') (p_subexp classify n lim st)) /\
    (forall A0 lim bbl e st, Inv st -> A0 <= lo bbl -> lo bbl <= kb st -> F2 st -> WithinL A0 (locs_exp e) (kb st) ->
       post (fun e' st' => RK A0 st (locs_exp e') st') (p_binop_loop classify n lim bbl e st)) /\
    (forall A0 st, Inv st -> A0 <= kc st ->
       post (fun e st' => RK A0 st (locs_exp e) st' /\ F2 st' /\ kd st <= kb st' /\ kc st <= ka st') (p_exp0 classify n st)) /\
    (forall A0 st, Inv st -> A0 <= kc st ->
       post (fun e st' => RK A0 st (locs_exp e) st' /\ F2 st' /\ kd st <= kb st' /\ kc st <= ka st') (p_prefixexp classify n st)) /\
    (forall A0 e bl st, Inv st -> A0 <= lo bl -> lo bl <= kb st -> A0 <= ka st -> F2 st ->
       WithinL A0 (locs_exp e) (kb st) ->
       post (fun e' st' => RK A0 st (locs_exp e') st') (p_finish_prefix classify n e bl st)) /\
    (forall A0 st, Inv st -> A0 <= kc st -> F2 st ->
       post (fun es st' => RK A0 st (flat_map locs_exp es) st') (p_args classify n st)) /\
    (forall A0 st, Inv st -> A0 <= kc st ->
       post (fun e st' => RK A0 st (locs_exp e) st' /\ F2 st' /\ kd st <= kb st' /\ kc st <= ka st') (p_table classify n st)) /\
    (forall A0 st ks vs, Inv st -> A0 <= kc st -> F2 st -> WithinL A0 (flat_map locs_okey ks) (kb st) ->
       WithinL A0 (flat_map locs_exp vs) (kb st) ->
       post (fun a st' => RK A0 st (flat_map locs_okey (fst a) ++ flat_map locs_exp (snd a)) st')
            (p_fieldlist_tail classify n st ks vs)) /\
    (forall A0 st, Inv st -> A0 <= kc st ->
       post (fun a st' => RK A0 st (locs_okey (fst a) ++ locs_exp (snd a)) st' /\ F2 st' /\ kd st <= kb st' /\ kc st <= ka st') (p_field classify n st)) /\
    (forall A0 bl st, Inv st -> A0 <= lo bl -> lo bl <= kb st -> F2 st ->
       post (fun e st' => RK A0 st (locs_exp e) st' /\ F2 st' /\ kd st <= kb st' /\ kc st <= ka st') (p_funcdef classify n bl st)).

  Ltac ihs IH :=
    destruct IH as (I1 & I2 & I3 & I4 & I5 & I6 & I7 & I8 & I9 & I10 & I11 & I12 & I13 & I14 & I15 & I16 & I17
                    & I18 & I19 & I20);
    pose proof (fun A n => K_namelist_tail n A) as J1; pose proof (fun A n => K_local_namelist_tail n A) as J2;
    pose proof (fun A n => K_parlist n A) as J3; pose proof (fun A n => K_funcname n A) as J4.

  Lemma K_block n : PK n -> forall A0 st, Inv st -> A0 <= kc st ->
    post (fun b st' => RK A0 st (locs_block b) st') (p_block classify (S n) st).
  Proof. intros IH A0 st HI HA. ihs IH. rewrite p_block_S. go. Qed.
  Lemma K_block_loc n : PK n -> forall A0 st, Inv st -> A0 <= kc st ->
    post (fun b st' => RK A0 st (locs_block b) st') (p_block_loc classify (S n) st).
  Proof. intros IH A0 st HI HA. ihs IH. rewrite p_block_loc_S. go. Qed.

  Lemma K_block_loc_excl n : PK n -> forall A0 st, Inv st -> A0 <= kc st -> F2 st ->
    post (fun b st' => RKx A0 st (locs_xblock b) st') (p_block_loc_excl classify (S n) st).
  Proof. intros IH A0 st HI HA HF. ihs IH. rewrite p_block_loc_excl_S. go. Qed.

  Lemma K_stats n : PK n -> forall A0 st acc, Inv st -> A0 <= kc st -> WithinL A0 (flat_map locs_stat acc) (kb st) ->
    post (fun ss st' => RK A0 st (flat_map locs_stat ss) st') (p_stats classify (S n) st acc).
  Proof. intros IH A0 st acc HI HA HG. ihs IH. rewrite p_stats_S. go. Qed.

  Lemma K_if_tail n : PK n -> forall A0 st es bs, Inv st -> A0 <= kc st -> F2 st ->
    WithinL A0 (flat_map locs_exp es) (kc st) -> WithinL A0 (flat_map locs_xblock bs) (kc st) ->
    post (fun a st' => RKx A0 st (flat_map locs_exp (fst a) ++ flat_map locs_xblock (snd a)) st')
         (p_if_tail classify (S n) st es bs).
  Proof. intros IH A0 st es bs HI HA HF HG1 HG2. ihs IH. rewrite p_if_tail_S. go. Qed.

  Lemma K_varlist_tail n : PK n -> forall A0 st vars nv, Inv st -> A0 <= kc st -> F2 st ->
    WithinL A0 (flat_map locs_exp vars) (kb st) ->
    post (fun a st' => RK A0 st (flat_map locs_exp (fst a)) st') (p_varlist_tail classify (S n) st vars nv).
  Proof. intros IH A0 st vars nv HI HA HF HG. ihs IH. rewrite p_varlist_tail_S. go. Qed.

  Lemma K_explist n : PK n -> forall A0 st, Inv st -> A0 <= kc st ->
    post (fun es st' => RK A0 st (flat_map locs_exp es) st' /\ F2 st' /\ kd st <= kb st' /\ kc st <= ka st') (p_explist classify (S n) st).
  Proof. intros IH A0 st HI HA. ihs IH. rewrite p_explist_S. go. Qed.

  Lemma K_explist_tail n : PK n -> forall A0 st acc, Inv st -> A0 <= kc st -> F2 st ->
    WithinL A0 (flat_map locs_exp acc) (kb st) ->
    post (fun es st' => RK A0 st (flat_map locs_exp es) st') (p_explist_tail classify (S n) st acc).
  Proof. intros IH A0 st acc HI HA HF HG. ihs IH. rewrite p_explist_tail_S. go. Qed.

  Lemma K_subexp n : PK n -> forall A0 lim st, Inv st -> A0 <= kc st ->
    post (fun e st' => RK A0 st (locs_exp e) st' /\ F2 st' /\ kd st <= kb st' /\ kc st <= ka st') (p_subexp classify (S n) lim st).
  Proof. intros IH A0 lim st HI HA. ihs IH. rewrite p_subexp_S. go. Qed.

  Lemma K_binop_loop n : PK n -> forall A0 lim bbl e st, Inv st -> A0 <= lo bbl -> lo bbl <= kb st -> F2 st ->
    WithinL A0 (locs_exp e) (kb st) ->
    post (fun e' st' => RK A0 st (locs_exp e') st') (p_binop_loop classify (S n) lim bbl e st).
  Proof. intros IH A0 lim bbl e st HI HA HB HF HG. ihs IH. rewrite p_binop_loop_S. go. Qed.
  Lemma K_exp0 n : PK n -> forall A0 st, Inv st -> A0 <= kc st ->
    post (fun e st' => RK A0 st (locs_exp e) st' /\ F2 st' /\ kd st <= kb st' /\ kc st <= ka st') (p_exp0 classify (S n) st).
  Proof. intros IH A0 st HI HA. ihs IH. rewrite p_exp0_S. go. Qed.

  Lemma K_prefixexp n : PK n -> forall A0 st, Inv st -> A0 <= kc st ->
    post (fun e st' => RK A0 st (locs_exp e) st' /\ F2 st' /\ kd st <= kb st' /\ kc st <= ka st') (p_prefixexp classify (S n) st).
  Proof. intros IH A0 st HI HA. ihs IH. rewrite p_prefixexp_S. go. Qed.

  Lemma K_finish_prefix n : PK n -> forall A0 e bl st, Inv st -> A0 <= lo bl -> lo bl <= kb st -> A0 <= ka st -> F2 st ->
    WithinL A0 (locs_exp e) (kb st) ->
    post (fun e' st' => RK A0 st (locs_exp e') st') (p_finish_prefix classify (S n) e bl st).
  Proof. intros IH A0 e bl st HI HA HB HC HF HG. ihs IH. rewrite p_finish_prefix_S. go. Qed.

  Lemma K_args n : PK n -> forall A0 st, Inv st -> A0 <= kc st -> F2 st ->
    post (fun es st' => RK A0 st (flat_map locs_exp es) st') (p_args classify (S n) st).
  Proof. intros IH A0 st HI HA HF. ihs IH. rewrite p_args_S. go. Qed.

  Lemma K_table n : PK n -> forall A0 st, Inv st -> A0 <= kc st ->
    post (fun e st' => RK A0 st (locs_exp e) st' /\ F2 st' /\ kd st <= kb st' /\ kc st <= ka st') (p_table classify (S n) st).
  Proof. intros IH A0 st HI HA. ihs IH. rewrite p_table_S. go. Qed.

  Lemma K_fieldlist_tail n : PK n -> forall A0 st ks vs, Inv st -> A0 <= kc st -> F2 st ->
    WithinL A0 (flat_map locs_okey ks) (kb st) -> WithinL A0 (flat_map locs_exp vs) (kb st) ->
    post (fun a st' => RK A0 st (flat_map locs_okey (fst a) ++ flat_map locs_exp (snd a)) st')
         (p_fieldlist_tail classify (S n) st ks vs).
  Proof. intros IH A0 st ks vs HI HA HF HG1 HG2. ihs IH. rewrite p_fieldlist_tail_S. go. Qed.

  Lemma K_field n : PK n -> forall A0 st, Inv st -> A0 <= kc st ->
    post (fun a st' => RK A0 st (locs_okey (fst a) ++ locs_exp (snd a)) st' /\ F2 st' /\ kd st <= kb st' /\ kc st <= ka st')
         (p_field classify (S n) st).
  Proof. intros IH A0 st HI HA. ihs IH. rewrite p_field_S. go. Qed.

  Lemma K_funcdef n : PK n -> forall A0 bl st, Inv st -> A0 <= lo bl -> lo bl <= kb st -> F2 st ->
    post (fun e st' => RK A0 st (locs_exp e) st' /\ F2 st' /\ kd st <= kb st' /\ kc st <= ka st') (p_funcdef classify (S n) bl st).
  Proof. intros IH A0 bl st HI HA HB HF. ihs IH. rewrite p_funcdef_S. go. Qed.
  Lemma K_assign_or_call n : PK n -> forall A0 st, Inv st -> A0 <= kc st ->
    post (fun os st' => RK A0 st (locs_ostat os) st') (p_assign_or_call classify (S n) st).
  Proof.
    intros IH A0 st HI HA. ihs IH. rewrite p_assign_or_call_S. kstep.
    destruct (pe_cases a) as [(l & ->)|[(p & nm & args & l & ->)|Hc]]; [hyp_norm; go|hyp_norm; go|].
    cbv beta iota zeta. rewrite Hc. go.
  Qed.
  Lemma K_stat n : PK n -> forall A0 st, Inv st -> A0 <= kc st ->
    post (fun os st' => RK A0 st (locs_ostat os) st') (p_stat classify (S n) st).
  Proof.
    intros IH A0 st HI HA. ihs IH. rewrite p_stat_S.
    destruct (stat_start_of (la st)) eqn:Hs; cbv beta iota zeta.
    - go.
    - go.
    - go.
    - go.
    - go.
    - go.
    - go.
    - go.
    - go.
    - (* `function a.b:m() end`: the function value is rebuilt with the synthetic `self` (Loc of the method name) *)
      go.
      assert (Hself : within A0 (now_loc st0) (kb st1)) by (right; klia).
      match goal with
      | HH : Forall _ (locs_exp a0) |- _ =>
        pose proof (within_method_func key A0 (kb st1) a0 b l0 l (now_loc st0) HH Hself) as HM
      end.
      match goal with |- context [SAssign [e] [?x]] => set (fd' := x) in * end.
      clearbody fd'. finish.
    - go.
    - go.
    - go.
  Qed.
End Order.
