(* C03, lexical level: list / prefix facts, character classes of the spec = those of the model, long brackets:
   scan_long_string finds exactly the LongBracket of Spec/LuaLex.v (both directions). *)
From Coq Require Import List NArith ZArith Bool Arith Lia ZifyNat ZifyN ZifyBool.
From LH Require Import Base.Bytes Base.Res Model.Codec Model.Lexer Spec.LuaLex.
From LH Require Import Proofs.LexerTotalFuel Proofs.LexerTotalProgress.
Import ListNotations.
Set Default Proof Using "Type".
Local Open Scope N_scope.

(* ------------------------------------------------------------------ character classes *)
Lemma cls_white c : is_white c = lx_space c.
Proof. reflexivity. Qed.
Lemma cls_new_white c : is_new_white c = lx_space c.
Proof. unfold is_new_white, lx_space. lia. Qed.
Lemma cls_newline c : is_newline c = lx_newline c.
Proof. unfold is_newline, lx_newline. lia. Qed.
Lemma cls_digit c : is_digit c = lx_digit c.
Proof. reflexivity. Qed.
Lemma cls_xdigit c : is_hex_digit c = lx_xdigit c.
Proof. reflexivity. Qed.
Lemma cls_alnum c : is_ident_char c = lx_alnum c.
Proof. unfold is_ident_char, lx_alnum, lx_alpha, is_letter, is_digit, lx_digit. lia. Qed.
Lemma cls_alpha c : (c =? 95) || is_letter c = lx_alpha c.
Proof. unfold lx_alpha, is_letter. lia. Qed.

(* ------------------------------------------------------------------ prefixes *)
Lemma test_startsb p : forall l, test p l = startsb p l.
Proof. reflexivity. Qed.

Lemma startsb_iff p : forall l, startsb p l = true <-> starts p l.
Proof.
  induction p as [|c p IH]; intros l; cbn [startsb].
  - split; [intros _; exists l; reflexivity|reflexivity].
  - destruct l as [|x l].
    + split; [discriminate|]. intros [q Hq]. discriminate.
    + rewrite andb_true_iff, IH, N.eqb_eq. split.
      * intros [-> [q ->]]. exists q. reflexivity.
      * intros [q Hq]. cbn [app] in Hq. injection Hq as -> ->. split; [reflexivity|]. exists q. reflexivity.
Qed.

Lemma test_iff p l : test p l = true <-> starts p l.
Proof. rewrite test_startsb. apply startsb_iff. Qed.

Lemma starts_firstn p l : starts p l <-> firstn (length p) l = p.
Proof.
  split.
  - intros [q ->]. rewrite firstn_app, Nat.sub_diag, firstn_all. cbn [firstn]. apply app_nil_r.
  - intros H. exists (skipn (length p) l). rewrite <- H at 1. symmetry. apply firstn_skipn.
Qed.

Lemma starts_app p a r : starts p a -> starts p (a ++ r).
Proof. intros [q ->]. exists (q ++ r). symmetry. apply app_assoc. Qed.

Lemma starts_app_inv p a r : (length p <= length a)%nat -> starts p (a ++ r) -> starts p a.
Proof.
  intros Hl H. apply starts_firstn in H. apply starts_firstn.
  rewrite firstn_app in H. replace (length p - length a)%nat with 0%nat in H by lia.
  cbn [firstn] in H. rewrite app_nil_r in H. exact H.
Qed.

Lemma starts_hd p c l x : starts (c :: p) (x :: l) -> x = c.
Proof. intros [q Hq]. cbn [app] in Hq. congruence. Qed.

Lemma starts_nil_inv c p : ~ starts (c :: p) [].
Proof. intros [q Hq]. discriminate. Qed.

(* ------------------------------------------------------------------ nth_byte on a suffix *)
Lemma nth_byte_skipn ch i : nth_byte ch i = hd_error (skipn i ch).
Proof.
  unfold nth_byte. revert ch. induction i as [|i IH]; intros [|c ch]; cbn [nth_error skipn hd_error]; try reflexivity.
  apply IH.
Qed.

Lemma skipn_S_cons {A} i (l : list A) c t : skipn i l = c :: t -> skipn (S i) l = t.
Proof.
  revert l. induction i as [|i IH]; intros l H.
  - cbn [skipn] in H. subst l. reflexivity.
  - destruct l as [|x l]; [discriminate|]. cbn [skipn] in H |- *. apply IH. exact H.
Qed.

Lemma skipn_add {A} i j (l : list A) : skipn (i + j) l = skipn j (skipn i l).
Proof.
  revert l. induction i as [|i IH]; intros l; [reflexivity|].
  destruct l as [|x l]; cbn [Nat.add skipn]; [destruct j; reflexivity|]. apply IH.
Qed.

(* ------------------------------------------------------------------ opening long brackets *)
Lemma lb_open_length n : length (lb_open n) = (n + 2)%nat.
Proof. unfold lb_open. cbn [length]. rewrite app_length, repeat_length. cbn [length]. lia. Qed.
Lemma lb_close_length n : length (lb_close n) = (n + 2)%nat.
Proof. unfold lb_close. cbn [length]. rewrite app_length, repeat_length. cbn [length]. lia. Qed.

Lemma lb_swap n : map (fun c => if c =? 91 then 93 else c) (lb_open n) = lb_close n.
Proof.
  unfold lb_open, lb_close. cbn [map]. rewrite map_app. cbn [map]. f_equal. f_equal.
  induction n as [|n IH]; [reflexivity|]. cbn [repeat map]. rewrite IH. reflexivity.
Qed.

Lemma lb_loop_open : forall k idx count orig x,
  match_lb_loop (repeat 61 k ++ 91 :: x) idx count orig = (firstn (S (idx + k)) orig, (count + k + 2)%nat).
Proof.
  induction k as [|k IH]; intros idx count orig x; cbn [repeat app match_lb_loop].
  - replace (61 =? 61) with true by reflexivity. cbn [N.eqb Pos.eqb]. rewrite !Nat.add_0_r. reflexivity.
  - cbn [N.eqb Pos.eqb]. rewrite IH. f_equal; [f_equal|]; lia.
Qed.

Lemma lb_loop_inv : forall l idx count orig,
  fst (match_lb_loop l idx count orig) <> [] ->
  exists k x, l = repeat 61 k ++ 91 :: x /\ fst (match_lb_loop l idx count orig) = firstn (S (idx + k)) orig.
Proof.
  induction l as [|c t IH]; intros idx count orig H; cbn [match_lb_loop] in H |- *; [cbn in H; congruence|].
  destruct (c =? 61) eqn:E61.
  - apply N.eqb_eq in E61. subst c. destruct (IH _ _ _ H) as (k & x & -> & Hf).
    exists (S k), x. split; [reflexivity|]. rewrite Hf. f_equal. lia.
  - destruct (c =? 91) eqn:E91.
    + apply N.eqb_eq in E91. subst c. exists 0%nat, t. split; [reflexivity|]. cbn [fst]. f_equal. lia.
    + cbn in H. congruence.
Qed.

Lemma lb_open_app n x : lb_open n ++ x = 91 :: repeat 61 n ++ 91 :: x.
Proof. unfold lb_open. cbn [app]. rewrite <- app_assoc. reflexivity. Qed.

Lemma firstn_lb_open n x : firstn (S (S n)) (lb_open n ++ x) = lb_open n.
Proof.
  replace (S (S n)) with (length (lb_open n)) by (rewrite lb_open_length; lia).
  rewrite firstn_app, Nat.sub_diag, firstn_all. cbn [firstn]. apply app_nil_r.
Qed.

Lemma mlb_open n x : fst (match_long_bracket (lb_open n ++ x)) = lb_open n.
Proof.
  destruct n as [|n]; [reflexivity|].
  rewrite <- (firstn_lb_open (S n) x) at 2. rewrite lb_open_app.
  cbn [repeat app]. rewrite mlb_ne by discriminate.
  change (61 :: repeat 61 n ++ 91 :: x) with (repeat 61 (S n) ++ 91 :: x) at 1.
  rewrite (lb_loop_open (S n) 1 0). reflexivity.
Qed.

Lemma mlb_inv l : fst (match_long_bracket l) <> [] ->
  exists n x, l = lb_open n ++ x /\ fst (match_long_bracket l) = lb_open n.
Proof.
  intros H. destruct l as [|c0 t]; [cbn in H; congruence|].
  destruct (N.eq_dec c0 91) as [->|Hc0].
  2:{ exfalso. apply H. unfold match_long_bracket. destruct c0 as [|p]; [reflexivity|].
      do 7 (try (destruct p as [p|p|]; try reflexivity)). congruence. }
  destruct t as [|c1 t]; [cbn in H; congruence|].
  destruct (N.eq_dec c1 91) as [->|Hc1].
  - exists 0%nat, t. split; reflexivity.
  - rewrite mlb_ne in H |- * by exact Hc1.
    destruct (lb_loop_inv _ _ _ _ H) as (k & x & Hl & Hf). exists k, x. rewrite Hf, Hl.
    rewrite <- lb_open_app. split; [reflexivity|]. apply (firstn_lb_open k x).
Qed.

Lemma opens_long_iff l : fst (match_long_bracket l) <> [] <-> opens_long l.
Proof.
  split.
  - intros H. destruct (mlb_inv l H) as (n & x & -> & _). exists n, x. reflexivity.
  - intros (n & x & ->). rewrite mlb_open. unfold lb_open. discriminate.
Qed.

(* ------------------------------------------------------------------ strings.Index = first occurrence *)
Lemma ios_some : forall f needle l i k,
  index_of_sub_f f needle l i = Some k ->
  exists j, k = (i + j)%nat /\ (j <= length l)%nat /\ starts needle (skipn j l) /\
            forall j', (j' < j)%nat -> ~ starts needle (skipn j' l).
Proof.
  induction f as [|f IH]; intros needle l i k H; cbn [index_of_sub_f] in H; [discriminate|].
  destruct (test needle l) eqn:T.
  - injection H as <-. exists 0%nat. repeat split; [lia|lia|apply test_iff; exact T|intros j' Hj'; exfalso; lia].
  - destruct l as [|c t]; [discriminate|].
    destruct (IH _ _ _ _ H) as (j & -> & Hj & Hs & Hno). exists (S j). repeat split; [lia|cbn [length]; lia|exact Hs|].
    intros [|j'] Hlt; cbn [skipn].
    + intros Hst. apply test_iff in Hst. congruence.
    + apply Hno. lia.
Qed.

Lemma ios_none : forall f needle l i,
  (length l < f)%nat -> index_of_sub_f f needle l i = None ->
  forall j, (j <= length l)%nat -> ~ starts needle (skipn j l).
Proof.
  induction f as [|f IH]; intros needle l i Hf H j Hj; [lia|]. cbn [index_of_sub_f] in H.
  destruct (test needle l) eqn:T; [discriminate|].
  destruct j as [|j]; cbn [skipn].
  - intros Hst. apply test_iff in Hst. congruence.
  - destruct l as [|c t]; [cbn [length] in Hj; lia|]. cbn [length] in Hf, Hj. apply (IH needle t (S i)); [lia|exact H|lia].
Qed.

(* no closing bracket starts inside the opening bracket *)
Lemma no_close_in_open n m x j : (j < n + 2)%nat -> ~ starts (lb_close m) (skipn j (lb_open n ++ x)).
Proof.
  intros Hj Hst.
  assert (Hnth : forall d, nth j (lb_open n ++ x) d <> 93).
  { intros d. rewrite app_nth1 by (rewrite lb_open_length; lia).
    unfold lb_open. destruct j as [|j]; [cbn; discriminate|]. cbn [nth].
    destruct (Nat.lt_ge_cases j n) as [Hlt|Hge].
    - rewrite app_nth1 by (rewrite repeat_length; lia).
      assert (Hin : In (nth j (repeat 61 n) d) (repeat 61 n)) by (apply nth_In; rewrite repeat_length; lia).
      apply repeat_spec in Hin. rewrite Hin. discriminate.
    - rewrite app_nth2 by (rewrite repeat_length; lia). rewrite repeat_length.
      replace (j - n)%nat with 0%nat by lia. cbn. discriminate. }
  destruct Hst as [q Hq]. specialize (Hnth 0).
  rewrite <- (firstn_skipn j (lb_open n ++ x)) in Hnth.
  assert (Hlen : length (firstn j (lb_open n ++ x)) = j).
  { apply firstn_length_le. rewrite app_length, lb_open_length. lia. }
  rewrite app_nth2 in Hnth by lia. rewrite Hlen, Nat.sub_diag, Hq in Hnth. cbn in Hnth. congruence.
Qed.

(* an occurrence before the end of body lies inside  body ++ closing *)
Lemma occ_local (cl body r : list N) i : (i < length body)%nat ->
  (starts cl (skipn i (body ++ cl ++ r)) <-> starts cl (skipn i (body ++ cl))).
Proof.
  intros Hi. rewrite (app_assoc body cl r), skipn_app.
  replace (i - length (body ++ cl))%nat with 0%nat by (rewrite app_length; lia). cbn [skipn]. split.
  - apply starts_app_inv. rewrite skipn_length, app_length. lia.
  - apply starts_app.
Qed.

(* ------------------------------------------------------------------ scan_long_string *)
Lemma match_nonnil {A B} (l : list A) (a b : B) : l <> [] -> match l with [] => a | _ :: _ => b end = b.
Proof. destruct l; congruence. Qed.

Lemma scan_long_complete s bs r :
  LongBracket bs r -> chunk s = bs ->
  exists str s', scan_long_string s = (str, s', [], None) /\ chunk s' = r.
Proof.
  intros HL Hc. destruct HL as [n body r Hfirst]. unfold scan_long_string. rewrite Hc.
  pose proof (mlb_open n (body ++ lb_close n ++ r)) as Hm.
  destruct (match_long_bracket (lb_open n ++ body ++ lb_close n ++ r)) as [lb count]. cbn [fst] in Hm. subst lb.
  rewrite (match_nonnil (lb_open n)) by (unfold lb_open; discriminate).
  rewrite lb_swap.
  destruct (index_of_sub (lb_close n) (lb_open n ++ body ++ lb_close n ++ r)) as [idx|] eqn:Ei.
  - unfold index_of_sub in Ei. apply ios_some in Ei as (j & -> & Hj & Hst & Hno). cbn [Nat.add].
    assert (Ej : j = (n + 2 + length body)%nat).
    { destruct (Nat.lt_trichotomy j (n + 2 + length body)) as [Hlt|[He|Hgt]]; [exfalso|exact He|exfalso].
      - destruct (Nat.lt_ge_cases j (n + 2)) as [Hlt2|Hge2].
        + exact (no_close_in_open _ _ _ _ Hlt2 Hst).
        + replace j with (length (lb_open n) + (j - (n + 2)))%nat in Hst by (rewrite lb_open_length; lia).
          rewrite skipn_add, skipn_app, Nat.sub_diag, skipn_all in Hst. cbn [skipn app] in Hst.
          apply occ_local in Hst; [|lia]. apply (Hfirst (j - (n + 2))%nat); [lia|exact Hst].
      - apply (Hno (n + 2 + length body)%nat Hgt).
        replace (n + 2 + length body)%nat with (length (lb_open n) + length body)%nat by (rewrite lb_open_length; lia).
        rewrite skipn_add, skipn_app, Nat.sub_diag, skipn_all. cbn [skipn app].
        rewrite skipn_app, Nat.sub_diag, skipn_all. cbn [skipn app]. exists r. reflexivity. }
    eexists _, _. split; [reflexivity|]. cbn [chunk adv]. rewrite Hc. subst j.
    rewrite lb_close_length.
    replace (n + 2 + length body + (n + 2))%nat with (length (lb_open n) + (length body + length (lb_close n)))%nat
      by (rewrite lb_open_length, lb_close_length; lia).
    rewrite skipn_add, skipn_app, Nat.sub_diag, skipn_all. cbn [skipn app].
    rewrite skipn_add, skipn_app, Nat.sub_diag, skipn_all. cbn [skipn app].
    rewrite skipn_app, Nat.sub_diag, skipn_all. reflexivity.
  - exfalso. unfold index_of_sub in Ei.
    refine (ios_none _ _ _ _ _ Ei (length (lb_open n) + length body)%nat _ _); [lia| |].
    + rewrite !app_length. lia.
    + rewrite skipn_add, skipn_app, Nat.sub_diag, skipn_all. cbn [skipn app].
      rewrite skipn_app, Nat.sub_diag, skipn_all. cbn [skipn app]. exists r. reflexivity.
Qed.

Lemma scan_long_sound s str s' ov :
  scan_long_string s = (str, s', [], ov) -> LongBracket (chunk s) (chunk s').
Proof.
  unfold scan_long_string. destruct (match_long_bracket (chunk s)) as [lb count] eqn:Em.
  destruct lb as [|b0 lb']; [intros H; pinj H; discriminate|].
  assert (Hne : fst (match_long_bracket (chunk s)) <> []) by (rewrite Em; discriminate).
  destruct (mlb_inv _ Hne) as (n & x & Hc & Hlb). rewrite Em in Hlb. cbn [fst] in Hlb. rewrite Hlb. rewrite lb_swap.
  destruct (index_of_sub (lb_close n) (chunk s)) as [idx|] eqn:Ei; [|intros H; pinj H; discriminate].
  intros H. pinj H. cbn [chunk adv].
  unfold index_of_sub in Ei. apply ios_some in Ei as (j & -> & Hj & Hst & Hno). cbn [Nat.add].
  rewrite Hc in Hst, Hno, Hj |- *.
  assert (Hge : (n + 2 <= j)%nat).
  { destruct (Nat.lt_ge_cases j (n + 2)) as [Hlt|Hge]; [|exact Hge]. exfalso. exact (no_close_in_open _ _ _ _ Hlt Hst). }
  replace j with (length (lb_open n) + (j - (n + 2)))%nat in Hst by (rewrite lb_open_length; lia).
  rewrite skipn_add, skipn_app, Nat.sub_diag, skipn_all in Hst. cbn [skipn app] in Hst.
  destruct Hst as [r Hr].
  assert (Hx : x = firstn (j - (n + 2)) x ++ lb_close n ++ r).
  { rewrite <- Hr. symmetry. apply firstn_skipn. }
  set (body := firstn (j - (n + 2)) x) in *.
  assert (Hbl : length body = (j - (n + 2))%nat).
  { subst body. apply firstn_length_le. rewrite app_length, lb_open_length in Hj. lia. }
  assert (Hr' : skipn (j + length (lb_close n)) (lb_open n ++ x) = r).
  { rewrite Hx. replace (j + length (lb_close n))%nat
      with (length (lb_open n) + (length body + length (lb_close n)))%nat by (rewrite lb_open_length; lia).
    rewrite skipn_add, skipn_app, Nat.sub_diag, skipn_all. cbn [skipn app].
    rewrite skipn_add, skipn_app, Nat.sub_diag, skipn_all. cbn [skipn app].
    rewrite skipn_app, Nat.sub_diag, skipn_all. reflexivity. }
  rewrite Hr'. rewrite Hx. constructor. intros i Hi Hocc.
  apply (Hno (n + 2 + i)%nat ltac:(lia)).
  replace (n + 2 + i)%nat with (length (lb_open n) + i)%nat by (rewrite lb_open_length; lia).
  rewrite skipn_add, skipn_app, Nat.sub_diag, skipn_all. cbn [skipn app]. rewrite Hx.
  apply occ_local; assumption.
Qed.
