(* C17 - unsaved buffers and settings changes: the client's view (Model/Config.v lsp / edit / settings / run_live) against
   the demanded view (Spec/ConfigSpec.v spec_view) *)
From Coq Require Import List NArith Bool.
From LH Require Import Base.Bytes Base.Res Model.Config Spec.ConfigSpec Proofs.ConfigProofs.
Import ListNotations.
Local Open Scope N_scope.

(* ---------- small facts ---------- *)

Lemma is_nil_true {A} (l : list A) : is_nil l = true <-> l = [].
Proof. destruct l; cbn; split; intros H; try reflexivity; discriminate. Qed.

Lemma is_nil_false {A} (l : list A) : is_nil l = false <-> l <> [].
Proof. destruct l; cbn; split; intros H; try reflexivity; try discriminate; try (exfalso; apply H; reflexivity). Qed.

Lemma is_nil_app {A} (l : list A) (a : A) : is_nil (l ++ [a]) = false.
Proof. destruct l; reflexivity. Qed.

Lemma mem_path_remove f f' l : mem_path f' (remove_path f l) = negb (beq_bytes f f') && mem_path f' l.
Proof.
  unfold mem_path, remove_path. induction l as [|x l IH]; cbn [filter existsb].
  - rewrite andb_false_r. reflexivity.
  - destruct (beq_bytes f x) eqn:Hfx; cbn [negb existsb].
    + rewrite IH. apply beq_bytes_eq in Hfx. subst x.
      destruct (beq_bytes f' f) eqn:Hff; cbn [orb]; [|reflexivity].
      apply beq_bytes_eq in Hff. subst f'. rewrite (proj2 (beq_bytes_eq f f) eq_refl). reflexivity.
    + rewrite IH. destruct (beq_bytes f' x) eqn:Hf'x; cbn [orb].
      * apply beq_bytes_eq in Hf'x. subst x. rewrite Hfx. reflexivity.
      * reflexivity.
Qed.

Lemma publish_same f ds v : publish f ds v f = ds.
Proof. unfold publish. rewrite (proj2 (beq_bytes_eq f f) eq_refl). reflexivity. Qed.

Lemma publish_other f f' ds v : beq_bytes f' f = false -> publish f ds v f' = v f'.
Proof. unfold publish. intros H. rewrite H. reflexivity. Qed.

Lemma in_of_file f d ds : In d (of_file f ds) -> In d ds.
Proof. unfold of_file. intros H. apply filter_In in H. exact (proj1 H). Qed.

Lemma in_no_syntax d ds : In d (no_syntax ds) -> In d ds.
Proof. unfold no_syntax. intros H. apply filter_In in H. exact (proj1 H). Qed.

(* ---------- the configuration state of a history ---------- *)

Section Conf.
  Variable fx : fixes.
  Variable re_ok : path -> bool.

  Lemma changes_app : forall cs1 s cs2,
    changes fx re_ok s (cs1 ++ cs2) = (do s' <- changes fx re_ok s cs1; changes fx re_ok s' cs2).
  Proof.
    induction cs1 as [|c1 cs1 IH]; intros s cs2; cbn [app changes rbind]; [reflexivity|].
    destruct (change fx re_ok s c1) as [s1| |]; cbn [rbind]; [apply IH|reflexivity|reflexivity].
  Qed.

  Lemma session_snoc j c lr cs c' :
    session fx re_ok j c lr (cs ++ [c']) = (do s <- session fx re_ok j c lr cs; change fx re_ok s c').
  Proof.
    unfold session. destruct (init fx re_ok j c lr) as [s0| |]; cbn [rbind]; [|reflexivity|reflexivity].
    rewrite changes_app. destruct (changes fx re_ok s0 cs) as [s1| |]; cbn [rbind changes]; [|reflexivity|reflexivity].
    destruct (change fx re_ok s1 c') as [s2| |]; reflexivity.
  Qed.

  Lemma change_changed s c s' : change fx re_ok s c = Ok s' -> s_changed s' = true.
  Proof.
    unfold change. destruct (s_changed s) eqn:Hc; cbn [negb].
    - destruct (g_json (s_g s)).
      + intros H. apply Ok_inj in H. subst s'. exact Hc.
      + destruct (handle_flags fx re_ok (s_g s) c) as [g| |]; cbn [rbind]; intros H; try discriminate.
        apply Ok_inj in H. subst s'. reflexivity.
    - intros H. apply Ok_inj in H. subst s'. reflexivity.
  Qed.

  Lemma changes_changed : forall cs s s',
    changes fx re_ok s cs = Ok s' -> s_changed s' = s_changed s || negb (is_nil cs).
  Proof.
    induction cs as [|c1 cs IH]; intros s s' H; cbn [changes] in H.
    - apply Ok_inj in H. subst s'. cbn [is_nil negb]. rewrite orb_false_r. reflexivity.
    - destruct (change fx re_ok s c1) as [s1| |] eqn:H1; cbn [rbind] in H; try discriminate.
      rewrite (IH _ _ H), (change_changed _ _ _ H1). cbn [is_nil negb orb]. rewrite orb_true_r. reflexivity.
  Qed.

  Lemma session_changed j c lr cs s : session fx re_ok j c lr cs = Ok s -> s_changed s = negb (is_nil cs).
  Proof.
    unfold session, init.
    destruct (match j with Some jc => read_json fx re_ok g_default jc | None => handle_flags fx re_ok g_default c end)
      as [g| |]; cbn [rbind]; try discriminate.
    destruct (lr && negb (g_var_map g) && negb (fx_regexp fx)); cbn [rbind]; try discriminate.
    intros H. rewrite (changes_changed _ _ _ H). reflexivity.
  Qed.

  Lemma session_json_flag j c lr cs s :
    client_wf c = true -> forallb client_wf cs = true -> session fx re_ok j c lr cs = Ok s ->
    g_json (s_g s) = match j with Some _ => true | None => false end.
  Proof.
    intros Hwf Hwfs H. destruct j as [jc|].
    - apply session_json in H. rewrite (read_json_inv fx re_ok g_default jc (s_g s) H). reflexivity.
    - destruct (session_client fx re_ok c lr cs s Hwf Hwfs H) as (Hfc & Hwfe).
      exact (proj1 (from_client_cinv fx re_ok _ _ Hwfe Hfc)).
  Qed.

  Lemma session_effective j c lr cs s :
    client_wf c = true -> forallb client_wf cs = true -> session fx re_ok j c lr cs = Ok s ->
    effective s = spec_takes_effect j cs.
  Proof.
    intros Hwf Hwfs H. unfold effective, spec_takes_effect.
    rewrite (session_changed _ _ _ _ _ H), (session_json_flag _ _ _ _ _ Hwf Hwfs H).
    destruct j; [apply andb_false_r|apply andb_true_r].
  Qed.
End Conf.

(* a notification that does not take effect leaves the intent alone *)
Lemma intent_not_effective j c cs c' :
  spec_takes_effect j cs = false -> session_intent j c (cs ++ [c']) = session_intent j c cs.
Proof.
  unfold spec_takes_effect, session_intent. destruct j as [jc|]; [reflexivity|].
  intros H. apply negb_false_iff in H. apply is_nil_true in H. subst cs. reflexivity.
Qed.

(* ---------- the demanded view never holds a diagnostic the configuration of the moment excludes ---------- *)

Section SpecSide.
  Variable re_ok : path -> bool.
  Variable re_match : path -> path -> bool.
  Variable raw : list path -> list diag.
  Variables (j : option json_cfg) (c : client_cfg) (root : path) (files : list path).

  Definition allowed_view (cs : list client_cfg) (v : path -> list diag) : Prop :=
    forall f d, In d (v f) -> spec_excluded re_ok re_match (session_intent j c cs) root d = false.

  Lemma allowed_file_view cs : allowed_view cs (spec_file_view re_ok re_match raw (session_intent j c cs) root files).
  Proof.
    intros f d H. unfold spec_file_view in H. apply in_of_file in H. unfold spec_shown in H.
    apply filter_In in H. apply negb_true_iff. exact (proj2 H).
  Qed.

  Lemma allowed_edit cs v f errs :
    allowed_view cs v -> allowed_view cs (spec_edit re_ok re_match raw (session_intent j c cs) root files v f errs).
  Proof.
    intros Hv f' d. unfold spec_edit.
    destruct (spec_handled re_ok re_match (session_intent j c cs) f); cbn [negb]; [|apply Hv].
    destruct (is_nil (filter (fun d0 => negb (spec_excluded re_ok re_match (session_intent j c cs) root d0)) errs));
      cbn [negb]; unfold publish; destruct (beq_bytes f' f); try apply Hv.
    - intros H. apply in_no_syntax in H. exact (allowed_file_view cs f d H).
    - intros H. apply filter_In in H. apply negb_true_iff. exact (proj2 H).
  Qed.

  Lemma allowed_steps : forall evs cs v,
    allowed_view cs v -> allowed_view (cs ++ settings_of evs) (spec_steps re_ok re_match raw j c root files cs v evs).
  Proof.
    induction evs as [|e evs IH]; intros cs v Hv; cbn [settings_of spec_steps].
    - rewrite app_nil_r. exact Hv.
    - destruct e as [f errs|c'].
      + apply IH. apply allowed_edit. exact Hv.
      + replace (cs ++ c' :: settings_of evs) with ((cs ++ [c']) ++ settings_of evs)
          by (rewrite <- app_assoc; reflexivity).
        apply IH. destruct (spec_takes_effect j cs) eqn:He.
        * apply allowed_file_view.
        * intros f d H. rewrite (intent_not_effective j c cs c' He). exact (Hv f d H).
  Qed.

  Theorem spec_view_allowed evs : allowed_view (settings_of evs) (spec_view re_ok re_match raw j c root files evs).
  Proof. exact (allowed_steps evs [] _ (allowed_file_view [])). Qed.

  Lemma spec_steps_app : forall e1 cs v e2,
    spec_steps re_ok re_match raw j c root files cs v (e1 ++ e2)
    = spec_steps re_ok re_match raw j c root files (cs ++ settings_of e1)
                 (spec_steps re_ok re_match raw j c root files cs v e1) e2.
  Proof.
    induction e1 as [|e e1 IH]; intros cs v e2; cbn [app spec_steps settings_of].
    - rewrite app_nil_r. reflexivity.
    - destruct e as [f errs|c'].
      + apply IH.
      + rewrite IH. rewrite <- app_assoc. reflexivity.
  Qed.

  (* right after a notification that takes effect: a fresh start with the new intent *)
  Lemma spec_view_after_settings evs c' :
    spec_takes_effect j (settings_of evs) = true ->
    spec_view re_ok re_match raw j c root files (evs ++ [ESettings c'])
    = spec_file_view re_ok re_match raw (session_intent j c (settings_of evs ++ [c'])) root files.
  Proof.
    intros He. unfold spec_view. rewrite spec_steps_app. cbn [spec_steps app]. rewrite He. reflexivity.
  Qed.
End SpecSide.

Lemma settings_of_app e1 e2 : settings_of (e1 ++ e2) = settings_of e1 ++ settings_of e2.
Proof.
  induction e1 as [|e e1 IH]; cbn [app settings_of]; [reflexivity|].
  destruct e; [exact IH|cbn [app]; rewrite IH; reflexivity].
Qed.

(* ---------- the repaired code shows the demanded view ---------- *)

Section Live.
  Variable fx : fixes.
  Variable re_ok : path -> bool.
  Variable re_match : path -> path -> bool.
  Variable raw : list path -> list diag.
  Hypothesis Hg : gate_covers fx = true.
  Hypothesis Hc : fx_coupled fx = true.
  Hypothesis Hd : fx_dead fx = true.
  Hypothesis Hu : fx_dup fx = true.
  Hypothesis Hsi : fx_sites fx = true.
  Hypothesis Hl : fx_live fx = true.
  (* the analysis reports diagnostics of the existing types 1..29 *)
  Hypothesis Hraw : forall fs, forallb type_ok (raw fs) = true.
  Variables (root : path) (files : list path) (j : option json_cfg) (c : client_cfg) (lr : bool).
  Hypothesis Hwf : client_wf c = true.

  Notation shown' := (shown fx re_ok re_match raw).
  Notation sshown := (spec_shown re_ok re_match raw).

  (* a file shows something only if the server knows it: it has saved diagnostics or remembered live syntax errors *)
  Definition supp (st : lsp) : Prop :=
    forall f, l_view st f <> [] -> of_file f (l_disk st) <> [] \/ mem_path f (l_live st) = true.

  Record inv (st : lsp) (cs : list client_cfg) (v : path -> list diag) : Prop := {
    inv_sess : session fx re_ok j c lr cs = Ok (l_srv st);
    inv_disk : l_disk st = shown' (s_g (l_srv st)) root files;
    inv_view : forall f, l_view st f = v f;
    inv_supp : supp st
  }.

  Lemma shown_spec cs s :
    forallb client_wf cs = true -> session fx re_ok j c lr cs = Ok s ->
    shown' (s_g s) root files = sshown (session_intent j c cs) root files.
  Proof.
    intros Hwfs H. apply (filter_law fx re_ok re_match raw root files j c lr cs s); try assumption. apply Hraw.
  Qed.

  Lemma edit_inv st cs v f errs :
    forallb client_wf cs = true ->
    forallb (fun d => same_file f d && (d_type d =? check_error_syntax)) errs = true ->
    inv st cs v ->
    inv (edit fx re_ok re_match root st f errs) cs
        (spec_edit re_ok re_match raw (session_intent j c cs) root files v f errs).
  Proof.
    intros Hwfs He [Hs Hdk Hv Hsu]. set (i := session_intent j c cs).
    pose proof (proj2 (session_sites_exact fx re_ok re_match j c lr cs (l_srv st) f Hu Hsi Hwf Hwfs Hs)) as Hn.
    fold i in Hn.
    assert (Hfil : filter (visible fx re_ok re_match (s_g (l_srv st)) root) errs
                   = filter (fun d => negb (spec_excluded re_ok re_match i root d)) errs).
    { apply filter_ext_in. intros d Hin. rewrite forallb_forall in He. specialize (He d Hin).
      apply andb_true_iff in He as [_ Ht]. apply N.eqb_eq in Ht.
      apply (session_visible_exact fx re_ok re_match root j c lr cs (l_srv st) d); try assumption.
      unfold type_ok. rewrite Ht. reflexivity. }
    assert (Hdisk : l_disk st = sshown i root files) by (rewrite Hdk; apply shown_spec; assumption).
    unfold edit, spec_edit. rewrite Hn, Hfil.
    destruct (spec_handled re_ok re_match i f); cbn [negb].
    2: { constructor; assumption. }
    destruct (is_nil (filter (fun d => negb (spec_excluded re_ok re_match i root d)) errs)) eqn:Hnil; cbn [negb].
    - (* no live error left *)
      constructor; unfold supp; cbn [l_srv l_disk l_live l_view]; try assumption.
      + intros f'. unfold spec_file_view. rewrite <- Hdisk.
        destruct (mem_path f (l_live st) || negb (is_nil (of_file f (l_disk st)))) eqn:Hcond.
        * unfold publish. destruct (beq_bytes f' f); [reflexivity|apply Hv].
        * apply orb_false_iff in Hcond as [Hm Hno]. apply negb_false_iff in Hno. apply is_nil_true in Hno.
          unfold publish. destruct (beq_bytes f' f) eqn:Hff; [|apply Hv].
          apply beq_bytes_eq in Hff. subst f'. rewrite Hno. cbn [no_syntax filter].
          destruct (l_view st f) as [|d0 l0] eqn:Hvf; [reflexivity|].
          destruct (Hsu f) as [H1|H1]; [rewrite Hvf; discriminate|exfalso; apply H1; exact Hno|].
          rewrite Hm in H1. discriminate.
      + intros f' Hne. rewrite mem_path_remove.
        destruct (beq_bytes f f') eqn:Hff.
        * apply beq_bytes_eq in Hff. subst f'. left.
          destruct (mem_path f (l_live st) || negb (is_nil (of_file f (l_disk st)))) eqn:Hcond.
          -- rewrite publish_same in Hne. intros E. apply Hne. rewrite E. reflexivity.
          -- apply orb_false_iff in Hcond as [Hm Hno].
             destruct (Hsu f Hne) as [H1|H1]; [exact H1|rewrite Hm in H1; discriminate].
        * cbn [negb andb]. apply Hsu.
          destruct (mem_path f (l_live st) || negb (is_nil (of_file f (l_disk st)))); [|exact Hne].
          rewrite publish_other in Hne; [exact Hne|].
          destruct (beq_bytes f' f) eqn:E; [|reflexivity].
          apply beq_bytes_eq in E. subst f'. rewrite (proj2 (beq_bytes_eq f f) eq_refl) in Hff. discriminate.
    - (* live errors are published *)
      constructor; unfold supp; cbn [l_srv l_disk l_live l_view]; try assumption.
      + intros f'. unfold publish. destruct (beq_bytes f' f); [reflexivity|apply Hv].
      + intros f' Hne. cbn [mem_path existsb]. destruct (beq_bytes f' f) eqn:Hff.
        * right. reflexivity.
        * rewrite publish_other in Hne by exact Hff. cbn [orb]. fold (mem_path f' (remove_path f (l_live st))).
          rewrite mem_path_remove.
          assert (E : beq_bytes f f' = false).
          { destruct (beq_bytes f f') eqn:E; [|reflexivity]. apply beq_bytes_eq in E. subst f'.
            rewrite (proj2 (beq_bytes_eq f f) eq_refl) in Hff. discriminate. }
          rewrite E. cbn [negb andb]. apply Hsu. exact Hne.
  Qed.

  (* for EVERY state of the server that shows something only for files it knows (every set of unsaved buffers, whatever
     they show) and every new configuration state: after a settings change that takes effect each file shows exactly
     its share of the fresh analysis under the new configuration *)
  Lemma resettle_fresh st s' :
    supp st -> forall f, l_view (resettle fx re_ok re_match raw root files st s') f = of_file f (shown' (s_g s') root files).
  Proof.
    intros Hsu f. unfold resettle. cbn [l_view].
    destruct (is_nil (of_file f (shown' (s_g s') root files))) eqn:Hn; cbn [negb]; [|reflexivity].
    apply is_nil_true in Hn. rewrite Hn. rewrite Hl. cbn [andb].
    destruct (negb (is_nil (of_file f (l_disk st))) || mem_path f (l_live st)) eqn:Hcond; [reflexivity|].
    apply orb_false_iff in Hcond as [Hno Hm]. apply negb_false_iff in Hno. apply is_nil_true in Hno.
    destruct (l_view st f) as [|d0 l0] eqn:Hvf; [reflexivity|].
    destruct (Hsu f) as [H1|H1]; [rewrite Hvf; discriminate|exfalso; apply H1; exact Hno|].
    rewrite Hm in H1. discriminate.
  Qed.

  Lemma settings_inv st cs v c' st' :
    forallb client_wf cs = true -> client_wf c' = true ->
    inv st cs v -> settings fx re_ok re_match raw root files st c' = Ok st' ->
    inv st' (cs ++ [c'])
        (if spec_takes_effect j cs then spec_file_view re_ok re_match raw (session_intent j c (cs ++ [c'])) root files
         else v).
  Proof.
    intros Hwfs Hwf' [Hs Hdk Hv Hsu] H. unfold settings in H.
    destruct (change fx re_ok (l_srv st) c') as [s'| |] eqn:Hch; cbn [rbind] in H; try discriminate.
    apply Ok_inj in H.
    assert (Hs' : session fx re_ok j c lr (cs ++ [c']) = Ok s').
    { rewrite session_snoc, Hs. cbn [rbind]. exact Hch. }
    assert (Hwfs' : forallb client_wf (cs ++ [c']) = true).
    { rewrite forallb_app, Hwfs. cbn [forallb]. rewrite Hwf'. reflexivity. }
    rewrite (session_effective fx re_ok j c lr cs (l_srv st) Hwf Hwfs Hs) in H.
    destruct (spec_takes_effect j cs) eqn:He; subst st'.
    - constructor.
      + exact Hs'.
      + reflexivity.
      + intros f. rewrite (resettle_fresh st s' Hsu f). cbn [l_srv]. unfold spec_file_view.
        rewrite (shown_spec (cs ++ [c']) s' Hwfs' Hs'). reflexivity.
      + intros f Hne. left. rewrite (resettle_fresh st s' Hsu f) in Hne. exact Hne.
    - (* not effective: the configuration state is the old one up to the flag *)
      assert (Hg' : s_g s' = s_g (l_srv st)).
      { pose proof (session_effective fx re_ok j c lr cs (l_srv st) Hwf Hwfs Hs) as Heff. rewrite He in Heff.
        unfold effective in Heff. unfold change in Hch.
        destruct (s_changed (l_srv st)); cbn [negb andb] in *.
        - apply negb_false_iff in Heff. rewrite Heff in Hch. apply Ok_inj in Hch. subst s'. reflexivity.
        - apply Ok_inj in Hch. subst s'. reflexivity. }
      constructor; cbn [l_srv l_disk l_live l_view].
      + exact Hs'.
      + rewrite Hg'. exact Hdk.
      + exact Hv.
      + exact Hsu.
  Qed.

  Lemma steps_inv : forall evs st cs v st',
    forallb client_wf cs = true -> forallb client_wf (settings_of evs) = true -> edits_wf evs = true ->
    inv st cs v -> steps fx re_ok re_match raw root files st evs = Ok st' ->
    inv st' (cs ++ settings_of evs) (spec_steps re_ok re_match raw j c root files cs v evs).
  Proof.
    induction evs as [|e evs IH]; intros st cs v st' Hwfs Hwfe Hed Hinv H; cbn [steps settings_of spec_steps] in *.
    - apply Ok_inj in H. subst st'. rewrite app_nil_r. exact Hinv.
    - unfold edits_wf in Hed. cbn [forallb] in Hed. apply andb_true_iff in Hed as [He1 Hed].
      destruct e as [f errs|c']; cbn [step rbind] in H.
      + apply (IH (edit fx re_ok re_match root st f errs) cs _ st' Hwfs Hwfe Hed); [|exact H]. apply edit_inv; assumption.
      + cbn [settings_of forallb] in Hwfe. apply andb_true_iff in Hwfe as [Hwf' Hwfe].
        destruct (settings fx re_ok re_match raw root files st c') as [st1| |] eqn:Hst; cbn [rbind] in H; try discriminate.
        replace (cs ++ c' :: settings_of evs) with ((cs ++ [c']) ++ settings_of evs)
          by (rewrite <- app_assoc; reflexivity).
        apply (IH st1 (cs ++ [c']) _ st'); try assumption.
        * rewrite forallb_app, Hwfs. cbn [forallb]. rewrite Hwf'. reflexivity.
        * exact (settings_inv st cs v c' st1 Hwfs Hwf' Hinv Hst).
  Qed.

  Lemma start_inv st :
    start fx re_ok re_match raw root files j c lr = Ok st ->
    inv st [] (spec_file_view re_ok re_match raw (session_intent j c []) root files).
  Proof.
    unfold start. destruct (init fx re_ok j c lr) as [s| |] eqn:Hi; cbn [rbind]; try discriminate.
    intros H. apply Ok_inj in H. subst st.
    assert (Hs : session fx re_ok j c lr [] = Ok s) by (unfold session; rewrite Hi; reflexivity).
    constructor; cbn [l_srv l_disk l_live l_view].
    - exact Hs.
    - reflexivity.
    - intros f. unfold spec_file_view. rewrite (shown_spec [] s eq_refl Hs). reflexivity.
    - intros f Hne. left. exact Hne.
  Qed.

  (* every history: the configuration state is that of the session, and every file shows the demanded list *)
  Theorem live_refines evs st :
    forallb client_wf (settings_of evs) = true -> edits_wf evs = true ->
    run_live fx re_ok re_match raw root files j c lr evs = Ok st ->
    session fx re_ok j c lr (settings_of evs) = Ok (l_srv st)
    /\ forall f, l_view st f = spec_view re_ok re_match raw j c root files evs f.
  Proof.
    intros Hwfe Hed H. unfold run_live in H.
    destruct (start fx re_ok re_match raw root files j c lr) as [st0| |] eqn:H0; cbn [rbind] in H; try discriminate.
    destruct (steps_inv evs st0 [] _ st eq_refl Hwfe Hed (start_inv st0 H0) H) as [Hs _ Hv _].
    split; [exact Hs|exact Hv].
  Qed.

  (* ... hence no file ever shows a diagnostic the configuration of the moment excludes *)
  Theorem live_never_excluded evs st f d :
    forallb client_wf (settings_of evs) = true -> edits_wf evs = true ->
    run_live fx re_ok re_match raw root files j c lr evs = Ok st ->
    In d (l_view st f) ->
    spec_excluded re_ok re_match (session_intent j c (settings_of evs)) root d = false.
  Proof.
    intros Hwfe Hed H Hin. destruct (live_refines evs st Hwfe Hed H) as [_ Hv]. rewrite Hv in Hin.
    exact (spec_view_allowed re_ok re_match raw j c root files evs f d Hin).
  Qed.

  (* right after a settings change that takes effect - whatever was edited before, whichever buffers are unsaved -
     every file shows exactly its share of what the new intent allows of the workspace as it is on disk *)
  Theorem settings_change_clears_live evs c' st :
    forallb client_wf (settings_of evs) = true -> client_wf c' = true -> edits_wf evs = true ->
    spec_takes_effect j (settings_of evs) = true ->
    run_live fx re_ok re_match raw root files j c lr (evs ++ [ESettings c']) = Ok st ->
    (forall f, l_view st f = of_file f (sshown (session_intent j c (settings_of evs ++ [c'])) root files))
    /\ (forall f d, In d (l_view st f) ->
          spec_excluded re_ok re_match (session_intent j c (settings_of evs ++ [c'])) root d = false).
  Proof.
    intros Hwfe Hwf' Hed He H.
    assert (Hwfe' : forallb client_wf (settings_of (evs ++ [ESettings c'])) = true).
    { rewrite settings_of_app, forallb_app, Hwfe. cbn [settings_of forallb]. rewrite Hwf'. reflexivity. }
    assert (Hed' : edits_wf (evs ++ [ESettings c']) = true).
    { unfold edits_wf in *. rewrite forallb_app, Hed. reflexivity. }
    destruct (live_refines _ st Hwfe' Hed' H) as [_ Hv].
    assert (Hview : forall f, l_view st f = of_file f (sshown (session_intent j c (settings_of evs ++ [c'])) root files)).
    { intros f. rewrite Hv, (spec_view_after_settings re_ok re_match raw j c root files evs c' He). reflexivity. }
    split; [exact Hview|].
    intros f d Hin. rewrite Hview in Hin. apply in_of_file in Hin. unfold spec_shown in Hin.
    apply filter_In in Hin. apply negb_true_iff. exact (proj2 Hin).
  Qed.
End Live.

(* ---------- witnesses ---------- *)

(* a.lua has no diagnostic on disk; its unsaved buffer has a syntax error *)
Definition live_err : diag := mk_diag a_lua 1.
Definition raw_clean : list path -> list diag := fun _ => [].
(* start-up synchronisation, the edit, then the settings change *)
Definition live_history (c' : client_cfg) : list event :=
  [ESettings w_all_on; EEdit a_lua [live_err]; ESettings c'; EEdit a_lua [live_err]].
Definition w_syntax_off : client_cfg := mk_client [1] [] [].
Definition w_silence_a : client_cfg := mk_client [] [] [a_lua].
Definition w_ignore_a : client_cfg := mk_client [] [a_lua] [].
Definition live_final_view (fx : fixes) (c' : client_cfg) : list diag :=
  match run_live fx re_all re_none raw_clean [] [a_lua] None w_all_on false (live_history c') with
  | Ok st => l_view st a_lua
  | _ => [mk_diag a_lua 0]
  end.

(* ---------- the statement of the defect, for one variant of the code ---------- *)

(* after a settings change that takes effect no file shows a diagnostic the new configuration excludes - whatever was
   edited before, whichever buffers are unsaved *)
Definition live_for (fx : fixes) : Prop :=
  forall (re_ok : path -> bool) (re_match : path -> path -> bool) (raw : list path -> list diag)
         root files j c lr evs c' st,
    (forall fs, forallb type_ok (raw fs) = true) -> client_wf c = true ->
    forallb client_wf (settings_of evs) = true -> client_wf c' = true -> edits_wf evs = true ->
    spec_takes_effect j (settings_of evs) = true ->
    run_live fx re_ok re_match raw root files j c lr (evs ++ [ESettings c']) = Ok st ->
    forall f d, In d (l_view st f) ->
      spec_excluded re_ok re_match (session_intent j c (settings_of evs ++ [c'])) root d = false.

Theorem live_deployed : live_for deployed.
Proof.
  intros re_ok re_match raw root files j c lr evs c' st Hraw Hwf Hwfe Hwf' Hed He H.
  exact (proj2 (settings_change_clears_live deployed re_ok re_match raw eq_refl eq_refl eq_refl eq_refl eq_refl eq_refl
                  Hraw root files j c lr Hwf evs c' st Hwfe Hwf' Hed He H)).
Qed.

(* before the repair: a.lua clean on disk, its unsaved buffer with a syntax error, then CheckSyntax switched off *)
Definition live_witness_state : lsp :=
  match run_live code_round3 re_all re_none raw_clean [] [a_lua] None w_all_on false
                 ([ESettings w_all_on; EEdit a_lua [live_err]] ++ [ESettings w_syntax_off]) with
  | Ok st => st
  | _ => {| l_srv := {| s_g := g_default; s_changed := false |}; l_disk := []; l_live := []; l_view := fun _ => [] |}
  end.

Theorem live_round3_refuted : ~ live_for code_round3.
Proof.
  intros H.
  assert (E : spec_excluded re_all re_none
                (session_intent None w_all_on (settings_of [ESettings w_all_on; EEdit a_lua [live_err]] ++ [w_syntax_off]))
                [] live_err = false).
  { apply (H re_all re_none raw_clean [] [a_lua] None w_all_on false
             [ESettings w_all_on; EEdit a_lua [live_err]] w_syntax_off live_witness_state
             (fun _ => eq_refl) eq_refl eq_refl eq_refl eq_refl eq_refl) with (f := a_lua).
    - vm_compute. reflexivity.
    - vm_compute. left. reflexivity. }
  vm_compute in E. discriminate.
Qed.

(* the class of the defect is empty on the repaired code *)
Lemma live_class_empty fx st : fx_live fx = true -> cls_live_stale fx st = false.
Proof. intros H. unfold cls_live_stale. rewrite H. reflexivity. Qed.
