(* C16 round trip: parsing the canonical text of a documented type / statement gives back exactly the tree
   (the embed functions), for types of unbounded depth.  Induction on the size of the type; the parser is executed
   symbolically on `show t ++ rest` with the lexer shape lemmas of AnnLexFacts.v. *)
From Coq Require Import String Ascii List Arith NArith Bool Lia ZifyN ZifyNat ZifyBool.
From LH Require Import Base.Bytes Base.Res Model.AnnLexer Model.AnnAst Model.AnnParser Spec.AnnGrammar
  Proofs.AnnLexFacts.
Import ListNotations.
Local Open Scope nat_scope.

Notation St c := (mkLx c None).
Notation StA c t := (mkLx c (Some t)).

(* ------------------------------------------------------------------ positions *)
(* the lexer state l is positioned at `text`: its next token is the first token of text *)
Definition At (text : bytes) (l : lx) : Prop := look_ahead l = look_ahead (St text).

Lemma At_St text : At text (St text).
Proof. reflexivity. Qed.

Lemma At_sp text : At text (St (32%N :: text)).
Proof. unfold At, look_ahead. cbn [ahead chunk]. rewrite lex_token_sp. reflexivity. Qed.

Lemma At_la text l t c : At text l -> lex_token text = Ok (t, c) -> look_ahead l = Ok (StA c t).
Proof. unfold At. intros -> H. unfold look_ahead. cbn [ahead chunk]. rewrite H. reflexivity. Qed.

Lemma la_At text l t c : look_ahead l = Ok (StA c t) -> lex_token text = Ok (t, c) -> At text l.
Proof. unfold At. intros -> H. unfold look_ahead. cbn [ahead chunk]. rewrite H. reflexivity. Qed.

Lemma la_St c t c' : lex_token c = Ok (t, c') -> look_ahead (St c) = Ok (StA c' t).
Proof. intros H. unfold look_ahead. cbn [ahead chunk]. rewrite H. reflexivity. Qed.

Lemma la_StA c t : look_ahead (StA c t) = Ok (StA c t).
Proof. reflexivity. Qed.

(* the token-level helpers on a state whose next token is known *)
Section Known.
  Variables (l : lx) (c : bytes) (t : tok).
  Hypothesis Hl : look_ahead l = Ok (StA c t).

  Lemma next_token_of : next_token l = Ok (t, St c).
  Proof.
    unfold look_ahead in Hl. unfold next_token. destruct l as [c0 [a|]]; cbn [ahead chunk] in *.
    - injection Hl as -> ->. reflexivity.
    - destruct (lex_token c0) as [[t0 c1]| |]; cbn in Hl; try discriminate Hl. injection Hl as -> ->. reflexivity.
  Qed.

  Lemma lap_of : look_ahead_p l = POk tt (StA c t).
  Proof. unfold look_ahead_p. rewrite Hl. reflexivity. Qed.

  Lemma lak_of : look_ahead_kind l = POk (tkind t) (StA c t).
  Proof. unfold look_ahead_kind. rewrite lap_of. reflexivity. Qed.

  Lemma ntp_of : next_token_p l = POk t (St c).
  Proof. unfold next_token_p. rewrite next_token_of. reflexivity. Qed.

  Lemma nok_of k : tkind t = k -> next_of_kind k l = POk (tstr t) (St c).
  Proof. intros <-. unfold next_of_kind. rewrite ntp_of. cbn [pbind]. rewrite kind_eqb_refl. reflexivity. Qed.

  Lemma nti_of : tkind t = KIdent -> next_type_identifier l = POk (tstr t) (St c).
  Proof. intros E. unfold next_type_identifier. rewrite ntp_of. cbn [pbind]. rewrite E. reflexivity. Qed.
End Known.

Lemma nok_StA k c t : tkind t = k -> next_of_kind k (StA c t) = POk (tstr t) (St c).
Proof. apply nok_of. reflexivity. Qed.
Lemma nok_St k c t c' : lex_token c = Ok (t, c') -> tkind t = k -> next_of_kind k (St c) = POk (tstr t) (St c').
Proof. intros H. apply nok_of. apply la_St. exact H. Qed.
Lemma ntp_StA c t : next_token_p (StA c t) = POk t (St c).
Proof. apply ntp_of. reflexivity. Qed.
Lemma ntp_St c t c' : lex_token c = Ok (t, c') -> next_token_p (St c) = POk t (St c').
Proof. intros H. apply ntp_of. apply la_St. exact H. Qed.
Lemma lak_StA c t : look_ahead_kind (StA c t) = POk (tkind t) (StA c t).
Proof. apply lak_of. reflexivity. Qed.
Lemma lak_St c t c' : lex_token c = Ok (t, c') -> look_ahead_kind (St c) = POk (tkind t) (StA c' t).
Proof. intros H. apply lak_of. apply la_St. exact H. Qed.

(* what follows a type: the next token tk, and the byte after the type does not continue an identifier *)
Definition Fol (rest : bytes) (tk : tok) (rest' : bytes) : Prop :=
  lex_token rest = Ok (tk, rest') /\ stop rest = true.

(* ------------------------------------------------------------------ parserSingleType = primary ; array suffix *)
Definition primary (f : nat) (l : lx) : PR atype :=
  let* (k, l) := look_ahead_kind l in
  (if kind_eqb k KLparen then
     let* (_, l) := next_of_kind KLparen l in
     let* (t, l) := parse_one_type f l in
     let* (_, l) := next_of_kind KRparen l in
     POk t l
   else if kind_eqb k KFun then parse_fun_type f l
   else if kind_eqb k KTable then parse_table_type f l
   else if kind_eqb k KIdent then
     let* (s, l) := next_type_identifier l in POk (ANormal s true) l
   else if kind_eqb k KVararg then
     let* (_, l) := next_token_p l in POk (ANormal s_dots true) l
   else if kind_eqb k KString then
     let s := ahead_str l in
     let* (sq, l) := lift_res (split_str_quotes s) l in
     let* (_, l) := next_token_p l in
     POk (AConst (fst sq) (snd sq) []) l
   else error_print 3%N KEOF s_not_find l).

Definition suffix (sub : atype) (l : lx) : PR atype :=
  let* (k2, l) := look_ahead_kind l in
  if kind_eqb k2 KLbrack then
    let* (_, l) := next_of_kind KLbrack l in
    let* (_, l) := next_of_kind KRbrack l in
    POk (AArray sub) l
  else POk sub l.

Lemma single_unfold f l : parse_single_type (S f) l = pbind (primary f l) suffix.
Proof.
  cbn [parse_single_type]. unfold primary. destruct (look_ahead_kind l); reflexivity.
Qed.

Lemma suffix_plain sub l rest' tk :
  look_ahead l = Ok (StA rest' tk) -> tkind tk <> KLbrack -> suffix sub l = POk sub (StA rest' tk).
Proof.
  intros Hl Hk. unfold suffix. rewrite (lak_of _ _ _ Hl). cbn [pbind].
  apply kind_eqb_neq in Hk. rewrite Hk. reflexivity.
Qed.

Lemma suffix_array sub l rest :
  At (t_brackets ++ rest) l -> suffix sub l = POk (AArray sub) (St rest).
Proof.
  intros Hat. unfold suffix.
  rewrite (lak_of _ _ _ (At_la _ _ _ _ Hat (lex_lbrack _))). cbn [pbind tkind].
  change (kind_eqb KLbrack KLbrack) with true. cbv iota.
  rewrite nok_StA by reflexivity. cbn [pbind].
  rewrite (nok_St _ _ _ _ (lex_rbrack _)) by reflexivity. reflexivity.
Qed.

(* ------------------------------------------------------------------ sizes *)
Fixpoint tsize (t : dtype) : nat :=
  match t with
  | DName _ | DConst _ _ | DTable0 => 1
  | DArray i => S (tsize i)
  | DTable k v => S (tsize k + tsize v)
  | DFun ps rs =>
    S (list_sum (map (fun p : bytes * bool * option dtype =>
                        match p with (_, _, Some t) => S (tsize t) | _ => 1 end) ps)
       + list_sum (map tsize rs))
  | DUnion ts => S (list_sum (map tsize ts))
  end.

Lemma list_sum_in {A} (g : A -> nat) x l : In x l -> g x <= list_sum (map g l).
Proof.
  induction l as [|y l IH]; [intros []|].
  change (list_sum (map g (y :: l))) with (g y + list_sum (map g l)).
  intros [->|H]; [lia|]. specialize (IH H). lia.
Qed.

(* ------------------------------------------------------------------ names *)
Lemma ident_shape_inv n : ident_shape n = true ->
  exists b r, n = b :: r /\ is_id_start b = true /\ forallb is_id_cont r = true.
Proof.
  destruct n as [|b r]; cbn; [discriminate|]. intros H. apply andb_true_iff in H as [H1 H2]. eauto.
Qed.

Lemma lex_plain_name n rest :
  plain_name n = true -> stop rest = true -> lex_token (n ++ rest) = Ok (mkTok KIdent n, rest).
Proof.
  unfold plain_name, not_keyword. intros H Hs. apply andb_true_iff in H as [H1 H2].
  destruct (ident_shape_inv _ H1) as (b & r & -> & Hb & Hr).
  rewrite lex_word by assumption. destruct (kw_lookup (b :: r)); [discriminate|reflexivity].
Qed.

Lemma lex_type_name n rest :
  type_name_ok n = true -> stop rest = true ->
  exists k, lex_token (n ++ rest) = Ok (mkTok k n, rest) /\
            ((k = KIdent) \/ (k = KVararg /\ n = s_dots)).
Proof.
  unfold type_name_ok. intros H Hs. apply orb_true_iff in H as [H|H].
  - exists KIdent. split; [apply lex_plain_name; assumption | left; reflexivity].
  - apply beq_bytes_eq in H. subst n. exists KVararg. split; [apply lex_dots | right; split; reflexivity].
Qed.
