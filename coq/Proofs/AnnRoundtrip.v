(* C16 round trip: parsing the text of a documented type / statement gives back exactly the tree
   (the embed functions), for types of unbounded depth and for both printers of Spec/AnnGrammar.v (`nested`:
   the canonical one writes `(T[])[]`, the plain one `T[][]`).  Induction on the size of the type; the parser is
   executed symbolically on `show t ++ rest` with the lexer shape lemmas of AnnLexFacts.v. *)
From Coq Require Import String Ascii List Arith NArith Bool Lia ZifyN ZifyNat ZifyBool.
From LH Require Import Base.Bytes Base.Res Model.AnnLexer Model.AnnAst Model.AnnParser Spec.AnnGrammar
  Proofs.AnnLexFacts.
Import ListNotations.
Local Open Scope nat_scope.

Notation St c := (mkLx c None).
Notation StA c t := (mkLx c (Some t)).

(* ------------------------------------------------------------------ positions *)
(* the lexer state l is positioned at `text`: its next token is the first token of text *)
Definition At (text : bytes) (l : lx) : Prop := look_ahead l = look_ahead (St text).

Lemma At_St text : At text (St text).
Proof. reflexivity. Qed.

Lemma At_sp text : At text (St (32%N :: text)).
Proof. unfold At, look_ahead. cbn [ahead chunk]. rewrite lex_token_sp. reflexivity. Qed.

Lemma At_la text l t c : At text l -> lex_token text = Ok (t, c) -> look_ahead l = Ok (StA c t).
Proof. unfold At. intros -> H. unfold look_ahead. cbn [ahead chunk]. rewrite H. reflexivity. Qed.

Lemma la_At text l t c : look_ahead l = Ok (StA c t) -> lex_token text = Ok (t, c) -> At text l.
Proof. unfold At. intros -> H. unfold look_ahead. cbn [ahead chunk]. rewrite H. reflexivity. Qed.

Lemma la_St c t c' : lex_token c = Ok (t, c') -> look_ahead (St c) = Ok (StA c' t).
Proof. intros H. unfold look_ahead. cbn [ahead chunk]. rewrite H. reflexivity. Qed.

Lemma la_StA c t : look_ahead (StA c t) = Ok (StA c t).
Proof. reflexivity. Qed.

(* the token-level helpers on a state whose next token is known *)
Section Known.
  Variables (l : lx) (c : bytes) (t : tok).
  Hypothesis Hl : look_ahead l = Ok (StA c t).

  Lemma next_token_of : next_token l = Ok (t, St c).
  Proof.
    unfold look_ahead in Hl. unfold next_token. destruct l as [c0 [a|]]; cbn [ahead chunk] in *.
    - injection Hl as -> ->. reflexivity.
    - destruct (lex_token c0) as [[t0 c1]| |]; cbn in Hl; try discriminate Hl. injection Hl as -> ->. reflexivity.
  Qed.

  Lemma lap_of : look_ahead_p l = POk tt (StA c t).
  Proof. unfold look_ahead_p. rewrite Hl. reflexivity. Qed.

  Lemma lak_of : look_ahead_kind l = POk (tkind t) (StA c t).
  Proof. unfold look_ahead_kind. rewrite lap_of. reflexivity. Qed.

  Lemma ntp_of : next_token_p l = POk t (St c).
  Proof. unfold next_token_p. rewrite next_token_of. reflexivity. Qed.

  Lemma nok_of k : tkind t = k -> next_of_kind k l = POk (tstr t) (St c).
  Proof. intros <-. unfold next_of_kind. rewrite ntp_of. cbn [pbind]. rewrite kind_eqb_refl. reflexivity. Qed.

  Lemma nti_of : tkind t = KIdent -> next_type_identifier l = POk (tstr t) (St c).
  Proof. intros E. unfold next_type_identifier. rewrite ntp_of. cbn [pbind]. rewrite E. reflexivity. Qed.
End Known.

Lemma nok_StA k c t : tkind t = k -> next_of_kind k (StA c t) = POk (tstr t) (St c).
Proof. apply nok_of. reflexivity. Qed.
Lemma nok_St k c t c' : lex_token c = Ok (t, c') -> tkind t = k -> next_of_kind k (St c) = POk (tstr t) (St c').
Proof. intros H. apply nok_of. apply la_St. exact H. Qed.
Lemma ntp_StA c t : next_token_p (StA c t) = POk t (St c).
Proof. apply ntp_of. reflexivity. Qed.
Lemma ntp_St c t c' : lex_token c = Ok (t, c') -> next_token_p (St c) = POk t (St c').
Proof. intros H. apply ntp_of. apply la_St. exact H. Qed.
Lemma nti_StA c t : tkind t = KIdent -> next_type_identifier (StA c t) = POk (tstr t) (St c).
Proof. apply nti_of. reflexivity. Qed.
Lemma lak_StA c t : look_ahead_kind (StA c t) = POk (tkind t) (StA c t).
Proof. apply lak_of. reflexivity. Qed.
Lemma lak_St c t c' : lex_token c = Ok (t, c') -> look_ahead_kind (St c) = POk (tkind t) (StA c' t).
Proof. intros H. apply lak_of. apply la_St. exact H. Qed.

(* what follows a type: the next token tk, and the byte after the type does not continue an identifier *)
Definition Fol (rest : bytes) (tk : tok) (rest' : bytes) : Prop :=
  lex_token rest = Ok (tk, rest') /\ stop rest = true.

(* ------------------------------------------------------------------ parserSingleType = primary ; array suffix *)
Definition primary (f : nat) (l : lx) : PR atype :=
  let* (k, l) := look_ahead_kind l in
  (if kind_eqb k KLparen then
     let* (_, l) := next_of_kind KLparen l in
     let* (t, l) := parse_one_type f l in
     let* (_, l) := next_of_kind KRparen l in
     POk t l
   else if kind_eqb k KFun then parse_fun_type f l
   else if kind_eqb k KTable then parse_table_type f l
   else if kind_eqb k KIdent then
     let* (s, l) := next_type_identifier l in POk (ANormal s true) l
   else if kind_eqb k KVararg then
     let* (_, l) := next_token_p l in POk (ANormal s_dots true) l
   else if kind_eqb k KString then
     let s := ahead_str l in
     let* (sq, l) := lift_res (split_str_quotes s) l in
     let* (_, l) := next_token_p l in
     POk (AConst (fst sq) (snd sq) []) l
   else error_print 3%N KEOF s_not_find l).

Lemma single_unfold f l : parse_single_type (S f) l = pbind (primary f l) (array_suffix_loop f).
Proof.
  cbn [parse_single_type]. unfold primary. destruct (look_ahead_kind l); reflexivity.
Qed.

(* n array suffixes: the text "[][]...[]" and the tree it builds around the item *)
Fixpoint brs (n : nat) : bytes := match n with O => [] | S n => t_brackets ++ brs n end.
Fixpoint arrs (n : nat) (a : atype) : atype := match n with O => a | S n => arrs n (AArray a) end.

Lemma brs_length n : length (brs n) = 2 * n.
Proof. induction n as [|n IH]; [reflexivity|]. cbn [brs]. rewrite app_length, IH. cbn [length t_brackets]. lia. Qed.

Lemma suffix_plain f sub l rest' tk :
  look_ahead l = Ok (StA rest' tk) -> tkind tk <> KLbrack -> array_suffix_loop (S f) sub l = POk sub (StA rest' tk).
Proof.
  intros Hl Hk. cbn [array_suffix_loop]. rewrite (lak_of _ _ _ Hl). cbn [pbind].
  apply kind_eqb_neq in Hk. rewrite Hk. reflexivity.
Qed.

(* the loop reads every suffix and stops at the first token that is not "[" *)
Lemma suffix_arrays : forall n f sub l rest tk rest',
  At (brs n ++ rest) l -> lex_token rest = Ok (tk, rest') -> tkind tk <> KLbrack -> n + 1 <= f ->
  array_suffix_loop f sub l = POk (arrs n sub) (StA rest' tk).
Proof.
  induction n as [|n IH]; intros f sub l rest tk rest' Hat Hlex Hk Hf; (destruct f as [|f]; [lia|]).
  - cbn [brs app] in Hat. cbn [arrs]. apply suffix_plain; [eapply At_la; eassumption | exact Hk].
  - cbn [brs] in Hat. rewrite <- app_assoc in Hat. cbn [array_suffix_loop arrs].
    rewrite (lak_of _ _ _ (At_la _ _ _ _ Hat (lex_lbrack _))). cbn [pbind tkind].
    change (kind_eqb KLbrack KLbrack) with true. cbv iota.
    rewrite nok_StA by reflexivity. cbn [pbind].
    rewrite (nok_St _ _ _ _ (lex_rbrack _)) by reflexivity. cbn [pbind].
    apply (IH f (AArray sub) _ rest tk rest' (At_St _) Hlex Hk). lia.
Qed.

(* ------------------------------------------------------------------ sizes *)
Fixpoint tsize (t : dtype) : nat :=
  match t with
  | DName _ | DConst _ _ | DTable0 => 1
  | DArray i => S (tsize i)
  | DTable k v => S (tsize k + tsize v)
  | DFun ps rs =>
    S (list_sum (map (fun p : bytes * bool * option dtype =>
                        match p with (_, _, Some t) => S (tsize t) | _ => 1 end) ps)
       + list_sum (map tsize rs))
  | DUnion ts => S (list_sum (map tsize ts))
  end.

Lemma list_sum_in {A} (g : A -> nat) x l : In x l -> g x <= list_sum (map g l).
Proof.
  induction l as [|y l IH]; [intros []|].
  change (list_sum (map g (y :: l))) with (g y + list_sum (map g l)).
  intros [->|H]; [lia|]. specialize (IH H). lia.
Qed.

(* ------------------------------------------------------------------ names *)
Lemma ident_shape_inv n : ident_shape n = true ->
  exists b r, n = b :: r /\ is_id_start b = true /\ forallb is_id_cont r = true.
Proof.
  destruct n as [|b r]; cbn; [discriminate|]. intros H. apply andb_true_iff in H as [H1 H2]. eauto.
Qed.

Lemma lex_plain_name n rest :
  plain_name n = true -> stop rest = true -> lex_token (n ++ rest) = Ok (mkTok KIdent n, rest).
Proof.
  unfold plain_name, not_keyword. intros H Hs. apply andb_true_iff in H as [H1 H2].
  destruct (ident_shape_inv _ H1) as (b & r & -> & Hb & Hr).
  rewrite lex_word by assumption. destruct (kw_lookup (b :: r)); [discriminate|reflexivity].
Qed.

Lemma lex_type_name n rest :
  type_name_ok n = true -> stop rest = true ->
  exists k, lex_token (n ++ rest) = Ok (mkTok k n, rest) /\
            ((k = KIdent) \/ (k = KVararg /\ n = s_dots)).
Proof.
  unfold type_name_ok. intros H Hs. apply orb_true_iff in H as [H|H].
  - exists KIdent. split; [apply lex_plain_name; assumption | left; reflexivity].
  - apply beq_bytes_eq in H. subst n. exists KVararg. split; [apply lex_dots | right; split; reflexivity].
Qed.

(* ------------------------------------------------------------------ small computations *)
Ltac kcomp :=
  repeat match goal with
         | |- context [kind_eqb ?a ?b] =>
           let v := eval vm_compute in (kind_eqb a b) in
           match v with true => idtac | false => idtac end; change (kind_eqb a b) with v
         end; cbv iota.

Lemma kind_neq_false k k' : k <> k' -> kind_eqb k k' = false.
Proof. apply kind_eqb_neq. Qed.

Lemma lex_kw_table rest : stop rest = true -> lex_token (t_table ++ rest) = Ok (mkTok KTable t_table, rest).
Proof. intros H. apply (lex_word 116%N [97; 98; 108; 101]%N rest); [reflexivity|reflexivity|exact H]. Qed.

Lemma lex_kw_fun c : lex_token (t_fun ++ c) = Ok (mkTok KFun [102; 117; 110]%N, 40%N :: c).
Proof. apply (lex_word 102%N [117; 110]%N (40%N :: c)); reflexivity. Qed.

Lemma no_quote_hd s : no_quote s = true -> (hd 0%N s =? 39)%N = false /\ (hd 0%N s =? 34)%N = false.
Proof.
  destruct s as [|b s]; cbn; [split; reflexivity|]. intros H. apply andb_true_iff in H as [H _]. lia.
Qed.

Lemma ssq_plain s : no_quote s = true -> split_str_quotes s = Ok (s, false).
Proof.
  intros H. unfold split_str_quotes. destruct (Nat.leb (length s) 2); [reflexivity|].
  destruct (no_quote_hd s H) as [-> ->]. reflexivity.
Qed.

Lemma ssq_quoted s : s <> [] -> split_str_quotes (34%N :: s ++ [34%N]) = Ok (s, true).
Proof.
  intros Hs. unfold split_str_quotes.
  assert (Hlen : length (34%N :: s ++ [34%N]) = length s + 2)
    by (cbn [length]; rewrite app_length; cbn [length]; lia).
  assert (Hpos : 1 <= length s) by (destruct s; [contradiction|cbn [length]; lia]).
  replace (Nat.leb (length (34%N :: s ++ [34%N])) 2) with false by (symmetry; apply Nat.leb_gt; lia).
  replace (last (34%N :: s ++ [34%N]) 0%N) with 34%N
    by (change (34%N :: s ++ [34%N]) with ((34%N :: s) ++ [34%N]); rewrite last_last; reflexivity).
  cbn [hd]. cbn [N.eqb Pos.eqb andb orb].
  rewrite go_slice_ok by lia. cbn [rbind skipn]. f_equal. f_equal.
  replace (length (34%N :: s ++ [34%N]) - 1 - 1) with (length s) by lia.
  rewrite firstn_app, Nat.sub_diag, firstn_all. cbn [firstn]. apply app_nil_r.
Qed.

Lemma no_quote_no d s : (d = 39 \/ d = 34)%N -> no_quote s = true -> forallb (fun c => negb (d =? c)%N) s = true.
Proof.
  intros Hd H. induction s as [|b s IH]; [reflexivity|]. cbn in *. apply andb_true_iff in H as [H1 H2].
  rewrite IH by assumption. destruct Hd; subst; lia.
Qed.

(* ------------------------------------------------------------------ the claims *)
Section Claims.
Variable nested : bool.          (* which printer: true = canonical `(T[])[]`, false = plain `T[][]` *)
Notation shw := (show_bare nested).

Definition cond_prim (t : dtype) (k : akind) : Prop :=
  k <> KLt /\ (is_fun t = true -> k <> KColon /\ k <> KComma /\ k <> KBor /\ k <> KLbrack).

(* the primary part of parserSingleType on the bare text of a type that is neither a union nor an array *)
Definition ClaimA (t : dtype) : Prop :=
  forall f l rest tk rest',
    is_union t = false -> is_array t = false ->
    At (shw t ++ rest) l -> Fol rest tk rest' -> cond_prim t (tkind tk) ->
    2 * length (shw t) + 12 <= f ->
    exists l', primary f l = POk (embed_bare nested t) l' /\ look_ahead l' = Ok (StA rest' tk).

(* parserSingleType on the bare text of a type that is not a union, followed by n further array suffixes
   (a fun type is never directly followed by "[": its last return type would take the suffix) *)
Definition ClaimBn (t : dtype) : Prop :=
  forall f l n rest tk rest',
    is_union t = false -> (is_fun t = true -> n = 0) ->
    At (shw t ++ brs n ++ rest) l -> Fol rest tk rest' -> cond_prim t (tkind tk) -> tkind tk <> KLbrack ->
    2 * length (shw t) + 4 * n + 14 <= f ->
    exists l', parse_single_type f l = POk (arrs n (embed_bare nested t)) l' /\ look_ahead l' = Ok (StA rest' tk).

(* ... the case n = 0 *)
Definition ClaimB (t : dtype) : Prop :=
  forall f l rest tk rest',
    is_union t = false ->
    At (shw t ++ rest) l -> Fol rest tk rest' -> cond_prim t (tkind tk) -> tkind tk <> KLbrack ->
    2 * length (shw t) + 14 <= f ->
    exists l', parse_single_type f l = POk (embed_bare nested t) l' /\ look_ahead l' = Ok (StA rest' tk).

(* parserOneType on the bare text of any type *)
Definition ClaimC (t : dtype) : Prop :=
  forall f l rest tk rest',
    At (shw t ++ rest) l -> Fol rest tk rest' -> cond_prim t (tkind tk) ->
    tkind tk <> KLbrack -> tkind tk <> KBor ->
    2 * length (shw t) + 18 <= f ->
    parse_one_type f l = POk (embed_one nested t) (StA rest' tk).

(* ---- leaves *)
Lemma claimA_name n : doc_type (DName n) = true -> ClaimA (DName n).
Proof.
  intros Hd f l rest tk rest' _ _ Hat [Hlex Hstop] _ Hf. cbn [doc_type] in Hd. cbn [show_bare] in Hat.
  destruct (lex_type_name n rest Hd Hstop) as (k & Hk & Hcase).
  pose proof (At_la _ _ _ _ Hat Hk) as Hl.
  exists (St rest). split; [|apply la_St; exact Hlex].
  unfold primary. rewrite (lak_of _ _ _ Hl). cbn [pbind tkind].
  destruct Hcase as [->|[-> ->]]; kcomp.
  - rewrite nti_StA by reflexivity. reflexivity.
  - rewrite ntp_StA. reflexivity.
Qed.

Lemma claimA_const s q : doc_type (DConst s q) = true -> ClaimA (DConst s q).
Proof.
  intros Hd f l rest tk rest' _ _ Hat [Hlex Hstop] _ Hf. cbn [doc_type] in Hd.
  apply andb_true_iff in Hd as [Hnq Hq]. cbn [show_bare] in Hat. unfold show_const in Hat.
  exists (St rest). split; [|apply la_St; exact Hlex].
  unfold primary. destruct q.
  - assert (Hs : s <> []) by (destruct s; [discriminate Hq|discriminate]).
    assert (Hk : lex_token (([39; 34]%N ++ s ++ [34; 39]%N) ++ rest) = Ok (mkTok KString (34%N :: s ++ [34%N]), rest)).
    { replace (([39; 34]%N ++ s ++ [34; 39]%N) ++ rest) with (39%N :: (34%N :: s ++ [34%N]) ++ 39%N :: rest)
        by (cbn [app]; rewrite <- !app_assoc; reflexivity).
      apply lex_string; [reflexivity|]. cbn [forallb app]. rewrite forallb_app. cbn [forallb].
      rewrite (no_quote_no 39%N s (or_introl eq_refl) Hnq). reflexivity. }
    pose proof (At_la _ _ _ _ Hat Hk) as Hl.
    rewrite (lak_of _ _ _ Hl). cbn [pbind tkind]. kcomp.
    unfold ahead_str. cbn [ahead tstr]. rewrite (ssq_quoted s Hs). cbn [lift_res pbind fst snd].
    rewrite ntp_StA. reflexivity.
  - assert (Hk : lex_token (([39%N] ++ s ++ [39%N]) ++ rest) = Ok (mkTok KString s, rest)).
    { replace (([39%N] ++ s ++ [39%N]) ++ rest) with (39%N :: s ++ 39%N :: rest)
        by (cbn [app]; rewrite <- !app_assoc; reflexivity).
      apply lex_string; [reflexivity|]. apply no_quote_no; [left; reflexivity | exact Hnq]. }
    pose proof (At_la _ _ _ _ Hat Hk) as Hl.
    rewrite (lak_of _ _ _ Hl). cbn [pbind tkind]. kcomp.
    unfold ahead_str. cbn [ahead tstr]. rewrite (ssq_plain s Hnq). cbn [lift_res pbind fst snd].
    rewrite ntp_StA. reflexivity.
Qed.

Lemma claimA_table0 : ClaimA DTable0.
Proof.
  intros f l rest tk rest' _ _ Hat [Hlex Hstop] [Hlt _] Hf. cbn [show_bare] in Hat.
  pose proof (At_la _ _ _ _ Hat (lex_kw_table rest Hstop)) as Hl.
  exists (StA rest' tk). split; [|reflexivity].
  unfold primary. rewrite (lak_of _ _ _ Hl). cbn [pbind tkind]. kcomp.
  destruct f as [|f]; [cbn in Hf; lia|]. cbn [parse_table_type].
  rewrite nok_StA by reflexivity. cbn [pbind].
  rewrite (lak_St _ _ _ Hlex). cbn [pbind]. rewrite (kind_neq_false _ _ Hlt). reflexivity.
Qed.

Lemma fol_brackets rest : Fol (t_brackets ++ rest) (mkTok KLbrack [91%N]) (93%N :: rest).
Proof. split; reflexivity. Qed.

Lemma claimB_of_gen t : ClaimBn t -> ClaimB t.
Proof.
  intros HB f l rest tk rest' Hu Hat Hfol Hc Hk Hf.
  apply (HB f l 0 rest tk rest' Hu (fun _ => eq_refl) Hat Hfol Hc Hk). lia.
Qed.

(* ---- from the primary part to parserSingleType (types that are not arrays) *)
Lemma claimBn_of_A t : is_array t = false -> ClaimA t -> ClaimBn t.
Proof.
  intros Har HA f l n rest tk rest' Hu Hfn Hat [Hlex Hstop] Hc Hk Hf.
  destruct f as [|f]; [lia|]. rewrite single_unfold.
  exists (StA rest' tk). split; [|reflexivity].
  destruct n as [|n].
  - cbn [brs app] in Hat.
    destruct (HA f l rest tk rest' Hu Har Hat (conj Hlex Hstop) Hc ltac:(lia)) as (l' & -> & Hl'). cbn [pbind].
    destruct f as [|f]; [lia|]. cbn [arrs]. apply suffix_plain; assumption.
  - assert (Hc' : cond_prim t KLbrack).
    { split; [discriminate|]. intros Hfun. specialize (Hfn Hfun). discriminate Hfn. }
    assert (Hat' : At (shw t ++ t_brackets ++ brs n ++ rest) l) by (cbn [brs] in Hat; rewrite <- app_assoc in Hat; exact Hat).
    destruct (HA f l _ _ _ Hu Har Hat' (fol_brackets (brs n ++ rest)) Hc' ltac:(lia)) as (l' & -> & Hl'). cbn [pbind].
    apply (suffix_arrays (S n) f _ l' rest tk rest'); [|exact Hlex|exact Hk|lia].
    cbn [brs]. rewrite <- app_assoc. eapply la_At; [exact Hl'|reflexivity].
Qed.

(* ---- a parenthesised type *)
Lemma paren_primary t : ClaimC t ->
  forall f l rest, At (40%N :: shw t ++ 41%N :: rest) l -> 2 * length (shw t) + 18 <= f ->
                   primary f l = POk (embed_one nested t) (St rest).
Proof.
  intros HC f l rest Hat Hf.
  pose proof (At_la _ _ _ _ Hat (lex_lparen _)) as Hl.
  unfold primary. rewrite (lak_of _ _ _ Hl). cbn [pbind tkind]. kcomp.
  rewrite nok_StA by reflexivity. cbn [pbind].
  rewrite (HC f (St (shw t ++ 41%N :: rest)) (41%N :: rest) (mkTok KRparen [41%N]) rest);
    [| apply At_St | split; [apply lex_rparen | reflexivity] | split; [discriminate | intros _; repeat split; discriminate]
     | discriminate | discriminate | exact Hf].
  cbn [pbind]. rewrite nok_StA by reflexivity. reflexivity.
Qed.

(* ------------------------------------------------------------------ parserOneType from parserSingleType *)
Lemma lap_At text l : At text l -> exists l1, look_ahead_p l = POk tt l1 /\ At text l1.
Proof.
  intros Hat. destruct (look_ahead_ok l) as (l1 & Hl & _ & t & Ht).
  exists l1. split; [unfold look_ahead_p; rewrite Hl; reflexivity|].
  unfold At in *. rewrite <- Hat, Hl. unfold look_ahead. rewrite Ht. reflexivity.
Qed.

Lemma one_from_single text l f a rest' tk :
  At text l ->
  (forall l1, At text l1 -> exists l', parse_single_type f l1 = POk a l' /\ look_ahead l' = Ok (StA rest' tk)) ->
  tkind tk <> KBor ->
  parse_one_type (S (S f)) l = POk (AMulti [a]) (StA rest' tk).
Proof.
  intros Hat Hs Hk. cbn [parse_one_type]. destruct (lap_At _ _ Hat) as (l1 & -> & Hat1). cbn [pbind].
  cbn [one_type_loop]. destruct (Hs l1 Hat1) as (l' & -> & Hl'). cbn [pbind app].
  rewrite (lak_of _ _ _ Hl'). cbn [pbind]. rewrite (kind_neq_false _ _ Hk). reflexivity.
Qed.

Lemma claimC_of_B t : is_union t = false -> ClaimB t -> ClaimC t.
Proof.
  intros Hu HB f l rest tk rest' Hat Hfol Hc Hk1 Hk2 Hf.
  destruct f as [|[|f]]; [lia|lia|].
  unfold embed_one, wrap_one. rewrite Hu.
  eapply one_from_single; [exact Hat| |exact Hk2].
  intros l1 Hat1. apply (HB f l1 rest tk rest' Hu Hat1 Hfol Hc Hk1). lia.
Qed.

(* a "one type" position printed by show_sub (a fun type is parenthesised) *)
Definition ok_follow (k : akind) : Prop := k <> KLbrack /\ k <> KBor /\ k <> KLt.

Lemma paren_length b s : length (paren b s) = length s + (if b then 2 else 0).
Proof. destruct b; cbn [paren]; [rewrite app_length; cbn [length]; rewrite app_length; cbn [length]; lia | lia]. Qed.

Lemma sub_one t : ClaimC t ->
  forall f l rest tk rest',
    At (show_sub nested t ++ rest) l -> Fol rest tk rest' -> ok_follow (tkind tk) ->
    2 * length (show_sub nested t) + 18 <= f ->
    parse_one_type f l = POk (embed_sub nested t) (StA rest' tk).
Proof.
  intros HC f l rest tk rest' Hat Hfol (K1 & K2 & K3) Hf.
  unfold show_sub, embed_sub, wrap_sub, sub_paren in *. rewrite paren_length in Hf.
  destruct (is_fun t) eqn:Hfun; cbn [paren] in *.
  - destruct f as [|[|[|[|f]]]]; try lia.
    eapply one_from_single; [exact Hat| |exact K2].
    intros l1 Hat1. rewrite single_unfold.
    cbn [app] in Hat1. rewrite <- app_assoc in Hat1. cbn [app] in Hat1.
    rewrite (paren_primary t HC (S f) l1 rest Hat1) by lia. cbn [pbind].
    destruct Hfol as [Hlex Hstop].
    exists (StA rest' tk). split; [|reflexivity]. apply suffix_plain; [apply la_St; exact Hlex | exact K1].
  - apply (HC f l rest tk rest' Hat Hfol); [split; [exact K3 | rewrite Hfun; discriminate] | exact K1 | exact K2 | lia].
Qed.

(* ------------------------------------------------------------------ arrays *)
(* T[]: a parenthesised item is a primary followed by the suffixes; an item that is not parenthesised (a name,
   a table, a constant -- or, for the plain printer, an array) is read by the same call with one more suffix *)
Lemma claimBn_array i : ClaimBn i -> ClaimC i -> ClaimBn (DArray i).
Proof.
  intros HB HC f l n rest tk rest' _ _ Hat [Hlex Hstop] [Hlt _] Hk Hf.
  cbn [show_bare] in Hat, Hf. rewrite app_length, paren_length in Hf. cbn [length t_brackets] in Hf.
  rewrite <- !app_assoc in Hat.
  cbn [embed_bare]. unfold wrap_item.
  destruct (item_paren nested i) eqn:Hp; cbn [paren] in *.
  - destruct f as [|f]; [lia|]. rewrite single_unfold.
    exists (StA rest' tk). split; [|reflexivity].
    cbn [app] in Hat. rewrite <- app_assoc in Hat. cbn [app] in Hat.
    rewrite (paren_primary i HC f l (t_brackets ++ brs n ++ rest) Hat) by lia. cbn [pbind].
    apply (suffix_arrays (S n) f _ _ rest tk rest'); [|exact Hlex|exact Hk|lia].
    cbn [brs]. rewrite <- app_assoc. apply At_St.
  - unfold item_paren in Hp. apply orb_false_iff in Hp as [Hp _]. apply orb_false_iff in Hp as [Hu Hfu].
    apply (HB f l (S n) rest tk rest' Hu); [rewrite Hfu; discriminate| |split; assumption| |exact Hk|lia].
    + cbn [brs]. rewrite <- app_assoc. exact Hat.
    + split; [exact Hlt|rewrite Hfu; discriminate].
Qed.

(* ------------------------------------------------------------------ unions *)
Lemma join_cons2 sep x y r : join sep (x :: y :: r) = x ++ sep ++ join sep (y :: r).
Proof. reflexivity. Qed.
Lemma join_one sep x : join sep [x] = x.
Proof. reflexivity. Qed.

Definition mtext (m : dtype) : bytes := paren (member_paren m) (shw m).
Definition membed (m : dtype) : atype := wrap_member m (embed_bare nested m).

(* parserSingleType on a union member *)
Definition ClaimM (m : dtype) : Prop :=
  forall f l rest tk rest',
    At (mtext m ++ rest) l -> Fol rest tk rest' -> tkind tk <> KLbrack -> tkind tk <> KLt ->
    2 * length (mtext m) + 16 <= f ->
    exists l', parse_single_type f l = POk (membed m) l' /\ look_ahead l' = Ok (StA rest' tk).

Lemma claimM_of m : ClaimB m -> ClaimC m -> ClaimM m.
Proof.
  intros HB HC f l rest tk rest' Hat Hfol K1 K3 Hf.
  unfold mtext, membed, wrap_member in *. rewrite paren_length in Hf.
  destruct (member_paren m) eqn:Hp; cbn [paren] in *.
  - destruct f as [|[|f]]; [lia|lia|]. rewrite single_unfold.
    cbn [app] in Hat. rewrite <- app_assoc in Hat. cbn [app] in Hat.
    rewrite (paren_primary m HC (S f) l rest Hat) by lia. cbn [pbind].
    destruct Hfol as [Hlex Hstop].
    exists (StA rest' tk). split; [|reflexivity]. apply suffix_plain; [apply la_St; exact Hlex | exact K1].
  - unfold member_paren in Hp. apply orb_false_iff in Hp as [Hu Hfu].
    apply (HB f l rest tk rest' Hu Hat Hfol); [split; [exact K3 | rewrite Hfu; discriminate] | exact K1 | lia].
Qed.

Lemma fol_bar more : Fol (t_bar ++ more) (mkTok KBor [124%N]) (32%N :: more).
Proof. split; reflexivity. Qed.

Lemma union_loop ts : ts <> [] -> Forall ClaimM ts ->
  forall f acc l rest tk rest',
    At (join t_bar (map mtext ts) ++ rest) l -> Fol rest tk rest' -> ok_follow (tkind tk) ->
    2 * length (join t_bar (map mtext ts)) + 17 <= f ->
    one_type_loop f acc l = POk (AMulti (acc ++ map membed ts)) (StA rest' tk).
Proof.
  induction ts as [|m ts IH]; [congruence|]. intros _ HF f acc l rest tk rest' Hat Hfol (K1 & K2 & K3) Hf.
  inversion HF as [|? ? Hm HF']; subst.
  destruct f as [|f]; [lia|]. cbn [one_type_loop].
  destruct ts as [|m2 ts].
  - cbn [map join] in *.
    destruct (Hm f l rest tk rest' Hat Hfol K1 K3 ltac:(lia)) as (l' & -> & Hl'). cbn [pbind].
    rewrite (lak_of _ _ _ Hl'). cbn [pbind]. rewrite (kind_neq_false _ _ K2). reflexivity.
  - cbn [map] in *. rewrite join_cons2 in *. rewrite !app_length in Hf. cbn [length t_bar] in Hf.
    rewrite <- !app_assoc in Hat.
    destruct (Hm f l _ _ _ Hat (fol_bar _) ltac:(discriminate) ltac:(discriminate) ltac:(lia)) as (l' & -> & Hl').
    cbn [pbind]. rewrite (lak_of _ _ _ Hl'). cbn [pbind tkind]. kcomp.
    rewrite nok_StA by reflexivity. cbn [pbind].
    rewrite (IH ltac:(discriminate) HF' f (acc ++ [membed m]) _ rest tk rest' (At_sp _) Hfol (conj K1 (conj K2 K3)))
      by lia.
    rewrite <- app_assoc. reflexivity.
Qed.

Lemma claimC_union ts : 2 <= length ts -> Forall ClaimM ts -> ClaimC (DUnion ts).
Proof.
  intros Hlen HF f l rest tk rest' Hat Hfol [K3 _] K1 K2 Hf.
  destruct f as [|f]; [lia|]. cbn [parse_one_type].
  destruct (lap_At _ _ Hat) as (l1 & -> & Hat1). cbn [pbind].
  cbn [show_bare] in *. change (map (fun m : dtype => paren (member_paren m) (shw m)) ts) with (map mtext ts) in *.
  rewrite (union_loop ts ltac:(destruct ts; [cbn in Hlen; lia|discriminate]) HF f [] l1 rest tk rest' Hat1 Hfol
             (conj K1 (conj K2 K3))) by lia.
  reflexivity.
Qed.

(* ------------------------------------------------------------------ tables *)
Lemma fol_comma more : Fol (t_comma ++ more) (mkTok KComma [44%N]) (32%N :: more).
Proof. split; reflexivity. Qed.
Lemma fol_gt more : Fol (62%N :: more) (mkTok KGt [62%N]) more.
Proof. split; reflexivity. Qed.
Lemma fol_rparen more : Fol (41%N :: more) (mkTok KRparen [41%N]) more.
Proof. split; reflexivity. Qed.

Lemma ok_follow_comma : ok_follow KComma. Proof. repeat split; discriminate. Qed.
Lemma ok_follow_gt : ok_follow KGt. Proof. repeat split; discriminate. Qed.
Lemma ok_follow_rparen : ok_follow KRparen. Proof. repeat split; discriminate. Qed.

Lemma claimA_table k v : ClaimC k -> ClaimC v -> ClaimA (DTable k v).
Proof.
  intros HCk HCv f l rest tk rest' _ _ Hat [Hlex Hstop] _ Hf.
  cbn [show_bare] in Hat, Hf. fold (show_sub nested k) in *. fold (show_sub nested v) in *.
  rewrite !app_length in Hf. cbn [length t_table_lt t_comma] in Hf.
  rewrite <- !app_assoc in Hat.
  assert (Hk : lex_token (t_table_lt ++ show_sub nested k ++ t_comma ++ show_sub nested v ++ [62%N] ++ rest)
               = Ok (mkTok KTable t_table, 60%N :: show_sub nested k ++ t_comma ++ show_sub nested v ++ [62%N] ++ rest)).
  { apply (lex_kw_table (60%N :: _)). reflexivity. }
  pose proof (At_la _ _ _ _ Hat Hk) as Hl.
  exists (St rest). split; [|apply la_St; exact Hlex].
  unfold primary. rewrite (lak_of _ _ _ Hl). cbn [pbind tkind]. kcomp.
  destruct f as [|f]; [lia|]. cbn [parse_table_type].
  rewrite nok_StA by reflexivity. cbn [pbind].
  rewrite (lak_St _ _ _ (lex_lt _)). cbn [pbind tkind]. kcomp. cbn [negb].
  rewrite nok_StA by reflexivity. cbn [pbind].
  rewrite (sub_one k HCk f _ _ _ _ (At_St _) (fol_comma _) ok_follow_comma) by lia. cbn [pbind].
  rewrite nok_StA by reflexivity. cbn [pbind].
  rewrite (sub_one v HCv f _ ([62%N] ++ rest) _ _ (At_sp _) (fol_gt _) ok_follow_gt) by lia. cbn [pbind].
  rewrite nok_StA by reflexivity. reflexivity.
Qed.

(* ------------------------------------------------------------------ fun types *)
Definition ptext (p : bytes * bool * option dtype) : bytes :=
  match p with
  | (n, o, ot) =>
    n ++ (if o then [63%N] else []) ++
    match ot with Some t => t_colon ++ paren (sub_paren t) (shw t) | None => [] end
  end.
Definition pembed (p : bytes * bool * option dtype) : bytes * bool * atype :=
  match p with
  | (n, o, ot) => (n, o, match ot with Some t => wrap_sub t (embed_bare nested t) | None => ANormal [97; 110; 121]%N false end)
  end.
Definition PClaim (p : bytes * bool * option dtype) : Prop :=
  match p with (n, _, ot) => param_name_ok n = true /\ match ot with Some t => ClaimC t | None => True end end.

Lemma npn_word n X l :
  param_name_ok n = true -> stop X = true -> At (n ++ X) l -> next_param_name l = POk n (St X).
Proof.
  intros Hn HX Hat. unfold param_name_ok in Hn. apply orb_true_iff in Hn as [Hn|Hn].
  - destruct (ident_shape_inv _ Hn) as (b & r & -> & Hb & Hr).
    pose proof (At_la _ _ _ _ Hat (lex_word b r X Hb Hr HX)) as Hl.
    unfold next_param_name. rewrite (ntp_of _ _ _ Hl). cbn [pbind tkind tstr].
    destruct (kw_lookup (b :: r)) as [k|] eqn:Ek.
    + destruct (kind_eqb k KIdent || kind_eqb k KVararg); [reflexivity|].
      unfold keyword_name. cbn [tstr tkind]. rewrite Ek, kind_eqb_refl. reflexivity.
    + reflexivity.
  - apply beq_bytes_eq in Hn. subst n.
    pose proof (At_la _ _ _ _ Hat (lex_dots X)) as Hl.
    unfold next_param_name. rewrite (ntp_of _ _ _ Hl). reflexivity.
Qed.

Lemma param_body n o ot Z tz Z' f acc l :
  PClaim (n, o, ot) ->
  At (ptext (n, o, ot) ++ Z) l -> Fol Z tz Z' -> (tkind tz = KComma \/ tkind tz = KRparen) ->
  2 * length (ptext (n, o, ot)) + 14 <= f ->
  fun_params_loop (S f) acc l =
  (if kind_eqb (tkind tz) KComma
   then let* (_, l) := next_token_p (StA Z' tz) in fun_params_loop f (acc ++ [pembed (n, o, ot)]) l
   else POk (acc ++ [pembed (n, o, ot)]) (StA Z' tz)).
Proof.
  intros [Hn Hot] Hat [HlexZ HstopZ] Htz Hf.
  assert (Kcolon : kind_eqb (tkind tz) KColon = false) by (destruct Htz as [-> | ->]; reflexivity).
  assert (Kopt : kind_eqb (tkind tz) KOption = false) by (destruct Htz as [-> | ->]; reflexivity).
  assert (Kfol : ok_follow (tkind tz)) by (destruct Htz as [-> | ->]; repeat split; discriminate).
  cbn [ptext pembed] in *. rewrite <- !app_assoc in Hat.
  cbn [fun_params_loop].
  pose proof (fun HX => npn_word n _ l Hn HX Hat) as Hnpn.
  rewrite Hnpn by (destruct o; [reflexivity|]; destruct ot; [reflexivity|]; exact HstopZ).
  clear Hnpn. cbn [pbind].
  destruct o; cbn [app].
  - rewrite (lak_St _ _ _ (lex_option _)). cbn [pbind tkind]. kcomp.
    rewrite ntp_StA. cbn [pbind].
    destruct ot as [t|].
    + rewrite <- !app_assoc. unfold t_colon at 1. cbn [app].
      rewrite (lak_St _ _ _ (lex_colon _)). cbn [pbind tkind snd fst]. kcomp.
      rewrite nok_StA by reflexivity. cbn [pbind].
      rewrite !app_length in Hf. cbn [length t_colon] in Hf. fold (show_sub nested t) in *.
      rewrite (sub_one t Hot f _ Z tz Z' (At_sp _) (conj HlexZ HstopZ) Kfol) by lia. cbn [pbind].
      rewrite lak_StA. reflexivity.
    + cbn [app]. rewrite (lak_St _ _ _ HlexZ). cbn [pbind snd fst]. rewrite Kcolon. cbn [pbind].
      rewrite lak_StA. reflexivity.
  - destruct ot as [t|].
    + rewrite <- !app_assoc. unfold t_colon at 1. cbn [app].
      rewrite (lak_St _ _ _ (lex_colon _)). cbn [pbind tkind snd fst]. kcomp.
      cbn [pbind snd fst]. kcomp.
      rewrite nok_StA by reflexivity. cbn [pbind].
      rewrite !app_length in Hf. cbn [length t_colon] in Hf. fold (show_sub nested t) in *.
      rewrite (sub_one t Hot f _ Z tz Z' (At_sp _) (conj HlexZ HstopZ) Kfol) by lia. cbn [pbind].
      rewrite lak_StA. reflexivity.
    + cbn [app]. rewrite (lak_St _ _ _ HlexZ). cbn [pbind]. rewrite Kopt. cbn [pbind snd fst]. rewrite Kcolon.
      cbn [pbind]. rewrite lak_StA. reflexivity.
Qed.

Lemma params_loop ps : ps <> [] -> Forall PClaim ps ->
  forall f acc l more,
    At (join t_comma (map ptext ps) ++ 41%N :: more) l ->
    2 * length (join t_comma (map ptext ps)) + 15 <= f ->
    fun_params_loop f acc l = POk (acc ++ map pembed ps) (StA more (mkTok KRparen [41%N])).
Proof.
  induction ps as [|p ps IH]; [congruence|]. intros _ HF f acc l more Hat Hf.
  inversion HF as [|? ? Hp HF']; subst. destruct p as [[n o] ot].
  destruct f as [|f]; [lia|].
  destruct ps as [|p2 ps].
  - cbn [map join] in *.
    rewrite (param_body n o ot (41%N :: more) _ more f acc l Hp Hat (fol_rparen more) (or_intror eq_refl)) by lia.
    reflexivity.
  - cbn [map] in *. rewrite join_cons2 in *. rewrite !app_length in Hf. cbn [length t_comma] in Hf.
    rewrite <- !app_assoc in Hat.
    rewrite (param_body n o ot _ _ _ f acc l Hp Hat (fol_comma _) (or_introl eq_refl)) by lia.
    cbn [tkind]. kcomp. rewrite ntp_StA. cbn [pbind].
    rewrite (IH ltac:(discriminate) HF' f _ _ more (At_sp _)) by lia.
    rewrite <- app_assoc. reflexivity.
Qed.

Lemma rets_loop rs : rs <> [] -> Forall ClaimC rs ->
  forall f acc l rest tk rest',
    At (join t_comma (map (show_sub nested) rs) ++ rest) l -> Fol rest tk rest' ->
    ok_follow (tkind tk) -> tkind tk <> KComma ->
    2 * length (join t_comma (map (show_sub nested) rs)) + 19 <= f ->
    fun_rets_loop f acc l = POk (acc ++ map (embed_sub nested) rs) (StA rest' tk).
Proof.
  induction rs as [|r rs IH]; [congruence|]. intros _ HF f acc l rest tk rest' Hat Hfol Hok Hk Hf.
  inversion HF as [|? ? Hr HF']; subst.
  destruct f as [|f]; [lia|]. cbn [fun_rets_loop].
  destruct rs as [|r2 rs].
  - cbn [map join] in *.
    rewrite (sub_one r Hr f l rest tk rest' Hat Hfol Hok) by lia. cbn [pbind].
    rewrite lak_StA. cbn [pbind]. rewrite (kind_neq_false _ _ Hk). reflexivity.
  - cbn [map] in *. rewrite join_cons2 in *. rewrite !app_length in Hf. cbn [length t_comma] in Hf.
    rewrite <- !app_assoc in Hat.
    rewrite (sub_one r Hr f l _ _ _ Hat (fol_comma _) ok_follow_comma) by lia. cbn [pbind].
    rewrite lak_StA. cbn [pbind tkind]. kcomp. rewrite ntp_StA. cbn [pbind].
    rewrite (IH ltac:(discriminate) HF' f _ _ rest tk rest' (At_sp _) Hfol Hok Hk) by lia.
    rewrite <- app_assoc. reflexivity.
Qed.

Lemma kw_lookup_not_rparen s k : kw_lookup s = Some k -> k <> KRparen.
Proof.
  intros H. apply assoc_bytes_in in H. unfold keyword_bytes in H.
  repeat (destruct H as [H|H]; [injection H as _ <-; discriminate|]). destruct H.
Qed.

(* the first token of a non-empty parameter list is a name, never ")" *)
Lemma params_head p ps more : PClaim p ->
  exists t c, lex_token (join t_comma (map ptext (p :: ps)) ++ 41%N :: more) = Ok (t, c) /\ tkind t <> KRparen.
Proof.
  destruct p as [[n o] ot]. intros [Hn _].
  assert (HX : exists X, join t_comma (map ptext ((n, o, ot) :: ps)) ++ 41%N :: more = n ++ X /\ stop X = true).
  { destruct ps as [|p2 ps]; cbn [map]; [rewrite join_one | rewrite join_cons2]; cbn [ptext];
      rewrite <- !app_assoc; eexists; (split; [reflexivity|]);
        (destruct o; [reflexivity|]); (destruct ot; [reflexivity|]); reflexivity. }
  destruct HX as (X & -> & HX).
  unfold param_name_ok in Hn. apply orb_true_iff in Hn as [Hn|Hn].
  - destruct (ident_shape_inv _ Hn) as (b & r & -> & Hb & Hr).
    rewrite (lex_word b r X Hb Hr HX). eexists. eexists. split; [reflexivity|]. cbn [tkind].
    destruct (kw_lookup (b :: r)) eqn:E; [eapply kw_lookup_not_rparen; exact E | discriminate].
  - apply beq_bytes_eq in Hn. subst n. rewrite lex_dots. eexists. eexists. split; [reflexivity|]. discriminate.
Qed.

(* parserFunType on the bare text of a fun type *)
Lemma fun_type_rt ps rs : Forall PClaim ps -> Forall ClaimC rs ->
  forall f l rest tk rest',
    At (shw (DFun ps rs) ++ rest) l -> Fol rest tk rest' ->
    tkind tk <> KLt -> tkind tk <> KColon -> tkind tk <> KComma -> tkind tk <> KBor -> tkind tk <> KLbrack ->
    2 * length (shw (DFun ps rs)) + 12 <= f ->
    parse_fun_type f l = POk (embed_bare nested (DFun ps rs)) (StA rest' tk).
Proof.
  intros HP HR f l rest tk rest' Hat [Hlex Hstop] K3 Kc Kcm K2 K1 Hf.
  cbn [show_bare embed_bare] in *.
  change (map (fun p : bytes * bool * option dtype =>
                 match p with
                 | (n, o, ot) => n ++ (if o then [63%N] else []) ++
                                 match ot with Some t => t_colon ++ paren (sub_paren t) (shw t) | None => [] end
                 end) ps) with (map ptext ps) in *.
  change (map (fun r : dtype => paren (sub_paren r) (shw r)) rs) with (map (show_sub nested) rs) in *.
  change (map (fun p : bytes * bool * option dtype =>
                 match p with
                 | (n, o, ot) => (n, o, match ot with
                                        | Some t => wrap_sub t (embed_bare nested t)
                                        | None => ANormal [97%N; 110%N; 121%N] false
                                        end)
                 end) ps) with (map pembed ps).
  change (map (fun r : dtype => wrap_sub r (embed_bare nested r)) rs) with (map (embed_sub nested) rs).
  rewrite !app_length in Hf. cbn [length t_fun] in Hf.
  rewrite <- !app_assoc in Hat.
  pose proof (At_la _ _ _ _ Hat (lex_kw_fun _)) as Hl.
  destruct f as [|f]; [lia|]. cbn [parse_fun_type].
  rewrite (nok_of _ _ _ Hl KFun eq_refl). cbn [pbind].
  rewrite (lak_St _ _ _ (lex_lparen _)). cbn [pbind tkind]. kcomp. cbn [pbind].
  rewrite nok_StA by reflexivity. cbn [pbind].
  (* parameters *)
  set (tail := (if is_nil rs then [] else t_colon ++ join t_comma (map (show_sub nested) rs)) ++ rest) in *.
  assert (Hps : (let* (k, l0) := look_ahead_kind (St (join t_comma (map ptext ps) ++ [41%N] ++ tail)) in
                 let* (ps0, l1) := (if kind_eqb k KRparen then POk [] l0 else fun_params_loop f [] l0) in
                 let* (_, l2) := next_of_kind KRparen l1 in POk ps0 l2) = POk (map pembed ps) (St tail)).
  { destruct ps as [|p ps'].
    - cbn [map join app]. rewrite (lak_St _ _ _ (lex_rparen _)). cbn [pbind tkind]. kcomp. cbn [pbind].
      rewrite nok_StA by reflexivity. reflexivity.
    - inversion HP as [|? ? Hp _]; subst.
      destruct (params_head p ps' tail Hp) as (t & c & Hlex1 & Hne).
      cbn [app]. rewrite (lak_St _ _ _ Hlex1). cbn [pbind]. rewrite (kind_neq_false _ _ Hne).
      rewrite (params_loop (p :: ps') ltac:(discriminate) HP f [] (StA c t) tail
                           (la_At _ _ _ _ (la_StA _ _) Hlex1)) by lia.
      cbn [pbind app]. rewrite nok_StA by reflexivity. reflexivity. }
  (* push the parameter part through the remaining binds *)
  match goal with
  | |- (let* (k, l0) := look_ahead_kind ?s in
        let* (ps0, l1) := @?P k l0 in
        let* (_, l2) := next_of_kind KRparen l1 in @?R ps0 l2) = _ =>
    transitivity (let* (ps0, l2) := (let* (k, l0) := look_ahead_kind s in
                                     let* (ps0, l1) := P k l0 in
                                     let* (_, l2) := next_of_kind KRparen l1 in POk ps0 l2) in R ps0 l2)
  end.
  { destruct (look_ahead_kind _) as [k l0| | |]; try reflexivity. cbn [pbind].
    destruct (if kind_eqb k KRparen then _ else _) as [ps0 l1| | |]; try reflexivity. cbn [pbind].
    destruct (next_of_kind KRparen l1); reflexivity. }
  rewrite Hps. cbn [pbind]. subst tail.
  destruct rs as [|r rs'].
  - cbn [is_nil map app]. rewrite (lak_St _ _ _ Hlex). cbn [pbind]. rewrite (kind_neq_false _ _ Kc). reflexivity.
  - cbn [is_nil]. rewrite <- !app_assoc. unfold t_colon at 1. cbn [app].
    rewrite (lak_St _ _ _ (lex_colon _)). cbn [pbind tkind]. kcomp.
    rewrite ntp_StA. cbn [pbind].
    cbn [is_nil] in Hf. rewrite !app_length in Hf. cbn [length t_colon] in Hf.
    rewrite (rets_loop (r :: rs') ltac:(discriminate) HR f [] _ rest tk rest' (At_sp _) (conj Hlex Hstop)
                       (conj K1 (conj K2 K3)) Kcm) by lia.
    reflexivity.
Qed.

Lemma claimA_fun ps rs : Forall PClaim ps -> Forall ClaimC rs -> ClaimA (DFun ps rs).
Proof.
  intros HP HR f l rest tk rest' _ _ Hat Hfol [K3 Hfun] Hf.
  destruct (Hfun eq_refl) as (Kc & Kcm & K2 & K1).
  assert (Hlex0 : exists c0, lex_token (shw (DFun ps rs) ++ rest) = Ok (mkTok KFun [102; 117; 110]%N, c0)).
  { cbn [show_bare]. rewrite <- !app_assoc. rewrite lex_kw_fun. eexists. reflexivity. }
  destruct Hlex0 as [c0 Hlex0].
  pose proof (At_la _ _ _ _ Hat Hlex0) as Hl.
  exists (StA rest' tk). split; [|reflexivity].
  unfold primary. rewrite (lak_of _ _ _ Hl). cbn [pbind tkind]. kcomp.
  apply (fun_type_rt ps rs HP HR f _ rest tk rest'); try assumption.
  eapply la_At; [apply la_StA | exact Hlex0].
Qed.

(* ------------------------------------------------------------------ all types, by induction on the size *)
Lemma tsize_pos t : 1 <= tsize t.
Proof. destruct t; cbn; lia. Qed.

Lemma claims_all : forall n t, tsize t <= n -> doc_type t = true -> ClaimA t /\ ClaimBn t /\ ClaimC t.
Proof.
  induction n as [|n IH]; intros t Hs Hd; [pose proof (tsize_pos t); lia|].
  assert (leaf : forall t, is_union t = false -> is_array t = false -> ClaimA t -> ClaimA t /\ ClaimBn t /\ ClaimC t).
  { intros t0 Hu Ha HA. pose proof (claimBn_of_A t0 Ha HA) as HB.
    split; [exact HA|]. split; [exact HB|]. apply claimC_of_B; [assumption|]. apply claimB_of_gen. exact HB. }
  destruct t as [nm|s q|i| |k v|ps rs|ts].
  - apply leaf; [reflexivity|reflexivity|]. apply claimA_name. exact Hd.
  - apply leaf; [reflexivity|reflexivity|]. apply claimA_const. exact Hd.
  - cbn [tsize doc_type] in Hs, Hd. destruct (IH i ltac:(lia) Hd) as (_ & HBi & HCi).
    pose proof (claimBn_array i HBi HCi) as HB.
    split; [intros ? ? ? ? ? _ Hcontra; discriminate Hcontra|]. split; [exact HB|].
    apply claimC_of_B; [reflexivity | apply claimB_of_gen; exact HB].
  - apply leaf; [reflexivity|reflexivity|]. apply claimA_table0.
  - cbn [tsize doc_type] in Hs, Hd. apply andb_true_iff in Hd as [Hdk Hdv].
    destruct (IH k ltac:(lia) Hdk) as (_ & _ & HCk). destruct (IH v ltac:(lia) Hdv) as (_ & _ & HCv).
    apply leaf; [reflexivity|reflexivity|]. apply claimA_table; assumption.
  - cbn [tsize doc_type] in Hs, Hd. apply andb_true_iff in Hd as [Hdp Hdr].
    apply leaf; [reflexivity|reflexivity|]. apply claimA_fun.
    + apply Forall_forall. intros [[pn po] pot] Hin.
      rewrite forallb_forall in Hdp. specialize (Hdp _ Hin). cbn [doc_param] in Hdp.
      apply andb_true_iff in Hdp as [Hpn Hpt]. split; [exact Hpn|].
      destruct pot as [pt|]; [|exact I].
      pose proof (list_sum_in (fun p : bytes * bool * option dtype =>
                                 match p with (_, _, Some t) => S (tsize t) | _ => 1 end) _ _ Hin) as Hsz.
      cbn beta iota in Hsz. apply (IH pt ltac:(lia) Hpt).
    + apply Forall_forall. intros r Hin. rewrite forallb_forall in Hdr.
      pose proof (list_sum_in tsize _ _ Hin) as Hsz. apply (IH r ltac:(lia) (Hdr _ Hin)).
  - cbn [tsize doc_type] in Hs, Hd. apply andb_true_iff in Hd as [Hlen Hdt]. apply Nat.leb_le in Hlen.
    split; [intros ? ? ? ? ? Hcontra; discriminate Hcontra|].
    split; [intros ? ? ? ? ? ? Hcontra; discriminate Hcontra|].
    apply claimC_union; [exact Hlen|].
    apply Forall_forall. intros m Hin. rewrite forallb_forall in Hdt.
    pose proof (list_sum_in tsize _ _ Hin) as Hsz.
    destruct (IH m ltac:(lia) (Hdt _ Hin)) as (_ & HBm & HCm). apply claimM_of; [apply claimB_of_gen|]; assumption.
Qed.

Lemma claimC_all t : doc_type t = true -> ClaimC t.
Proof. intros Hd. apply (claims_all (tsize t) t (le_n _) Hd). Qed.

Lemma claimBn_all t : doc_type t = true -> ClaimBn t.
Proof. intros Hd. apply (claims_all (tsize t) t (le_n _) Hd). Qed.

Lemma fol_nil : Fol [] (mkTok KEOF s_EOF) [].
Proof. split; reflexivity. Qed.

Lemma cond_prim_eof t : cond_prim t KEOF.
Proof. split; [discriminate|]. intros _. repeat split; discriminate. Qed.

(* ------------------------------------------------------------------ C16_type_roundtrip *)
Theorem type_roundtrip_gen : forall t, doc_type t = true ->
  parse_type (fuel_of (shw t)) (shw t) = Ok (inl (embed_one nested t, [])).
Proof.
  intros t Hd. unfold parse_type.
  rewrite (claimC_all t Hd (fuel_of (shw t)) (St (shw t)) [] (mkTok KEOF s_EOF) []).
  - reflexivity.
  - rewrite app_nil_r. apply At_St.
  - apply fol_nil.
  - apply cond_prim_eof.
  - discriminate.
  - discriminate.
  - unfold fuel_of. lia.
Qed.

End Claims.

Theorem type_roundtrip : forall t, doc_type t = true ->
  parse_type (fuel_of (show_type t)) (show_type t) = Ok (inl (embed_type t, [])).
Proof. exact (type_roundtrip_gen true). Qed.

(* the plain text: T[][]... without parentheses *)
Theorem type_roundtrip_plain : forall t, doc_type t = true ->
  parse_type (fuel_of (show_type_plain t)) (show_type_plain t) = Ok (inl (embed_type_plain t, [])).
Proof. exact (type_roundtrip_gen false). Qed.
