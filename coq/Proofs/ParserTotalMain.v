(* C01, Lua front end: totality of the parser model and of the whole pipeline, for ALL inputs and ALL oracles.

   parse_tokens_total : on a token list that ends with an EOF token (wf_tokens, the shape lex_all_wf proves for every
                        lexer output) parse_tokens with fuel_of_tokens ts = 40 * length ts + 40 returns Ok - never
                        OutOfFuel (no hang), never Fault (parse_no_fault: the parser model has no fault site).
   parse_tokens_total_gen : the same for every fuel >= 10 * length ts + 9 (the constant actually needed).
   parse_bytes_total  : lexer + parser on arbitrary bytes.

   Method (DESIGN C01_parse_progress / C01_parse_depth).  Measure m st = length (rest st).  ParserTotalSteps.PT is the
   per-function lemma   c_X + 10 * m st <= fuel  ->  p_X fuel st = Ok (r, st') /\ m st' <= m st   (strict for the
   functions that must consume: p_stat / p_assign_or_call / p_prefixexp when the look-ahead is not EOF, p_args on a
   call start, p_table).  The rank c_X orders the functions by "can be called without a token having been consumed":
     p_funcdef 10 > p_block_loc(_excl) 9 > p_block 8 > p_stats 7 > p_stat 6 > p_assign_or_call 5 > p_prefixexp 4
     p_explist 7 = p_field 7 > p_subexp 6 > p_exp0 5 > p_prefixexp 4 > p_finish_prefix 3 > p_args 2 > p_table 1
     all loops (p_if_tail p_varlist_tail p_explist_tail p_binop_loop p_fieldlist_tail, helper loops) 1
   so a call without consumption goes to a strictly smaller rank, and every loop iteration / every call that closes
   a cycle of the call graph comes after a consumed non-EOF token, which pays 10 > max rank.
   The sticky EOF: `next` does not shorten the rest when only EOF is left; every loop test fails on EOF
   (is_block_end TkEOF, prio TkEOF = 0, suffix_start_of TkEOF = SfxNone, TkEOF is no separator) and what can still be
   called below EOF strictly descends in rank, so the same potential covers it.

   Recursion depth (C01_parse_depth): every nested call of a parser function decrements the fuel by one, so the call
   depth of parse_tokens on ts is at most the fuel that suffices, 10 * length ts + 9, and length ts <= length bs + 1
   (lex_all_length): the depth of the model is linear in the input, at most 10 * length bs + 19 model frames.  (A Go
   frame corresponds to at most a bounded number of model frames; the Go stack limit itself is a resource bound that
   the model does not exhibit: a multi-megabyte line of `(` still needs a stack linear in its length.) *)
From Coq Require Import List NArith ZArith Bool Arith Lia ZifyNat.
From LH Require Import Base.Bytes Base.Res Model.Lexer Model.Ast Model.Parser Model.LuaFront.
From LH Require Import Proofs.LexerTotalWf Proofs.LexerTotalMain.
From LH Require Import Proofs.ParserTotalBase Proofs.ParserTotalSteps Proofs.ParserTotalNoFault.
Import ListNotations.
Set Default Proof Using "Type".

(* ---------------------------------------------------------------- parser_view keeps the shape *)
Lemma match_eof' {A} (k : tkind) (a b : A) : k <> TkEOF -> match k with TkEOF => a | _ => b end = b.
Proof. destruct k; congruence. Qed.

Lemma wfr_tail t r : wfr (t :: r) -> tk (lt t) <> TkEOF -> wfr r.
Proof.
  unfold wfr. intros [_ Hl] Hne. destruct r as [|t2 r]; [cbn in Hl; congruence|].
  split; [discriminate|exact Hl].
Qed.

Lemma wfr_cons x r : wfr r -> wfr (x :: r).
Proof.
  unfold wfr. intros [Hne Hl]. split; [discriminate|]. destruct r as [|t2 r]; [congruence|exact Hl].
Qed.

Lemma lost_run_wfr : forall r es cs, wfr r -> wfr (snd (lost_run r es cs)).
Proof.
  induction r as [|t r IH]; intros es cs Hw; [destruct Hw as [Hne _]; congruence|].
  cbn [lost_run]. destruct (tkind_eq_dec (tk (lt t)) TkEOF) as [He|Hne].
  - rewrite He. exact Hw.
  - rewrite (match_eof' _ _ _ Hne). pose proof (wfr_tail t r Hw Hne) as Hr.
    destruct (is_unfinished_str t); [apply IH; exact Hr|exact Hr].
Qed.

Lemma lost_run_length : forall r es cs, length (snd (lost_run r es cs)) <= length r.
Proof.
  induction r as [|t r IH]; intros es cs; [cbn; lia|].
  cbn [lost_run]. destruct (tkind_eq_dec (tk (lt t)) TkEOF) as [He|Hne].
  - rewrite He. cbn; lia.
  - rewrite (match_eof' _ _ _ Hne). destruct (is_unfinished_str t); [specialize (IH (es ++ lerrs t) (cs ++ lcomments t))|];
      cbn [snd length] in *; lia.
Qed.

Lemma is_unfinished_str_kind t : is_unfinished_str t = true -> tk (lt t) = TkString.
Proof. unfold is_unfinished_str. destruct (tk (lt t)); try discriminate. reflexivity. Qed.

Lemma parser_view_wfr ts : wfr ts -> wfr (parser_view ts).
Proof.
  intros Hw. unfold parser_view. destruct ts as [|t1 r]; [exact Hw|].
  destruct (is_unfinished_str t1) eqn:Hu; [|exact Hw].
  apply is_unfinished_str_kind in Hu.
  assert (Hr : wfr r) by (apply (wfr_tail t1 r Hw); congruence).
  pose proof (lost_run_wfr r [] [] Hr) as Hl.
  destruct (lost_run r [] []) as [[es cs] r']. cbn [snd] in Hl. apply wfr_cons. exact Hl.
Qed.

Lemma parser_view_length ts : length (parser_view ts) <= length ts.
Proof.
  unfold parser_view. destruct ts as [|t1 r]; [cbn; lia|].
  destruct (is_unfinished_str t1); [|lia].
  pose proof (lost_run_length r [] []) as Hl.
  destruct (lost_run r [] []) as [[es cs] r']. cbn [snd length] in *. lia.
Qed.

(* the full lexer-output shape survives too (EOF stays the only EOF token) *)
Lemma lost_run_suffix : forall r es cs, exists pre, r = pre ++ snd (lost_run r es cs).
Proof.
  induction r as [|t r IH]; intros es cs; [exists []; reflexivity|].
  cbn [lost_run]. destruct (tkind_eq_dec (tk (lt t)) TkEOF) as [He|Hne].
  - rewrite He. exists []. reflexivity.
  - rewrite (match_eof' _ _ _ Hne). destruct (is_unfinished_str t).
    + destruct (IH (es ++ lerrs t) (cs ++ lcomments t)) as [pre Hp]. exists (t :: pre). cbn [app]. congruence.
    + exists [t]. reflexivity.
Qed.

Lemma parser_view_wf ts : wf_tokens ts -> wf_tokens (parser_view ts).
Proof.
  intros Hwf. pose proof (parser_view_wfr ts (wf_tokens_wfr ts Hwf)) as [Hne Hl].
  destruct Hwf as (_ & _ & Hall). split; [exact Hne|]. split; [exact Hl|].
  unfold parser_view in *. destruct ts as [|t1 r]; [exact Hall|].
  destruct (is_unfinished_str t1) eqn:Hu; [|exact Hall].
  apply is_unfinished_str_kind in Hu.
  destruct (lost_run_suffix r [] []) as [pre Hp].
  destruct (lost_run r [] []) as [[es cs] r']. cbn [snd] in Hp.
  intros t Hin. destruct r' as [|t2 r'].
  - cbn in Hin. destruct Hin.
  - change (In t (mkLtok (lt t1) (lerrs t1 ++ es) (lcomments t1 ++ cs) :: removelast (t2 :: r'))) in Hin.
    destruct Hin as [<-|Hin]; [cbn [lt]; congruence|].
    apply Hall. rewrite Hp.
    assert (Hrl : forall l : list ltok, l <> [] -> removelast (t1 :: l) = t1 :: removelast l)
      by (intros [|? ?] ?; [congruence|reflexivity]).
    rewrite Hrl by (destruct pre; discriminate).
    right. rewrite removelast_app by discriminate. apply in_or_app. right. exact Hin.
Qed.

Section Main.
  Variable gbk_runes : list N -> Z.
  Variable classify : list N -> numcls.

  Theorem PT_all : forall n, PT classify n.
  Proof.
    induction n as [|n IH].
    - unfold PT. repeat apply conj; intros; exfalso; lia.
    - unfold PT. repeat apply conj.
      + apply S_block; exact IH.
      + apply S_block_loc; exact IH.
      + apply S_block_loc_excl; exact IH.
      + apply S_stats; exact IH.
      + apply S_stat; exact IH.
      + apply S_assign_or_call; exact IH.
      + apply S_if_tail; exact IH.
      + apply S_varlist_tail; exact IH.
      + apply S_explist; exact IH.
      + apply S_explist_tail; exact IH.
      + apply S_subexp; exact IH.
      + apply S_binop_loop; exact IH.
      + apply S_exp0; exact IH.
      + apply S_prefixexp; exact IH.
      + apply S_finish_prefix; exact IH.
      + apply S_args; exact IH.
      + apply S_table; exact IH.
      + apply S_fieldlist_tail; exact IH.
      + apply S_field; exact IH.
      + apply S_funcdef; exact IH.
  Qed.

  (* the invariant really needed: the list ends with an EOF token (EOF tokens in the middle would be harmless) *)
  Theorem parse_tokens_total_wfr : forall ts fuel,
    wfr ts -> 10 * length ts + 9 <= fuel -> exists r, parse_tokens classify fuel ts = Ok r.
  Proof.
    intros ts fuel Hwf Hf. unfold parse_tokens.
    destruct (PT_all fuel) as (_ & I2 & _).
    destruct (I2 (init_pst ts)) as (b & st1 & E & _); [exact Hwf|rewrite m_init; lia|].
    rewrite E. cbv beta iota zeta. destruct (Nat.leb _ _); eauto.
  Qed.

  Theorem parse_tokens_total_gen : forall ts fuel,
    wf_tokens ts -> 10 * length ts + 9 <= fuel -> exists r, parse_tokens classify fuel ts = Ok r.
  Proof. intros ts fuel Hwf. apply parse_tokens_total_wfr. apply wf_tokens_wfr. exact Hwf. Qed.

  Theorem parse_tokens_total : forall ts,
    wf_tokens ts -> exists r, parse_tokens classify (fuel_of_tokens ts) ts = Ok r.
  Proof. intros ts Hwf. apply parse_tokens_total_gen; [exact Hwf|]. unfold fuel_of_tokens. lia. Qed.

  Corollary parse_bytes_total : forall bs, exists r, parse_bytes gbk_runes classify bs = Ok r.
  Proof.
    intros bs. unfold parse_bytes. destruct (lex_all_total gbk_runes bs) as [ts E]. rewrite E. cbn [rbind]. cbv zeta.
    apply parse_tokens_total_wfr; [|unfold fuel_of_tokens; lia].
    apply parser_view_wfr, wf_tokens_wfr. eapply lex_all_wf. exact E.
  Qed.

  (* never Fault, for every fuel and every token list (no guard needed) *)
  Corollary parse_bytes_no_fault : forall bs k, parse_bytes gbk_runes classify bs <> Fault k.
  Proof.
    intros bs k. unfold parse_bytes. destruct (lex_all_total gbk_runes bs) as [ts E]. rewrite E. cbn [rbind].
    apply parse_no_fault.
  Qed.

  (* fuel sufficient for the whole pipeline as a function of the input length only *)
  Corollary parse_bytes_fuel_linear : forall bs ts fuel,
    lex_all gbk_runes bs = Ok ts -> 10 * length bs + 19 <= fuel ->
    exists r, parse_tokens classify fuel (parser_view ts) = Ok r.
  Proof.
    intros bs ts fuel E Hf. pose proof (lex_all_length gbk_runes bs ts E) as Hl.
    pose proof (parser_view_length ts) as Hv.
    apply parse_tokens_total_wfr; [|lia].
    apply parser_view_wfr, wf_tokens_wfr. eapply lex_all_wf. exact E.
  Qed.
End Main.

(* the guard wf_tokens is needed and satisfiable: without a final EOF token the sticky end never shows EOF and the
   statement loop runs out of fuel; a proper list parses *)
Example wf_tokens_needed :
  let x := mkLtok (mkTok TkSepSemi [59%N] 1 0 0 1) [] [] in
  parse_tokens (fun _ => NBad) (fuel_of_tokens [x]) [x] = OutOfFuel.
Proof. vm_compute. reflexivity. Qed.

Example wf_tokens_sat :
  let x := mkLtok (mkTok TkSepSemi [59%N] 1 0 0 1) [] [] in
  let e := mkLtok (mkTok TkEOF [69%N; 79%N; 70%N] 1 0 1 1) [] [] in
  wf_tokens [x; e] /\ is_ok (parse_tokens (fun _ => NBad) (fuel_of_tokens [x; e]) [x; e]) = true.
Proof.
  split; [|vm_compute; reflexivity].
  unfold wf_tokens. cbn. repeat split; [discriminate|]. intros t [<-|[]]. discriminate.
Qed.

Print Assumptions PT_all.
Print Assumptions parse_tokens_total.
Print Assumptions parse_tokens_total_gen.
Print Assumptions parse_bytes_total.
Print Assumptions parse_bytes_no_fault.
Print Assumptions parse_no_fault.
