(* C01, nesting depth of the Lua parser model.
   The recursion of the parser follows the nesting of the input: there is NO constant bound. For every d the token list
   of d opening parentheses needs a recursion deeper than d: with fuel <= d (fuel = the bound of the model's recursion
   depth; every call of the mutual fixpoint of Model/Parser.v spends one unit) the model runs out of fuel on it.
   On this path the nested calls of the model are calls of the Go code one to one
   (p_subexp = parseSubExp, p_exp0 = parseExp0, p_prefixexp = parsePrefixExp + parseParensExp + parseExp), which is the
   recursion that exhausts the goroutine stack on `a = ((((...` (known finding C01-deep-nesting).
   Together with C01_parse_depth_linear (fuel 10*|bytes|+19 always suffices) the depth is Theta(input length). *)
From Coq Require Import List NArith ZArith Bool Arith Lia.
From LH Require Import Base.Bytes Base.Res Model.Lexer Model.Ast Model.Parser Proofs.ParserTotalEqs.
Import ListNotations.

(* number of leading `(` tokens that are followed by at least one more token (the last token of a list is sticky) *)
Fixpoint paren_prefix (ts : list ltok) {struct ts} : nat :=
  match ts with
  | t :: ((_ :: _) as r) => if tk_eqb (tk (lt t)) TkSepLparen then S (paren_prefix r) else 0
  | _ => 0
  end.

Lemma paren_prefix_S (ts : list ltok) (k : nat) :
  paren_prefix ts = S k ->
  exists t r, ts = t :: r /\ r <> [] /\ tk (lt t) = TkSepLparen /\ paren_prefix r = k.
Proof.
  destruct ts as [|t [|t2 r]]; intro H; try discriminate H.
  change (paren_prefix (t :: t2 :: r)) with
    (if tk_eqb (tk (lt t)) TkSepLparen then S (paren_prefix (t2 :: r)) else 0) in H.
  destruct (tk_eqb (tk (lt t)) TkSepLparen) eqn:E; [|discriminate].
  exists t, (t2 :: r). split; [reflexivity|]. split; [discriminate|]. split; [|congruence].
  unfold tk_eqb in E. destruct (tkind_eq_dec (tk (lt t)) TkSepLparen) as [e|ne]; [exact e|discriminate].
Qed.

Section Depth.
  Variable classify : list N -> numcls.
  Local Notation p_subexp := (Parser.p_subexp classify).
  Local Notation p_exp0 := (Parser.p_exp0 classify).
  Local Notation p_prefixexp := (Parser.p_prefixexp classify).

  Lemma la_paren (st : pst) (k : nat) : paren_prefix (rest st) = S k -> la st = TkSepLparen.
  Proof.
    intro H. destruct (paren_prefix_S _ _ H) as (t & r & E & _ & K & _).
    unfold la, ahead_tok. rewrite E. exact K.
  Qed.

  Lemma rest_expect_paren (st : pst) (k : nat) (kd : tkind) :
    paren_prefix (rest st) = S k -> paren_prefix (rest (expect kd st)) = k.
  Proof.
    intro H. destruct (paren_prefix_S _ _ H) as (t & r & E & NE & _ & K).
    unfold expect, next. rewrite E. destruct r as [|t2 r]; [congruence|].
    match goal with |- context [if ?c then _ else _] => destruct c end; cbn [rest err]; exact K.
  Qed.

  (* the three functions on the path  subexp -> exp0 -> prefixexp -> ( -> subexp *)
  Lemma paren_chain_out_of_fuel (n : nat) :
    forall st, n <= paren_prefix (rest st) ->
      (forall lim, p_subexp n lim st = OutOfFuel) /\ p_exp0 n st = OutOfFuel /\ p_prefixexp n st = OutOfFuel.
  Proof.
    induction n as [|n IH]; intros st Hle.
    - repeat split; reflexivity.
    - destruct (paren_prefix (rest st)) as [|k] eqn:Hp; [lia|].
      assert (Hla : la st = TkSepLparen) by (eapply la_paren; exact Hp).
      assert (Hn : n <= paren_prefix (rest st)) by lia.
      destruct (IH st Hn) as (_ & He0 & Hpre).
      repeat split.
      + intro lim. rewrite p_subexp_S. cbv zeta. rewrite Hla. cbn [is_unop]. rewrite He0. reflexivity.
      + rewrite p_exp0_S. rewrite Hla. cbn [exp0_start_of]. exact Hpre.
      + rewrite p_prefixexp_S. cbv zeta. rewrite Hla. unfold tk_eqb. destruct (tkind_eq_dec TkSepLparen TkIdentifier) as [e|_]; [discriminate e|].
        destruct (tkind_eq_dec TkSepLparen TkSepLparen) as [_|ne]; [|congruence].
        assert (Hr : n <= paren_prefix (rest (expect TkSepLparen st))) by (rewrite (rest_expect_paren st k _ Hp); lia).
        destruct (IH _ Hr) as (Hs & _ & _). rewrite (Hs 0). reflexivity.
  Qed.
End Depth.

(* the witness family: d opening parentheses (as a statement) and the end-of-file token; positions are irrelevant *)
Definition lparen_tok : ltok := mkLtok (mkTok TkSepLparen [40%N] 1 0 0 0) [] [].
Definition eof_ltok : ltok := mkLtok eof0 [] [].
Definition parens (d : nat) : list ltok := repeat lparen_tok d ++ [eof_ltok].

Lemma paren_prefix_parens (d : nat) : paren_prefix (parens d) = d.
Proof.
  induction d as [|d IH]; [reflexivity|].
  unfold parens in *. cbn [repeat app]. cbn [paren_prefix].
  destruct (repeat lparen_tok d ++ [eof_ltok]) as [|x r] eqn:E.
  - destruct d; discriminate.
  - unfold tk_eqb. cbn [lparen_tok lt tk]. destruct (tkind_eq_dec TkSepLparen TkSepLparen) as [_|ne]; [|congruence]. f_equal. exact IH.
Qed.

Theorem parse_depth_exceeds (classify : list N -> numcls) (d fuel : nat) :
  fuel <= d -> parse_tokens classify fuel (parens d) = OutOfFuel.
Proof.
  intro Hle. unfold parse_tokens.
  destruct fuel as [|f1]; [reflexivity|]. rewrite p_block_loc_S. cbv zeta.
  destruct f1 as [|f2]; [reflexivity|]. rewrite p_block_S.
  destruct f2 as [|f3]; [reflexivity|]. rewrite p_stats_S.
  assert (Hp : paren_prefix (rest (init_pst (parens d))) = d) by (cbn [init_pst rest]; apply paren_prefix_parens).
  destruct d as [|k]; [lia|].
  assert (Hla : la (init_pst (parens (S k))) = TkSepLparen) by (eapply la_paren; exact Hp).
  rewrite Hla. cbn [is_block_end].
  destruct f3 as [|f4]; [reflexivity|]. rewrite p_stat_S. rewrite Hla. cbn [stat_start_of].
  destruct f4 as [|f5]; [reflexivity|]. rewrite p_assign_or_call_S. cbv zeta.
  assert (Hn : f5 <= paren_prefix (rest (init_pst (parens (S k))))) by lia.
  destruct (paren_chain_out_of_fuel classify f5 _ Hn) as (_ & _ & Hpre). rewrite Hpre. reflexivity.
Qed.

(* no fuel (= no recursion depth) is enough for every input *)
Corollary parse_depth_unbounded (classify : list N -> numcls) :
  forall fuel, exists ts, parse_tokens classify fuel ts = OutOfFuel.
Proof. intro fuel. exists (parens fuel). apply parse_depth_exceeds. lia. Qed.
