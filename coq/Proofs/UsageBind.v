(* C07, part 3: the mutual induction, and the theorem on whole chunks:
     in_fragment b -> pos_clean b -> s1_log (first_pass c b) = file_occs b
   (the first-pass resolver of Model/Usage.v binds every read and every assigned name exactly like the reference
   binder of Spec/LuaUsage.v). *)
From Coq Require Import List NArith ZArith Bool Lia.
From LH Require Import Base.Bytes Model.Lexer Model.Ast Spec.LuaUsage Model.Usage Proofs.TraverseBindDefs
  Proofs.UsageBindRun Proofs.UsageBindSim.
Import ListNotations.
Local Open Scope N_scope.

Lemma SSim_eq a a' e0 e1 o o' : a' = a -> o' = o -> SSim a e0 e1 o -> SSim a' e0 e1 o'.
Proof. intros -> ->. auto. Qed.

Lemma Forall_In {A} (P : A -> Prop) l x : Forall P l -> In x l -> P x.
Proof. intros H. rewrite Forall_forall in H. apply H. Qed.

Ltac bsplit H :=
  repeat match goal with
         | H' : _ && _ = true |- _ =>
           apply andb_true_iff in H'; let A := fresh "Bs" in let B := fresh "Bs" in destruct H' as [A B]
         | H' : _ || _ = false |- _ =>
           apply orb_false_iff in H'; let A := fresh "Bs" in let B := fresh "Bs" in destruct H' as [A B]
         end.

Theorem usage_sim_all : (forall e, ExpOK e) /\ (forall s, StatOK s) /\ (forall b, BlockOK b).
Proof.
  apply tb_ast_ind; unfold ExpOK, StatOK, BlockOK.
  - intros; apply SSim_nil.
  - intros l Hf; discriminate.
  - intros; apply SSim_nil.
  - intros; apply SSim_nil.
  - intros; apply SSim_nil.
  - intros; apply SSim_nil.
  - intros; apply SSim_nil.
  - intros; apply SSim_nil.
  - (* EName *) intros n l Hf bp flv g X ens en Heq Hx. cbn [tr_exp fst b_exp].
    rewrite <- (Heq n).
    + apply SSim_read.
    + apply not_mentioned_not_in. intros x Hxx. exact (Hx x Hxx).
  - (* EUnop *) intros o x l IH Hf bp flv g X ens en Heq Hx. cbn [tr_exp b_exp].
    match goal with |- context [tr_exp x None flv ?g1] => pose proof (IH ltac:(assumption) None flv g1 X ens en Heq Hx) as H;
      destruct (tr_exp x None flv g1) as [a g2] end. exact H.
  - (* EBinop *) intros o a b l IHa IHb Hf bp flv g X ens en Heq Hx.
    cbn [frag_exp] in Hf. bsplit Hf.
    assert (Hxa : forall x, name_mem x X = true -> mentions_exp x a = false).
    { intros x Hxx. specialize (Hx x Hxx). cbn [mentions_exp] in Hx. bsplit Hx. assumption. }
    assert (Hxb : forall x, name_mem x X = true -> mentions_exp x b = false).
    { intros x Hxx. specialize (Hx x Hxx). cbn [mentions_exp] in Hx. bsplit Hx. assumption. }
    cbn [tr_exp b_exp].
    match goal with |- context [tr_exp a ?bp1 flv ?g1] => pose proof (IHa ltac:(assumption) bp1 flv g1 X ens en Heq Hxa) as H1;
      destruct (tr_exp a bp1 flv g1) as [a1 g3] end.
    match goal with |- context [tr_exp b ?bp1 flv ?g1] => pose proof (IHb ltac:(assumption) bp1 flv g1 X ens en Heq Hxb) as H2;
      destruct (tr_exp b bp1 flv g1) as [a2 g4] end.
    cbn [fst] in *. eapply SSim_app; eassumption.
  - (* EParens *) intros x l IH Hf bp flv g X ens en Heq Hx. cbn [tr_exp b_exp]. apply (IH Hf bp flv g X ens en Heq Hx).
  - (* EIndex *) intros p k l _ _ Hf; discriminate.
  - (* ECall *) intros p nm args l IHp IHa Hf bp flv g X ens en Heq Hx.
    destruct nm as [nm|]; [discriminate|].
    cbn [frag_exp] in Hf. bsplit Hf.
    assert (Hxp : forall x, name_mem x X = true -> mentions_exp x p = false).
    { intros x Hxx. specialize (Hx x Hxx). cbn [mentions_exp] in Hx. bsplit Hx. assumption. }
    assert (Hxa : forall x, name_mem x X = true -> existsb (mentions_exp x) args = false).
    { intros x Hxx. specialize (Hx x Hxx). cbn [mentions_exp] in Hx. bsplit Hx. assumption. }
    cbn [tr_exp b_exp].
    pose proof (IHp ltac:(assumption) None flv g X ens en Heq Hxp) as H1.
    destruct (tr_exp p None flv g) as [a1 g1].
    pose proof (thread_exps flv X ens en args g1 IHa ltac:(assumption) Heq Hxa) as H2.
    destruct (thread (fun x g0 => tr_exp x None flv g0) args g1) as [a2 g2].
    cbn [fst] in *. eapply SSim_app; eassumption.
  - (* ETable *) intros ks vs l _ _ Hf; discriminate.
  - (* EFunc *) intros c f ps pl b l va co IHb Hf bp flv g X ens en Heq Hx.
    destruct co; [discriminate|].
    cbn [frag_exp] in Hf. bsplit Hf.
    cbn [tr_exp b_exp].
    destruct (IHb ltac:(assumption) (flv + 1) 0 g X (rev (combine ps pl)) ens (bind_names ps pl en)) as [seg' [H1 _]].
    { cbn [concat]. unfold bind_names. apply EQX_app. exact Heq. }
    { intros x Hxx. specialize (Hx x Hxx). cbn [mentions_exp] in Hx. bsplit Hx. assumption. }
    destruct (tr_block b (flv + 1) 0 g) as [a g1]. cbn [fst] in *.
    eapply SSim_eq; [| |apply (SSim_scope (adds ps pl ++ a) ens seg' (fst (b_block (bind_names ps pl en) (flv + 1) 0 b)))].
    + rewrite <- app_assoc. reflexivity.
    + reflexivity.
    + eapply SSim_eq; [reflexivity| |eapply SSim_app; [apply (SSim_adds ps pl [] ens)|]].
      * reflexivity.
      * rewrite app_nil_r. exact H1.
  - (* SBreak *) intros Hf flv slv g X seg rest en Heq Hx. exists seg. split; [apply SSim_nil|exact Heq].
  - intros n l Hf; discriminate.
  - intros n l Hf; discriminate.
  - (* SDo *) intros b l IHb Hf flv slv g X seg rest en Heq Hx. cbn [frag_stat] in Hf. 
    cbn [tr_stat b_stat].
    destruct (IHb ltac:(assumption) flv (slv + 1) g X [] (seg :: rest) en Heq) as [seg' [H1 _]].
    { intros x Hxx. exact (Hx x Hxx). }
    destruct (tr_block b flv (slv + 1) g) as [a g1]. cbn [fst snd] in *.
    exists seg. split; [|exact Heq]. eapply SSim_scope. exact H1.
  - (* SCall *) intros e IHe Hf flv slv g X seg rest en Heq Hx. cbn [frag_stat] in Hf. 
    cbn [tr_stat b_stat fst snd]. exists seg. split; [|exact Heq].
    apply (IHe ltac:(assumption) None flv g X (seg :: rest) en Heq). intros x Hxx. exact (Hx x Hxx).
  - (* SIf *) intros es bs l IHe IHb Hf flv slv g X seg rest en Heq Hx.
    cbn [frag_stat] in Hf. bsplit Hf.
    cbn [tr_stat b_stat fst snd]. exists seg. split; [|exact Heq].
    apply (alt_thread_sim flv slv X (seg :: rest) en es bs g); auto.
    intros x Hxx. specialize (Hx x Hxx). cbn [mentions_stat] in Hx. bsplit Hx. auto.
  - (* SWhile *) intros e b l IHe IHb Hf flv slv g X seg rest en Heq Hx.
    cbn [frag_stat] in Hf. bsplit Hf.
    assert (Hxe : forall x, name_mem x X = true -> mentions_exp x e = false).
    { intros x Hxx. specialize (Hx x Hxx). cbn [mentions_stat] in Hx. bsplit Hx. assumption. }
    assert (Hxb : forall x, name_mem x X = true -> mentions_block x b = false).
    { intros x Hxx. specialize (Hx x Hxx). cbn [mentions_stat] in Hx. bsplit Hx. assumption. }
    cbn [tr_stat b_stat].
    pose proof (IHe ltac:(assumption) None flv g X (seg :: rest) en Heq Hxe) as H1.
    destruct (tr_exp e None flv g) as [a1 g1].
    destruct (IHb ltac:(assumption) flv (slv + 1) g1 X [] (seg :: rest) en Heq Hxb) as [seg' [H2 _]].
    destruct (tr_block b flv (slv + 1) g1) as [a2 g2]. cbn [fst snd] in *.
    exists seg. split; [|exact Heq]. eapply SSim_app; [exact H1|]. eapply SSim_scope. exact H2.
  - (* SRepeat *) intros b e l IHb IHe Hf flv slv g X seg rest en Heq Hx.
    cbn [frag_stat] in Hf. bsplit Hf.
    assert (Hxb : forall x, name_mem x X = true -> mentions_block x b = false).
    { intros x Hxx. specialize (Hx x Hxx). cbn [mentions_stat] in Hx. bsplit Hx. assumption. }
    assert (Hxe : forall x, name_mem x X = true -> mentions_exp x e = false).
    { intros x Hxx. specialize (Hx x Hxx). cbn [mentions_stat] in Hx. bsplit Hx. assumption. }
    cbn [tr_stat b_stat].
    destruct (IHb ltac:(assumption) flv (slv + 1) g X [] (seg :: rest) en Heq Hxb) as [seg' [H1 E1]].
    destruct (tr_block b flv (slv + 1) g) as [a1 g1]. destruct (b_block en flv (slv + 1) b) as [o en1].
    cbn [fst snd] in *.
    pose proof (IHe ltac:(assumption) None flv g1 X (seg' :: seg :: rest) en1 E1 Hxe) as H2.
    destruct (tr_exp e None flv g1) as [a2 g2]. cbn [fst snd] in *.
    exists seg. split; [|exact Heq].
    eapply SSim_eq; [| |apply (SSim_scope (a1 ++ a2) (seg :: rest) seg' (o ++ b_exp en1 flv e))].
    + rewrite <- app_assoc. reflexivity.
    + reflexivity.
    + eapply SSim_app; eassumption.
  - (* SForNum *) intros n vl e1 e2 e3 b l IH1 IH2 IH3 IHb Hf flv slv g X seg rest en Heq Hx.
    cbn [frag_stat] in Hf. bsplit Hf.
    assert (Hx1 : forall x, name_mem x X = true -> mentions_exp x e1 = false).
    { intros x Hxx. specialize (Hx x Hxx). cbn [mentions_stat] in Hx. bsplit Hx. assumption. }
    assert (Hx2 : forall x, name_mem x X = true -> mentions_exp x e2 = false).
    { intros x Hxx. specialize (Hx x Hxx). cbn [mentions_stat] in Hx. bsplit Hx. assumption. }
    assert (Hx3 : forall x, name_mem x X = true -> mentions_exp x e3 = false).
    { intros x Hxx. specialize (Hx x Hxx). cbn [mentions_stat] in Hx. bsplit Hx. assumption. }
    assert (Hxb : forall x, name_mem x X = true -> mentions_block x b = false).
    { intros x Hxx. specialize (Hx x Hxx). cbn [mentions_stat] in Hx. bsplit Hx. assumption. }
    cbn [tr_stat b_stat].
    pose proof (IH1 ltac:(assumption) None flv g X ([] :: seg :: rest) en Heq Hx1) as A1.
    destruct (tr_exp e1 None flv g) as [a1 g1].
    pose proof (IH2 ltac:(assumption) None flv g1 X ([] :: seg :: rest) en Heq Hx2) as A2.
    destruct (tr_exp e2 None flv g1) as [a2 g2].
    pose proof (IH3 ltac:(assumption) None flv g2 X ([] :: seg :: rest) en Heq Hx3) as A3.
    destruct (tr_exp e3 None flv g2) as [a3 g3].
    destruct (IHb ltac:(assumption) flv (slv + 1) g3 X [(n, vl)] (seg :: rest) ((n, vl) :: en)) as [seg' [A4 _]].
    { cbn [concat app]. apply EQX_cons. exact Heq. }
    { exact Hxb. }
    destruct (tr_block b flv (slv + 1) g3) as [a4 g4]. cbn [fst snd] in *.
    exists seg. split; [|exact Heq].
    eapply SSim_eq; [| |apply (SSim_scope (a1 ++ a2 ++ a3 ++ AAdd (param_var n vl) :: a4) (seg :: rest) seg'
                                          (b_exp en flv e1 ++ b_exp en flv e2 ++ b_exp en flv e3
                                           ++ fst (b_block ((n, vl) :: en) flv (slv + 1) b)))].
    + rewrite <- !app_assoc. cbn [app]. reflexivity.
    + reflexivity.
    + eapply SSim_app; [exact A1|]. eapply SSim_app; [exact A2|]. eapply SSim_app; [exact A3|].
      eapply SSim_eq; [reflexivity| |eapply SSim_cons; [apply (SSim_add (param_var n vl) [] (seg :: rest))|exact A4]].
      reflexivity.
  - (* SForIn *) intros ns ls es b l IHe IHb Hf flv slv g X seg rest en Heq Hx.
    cbn [frag_stat] in Hf. bsplit Hf.
    assert (Hxe : forall x, name_mem x X = true -> existsb (mentions_exp x) es = false).
    { intros x Hxx. specialize (Hx x Hxx). cbn [mentions_stat] in Hx. bsplit Hx. assumption. }
    assert (Hxb : forall x, name_mem x X = true -> mentions_block x b = false).
    { intros x Hxx. specialize (Hx x Hxx). cbn [mentions_stat] in Hx. bsplit Hx. assumption. }
    cbn [tr_stat b_stat].
    pose proof (thread_exps flv X ([] :: seg :: rest) en es g IHe ltac:(assumption) Heq Hxe) as A1.
    destruct (thread (fun x g0 => tr_exp x None flv g0) es g) as [a1 g1].
    destruct (IHb ltac:(assumption) flv (slv + 1) g1 X (rev (combine ns ls)) (seg :: rest) (bind_names ns ls en)) as [seg' [A2 _]].
    { cbn [concat]. unfold bind_names. apply EQX_app. exact Heq. }
    { exact Hxb. }
    destruct (tr_block b flv (slv + 1) g1) as [a2 g2]. cbn [fst snd] in *.
    exists seg. split; [|exact Heq].
    eapply SSim_eq; [| |apply (SSim_scope (a1 ++ adds ns ls ++ a2) (seg :: rest) seg'
                                          (flat_map (b_exp en flv) es ++ fst (b_block (bind_names ns ls en) flv (slv + 1) b)))].
    + rewrite <- !app_assoc. reflexivity.
    + reflexivity.
    + eapply SSim_app; [exact A1|].
      eapply SSim_eq; [reflexivity| |eapply SSim_app; [apply (SSim_adds ns ls [] (seg :: rest))|]].
      * reflexivity.
      * rewrite app_nil_r. exact A2.
  - (* SAssign *) intros vars es l IHv IHe Hf flv slv g X seg rest en Heq Hx.
    destruct vars as [|v vars']; try discriminate Hf. destruct v; try discriminate Hf.
    destruct vars' as [|v2 vars']; try discriminate Hf.
    destruct es as [|e es']; try discriminate Hf. destruct es' as [|e2 es']; try discriminate Hf.
    cbn [frag_stat] in Hf. bsplit Hf.
    pose proof (Forall_inv IHe) as He.
    assert (Hxe : forall x, name_mem x X = true -> mentions_exp x e = false).
    { intros x Hxx. specialize (Hx x Hxx). cbn [mentions_stat existsb] in Hx. bsplit Hx. assumption. }
    assert (Hn : name_mem n X = false).
    { apply not_mentioned_not_in. intros x Hxx. specialize (Hx x Hxx). cbn [mentions_stat existsb mentions_exp] in Hx.
      bsplit Hx. assumption. }
    exists seg. split; [|exact Heq].
    cbn [tr_stat b_stat map assign_thread tl thread fst snd flat_map hd_error].
    match goal with |- context [tr_exp e None flv ?g0] =>
      pose proof (He ltac:(assumption) None flv g0 X (seg :: rest) en Heq Hxe) as H1; destruct (tr_exp e None flv g0) as [a1 g1] end.
    cbn [fst snd] in *. rewrite !app_nil_r.
    eapply SSim_app; [exact H1|]. rewrite <- (Heq n Hn). apply SSim_write.
  - (* SLocal *) intros ns ls ats es l IHe Hf flv slv g X seg rest en Heq Hx.
    cbn [frag_stat] in Hf. bsplit Hf.
    repeat match goal with
           | H : (_ =? _)%nat = true |- _ => apply Nat.eqb_eq in H
           | H : (_ <=? _)%nat = true |- _ => apply Nat.leb_le in H
           end.
    cbn [b_stat fst snd].
    exists (rev (combine ns ls) ++ seg). split.
    + apply (local_go_sim flv slv l rest en es ns ls ats g X seg); try assumption.
      intros x Hxx. specialize (Hx x Hxx). cbn [mentions_stat] in Hx. bsplit Hx. assumption.
    + cbn [concat]. unfold bind_names. rewrite <- app_assoc. apply EQX_app. exact Heq.
  - (* SLocalFunc *) intros n nl f l IHf Hf flv slv g X seg rest en Heq Hx.
    cbn [frag_stat] in Hf. bsplit Hf.
    cbn [tr_stat b_stat].
    pose proof (IHf ltac:(assumption) None flv g X (((n, nl) :: seg) :: rest) ((n, nl) :: en)) as H1.
    destruct (tr_exp f None flv g) as [a g1]. cbn [fst snd] in *.
    exists ((n, nl) :: seg). split.
    + eapply SSim_eq; [reflexivity| |eapply SSim_cons; [apply SSim_add|apply H1]].
      * reflexivity.
      * cbn [concat app]. apply EQX_cons. exact Heq.
      * intros x Hxx. specialize (Hx x Hxx). cbn [mentions_stat] in Hx. bsplit Hx. assumption.
    + cbn [concat app]. apply EQX_cons. exact Heq.
  - (* Block *) intros ss ret l IHs IHr Hf flv slv g X seg rest en Heq Hx.
    cbn [frag_block] in Hf. bsplit Hf.
    assert (Hxs : forall x, name_mem x X = true -> existsb (mentions_stat x) ss = false).
    { intros x Hxx. specialize (Hx x Hxx). cbn [mentions_block] in Hx. bsplit Hx. assumption. }
    cbn [tr_block b_block].
    destruct (thread_stats flv slv X rest ss g seg en IHs ltac:(assumption) Heq Hxs) as [seg' [A1 E1]].
    destruct (thread (fun s g0 => tr_stat s flv slv g0) ss g) as [a1 g1].
    destruct (thread (fun s en0 => b_stat en0 flv slv s) ss en) as [o en1]. cbn [fst snd] in *.
    exists seg'. split; [|exact E1].
    destruct ret as [es|].
    + cbn [tb_ret] in IHr.
      assert (Hxr : forall x, name_mem x X = true -> existsb (mentions_exp x) es = false).
      { intros x Hxx. specialize (Hx x Hxx). cbn [mentions_block] in Hx. bsplit Hx. assumption. }
      pose proof (thread_exps flv X (seg' :: rest) en1 es g1 IHr ltac:(assumption) E1 Hxr) as A2.
      destruct (thread (fun x g0 => tr_exp x None flv g0) es g1) as [a2 g2]. cbn [fst] in *.
      eapply SSim_app; eassumption.
    + cbn [fst]. rewrite !app_nil_r. exact A1.
Qed.

(* ------------------------------------------------------------------ whole chunks *)
Lemma run1_fold c : forall acts s,
  s1_stack (fold_left (step1 true c) acts s) = stack_run acts (s1_stack s) /\
  s1_log (fold_left (step1 true c) acts s) = s1_log s ++ log_run acts (s1_stack s).
Proof.
  induction acts as [|a r IH]; intros s.
  - cbn. rewrite app_nil_r. split; reflexivity.
  - cbn [fold_left]. destruct (IH (step1 true c s a)) as [H1 H2]. rewrite H1, H2. cbn [step1 s1_stack s1_log log_run].
    rewrite <- app_assoc. split; reflexivity.
Qed.

Theorem usage_bindings_agree c b :
  in_fragment b = true -> pos_clean b = true ->
  s1_log (first_pass c b) = file_occs b.
Proof.
  intros Hf Hp. unfold first_pass, run1.
  destruct (run1_fold c (trace b) (mkSt1 [] [] [] [])) as [_ H]. rewrite H. cbn [s1_log s1_stack app].
  destruct usage_sim_all as [_ [_ Hb]].
  destruct (Hb b Hf 0 0 ign0 [] [] [] []) as [seg' [H1 _]].
  - intros n _. reflexivity.
  - intros x Hx. discriminate.
  - unfold trace, file_occs. unfold pos_clean, trace in Hp. revert Hp H1.
    destruct (tr_block b 0 0 ign0) as [a g1]. cbn [fst]. intros Hp H1.
    apply (SSim_scope a [] seg' _ H1 []); [apply Forall2_nil|exact Hp].
Qed.
