(* C03, token level, soundness: the claims per parser function and the step automation. *)
From Coq Require Import List NArith ZArith Bool Lia.
From LH Require Import Base.Bytes Base.Res Model.Lexer Model.Ast Model.Parser Spec.LuaGrammar.
From LH Require Import Proofs.ParserGrammarBase Proofs.ParserGrammarMono Proofs.ParserGrammarFlat
     Proofs.ParserGrammarComplete Proofs.ParserGrammarPost Proofs.ParserGrammarCompleteMain
     Proofs.ParserGrammarSoundBase.
Import ListNotations.
#[local] Opaque expect next err la.

Definition notbad (e : exp) : Prop := match e with EBad _ => False | _ => True end.

Lemma exp_of_q classify ts r1 r :
  OperandQ (Simple classify) ts r1 -> OpsQ (Simple classify) 0 r1 r -> Exp classify ts r.
Proof. intros Ho Hp. econstructor; [apply operand_q; eassumption | apply bintail_q; assumption]. Qed.

(* p_varlist_tail never forgets a recorded non-assignable target *)
Lemma varlist_tail_some classify n : forall st vars nv v st',
  p_varlist_tail classify n st vars nv = Ok (v, st') -> nv <> None -> snd v <> None.
Proof.
  induction n as [|n IH]; intros st vars nv v st' H N; [discriminate|].
  rewrite varlist_tail_eq in H. dhv H.
  - eapply IH; eauto.
  - eapply IH; eauto. destruct nv; discriminate.
  - inv_ok H. exact N.
Qed.

Section Sound.
  Variable classify : list N -> numcls.
  Notation SQ := (Simple classify).
  Notation p_block := (p_block classify).
  Notation p_block_loc := (p_block_loc classify).
  Notation p_block_loc_excl := (p_block_loc_excl classify).
  Notation p_stats := (p_stats classify).
  Notation p_stat := (p_stat classify).
  Notation p_assign_or_call := (p_assign_or_call classify).
  Notation p_if_tail := (p_if_tail classify).
  Notation p_varlist_tail := (p_varlist_tail classify).
  Notation p_explist := (p_explist classify).
  Notation p_explist_tail := (p_explist_tail classify).
  Notation p_subexp := (p_subexp classify).
  Notation p_binop_loop := (p_binop_loop classify).
  Notation p_exp0 := (p_exp0 classify).
  Notation p_prefixexp := (p_prefixexp classify).
  Notation p_finish_prefix := (p_finish_prefix classify).
  Notation p_args := (p_args classify).
  Notation p_table := (p_table classify).
  Notation p_fieldlist_tail := (p_fieldlist_tail classify).
  Notation p_field := (p_field classify).
  Notation p_funcdef := (p_funcdef classify).

  Definition C_block n := forall st v st', p_block n st = Ok (v, st') -> okl (rest st) -> ec st' = ec st ->
    Block classify (rest st) (rest st') /\ okl (rest st').
  Definition C_block_loc n := forall st v st', p_block_loc n st = Ok (v, st') -> okl (rest st) -> ec st' = ec st ->
    Block classify (rest st) (rest st') /\ okl (rest st').
  Definition C_block_loc_excl n := forall st v st', p_block_loc_excl n st = Ok (v, st') -> okl (rest st) -> ec st' = ec st ->
    Block classify (rest st) (rest st') /\ okl (rest st').
  Definition C_stats n := forall st acc v st', p_stats n st acc = Ok (v, st') -> okl (rest st) -> ec st' = ec st ->
    Stats classify (rest st) (rest st') /\ okl (rest st').
  Definition C_stat n := forall st v st', p_stat n st = Ok (v, st') -> okl (rest st) -> ec st' = ec st ->
    Stat classify (rest st) (rest st') /\ okl (rest st').
  Definition C_assign_or_call n := forall st v st', p_assign_or_call n st = Ok (v, st') -> okl (rest st) -> ec st' = ec st ->
    Stat classify (rest st) (rest st') /\ okl (rest st').
  Definition C_if_tail n := forall st es bs v st', p_if_tail n st es bs = Ok (v, st') -> okl (rest st) -> ec st' = ec st ->
    IfTail classify (rest st) (rest st') /\ okl (rest st').
  Definition C_varlist_tail n := forall st vars nv v st', p_varlist_tail n st vars nv = Ok (v, st') ->
    okl (rest st) -> ec st' = ec st -> snd v = None ->
    VarTail classify (rest st) (rest st') /\ okl (rest st').
  Definition C_explist n := forall st v st', p_explist n st = Ok (v, st') -> okl (rest st) -> ec st' = ec st ->
    ExpList classify (rest st) (rest st') /\ okl (rest st').
  Definition C_explist_tail n := forall st acc v st', p_explist_tail n st acc = Ok (v, st') -> okl (rest st) -> ec st' = ec st ->
    ExpTail classify (rest st) (rest st') /\ okl (rest st').
  Definition C_subexp n := forall lim st v st', p_subexp n lim st = Ok (v, st') -> okl (rest st) -> ec st' = ec st ->
    lim <= 11 ->
    exists r1, OperandQ SQ (rest st) r1 /\ OpsQ SQ lim r1 (rest st') /\ okl (rest st') /\ notbad v.
  Definition C_binop_loop n := forall lim bbl e st v st', p_binop_loop n lim bbl e st = Ok (v, st') ->
    okl (rest st) -> ec st' = ec st -> lim <= 11 ->
    OpsQ SQ lim (rest st) (rest st') /\ okl (rest st') /\ (notbad e -> notbad v).
  Definition C_exp0 n := forall st v st', p_exp0 n st = Ok (v, st') -> okl (rest st) -> ec st' = ec st ->
    Simple classify (rest st) (rest st') /\ okl (rest st') /\ notbad v.
  Definition C_prefixexp n := forall st v st', p_prefixexp n st = Ok (v, st') -> okl (rest st) -> ec st' = ec st ->
    PrefixExp classify (kind_of v) (rest st) (rest st') /\ okl (rest st') /\ notbad v.
  Definition C_finish_prefix n := forall e bl st v st', p_finish_prefix n e bl st = Ok (v, st') ->
    okl (rest st) -> ec st' = ec st ->
    Suffixes classify (kind_of e) (rest st) (kind_of v) (rest st') /\ okl (rest st') /\ (notbad e -> notbad v).
  Definition C_args n := forall st v st', p_args n st = Ok (v, st') -> okl (rest st) -> ec st' = ec st ->
    Args classify (rest st) (rest st') /\ okl (rest st').
  Definition C_table n := forall st v st', p_table n st = Ok (v, st') -> okl (rest st) -> ec st' = ec st ->
    Table classify (rest st) (rest st') /\ okl (rest st') /\ notbad v.
  Definition C_fieldlist_tail n := forall st ks vs v st', p_fieldlist_tail n st ks vs = Ok (v, st') ->
    okl (rest st) -> ec st' = ec st ->
    FieldTail classify (rest st) (rest st') /\ okl (rest st').
  Definition C_field n := forall st v st', p_field n st = Ok (v, st') -> okl (rest st) -> ec st' = ec st ->
    Field classify (rest st) (rest st') /\ okl (rest st').
  Definition C_funcdef n := forall bl st v st', p_funcdef n bl st = Ok (v, st') -> okl (rest st) -> ec st' = ec st ->
    FuncBody classify (rest st) (rest st') /\ okl (rest st') /\ notbad v.

  Definition sound_at (n : nat) : Prop :=
    C_block n /\ C_block_loc n /\ C_block_loc_excl n /\ C_stats n /\ C_stat n /\ C_assign_or_call n /\
    C_if_tail n /\ C_varlist_tail n /\ C_explist n /\ C_explist_tail n /\ C_subexp n /\ C_binop_loop n /\
    C_exp0 n /\ C_prefixexp n /\ C_finish_prefix n /\ C_args n /\ C_table n /\ C_fieldlist_tail n /\
    C_field n /\ C_funcdef n.

End Sound.

(* all le_st facts of the calls in the context, from mono_all at the fuel of the calls *)
Ltac monos cl n :=
  mono_ext;
  let M := fresh "M" in
  pose proof (mono_all cl n) as M;
  destruct M as (M1 & M2 & M3 & M4 & M5 & M6 & M7 & M8 & M9 & M10 & M11 & M12 & M13 & M14 & M15 & M16 & M17
                 & M18 & M19 & M20);
  repeat match goal with
         | Hc : ?call = Ok (_, ?s) |- _ =>
           lazymatch goal with _ : le_st _ s |- _ => fail | _ => idtac end;
           let L := fresh "L" in
           pose proof Hc as L;
           first [ apply M1 in L | apply M2 in L | apply M3 in L | apply M4 in L | apply M5 in L | apply M6 in L
                 | apply M7 in L | apply M8 in L | apply M9 in L | apply M10 in L | apply M11 in L
                 | apply M12 in L | apply M13 in L | apply M14 in L | apply M15 in L | apply M16 in L
                 | apply M17 in L | apply M18 in L | apply M19 in L | apply M20 in L ]
         end;
  clear M1 M2 M3 M4 M5 M6 M7 M8 M9 M10 M11 M12 M13 M14 M15 M16 M17 M18 M19 M20.

Ltac unstick H :=
  repeat match type of H with
         | context [if ?b then _ else _] => destruct b eqn:?
         | context [match ?x with Some _ => _ | None => _ end] => is_var x; destruct x
         end.

Ltac exps :=
  repeat match goal with
         | Ho : OperandQ _ ?a ?b, Hp : OpsQ _ 0 ?b ?c |- _ =>
           lazymatch goal with _ : Exp _ a c |- _ => fail | _ => pose proof (exp_of_q _ _ _ _ Ho Hp) end
         end.

Ltac spread IH :=
  unfold sound_at, C_block, C_block_loc, C_block_loc_excl, C_stats, C_stat, C_assign_or_call, C_if_tail,
    C_varlist_tail, C_explist, C_explist_tail, C_subexp, C_binop_loop, C_exp0, C_prefixexp, C_finish_prefix,
    C_args, C_table, C_fieldlist_tail, C_field, C_funcdef in IH;
  destruct IH as (I1 & I2 & I3 & I4 & I5 & I6 & I7 & I8 & I9 & I10 & I11 & I12 & I13 & I14 & I15 & I16 & I17
                  & I18 & I19 & I20).

(* the final state of a leaf: the one whose rest is the end of the derivation in the goal *)
Ltac final k :=
  lazymatch goal with
  | |- _ /\ okl (rest ?s) => k s
  | |- _ /\ okl (rest ?s) /\ _ => k s
  | |- exists _, _ /\ _ /\ okl (rest ?s) /\ _ => k s
  end.

Ltac chain cl n :=
  norm_la; monos cl n;
  pose proof s_namelist_tail as Ix1; pose proof s_parlist as Ix2; pose proof s_funcname as Ix3; final ltac:(fun s => ecf s; try (exfalso; lia); walk s); exps.

Ltac hdk_norm :=
  repeat match goal with H : context [la ?s] |- _ => rewrite (la_hdk s) in H end;
  repeat match goal with
         | H : is_ret_end _ = _ |- _ => rewrite is_ret_end_follow in H
         | H : is_block_end _ = _ |- _ => rewrite is_block_end_follow in H
         end.

Lemma block_end_true k : block_follow k || tk_eqb k TkKwReturn = true -> block_follow k = true \/ k = TkKwReturn.
Proof. intros H. apply orb_true_iff in H. destruct H as [H|H]; [left; exact H | right; apply tk_eqb_eq; exact H]. Qed.

Ltac gp :=
  first [ eassumption
        | apply block_end_true; eassumption
        | gram ]
with gram :=
  lazymatch goal with
  | |- Block _ _ _ => first [solve [eapply B_noret; gp] | solve [eapply B_ret; gp]]
  | |- RetTail _ _ _ =>
    first [solve [eapply R_none; gp] | solve [eapply R_semi; gp] | solve [eapply R_exps; gp]
          | solve [eapply R_exps_semi; gp]]
  | |- Stats _ _ _ => first [solve [eapply Ss_nil; gp] | solve [eapply Ss_cons; gp]]
  | |- Stat _ _ _ =>
    first [ solve [eapply St_semi; gp] | solve [eapply St_break; gp] | solve [eapply St_goto; gp]
          | solve [eapply St_label; gp] | solve [eapply St_do; gp] | solve [eapply St_while; gp]
          | solve [eapply St_repeat; gp] | solve [eapply St_if; gp] | solve [eapply St_fornum; gp]
          | solve [eapply St_forin; gp] | solve [eapply St_function; gp] | solve [eapply St_localfunc; gp]
          | solve [eapply St_local; gp] | solve [eapply St_local_init; gp] | solve [eapply St_call; gp]
          | solve [eapply St_assign; gp] ]
  | |- IfTail _ _ _ => first [solve [eapply IT_end; gp] | solve [eapply IT_elseif; gp] | solve [eapply IT_else; gp]]
  | |- ForStep _ _ _ => first [solve [eapply FS_none; gp] | solve [eapply FS_some; gp]]
  | |- VarTail _ _ _ => first [solve [eapply VT_end; gp] | solve [eapply VT_cons; gp]]
  | |- ExpList _ _ _ => solve [eapply EL; gp]
  | |- ExpTail _ _ _ => first [solve [eapply ET_end; gp] | solve [eapply ET_cons; gp]]
  | |- Args _ _ _ =>
    first [solve [eapply Ar_none; gp] | solve [eapply Ar_exps; gp] | solve [eapply Ar_table; gp]
          | solve [eapply Ar_string; gp]]
  | |- Table _ _ _ => first [solve [eapply Tb_empty; gp] | solve [eapply Tb_fields; gp]]
  | |- FieldTail _ _ _ =>
    first [solve [eapply FT_end; gp] | solve [eapply FT_sep_end; gp] | solve [eapply FT_sep_field; gp]]
  | |- Field _ _ _ => first [solve [eapply Fd_index; gp] | solve [eapply Fd_name; gp] | solve [eapply Fd_exp; gp]]
  | |- FuncBody _ _ _ => solve [eapply FB; gp]
  | |- NameList _ _ => solve [eexists; split; gp]
  | |- FuncName _ _ => solve [eexists; eexists; split; [gp | split; gp]]
  | |- _ <= _ => lia
  | |- _ \/ _ => solve [left; gp | right; gp]
  end.

Ltac done := hdk_norm; (split; [|first [assumption | tauto]]); gram.

