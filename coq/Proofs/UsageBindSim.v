(* C07, part 2: the traversal resolver of Model/Usage.v (first pass: linearised trace run on the scope machine with
   IsCorrectPosition) resolves every read and every assigned name exactly like the reference binder of
   Spec/LuaUsage.v, for every chunk of the fragment without the multi-local order class and with position-clean
   look-ups:   in_fragment b -> classA_ok b -> pos_clean b -> s1_log (first_pass c b) = file_occs b.
   Proof: simulation between the scope stack and the binder's environment, by mutual structural induction; inside
   `local n_0.. = e_0..` the stack has the extra entries n_0..n_(i-1) while e_i is visited - harmless because e_i does
   not mention them (classA_ok). *)
From Coq Require Import List NArith ZArith Bool Lia.
From LH Require Import Base.Bytes Model.Lexer Model.Ast Spec.LuaUsage Model.Usage Proofs.TraverseBindDefs
  Proofs.UsageBindRun.
Import ListNotations.
Local Open Scope N_scope.

(* ------------------------------------------------------------------ simulation of action lists *)
Definition SSim (acts : list action) (ens ens' : list env) (occs : list occ) : Prop :=
  forall st, SRel st ens -> clean_run true acts st = true ->
    SRel (stack_run acts st) ens' /\ log_run acts st = occs.

Lemma SSim_nil ens : SSim [] ens ens [].
Proof. intros st H _. split; [exact H|reflexivity]. Qed.

Lemma SSim_app a1 a2 e0 e1 e2 o1 o2 :
  SSim a1 e0 e1 o1 -> SSim a2 e1 e2 o2 -> SSim (a1 ++ a2) e0 e2 (o1 ++ o2).
Proof.
  intros H1 H2 st Hr Hc. rewrite clean_run_app in Hc. apply andb_true_iff in Hc. destruct Hc as [Hc1 Hc2].
  destruct (H1 st Hr Hc1) as [A1 A2]. destruct (H2 _ A1 Hc2) as [B1 B2].
  rewrite stack_run_app, log_run_app, A2, B2. split; [exact B1|reflexivity].
Qed.

Lemma SSim_cons a a2 e0 e1 e2 o1 o2 :
  SSim [a] e0 e1 o1 -> SSim a2 e1 e2 o2 -> SSim (a :: a2) e0 e2 (o1 ++ o2).
Proof. intros H1 H2. exact (SSim_app [a] a2 _ _ _ _ _ H1 H2). Qed.

Lemma SSim_push ens : SSim [APush] ens ([] :: ens) [].
Proof. intros st H _. split; [apply SRel_push; exact H|reflexivity]. Qed.
Lemma SSim_pop seg ens : SSim [APop] (seg :: ens) ens [].
Proof. intros st H _. split; [eapply SRel_pop; exact H|reflexivity]. Qed.
Lemma SSim_add v seg ens : SSim [AAdd v] (seg :: ens) ((proj v :: seg) :: ens) [].
Proof. intros st H _. split; [apply SRel_add; exact H|reflexivity]. Qed.

Lemma SSim_read n l flv su ci ens : SSim [ARead n l flv su ci] ens ens [ORead n l (lookup n (concat ens)) flv].
Proof.
  intros st H Hc. cbn in Hc. rewrite andb_true_r in Hc. split; [apply SRel_read; exact H|].
  cbn. rewrite (clean_binding n l st ens H Hc). reflexivity.
Qed.
Lemma SSim_write n l flv slv rhs ens :
  SSim [AWrite n l flv slv rhs] ens ens [OWrite n l (lookup n (concat ens)) flv slv rhs].
Proof.
  intros st H Hc. cbn in Hc. rewrite andb_true_r in Hc. split; [apply SRel_write; exact H|].
  cbn. rewrite (clean_binding n l st ens H Hc). reflexivity.
Qed.

Lemma SSim_scope a ens seg' occs : SSim a ([] :: ens) (seg' :: ens) occs -> SSim (APush :: a ++ [APop]) ens ens occs.
Proof.
  intros H. pose proof (SSim_cons _ _ _ _ _ _ _ (SSim_push ens) (SSim_app _ _ _ _ _ _ _ H (SSim_pop seg' ens))) as H'.
  cbn [app] in H'. rewrite app_nil_r in H'. exact H'.
Qed.

Lemma SSim_adds : forall ns ls seg ens,
  SSim (adds ns ls) (seg :: ens) ((rev (combine ns ls) ++ seg) :: ens) [].
Proof.
  induction ns as [|n ns' IH]; intros ls seg ens; [apply SSim_nil|].
  destruct ls as [|l ls']; [apply SSim_nil|].
  cbn [adds combine rev]. rewrite <- app_assoc. cbn [app].
  exact (SSim_cons _ _ _ _ _ _ _ (SSim_add (param_var n l) seg ens) (IH ls' _ ens)).
Qed.

Lemma SSim_local_rest il lc : forall ns ls ats seg ens,
  length ns = length ls -> length ns = length ats ->
  SSim (local_rest il ns ls ats lc) (seg :: ens) ((rev (combine ns ls) ++ seg) :: ens) [].
Proof.
  induction ns as [|n ns' IH]; intros ls ats seg ens Hl Ha; [apply SSim_nil|].
  destruct ls as [|l ls']; [discriminate|]. destruct ats as [|a ats']; [discriminate|].
  cbn [local_rest combine rev]. rewrite <- app_assoc. cbn [app].
  refine (SSim_cons _ _ _ _ _ _ _ (SSim_add _ seg ens) _). cbn [proj v_name v_loc].
  apply IH; cbn in *; lia.
Qed.

(* ------------------------------------------------------------------ names outside X *)
Lemma not_mentioned_not_in X n :
  (forall x, name_mem x X = true -> name_eqb n x = false) -> name_mem n X = false.
Proof.
  induction X as [|y r IH]; intros H; [reflexivity|]. cbn.
  rewrite (H y) by (cbn; rewrite name_eqb_refl; reflexivity). cbn. apply IH.
  intros x Hx. apply H. change (name_mem x (y :: r)) with (name_eqb x y || name_mem x r).
  rewrite Hx. apply orb_true_r.
Qed.

Lemma EQX_extras X : forall extras ent ens,
  (forall m l, In (m, l) extras -> name_mem m X = true) -> EQX X ent ens -> EQX X (extras ++ ent) ens.
Proof.
  induction extras as [|[m l] r IH]; intros ent ens Hin H; [exact H|].
  cbn [app]. apply EQX_extra; [apply (Hin m l); left; reflexivity|].
  apply IH; [|exact H]. intros m' l' Hm. apply (Hin m' l'). right. exact Hm.
Qed.

(* ------------------------------------------------------------------ the statements proved by mutual induction *)
Definition ExpOK (e : exp) : Prop :=
  frag_exp e = true ->
  forall bp flv g X ens en, EQX X (concat ens) en ->
    (forall x, name_mem x X = true -> mentions_exp x e = false) ->
    SSim (fst (tr_exp e bp flv g)) ens ens (b_exp en flv e).

Definition StatOK (s : stat) : Prop :=
  frag_stat s = true ->
  forall flv slv g X seg rest en, EQX X (concat (seg :: rest)) en ->
    (forall x, name_mem x X = true -> mentions_stat x s = false) ->
    exists seg', SSim (fst (tr_stat s flv slv g)) (seg :: rest) (seg' :: rest) (fst (b_stat en flv slv s)) /\
                 EQX X (concat (seg' :: rest)) (snd (b_stat en flv slv s)).

Definition BlockOK (b : block) : Prop :=
  frag_block b = true ->
  forall flv slv g X seg rest en, EQX X (concat (seg :: rest)) en ->
    (forall x, name_mem x X = true -> mentions_block x b = false) ->
    exists seg', SSim (fst (tr_block b flv slv g)) (seg :: rest) (seg' :: rest) (fst (b_block en flv slv b)) /\
                 EQX X (concat (seg' :: rest)) (snd (b_block en flv slv b)).

Lemma existsb_false_in {A} (p : A -> bool) l x : existsb p l = false -> In x l -> p x = false.
Proof.
  intros H Hin. destruct (p x) eqn:E; [|reflexivity]. rewrite <- H. symmetry. apply existsb_exists. exists x. auto.
Qed.

(* a list of expressions threaded through the ignore state *)
Lemma thread_exps flv X ens en : forall es g,
  Forall ExpOK es -> forallb frag_exp es = true ->
  EQX X (concat ens) en ->
  (forall x, name_mem x X = true -> existsb (mentions_exp x) es = false) ->
  SSim (fst (thread (fun x g0 => tr_exp x None flv g0) es g)) ens ens (flat_map (b_exp en flv) es).
Proof.
  induction es as [|e r IH]; intros g Hok Hf Heq Hx; [apply SSim_nil|].
  inversion Hok as [|? ? He Hr]; subst. cbn [forallb] in Hf. apply andb_true_iff in Hf. destruct Hf as [Hf1 Hf2].
  cbn [thread flat_map].
  pose proof (He Hf1 None flv g X ens en Heq) as H1.
  destruct (tr_exp e None flv g) as [b1 g1]. cbn [fst] in H1.
  pose proof (IH g1 Hr Hf2 Heq) as H2.
  destruct (thread (fun x g0 => tr_exp x None flv g0) r g1) as [b2 g2]. cbn [fst] in *.
  eapply SSim_app.
  - apply H1. intros x Hxx. specialize (Hx x Hxx). cbn [existsb] in Hx. apply orb_false_iff in Hx. apply Hx.
  - apply H2. intros x Hxx. specialize (Hx x Hxx). cbn [existsb] in Hx. apply orb_false_iff in Hx. apply Hx.
Qed.

(* the statements of a block *)
Lemma thread_stats flv slv X rest : forall ss g seg en,
  Forall StatOK ss -> forallb frag_stat ss = true ->
  EQX X (concat (seg :: rest)) en ->
  (forall x, name_mem x X = true -> existsb (mentions_stat x) ss = false) ->
  exists seg',
    SSim (fst (thread (fun s g0 => tr_stat s flv slv g0) ss g)) (seg :: rest) (seg' :: rest)
         (fst (thread (fun s en0 => b_stat en0 flv slv s) ss en)) /\
    EQX X (concat (seg' :: rest)) (snd (thread (fun s en0 => b_stat en0 flv slv s) ss en)).
Proof.
  induction ss as [|s r IH]; intros g seg en Hok Hf Heq Hx.
  - exists seg. split; [apply SSim_nil|exact Heq].
  - inversion Hok as [|? ? Hs Hr]; subst. cbn [forallb] in Hf. apply andb_true_iff in Hf. destruct Hf as [Hf1 Hf2].
    cbn [thread].
    destruct (Hs Hf1 flv slv g X seg rest en Heq) as [seg1 [H1 E1]].
    { intros x Hxx. specialize (Hx x Hxx). cbn [existsb] in Hx. apply orb_false_iff in Hx. apply Hx. }
    destruct (tr_stat s flv slv g) as [b1 g1]. destruct (b_stat en flv slv s) as [o1 en1]. cbn [fst snd] in *.
    destruct (IH g1 seg1 en1 Hr Hf2 E1) as [seg2 [H2 E2]].
    { intros x Hxx. specialize (Hx x Hxx). cbn [existsb] in Hx. apply orb_false_iff in Hx. apply Hx. }
    destruct (thread (fun s0 g0 => tr_stat s0 flv slv g0) r g1) as [b2 g2].
    destruct (thread (fun s0 en0 => b_stat en0 flv slv s0) r en1) as [o2 en2]. cbn [fst snd] in *.
    exists seg2. split; [exact (SSim_app _ _ _ _ _ _ _ H1 H2)|exact E2].
Qed.

(* conditions and blocks of an if statement *)
Lemma alt_thread_sim flv slv X ens en : forall es bs g,
  Forall ExpOK es -> Forall BlockOK bs ->
  forallb frag_exp es = true -> forallb frag_block bs = true ->
  EQX X (concat ens) en ->
  (forall x, name_mem x X = true -> existsb (mentions_exp x) es = false /\ existsb (mentions_block x) bs = false) ->
  SSim (fst (alt_thread
               (map (fun e g0 => tr_exp e None flv (set_inif g0 true)) es)
               (map (fun b g0 => let (a2, g2) := tr_block b flv (slv + 1) (set_inif g0 false) in
                                 (APush :: a2 ++ [APop], g2)) bs) g))
       ens ens
       (interleave (map (b_exp en flv) es) (map (fun b => fst (b_block en flv (slv + 1) b)) bs)).
Proof.
  induction es as [|e es' IH]; intros bs g He Hb Hfe Hfb Heq Hx; [apply SSim_nil|].
  destruct bs as [|b bs']; [apply SSim_nil|].
  inversion He as [|? ? He1 He2]; subst. inversion Hb as [|? ? Hb1 Hb2]; subst.
  cbn [forallb] in Hfe, Hfb. apply andb_true_iff in Hfe. destruct Hfe as [Hfe1 Hfe2].
  apply andb_true_iff in Hfb. destruct Hfb as [Hfb1 Hfb2].
  assert (Hx1 : forall x, name_mem x X = true -> mentions_exp x e = false).
  { intros x Hxx. destruct (Hx x Hxx) as [A _]. cbn [existsb] in A. apply orb_false_iff in A. apply A. }
  assert (Hx2 : forall x, name_mem x X = true -> mentions_block x b = false).
  { intros x Hxx. destruct (Hx x Hxx) as [_ A]. cbn [existsb] in A. apply orb_false_iff in A. apply A. }
  assert (Hx3 : forall x, name_mem x X = true ->
                          existsb (mentions_exp x) es' = false /\ existsb (mentions_block x) bs' = false).
  { intros x Hxx. destruct (Hx x Hxx) as [A B]. cbn [existsb] in A, B.
    apply orb_false_iff in A. apply orb_false_iff in B. split; [apply A|apply B]. }
  cbn [map alt_thread interleave].
  pose proof (He1 Hfe1 None flv (set_inif g true) X ens en Heq Hx1) as H1.
  destruct (tr_exp e None flv (set_inif g true)) as [a1 g1]. cbn [fst] in H1.
  destruct (Hb1 Hfb1 flv (slv + 1) (set_inif g1 false) X [] ens en Heq Hx2) as [seg' [H2 _]].
  destruct (tr_block b flv (slv + 1) (set_inif g1 false)) as [a2 g2]. cbn [fst] in H2.
  pose proof (IH bs' g2 He2 Hb2 Hfe2 Hfb2 Heq Hx3) as H3.
  destruct (alt_thread _ _ g2) as [a3 g3]. cbn [fst] in *.
  eapply SSim_app; [exact H1|]. eapply SSim_app; [|exact H3]. eapply SSim_scope. exact H2.
Qed.

(* ------------------------------------------------------------------ local n_0, ... = e_0, ...
   (since fixes/C07-multi-local-order.diff: the initialisers first, all in the environment of the statement, then the
   names; the exclusion set X of the induction is no longer extended here) *)
Lemma tr_stat_local ns ls ats es l flv slv g :
  tr_stat (SLocal ns ls ats es l) flv slv g =
  let (a1, g1) := thread (fun x g0 => tr_exp x None flv g0) es g in
  (a1 ++ local_add_acts (Scope.init_loc ns ls es l) ns ls ats es, g1).
Proof. reflexivity. Qed.

Lemma name_mem_cons x n X : name_mem x (n :: X) = name_eqb x n || name_mem x X.
Proof. reflexivity. Qed.

(* the names are added after the initialisers: nothing is logged *)
Lemma SSim_local_adds il : forall es ns ls ats seg ens,
  length ns = length ls -> length ns = length ats ->
  SSim (local_add_acts il ns ls ats es) (seg :: ens) ((rev (combine ns ls) ++ seg) :: ens) [].
Proof.
  induction es as [|e es' IH]; intros ns ls ats seg ens Hl Ha.
  - cbn [local_add_acts]. apply SSim_local_rest; assumption.
  - destruct ns as [|n ns']; [cbn [local_add_acts combine rev app]; apply SSim_nil|].
    destruct ls as [|l ls']; [discriminate|]. destruct ats as [|a ats']; [discriminate|].
    assert (Hl' : length ns' = length ls') by (cbn [length] in Hl; lia).
    assert (Ha' : length ns' = length ats') by (cbn [length] in Ha; lia).
    cbn [local_add_acts combine rev]. rewrite <- app_assoc. cbn [app].
    set (v := mkVar10 n l false (match a with AttrClose => true | _ => false end) (is_func_exp e) (Some e)
                      (local_refer_empty n e) [] il (Scope.tab_of_exp e)).
    destruct es' as [|e2 es2].
    + refine (SSim_cons _ _ _ _ _ _ _ (SSim_add v seg ens) _). apply SSim_local_rest; assumption.
    + refine (SSim_cons _ _ _ _ _ _ _ (SSim_add v seg ens) _). apply IH; assumption.
Qed.

Lemma local_go_sim flv slv l rest en : forall es ns ls ats g X seg,
  length ns = length ls -> length ns = length ats ->
  Forall ExpOK es -> forallb frag_exp es = true ->
  EQX X (concat (seg :: rest)) en ->
  (forall x, name_mem x X = true -> existsb (mentions_exp x) es = false) ->
  SSim (fst (tr_stat (SLocal ns ls ats es l) flv slv g)) (seg :: rest)
       ((rev (combine ns ls) ++ seg) :: rest) (flat_map (b_exp en flv) es).
Proof.
  intros es ns ls ats g X seg Hl Ha Hok Hf Heq Hx.
  rewrite tr_stat_local.
  pose proof (thread_exps flv X (seg :: rest) en es g Hok Hf Heq Hx) as H1.
  destruct (thread (fun x g0 => tr_exp x None flv g0) es g) as [a1 g1]. cbn [fst] in *.
  rewrite <- (app_nil_r (flat_map (b_exp en flv) es)).
  eapply SSim_app; [exact H1|]. apply SSim_local_adds; assumption.
Qed.
