(* C04, token order, part 5: every Loc of the AST lies within the document.

   For every valid-UTF-8 file inside file_class_ok that lexes without lexical error (with or without syntax errors),
   every statement / expression / name Loc and every then / elseif / else block Loc of the AST is
     - zero_loc (a synthesized node), or
     - a range of the document: both end points are positions of the document (LSP reading: line, UTF-16 column) and
       the start index is <= the end index, or
     - a Loc one of whose end points is the position of the EOF token (reachable only through a syntax error at the end
       of the file; that position lies beyond the end of the last line when the file ends in a short comment with
       non-ASCII text, because the lexer's column counts bytes inside short comments).
   ast_locs_in_doc_clean: for a parse without lexical and syntax error the third case does not occur (LexerOrderEof.v:
   the upper bound of the Locs is the end of the last NON-EOF token; if the EOF position is used at all it coincides with
   that end, which is a position of the document).
   Composition of: token order (LexerOrderMain), tokens in the document (LexerOrderDoc), Locs within the token span and
   on token end points (ParserLocOrderMain, LexerOrderAst), and the monotonicity of the position table. *)
From Coq Require Import List NArith ZArith Bool Arith Lia ZifyN ZifyNat ZifyBool.
From LH Require Import Base.Bytes Base.Res Base.Utf8 Spec.LspText Model.Lexer Model.Ast Model.Parser Model.Number
     Model.LuaFront Spec.LspRange.
From LH Require Import Proofs.LexerTotalWf Proofs.LexerTotalMain Proofs.ParserTotalBase Proofs.ParserTotalMain
     Proofs.ParserLocKeys Proofs.ParserLocOrderMain Proofs.LexerOrderBase Proofs.LexerOrderMain Proofs.LexerOrderAst
     Proofs.LexerOrderDoc Proofs.LexerOrderEof Proofs.ParserLocMain.
Import ListNotations.
Local Open Scope Z_scope.

Definition eof_bound (ts : list ltok) (l c : Z) : bool :=
  existsb (fun t => tk_eqb (tk t) TkEOF && (tline t =? l) && ((tfrom t - tlsp t =? c) || (tto t - tlsp t =? c)))
          (map lt ts).

Definition loc_doc_ok (cps : list N) (ts : list ltok) (l : loc) : bool :=
  is_zero_loc l || loc_in_doc cps l || eof_bound ts (sl l) (sc l) || eof_bound ts (el l) (ec l).

Lemma bound_cases cps W0 ts ln c :
  Forall (TokDoc cps W0) (map lt ts) -> In (ln, c) (bounds ts) ->
  eof_bound ts ln c = true \/
  exists l cc i, ln = Z.of_N l + 1 /\ c = Z.of_N cc /\ In (l, cc, i) (tab cps) /\ Z.of_N cc <= W0.
Proof.
  intros Hf Hin. unfold bounds in Hin. apply in_flat_map in Hin as (t & Ht & Hb).
  rewrite Forall_forall in Hf. destruct (Hf t Ht) as [(Hk & _)|(l & c1 & c2 & i & j & E1 & E2 & E3 & Hi & Hj & _ & Hc & Hw)].
  - left. unfold eof_bound. apply existsb_exists. exists t. split; [exact Ht|].
    unfold tk_eqb. destruct (tkind_eq_dec (tk t) TkEOF); [|contradiction]. cbn [andb].
    destruct Hb as [Hb|[Hb|[]]]; injection Hb as <- <-; rewrite Z.eqb_refl; cbn [andb]; rewrite Z.eqb_refl;
      [reflexivity|apply orb_true_r].
  - right. destruct Hb as [Hb|[Hb|[]]]; injection Hb as <- <-.
    + exists l, c1, i. repeat split; [exact E1|exact E2|exact Hi|lia].
    + exists l, c2, j. repeat split; [exact E1|exact E3|exact Hj|exact Hw].
Qed.

Theorem ast_locs_in_doc : forall gbk classify cps ts b le pe,
  forallb scalar cps = true -> file_class_ok cps = true ->
  lex_all gbk (utf8_of cps) = Ok ts -> cls_lexerr ts = false ->
  parse_bytes gbk classify (utf8_of cps) = Ok (PR b le pe) ->
  forallb (loc_doc_ok cps ts) (locs_block b) = true.
Proof.
  intros gbk classify cps ts b le pe Hsc Hg Hlex Herr H.
  set (W0 := Z.of_nat (max_line_bytes (utf8_of cps))).
  assert (HW0 : line_width_ok W0 cps = true) by (unfold line_width_ok, W0; apply Z.leb_le; lia).
  assert (HW : line_width_ok (W0 + 1) cps = true) by (unfold line_width_ok, W0; apply Z.leb_le; lia).
  pose proof (tokens_doc W0 gbk cps ts Hsc Hg HW0 Hlex Herr) as Hdoc.
  destruct (tokens_TokOrd (W0 + 1) gbk cps ts Hsc Hg HW Hlex Herr) as [Hv Hord].
  unfold parse_bytes in H. rewrite Hlex in H. cbn [rbind] in H. cbv zeta in H. rewrite Hv in H.
  pose proof (wf_tokens_wfr _ (lex_all_wf gbk _ _ Hlex)) as Hwf.
  pose proof (parse_tokens_locs_within (wkey (W0 + 1)) classify ts Hwf Hord _ _ _ _ H) as Hin.
  pose proof (parse_tokens_locs_on_bounds (wkey (W0 + 1)) classify ts Hwf Hord _ _ _ _ H) as Hon.
  apply forallb_forall. intros l Hl. unfold WithinL in Hin. rewrite Forall_forall in Hin. rewrite forallb_forall in Hon.
  specialize (Hin l Hl). specialize (Hon l Hl). unfold loc_doc_ok. unfold loc_on_bounds in Hon.
  destruct (is_zero_loc l) eqn:Ez; [reflexivity|]. cbn [orb] in Hon |- *.
  destruct Hin as [->|(_ & Hle & _)]; [discriminate|].
  apply andb_true_iff in Hon as [Hs He]. apply is_bound_in in Hs, He.
  destruct (bound_cases cps W0 ts _ _ Hdoc Hs) as [Es|(l1 & c1 & i & E1 & E2 & Hi & Hc1)];
    [rewrite Es; rewrite orb_true_r; reflexivity|].
  destruct (bound_cases cps W0 ts _ _ Hdoc He) as [Ee|(l2 & c2 & j & E3 & E4 & Hj & Hc2)];
    [rewrite Ee; apply orb_true_r|].
  assert (Hij : (i <= j)%N).
  { apply (tab_mono cps l1 c1 i l2 c2 j Hi Hj). unfold lo, hi, wkey in Hle. rewrite E1, E2, E3, E4 in Hle.
    assert (0 <= W0) by (unfold W0; lia).
    destruct (Z.lt_trichotomy (Z.of_N l1) (Z.of_N l2)) as [Hlt|[Heq|Hgt]]; [left; lia|right; split; [lia|]|exfalso].
    - rewrite Heq in Hle. lia.
    - assert ((Z.of_N l2 + 1 + 1) * (W0 + 1) <= (Z.of_N l1 + 1) * (W0 + 1)) by (apply Z.mul_le_mono_nonneg_r; lia). lia. }
  pose proof (loc_in_doc_tab cps l1 c1 i l2 c2 j Hi Hj Hij) as Hd.
  destruct l as [a1 a2 a3 a4]. cbn [sl sc el ec] in E1, E2, E3, E4. subst a1 a2 a3 a4. rewrite Hd. reflexivity.
Qed.
Print Assumptions ast_locs_in_doc.

(* ------------------------------------------------------------------ the error-free parse: no EOF clause *)
Lemma last_map {A B} (f : A -> B) : forall (l : list A) d d', l <> [] -> last (map f l) d' = f (last l d).
Proof.
  induction l as [|x l IH]; intros d d' Hne; [congruence|]. destruct l as [|y l]; [reflexivity|].
  change (last (map f (x :: y :: l)) d') with (last (map f (y :: l)) d'). change (last (x :: y :: l) d) with (last (y :: l) d).
  apply IH. discriminate.
Qed.

Lemma eof_is_last ts t : wf_tokens ts -> In t (map lt ts) -> tk t = TkEOF -> t = last (map lt ts) zero_tok.
Proof.
  intros (Hne & Hl & Hall) Hin Hk. apply in_map_iff in Hin as (x & <- & Hx).
  rewrite (last_map lt ts dflt_ltok zero_tok Hne).
  rewrite (app_removelast_last dflt_ltok Hne) in Hx. apply in_app_or in Hx as [Hx|[<-|[]]]; [|reflexivity].
  exfalso. exact (Hall x Hx Hk).
Qed.

Lemma bound_doc_clean cps W0 ts n x c :
  wf_tokens ts -> TokOrd (wkey (W0 + 1)) ts -> Forall (TokDoc cps W0) (map lt ts) ->
  In n (map lt ts) -> tk n <> TkEOF -> In (x, c) (bounds ts) ->
  wkey (W0 + 1) x c <= hi (wkey (W0 + 1)) (SL n) ->
  exists l cc i, x = Z.of_N l + 1 /\ c = Z.of_N cc /\ In (l, cc, i) (tab cps) /\ Z.of_N cc <= W0.
Proof.
  intros Hwt [Hf1 Hch] Hf Hn Hkn Hin Hle. unfold bounds in Hin. apply in_flat_map in Hin as (t & Ht & Hb).
  rewrite Forall_forall in Hf.
  destruct (Hf t Ht) as [(Hk & Hft & Hc0)|(l & c1 & c2 & i & j & E1 & E2 & E3 & Hi & Hj & _ & Hc & Hw)].
  - (* the EOF position: it coincides with the end of the last real token *)
    assert (Hxc : x = tline t /\ c = tfrom t - tlsp t).
    { destruct Hb as [Hb|[Hb|[]]]; injection Hb as <- <-; [split; reflexivity|split; [reflexivity|lia]]. }
    destruct Hxc as [-> ->].
    pose proof (eof_is_last ts t Hwt Ht Hk) as El.
    pose proof (chain_last (wkey (W0 + 1)) (map lt ts) zero_tok n Hf1 Hch Hn) as Hnl. rewrite <- El in Hnl.
    destruct (Hf n Hn) as [(Hk' & _)|(l & c1 & c2 & i & j & E1 & E2 & E3 & Hi & Hj & _ & Hc & Hw)]; [contradiction|].
    unfold hi, wkey, SL in Hle, Hnl. cbn [el ec] in Hle, Hnl. rewrite E1, E3 in Hle, Hnl. rewrite Hft in Hnl.
    destruct (wkey_lex (W0 + 1) (tline t) (tfrom t - tlsp t) (Z.of_N l + 1) (Z.of_N c2)) as [H|[H1 H2]];
      [lia|lia|exact Hle| |].
    + exfalso.
      destruct (wkey_lex (W0 + 1) (Z.of_N l + 1) (Z.of_N c2) (tline t) (tfrom t - tlsp t)) as [H'|[H1' H2']];
        [lia|lia|exact Hnl|lia|lia].
    + destruct (wkey_lex (W0 + 1) (Z.of_N l + 1) (Z.of_N c2) (tline t) (tfrom t - tlsp t)) as [H'|[H1' H2']];
        [lia|lia|exact Hnl|lia|].
      exists l, c2, j. repeat split; [exact H1|lia|exact Hj|exact Hw].
  - destruct Hb as [Hb|[Hb|[]]]; injection Hb as <- <-.
    + exists l, c1, i. repeat split; [exact E1|exact E2|exact Hi|lia].
    + exists l, c2, j. repeat split; [exact E1|exact E3|exact Hj|exact Hw].
Qed.

Theorem ast_locs_in_doc_clean : forall gbk classify cps b,
  forallb scalar cps = true -> file_class_ok cps = true ->
  parse_bytes gbk classify (utf8_of cps) = Ok (PR b [] []) ->
  forallb (fun l => is_zero_loc l || loc_in_doc cps l) (locs_block b) = true.
Proof.
  intros gbk classify cps b Hsc Hg H0.
  destruct (clean_parse_lexed _ _ _ _ H0) as (ts & Hlex & Herr & H).
  set (W0 := Z.of_nat (max_line_bytes (utf8_of cps))).
  assert (HW0 : line_width_ok W0 cps = true) by (unfold line_width_ok, W0; apply Z.leb_le; lia).
  assert (HW : line_width_ok (W0 + 1) cps = true) by (unfold line_width_ok, W0; apply Z.leb_le; lia).
  pose proof (tokens_doc W0 gbk cps ts Hsc Hg HW0 Hlex Herr) as Hdoc.
  destruct (tokens_TokOrd (W0 + 1) gbk cps ts Hsc Hg HW Hlex Herr) as [Hv Hord].
  pose proof (lex_all_wf gbk _ _ Hlex) as Hwt. pose proof (wf_tokens_wfr _ Hwt) as Hwf.
  pose proof (parse_tokens_locs_on_bounds (wkey (W0 + 1)) classify ts Hwf Hord _ _ _ _ H) as Hon.
  destruct (parse_tokens_locs_within_clean (wkey (W0 + 1)) classify ts Hwt Hord _ _ _ H) as [Hnil|(n & Hn & Hkn & Hin)].
  { rewrite Hnil. reflexivity. }
  apply forallb_forall. intros l Hl. unfold WithinL in Hin. rewrite Forall_forall in Hin. rewrite forallb_forall in Hon.
  specialize (Hin l Hl). specialize (Hon l Hl). unfold loc_on_bounds in Hon.
  destruct (is_zero_loc l) eqn:Ez; [reflexivity|]. cbn [orb] in Hon |- *.
  destruct Hin as [->|(_ & Hle & Hhi)]; [discriminate|].
  apply andb_true_iff in Hon as [Hs He]. apply is_bound_in in Hs, He.
  destruct (bound_doc_clean cps W0 ts n _ _ Hwt Hord Hdoc Hn Hkn Hs) as (l1 & c1 & i & E1 & E2 & Hi & Hc1);
    [unfold lo, hi in Hle, Hhi |- *; lia|].
  destruct (bound_doc_clean cps W0 ts n _ _ Hwt Hord Hdoc Hn Hkn He) as (l2 & c2 & j & E3 & E4 & Hj & Hc2);
    [unfold lo, hi in Hle, Hhi |- *; lia|].
  assert (Hij : (i <= j)%N).
  { apply (tab_mono cps l1 c1 i l2 c2 j Hi Hj). unfold lo, hi, wkey in Hle. rewrite E1, E2, E3, E4 in Hle.
    assert (0 <= W0) by (unfold W0; lia).
    destruct (wkey_lex (W0 + 1) (Z.of_N l1 + 1) (Z.of_N c1) (Z.of_N l2 + 1) (Z.of_N c2)) as [Hlt|[Heq Hc]];
      [lia|lia|exact Hle|left; lia|right; lia]. }
  pose proof (loc_in_doc_tab cps l1 c1 i l2 c2 j Hi Hj Hij) as Hd.
  destruct l as [a1 a2 a3 a4]. cbn [sl sc el ec] in E1, E2, E3, E4. subst a1 a2 a3 a4. exact Hd.
Qed.
Print Assumptions ast_locs_in_doc_clean.

(* ------------------------------------------------------------------ the guard for W >= the longest line in UTF-16 units *)
Theorem tokens_ordered_units_b : forall W gbk cps ts,
  forallb scalar cps = true -> file_class_ok cps = true -> line_units_ok W cps = true ->
  lex_all gbk (utf8_of cps) = Ok ts -> cls_lexerr ts = false ->
  tok_ordered_b W (parser_view ts) = true.
Proof.
  intros W gbk cps ts Hsc Hg HW Hlex Herr. rewrite (parser_view_clean ts Herr).
  destruct (tokens_ordered_units W gbk cps ts Hsc Hg HW Hlex Herr) as [H1 H2].
  apply tok_ordered_b_complete, fine_TokOrd; assumption.
Qed.

Theorem ast_locs_ordered_units : forall W gbk classify cps ts b le pe,
  forallb scalar cps = true -> file_class_ok cps = true -> line_units_ok W cps = true ->
  lex_all gbk (utf8_of cps) = Ok ts -> cls_lexerr ts = false ->
  parse_bytes gbk classify (utf8_of cps) = Ok (PR b le pe) ->
  all_locs_ordered W b = true.
Proof.
  intros W gbk classify cps ts b le pe Hsc Hg HW Hlex Herr H.
  eapply ast_locs_ordered; [exact Hlex| |exact H]. eapply tokens_ordered_units_b; eassumption.
Qed.
Print Assumptions tokens_ordered_units_b.
Print Assumptions ast_locs_ordered_units.
