(* C08 - HandleFileEventChanges on a whole didChangeWatchedFiles notification (several files, each named once):
   the classification fold, the first passes, the re-resolution and the third pass re-establish the characterisation
   good_proj of Proofs/EventsRefine.v for the disk as it is after all the changes. *)
From Coq Require Import List NArith Bool Lia Permutation Sorted.
From LH Require Import Model.Diag Model.Events Spec.FreshStart Proofs.DiagProofs Proofs.EventsSets Proofs.EventsRefine.
Import ListNotations.
Local Open Scope N_scope.

Definition kind_eqb (a b : kind) : bool :=
  match a, b with KCreated, KCreated | KChanged, KChanged | KDeleted, KDeleted => true | _, _ => false end.

Lemma ev_eq_dec (a b : file * kind) : {a = b} + {a <> b}.
Proof. decide equality; [decide equality|apply N.eq_dec]. Qed.

Lemma nodup_one_kind (evs : list (file * kind)) g k1 k2 :
  NoDup (map fst evs) -> In (g, k1) evs -> In (g, k2) evs -> k1 = k2.
Proof.
  induction evs as [|[f k] r IH]; intros Hnd H1 H2; [destruct H1|].
  cbn [map fst] in Hnd. apply NoDup_cons_iff in Hnd as [Hnin Hnd].
  destruct H1 as [H1|H1], H2 as [H2|H2].
  - congruence.
  - injection H1 as -> ->. exfalso. apply Hnin. apply in_map_iff. exists (g, k2). auto.
  - injection H2 as -> ->. exfalso. apply Hnin. apply in_map_iff. exists (g, k1). auto.
  - apply IH; assumption.
Qed.

Lemma in_ev_files (evs : list (file * kind)) g k : In (g, k) evs -> In g (map fst evs).
Proof. intros H. apply in_map_iff. exists (g, k). auto. Qed.

Section Batch.
  Variable A : analysis.
  Variable fx : fixes.
  Hypothesis HA : analysis_ok A.
  Variable mem : file -> bool.
  Hypothesis Hmem : forall f, in_dir A f = true -> mem f = true.
  Local Notation txt := (text A).

  Definition is_cm (e : file * kind) : bool := match snd e with KChanged | KCreated => true | KDeleted => false end.
  Definition not_m (e : file * kind) : bool := match snd e with KChanged => false | _ => true end.

  (* ---------- the classification fold ---------- *)
  Lemma classify_spec tincl0 (evs : list (file * kind)) : forall (p : proj A) (h : hflags),
    NoDup (map fst evs) -> (forall f k, In (f, k) evs -> in_dir A f = true) -> ssorted (p_files p) ->
    let ph := fold_left (classify_base A fx tincl0) evs (p, h) in
    let p1 := fst ph in let h1 := snd ph in
    (forall g, In g (p_files p1) <-> (In g (p_files p) /\ ~ In (g, KDeleted) evs) \/ In (g, KCreated) evs) /\
    ssorted (p_files p1) /\
    (forall g, In g (p_index p1) <->
               In (g, KCreated) evs \/ (In g (p_index p) /\ (fix_index fx = true -> ~ In (g, KDeleted) evs))) /\
    (forall g, In (g, KDeleted) evs -> aget (p_fsm p1) g = None) /\
    (forall g, ~ In (g, KDeleted) evs -> aget (p_fsm p1) g = aget (p_fsm p) g) /\
    p_tincl p1 = p_tincl p /\ p_terrs p1 = p_terrs p /\
    h_again h1 = h_again h ++ map fst (filter is_cm evs) /\
    (forall g, In g (h_refer h1) <-> In g (h_refer h) \/ In (g, KCreated) evs \/ In (g, KDeleted) evs) /\
    h_all h1 = h_all h || existsb not_m evs /\
    h_third h1 = h_third h || existsb not_m evs || existsb (fun e => fmem (fst e) tincl0) evs.
  Proof.
    induction evs as [|[f k] r IH]; intros p h Hnd Hdir Hs; cbn zeta.
    - cbn [fold_left fst snd filter map existsb]. rewrite app_nil_r, !orb_false_r.
      split; [intros g; cbn [In]; tauto|].
      split; [exact Hs|].
      split; [intros g; cbn [In]; tauto|].
      split; [intros g []|].
      split; [reflexivity|]. split; [reflexivity|]. split; [reflexivity|]. split; [reflexivity|].
      split; [intros g; cbn [In]; tauto|]. split; reflexivity.
    - cbn [map fst] in Hnd. apply NoDup_cons_iff in Hnd as [Hnin Hnd].
      assert (Hdf : in_dir A f = true) by (apply (Hdir f k); left; reflexivity).
      assert (Hdir' : forall f0 k0, In (f0, k0) r -> in_dir A f0 = true) by (intros f0 k0 H; apply (Hdir f0 k0); right; exact H).
      assert (Hnr : forall k0, ~ In (f, k0) r) by (intros k0 H; apply Hnin; eapply in_ev_files; exact H).
      cbn [fold_left].
      destruct (classify_base A fx tincl0 (p, h) (f, k)) as [p' h'] eqn:Ec.
      assert (Hstep :
        p_files p' = match k with KCreated => fadd f (p_files p) | KChanged => p_files p | KDeleted => frem f (p_files p) end /\
        p_index p' = match k with KCreated => fadd f (p_index p) | KChanged => p_index p
                             | KDeleted => if fix_index fx then frem f (p_index p) else p_index p end /\
        p_fsm p' = match k with KDeleted => adel (p_fsm p) f | _ => p_fsm p end /\
        p_tincl p' = p_tincl p /\ p_terrs p' = p_terrs p /\
        h_again h' = match k with KDeleted => h_again h | _ => h_again h ++ [f] end /\
        h_refer h' = match k with KChanged => h_refer h | _ => fadd f (h_refer h) end /\
        h_all h' = match k with KChanged => h_all h | _ => true end /\
        h_third h' = match k with KChanged => h_third h | _ => true end || fmem f tincl0).
      { unfold classify_base in Ec. cbn [fst snd] in Ec. destruct k; rewrite ?Hdf in Ec; injection Ec as <- <-; cbn; auto 12. }
      destruct Hstep as [S1 [S2 [S3 [S4 [S5 [S6 [S7 [S8 S9]]]]]]]].
      assert (Hs' : ssorted (p_files p')).
      { rewrite S1. destruct k; [apply fadd_sorted|exact Hs|apply frem_sorted]; exact Hs. }
      specialize (IH p' h' Hnd Hdir' Hs'). cbn zeta in IH.
      destruct IH as [I1 [I2 [I3 [I4 [I5 [I6 [I7 [I8 [I9 [I10 I11]]]]]]]]]].
      split; [|split; [exact I2|split; [|split; [|split; [|split; [|split; [|split; [|split; [|split]]]]]]]]].
      + (* files *)
        intros g. rewrite I1, S1. cbn [In]. destruct k.
        * rewrite fadd_in. split.
          -- intros [[[->|H] Hn]|H].
             ++ right. left. reflexivity.
             ++ left. split; [exact H|]. intros [E|E]; [discriminate|contradiction].
             ++ right. right. exact H.
          -- intros [[H Hn]|[E|H]].
             ++ left. split; [right; exact H|]. intros E. apply Hn. right. exact E.
             ++ injection E as ->. left. split; [left; reflexivity|]. apply Hnr.
             ++ right. exact H.
        * split.
          -- intros [[H Hn]|H]; [left; split; [exact H|]; intros [E|E]; [discriminate|contradiction]|right; right; exact H].
          -- intros [[H Hn]|[E|H]]; [left; split; [exact H|]; intros E; apply Hn; right; exact E|discriminate|right; exact H].
        * rewrite frem_in. split.
          -- intros [[[Hne H] Hn]|H]; [|right; right; exact H].
             left. split; [exact H|]. intros [E|E]; [injection E as ->; congruence|contradiction].
          -- intros [[H Hn]|[E|H]]; [|discriminate|right; exact H].
             left. split; [split; [|exact H]|]; [intros ->; apply Hn; left; reflexivity|intros E; apply Hn; right; exact E].
      + (* index *)
        intros g. rewrite I3, S2. cbn [In]. destruct k.
        * rewrite fadd_in. split.
          -- intros [H|[[->|H] Hn]].
             ++ left. right. exact H.
             ++ left. left. reflexivity.
             ++ right. split; [exact H|]. intros Hf [E|E]; [discriminate|exact (Hn Hf E)].
          -- intros [[E|H]|[H Hn]].
             ++ injection E as ->. right. split; [left; reflexivity|]. intros _. apply Hnr.
             ++ left. exact H.
             ++ right. split; [right; exact H|]. intros Hf E. apply (Hn Hf). right. exact E.
        * split.
          -- intros [H|[H Hn]]; [left; right; exact H|]. right. split; [exact H|]. intros Hf [E|E]; [discriminate|exact (Hn Hf E)].
          -- intros [[E|H]|[H Hn]]; [discriminate|left; exact H|]. right. split; [exact H|]. intros Hf E. apply (Hn Hf). right. exact E.
        * destruct (fix_index fx) eqn:Efix.
          -- rewrite frem_in. split.
             ++ intros [H|[[Hne H] Hn]]; [left; right; exact H|]. right. split; [exact H|].
                intros _ [E|E]; [injection E as ->; congruence|exact (Hn eq_refl E)].
             ++ intros [[E|H]|[H Hn]]; [discriminate|left; exact H|]. right. split; [split; [|exact H]|].
                ** intros ->. apply (Hn eq_refl). left. reflexivity.
                ** intros _ E. apply (Hn eq_refl). right. exact E.
          -- split.
             ++ intros [H|[H Hn]]; [left; right; exact H|]. right. split; [exact H|]. intros Hf. discriminate.
             ++ intros [[E|H]|[H Hn]]; [discriminate|left; exact H|]. right. split; [exact H|]. intros Hf. discriminate.
      + (* fsm, deleted *)
        intros g [E|H]; [|apply I4; exact H]. injection E as -> ->. rewrite I5 by apply Hnr. rewrite S3. apply aget_adel_same.
      + (* fsm, others *)
        intros g Hn. rewrite I5 by (intros E; apply Hn; right; exact E). rewrite S3. destruct k; try reflexivity.
        apply aget_adel_other. intros ->. apply Hn. left. reflexivity.
      + congruence.
      + congruence.
      + rewrite I8, S6. cbn [filter is_cm snd]. destruct k; cbn [map fst]; rewrite <- ?app_assoc; reflexivity.
      + intros g. rewrite I9, S7. cbn [In]. destruct k.
        * rewrite fadd_in. split.
          -- intros [[->|H]|[H|H]]; auto 6.
          -- intros [H|[[E|H]|[E|H]]]; auto 6; [injection E as ->; auto|discriminate].
        * split.
          -- intros [H|[H|H]]; auto 6.
          -- intros [H|[[E|H]|[E|H]]]; auto 6; discriminate.
        * rewrite fadd_in. split.
          -- intros [[->|H]|[H|H]]; auto 6.
          -- intros [H|[[E|H]|[E|H]]]; auto 6; [discriminate|injection E as ->; auto].
      + rewrite I10, S8. cbn [existsb not_m snd]. destruct k; cbn [orb]; try reflexivity.
        * rewrite orb_true_r. reflexivity.
        * rewrite orb_true_r. reflexivity.
      + rewrite I11, S9. cbn [existsb not_m snd fst]. destruct k; cbn [orb].
        * rewrite !orb_true_r. reflexivity.
        * destruct (h_third h), (fmem f tincl0), (existsb not_m r), (existsb (fun e => fmem (fst e) tincl0) r); reflexivity.
        * rewrite !orb_true_r. reflexivity.
  Qed.

  (* ---------- the first passes over the changed / created files ---------- *)
  Lemma empty_hit_p_ext (p p' : proj A) f t :
    aget (p_fsm p') f = aget (p_fsm p) f -> empty_hit_p A fx p' f t = empty_hit_p A fx p f t.
  Proof. intros H. unfold empty_hit_p. rewrite H. reflexivity. Qed.

  Lemma first_one_self' dk (p : proj A) f t idx' :
    aget dk f = Some t ->
    (forall s, aget (p_fsm p) f = Some s -> exists t0, good_file A idx' t0 s) ->
    empty_hit_p A fx p f t = false ->
    exists s', aget (p_fsm (fst (first_one A fx true dk p f))) f = Some s' /\
               (good_file A idx' t s' \/ good_file A (p_index p) t s').
  Proof.
    intros Hd Hold Hemp. unfold first_one. rewrite Hd.
    assert (Hnew : good_file A (p_index p) t {| s_contents := Some t; s_res := Some (analyse A (p_index p) t) |}).
    { split; [|right; reflexivity]. exists (analyse A (p_index p) t). unfold analyse. cbn. auto. }
    destruct (aget (p_fsm p) f) as [s|] eqn:Es.
    - destruct (contents_same A fx (s_contents s) t) eqn:Ec; cbn [fst set_fsm p_fsm].
      + destruct (Hold s eq_refl) as [t0 Hg]. pose proof (contents_same_text A fx HA idx' t0 s p f t Es Hg Ec Hemp) as ->.
        exists s. split; [exact Es|left; exact Hg].
      + rewrite aget_aset_same. eexists. split; [reflexivity|right; exact Hnew].
    - cbn [fst set_fsm p_fsm]. rewrite aget_aset_same. eexists. split; [reflexivity|right; exact Hnew].
  Qed.

  Lemma first_fold_spec dk idx' : forall l (p : proj A),
    NoDup l -> (forall f, In f l -> aget dk f <> None) ->
    (forall f s, In f l -> aget (p_fsm p) f = Some s -> exists t0, good_file A idx' t0 s) ->
    (forall f t, In f l -> aget dk f = Some t -> empty_hit_p A fx p f t = false) ->
    let p2 := first_fold A fx true dk p l in
    (p_files p2 = p_files p /\ p_index p2 = p_index p /\ p_tincl p2 = p_tincl p /\ p_terrs p2 = p_terrs p) /\
    (forall g, ~ In g l -> aget (p_fsm p2) g = aget (p_fsm p) g) /\
    (forall f, In f l -> exists t s', aget dk f = Some t /\ aget (p_fsm p2) f = Some s' /\
                                     (good_file A idx' t s' \/ good_file A (p_index p) t s')).
  Proof.
    induction l as [|f l IH]; intros p Hnd Hdk Hold Hemp; cbn zeta.
    - cbn [first_fold fold_left]. split; [auto|]. split; [auto|]. intros f [].
    - apply NoDup_cons_iff in Hnd as [Hnin Hnd]. cbn [first_fold fold_left]. fold (first_fold A fx true dk (fst (first_one A fx true dk p f)) l).
      set (p1 := fst (first_one A fx true dk p f)).
      pose proof (first_one_fields A fx true dk p f) as Hfld. cbn zeta in Hfld. fold p1 in Hfld. destruct Hfld as [F1 [F2 [F3 [F4 F5]]]].
      assert (Hother : forall g, f <> g -> aget (p_fsm p1) g = aget (p_fsm p) g) by (intros g Hg; apply first_one_other; exact Hg).
      specialize (IH p1 Hnd).
      destruct IH as [[I1 [I2 [I3 I4]]] [I5 I6]].
      { intros g Hg. apply Hdk. right. exact Hg. }
      { intros g s Hg Hs. rewrite Hother in Hs by (intros ->; contradiction). apply (Hold g s); [right; exact Hg|exact Hs]. }
      { intros g t Hg Hd. rewrite (empty_hit_p_ext p p1) by (apply Hother; intros ->; contradiction). apply Hemp; [right; exact Hg|exact Hd]. }
      split; [repeat split; congruence|]. split.
      + intros g Hg. rewrite I5 by (intros H; apply Hg; right; exact H). apply Hother. intros ->. apply Hg. left. reflexivity.
      + intros g [<-|Hg].
        * destruct (aget dk f) as [t|] eqn:Ed; [|exfalso; apply (Hdk f (or_introl eq_refl)); exact Ed].
          destruct (first_one_self' dk p f t idx' Ed) as [s' [Hs' Hg']].
          { intros s Hs. apply (Hold f s); [left; reflexivity|exact Hs]. }
          { apply Hemp; [left; reflexivity|exact Ed]. }
          exists t, s'. split; [reflexivity|]. split; [|exact Hg']. rewrite I5 by exact Hnin. exact Hs'.
        * destruct (I6 g Hg) as [t [s' [H1 [H2 H3]]]]. exists t, s'. rewrite F2 in H3. auto.
  Qed.

  Lemma first_many_eq save dk (p : proj A) l :
    fst (first_many A fx save dk p l) = first_fold A fx save dk p l.
  Proof. unfold first_many. apply first_many_fst. Qed.

  Lemma first_many_false dk l : forall (p : proj A) c,
    snd (fold_left (fun (pc : proj A * bool) f => let '(p', c) := first_one A fx true dk (fst pc) f in (p', snd pc || c)) l (p, c)) = false ->
    c = false /\ first_fold A fx true dk p l = p.
  Proof.
    induction l as [|f l IH]; intros p c H; cbn [fold_left first_fold fst snd] in *; [auto|].
    destruct (first_one A fx true dk p f) as [p' c'] eqn:E. cbn [fst snd] in *.
    destruct (IH p' (c || c') H) as [H1 H2]. apply orb_false_iff in H1 as [H1a H1b]. subst c'.
    assert (p' = p). { pose proof (first_one_unchanged A fx dk p f) as HU. rewrite E in HU. cbn [fst snd] in HU. apply HU. reflexivity. }
    split; [exact H1a|]. unfold first_fold in H2. rewrite H2. assumption.
  Qed.

  (* ---------- ReanalyseReferInfo with a set of created / deleted files ---------- *)
  Lemma refer_hit_false_gen need its : refer_hit need its = false -> forall t e, In (t, e) (reqs_of its) -> ~ In t need.
  Proof.
    unfold refer_hit. intros H t e Hin Hn.
    assert (existsb (fun te : file * err => fmem (fst te) need) (reqs_of its) = true); [|congruence].
    apply existsb_exists. exists (t, e). split; [exact Hin|]. cbn [fst]. apply fmem_in. exact Hn.
  Qed.

  Lemma reanalyse_good_gen idx0 idx1 need t (s : fstruct A) :
    (forall x, ~ In x need -> fmem x idx1 = fmem x idx0) ->
    good_file A idx0 t s -> good_file A idx1 t (reanalyse_one A idx1 need s).
  Proof.
    intros Hidx [[r [Hr [Ht [Hrefs Hp]]]] Hc]. unfold reanalyse_one. rewrite Hr, Ht.
    destruct (has6 (r_errs r) || refer_hit need (first A t)) eqn:E.
    - split; [|exact Hc]. eexists. split; [reflexivity|]. cbn [r_text r_refs r_errs].
      split; [reflexivity|]. split; [reflexivity|].
      eapply reresolve_perm; [apply (first_wf A HA)|exact Hp].
    - apply orb_false_iff in E as [_ E]. pose proof (refer_hit_false_gen need _ E) as Hne.
      split; [|exact Hc]. exists r. repeat split; try assumption.
      + rewrite Hrefs. apply refs_of_ext. intros x e Hin. symmetry. apply Hidx. eapply Hne. exact Hin.
      + rewrite (ferrs_ext idx1 idx0); [exact Hp|]. intros x e Hin. apply Hidx. eapply Hne. exact Hin.
  Qed.

  (* ---------- HandleFileEventChanges, projections instead of pattern lets ---------- *)
  Definition h0 : hflags := {| h_again := []; h_refer := []; h_all := false; h_third := false |}.

  Lemma handle_events_eq dk (p : proj A) evs :
    handle_events A fx dk p evs =
    let ph := fold_left (classify_one A fx (p_tincl p)) evs (p, h0) in
    let h := snd ph in
    let pc := first_many A fx true dk (fst ph) (h_again h) in
    let p3 := set_lru A (fst pc) (fold_left (fun l f => match res_of A (fst pc) f with Some _ => frem f l | None => l end)
                                            (h_again h) (p_lru (fst pc))) in
    let p4 := if is_nil (h_refer h) then p3 else reanalyse_all A p3 (h_refer h) in
    if negb (snd pc) && negb (h_all h) then (p4, negb (is_nil (h_refer h)))
    else ((if h_third h then recompute_third A p4 else p4), true).
  Proof.
    unfold handle_events, h0. destruct (fold_left (classify_one A fx (p_tincl p)) evs _) as [p1 h]. cbn [fst snd].
    destruct (first_many A fx true dk p1 (h_again h)) as [p2 c]. reflexivity.
  Qed.

  (* the same with the classification fold of any list of events that are HANDLED AS evs' *)
  Lemma handle_events_eq_as dk (p : proj A) evs evs' :
    fold_left (classify_one A fx (p_tincl p)) evs (p, h0) = fold_left (classify_base A fx (p_tincl p)) evs' (p, h0) ->
    handle_events A fx dk p evs =
    let ph := fold_left (classify_base A fx (p_tincl p)) evs' (p, h0) in
    let h := snd ph in
    let pc := first_many A fx true dk (fst ph) (h_again h) in
    let p3 := set_lru A (fst pc) (fold_left (fun l f => match res_of A (fst pc) f with Some _ => frem f l | None => l end)
                                            (h_again h) (p_lru (fst pc))) in
    let p4 := if is_nil (h_refer h) then p3 else reanalyse_all A p3 (h_refer h) in
    if negb (snd pc) && negb (h_all h) then (p4, negb (is_nil (h_refer h)))
    else ((if h_third h then recompute_third A p4 else p4), true).
  Proof. intros H. rewrite handle_events_eq, H. reflexivity. Qed.

  (* ---------- the kinds the events of a notification are handled as (repair flag fix_changed_unknown) ---------- *)
  Definition eff_evs (p : proj A) (evs : list (file * kind)) : list (file * kind) :=
    map (fun ev => (fst ev, eff_kind A fx p ev)) evs.

  Lemma eff_evs_files p evs : map fst (eff_evs p evs) = map fst evs.
  Proof. unfold eff_evs. rewrite map_map. reflexivity. Qed.

  Lemma in_eff_evs p evs f k' : In (f, k') (eff_evs p evs) <-> exists k, In (f, k) evs /\ k' = eff_kind A fx p (f, k).
  Proof.
    unfold eff_evs. rewrite in_map_iff. split.
    - intros [[f0 k] [E Hin]]. cbn [fst] in E. injection E as -> <-. exists k. auto.
    - intros [k [Hin ->]]. exists (f, k). auto.
  Qed.

  Lemma classify_base_files_other tincl0 (p : proj A) h f k g : g <> f ->
    fmem g (p_files (fst (classify_base A fx tincl0 (p, h) (f, k)))) = fmem g (p_files p).
  Proof.
    intros Hne. apply N.eqb_neq in Hne. unfold classify_base. cbn [fst snd].
    destruct k; [destruct (in_dir A f || fix_outside fx)|idtac|destruct (in_dir A f || fix_outside fx)];
      cbn [fst remove_file p_files]; rewrite ?fmem_fadd, ?fmem_frem, ?Hne; reflexivity.
  Qed.

  (* a notification that names every file once is handled event by event with the kinds read off the project as it is
     BEFORE the notification *)
  Lemma classify_fold_eff tincl0 evs : forall (p0 p : proj A) (h : hflags),
    NoDup (map fst evs) -> (forall g, In g (map fst evs) -> fmem g (p_files p) = fmem g (p_files p0)) ->
    fold_left (classify_one A fx tincl0) evs (p, h) = fold_left (classify_base A fx tincl0) (eff_evs p0 evs) (p, h).
  Proof.
    induction evs as [|[f k] r IH]; intros p0 p h Hnd Hsame; [reflexivity|].
    cbn [map fst] in Hnd. apply NoDup_cons_iff in Hnd as [Hnin Hnd].
    cbn [eff_evs map fold_left fst]. fold (eff_evs p0 r).
    unfold classify_one at 2. cbn [fst snd].
    assert (Ek : eff_kind A fx p (f, k) = eff_kind A fx p0 (f, k)).
    { unfold eff_kind. cbn [fst snd]. rewrite (Hsame f) by (left; reflexivity). reflexivity. }
    rewrite Ek.
    destruct (classify_base A fx tincl0 (p, h) (f, eff_kind A fx p0 (f, k))) as [p' h'] eqn:Ec.
    apply IH; [exact Hnd|].
    intros g Hg. rewrite <- (Hsame g) by (right; exact Hg).
    replace p' with (fst (classify_base A fx tincl0 (p, h) (f, eff_kind A fx p0 (f, k)))) by (rewrite Ec; reflexivity).
    apply classify_base_files_other. intros ->. contradiction.
  Qed.

  (* what a conformant notification says about the disk before (dk0) and after (dk); batch_ok_s: every "changed" file
     was there before; batch_ok: or the code has the changed-unknown repair *)
  Record batch_ok_s (dk0 dk : amap txt) (evs : list (file * kind)) : Prop := {
    bs_nodup : NoDup (map fst evs);
    bs_indir : forall f k, In (f, k) evs -> in_dir A f = true;
    bs_other : forall g, ~ In g (map fst evs) -> aget dk g = aget dk0 g;
    bs_c : forall f, In (f, KCreated) evs -> aget dk f <> None;
    bs_m : forall f, In (f, KChanged) evs -> aget dk f <> None /\ aget dk0 f <> None;
    bs_d : forall f, In (f, KDeleted) evs -> aget dk f = None
  }.
  Record batch_ok (dk0 dk : amap txt) (evs : list (file * kind)) : Prop := {
    b_nodup : NoDup (map fst evs);
    b_indir : forall f k, In (f, k) evs -> in_dir A f = true;
    b_other : forall g, ~ In g (map fst evs) -> aget dk g = aget dk0 g;
    b_c : forall f, In (f, KCreated) evs -> aget dk f <> None;
    b_m : forall f, In (f, KChanged) evs -> aget dk f <> None /\ (aget dk0 f <> None \/ fix_changed_unknown fx = true);
    b_d : forall f, In (f, KDeleted) evs -> aget dk f = None
  }.

  Lemma in_filter_cm evs g : In g (map fst (filter is_cm evs)) <-> In (g, KCreated) evs \/ In (g, KChanged) evs.
  Proof.
    rewrite in_map_iff. split.
    - intros [[f k] [E H]]. cbn [fst] in E. subst f. apply filter_In in H as [H1 H2]. unfold is_cm in H2. cbn [snd] in H2.
      destruct k; [left|right|discriminate]; exact H1.
    - intros [H|H]; [exists (g, KCreated)|exists (g, KChanged)]; (split; [reflexivity|]; apply filter_In; split; [exact H|reflexivity]).
  Qed.

  Lemma nodup_filter_cm evs : NoDup (map fst evs) -> NoDup (map fst (filter is_cm evs)).
  Proof.
    induction evs as [|[f k] r IH]; intros H; [constructor|]. cbn [map fst] in H. apply NoDup_cons_iff in H as [H1 H2].
    cbn [filter]. destruct (is_cm (f, k)); [|apply IH; exact H2]. cbn [map fst]. constructor; [|apply IH; exact H2].
    intros Hin. apply H1. apply in_map_iff in Hin as [[f' k'] [E Hin]]. cbn [fst] in E. subst f'. apply filter_In in Hin as [Hin _].
    eapply in_ev_files. exact Hin.
  Qed.

  Lemma existsb_not_m_false evs : existsb not_m evs = false -> forall g k, In (g, k) evs -> k = KChanged.
  Proof.
    intros H g k Hin. destruct k; try reflexivity; exfalso;
      (assert (existsb not_m evs = true); [apply existsb_exists; eexists; split; [exact Hin|reflexivity]|congruence]).
  Qed.

  Lemma he_batch_as dk0 dk (p : proj A) evs0 evs :
    fold_left (classify_one A fx (p_tincl p)) evs0 (p, h0) = fold_left (classify_base A fx (p_tincl p)) evs (p, h0) ->
    good_proj A mem dk0 p -> batch_ok_s dk0 dk evs ->
    (forall f k t, In (f, k) evs -> aget dk f = Some t -> empty_hit_p A fx p f t = false) ->
    let r := handle_events A fx dk p evs0 in
    (nostale_p A (fst r) \/ idx_sub A (fst r) -> good_proj A mem dk (fst r)) /\
    (snd r = false -> forall g, errs_of A (fst r) g = errs_of A p g).
  Proof.
    intros Hfold G B Hemp. cbn zeta. rewrite (handle_events_eq_as dk p evs0 evs Hfold). cbn zeta. clear Hfold evs0.
    assert (Hs0 : ssorted (p_files p)) by (rewrite (gp_files _ _ _ _ G); apply dfiles_sorted).
    pose proof (classify_spec (p_tincl p) evs p h0 (bs_nodup _ _ _ B) (bs_indir _ _ _ B) Hs0) as CS. cbn zeta in CS.
    set (ph := fold_left (classify_base A fx (p_tincl p)) evs (p, h0)) in *.
    set (p1 := fst ph) in *. set (h := snd ph) in *.
    destruct CS as [C1 [C2 [C3 [C4 [C5 [C6 [C7 [C8 [C9 [C10 C11]]]]]]]]]].
    cbn [h0 h_again h_refer h_all h_third app orb] in C8, C9, C10, C11.
    assert (Hone : forall g k1 k2, In (g, k1) evs -> In (g, k2) evs -> k1 = k2) by (intros; eapply nodup_one_kind; [apply (bs_nodup _ _ _ B)|eassumption|eassumption]).
    (* files of p1 = workspace files of the new disk *)
    assert (Hfiles : p_files p1 = dfiles A mem dk).
    { apply sorted_ext; [exact C2|apply dfiles_sorted|]. intros g. rewrite C1, dfiles_in, (gp_files _ _ _ _ G), dfiles_in.
      destruct (in_dec N.eq_dec g (map fst evs)) as [Hin|Hnin].
      - apply in_map_iff in Hin as [[g' k] [E Hin]]. cbn [fst] in E. subst g'. pose proof (Hmem _ (bs_indir _ _ _ B g k Hin)) as Hd. destruct k.
        + split; [intros _; split; [exact Hd|apply (bs_c _ _ _ B); exact Hin]|intros _; right; exact Hin].
        + destruct (bs_m _ _ _ B g Hin) as [M1 M2]. split; [intros _; auto|]. intros _. left. split; [auto|].
          intros HD. pose proof (Hone g _ _ Hin HD). discriminate.
        + split.
          * intros [[_ Hn]|HC]; [contradiction|]. pose proof (Hone g _ _ Hin HC). discriminate.
          * intros [_ Hn]. rewrite (bs_d _ _ _ B g Hin) in Hn. congruence.
      - rewrite (bs_other _ _ _ B g Hnin). split.
        + intros [[H _]|HC]; [exact H|]. exfalso. apply Hnin. eapply in_ev_files. exact HC.
        + intros H. left. split; [exact H|]. intros HD. apply Hnin. eapply in_ev_files. exact HD. }
    (* the first passes *)
    assert (Hagain_nd : NoDup (h_again h)) by (rewrite C8; apply nodup_filter_cm; apply (bs_nodup _ _ _ B)).
    assert (Hagain_in : forall g, In g (h_again h) <-> In (g, KCreated) evs \/ In (g, KChanged) evs) by (intros g; rewrite C8; apply in_filter_cm).
    assert (Hold1 : forall g, ~ In (g, KDeleted) evs -> aget (p_fsm p1) g = aget (p_fsm p) g) by exact C5.
    pose proof (first_fold_spec dk (p_index p) (h_again h) p1 Hagain_nd) as FS. cbn zeta in FS.
    destruct FS as [[F1 [F2 [F3 F4]]] [F5 F6]].
    { intros g Hg. apply Hagain_in in Hg. destruct Hg as [Hg|Hg]; [apply (bs_c _ _ _ B); exact Hg|apply (bs_m _ _ _ B); exact Hg]. }
    { intros g s Hg Hs. apply Hagain_in in Hg.
      assert (Hnd : ~ In (g, KDeleted) evs) by (intros HD; destruct Hg as [Hg|Hg]; pose proof (Hone g _ _ Hg HD); discriminate).
      rewrite (Hold1 g Hnd) in Hs.
      destruct (in_dec N.eq_dec g (p_files p)) as [Hf|Hf].
      - destruct (gp_in _ _ _ _ G g Hf) as [t0 [s0 [_ [Hs0' Hg0]]]]. rewrite Hs in Hs0'. injection Hs0' as <-. exists t0. exact Hg0.
      - rewrite (gp_out _ _ _ _ G g Hf) in Hs. discriminate. }
    { intros g t Hg Hd. apply Hagain_in in Hg.
      assert (Hnd : ~ In (g, KDeleted) evs) by (intros HD; destruct Hg as [Hg|Hg]; pose proof (Hone g _ _ Hg HD); discriminate).
      rewrite (empty_hit_p_ext p p1) by (apply Hold1; exact Hnd).
      destruct Hg as [Hg|Hg]; eapply Hemp; eassumption. }
    rewrite <- (first_many_eq true dk p1 (h_again h)) in *.
    set (pc := first_many A fx true dk p1 (h_again h)) in *.
    set (p3 := set_lru A (fst pc) (fold_left (fun l f => match res_of A (fst pc) f with Some _ => frem f l | None => l end)
                                            (h_again h) (p_lru (fst pc)))).
    set (p4 := if is_nil (h_refer h) then p3 else reanalyse_all A p3 (h_refer h)).
    assert (P4f : p_files p4 = p_files p1 /\ p_index p4 = p_index p1 /\ p_tincl p4 = p_tincl p /\ p_terrs p4 = p_terrs p).
    { unfold p4. destruct (is_nil (h_refer h)); cbn [reanalyse_all set_fsm p3 set_lru p_files p_index p_tincl p_terrs]; repeat split; congruence. }
    destruct P4f as [P4a [P4b [P4c P4d]]].
    (* index membership relative to the old index *)
    assert (Hidx : forall x, ~ In x (h_refer h) -> fmem x (p_index p1) = fmem x (p_index p)).
    { intros x Hx. rewrite C9 in Hx. cbn [In] in Hx.
      destruct (fmem x (p_index p1)) eqn:E1; symmetry.
      - apply fmem_in. apply fmem_in, C3 in E1. destruct E1 as [E1|[E1 _]]; [exfalso; apply Hx; auto|exact E1].
      - apply fmem_false. apply fmem_false in E1. intros H. apply E1. apply C3. right. split; [exact H|].
        intros _ HD. apply Hx. auto. }
    (* every entry of a file of p4 is good for the new disk and the new index *)
    assert (Hin4 : forall g, In g (p_files p4) ->
              exists t s, aget dk g = Some t /\ aget (p_fsm p4) g = Some s /\ good_file A (p_index p4) t s).
    { intros g Hg. rewrite P4a in Hg. rewrite P4b.
      assert (Hentry : exists t s, aget dk g = Some t /\ aget (p_fsm (fst pc)) g = Some s /\
                                   (good_file A (p_index p) t s \/ good_file A (p_index p1) t s)).
      { destruct (in_dec N.eq_dec g (h_again h)) as [Ha|Ha].
        - destruct (F6 g Ha) as [t [s' [H1 [H2 H3]]]]. exists t, s'. auto.
        - rewrite F5 by exact Ha. apply C1 in Hg. destruct Hg as [[Hg Hnd]|HC]; [|exfalso; apply Ha; apply Hagain_in; auto].
          rewrite (Hold1 g Hnd). destruct (gp_in _ _ _ _ G g Hg) as [t [s [H1 [H2 H3]]]]. exists t, s.
          assert (Hnin : ~ In g (map fst evs)).
          { intros Hin. apply in_map_iff in Hin as [[g' k] [E Hin]]. cbn [fst] in E. subst g'. destruct k;
              [apply Ha; apply Hagain_in; auto|apply Ha; apply Hagain_in; auto|contradiction]. }
          rewrite (bs_other _ _ _ B g Hnin). auto. }
      destruct Hentry as [t [s [H1 [H2 H3]]]].
      unfold p4. destruct (is_nil (h_refer h)) eqn:Enil.
      - exists t, s. cbn [p3 set_lru p_fsm]. split; [exact H1|]. split; [exact H2|].
        destruct H3 as [H3|H3]; [|exact H3]. apply (good_file_ext A (p_index p)); [|exact H3].
        intros x. symmetry. apply Hidx. destruct (h_refer h); [intros []|discriminate].
      - exists t, (reanalyse_one A (p_index p1) (h_refer h) s). split; [exact H1|].
        rewrite reanalyse_all_fsm. cbn [p3 set_lru p_fsm p_index]. rewrite H2, F2. cbn [option_map]. split; [reflexivity|].
        destruct H3 as [H3|H3].
        + apply (reanalyse_good_gen (p_index p)); [exact Hidx|exact H3].
        + apply (reanalyse_good_gen (p_index p1)); [reflexivity|exact H3]. }
    assert (Hout4 : forall g, ~ In g (p_files p4) -> aget (p_fsm p4) g = None).
    { intros g Hg. rewrite P4a in Hg.
      assert (Hna : ~ In g (h_again h)).
      { intros Ha. apply Hagain_in in Ha. apply Hg. apply C1. destruct Ha as [Ha|Ha]; [right; exact Ha|].
        left. split.
        - rewrite (gp_files _ _ _ _ G). apply dfiles_in. split; [apply Hmem; apply (bs_indir _ _ _ B g _ Ha)|apply (bs_m _ _ _ B g Ha)].
        - intros HD. pose proof (Hone g _ _ Ha HD). discriminate. }
      assert (Hnone : aget (p_fsm (fst pc)) g = None).
      { rewrite F5 by exact Hna. destruct (in_dec ev_eq_dec (g, KDeleted) evs) as [HD|HD].
        - apply C4. exact HD.
        - rewrite (Hold1 g HD). apply (gp_out _ _ _ _ G). intros Hf. apply Hg. apply C1. left. auto. }
      unfold p4. destruct (is_nil (h_refer h)).
      - cbn [p3 set_lru p_fsm]. exact Hnone.
      - rewrite reanalyse_all_fsm. cbn [p3 set_lru p_fsm]. rewrite Hnone. reflexivity. }
    assert (Hsup4 : forall g, In g (p_files p4) -> In g (p_index p4)).
    { intros g. rewrite P4a, P4b, C1, C3. intros [[H Hn]|H]; [|left; exact H]. right. split; [apply (gp_isup _ _ _ _ G); exact H|auto]. }
    destruct (negb (snd pc) && negb (h_all h)) eqn:Equiet; cbn [fst snd].
    - (* nothing re-analysed, no file created or deleted: only Changed events, all taking the shortcut *)
      apply andb_true_iff in Equiet as [Eq1 Eq2]. apply negb_true_iff in Eq1, Eq2.
      rewrite C10 in Eq2.
      assert (Href : h_refer h = []).
      { destruct (h_refer h) as [|x r] eqn:E; [reflexivity|]. exfalso.
        pose proof (proj1 (C9 x) (or_introl eq_refl)) as Hx.
        destruct Hx as [[]|[Hx|Hx]]; pose proof (existsb_not_m_false evs Eq2 x _ Hx); discriminate. }
      unfold pc, first_many in Eq1. destruct (first_many_false dk (h_again h) p1 false Eq1) as [_ Hsame].
      assert (Hp1 : forall g, aget (p_fsm p1) g = aget (p_fsm p) g).
      { intros g. apply Hold1. intros HD. pose proof (existsb_not_m_false evs Eq2 g _ HD). discriminate. }
      assert (Hfst : fst pc = first_fold A fx true dk p1 (h_again h)) by (unfold pc; apply first_many_eq).
      assert (P4fsm : forall g, aget (p_fsm p4) g = aget (p_fsm p) g).
      { intros g. unfold p4. rewrite Href. cbn [is_nil p3 set_lru p_fsm]. rewrite Hfst, Hsame. apply Hp1. }
      assert (Hidx_same : forall x, fmem x (p_index p4) = fmem x (p_index p)).
      { intros x. rewrite P4b. apply Hidx. rewrite Href. intros []. }
      assert (Hres : forall g, res_of A p4 g = res_of A p g) by (intros g; unfold res_of; rewrite P4fsm; reflexivity).
      assert (Hfiles4 : p_files p4 = p_files p).
      { rewrite P4a. apply sorted_ext; [exact C2|exact Hs0|]. intros g. rewrite C1. split.
        - intros [[H _]|H]; [exact H|]. pose proof (existsb_not_m_false evs Eq2 g _ H). discriminate.
        - intros H. left. split; [exact H|]. intros HD. pose proof (existsb_not_m_false evs Eq2 g _ HD). discriminate. }
      assert (Hpsums : forall l, psums A p4 l = psums A p l).
      { intros l. unfold psums. apply flat_map_ext_in'. intros g _. rewrite Hres. destruct (res_of A p g) as [r|]; [|reflexivity].
        rewrite (refs_of_ext (p_index p4) (p_index p)); [reflexivity|]. intros. apply Hidx_same. }
      split.
      + intros _. constructor.
        * rewrite P4a. exact Hfiles.
        * exact Hsup4.
        * exact Hin4.
        * exact Hout4.
        * intros g r t Hg Hr Hin. rewrite Hfiles4 in *. rewrite Hres in Hr. apply (gp_nostale _ _ _ _ G g r t Hg Hr Hin).
        * rewrite P4c, Hfiles4. apply (gp_tincl _ _ _ _ G).
        * intros g. rewrite P4d, Hfiles4, Hpsums. apply (gp_terrs _ _ _ _ G).
      + intros _ g. unfold errs_of, first_errs. rewrite Hres, P4d. reflexivity.
    - (* something changed: the third pass runs *)
      assert (Hthird : h_third h = true).
      { rewrite C11. apply andb_false_iff in Equiet. destruct (existsb not_m evs) eqn:Enm; [reflexivity|]. cbn [orb].
        destruct Equiet as [Eq|Eq]; [|rewrite C10 in Eq; discriminate].
        apply negb_false_iff in Eq.
        (* a first pass really ran, so some Changed file exists; it is a known file, hence in the third-pass set *)
        destruct (h_again h) as [|x r] eqn:Ea.
        { unfold pc in Eq. cbn in Eq. discriminate. }
        pose proof (proj1 (Hagain_in x) (or_introl eq_refl)) as Hx. destruct Hx as [Hx|Hx]; [pose proof (existsb_not_m_false evs Enm x _ Hx); discriminate|].
        apply existsb_exists. exists (x, KChanged). split; [exact Hx|]. cbn [fst]. rewrite (gp_tincl _ _ _ _ G). apply fmem_in.
        rewrite (gp_files _ _ _ _ G). apply dfiles_in. split; [apply Hmem; apply (bs_indir _ _ _ B x _ Hx)|apply (bs_m _ _ _ B x Hx)]. }
      rewrite Hthird. split; [|discriminate]. intros Hns. apply good_after_third.
      + rewrite P4a. exact Hfiles.
      + exact Hsup4.
      + exact Hin4.
      + exact Hout4.
      + exact Hns.
  Qed.

  Lemma he_batch dk0 dk (p : proj A) evs :
    good_proj A mem dk0 p -> batch_ok dk0 dk evs ->
    (forall f k t, In (f, k) evs -> aget dk f = Some t -> empty_hit_p A fx p f t = false) ->
    let r := handle_events A fx dk p evs in
    (nostale_p A (fst r) \/ idx_sub A (fst r) -> good_proj A mem dk (fst r)) /\
    (snd r = false -> forall g, errs_of A (fst r) g = errs_of A p g).
  Proof.
    intros G B Hemp.
    apply (he_batch_as dk0 dk p evs (eff_evs p evs)).
    - apply classify_fold_eff; [apply (b_nodup _ _ _ B)|reflexivity].
    - exact G.
    - constructor.
      + rewrite eff_evs_files. apply (b_nodup _ _ _ B).
      + intros f k' H. apply in_eff_evs in H as [k [H _]]. apply (b_indir _ _ _ B f k H).
      + rewrite eff_evs_files. apply (b_other _ _ _ B).
      + intros f H. apply in_eff_evs in H as [k [H E]]. unfold eff_kind in E. cbn [fst snd] in E.
        destruct k; [apply (b_c _ _ _ B); exact H| |discriminate].
        apply (b_m _ _ _ B). exact H.
      + intros f H. apply in_eff_evs in H as [k [H E]]. unfold eff_kind in E. cbn [fst snd] in E.
        destruct k; [discriminate| |discriminate].
        destruct (b_m _ _ _ B f H) as [M1 M2]. split; [exact M1|].
        destruct M2 as [M2|M2]; [exact M2|]. rewrite M2 in E. cbn [andb] in E.
        destruct (fmem f (p_files p)) eqn:Ef; [|discriminate].
        apply fmem_in in Ef. rewrite (gp_files _ _ _ _ G) in Ef. apply dfiles_in in Ef. apply Ef.
      + intros f H. apply in_eff_evs in H as [k [H E]]. unfold eff_kind in E. cbn [fst snd] in E.
        destruct k; [discriminate| |apply (b_d _ _ _ B); exact H].
        destruct (fix_changed_unknown fx && negb (fmem f (p_files p))); discriminate.
    - intros f k' t H. apply in_eff_evs in H as [k [H _]]. apply (Hemp f k t H).
  Qed.
End Batch.
