(* C06 / C11, local targets: the statement with the guards of DESIGN 5 only - fragment, Laid, classA_ok - plus the
   C05 hypothesis (the position resolver answers the declaration Lua binds the cursor's occurrence o to). *)
From Coq Require Import List NArith ZArith Bool Lia Permutation.
From LH Require Import Base.Bytes Model.Lexer Model.Ast Model.Scope Model.Globals Model.Resolve Spec.LuaScope
  Proofs.TraverseBindDefs Proofs.TraverseBind Proofs.TraverseBindRefs Proofs.TraverseBindLaid Proofs.TraverseBindSpecLaid.
Import ListNotations.
Local Open Scope Z_scope.

Theorem refs_local_final mode P W w f name line col v o :
  in_fragment P = true -> tb_shape P = true -> laid_b W P = true ->
  classA_ok (bind_file P) name = true ->
  resolve_at w f (analyse P) name line col = TLocal v ->
  In o (bind_file P) -> s_name o = name -> s_bind o = BLocal (v_loc v) ->
  exists l, references_at mode w f (analyse P) name line col = Some l /\
            forall x, In x l <-> In x (spec_refs [(f, bind_file P)] f o).
Proof.
  intros Hf Hs Hl Ha Hres Hin Hn Hb.
  apply (refs_local_same_var_classA mode P W w f name line col v o Hf Hs Hl Ha); auto.
  rewrite <- Hn. exact (laid_decl_layout W P o (v_loc v) Hs Hl Hin Hb).
Qed.
