(* Byte-string lemmas for the module-path proofs: suffixes, Split/last segment, first '.', simple names. *)
From Coq Require Import List Arith PeanoNat NArith Bool Lia.
From LH Require Import Base.Bytes Model.FileIndex Model.ModulePath Spec.ModuleSpec Proofs.FileIndexProofs.
Import ListNotations.

(* ---- is_suffix ---- *)
Lemma is_suffix_spec suf s : is_suffix suf s = true <-> exists p, s = p ++ suf.
Proof.
  unfold is_suffix. split.
  - intros H. apply andb_true_iff in H as [Hl Hb]. apply beq_bytes_eq in Hb.
    exists (firstn (length s - length suf) s). rewrite <- Hb at 2. symmetry. apply firstn_skipn.
  - intros [p ->]. apply andb_true_iff. split.
    + apply Nat.leb_le. rewrite app_length. lia.
    + apply beq_bytes_eq. rewrite app_length.
      replace (length p + length suf - length suf) with (length p) by lia.
      rewrite skipn_app, skipn_all, Nat.sub_diag. reflexivity.
Qed.

Lemma is_suffix_app_cancel a b x : is_suffix (a ++ x) (b ++ x) = is_suffix a b.
Proof.
  destruct (is_suffix a b) eqn:E.
  - apply is_suffix_spec in E as [p ->]. apply is_suffix_spec. exists p. rewrite app_assoc. reflexivity.
  - destruct (is_suffix (a ++ x) (b ++ x)) eqn:E2; [|reflexivity].
    apply is_suffix_spec in E2 as [p Hp]. rewrite app_assoc in Hp. apply app_inv_tail in Hp.
    assert (is_suffix a b = true) as Ht by (apply is_suffix_spec; exists p; exact Hp). congruence.
Qed.

(* ---- In / existsb over byte strings ---- *)
Lemma fmem_In f s : fmem f s = true <-> In f s.
Proof.
  unfold fmem. rewrite existsb_exists. split.
  - intros [g [Hin Hg]]. apply beq_bytes_eq in Hg. subst. exact Hin.
  - intros H. exists f. split; [exact H|apply beq_refl].
Qed.

Lemma mem_bytes_In f s : mem_bytes f s = true <-> In f s.
Proof. exact (fmem_In f s). Qed.

(* ---- index_byte ---- *)
Lemma index_byte_none c s : index_byte c s = None <-> ~ In c s.
Proof.
  induction s as [|x t IH]; simpl.
  - split; [intros _ []|reflexivity].
  - destruct (N.eqb x c) eqn:E.
    + apply N.eqb_eq in E. subst. split; [discriminate|]. intros H. exfalso. apply H. left. reflexivity.
    + apply N.eqb_neq in E. destruct (index_byte c t) eqn:Ei.
      * split; [discriminate|]. intros H. exfalso. destruct IH as [_ IH].
        assert (~ In c t) as Hn by (intros Hc; apply H; right; exact Hc).
        specialize (IH Hn). discriminate.
      * split; [|reflexivity]. intros _ [Hx|Ht]; [congruence|]. apply (proj1 IH); [reflexivity|exact Ht].
Qed.

Lemma index_byte_app c s t : ~ In c s -> index_byte c (s ++ c :: t) = Some (length s).
Proof.
  induction s as [|x s IH]; intros H; simpl.
  - rewrite N.eqb_refl. reflexivity.
  - destruct (N.eqb x c) eqn:E.
    + apply N.eqb_eq in E. exfalso. apply H. left. exact E.
    + rewrite IH; [reflexivity|]. intros Hc. apply H. right. exact Hc.
Qed.

Lemma index_byte_some c s i : index_byte c s = Some i ->
  ~ In c (firstn i s) /\ exists t, skipn i s = c :: t.
Proof.
  revert i; induction s as [|x s IH]; intros i H; simpl in H; [discriminate|].
  destruct (N.eqb x c) eqn:E.
  - injection H as <-. apply N.eqb_eq in E. subst. simpl. split; [intros []|exists s; reflexivity].
  - destruct (index_byte c s) as [k|] eqn:Ek; [|discriminate]. injection H as <-.
    destruct (IH k eq_refl) as [H1 [t H2]]. simpl. split.
    + intros [Hx|Hin]; [apply N.eqb_neq in E; congruence|apply H1; exact Hin].
    + exists t. exact H2.
Qed.

Lemma has_dot_In s : has_dot s = true <-> In dot s.
Proof.
  unfold has_dot. destruct (index_byte dot s) eqn:E.
  - split; [|reflexivity]. intros _. destruct (index_byte_some _ _ _ E) as [_ [t Ht]].
    rewrite <- (firstn_skipn n s), Ht. apply in_or_app. right. left. reflexivity.
  - apply index_byte_none in E. split; [discriminate|]. intros H. contradiction.
Qed.

Lemma has_dot_false s : has_dot s = false <-> ~ In dot s.
Proof.
  split.
  - intros H Hin. apply has_dot_In in Hin. congruence.
  - intros H. destruct (has_dot s) eqn:E; [|reflexivity]. apply has_dot_In in E. contradiction.
Qed.

Lemma replace_no_dot s : ~ In dot (replace_byte dot slash s).
Proof.
  unfold replace_byte. intros H. apply in_map_iff in H as [x [Hx _]].
  destruct (N.eqb x dot) eqn:E; [discriminate|]. apply N.eqb_neq in E. congruence.
Qed.

(* ---- Split / last segment ---- *)
Lemma split_on_nosep c x : ~ In c x -> split_on c x = [x].
Proof.
  induction x as [|a x IH]; intros H; simpl; [reflexivity|].
  destruct (N.eqb a c) eqn:E.
  - apply N.eqb_eq in E. exfalso. apply H. left. exact E.
  - rewrite IH; [reflexivity|]. intros Hc. apply H. right. exact Hc.
Qed.

Lemma split_on_app_sep c p r : split_on c (p ++ c :: r) = split_on c p ++ split_on c r.
Proof.
  induction p as [|a p IH]; simpl.
  - rewrite N.eqb_refl. reflexivity.
  - destruct (N.eqb a c); [rewrite IH; reflexivity|].
    rewrite IH. destruct (split_on c p) as [|h t] eqn:E; [exfalso; exact (split_on_nonempty c p E)|].
    reflexivity.
Qed.

Lemma last_app_ne {A} (l1 l2 : list A) d : l2 <> [] -> last (l1 ++ l2) d = last l2 d.
Proof.
  intros H. induction l1 as [|a l1 IH]; [reflexivity|].
  simpl. destruct (l1 ++ l2) eqn:E; [|exact IH].
  apply app_eq_nil in E as [_ E]. contradiction.
Qed.

Lemma last_seg_app_slash p r : last_seg (p ++ slash :: r) = last_seg r.
Proof. unfold last_seg. rewrite split_on_app_sep. apply last_app_ne. apply split_on_nonempty. Qed.

Lemma last_seg_nosep x : ~ In slash x -> last_seg x = x.
Proof. intros H. unfold last_seg. rewrite split_on_nosep by exact H. reflexivity. Qed.

Lemma slash_decomp b : ~ In slash b \/ exists p r, b = p ++ slash :: r /\ ~ In slash r.
Proof.
  induction b as [|x b IH]; [left; intros []|].
  destruct IH as [Hn|[p [r [-> Hr]]]].
  - destruct (N.eq_dec x slash) as [->|Hx].
    + right. exists [], b. split; [reflexivity|exact Hn].
    + left. intros [H|H]; [congruence|contradiction].
  - right. exists (x :: p), r. split; [reflexivity|exact Hr].
Qed.

Lemma last_seg_app_nosep b x : ~ In slash x -> last_seg (b ++ x) = last_seg b ++ x.
Proof.
  intros Hx. destruct (slash_decomp b) as [Hb|[p [r [-> Hr]]]].
  - rewrite (last_seg_nosep b Hb). apply last_seg_nosep.
    intros H. apply in_app_or in H as [H|H]; contradiction.
  - rewrite <- app_assoc. simpl. rewrite !last_seg_app_slash.
    rewrite (last_seg_nosep r Hr). apply last_seg_nosep.
    intros H. apply in_app_or in H as [H|H]; contradiction.
Qed.

Lemma last_seg_incl b x : In x (last_seg b) -> In x b.
Proof.
  destruct (slash_decomp b) as [Hb|[p [r [-> Hr]]]].
  - rewrite (last_seg_nosep b Hb). exact (fun H => H).
  - rewrite last_seg_app_slash, (last_seg_nosep r Hr). intros H. apply in_or_app. right. right. exact H.
Qed.

(* "/" ++ r is a suffix of c: the last segments coincide *)
Lemma suffix_last_seg r c : is_suffix (slash :: r) c = true -> last_seg c = last_seg r.
Proof. intros H. apply is_suffix_spec in H as [p ->]. apply last_seg_app_slash. Qed.

(* ---- simple names: the only '.' is the one of the final ".lua" ---- *)
Lemma lua_ext_no_slash : ~ In slash lua_ext.
Proof. unfold lua_ext, slash. simpl. intros [H|[H|[H|[H|[]]]]]; discriminate. Qed.

Lemma simple_lua_spec g : simple_lua g = true <-> exists b, g = b ++ lua_ext /\ ~ In dot b.
Proof.
  unfold simple_lua. split.
  - destruct (index_byte dot g) as [i|] eqn:E; [|discriminate]. intros H. apply beq_bytes_eq in H.
    destruct (index_byte_some _ _ _ E) as [Hn _].
    exists (firstn i g). split; [|exact Hn]. rewrite <- H. symmetry. apply firstn_skipn.
  - intros [b [-> Hb]]. unfold lua_ext at 1. change (b ++ [46%N; 108%N; 117%N; 97%N]) with (b ++ dot :: [108%N; 117%N; 97%N]).
    rewrite (index_byte_app dot b _ Hb).
    rewrite skipn_app, skipn_all, Nat.sub_diag. reflexivity.
Qed.

Lemma simple_pre b : ~ In dot b -> complete_pre (b ++ lua_ext) = b.
Proof.
  intros Hb. unfold complete_pre, lua_ext. change (b ++ [46%N; 108%N; 117%N; 97%N]) with (b ++ dot :: [108%N; 117%N; 97%N]).
  rewrite (index_byte_app dot b _ Hb). rewrite firstn_app, firstn_all, Nat.sub_diag. simpl. apply app_nil_r.
Qed.

Lemma simple_name_dot b : ~ In dot b ->
  index_byte dot (last_seg (b ++ lua_ext)) = Some (length (last_seg b)) /\
  firstn (length (last_seg b)) (last_seg (b ++ lua_ext)) = last_seg b.
Proof.
  intros Hb. rewrite (last_seg_app_nosep b lua_ext lua_ext_no_slash).
  assert (~ In dot (last_seg b)) as Hl by (intros H; apply Hb; apply last_seg_incl; exact H).
  unfold lua_ext. change (last_seg b ++ [46%N; 108%N; 117%N; 97%N]) with (last_seg b ++ dot :: [108%N; 117%N; 97%N]).
  split; [apply index_byte_app; exact Hl|].
  rewrite firstn_app, firstn_all, Nat.sub_diag. simpl. apply app_nil_r.
Qed.

(* ---- the Lua suffix of a name (FileIndex.suffix_index), for either variant of the code ----
   good_lua sfx g: g is a file whose module name the variant sfx computes as "g without .lua":
     before fixes/C18-dotted-path.diff only a path whose ONLY '.' is the one of the final ".lua";
     after it every path that ends in ".lua" *)
Definition good_lua (sfx : bool) (g : list N) : bool := if sfx then is_suffix lua_ext g else simple_lua g.

Lemma firstn_app_exact {A} (x y : list A) : firstn (length x) (x ++ y) = x.
Proof. rewrite firstn_app, firstn_all, Nat.sub_diag. simpl. apply app_nil_r. Qed.

Lemma lua_suffix_index x : suffix_index true (x ++ lua_ext) = Some (length x).
Proof.
  unfold suffix_index.
  assert (is_suffix lua_ext (x ++ lua_ext) = true) as -> by (apply is_suffix_spec; exists x; reflexivity).
  rewrite app_length. f_equal. unfold lua_ext. simpl. lia.
Qed.

Lemma lua_pre b : complete_pre_fx true (b ++ lua_ext) = b.
Proof. unfold complete_pre_fx. rewrite lua_suffix_index. apply firstn_app_exact. Qed.

Lemma good_lua_spec sfx g : good_lua sfx g = true ->
  exists b, g = b ++ lua_ext /\
    suffix_index sfx (last_seg g) = Some (length (last_seg b)) /\
    firstn (length (last_seg b)) (last_seg g) = last_seg b /\
    complete_pre_fx sfx g = b.
Proof.
  destruct sfx; cbn [good_lua]; intros H.
  - apply is_suffix_spec in H as [b ->]. exists b. split; [reflexivity|].
    rewrite (last_seg_app_nosep b lua_ext lua_ext_no_slash).
    split; [apply lua_suffix_index|]. split; [apply firstn_app_exact|apply lua_pre].
  - apply simple_lua_spec in H as [b [-> Hb]]. exists b. split; [reflexivity|].
    destruct (simple_name_dot b Hb) as [Hi Hf]. split; [exact Hi|]. split; [exact Hf|].
    exact (simple_pre b Hb).
Qed.

Lemma good_lua_ends sfx g : good_lua sfx g = true -> is_suffix lua_ext g = true.
Proof.
  intros H. destruct (good_lua_spec sfx g H) as [b [-> _]]. apply is_suffix_spec. exists b. reflexivity.
Qed.
