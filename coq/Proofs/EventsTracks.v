(* C08 - the weak invariant for ALL histories (any actions, raw events included, any analysis, any fix flags):
   the client's list for a file is always the live list, the saved list, or the saved list without its syntax errors. *)
From Coq Require Import List NArith Bool Lia.
From LH Require Import Model.Diag Model.Events Proofs.DiagProofs.
Import ListNotations.
Local Open Scope N_scope.

Section Tracks.
  Variable A : analysis.
  Variable fx : fixes.
  Local Notation txt := (text A).

  Lemma push_again_eq (s : server A) p :
    push_again A fx s p =
    ({| pj := p; cache := cache s; ds := fst (push_all_again (fix12a fx) (fix_unhidden fx) (ds s) (all_errs A p)) |},
     snd (push_all_again (fix12a fx) (fix_unhidden fx) (ds s) (all_errs A p))).
  Proof. unfold push_again. destruct (push_all_again (fix12a fx) (fix_unhidden fx) (ds s) (all_errs A p)). reflexivity. Qed.

  Lemma push_again_tracks s p v :
    tracks (ds s) v -> tracks (ds (fst (push_again A fx s p))) (vapply v (snd (push_again A fx s p))).
  Proof. intros H. rewrite push_again_eq. cbn [fst snd ds]. apply tracks_push_all_again. exact H. Qed.

  Lemma did_open_base_tracks dk s f t v :
    tracks (ds s) v -> tracks (ds (fst (did_open_base A fx dk s f t))) (vapply v (snd (did_open_base A fx dk s f t))).
  Proof.
    intros H. unfold did_open_base.
    set (p0 := set_lru A (pj s) (frem f (p_lru (pj s)))).
    set (s0 := {| pj := p0; cache := aset (cache s) f t; ds := unmark_clean (ds s) f |}).
    assert (H0 : tracks (ds s0) v) by exact H.
    destruct (if fmem f (p_files p0) then (s0, [])
              else let '(p1, chg) := handle_events A fx dk p0 [(f, KCreated)] in
                   if chg then push_again A fx s0 p1 else ({| pj := p1; cache := cache s0; ds := ds s0 |}, []))
      as [s1 ps1] eqn:E1.
    assert (H1 : tracks (ds s1) (vapply v ps1)).
    { destruct (fmem f (p_files p0)).
      - injection E1 as <- <-. exact H0.
      - destruct (handle_events A fx dk p0 [(f, KCreated)]) as [p1 chg]. destruct chg.
        + pose proof (push_again_tracks s0 p1 v H0) as HH. rewrite E1 in HH. exact HH.
        + injection E1 as <- <-. exact H0. }
    destruct (clear_change (ds s1) f) as [d2 ps2] eqn:E2. cbn [fst snd ds].
    rewrite vapply_app. pose proof (tracks_clear_change (ds s1) f (vapply v ps1) H1) as HH. rewrite E2 in HH. exact HH.
  Qed.

  Lemma analyse_buffer_tracks s f t v :
    tracks (ds s) v -> tracks (ds (fst (analyse_buffer A s f t))) (vapply v (snd (analyse_buffer A s f t))).
  Proof.
    intros H. unfold analyse_buffer.
    destruct (is_nil (syn A t)).
    - destruct (clear_change (ds s) f) as [d1 ps1] eqn:E1. cbn [fst snd ds]. rewrite vapply_app.
      apply tracks_set_clean. apply tracks_clear_syntax. pose proof (tracks_clear_change (ds s) f v H) as HH. rewrite E1 in HH. exact HH.
    - destruct (insert_change (ds s) f (syn A t)) as [d1 ps1] eqn:E1. cbn [fst snd ds].
      pose proof (tracks_insert_change (ds s) f (syn A t) v H) as HH. rewrite E1 in HH. exact HH.
  Qed.

  Lemma did_change_tracks s f t v :
    tracks (ds s) v -> tracks (ds (fst (did_change A s f t))) (vapply v (snd (did_change A s f t))).
  Proof.
    intros H. unfold did_change. destruct (aget (cache s) f); [|exact H]. apply analyse_buffer_tracks. exact H.
  Qed.

  Lemma did_open_tracks dk s f t v :
    tracks (ds s) v -> tracks (ds (fst (did_open A fx dk s f t))) (vapply v (snd (did_open A fx dk s f t))).
  Proof.
    intros H. unfold did_open. pose proof (did_open_base_tracks dk s f t v H) as H1.
    destruct (did_open_base A fx dk s f t) as [s2 ps]. cbn [fst snd] in H1.
    destruct (fix_didopen fx && open_differs A dk f t); [|exact H1].
    pose proof (analyse_buffer_tracks s2 f t (vapply v ps) H1) as H2.
    destruct (analyse_buffer A s2 f t) as [s3 ps3]. cbn [fst snd] in *. rewrite vapply_app. exact H2.
  Qed.

  Lemma did_save_tracks dk s f t v :
    tracks (ds s) v -> tracks (ds (fst (did_save A fx dk s f t))) (vapply v (snd (did_save A fx dk s f t))).
  Proof.
    intros H. unfold did_save.
    set (s0 := {| pj := pj s; cache := aset (cache s) f t; ds := ds s |}).
    assert (H0 : tracks (ds s0) v) by exact H.
    destruct (handle_events A fx dk (pj s0) [(f, KChanged)]) as [p1 chg].
    destruct (if chg then push_again A fx s0 p1 else ({| pj := p1; cache := cache s0; ds := ds s0 |}, [])) as [s1 ps1] eqn:E1.
    assert (H1 : tracks (ds s1) (vapply v ps1)).
    { destruct chg.
      - pose proof (push_again_tracks s0 p1 v H0) as HH. rewrite E1 in HH. exact HH.
      - injection E1 as <- <-. exact H0. }
    destruct (save_push_again (ds s1) f) as [d2 ps2] eqn:E2. cbn [fst snd ds]. rewrite vapply_app.
    pose proof (tracks_save_push_again (ds s1) f (vapply v ps1) H1) as HH. rewrite E2 in HH. exact HH.
  Qed.

  Lemma did_close_tracks dk s f v :
    tracks (ds s) v -> tracks (ds (fst (did_close A fx dk s f))) (vapply v (snd (did_close A fx dk s f))).
  Proof.
    intros H. unfold did_close.
    destruct (clear_change (ds s) f) as [d0 ps1] eqn:E1.
    pose proof (tracks_clear_change (ds s) f v H) as H1. rewrite E1 in H1. cbn [fst snd] in H1.
    apply (tracks_set_clean _ (frem f (clean d0))) in H1. fold (unmark_clean d0 f) in H1.
    set (d1 := unmark_clean d0 f) in *.
    assert (H2 : tracks d1 (vapply v (ps1 ++ (if fix12b fx then push_file_diag d1 f false else [])))).
    { rewrite vapply_app. destruct (fix12b fx); [apply tracks_push_file_diag_full; exact H1|exact H1]. }
    assert (H3 : tracks (remove_saved d1 f) (vapply v ((ps1 ++ (if fix12b fx then push_file_diag d1 f false else [])) ++ clear_one f))).
    { rewrite vapply_app. apply tracks_remove_saved. exact H2. }
    destruct (in_dir A f); cbn [fst snd ds]; [exact H2|].
    destruct (fix_outside fx); cbn [fst snd ds]; [|rewrite app_assoc; exact H3].
    set (p0 := set_lru A (pj s) (frem f (p_lru (pj s)))).
    set (s2 := {| pj := p0; cache := adel (cache s) f; ds := remove_saved d1 f |}).
    destruct (handle_events A fx dk p0 [(f, KDeleted)]) as [p1 chg]. destruct chg.
    - pose proof (push_again_tracks s2 p1 _ H3) as HH. destruct (push_again A fx s2 p1) as [s3 ps3]. cbn [fst snd] in *.
      rewrite <- vapply_app, <- !app_assoc in HH. exact HH.
    - cbn [fst snd ds s2]. rewrite app_assoc. exact H3.
  Qed.

  Lemma clear_fold_tracks evs d ps v :
    tracks d (vapply v ps) ->
    let r := fold_left (fun (dp : dstate * list publish) (ev : file * kind) =>
                          let '(d', ps') := clear_change (fst dp) (fst ev) in (d', snd dp ++ ps')) evs (d, ps) in
    tracks (fst r) (vapply v (snd r)).
  Proof.
    revert d ps. induction evs as [|ev evs IH]; intros d ps H; [exact H|].
    cbn [fold_left fst snd]. destruct (clear_change d (fst ev)) as [d' ps'] eqn:E. apply IH.
    rewrite vapply_app. pose proof (tracks_clear_change d (fst ev) (vapply v ps) H) as HH. rewrite E in HH. exact HH.
  Qed.

  Lemma did_watched_tracks dk s evs v :
    tracks (ds s) v -> tracks (ds (fst (did_watched A fx dk s evs))) (vapply v (snd (did_watched A fx dk s evs))).
  Proof.
    intros H. unfold did_watched.
    assert (H1 : let r := if fix_watched fx then (ds s, [])
                          else fold_left (fun (dp : dstate * list publish) (ev : file * kind) =>
                                 let '(d', ps') := clear_change (fst dp) (fst ev) in (d', snd dp ++ ps')) evs (ds s, []) in
                 tracks (fst r) (vapply v (snd r))).
    { destruct (fix_watched fx); [exact H|]. exact (clear_fold_tracks evs (ds s) [] v H). }
    cbn zeta in H1.
    destruct (if fix_watched fx then (ds s, [])
              else fold_left (fun (dp : dstate * list publish) (ev : file * kind) =>
                let '(d', ps') := clear_change (fst dp) (fst ev) in (d', snd dp ++ ps')) evs (ds s, [])) as [d1 ps1].
    cbn [fst snd] in H1. destruct (is_nil evs); [exact H1|].
    set (s1 := {| pj := pj s; cache := cache s; ds := d1 |}).
    change (pj s1) with (pj s). destruct (handle_events A fx dk (pj s) evs) as [p1 chg]. destruct chg.
    - destruct (push_again A fx s1 p1) as [s2 ps2] eqn:E2. cbn [fst snd]. rewrite vapply_app.
      pose proof (push_again_tracks s1 p1 (vapply v ps1) H1) as HH. rewrite E2 in HH. exact HH.
    - exact H1.
  Qed.

  Lemma step_tracks w e v :
    tracks (ds (sv w)) v -> tracks (ds (sv (fst (step A fx w e)))) (vapply v (snd (step A fx w e))).
  Proof.
    intros H. destruct e as [f t|f|f t|f t|f t|f|l]; cbn [step].
    - exact H.
    - exact H.
    - pose proof (did_open_tracks (disk w) (sv w) f t v H) as HH. destruct (did_open A fx (disk w) (sv w) f t). exact HH.
    - pose proof (did_change_tracks (sv w) f t v H) as HH. destruct (did_change A (sv w) f t). exact HH.
    - pose proof (did_save_tracks (disk w) (sv w) f t v H) as HH. destruct (did_save A fx (disk w) (sv w) f t). exact HH.
    - pose proof (did_close_tracks (disk w) (sv w) f v H) as HH. destruct (did_close A fx (disk w) (sv w) f). exact HH.
    - pose proof (did_watched_tracks (disk w) (sv w) l v H) as HH. destruct (did_watched A fx (disk w) (sv w) l). exact HH.
  Qed.

  Lemma steps_tracks es : forall w ps0 v,
    tracks (ds (sv w)) (vapply v ps0) ->
    let r := fold_left (fun (wp : world A * list publish) e => let '(w', ps) := step A fx (fst wp) e in (w', snd wp ++ ps))
                       es (w, ps0) in
    tracks (ds (sv (fst r))) (vapply v (snd r)).
  Proof.
    induction es as [|e es IH]; intros w ps0 v H; [exact H|].
    cbn [fold_left fst snd]. pose proof (step_tracks w e (vapply v ps0) H) as HH.
    destruct (step A fx w e) as [w' ps]. apply IH. rewrite vapply_app. exact HH.
  Qed.

  Lemma steps_tracks' w es v :
    tracks (ds (sv w)) v -> tracks (ds (sv (fst (steps A fx w es)))) (vapply v (snd (steps A fx w es))).
  Proof. intros H. apply (steps_tracks es w [] v). exact H. Qed.

  Lemma set_editor_sv (w : world A) b d : sv (set_editor A w b d) = sv w.
  Proof. reflexivity. Qed.

  Lemma act_tracks w a v :
    tracks (ds (sv w)) v -> tracks (ds (sv (fst (act A fx w a)))) (vapply v (snd (act A fx w a))).
  Proof.
    intros H. destruct a as [f|f t|f|f|l|e|f t]; cbn [act].
    - destruct (aget (disk w) f); [|exact H]. destruct (aget (ebuf w) f); [exact H|]. apply steps_tracks'. exact H.
    - destruct (aget (ebuf w) f); [|exact H]. apply steps_tracks'. exact H.
    - destruct (aget (ebuf w) f); [|exact H]. apply steps_tracks'. exact H.
    - destruct (aget (ebuf w) f); [|exact H]. apply steps_tracks'. exact H.
    - apply steps_tracks'. exact H.
    - apply step_tracks. exact H.
    - destruct (aget (disk w) f); [|exact H]. destruct (aget (ebuf w) f); [exact H|]. apply steps_tracks'. exact H.
  Qed.

  Lemma run_from_tracks h : forall w ps0,
    tracks (ds (sv w)) (vapply [] ps0) ->
    tracks (ds (sv (fst (run_from A fx (w, ps0) h)))) (vapply [] (snd (run_from A fx (w, ps0) h))).
  Proof.
    induction h as [|a h IH]; intros w ps0 H; [exact H|].
    unfold run_from. cbn [fold_left fst snd]. pose proof (act_tracks w a (vapply [] ps0) H) as HH.
    destruct (act A fx w a) as [w' ps]. apply IH. rewrite vapply_app. exact HH.
  Qed.

  (* T1 (C08_view_tracks_maps): for every initial disk and every history *)
  Theorem view_tracks_maps (dk : amap txt) (h : list (action A)) (f : file) :
    let '(w, ps) := run A fx dk h in
    let d := ds (sv w) in
    view ps f = vget (live d) f \/ view ps f = vget (saved d) f \/ view ps f = nonsyn (vget (saved d) f).
  Proof.
    unfold run, init_world, init_server.
    pose proof (run_from_tracks h
      {| disk := dk; sv := {| pj := init_proj A fx dk; cache := []; ds := {| saved := all_errs A (init_proj A fx dk); live := []; clean := [] |} |};
         ebuf := []; dirty := [] |} (push_all_init (all_errs A (init_proj A fx dk)))) as H.
    cbn [sv ds] in H. specialize (H (tracks_init _)).
    destruct (run_from A fx _ h) as [w ps]. exact (H f).
  Qed.
End Tracks.
