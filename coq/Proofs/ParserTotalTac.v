(* C01, Lua parser model: proof automation for the progress lemmas (head-driven symbolic execution of one unfolding). *)
From Coq Require Import List NArith ZArith Bool Arith Lia ZifyNat.
From LH Require Import Base.Bytes Base.Res Model.Lexer Model.Ast Model.Parser.
From LH Require Import Proofs.LexerTotalWf Proofs.ParserTotalBase.
Import ListNotations.
Set Default Proof Using "Type".

Lemma okp_weaken {A} (c c' : Prop) (r : Res (A * pst)) st1 st :
  okp c r st1 -> m st1 <= m st -> (c' -> m st1 < m st \/ c) -> okp c' r st.
Proof.
  intros (a & st' & E & Hw & Hm & Hs) Hle Hc. exists a, st'. split; [exact E|]. split; [exact Hw|]. split; [lia|].
  intros H. destruct (Hc H) as [Hlt|Hcc]; [lia|]. specialize (Hs Hcc). lia.
Qed.

(* remove [if]s and matches on variables stuck inside state expressions *)
Ltac unstick :=
  repeat match goal with
         | |- context [if ?b then _ else _] => destruct b eqn:?
         | |- context [match ?v with _ => _ end] => is_var v; destruct v
         | H : m _ <= m ?t |- _ =>
           match t with
           | context [if ?b then _ else _] => destruct b eqn:?
           | context [match ?v with _ => _ end] => is_var v; destruct v
           end
         end.

(* the induction hypotheses are not needed (and slow every rewrite ... in * down) once a leaf goal is reached *)
Ltac clr := repeat match goal with H : context [okp] |- _ => clear H end.

Ltac wf0 := repeat first [assumption | apply wfst_next | apply wfst_expect | apply wfst_err].
Ltac wf := unstick; wf0.

Ltac la_norm :=
  repeat match goal with
         | H : tk_eqb _ _ = true |- _ => apply tk_eqb_true in H
         end.

(* goal: la s <> TkEOF, from a test on [la s] among the hypotheses *)
Ltac ne_eof :=
  first [ assumption
        | let Hx := fresh "Hx" in
          intro Hx; rewrite ?la_expect, ?la_err in *; rewrite Hx in *;
          repeat match goal with
                 | H : ?l = ?r |- _ =>
                   lazymatch H with Hx => fail | _ => idtac end;
                   lazymatch type of H with context [TkEOF] => progress vm_compute in H end
                 end;
          congruence ].

(* collect the facts relating the measures of all states mentioned: m (next s) <= m s (strict when the look-ahead of
   s is known not to be EOF), m (expect k s) = m (next s), m (err e s) = m s *)
Ltac mfact_next s :=
  lazymatch goal with
  | _ : m (next s) <= m s |- _ => fail
  | _ => pose proof (m_next_le s);
         try (assert (m (next s) < m s) by (apply m_next_lt; [wf | ne_eof]))
  end.
Ltac mfact_expect k s :=
  lazymatch goal with
  | _ : m (expect k s) = m (next s) |- _ => fail
  | _ => pose proof (m_expect k s)
  end.
Ltac mfact_err e s :=
  lazymatch goal with
  | _ : m (err e s) = m s |- _ => fail
  | _ => pose proof (m_err e s)
  end.
Ltac mfacts :=
  repeat match goal with
         | |- context [expect ?k ?s] => mfact_expect k s
         | H : context [expect ?k ?s] |- _ => mfact_expect k s
         | |- context [err ?e ?s] => mfact_err e s
         | H : context [err ?e ?s] |- _ => mfact_err e s
         | |- context [next ?s] => mfact_next s
         | H : context [next ?s] |- _ => mfact_next s
         end.

Ltac fuel0 := clr; mfacts; lia.
Ltac fuel := unstick; fuel0.

(* strictness facts of earlier calls that wait for the caller's own condition *)
Ltac respec :=
  repeat match goal with
         | H : (la ?s <> TkEOF) -> _ |- _ => first [ specialize (H ltac:(ne_eof)) | clear H ]
         end.

Ltac finish0 :=
  clr; unfold okp; eexists; eexists; split; [reflexivity|]; split; [wf|];
  split; [mfacts; lia | let Hc := fresh "Hc" in intro Hc; first [exfalso; exact Hc | respec; mfacts; lia]].
Ltac finish := unstick; finish0.

Ltac spec_strict Hs :=
  lazymatch type of Hs with
  | False -> _ => clear Hs
  | True -> _ => specialize (Hs I)
  | (la ?s <> TkEOF) -> _ => try specialize (Hs ltac:(ne_eof))
  | _ => idtac
  end.

Ltac side :=
  lazymatch goal with
  | |- wfst _ => wf
  | |- _ <= _ => fuel
  | |- la _ = _ => first [assumption | apply exp0_start_table; assumption]
  | |- _ => idtac
  end.

Ltac innermost x k := lazymatch x with | match ?y with _ => _ end => innermost y k | _ => k x end.

Lemma local_attr_ok st a st' : p_local_attr st = (a, st') -> wfst st -> wfst st' /\ m st' <= m st.
Proof.
  unfold p_local_attr. intros H Hw.
  repeat match type of H with context [if ?b then _ else _] => destruct b end;
    injection H as <- <-; (split; [wf|mfacts; lia]).
Qed.
