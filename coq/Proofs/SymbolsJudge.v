(* C19 - executable link between the model's outline and the reference declaration list:
   entries of an outline as the spec sees them, the verdict per declaration, and the class (cause) of every
   deviation. The classes mirror the negated guards of the theorems in Properties/C19.v. *)
From Coq Require Import List NArith ZArith Bool.
From LH Require Import Base.Bytes Base.Res Model.Lexer Model.Ast Model.Parser Model.LuaFront Model.Symbols Spec.SymbolSpec.
Import ListNotations.

Definition entries_of (ss : list sym) : list entry :=
  flat_map (fun s => mkE (s_local s) false (s_key s) (s_loc s) ::
                     map (fun c => mkE (s_local s) true (c_key c) (c_loc c)) (s_children s)) ss.

Inductive cls := ClsRewrite | ClsShadowed | ClsAssignedFunc | ClsMemberLost | ClsMemberUndeclared | ClsForeign | ClsUnexplained
                 | ClsMemberDepth2 | ClsWsRedeclared | ClsWsNested | ClsWsGMember.

Definition count_local (n : bytes) (ds : list decl) : nat :=
  length (filter (fun d => match d_kind d with DLocal => beq_bytes (d_key d) n | _ => false end) ds).

(* is there an entry that stems from this declaration (VarInfo.Loc is one of its identifiers), is a function, and
   whose range (the function literal) misses the identifier *)
Definition assigned_func_entry (d : decl) (ss : list sym) : bool :=
  existsb (fun s =>
             match d_kind d with
             | DFunc => existsb (fun c => beq_bytes (c_key c) (d_key d) && c_fn c && existsb (loc_eqb (c_decl c)) (d_locs d)
                                           && negb (contains (c_loc c) (c_decl c))) (s_children s)
             | DLocal => s_local s && beq_bytes (s_key s) (d_key d) && s_fn s && existsb (loc_eqb (s_decl s)) (d_locs d)
                         && negb (contains (s_loc s) (s_decl s))
             | DGlobal => negb (s_local s) && beq_bytes (s_key s) (d_key d) && s_fn s && existsb (loc_eqb (s_decl s)) (d_locs d)
                          && negb (contains (s_loc s) (s_decl s))
             | DLocalFn => false
             end) ss.

Definition is_covered (v : verdict) : bool := match v with Covered => true | _ => false end.

(* ---------------------------------------------------------------------- exact classes of the OPEN findings
   member_depth2: a function-valued member below the first level (`function N.sub.h`, `N = { sub = { f = function } }`):
   neither answer descends below the members of a variable. *)
Definition member_depth (key : bytes) : nat := count_dots key.
Definition cls_depth2 (d : decl) : bool :=
  match d_kind d with DFunc => Nat.leb 2 (member_depth (d_key d)) | _ => false end.

(* weighted count of the places where the file binds the name b as a whole, at any depth, whatever the scoping
   (fuel: nesting depth): wl for `local b` / `local function b`, wp for a parameter / loop variable b,
   wa for `b = ...` / `function b() end` / `_G.b = ...`, wg for a member target through the table of globals `_G.b.k... = ` *)
Section Defs.
  Variable wl wp wa wg : nat.
  Variable b : bytes.
  Definition hit (w : nat) (nm : bytes) : nat := if beq_bytes nm b then w else 0.
  Definition hits (w : nat) (nms : list bytes) : nat := fold_right (fun nm a => hit w nm + a) 0 nms.

  Fixpoint defs_exp (n : nat) (e : exp) {struct n} : nat :=
    match n with
    | O => 0
    | S n' =>
      match e with
      | EUnop _ e1 _ | EParens e1 _ => defs_exp n' e1
      | EBinop _ e1 e2 _ | EIndex e1 e2 _ => defs_exp n' e1 + defs_exp n' e2
      | ETable ks vs _ =>
        fold_right (fun k a => match k with Some ke => defs_exp n' ke | None => 0 end + a) 0 ks +
        fold_right (fun v a => defs_exp n' v + a) 0 vs
      | EFunc _ _ pars _ bl _ _ _ => hits wp pars + defs_block n' bl
      | ECall p _ args _ => defs_exp n' p + fold_right (fun v a => defs_exp n' v + a) 0 args
      | _ => 0
      end
    end
  with defs_stat (n : nat) (s : stat) {struct n} : nat :=
    match n with
    | O => 0
    | S n' =>
      let ex := defs_exp n' in
      let sum := fold_right (fun v a => ex v + a) 0 in
      match s with
      | SBreak | SLabel _ _ | SGoto _ _ => 0
      | SDo bl _ => defs_block n' bl
      | SCall e => ex e
      | SIf es bs _ => sum es + fold_right (fun bl a => defs_block n' bl + a) 0 bs
      | SWhile e bl _ | SRepeat bl e _ => ex e + defs_block n' bl
      | SForNum nm _ e1 e2 e3 bl _ => hit wp nm + ex e1 + ex e2 + ex e3 + defs_block n' bl
      | SForIn nms _ es bl _ => hits wp nms + sum es + defs_block n' bl
      | SAssign vars es _ =>
        fold_right (fun t a => (match target_path t with
                                | Some (nm, []) => hit wa nm
                                | Some (g, [(k, _)]) => if beq_bytes g SymbolSpec.s_G then hit wa k else 0
                                | Some (g, (k, _) :: _ :: _) => if beq_bytes g SymbolSpec.s_G then hit wg k else 0
                                | None => ex t
                                end) + a) 0 vars + sum es
      | SLocal nms _ _ es _ => hits wl nms + sum es
      | SLocalFunc nm _ f _ => hit wl nm + ex f
      end
    end
  with defs_block (n : nat) (bl : block) {struct n} : nat :=
    match n with
    | O => 0
    | S n' =>
      match bl with
      | Block ss ret _ =>
        fold_right (fun s a => defs_stat n' s + a) 0 ss +
        match ret with Some es => fold_right (fun v a => defs_exp n' v + a) 0 es | None => 0 end
      end
    end.
End Defs.

(* member_lost, first-level member b.k with no child entry located at one of its function definitions, in one of the
   three shapes:
   (a) an entry named b is function-valued (function entries never get children);
   (c) there IS a child entry b.k, located at another (earlier, non-function) definition of the key: first definition wins;
   (d) b is bound as a whole more than once in the file (a later definition / re-assignment of the variable replaces
       or keeps the member table of an earlier one);
   (e) the member is defined through the table of globals, `_G.b.k = ...`, while the file also binds b as a local,
       parameter or loop variable (the use of `_G.b` is not recorded when such a local is in scope). *)
Definition shape_fn_base (b : bytes) (ss : list sym) : bool := existsb (fun s => beq_bytes (s_key s) b && s_fn s) ss.
Definition shape_key_taken (d : decl) (ss : list sym) : bool :=
  existsb (fun s => existsb (fun c => beq_bytes (c_key c) (d_key d) && negb (existsb (loc_eqb (c_decl c)) (d_locs d)))
                            (s_children s)) ss.
Definition shape_rebound (fuel : nat) (blk : block) (b : bytes) : bool := Nat.leb 2 (defs_block 1 0 1 0 b fuel blk).
Definition shape_G_shadowed (fuel : nat) (blk : block) (b : bytes) : bool :=
  Nat.leb 1 (defs_block 1 1 0 0 b fuel blk) && Nat.leb 1 (defs_block 0 0 0 1 b fuel blk).

Section Judge.
  Variable lens : list Z.
  Variable st : state.
  Variable ds : list decl.
  Variable foreign : list bytes.     (* Symbols.foreign_globals of this file *)
  Variable fuel : nat.
  Variable blk : block.              (* the file's AST (for shape_rebound) *)

  Definition base_of (d : decl) : bytes :=
    match d_kind d with
    | DFunc => hd [] (split_dot (d_key d))
    | _ => d_key d
    end.

  Definition out (fx : fixes) : list sym := find_all_symbol fx st.

  Definition base_declared (d : decl) : bool :=
    existsb (fun d0 => match d_kind d0 with DFunc | DLocalFn => false | _ => beq_bytes (d_key d0) (base_of d) end) ds.

  (* the exact class member_lost (first-level members only) *)
  Definition cls_member_lost (fx : fixes) (d : decl) : bool :=
    match d_kind d with
    | DFunc => negb (cls_depth2 d) &&
               (shape_fn_base (base_of d) (out fx) || shape_key_taken d (out fx) || shape_rebound fuel blk (base_of d)
                || shape_G_shadowed fuel blk (base_of d))
    | _ => false
    end.

  (* the cause of a deviation of variant fx: covered by the fully repaired outline = one of the repaired defects
     (which one: the tests below, in this order), otherwise one of the defects that are still open - each with an
     exact predicate; a deviation that fits none is ClsUnexplained (never an open class: VIOLATION) *)
  Definition explain (fx : fixes) (d : decl) : cls :=
    if is_covered (judge_decl lens (entries_of (out fx_all)) d) then
      if (match d_kind d with DLocal => Nat.ltb 1 (count_local (d_key d) ds) | _ => false end) then ClsShadowed
      else if assigned_func_entry d (out fx) then ClsAssignedFunc
      else if (match d_kind d with DFunc => negb (base_declared d) | _ => false end) then ClsMemberUndeclared
      else ClsRewrite
    else if (match d_kind d with DLocal => false | _ => existsb (beq_bytes (base_of d)) foreign end) then ClsForeign
    else match d_kind d with
         | DFunc =>
           if cls_depth2 d then ClsMemberDepth2
           else if negb (base_declared d || fx_undecl fx) then ClsMemberUndeclared
           else if cls_member_lost fx d then ClsMemberLost
           else ClsUnexplained
         | _ => ClsUnexplained
         end.

  (* verdict of the outline of variant fx, with the cause of each deviation *)
  Definition judge_all (fx : fixes) : list (decl * verdict * option cls) :=
    flat_map (fun d => if outline_demand d then
                         let v := judge_decl lens (entries_of (out fx)) d in
                         [(d, v, if is_covered v then None else Some (explain fx d))]
                       else []) ds.

  (* the cause of a declaration that the workspace/symbol answer of variant fx misses *)
  Definition explain_ws (fx : fixes) (d : decl) : cls :=
    match d_kind d with
    | DFunc =>
      if cls_depth2 d then ClsMemberDepth2
      else if negb (base_declared d || fx_undecl fx) then ClsMemberUndeclared
      else if negb (fx_wsgmem fx) &&
              existsb (fun kv => beq_bytes (fst kv) (base_of d) && v_gflag (snd kv)) (globs st) then ClsWsGMember
      else if cls_member_lost fx d then ClsMemberLost
      else ClsUnexplained
    | DLocalFn =>
      if negb (fx_wsdecl fx) && Nat.ltb 1 (length (filter (fun d0 => match d_kind d0 with
                                                                     | DLocalFn | DLocal => beq_bytes (d_key d0) (d_key d)
                                                                     | _ => false end) ds)) then ClsWsRedeclared
      else if negb (fx_wsnested fx) then ClsWsNested
      else ClsUnexplained
    | _ => ClsUnexplained
    end.
End Judge.

(* workspace/symbol: every file's DGlobal / DFunc declaration named q must be answered *)
Definition wentries_of (file : nat) (ws : list wsym) : list wentry :=
  map (fun w => mkWE file (w_name w) (w_loc w)) ws.

Definition ws_judge (q : bytes) (per_file : list (nat * list decl)) (ans : list wentry) : list (nat * decl * bool) :=
  flat_map (fun fd =>
              flat_map (fun d => match d_kind d with
                                 | DLocal => []
                                 | _ => if beq_bytes (d_key d) q then [(fst fd, d, ws_covers (fst fd) d ans)] else []    (* DGlobal, DFunc, DLocalFn *)
                                 end) (snd fd)) per_file.

(* ------------------------------------------------------------------ fragment *)
(* what the deciding leg may contain: no `self` as the base of an assignment target, no assignment to `_G` itself, no `local` statement
   with a function literal in its second or a later value (LuaHelper adds the first name before it analyses the
   later values, so an assignment to that name inside such a function is taken for an assignment to the local). *)

Fixpoint target_base (e : exp) : option bytes :=
  match e with
  | EName n _ => Some n
  | EIndex p _ _ => target_base p
  | EParens p _ => target_base p
  | _ => None
  end.

(* `_G.a...` targets are modelled; a bare `_G = v` and `self` are not *)
Definition bad_target (e : exp) : bool :=
  match target_base e with
  | Some n => (beq_bytes n Symbols.s_G && match e with EName _ _ => true | _ => false end) || beq_bytes n s_self
  | None => match e with EIndex _ _ _ => true | _ => false end      (* call / string / ... prefix *)
  end.

Fixpoint has_func (n : nat) (e : exp) {struct n} : bool :=
  match n with
  | O => true
  | S n' =>
    match e with
    | EFunc _ _ _ _ _ _ _ _ => true
    | EUnop _ e1 _ | EParens e1 _ => has_func n' e1
    | EBinop _ e1 e2 _ | EIndex e1 e2 _ => has_func n' e1 || has_func n' e2
    | ETable ks vs _ => existsb (fun k => match k with Some ke => has_func n' ke | None => false end) ks || existsb (has_func n') vs
    | ECall p _ args _ => has_func n' p || existsb (has_func n') args
    | _ => false
    end
  end.

Fixpoint frag_exp (n : nat) (e : exp) {struct n} : bool :=
  match n with
  | O => false
  | S n' =>
    match e with
    | EBad _ => false
    | EUnop _ e1 _ | EParens e1 _ => frag_exp n' e1
    | EBinop _ e1 e2 _ | EIndex e1 e2 _ => frag_exp n' e1 && frag_exp n' e2
    | ETable ks vs _ => forallb (fun k => match k with Some ke => frag_exp n' ke | None => true end) ks && forallb (frag_exp n') vs
    | EFunc _ _ _ _ b _ _ _ => frag_block n' b
    | ECall p _ args _ => frag_exp n' p && forallb (frag_exp n') args
    | _ => true
    end
  end
with frag_stat (n : nat) (s : stat) {struct n} : bool :=
  match n with
  | O => false
  | S n' =>
    match s with
    | SBreak | SLabel _ _ | SGoto _ _ => true
    | SDo b _ => frag_block n' b
    | SCall e => frag_exp n' e
    | SIf es bs _ => forallb (frag_exp n') es && forallb (frag_block n') bs
    | SWhile e b _ | SRepeat b e _ => frag_exp n' e && frag_block n' b
    | SForNum _ _ e1 e2 e3 b _ => frag_exp n' e1 && frag_exp n' e2 && frag_exp n' e3 && frag_block n' b
    | SForIn _ _ es b _ => forallb (frag_exp n') es && frag_block n' b
    | SAssign vars es _ => forallb (fun t => negb (bad_target t) && frag_exp n' t) vars && forallb (frag_exp n') es
    | SLocal nms _ _ es _ =>
      forallb (frag_exp n') es && negb (existsb (has_func n') (tl es))
    | SLocalFunc _ _ f _ => frag_exp n' f
    end
  end
with frag_block (n : nat) (b : block) {struct n} : bool :=
  match n with
  | O => false
  | S n' =>
    match b with
    | Block ss ret _ => forallb (frag_stat n') ss && match ret with Some es => forallb (frag_exp n') es | None => true end
    end
  end.

Definition in_fragment (fuel : nat) (b : block) : bool := frag_block fuel b.

(* `---@` annotation lines add annotation symbols to both answers: outside the modelled fragment *)
Fixpoint has_annot (bs : list N) : bool :=
  match bs with
  | 45%N :: ((45%N :: 45%N :: 64%N :: _) as r) => true
  | _ :: r => has_annot r
  | [] => false
  end.
