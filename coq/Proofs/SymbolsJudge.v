(* C19 - executable link between the model's outline and the reference declaration list:
   entries of an outline as the spec sees them, the verdict per declaration, and the class (cause) of every
   deviation. The classes mirror the negated guards of the theorems in Properties/C19.v. *)
From Coq Require Import List NArith ZArith Bool.
From LH Require Import Base.Bytes Base.Res Model.Lexer Model.Ast Model.Parser Model.LuaFront Model.Symbols Spec.SymbolSpec.
Import ListNotations.

Definition entries_of (ss : list sym) : list entry :=
  flat_map (fun s => mkE (s_local s) false (s_key s) (s_loc s) ::
                     map (fun c => mkE (s_local s) true (c_key c) (c_loc c)) (s_children s)) ss.

Inductive cls := ClsRewrite | ClsShadowed | ClsAssignedFunc | ClsMemberLost | ClsMemberUndeclared | ClsForeign | ClsUnexplained.

Definition count_local (n : bytes) (ds : list decl) : nat :=
  length (filter (fun d => match d_kind d with DLocal => beq_bytes (d_key d) n | _ => false end) ds).

(* is there an entry that stems from this declaration (VarInfo.Loc is one of its identifiers), is a function, and
   whose range (the function literal) misses the identifier *)
Definition assigned_func_entry (d : decl) (ss : list sym) : bool :=
  existsb (fun s =>
             match d_kind d with
             | DFunc => existsb (fun c => beq_bytes (c_key c) (d_key d) && c_fn c && existsb (loc_eqb (c_decl c)) (d_locs d)
                                           && negb (contains (c_loc c) (c_decl c))) (s_children s)
             | DLocal => s_local s && beq_bytes (s_key s) (d_key d) && s_fn s && existsb (loc_eqb (s_decl s)) (d_locs d)
                         && negb (contains (s_loc s) (s_decl s))
             | DGlobal => negb (s_local s) && beq_bytes (s_key s) (d_key d) && s_fn s && existsb (loc_eqb (s_decl s)) (d_locs d)
                          && negb (contains (s_loc s) (s_decl s))
             end) ss.

Definition is_covered (v : verdict) : bool := match v with Covered => true | _ => false end.

Section Judge.
  Variable lens : list Z.
  Variable st : state.
  Variable ds : list decl.
  Variable foreign : list bytes.     (* Symbols.foreign_globals of this file *)

  Definition base_of (d : decl) : bytes :=
    match d_kind d with
    | DFunc => hd [] (split_dot (d_key d))
    | _ => d_key d
    end.

  Definition out (fx : fixes) : list sym := find_all_symbol fx st.

  Definition base_declared (d : decl) : bool :=
    existsb (fun d0 => match d_kind d0 with DFunc => false | _ => beq_bytes (d_key d0) (base_of d) end) ds.

  (* the cause of a deviation of variant fx: covered by the fully repaired outline = one of the repaired defects
     (which one: the tests below, in this order), otherwise one of the defects that are still open *)
  Definition explain (fx : fixes) (d : decl) : cls :=
    if is_covered (judge_decl lens (entries_of (out fx_all)) d) then
      if (match d_kind d with DLocal => Nat.ltb 1 (count_local (d_key d) ds) | _ => false end) then ClsShadowed
      else if assigned_func_entry d (out fx) then ClsAssignedFunc
      else if (match d_kind d with DFunc => negb (base_declared d) | _ => false end) then ClsMemberUndeclared
      else ClsRewrite
    else if (match d_kind d with DLocal => false | _ => existsb (beq_bytes (base_of d)) foreign end) then ClsForeign
    else match d_kind d with
         | DFunc =>
           (* before fixes/C19-member-of-undeclared.diff: the table is declared neither as a top-level local nor as a
              global of this file *)
           if base_declared d || fx_undecl fx then ClsMemberLost else ClsMemberUndeclared
         | _ => ClsUnexplained
         end.

  (* verdict of the outline of variant fx, with the cause of each deviation *)
  Definition judge_all (fx : fixes) : list (decl * verdict * option cls) :=
    map (fun d => let v := judge_decl lens (entries_of (out fx)) d in
                  (d, v, if is_covered v then None else Some (explain fx d))) ds.
End Judge.

(* workspace/symbol: every file's DGlobal / DFunc declaration named q must be answered *)
Definition wentries_of (file : nat) (ws : list wsym) : list wentry :=
  map (fun w => mkWE file (w_name w) (w_loc w)) ws.

Definition ws_judge (q : bytes) (per_file : list (nat * list decl)) (ans : list wentry) : list (nat * decl * bool) :=
  flat_map (fun fd =>
              flat_map (fun d => match d_kind d with
                                 | DLocal => []
                                 | _ => if beq_bytes (d_key d) q then [(fst fd, d, ws_covers (fst fd) d ans)] else []
                                 end) (snd fd)) per_file.

(* ------------------------------------------------------------------ fragment *)
(* what the deciding leg may contain: no `_G` / `self` as (the base of) an assignment target, no `local` statement
   with a function literal in its second or a later value (LuaHelper adds the first name before it analyses the
   later values, so an assignment to that name inside such a function is taken for an assignment to the local). *)
Definition s_G' : bytes := s_G.

Fixpoint target_base (e : exp) : option bytes :=
  match e with
  | EName n _ => Some n
  | EIndex p _ _ => target_base p
  | EParens p _ => target_base p
  | _ => None
  end.

Definition bad_target (e : exp) : bool :=
  match target_base e with
  | Some n => beq_bytes n s_G || beq_bytes n s_self
  | None => match e with EIndex _ _ _ => true | _ => false end      (* call / string / ... prefix *)
  end.

Fixpoint has_func (n : nat) (e : exp) {struct n} : bool :=
  match n with
  | O => true
  | S n' =>
    match e with
    | EFunc _ _ _ _ _ _ _ _ => true
    | EUnop _ e1 _ | EParens e1 _ => has_func n' e1
    | EBinop _ e1 e2 _ | EIndex e1 e2 _ => has_func n' e1 || has_func n' e2
    | ETable ks vs _ => existsb (fun k => match k with Some ke => has_func n' ke | None => false end) ks || existsb (has_func n') vs
    | ECall p _ args _ => has_func n' p || existsb (has_func n') args
    | _ => false
    end
  end.

Fixpoint frag_exp (n : nat) (e : exp) {struct n} : bool :=
  match n with
  | O => false
  | S n' =>
    match e with
    | EBad _ => false
    | EUnop _ e1 _ | EParens e1 _ => frag_exp n' e1
    | EBinop _ e1 e2 _ | EIndex e1 e2 _ => frag_exp n' e1 && frag_exp n' e2
    | ETable ks vs _ => forallb (fun k => match k with Some ke => frag_exp n' ke | None => true end) ks && forallb (frag_exp n') vs
    | EFunc _ _ _ _ b _ _ _ => frag_block n' b
    | ECall p _ args _ => frag_exp n' p && forallb (frag_exp n') args
    | _ => true
    end
  end
with frag_stat (n : nat) (s : stat) {struct n} : bool :=
  match n with
  | O => false
  | S n' =>
    match s with
    | SBreak | SLabel _ _ | SGoto _ _ => true
    | SDo b _ => frag_block n' b
    | SCall e => frag_exp n' e
    | SIf es bs _ => forallb (frag_exp n') es && forallb (frag_block n') bs
    | SWhile e b _ | SRepeat b e _ => frag_exp n' e && frag_block n' b
    | SForNum _ _ e1 e2 e3 b _ => frag_exp n' e1 && frag_exp n' e2 && frag_exp n' e3 && frag_block n' b
    | SForIn _ _ es b _ => forallb (frag_exp n') es && frag_block n' b
    | SAssign vars es _ => forallb (fun t => negb (bad_target t) && frag_exp n' t) vars && forallb (frag_exp n') es
    | SLocal nms _ _ es _ =>
      forallb (frag_exp n') es && negb (existsb (has_func n') (tl es))
    | SLocalFunc _ _ f _ => frag_exp n' f
    end
  end
with frag_block (n : nat) (b : block) {struct n} : bool :=
  match n with
  | O => false
  | S n' =>
    match b with
    | Block ss ret _ => forallb (frag_stat n') ss && match ret with Some es => forallb (frag_exp n') es | None => true end
    end
  end.

Definition in_fragment (fuel : nat) (b : block) : bool := frag_block fuel b.

(* `---@` annotation lines add annotation symbols to both answers: outside the modelled fragment *)
Fixpoint has_annot (bs : list N) : bool :=
  match bs with
  | 45%N :: ((45%N :: 45%N :: 64%N :: _) as r) => true
  | _ :: r => has_annot r
  | [] => false
  end.
