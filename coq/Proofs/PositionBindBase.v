(* Position resolver = Lua's binder (C05 C14 C12), part 0: vocabulary.
   - a mutual induction principle for exp / stat / block (lists of sub-terms as Forall), and its restriction to the
     core fragment of Spec/LuaScope.v (`frag_*`) plus the conditions `shp_*`: the list lengths that every parser
     output satisfies (SIf: one block per condition; SLocal: one Loc per name).  The former condition "no function
     expression in the step of a numeric for" (class B5 excluded program-wide) is gone: since
     fixes/C05-for-step-order.diff the traversal visits init, limit, step in source order;
   - the SKELETON of the scope tree: a pure function of the AST (no state threading, no look-ups) that lists the
     scopes the traversal creates and the variables it adds, in creation order, with their INITIAL ReferExp;
   - `vstep` / `sstep`: what cgAssignStat's re-pointing may do to an entry between its creation and the end of the
     traversal;
   - `marks2`: the boundary marks of Spec/LuaScope.v with the Locs of EMPTY if-branches included (`Laid` says nothing
     about them although the traversal creates a scope with that Loc), and the layout guard `Laid2`. *)
From Coq Require Import List NArith ZArith Bool Lia.
From LH Require Import Base.Bytes Model.Lexer Model.Ast Model.Scope Model.Globals Model.Resolve Spec.LuaScope.
Import ListNotations.
Local Open Scope Z_scope.

(* ------------------------------------------------------------------ mutual induction over the AST *)
Definition atom_exp (e : exp) : Prop :=
  match e with
  | ENil _ | EBad _ | ETrue _ | EFalse _ | EVararg _ | EInt _ _ | EFloat _ _ | EStr _ _ | EName _ _ => True
  | _ => False
  end.
Definition atom_stat (s : stat) : Prop :=
  match s with SBreak | SLabel _ _ | SGoto _ _ => True | _ => False end.
Definition ret_exps (ret : option (list exp)) : list exp := match ret with Some es => es | None => [] end.
Definition opt_P (P : exp -> Prop) (k : option exp) : Prop := match k with Some k' => P k' | None => True end.

Section AstInd.
  Variable Pe : exp -> Prop.
  Variable Ps : stat -> Prop.
  Variable Pb : block -> Prop.
  Hypothesis H_atom : forall e, atom_exp e -> Pe e.
  Hypothesis H_unop : forall o x l, Pe x -> Pe (EUnop o x l).
  Hypothesis H_binop : forall o a b l, Pe a -> Pe b -> Pe (EBinop o a b l).
  Hypothesis H_parens : forall x l, Pe x -> Pe (EParens x l).
  Hypothesis H_index : forall p k l, Pe p -> Pe k -> Pe (EIndex p k l).
  Hypothesis H_call : forall p nm args l, Pe p -> Forall Pe args -> Pe (ECall p nm args l).
  Hypothesis H_table : forall ks vs l, Forall (opt_P Pe) ks -> Forall Pe vs -> Pe (ETable ks vs l).
  Hypothesis H_func : forall c f ps pl b l va co, Pb b -> Pe (EFunc c f ps pl b l va co).
  Hypothesis H_satom : forall s, atom_stat s -> Ps s.
  Hypothesis H_do : forall b l, Pb b -> Ps (SDo b l).
  Hypothesis H_scall : forall e, Pe e -> Ps (SCall e).
  Hypothesis H_if : forall es bs l, Forall Pe es -> Forall Pb bs -> Ps (SIf es bs l).
  Hypothesis H_while : forall e b l, Pe e -> Pb b -> Ps (SWhile e b l).
  Hypothesis H_repeat : forall b e l, Pb b -> Pe e -> Ps (SRepeat b e l).
  Hypothesis H_fornum : forall n vl e1 e2 e3 b l, Pe e1 -> Pe e2 -> Pe e3 -> Pb b -> Ps (SForNum n vl e1 e2 e3 b l).
  Hypothesis H_forin : forall ns ls es b l, Forall Pe es -> Pb b -> Ps (SForIn ns ls es b l).
  Hypothesis H_assign : forall vars es l, Forall Pe vars -> Forall Pe es -> Ps (SAssign vars es l).
  Hypothesis H_local : forall ns ls at_ es l, Forall Pe es -> Ps (SLocal ns ls at_ es l).
  Hypothesis H_localfunc : forall n nl f l, Pe f -> Ps (SLocalFunc n nl f l).
  Hypothesis H_block : forall ss ret l, Forall Ps ss -> Forall Pe (ret_exps ret) -> Pb (Block ss ret l).

  Fixpoint exp_ind3 (e : exp) {struct e} : Pe e :=
    match e with
    | ENil l => H_atom (ENil l) I
    | EBad l => H_atom (EBad l) I
    | ETrue l => H_atom (ETrue l) I
    | EFalse l => H_atom (EFalse l) I
    | EVararg l => H_atom (EVararg l) I
    | EInt v l => H_atom (EInt v l) I
    | EFloat t l => H_atom (EFloat t l) I
    | EStr s l => H_atom (EStr s l) I
    | EName n l => H_atom (EName n l) I
    | EUnop o x l => H_unop o x l (exp_ind3 x)
    | EBinop o a b l => H_binop o a b l (exp_ind3 a) (exp_ind3 b)
    | EParens x l => H_parens x l (exp_ind3 x)
    | EIndex p k l => H_index p k l (exp_ind3 p) (exp_ind3 k)
    | ECall p nm args l =>
      H_call p nm args l (exp_ind3 p)
             ((fix go (xs : list exp) : Forall Pe xs :=
                 match xs with [] => Forall_nil Pe | x :: r => Forall_cons x (exp_ind3 x) (go r) end) args)
    | ETable ks vs l =>
      H_table ks vs l
              ((fix go (xs : list (option exp)) : Forall (opt_P Pe) xs :=
                  match xs with
                  | [] => Forall_nil (opt_P Pe)
                  | x :: r => Forall_cons x (match x as x0 return opt_P Pe x0 with Some k' => exp_ind3 k' | None => I end) (go r)
                  end) ks)
              ((fix go (xs : list exp) : Forall Pe xs :=
                  match xs with [] => Forall_nil Pe | x :: r => Forall_cons x (exp_ind3 x) (go r) end) vs)
    | EFunc c f ps pl b l va co => H_func c f ps pl b l va co (block_ind3 b)
    end
  with stat_ind3 (s : stat) {struct s} : Ps s :=
    match s with
    | SBreak => H_satom SBreak I
    | SLabel n l => H_satom (SLabel n l) I
    | SGoto n l => H_satom (SGoto n l) I
    | SDo b l => H_do b l (block_ind3 b)
    | SCall e => H_scall e (exp_ind3 e)
    | SIf es bs l =>
      H_if es bs l
           ((fix go (xs : list exp) : Forall Pe xs :=
               match xs with [] => Forall_nil Pe | x :: r => Forall_cons x (exp_ind3 x) (go r) end) es)
           ((fix go (xs : list block) : Forall Pb xs :=
               match xs with [] => Forall_nil Pb | x :: r => Forall_cons x (block_ind3 x) (go r) end) bs)
    | SWhile e b l => H_while e b l (exp_ind3 e) (block_ind3 b)
    | SRepeat b e l => H_repeat b e l (block_ind3 b) (exp_ind3 e)
    | SForNum n vl e1 e2 e3 b l => H_fornum n vl e1 e2 e3 b l (exp_ind3 e1) (exp_ind3 e2) (exp_ind3 e3) (block_ind3 b)
    | SForIn ns ls es b l =>
      H_forin ns ls es b l
              ((fix go (xs : list exp) : Forall Pe xs :=
                  match xs with [] => Forall_nil Pe | x :: r => Forall_cons x (exp_ind3 x) (go r) end) es)
              (block_ind3 b)
    | SAssign vars es l =>
      H_assign vars es l
               ((fix go (xs : list exp) : Forall Pe xs :=
                   match xs with [] => Forall_nil Pe | x :: r => Forall_cons x (exp_ind3 x) (go r) end) vars)
               ((fix go (xs : list exp) : Forall Pe xs :=
                   match xs with [] => Forall_nil Pe | x :: r => Forall_cons x (exp_ind3 x) (go r) end) es)
    | SLocal ns ls at_ es l =>
      H_local ns ls at_ es l
              ((fix go (xs : list exp) : Forall Pe xs :=
                  match xs with [] => Forall_nil Pe | x :: r => Forall_cons x (exp_ind3 x) (go r) end) es)
    | SLocalFunc n nl f l => H_localfunc n nl f l (exp_ind3 f)
    end
  with block_ind3 (b : block) {struct b} : Pb b :=
    match b with
    | Block ss ret l =>
      H_block ss ret l
              ((fix go (xs : list stat) : Forall Ps xs :=
                  match xs with [] => Forall_nil Ps | x :: r => Forall_cons x (stat_ind3 x) (go r) end) ss)
              (match ret as r0 return Forall Pe (ret_exps r0) with
               | Some es => (fix go (xs : list exp) : Forall Pe xs :=
                               match xs with [] => Forall_nil Pe | x :: r => Forall_cons x (exp_ind3 x) (go r) end) es
               | None => Forall_nil Pe
               end)
    end.

  Lemma ast_ind3 : (forall e, Pe e) /\ (forall s, Ps s) /\ (forall b, Pb b).
  Proof. repeat split; [exact exp_ind3 | exact stat_ind3 | exact block_ind3]. Qed.
End AstInd.

(* ------------------------------------------------------------------ list-length conditions of parser output *)
Fixpoint shp_exp (e : exp) {struct e} : bool :=
  match e with
  | EUnop _ e1 _ | EParens e1 _ => shp_exp e1
  | EBinop _ e1 e2 _ => shp_exp e1 && shp_exp e2
  | ECall p _ args _ => shp_exp p && forallb shp_exp args
  | EFunc _ _ _ _ b _ _ _ => shp_block b
  | _ => true
  end
with shp_stat (s : stat) {struct s} : bool :=
  match s with
  | SDo b _ => shp_block b
  | SCall e => shp_exp e
  | SIf es bs _ => Nat.eqb (length es) (length bs) && forallb shp_exp es && forallb shp_block bs
  | SWhile e b _ => shp_exp e && shp_block b
  | SRepeat b e _ => shp_block b && shp_exp e
  | SForNum _ _ e1 e2 e3 b _ => shp_exp e1 && shp_exp e2 && shp_exp e3 && shp_block b
  | SForIn _ _ es b _ => forallb shp_exp es && shp_block b
  | SAssign _ es _ => forallb shp_exp es
  | SLocal ns ls _ es _ => Nat.eqb (length ns) (length ls) && forallb shp_exp es
  | SLocalFunc _ _ f _ => shp_exp f
  | _ => true
  end
with shp_block (b : block) {struct b} : bool :=
  match b with
  | Block ss ret _ => forallb shp_stat ss && match ret with Some es => forallb shp_exp es | None => true end
  end.

Definition shape_ok (b : block) : bool := shp_block b.

Lemma forallb_Forall {A} (p : A -> bool) l : forallb p l = true <-> Forall (fun x => p x = true) l.
Proof.
  induction l as [|a r IH]; cbn; [split; auto|].
  rewrite andb_true_iff, IH. split; [intros [H1 H2]; constructor; auto | intros H; inversion H; auto].
Qed.

(* induction restricted to the core fragment *)
Section CoreInd.
  Variable Pe : exp -> Prop.
  Variable Ps : stat -> Prop.
  Variable Pb : block -> Prop.
  Definition core_e (e : exp) : Prop := frag_exp e = true /\ shp_exp e = true.
  Definition core_s (s : stat) : Prop := frag_stat s = true /\ shp_stat s = true.
  Definition core_b (b : block) : Prop := frag_block b = true /\ shp_block b = true.

  Hypothesis C_atom : forall e, atom_exp e -> core_e e -> Pe e.
  Hypothesis C_unop : forall o x l, core_e x -> Pe x -> Pe (EUnop o x l).
  Hypothesis C_binop : forall o a b l, core_e a -> core_e b -> Pe a -> Pe b -> Pe (EBinop o a b l).
  Hypothesis C_parens : forall x l, core_e x -> Pe x -> Pe (EParens x l).
  Hypothesis C_call : forall n ln args l, frag_name n = true -> Forall core_e args -> Forall Pe args ->
                                          Pe (ECall (EName n ln) None args l).
  Hypothesis C_func : forall f ps pl b l va, forallb frag_name ps = true -> core_b b -> Pb b ->
                                             Pe (EFunc [] f ps pl b l va false).
  Hypothesis C_break : Ps SBreak.
  Hypothesis C_do : forall b l, core_b b -> Pb b -> Ps (SDo b l).
  Hypothesis C_scall : forall n ln args l, core_e (ECall (EName n ln) None args l) ->
                                           Pe (ECall (EName n ln) None args l) -> Ps (SCall (ECall (EName n ln) None args l)).
  Hypothesis C_if : forall es bs l, length es = length bs -> Forall core_e es -> Forall core_b bs ->
                                    Forall Pe es -> Forall Pb bs -> Ps (SIf es bs l).
  Hypothesis C_while : forall e b l, core_e e -> core_b b -> Pe e -> Pb b -> Ps (SWhile e b l).
  Hypothesis C_repeat : forall b e l, core_b b -> core_e e -> Pb b -> Pe e -> Ps (SRepeat b e l).
  Hypothesis C_fornum : forall n vl e1 e2 e3 b l, frag_name n = true ->
                                                  core_e e1 -> core_e e2 -> core_e e3 -> core_b b ->
                                                  Pe e1 -> Pe e2 -> Pe e3 -> Pb b -> Ps (SForNum n vl e1 e2 e3 b l).
  Hypothesis C_forin : forall ns ls es b l, forallb frag_name ns = true -> Forall core_e es -> core_b b ->
                                            Forall Pe es -> Pb b -> Ps (SForIn ns ls es b l).
  Hypothesis C_assign : forall vars es l,
      Forall (fun v => exists n ln, v = EName n ln /\ frag_name n = true) vars -> Forall core_e es -> Forall Pe es ->
      Ps (SAssign vars es l).
  Hypothesis C_local : forall ns ls at_ es l, forallb frag_name ns = true -> length ns = length ls ->
                                              Forall core_e es -> Forall Pe es ->
                                              Ps (SLocal ns ls at_ es l).
  Hypothesis C_localfunc : forall n nl f ps pl b lf va l,
      frag_name n = true -> core_e (EFunc [] f ps pl b lf va false) -> Pe (EFunc [] f ps pl b lf va false) ->
      Ps (SLocalFunc n nl (EFunc [] f ps pl b lf va false) l).
  Hypothesis C_block : forall ss ret l, Forall core_s ss -> Forall Ps ss ->
                                        Forall core_e (ret_exps ret) -> Forall Pe (ret_exps ret) -> Pb (Block ss ret l).

  Lemma Forall_core_e es (P : exp -> Prop) :
    forallb frag_exp es = true -> forallb shp_exp es = true -> Forall (fun e => core_e e -> P e) es ->
    Forall core_e es /\ Forall P es.
  Proof.
    intros Hf Hs Hall. induction Hall as [|x r Hx Hr IH]; [split; constructor|].
    cbn [frag_exp frag_stat frag_block shp_exp shp_stat shp_block forallb] in Hf, Hs. apply andb_true_iff in Hf. apply andb_true_iff in Hs. destruct Hf as [Hf1 Hf2]. destruct Hs as [Hs1 Hs2].
    destruct (IH Hf2 Hs2) as [I1 I2]. split; constructor; auto; try (split; assumption). apply Hx. split; assumption.
  Qed.
  Lemma Forall_core_b bs (P : block -> Prop) :
    forallb frag_block bs = true -> forallb shp_block bs = true -> Forall (fun e => core_b e -> P e) bs ->
    Forall core_b bs /\ Forall P bs.
  Proof.
    intros Hf Hs Hall. induction Hall as [|x r Hx Hr IH]; [split; constructor|].
    cbn [frag_exp frag_stat frag_block shp_exp shp_stat shp_block forallb] in Hf, Hs. apply andb_true_iff in Hf. apply andb_true_iff in Hs. destruct Hf as [Hf1 Hf2]. destruct Hs as [Hs1 Hs2].
    destruct (IH Hf2 Hs2) as [I1 I2]. split; constructor; auto; try (split; assumption). apply Hx. split; assumption.
  Qed.
  Lemma Forall_core_s ss (P : stat -> Prop) :
    forallb frag_stat ss = true -> forallb shp_stat ss = true -> Forall (fun e => core_s e -> P e) ss ->
    Forall core_s ss /\ Forall P ss.
  Proof.
    intros Hf Hs Hall. induction Hall as [|x r Hx Hr IH]; [split; constructor|].
    cbn [frag_exp frag_stat frag_block shp_exp shp_stat shp_block forallb] in Hf, Hs. apply andb_true_iff in Hf. apply andb_true_iff in Hs. destruct Hf as [Hf1 Hf2]. destruct Hs as [Hs1 Hs2].
    destruct (IH Hf2 Hs2) as [I1 I2]. split; constructor; auto; try (split; assumption). apply Hx. split; assumption.
  Qed.

  Lemma core_ind3 : (forall e, core_e e -> Pe e) /\ (forall s, core_s s -> Ps s) /\ (forall b, core_b b -> Pb b).
  Proof.
    apply ast_ind3.
    - (* atoms *) intros e Ha Hc. apply C_atom; assumption.
    - intros o x l IH [Hf Hs]. cbn [frag_exp frag_stat frag_block shp_exp shp_stat shp_block forallb] in Hf, Hs. apply C_unop; [split|apply IH; split]; assumption.
    - intros o a b l IHa IHb [Hf Hs]. cbn [frag_exp frag_stat frag_block shp_exp shp_stat shp_block forallb] in Hf, Hs. apply andb_true_iff in Hf. apply andb_true_iff in Hs.
      destruct Hf, Hs. apply C_binop; try apply IHa; try apply IHb; split; assumption.
    - intros x l IH [Hf Hs]. cbn [frag_exp frag_stat frag_block shp_exp shp_stat shp_block forallb] in Hf, Hs. apply C_parens; [split|apply IH; split]; assumption.
    - intros p k l _ _ [Hf _]. discriminate.
    - intros p nm args l _ IHargs [Hf Hs].
      destruct p as [l0|l0|l0|l0|l0|v0 l0|t0 l0|s0 l0|o0 x0 l0|o0 a0 b0 l0|ks0 vs0 l0|c0 f0 ps0 pl0 b0 l0 va0 co0|n0 l0|x0 l0|p0 k0 l0|p0 nm0 args0 l0]; try discriminate. destruct nm as [nm1|]; [discriminate|].
      cbn [frag_exp frag_stat frag_block shp_exp shp_stat shp_block forallb] in Hf, Hs. apply andb_true_iff in Hf. destruct Hf as [Hn Hf].
      destruct (Forall_core_e args Pe Hf Hs IHargs) as [H1 H2]. apply C_call; assumption.
    - intros ks vs l _ _ [Hf _]. discriminate.
    - intros c f ps pl b l va co IH [Hf Hs]. cbn [frag_exp frag_stat frag_block shp_exp shp_stat shp_block forallb] in Hf, Hs.
      destruct co; [discriminate|]. destruct c; [|rewrite andb_false_r in Hf; discriminate].
      cbn in Hf. apply andb_true_iff in Hf. destruct Hf as [Hps Hb].
      apply C_func; [assumption|split; assumption|apply IH; split; assumption].
    - intros s Ha [Hf _]. destruct s; try contradiction; try discriminate. exact C_break.
    - intros b l IH [Hf Hs]. cbn [frag_exp frag_stat frag_block shp_exp shp_stat shp_block forallb] in Hf, Hs. apply C_do; [split|apply IH; split]; assumption.
    - intros e IH [Hf Hs]. cbn [frag_exp frag_stat frag_block shp_exp shp_stat shp_block forallb] in Hf, Hs. destruct e as [l0|l0|l0|l0|l0|v0 l0|t0 l0|s0 l0|o0 x0 l0|o0 a0 b0 l0|ks0 vs0 l0|c0 f0 ps0 pl0 b0 l0 va0 co0|n0 l0|x0 l0|p0 k0 l0|p0 nm0 args0 l0]; try discriminate.
      assert (Hc : core_e (ECall p0 nm0 args0 l0)) by (split; assumption).
      destruct p0 as [l1|l1|l1|l1|l1|v1 l1|t1 l1|s1 l1|o1 x1 l1|o1 a1 b1 l1|ks1 vs1 l1|c1 f1 ps1 pl1 b1 l1 va1 co1|n1 l1|x1 l1|p1 k1 l1|p1 nm1 args1 l1]; try discriminate.
      destruct nm0 as [nm1|]; [discriminate|]. apply C_scall; [exact Hc | apply IH; exact Hc].
    - intros es bs l IHes IHbs [Hf Hs]. cbn [frag_exp frag_stat frag_block shp_exp shp_stat shp_block forallb] in Hf, Hs.
      apply andb_true_iff in Hf. destruct Hf as [Hf1 Hf2].
      apply andb_true_iff in Hs. destruct Hs as [Hs Hs3]. apply andb_true_iff in Hs. destruct Hs as [Hs1 Hs2].
      destruct (Forall_core_e es Pe Hf1 Hs2 IHes) as [H1 H2].
      destruct (Forall_core_b bs Pb Hf2 Hs3 IHbs) as [H3 H4].
      apply C_if; auto. apply Nat.eqb_eq. exact Hs1.
    - intros e b l IHe IHb [Hf Hs]. cbn [frag_exp frag_stat frag_block shp_exp shp_stat shp_block forallb] in Hf, Hs. apply andb_true_iff in Hf. apply andb_true_iff in Hs.
      destruct Hf, Hs. apply C_while; try apply IHe; try apply IHb; split; assumption.
    - intros b e l IHb IHe [Hf Hs]. cbn [frag_exp frag_stat frag_block shp_exp shp_stat shp_block forallb] in Hf, Hs. apply andb_true_iff in Hf. apply andb_true_iff in Hs.
      destruct Hf, Hs. apply C_repeat; try apply IHe; try apply IHb; split; assumption.
    - intros n vl e1 e2 e3 b l IH1 IH2 IH3 IHb [Hf Hs]. cbn [frag_exp frag_stat frag_block shp_exp shp_stat shp_block forallb] in Hf, Hs.
      do 4 (apply andb_true_iff in Hf; destruct Hf as [Hf ?]).
      do 3 (apply andb_true_iff in Hs; destruct Hs as [Hs ?]).
      apply C_fornum; try apply IH1; try apply IH2; try apply IH3; try apply IHb; try split; assumption.
    - intros ns ls es b l IHes IHb [Hf Hs]. cbn [frag_exp frag_stat frag_block shp_exp shp_stat shp_block forallb] in Hf, Hs.
      apply andb_true_iff in Hf. destruct Hf as [Hf Hfb]. apply andb_true_iff in Hf. destruct Hf as [Hns Hfes].
      apply andb_true_iff in Hs. destruct Hs as [Hses Hsb].
      destruct (Forall_core_e es Pe Hfes Hses IHes) as [H1 H2].
      apply C_forin; auto; [split; assumption | apply IHb; split; assumption].
    - intros vars es l _ IHes [Hf Hs]. cbn [frag_exp frag_stat frag_block shp_exp shp_stat shp_block forallb] in Hf, Hs.
      apply andb_true_iff in Hf. destruct Hf as [Hv Hfes].
      destruct (Forall_core_e es Pe Hfes Hs IHes) as [H1 H2].
      apply C_assign; auto.
      apply forallb_Forall in Hv. eapply Forall_impl; [|exact Hv].
      intros v Hvn. destruct v; try discriminate. eauto.
    - intros ns ls at_ es l IHes [Hf Hs]. cbn [frag_exp frag_stat frag_block shp_exp shp_stat shp_block forallb] in Hf, Hs.
      apply andb_true_iff in Hf. destruct Hf as [Hns Hfes].
      apply andb_true_iff in Hs. destruct Hs as [Hl Hses].
      destruct (Forall_core_e es Pe Hfes Hses IHes) as [H1 H2].
      apply C_local; auto; apply Nat.eqb_eq; exact Hl.
    - intros n nl f l IH [Hf Hs]. cbn [frag_exp frag_stat frag_block shp_exp shp_stat shp_block forallb] in Hf, Hs.
      apply andb_true_iff in Hf. destruct Hf as [Hn Hf]. destruct f as [l0|l0|l0|l0|l0|v0 l0|t0 l0|s0 l0|o0 x0 l0|o0 a0 b0 l0|ks0 vs0 l0|c0 f0 ps0 pl0 b0 l0 va0 co0|n0 l0|x0 l0|p0 k0 l0|p0 nm0 args0 l0]; try discriminate.
      assert (Hc : core_e (EFunc c0 f0 ps0 pl0 b0 l0 va0 co0)) by (split; assumption).
      pose proof Hf as Hf'. cbn [frag_exp] in Hf'. destruct co0; [discriminate|]. destruct c0 as [|c00 c01]; [|rewrite andb_false_r in Hf'; discriminate].
      apply C_localfunc; [exact Hn | exact Hc | apply IH; exact Hc].
    - intros ss ret l IHss IHret [Hf Hs]. cbn [frag_exp frag_stat frag_block shp_exp shp_stat shp_block forallb] in Hf, Hs.
      apply andb_true_iff in Hf. destruct Hf as [Hfss Hfret]. apply andb_true_iff in Hs. destruct Hs as [Hsss Hsret].
      destruct (Forall_core_s ss Ps Hfss Hsss IHss) as [H1 H2].
      assert (Hr : Forall core_e (ret_exps ret) /\ Forall Pe (ret_exps ret)).
      { destruct ret as [es|]; [|split; constructor]. apply (Forall_core_e es Pe Hfret Hsret IHret). }
      destruct Hr. apply C_block; auto.
  Qed.
End CoreInd.

(* ------------------------------------------------------------------ the skeleton of the scope tree *)
(* parameters / generic-for names: added in order, no value *)
Definition plain_vars (ns : list (list N)) (ls : list loc) : list ventry :=
  map (fun pl => mkV (fst pl) (snd pl) RNone false) (combine ns ls).

(* cgLocalVarDeclStat: the entries in the order they are added = Scope.local_vars (Model/Scope.v) *)

(* cond_1 block_1 cond_2 block_2 ... *)
Fixpoint zip_if {A} (cs bls : list (list A)) {struct cs} : list A :=
  match cs, bls with
  | c :: cs', b :: bls' => c ++ b ++ zip_if cs' bls'
  | _, _ => []
  end.

(* scopes created in the current frame, in creation order; for statements also the variables added to the current
   frame, NEWEST FIRST (as in f_vars) *)
Fixpoint sk_exp (e : exp) {struct e} : list scope :=
  match e with
  | EParens e1 _ | EUnop _ e1 _ => sk_exp e1
  | EBinop _ e1 e2 _ => sk_exp e1 ++ sk_exp e2
  | ECall p _ args _ => sk_exp p ++ flat_map sk_exp args
  | EFunc _ _ pars plocs b l _ _ =>
    [Scope l (fst (sk_block b) ++ rev (plain_vars pars plocs)) (snd (sk_block b))]
  | _ => []
  end
with sk_stat (s : stat) {struct s} : list ventry * list scope :=
  match s with
  | SDo b l => ([], [Scope l (fst (sk_block b)) (snd (sk_block b))])
  | SCall e => ([], sk_exp e)
  | SIf es bs _ =>
    ([], zip_if (map sk_exp es) (map (fun b => [Scope (block_loc b) (fst (sk_block b)) (snd (sk_block b))]) bs))
  | SWhile e b l => ([], sk_exp e ++ [Scope l (fst (sk_block b)) (snd (sk_block b))])
  | SRepeat b e l => ([], [Scope l (fst (sk_block b)) (snd (sk_block b) ++ sk_exp e)])
  | SForNum n vl e1 e2 e3 b l =>
    ([], [Scope l (fst (sk_block b) ++ [mkV n vl RNone false])
                (sk_exp e1 ++ sk_exp e2 ++ sk_exp e3 ++ snd (sk_block b))])
  | SForIn ns ls es b l =>
    ([], [Scope l (fst (sk_block b) ++ rev (plain_vars ns ls)) (flat_map sk_exp es ++ snd (sk_block b))])
  | SAssign _ es _ => ([], flat_map sk_exp es)
  | SLocal ns ls _ es l => (rev (local_vars es (combine ns ls) RNone (init_loc ns ls es l)), flat_map sk_exp es)
  | SLocalFunc n nl f _ => ([mkV n nl (ref_of_exp f) false], sk_exp f)
  | _ => ([], [])
  end
with sk_block (b : block) {struct b} : list ventry * list scope :=
  match b with
  | Block ss ret _ =>
    (concat (rev (map (fun s => fst (sk_stat s)) ss)),
     flat_map (fun s => snd (sk_stat s)) ss ++ match ret with Some es => flat_map sk_exp es | None => [] end)
  end.

Definition sk_branch (b : block) : scope := Scope (block_loc b) (fst (sk_block b)) (snd (sk_block b)).

Definition sk_root (P : block) : scope := Scope (block_loc P) (fst (sk_block P)) (snd (sk_block P)).

(* the assignments `n = e` (plain-name target with its own right-hand side) of a piece of program *)
Definition asg_pairs (vars es : list exp) : list (list N * loc * exp) :=
  flat_map (fun ve => match fst ve with EName n l => [(n, l, snd ve)] | _ => [] end) (combine vars es).

Fixpoint asg_exp (e : exp) {struct e} : list (list N * loc * exp) :=
  match e with
  | EParens e1 _ | EUnop _ e1 _ => asg_exp e1
  | EBinop _ e1 e2 _ => asg_exp e1 ++ asg_exp e2
  | ECall p _ args _ => asg_exp p ++ flat_map asg_exp args
  | EFunc _ _ _ _ b _ _ _ => asg_block b
  | _ => []
  end
with asg_stat (s : stat) {struct s} : list (list N * loc * exp) :=
  match s with
  | SDo b _ => asg_block b
  | SCall e => asg_exp e
  | SIf es bs _ => flat_map asg_exp es ++ flat_map asg_block bs
  | SWhile e b _ => asg_exp e ++ asg_block b
  | SRepeat b e _ => asg_block b ++ asg_exp e
  | SForNum _ _ e1 e2 e3 b _ => asg_exp e1 ++ asg_exp e2 ++ asg_exp e3 ++ asg_block b
  | SForIn _ _ es b _ => flat_map asg_exp es ++ asg_block b
  | SAssign vars es _ => asg_pairs vars es ++ flat_map asg_exp es
  | SLocal _ _ _ es _ => flat_map asg_exp es
  | SLocalFunc _ _ f _ => asg_exp f
  | _ => []
  end
with asg_block (b : block) {struct b} : list (list N * loc * exp) :=
  match b with
  | Block ss ret _ => flat_map asg_stat ss ++ match ret with Some es => flat_map asg_exp es | None => [] end
  end.

(* what may happen to an entry after its creation (cgAssignStat on a local whose IsExpEmpty flag is set) *)
Section Step.
  Variable A : list (list N * loc * exp).

  Definition vstep (v v' : ventry) : Prop :=
    v' = v \/
    (v_empty v = true /\ v_name v' = v_name v /\ (v_loc v' = v_loc v /\ v_init v' = v_init v /\ v_tab v' = v_tab v) /\
     (v_ref v' = v_ref v \/
      exists n tl e, In (n, tl, e) A /\ beq_bytes (v_name v) n = true /\ loc_before (v_loc v) tl = true /\
                     v_ref v' = ref_of_exp e)).

  Inductive sstep : scope -> scope -> Prop :=
  | sstep_intro l vs vs' ss ss' :
      Forall2 vstep vs vs' -> Forall2 sstep ss ss' -> sstep (Scope l vs ss) (Scope l vs' ss').
End Step.

(* ------------------------------------------------------------------ marks with the empty if-branches *)
Fixpoint m2_exp (e : exp) {struct e} : list mark :=
  match e with
  | EName _ l => id_marks l
  | EParens e1 _ => m2_exp e1
  | EUnop _ e1 _ => m2_exp e1
  | EBinop _ e1 e2 _ => m2_exp e1 ++ m2_exp e2
  | EIndex p k _ => m2_exp p ++ m2_exp k
  | ECall p _ args l => MOpen l :: m2_exp p ++ flat_map m2_exp args ++ [MClose l]
  | ETable ks vs _ => flat_map (fun k => match k with Some k' => m2_exp k' | None => [] end) ks ++ flat_map m2_exp vs
  | EFunc _ _ _ plocs b l _ _ => MOpen l :: flat_map id_marks plocs ++ m2_block b ++ [MClose l]
  | _ => []
  end
with m2_stat (s : stat) {struct s} : list mark :=
  match s with
  | SBreak | SLabel _ _ | SGoto _ _ => []
  | SDo b l => MOpen l :: m2_block b ++ [MClose l]
  | SCall e => m2_exp e
  | SIf es bs _ =>
    zip_if (map m2_exp es) (map (fun b => MOpen (block_loc b) :: m2_block b ++ [MClose (block_loc b)]) bs)
  | SWhile e b l => MOpen l :: m2_exp e ++ m2_block b ++ [MClose l]
  | SRepeat b e l => MOpen l :: m2_block b ++ m2_exp e ++ [MClose l]
  | SForNum _ vl e1 e2 e3 b l => MOpen l :: id_marks vl ++ m2_exp e1 ++ m2_exp e2 ++ m2_exp e3 ++ m2_block b ++ [MClose l]
  | SForIn _ ls es b l => MOpen l :: flat_map id_marks ls ++ flat_map m2_exp es ++ m2_block b ++ [MClose l]
  | SAssign vars es _ =>
    match vars, es with
    | [EName _ nl], [EFunc _ (_ :: _) _ plocs b l _ _] =>
      MOpen l :: id_marks nl ++ flat_map id_marks plocs ++ m2_block b ++ [MClose l]
    | _, _ => flat_map m2_exp vars ++ flat_map m2_exp es
    end
  | SLocal ns ls _ es l =>
    flat_map id_marks ls ++ region_marks (init_loc ns ls es l) (flat_map m2_exp es)
  | SLocalFunc _ nl f _ =>
    match f with
    | EFunc _ _ _ plocs b l _ _ => MOpen l :: id_marks nl ++ flat_map id_marks plocs ++ m2_block b ++ [MClose l]
    | _ => id_marks nl ++ m2_exp f
    end
  end
with m2_block (b : block) {struct b} : list mark :=
  match b with
  | Block ss ret _ => flat_map m2_stat ss ++ match ret with Some es => flat_map m2_exp es | None => [] end
  end.

Definition m2_branch (b : block) : list mark := MOpen (block_loc b) :: m2_block b ++ [MClose (block_loc b)].

Definition marks2 (b : block) : list mark := MOpen (block_loc b) :: m2_block b ++ [MClose (block_loc b)].

Definition laid2_b (W : Z) (b : block) : bool :=
  shape_ok b && (0 <? W) && forallb (mark_ok W) (marks2 b) && steps_ok W (marks2 b).

Definition Laid2 (b : block) : Prop := exists W, laid2_b W b = true.
