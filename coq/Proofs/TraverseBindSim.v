(* Traversal resolver = Lua's binder, part 1: the simulation relation between the traversal state of Model/Scope.v
   (frame stack, newest-first variable lists) and the environment of the reference binder of Spec/LuaScope.v, and the
   combinators (sequence, list, scope, declaration) from which the per-construct simulations are assembled. *)
From Coq Require Import List NArith ZArith Bool Lia Permutation.
From LH Require Import Base.Bytes Model.Lexer Model.Ast Model.Scope Spec.LuaScope Proofs.TraverseBindDefs.
Import ListNotations.
Local Open Scope Z_scope.

(* ------------------------------------------------------------------ small list facts *)
Lemma find_app {A} (p : A -> bool) a b :
  find p (a ++ b) = match find p a with Some x => Some x | None => find p b end.
Proof. induction a as [|x r IH]; [reflexivity|]. cbn. destruct (p x); [reflexivity|exact IH]. Qed.

Lemma find_filter_first {A} (p q : A -> bool) vs :
  match find p vs with Some v => q v = true | None => True end ->
  find (fun v => p v && q v) vs = find p vs.
Proof.
  induction vs as [|v r IH]; intros H; [reflexivity|]. cbn in *.
  destruct (p v) eqn:Hp.
  - rewrite H. reflexivity.
  - cbn. apply IH. exact H.
Qed.

Lemma Forall2_concat {A B} (R : A -> B -> Prop) xs ys :
  Forall2 (Forall2 R) xs ys -> Forall2 R (concat xs) (concat ys).
Proof. induction 1; cbn; [constructor|]. apply Forall2_app; assumption. Qed.

Lemma Forall2_impl {A B} (R R' : A -> B -> Prop) xs ys :
  (forall a b, R a b -> R' a b) -> Forall2 R xs ys -> Forall2 R' xs ys.
Proof. intros H. induction 1; constructor; auto. Qed.

Lemma beq_refl a : beq_bytes a a = true.
Proof. apply beq_bytes_eq. reflexivity. Qed.

(* ------------------------------------------------------------------ environments *)
Definition efind (en : env) (n : list N) : option (loc * bool) :=
  option_map (fun x => (snd (fst x), snd x)) (env_find en n).

Lemma resolve_efind en n :
  resolve en n = match efind en n with Some (d, _) => BLocal d | None => BGlobal n end.
Proof. unfold resolve, efind. destruct (env_find en n) as [[[a d] f]|]; reflexivity. Qed.

Lemma efind_cons x en n :
  efind (x :: en) n = if beq_bytes (fst (fst x)) n then Some (snd (fst x), snd x) else efind en n.
Proof. unfold efind, env_find. cbn. destruct (beq_bytes (fst (fst x)) n); reflexivity. Qed.

Definition excp := list N -> binding -> Prop.
(* the traversal's environment and the reference environment give every name the same declaration, except for the
   (name, binding) pairs in Exc *)
Definition EQ (Exc : excp) (ent ens : env) : Prop :=
  forall n, efind ent n = efind ens n \/ Exc n (resolve ens n).

Lemma EQ_cons Exc x ent ens : EQ Exc ent ens -> EQ Exc (x :: ent) (x :: ens).
Proof.
  intros H n. rewrite !efind_cons, (resolve_efind (x :: ens)), efind_cons.
  destruct (beq_bytes (fst (fst x)) n); [left; reflexivity|].
  rewrite <- resolve_efind. apply H.
Qed.

Lemma EQ_app Exc pre ent ens : EQ Exc ent ens -> EQ Exc (pre ++ ent) (pre ++ ens).
Proof. intros H. induction pre as [|x r IH]; [exact H|]. cbn. apply EQ_cons. exact IH. Qed.

(* ------------------------------------------------------------------ frames vs environment segments *)
Definition VR (v : ventry) (x : list N * loc * bool) : Prop :=
  v_name v = fst (fst x) /\ v_loc v = snd (fst x) /\ (v_empty v = true -> snd x = true).

Definition FRS (st : tstate) (ens : list env) : Prop :=
  Forall2 (fun f seg => Forall2 VR (f_vars f) seg) (t_frames st) ens.

Lemma vars_VR st ens : FRS st ens -> Forall2 VR (vars_of st) (concat ens).
Proof.
  unfold FRS, vars_of. intros H. apply Forall2_concat.
  induction H; cbn; constructor; auto.
Qed.

Lemma find_VR vs en n :
  Forall2 VR vs en -> option_map v_loc (find (name_is n) vs) = option_map fst (efind en n).
Proof.
  induction 1 as [|v x vs' en' Hvx Hr IH]; [reflexivity|].
  rewrite efind_cons. cbn [find]. unfold name_is at 1.
  destruct Hvx as [Hn [Hl _]]. rewrite Hn.
  destruct (beq_bytes (fst (fst x)) n); [cbn; rewrite Hl; reflexivity|exact IH].
Qed.

Lemma find_concat chain n l : find_loc_var chain n l = find (var_hit n l) (concat chain).
Proof.
  induction chain as [|vs r IH]; [reflexivity|]. cbn. rewrite find_app.
  destruct (find (var_hit n l) vs); [reflexivity|exact IH].
Qed.

Lemma lookup_clean st n l :
  clean_at st n l = true -> lookup st n l = find (name_is n) (vars_of st).
Proof.
  unfold clean_at, lookup. intros H. rewrite find_concat. fold (vars_of st).
  change (var_hit n l) with (fun v => name_is n v && is_correct_position v l).
  apply find_filter_first. destruct (find (name_is n) (vars_of st)); [exact H|exact I].
Qed.

(* what a clean look-up returns, in terms of the related environment *)
Lemma lookup_clean_env st ens n l :
  FRS st ens -> clean_at st n l = true ->
  match option_map v_loc (lookup st n l) with Some d => BLocal d | None => BGlobal n end = resolve (concat ens) n.
Proof.
  intros Hf Hc. rewrite (lookup_clean _ _ _ Hc), (find_VR _ _ n (vars_VR _ _ Hf)), resolve_efind.
  destruct (efind (concat ens) n) as [[d f]|]; reflexivity.
Qed.

(* ---- frame operations *)
Lemma FRS_push l st ens : FRS st ens -> FRS (push l st) ([] :: ens).
Proof. intros H. unfold FRS, push. cbn. constructor; [constructor|exact H]. Qed.

Lemma FRS_pop st seg ens : ens <> [] -> FRS st (seg :: ens) -> FRS (pop st) ens /\ t_occs (pop st) = t_occs st.
Proof.
  intros Hne H. unfold FRS in H. unfold pop.
  destruct (t_frames st) as [|f fs] eqn:Ef; [inversion H|].
  inversion H as [|? ? ? ? Hf Hfs]; subst.
  destruct fs as [|p rest]; [inversion Hfs; subst; try contradiction; exfalso; auto|].
  cbn. split; [|reflexivity]. unfold FRS. cbn.
  inversion Hfs as [|? ? ? ? Hp Hrest]; subst. constructor; [exact Hp|exact Hrest].
Qed.

Lemma FRS_add v x st seg rest : VR v x -> FRS st (seg :: rest) -> FRS (add_var v st) ((x :: seg) :: rest).
Proof.
  intros Hv H. unfold FRS in *. unfold add_var.
  destruct (t_frames st) as [|f fs]; [inversion H|].
  inversion H; subst. cbn. constructor; [constructor; assumption|assumption].
Qed.

Lemma add_var_occs v st : t_occs (add_var v st) = t_occs st.
Proof. unfold add_var. destruct (t_frames st); reflexivity. Qed.

(* re-pointing keeps names, declaration Locs and "empty implies declared empty" *)
Lemma VR_repoint n eo v x : VR v x -> VR (repoint n eo v) x.
Proof.
  intros [Hn [Hl He]]. unfold repoint. destruct (v_empty v) eqn:E.
  - destruct eo; repeat split; cbn; auto; intros; try discriminate; auto.
  - repeat split; auto. rewrite E. exact He.
Qed.

Lemma upd_first_VR p f vs vs' seg :
  (forall v x, VR v x -> VR (f v) x) -> upd_first p f vs = Some vs' -> Forall2 VR vs seg -> Forall2 VR vs' seg.
Proof.
  intros Hf. revert vs' seg. induction vs as [|v r IH]; intros vs' seg Hu H; [discriminate|].
  cbn in Hu. inversion H as [|? x ? seg' Hvx Hr]; subst.
  destruct (p v).
  - injection Hu as Hu. subst vs'. constructor; auto.
  - destruct (upd_first p f r) as [r'|] eqn:E; [|discriminate]. injection Hu as Hu. subst vs'.
    constructor; auto.
Qed.

Lemma upd_frames_FRS p f fs ens :
  (forall v x, VR v x -> VR (f v) x) ->
  Forall2 (fun fr seg => Forall2 VR (f_vars fr) seg) fs ens ->
  Forall2 (fun fr seg => Forall2 VR (f_vars fr) seg) (upd_frames p f fs) ens.
Proof.
  intros Hf H. induction H as [|fr seg fs' ens' Hfr Hrest IH]; [constructor|].
  cbn. destruct (upd_first p f (f_vars fr)) as [vs'|] eqn:E.
  - constructor; [cbn; eapply upd_first_VR; eauto|exact Hrest].
  - constructor; assumption.
Qed.

(* ------------------------------------------------------------------ cores *)
Lemma ccore_app a b : ccore (a ++ b) = ccore a ++ ccore b.
Proof. unfold ccore. rewrite map_app, filter_app. reflexivity. Qed.

Lemma ccore_flat_map {A} (f : A -> list socc) xs : ccore (flat_map f xs) = flat_map (fun x => ccore (f x)) xs.
Proof. induction xs as [|x r IH]; [reflexivity|]. cbn [flat_map]. rewrite ccore_app, IH. reflexivity. Qed.

Lemma ccore_concat xs : ccore (concat xs) = concat (map ccore xs).
Proof. induction xs as [|x r IH]; [reflexivity|]. cbn [concat map]. rewrite ccore_app, IH. reflexivity. Qed.

Lemma ctag_eqb_sym_false t : t <> CB3 -> ctag_eqb CB3 t = false.
Proof. destruct t; intros H; try reflexivity. contradiction. Qed.

Lemma core_add_tag t o : t <> CB3 -> core_of (add_tag t o) = core_of o.
Proof.
  intros H. unfold core_of, add_tag, has_tag. cbn [s_loc s_name s_bind s_role s_cls existsb].
  rewrite (ctag_eqb_sym_false t H). reflexivity.
Qed.

Lemma map_core_tag_if c t os : t <> CB3 -> map core_of (tag_if c t os) = map core_of os.
Proof.
  intros H. unfold tag_if. rewrite map_map. apply map_ext. intros o.
  destruct (c o); [apply core_add_tag; exact H|reflexivity].
Qed.

Lemma ccore_tag_if c t os : t <> CB3 -> ccore (tag_if c t os) = ccore os.
Proof. intros H. unfold ccore. rewrite map_core_tag_if by exact H. reflexivity. Qed.

Lemma ccore_decls en flv slv reg e pl : ccore (map (decl_occ en flv slv reg e) pl) = [].
Proof. induction pl as [|p r IH]; [reflexivity|]. cbn. exact IH. Qed.

Lemma ccore_nd os : map core_of (nd os) = ccore os.
Proof.
  unfold nd, ccore. induction os as [|o r IH]; [reflexivity|]. cbn.
  unfold nondecl at 1. cbn. destruct (is_decl (s_role o)); cbn; [exact IH|f_equal; exact IH].
Qed.

(* ------------------------------------------------------------------ the relation between a logged occurrence and a core *)
Definition Rc (C : list N -> bool) (Exc : excp) (o : occ) (c : core) : Prop :=
  o_loc o = c_loc c /\ o_name o = c_name c /\ krole (o_kind o) (c_role c) /\
  (o_kind o = ODefineG -> o_res o = None) /\
  (C (o_name o) = true -> ~ Exc (c_name c) (c_bind c) -> c_b3 c = false -> tbind o = c_bind c).

Lemma Rc_mono (C C' : list N -> bool) Exc news cs :
  (forall n, C' n = true -> C n = true) -> Forall2 (Rc C Exc) news cs -> Forall2 (Rc C' Exc) news cs.
Proof.
  intros H. apply Forall2_impl. intros o c [H1 [H2 [H3 [H4 H5]]]]. repeat split; auto.
Qed.

Definition cfun := list N -> tstate -> bool.

(* expression-like pieces: the frame stack is unchanged *)
Definition SimE (f : tT) (c : cfun) (spec : env -> list socc) : Prop :=
  forall st ens en Exc, FRS st ens -> ens <> [] -> EQ Exc (concat ens) en ->
    exists news cs, t_occs (f st) = rev news ++ t_occs st /\ FRS (f st) ens /\
      Permutation cs (ccore (spec en)) /\ Forall2 (Rc (fun nm => c nm st) Exc) news cs.

(* statement-like pieces: declarations are added to the innermost frame *)
Definition SimS (f : tT) (c : cfun) (spec : env -> bres) : Prop :=
  forall st seg rest en Exc, FRS st (seg :: rest) -> EQ Exc (concat (seg :: rest)) en ->
    exists news cs seg', t_occs (f st) = rev news ++ t_occs st /\ FRS (f st) (seg' :: rest) /\
      EQ Exc (concat (seg' :: rest)) (fst (spec en)) /\
      Permutation cs (ccore (snd (spec en))) /\ Forall2 (Rc (fun nm => c nm st) Exc) news cs.

Lemma SimE_ext (f f' : tT) (c c' : cfun) s s' :
  (forall st, f' st = f st) -> (forall nm st, c' nm st = c nm st) -> (forall en, s' en = s en) ->
  SimE f c s -> SimE f' c' s'.
Proof.
  intros Hf Hc Hs H st ens en Exc Hfr Hne Heq.
  destruct (H st ens en Exc Hfr Hne Heq) as [news [cs [H1 [H2 [H3 H4]]]]].
  exists news, cs. rewrite Hf, Hs. repeat split; auto.
  eapply Rc_mono; [|exact H4]. intros n Hn. cbv beta in *. rewrite <- Hc. exact Hn.
Qed.

Lemma SimS_ext (f f' : tT) (c c' : cfun) s s' :
  (forall st, f' st = f st) -> (forall nm st, c' nm st = c nm st) -> (forall en, s' en = s en) ->
  SimS f c s -> SimS f' c' s'.
Proof.
  intros Hf Hc Hs H st seg rest en Exc Hfr Heq.
  destruct (H st seg rest en Exc Hfr Heq) as [news [cs [seg' [H1 [H2 [H3 [H4 H5]]]]]]].
  exists news, cs, seg'. rewrite Hf, Hs. repeat split; auto.
  eapply Rc_mono; [|exact H5]. intros n Hn. cbv beta in *. rewrite <- Hc. exact Hn.
Qed.

Lemma SimE_perm f c s s' :
  (forall en, Permutation (ccore (s en)) (ccore (s' en))) -> SimE f c s -> SimE f c s'.
Proof.
  intros Hp H st ens en Exc Hfr Hne Heq.
  destruct (H st ens en Exc Hfr Hne Heq) as [news [cs [H1 [H2 [H3 H4]]]]].
  exists news, cs. repeat split; auto. eapply Permutation_trans; [exact H3|apply Hp].
Qed.

Lemma SimS_perm f c s s' :
  (forall en, fst (s' en) = fst (s en) /\ Permutation (ccore (snd (s en))) (ccore (snd (s' en)))) ->
  SimS f c s -> SimS f c s'.
Proof.
  intros Hp H st seg rest en Exc Hfr Heq.
  destruct (H st seg rest en Exc Hfr Heq) as [news [cs [seg' [H1 [H2 [H3 [H4 H5]]]]]]].
  destruct (Hp en) as [Hp1 Hp2].
  exists news, cs, seg'. rewrite Hp1. repeat split; auto. eapply Permutation_trans; [exact H4|exact Hp2].
Qed.

Lemma SimE_id : SimE (fun st => st) (fun _ _ => true) (fun _ => []).
Proof.
  intros st ens en Exc Hfr Hne Heq. exists [], []. repeat split; auto; constructor.
Qed.

Lemma SimE_seq f1 c1 s1 f2 c2 s2 :
  SimE f1 c1 s1 -> SimE f2 c2 s2 ->
  SimE (fun st => f2 (f1 st)) (fun nm st => c1 nm st && c2 nm (f1 st)) (fun en => s1 en ++ s2 en).
Proof.
  intros H1 H2 st ens en Exc Hfr Hne Heq.
  destruct (H1 st ens en Exc Hfr Hne Heq) as [n1 [k1 [A1 [A2 [A3 A4]]]]].
  destruct (H2 (f1 st) ens en Exc A2 Hne Heq) as [n2 [k2 [B1 [B2 [B3 B4]]]]].
  exists (n1 ++ n2), (k1 ++ k2). repeat split.
  - rewrite B1, A1, rev_app_distr, app_assoc. reflexivity.
  - exact B2.
  - rewrite ccore_app. apply Permutation_app; assumption.
  - apply Forall2_app.
    + eapply Rc_mono; [|exact A4]. intros n Hn. apply andb_true_iff in Hn. apply Hn.
    + eapply Rc_mono; [|exact B4]. intros n Hn. apply andb_true_iff in Hn. apply Hn.
Qed.

Lemma SimE_list {A} (F : A -> tT) (Cc : A -> cfun) (S : A -> env -> list socc) xs :
  Forall (fun x => SimE (F x) (Cc x) (S x)) xs ->
  SimE (apply_all (map F xs)) (fun nm => cl_all (map (fun x => (F x, Cc x nm)) xs))
       (fun en => flat_map (fun x => S x en) xs).
Proof.
  induction 1 as [|x r Hx Hr IH].
  - exact SimE_id.
  - eapply SimE_ext; [| | |exact (SimE_seq _ _ _ _ _ _ Hx IH)]; intros; reflexivity.
Qed.

Lemma SimS_of_E f c s : SimE f c s -> SimS f c (fun en => (en, s en)).
Proof.
  intros H st seg rest en Exc Hfr Heq.
  destruct (H st (seg :: rest) en Exc Hfr ltac:(discriminate) Heq) as [news [cs [H1 [H2 [H3 H4]]]]].
  exists news, cs, seg. repeat split; auto.
Qed.

Lemma SimE_scope l g c spec :
  SimS g c spec ->
  SimE (fun st => pop (g (push l st))) (fun nm st => c nm (push l st)) (fun en => snd (spec en)).
Proof.
  intros H st ens en Exc Hfr Hne Heq.
  destruct (H (push l st) [] ens en Exc (FRS_push l st ens Hfr) Heq) as [news [cs [seg' [H1 [H2 [H3 [H4 H5]]]]]]].
  destruct (FRS_pop _ _ _ Hne H2) as [P1 P2].
  exists news, cs. repeat split; auto. rewrite P2, H1. reflexivity.
Qed.

Lemma SimS_seq f1 c1 s1 f2 c2 s2 :
  SimS f1 c1 s1 -> SimS f2 c2 s2 ->
  SimS (fun st => f2 (f1 st)) (fun nm st => c1 nm st && c2 nm (f1 st))
       (fun en => (fst (s2 (fst (s1 en))), snd (s1 en) ++ snd (s2 (fst (s1 en))))).
Proof.
  intros H1 H2 st seg rest en Exc Hfr Heq.
  destruct (H1 st seg rest en Exc Hfr Heq) as [n1 [k1 [g1 [A1 [A2 [A3 [A4 A5]]]]]]].
  destruct (H2 (f1 st) g1 rest (fst (s1 en)) Exc A2 A3) as [n2 [k2 [g2 [B1 [B2 [B3 [B4 B5]]]]]]].
  exists (n1 ++ n2), (k1 ++ k2), g2. cbn [fst snd]. repeat split.
  - rewrite B1, A1, rev_app_distr, app_assoc. reflexivity.
  - exact B2.
  - exact B3.
  - rewrite ccore_app. apply Permutation_app; assumption.
  - apply Forall2_app.
    + eapply Rc_mono; [|exact A5]. intros n Hn. apply andb_true_iff in Hn. apply Hn.
    + eapply Rc_mono; [|exact B5]. intros n Hn. apply andb_true_iff in Hn. apply Hn.
Qed.

Lemma SimS_id : SimS (fun st => st) (fun _ _ => true) (fun en => (en, [])).
Proof. exact (SimS_of_E _ _ _ SimE_id). Qed.

(* a declaration: the spec side may list declaration occurrences (they have no core) *)
Lemma SimS_add v x (osf : env -> list socc) :
  VR v x -> (forall en, ccore (osf en) = []) ->
  SimS (add_var v) (fun _ _ => true) (fun en => (x :: en, osf en)).
Proof.
  intros Hv Hos st seg rest en Exc Hfr Heq.
  exists [], [], (x :: seg). cbn [fst snd]. repeat split.
  - rewrite add_var_occs. reflexivity.
  - apply FRS_add; assumption.
  - cbn. apply EQ_cons. exact Heq.
  - rewrite Hos. constructor.
  - constructor.
Qed.

(* seq_stats unfolds like a threaded fold *)
Lemma seq_stats_acc fs : forall en os,
  fold_left (fun (acc : bres) (f : env -> bres) =>
               match acc with (en1, os1) => match f en1 with (en2, os2) => (en2, os1 ++ os2) end end) fs (en, os)
  = (fst (seq_stats fs en), os ++ snd (seq_stats fs en)).
Proof.
  induction fs as [|f r IH]; intros en os.
  - cbn. rewrite app_nil_r. reflexivity.
  - unfold seq_stats. cbn [fold_left]. destruct (f en) as [en2 os2] eqn:Ef.
    rewrite IH. cbn [app]. rewrite (IH en2 os2). cbn [fst snd]. rewrite app_assoc. reflexivity.
Qed.

Lemma seq_stats_cons f fs en :
  seq_stats (f :: fs) en = (fst (seq_stats fs (fst (f en))), snd (f en) ++ snd (seq_stats fs (fst (f en)))).
Proof.
  unfold seq_stats at 1. cbn [fold_left]. destruct (f en) as [en2 os2]. cbn [app fst snd].
  rewrite seq_stats_acc. reflexivity.
Qed.

Lemma SimS_list {A} (F : A -> tT) (Cc : A -> cfun) (S : A -> env -> bres) xs :
  Forall (fun x => SimS (F x) (Cc x) (S x)) xs ->
  SimS (apply_all (map F xs)) (fun nm => cl_all (map (fun x => (F x, Cc x nm)) xs))
       (fun en => seq_stats (map S xs) en).
Proof.
  induction 1 as [|x r Hx Hr IH].
  - exact SimS_id.
  - eapply SimS_ext; [| | |exact (SimS_seq _ _ _ _ _ _ Hx IH)]; try (intros; reflexivity).
    intros en. cbn [map]. apply seq_stats_cons.
Qed.

Lemma push_decls_cons en p pl f fl : push_decls en (p :: pl) (f :: fl) = push_decls ((p, f) :: en) pl fl.
Proof. reflexivity. Qed.

Lemma SimS_add_params pl (osf : env -> list socc) :
  (forall en, ccore (osf en) = []) ->
  SimS (add_params pl) (fun _ _ => true) (fun en => (push_decls en pl (map (fun _ => false) pl), osf en)).
Proof.
  intros Hos. induction pl as [|p r IH].
  - intros st seg rest en Exc Hfr Heq. exists [], [], seg. cbn [fst snd].
    repeat split; auto; try (rewrite Hos); constructor.
  - assert (Hv : VR (mkV (fst p) (snd p) RNone false) (p, false)).
    { repeat split; cbn; auto; discriminate. }
    pose proof (SimS_seq _ _ _ _ _ _ (SimS_add _ _ (fun _ => []) Hv (fun _ => eq_refl)) IH) as H.
    eapply SimS_ext; [| | |eapply SimS_perm; [|exact H]]; try (intros; reflexivity).
    intros en. cbn [fst snd app]. split; [reflexivity|]. rewrite !Hos. constructor.
Qed.
