(* C08 - lemmas about the diagnostics bookkeeping (Model/Diag.v): association maps, the client's fold of the
   notification stream, and for every operation of diagnostics_manager.go its exact effect on the client view of
   each file. *)
From Coq Require Import List NArith Bool Lia Permutation.
From LH Require Import Model.Diag.
Import ListNotations.
Local Open Scope N_scope.

(* ---------- equality tests ---------- *)
Lemma err_eqb_eq a b : err_eqb a b = true <-> a = b.
Proof.
  destruct a as [[t1 l1] g1], b as [[t2 l2] g2]. unfold err_eqb, etype, eline. cbn [fst snd].
  rewrite !andb_true_iff, !N.eqb_eq. split.
  - intros [[-> ->] ->]. reflexivity.
  - intros H. injection H as -> -> ->. auto.
Qed.

Lemma err_eqb_refl a : err_eqb a a = true.
Proof. apply err_eqb_eq. reflexivity. Qed.

Lemma errs_eqb_eq a b : errs_eqb a b = true <-> a = b.
Proof.
  revert b. induction a as [|x a IH]; intros [|y b]; cbn [errs_eqb]; split; intros H; try congruence; try discriminate.
  - apply andb_true_iff in H as [H1 H2]. apply err_eqb_eq in H1. apply IH in H2. congruence.
  - injection H as -> ->. rewrite err_eqb_refl. cbn. apply IH. reflexivity.
Qed.

Lemma errs_eqb_refl a : errs_eqb a a = true.
Proof. apply errs_eqb_eq. reflexivity. Qed.

(* ---------- association maps ---------- *)
Section AMapLemmas.
  Context {V : Type}.
  Implicit Types (m : amap V) (k : file).

  Lemma aget_adel_same m k : aget (adel m k) k = None.
  Proof.
    induction m as [|[k' v] m IH]; cbn [adel aget]; [reflexivity|].
    destruct (k' =? k) eqn:E; [exact IH|]. cbn [aget]. rewrite E. exact IH.
  Qed.

  Lemma aget_adel_other m k k' : k <> k' -> aget (adel m k) k' = aget m k'.
  Proof.
    intros Hne. induction m as [|[k0 v] m IH]; cbn [adel aget]; [reflexivity|].
    destruct (k0 =? k) eqn:E.
    - apply N.eqb_eq in E. subst k0. destruct (k =? k') eqn:E2; [apply N.eqb_eq in E2; congruence|]. exact IH.
    - cbn [aget]. destruct (k0 =? k'); [reflexivity|exact IH].
  Qed.

  Lemma aget_aset_same m k v : aget (aset m k v) k = Some v.
  Proof. unfold aset. cbn [aget]. rewrite N.eqb_refl. reflexivity. Qed.

  Lemma aget_aset_other m k k' v : k <> k' -> aget (aset m k v) k' = aget m k'.
  Proof.
    intros Hne. unfold aset. cbn [aget]. destruct (k =? k') eqn:E; [apply N.eqb_eq in E; congruence|].
    apply aget_adel_other. exact Hne.
  Qed.

  Lemma aget_aset m k k' v : aget (aset m k v) k' = if k =? k' then Some v else aget m k'.
  Proof.
    destruct (k =? k') eqn:E.
    - apply N.eqb_eq in E. subst. apply aget_aset_same.
    - apply aget_aset_other. intros ->. rewrite N.eqb_refl in E. discriminate.
  Qed.

  Lemma aget_adel m k k' : aget (adel m k) k' = if k =? k' then None else aget m k'.
  Proof.
    destruct (k =? k') eqn:E.
    - apply N.eqb_eq in E. subst. apply aget_adel_same.
    - apply aget_adel_other. intros ->. rewrite N.eqb_refl in E. discriminate.
  Qed.

  Lemma aget_in_keys m k : In k (akeys m) <-> aget m k <> None.
  Proof.
    induction m as [|[k' v] m IH]; cbn [akeys map aget In fst].
    - split; [tauto|congruence].
    - destruct (k' =? k) eqn:E.
      + apply N.eqb_eq in E. split; [congruence|auto].
      + split.
        * intros [H|H]; [subst; rewrite N.eqb_refl in E; discriminate|]. apply IH. exact H.
        * intros H. right. apply IH. exact H.
  Qed.

  Lemma ahas_in_keys m k : ahas m k = true <-> In k (akeys m).
  Proof.
    rewrite aget_in_keys. unfold ahas. destruct (aget m k); split; intros; congruence.
  Qed.

  Lemma aget_map_snd {W} (g : V -> W) m k :
    aget (map (fun kv => (fst kv, g (snd kv))) m) k = option_map g (aget m k).
  Proof.
    induction m as [|[k' v] m IH]; cbn [map aget fst snd]; [reflexivity|].
    destruct (k' =? k); [reflexivity|exact IH].
  Qed.
End AMapLemmas.

Lemma vget_aset m k k' l : vget (aset m k l) k' = if k =? k' then l else vget m k'.
Proof. unfold vget. rewrite aget_aset. destruct (k =? k'); reflexivity. Qed.

Lemma vget_adel m k k' : vget (adel m k) k' = if k =? k' then [] else vget m k'.
Proof. unfold vget. rewrite aget_adel. destruct (k =? k'); reflexivity. Qed.

(* aget on a map built by filtering a key list *)
Lemma aget_flat_map_keys {V} (g : file -> option V) (ks : list file) k :
  aget (flat_map (fun f => match g f with Some v => [(f, v)] | None => [] end) ks) k =
  if existsb (N.eqb k) ks then g k else None.
Proof.
  induction ks as [|x ks IH]; cbn [flat_map existsb]; [reflexivity|].
  destruct (k =? x) eqn:E.
  - apply N.eqb_eq in E. subst x. cbn [orb]. destruct (g k) eqn:G; cbn [app aget].
    + rewrite N.eqb_refl. reflexivity.
    + rewrite IH. destruct (existsb (N.eqb k) ks); reflexivity.
  - cbn [orb]. destruct (g x); cbn [app aget]; [|exact IH].
    rewrite N.eqb_sym in E. rewrite E. exact IH.
Qed.

(* ---------- the client view ---------- *)
Fixpoint lastpub (ps : list publish) (g : file) : option (list err) :=
  match ps with
  | [] => None
  | p :: r => match lastpub r g with
              | Some x => Some x
              | None => if fst p =? g then Some (snd p) else None
              end
  end.

Lemma vapply_app v a b : vapply v (a ++ b) = vapply (vapply v a) b.
Proof. unfold vapply. apply fold_left_app. Qed.

Lemma vget_vapply v ps g :
  vget (vapply v ps) g = match lastpub ps g with Some l => l | None => vget v g end.
Proof.
  revert v. induction ps as [|[f l] r IH]; intros v; [reflexivity|].
  change (vapply v ((f, l) :: r)) with (vapply (aset v f l) r). rewrite IH. cbn [lastpub fst snd].
  destruct (lastpub r g); [reflexivity|]. rewrite vget_aset. destruct (f =? g); reflexivity.
Qed.

Lemma lastpub_app a b g :
  lastpub (a ++ b) g = match lastpub b g with Some x => Some x | None => lastpub a g end.
Proof.
  induction a as [|p a IH]; cbn [app lastpub].
  - destruct (lastpub b g); reflexivity.
  - rewrite IH. destruct (lastpub b g); reflexivity.
Qed.

Lemma lastpub_no_key ps g : (forall p, In p ps -> fst p <> g) -> lastpub ps g = None.
Proof.
  induction ps as [|p r IH]; intros H; [reflexivity|]. cbn [lastpub]. rewrite IH.
  - destruct (fst p =? g) eqn:E; [|reflexivity]. apply N.eqb_eq in E. exfalso. exact (H p (or_introl eq_refl) E).
  - intros q Hq. apply H. right. exact Hq.
Qed.

(* a stream produced key by key, every publication of key k about k itself *)
Lemma lastpub_flat_map (F : file -> list publish) (ks : list file) g :
  (forall k p, In p (F k) -> fst p = k) ->
  lastpub (flat_map F ks) g = if existsb (N.eqb g) ks then lastpub (F g) g else None.
Proof.
  intros HF. induction ks as [|k ks IH]; cbn [flat_map existsb]; [reflexivity|].
  rewrite lastpub_app, IH. destruct (g =? k) eqn:E.
  - apply N.eqb_eq in E. subst k. cbn [orb]. destruct (existsb (N.eqb g) ks); [|reflexivity].
    destruct (lastpub (F g) g); reflexivity.
  - cbn [orb]. destruct (existsb (N.eqb g) ks).
    + destruct (lastpub (F g) g); [reflexivity|]. apply lastpub_no_key. intros p Hp Hk.
      rewrite (HF k p Hp) in Hk. subst k. rewrite N.eqb_refl in E. discriminate.
    + apply lastpub_no_key. intros p Hp Hk. rewrite (HF k p Hp) in Hk. subst k. rewrite N.eqb_refl in E. discriminate.
Qed.

Lemma existsb_eqb_in (g : file) ks : existsb (N.eqb g) ks = true <-> In g ks.
Proof.
  rewrite existsb_exists. split.
  - intros [x [Hx E]]. apply N.eqb_eq in E. subst. exact Hx.
  - intros H. exists g. split; [exact H|apply N.eqb_refl].
Qed.

Lemma existsb_keys {V} (m : amap V) g : existsb (N.eqb g) (akeys m) = ahas m g.
Proof.
  destruct (ahas m g) eqn:E.
  - apply existsb_eqb_in. apply ahas_in_keys. exact E.
  - destruct (existsb (N.eqb g) (akeys m)) eqn:E2; [|reflexivity].
    apply existsb_eqb_in in E2. apply ahas_in_keys in E2. congruence.
Qed.

(* ---------- the single-file operations ---------- *)
Lemma nonsyn_nil : nonsyn [] = [].
Proof. reflexivity. Qed.

Lemma clear_change_live d f g :
  aget (live (fst (clear_change d f))) g = if f =? g then None else aget (live d) g.
Proof.
  unfold clear_change. destruct (ahas (live d) f) eqn:E; cbn [fst live].
  - apply aget_adel.
  - destruct (f =? g) eqn:E2; [|reflexivity]. apply N.eqb_eq in E2. subst g.
    unfold ahas in E. destruct (aget (live d) f); [discriminate|reflexivity].
Qed.

Lemma clear_change_saved d f : saved (fst (clear_change d f)) = saved d.
Proof. unfold clear_change. destruct (ahas (live d) f); reflexivity. Qed.

Lemma clear_change_clean d f : clean (fst (clear_change d f)) = clean d.
Proof. unfold clear_change. destruct (ahas (live d) f); reflexivity. Qed.

Lemma save_push_again_clean d f : clean (fst (save_push_again d f)) = frem f (clean d).
Proof. reflexivity. Qed.

Lemma clear_change_view d f v g :
  vget (vapply v (snd (clear_change d f))) g =
  if (f =? g) && ahas (live d) f then nonsyn (vget (saved d) f) else vget v g.
Proof.
  unfold clear_change. destruct (ahas (live d) f) eqn:E; cbn [snd]; rewrite vget_vapply.
  - unfold clear_one, push_file_diag. cbn [saved]. unfold vget at 2.
    destruct (aget (saved d) f) as [l|]; cbn [app lastpub fst snd]; destruct (f =? g); cbn [andb]; reflexivity.
  - cbn [lastpub]. rewrite andb_false_r. reflexivity.
Qed.

Lemma insert_change_view d f l v g :
  vget (vapply v (snd (insert_change d f l))) g = if f =? g then l else vget v g.
Proof.
  unfold insert_change, push_file_change. cbn [snd live]. rewrite aget_aset_same. rewrite vget_vapply.
  cbn [lastpub fst snd]. destruct (f =? g); reflexivity.
Qed.

Lemma clear_syntax_view d f v g :
  vget (vapply v (clear_syntax d f)) g =
  if (f =? g) && ahas (saved d) f then nonsyn (vget (saved d) f) else vget v g.
Proof.
  unfold clear_syntax. destruct (ahas (saved d) f) eqn:E; rewrite vget_vapply.
  - unfold clear_one, push_file_diag, vget at 2. unfold ahas in E. destruct (aget (saved d) f) as [l|]; [|discriminate].
    cbn [app lastpub fst snd]. destruct (f =? g); reflexivity.
  - cbn [lastpub]. rewrite andb_false_r. reflexivity.
Qed.

Lemma save_push_again_view d f v g :
  vget (vapply v (snd (save_push_again d f))) g = if f =? g then vget (saved d) f else vget v g.
Proof.
  unfold save_push_again. cbn [snd saved]. rewrite vget_vapply. unfold push_file_diag, clear_one, ahas, vget at 2.
  cbn [saved]. destruct (aget (saved d) f) as [l|]; cbn [lastpub fst snd]; destruct (f =? g); reflexivity.
Qed.

Lemma save_push_again_live d f g :
  aget (live (fst (save_push_again d f))) g = if f =? g then None else aget (live d) g.
Proof. unfold save_push_again. cbn [fst live]. apply aget_adel. Qed.

Lemma push_file_diag_full_view d f v g :
  vget (vapply v (push_file_diag d f false)) g =
  if (f =? g) && ahas (saved d) f then vget (saved d) f else vget v g.
Proof.
  unfold push_file_diag, ahas, vget at 2. rewrite vget_vapply.
  destruct (aget (saved d) f) as [l|]; cbn [lastpub fst snd].
  - destruct (f =? g); reflexivity.
  - rewrite andb_false_r. reflexivity.
Qed.

(* ---------- pushAllDiagnosticsAgain ---------- *)
Lemma push_all_change_last d g :
  lastpub (push_all_change d) g = aget (live d) g.
Proof.
  unfold push_all_change. rewrite lastpub_flat_map.
  - rewrite existsb_keys. unfold ahas. destruct (aget (live d) g) as [l|]; [|reflexivity].
    unfold clear_one. cbn [app lastpub fst snd]. rewrite N.eqb_refl. reflexivity.
  - intros k p. destruct (aget (live d) k); cbn; [|tauto]. intros [<-|[<-|[]]]; reflexivity.
Qed.

Lemma push_all_again_view0 fix12a d new v g :
  vget (vapply v (snd (push_all_again fix12a false d new))) g =
  match (if is_nil new || fix12a then aget (live d) g else None) with
  | Some l => l
  | None =>
    match aget new g, aget (saved d) g with
    | Some l, None => l
    | Some l, Some old => if errs_eqb old l then vget v g else l
    | None, Some _ => []
    | None, None => vget v g
    end
  end.
Proof.
  unfold push_all_again. cbn [snd]. rewrite app_nil_r. rewrite vget_vapply, !lastpub_app.
  assert (Hrest :
    match match lastpub (flat_map (fun k : file => match aget new k with
                | Some l => match aget (saved d) k with
                            | Some old => if errs_eqb old l then [] else [(k, l)]
                            | None => [(k, l)]
                            end
                | None => []
                end) (akeys new)) g with
          | Some x => Some x
          | None => lastpub (flat_map (fun k : file => if ahas new k then [] else clear_one k) (akeys (saved d))) g
          end with
    | Some l => l
    | None => vget v g
    end =
    match aget new g, aget (saved d) g with
    | Some l, None => l
    | Some l, Some old => if errs_eqb old l then vget v g else l
    | None, Some _ => []
    | None, None => vget v g
    end).
  { rewrite lastpub_flat_map.
    2:{ intros k p. destruct (aget new k) as [l|]; [|cbn; tauto]. destruct (aget (saved d) k) as [l0|].
        - destruct (errs_eqb l0 l); cbn; [tauto|]. intros [<-|[]]. reflexivity.
        - cbn. intros [<-|[]]. reflexivity. }
    rewrite existsb_keys. unfold ahas at 1.
    rewrite lastpub_flat_map.
    2:{ intros k p. destruct (ahas new k); cbn; [tauto|]. intros [<-|[]]. reflexivity. }
    rewrite existsb_keys. unfold ahas.
    destruct (aget new g) as [l|] eqn:En.
    - destruct (aget (saved d) g) as [old|] eqn:Eo.
      + destruct (errs_eqb old l) eqn:Ee; cbn [lastpub fst snd]; [reflexivity|].
        rewrite N.eqb_refl. reflexivity.
      + cbn [lastpub fst snd]. rewrite N.eqb_refl. reflexivity.
    - destruct (aget (saved d) g) as [old|]; [|reflexivity].
      unfold clear_one. cbn [lastpub fst snd]. rewrite N.eqb_refl. reflexivity. }
  destruct (is_nil new || fix12a).
  - rewrite push_all_change_last. cbn [live]. destruct (aget (live d) g) as [l|]; [reflexivity|]. exact Hrest.
  - cbn [lastpub]. exact Hrest.
Qed.

(* ---------- the re-hiding pass of the repaired pushAllDiagnosticsAgain ---------- *)
Lemma existsb_fmem (g : file) l : existsb (N.eqb g) l = fmem g l.
Proof. reflexivity. Qed.

Lemma clear_syntax_list_view d l v g :
  vget (vapply v (flat_map (clear_syntax d) l)) g =
  if fmem g l && ahas (saved d) g then nonsyn (vget (saved d) g) else vget v g.
Proof.
  rewrite vget_vapply, lastpub_flat_map.
  - rewrite existsb_fmem. destruct (fmem g l); cbn [andb]; [|reflexivity].
    unfold clear_syntax. destruct (ahas (saved d) g) eqn:E; [|reflexivity].
    unfold clear_one, push_file_diag, vget. unfold ahas in E. destruct (aget (saved d) g) as [x|]; [|discriminate].
    cbn [app lastpub fst snd]. rewrite N.eqb_refl. reflexivity.
  - intros k p. unfold clear_syntax. destruct (ahas (saved d) k); [|intros []].
    unfold clear_one, push_file_diag. destruct (aget (saved d) k); cbn [app In].
    + intros [<-|[<-|[]]]; reflexivity.
    + intros [<-|[]]. reflexivity.
Qed.

Lemma push_all_again_split fix12a fixun d new :
  snd (push_all_again fix12a fixun d new) =
  snd (push_all_again fix12a false d new) ++
  (if fixun then flat_map (clear_syntax {| saved := new; live := live d; clean := clean d |}) (clean d) else []).
Proof. unfold push_all_again. cbn [snd]. rewrite app_nil_r, !app_assoc. reflexivity. Qed.

Lemma push_all_again_view fix12a fixun d new v g :
  vget (vapply v (snd (push_all_again fix12a fixun d new))) g =
  if fixun && fmem g (clean d) && ahas new g then nonsyn (vget new g) else
  match (if is_nil new || fix12a then aget (live d) g else None) with
  | Some l => l
  | None =>
    match aget new g, aget (saved d) g with
    | Some l, None => l
    | Some l, Some old => if errs_eqb old l then vget v g else l
    | None, Some _ => []
    | None, None => vget v g
    end
  end.
Proof.
  rewrite push_all_again_split, vapply_app. destruct fixun; cbn [andb].
  - rewrite clear_syntax_list_view. cbn [saved]. destruct (fmem g (clean d) && ahas new g); [reflexivity|].
    apply push_all_again_view0.
  - cbn [vapply fold_left]. apply push_all_again_view0.
Qed.

Lemma push_all_again_state fix12a fixun d new :
  fst (push_all_again fix12a fixun d new) = {| saved := new; live := live d; clean := clean d |}.
Proof. reflexivity. Qed.

(* ---------- the invariant that holds for ALL notification streams the server can produce ----------
   whatever happened, the client's list for a file is one of: the live list, the saved list, the saved list without
   its syntax errors (lists of absent files read as []). It is stated on (dstate, view) pairs and shown preserved by
   every operation; Proofs/EventsProofs.v lifts it to histories. *)
Definition tracks (d : dstate) (v : emap) : Prop :=
  forall g, vget v g = vget (live d) g \/ vget v g = vget (saved d) g \/ vget v g = nonsyn (vget (saved d) g).

Lemma push_all_init_last e g : lastpub (push_all_init e) g = aget e g.
Proof.
  unfold push_all_init. rewrite lastpub_flat_map.
  - rewrite existsb_keys. unfold ahas. destruct (aget e g) as [l|]; [|reflexivity].
    cbn [lastpub fst snd]. rewrite N.eqb_refl. reflexivity.
  - intros k p. destruct (aget e k); cbn; [|tauto]. intros [<-|[]]. reflexivity.
Qed.

Lemma push_all_init_view e g : vget (vapply [] (push_all_init e)) g = vget e g.
Proof. rewrite vget_vapply, push_all_init_last. unfold vget. destruct (aget e g); reflexivity. Qed.

Lemma tracks_init e : tracks {| saved := e; live := []; clean := [] |} (vapply [] (push_all_init e)).
Proof. intros g. right. left. cbn [saved]. apply push_all_init_view. Qed.

Lemma tracks_clear_change d f v :
  tracks d v -> tracks (fst (clear_change d f)) (vapply v (snd (clear_change d f))).
Proof.
  intros H g. specialize (H g). rewrite clear_change_view, clear_change_saved.
  assert (Hl : vget (live (fst (clear_change d f))) g = if f =? g then [] else vget (live d) g).
  { unfold vget. rewrite clear_change_live. destruct (f =? g); reflexivity. }
  rewrite Hl. destruct (f =? g) eqn:E.
  - apply N.eqb_eq in E. subst g. destruct (ahas (live d) f) eqn:El; cbn [andb].
    + right. right. reflexivity.
    + destruct H as [H1|H1]; [|right; exact H1]. left. rewrite H1. unfold vget, ahas in *.
      destruct (aget (live d) f); [discriminate|reflexivity].
  - cbn [andb]. exact H.
Qed.

Lemma tracks_insert_change d f l v :
  tracks d v -> tracks (fst (insert_change d f l)) (vapply v (snd (insert_change d f l))).
Proof.
  intros H g. rewrite insert_change_view. unfold insert_change. cbn [fst live saved]. rewrite vget_aset.
  destruct (f =? g); [left; reflexivity|exact (H g)].
Qed.

Lemma tracks_clear_syntax d f v : tracks d v -> tracks d (vapply v (clear_syntax d f)).
Proof.
  intros H g. rewrite clear_syntax_view. destruct (f =? g) eqn:E; [|exact (H g)].
  apply N.eqb_eq in E. subst g. destruct (ahas (saved d) f); cbn [andb]; [right; right; reflexivity|exact (H f)].
Qed.

Lemma tracks_save_push_again d f v :
  tracks d v -> tracks (fst (save_push_again d f)) (vapply v (snd (save_push_again d f))).
Proof.
  intros H g. specialize (H g). rewrite save_push_again_view.
  assert (Hl : vget (live (fst (save_push_again d f))) g = if f =? g then [] else vget (live d) g).
  { unfold vget. rewrite save_push_again_live. destruct (f =? g); reflexivity. }
  rewrite Hl. unfold save_push_again. cbn [fst saved]. destruct (f =? g) eqn:E.
  - apply N.eqb_eq in E. subst g. right. left. reflexivity.
  - exact H.
Qed.

Lemma tracks_push_file_diag_full d f v : tracks d v -> tracks d (vapply v (push_file_diag d f false)).
Proof.
  intros H g. rewrite push_file_diag_full_view. destruct (f =? g) eqn:E; [|exact (H g)].
  apply N.eqb_eq in E. subst g. destruct (ahas (saved d) f); cbn [andb]; [right; left; reflexivity|exact (H f)].
Qed.

Lemma tracks_set_clean d c v : tracks d v -> tracks (set_clean d c) v.
Proof. intros H. exact H. Qed.

Lemma tracks_clear_syntax_list d l : forall v, tracks d v -> tracks d (vapply v (flat_map (clear_syntax d) l)).
Proof.
  induction l as [|f l IH]; intros v H; [exact H|]. cbn [flat_map]. rewrite vapply_app. apply IH.
  apply tracks_clear_syntax. exact H.
Qed.

Lemma tracks_push_all_again0 fix12a d new v :
  tracks d v -> tracks (fst (push_all_again fix12a false d new)) (vapply v (snd (push_all_again fix12a false d new))).
Proof.
  intros H g. specialize (H g). rewrite push_all_again_view0, push_all_again_state. cbn [saved live].
  destruct (if is_nil new || fix12a then aget (live d) g else None) as [l|] eqn:El.
  - left. destruct (is_nil new || fix12a); [|discriminate]. unfold vget. rewrite El. reflexivity.
  - destruct (aget new g) as [l|] eqn:En.
    + assert (Hn : vget new g = l) by (unfold vget; rewrite En; reflexivity). rewrite Hn.
      destruct (aget (saved d) g) as [old|] eqn:Eo.
      * destruct (errs_eqb old l) eqn:Ee; [|right; left; reflexivity].
        apply errs_eqb_eq in Ee.
        assert (Ho : vget (saved d) g = old) by (unfold vget; rewrite Eo; reflexivity). rewrite Ho, Ee in H. exact H.
      * right. left. reflexivity.
    + assert (Hn : vget new g = []) by (unfold vget; rewrite En; reflexivity). rewrite Hn.
      destruct (aget (saved d) g) as [old|] eqn:Eo; [right; left; reflexivity|].
      assert (Ho : vget (saved d) g = []) by (unfold vget; rewrite Eo; reflexivity). rewrite Ho in H. exact H.
Qed.

Lemma tracks_push_all_again fix12a fixun d new v :
  tracks d v -> tracks (fst (push_all_again fix12a fixun d new)) (vapply v (snd (push_all_again fix12a fixun d new))).
Proof.
  intros H. rewrite push_all_again_split, vapply_app. rewrite push_all_again_state.
  pose proof (tracks_push_all_again0 fix12a d new v H) as H0. rewrite push_all_again_state in H0.
  destruct fixun; [|exact H0]. apply tracks_clear_syntax_list. exact H0.
Qed.

Lemma tracks_remove_saved d f v : tracks d v -> tracks (remove_saved d f) (vapply v (clear_one f)).
Proof.
  intros H g. unfold remove_saved. cbn [saved live]. rewrite vget_vapply, vget_adel. unfold clear_one. cbn [lastpub fst snd].
  destruct (f =? g); [right; left; reflexivity|exact (H g)].
Qed.
