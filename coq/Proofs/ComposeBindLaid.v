(* Binder family, composition, part 0: the guards of the two resolver theorems compared.
   - Laid2 implies Laid: `marks2` (Proofs/PositionBindBase.v) is `marks` (Spec/LuaScope.v) plus one adjacent pair
     MOpen l / MClose l per EMPTY if-branch; deleting such pairs keeps a mark list laid out (laid2_laid);
   - the fragment with the parser shape of C05 (shape_ok) has the parser shape of C06 (tb_shape) (core_tb_shape).
   Hence the guard of C05 alone (core_guards_b = in_fragment && laid2_b W && no_repoint) gives the guard of the
   composition (bind_guard): core_bind_guard in Proofs/ComposeBindRun.v. *)
From Coq Require Import List NArith ZArith Bool Lia.
From LH Require Import Base.Bytes Model.Lexer Model.Ast Model.Scope Spec.LuaScope
  Proofs.PositionBindBase Proofs.TraverseBindDefs.
Import ListNotations.
Local Open Scope Z_scope.

(* ------------------------------------------------------------------ deleting adjacent MOpen l / MClose l pairs *)
Inductive msub : list mark -> list mark -> Prop :=
| ms_nil : msub [] []
| ms_keep m a b : msub a b -> msub (m :: a) (m :: b)
| ms_drop l a b : msub a b -> msub (MOpen l :: MClose l :: a) b.

Lemma msub_refl a : msub a a.
Proof. induction a as [|m r IH]; constructor; exact IH. Qed.

Lemma msub_app a b c d : msub a b -> msub c d -> msub (a ++ c) (b ++ d).
Proof. intros H. induction H as [|m a b H IH|l a b H IH]; intros Hc; cbn [app]; [exact Hc| |]; constructor; auto. Qed.

Lemma msub_flat_map {A} (g2 g1 : A -> list mark) xs :
  Forall (fun x => msub (g2 x) (g1 x)) xs -> msub (flat_map g2 xs) (flat_map g1 xs).
Proof. intros H. induction H as [|x r Hx Hr IH]; cbn [flat_map]; [constructor|apply msub_app; assumption]. Qed.

Section Steps.
  Variable W : Z.

  Lemma step_skip x l y :
    step_ok W x (MOpen l) = true -> step_ok W (MOpen l) (MClose l) = true -> step_ok W (MClose l) y = true ->
    step_ok W x y = true.
  Proof.
    unfold step_ok. cbn [mark_key ends begins andb orb negb].
    intros H1 H2 H3.
    apply andb_true_iff in H1. destruct H1 as [A1 A2]. apply andb_true_iff in H2. destruct H2 as [B1 _].
    apply andb_true_iff in H3. destruct H3 as [C1 C2].
    apply Z.leb_le in A1, B1, C1.
    apply andb_true_iff. split; [apply Z.leb_le; lia|].
    destruct (begins y) eqn:Eb.
    - (* the step from MClose l to y is strict *)
      cbn [negb orb] in C2. apply Z.ltb_lt in C2. rewrite orb_true_iff. right. apply Z.ltb_lt. lia.
    - rewrite andb_false_r. cbn [orb].
      destruct x; cbn [ends andb orb negb] in *; try reflexivity.
      (* x = MIdS: strict towards MOpen l *)
      apply Z.ltb_lt in A2. apply Z.ltb_lt. lia.
  Qed.

  Lemma steps_tail m r : steps_ok W (m :: r) = true -> steps_ok W r = true.
  Proof. destruct r as [|m' r']; [reflexivity|]. cbn [steps_ok]. intros H. apply andb_true_iff in H. apply H. Qed.

  Lemma msub_steps_from a b : msub a b -> forall x, steps_ok W (x :: a) = true -> steps_ok W (x :: b) = true.
  Proof.
    intros H. induction H as [|m a b H IH|l a b H IH]; intros x Hx.
    - reflexivity.
    - cbn [steps_ok] in Hx |- *. apply andb_true_iff in Hx. destruct Hx as [H1 H2]. rewrite H1. exact (IH m H2).
    - cbn [steps_ok] in Hx. apply andb_true_iff in Hx. destruct Hx as [H1 H2].
      assert (H2' := H2). destruct a as [|a0 a']; cbn [steps_ok] in H2.
      + inversion H; subst. reflexivity.
      + apply andb_true_iff in H2. destruct H2 as [H2 H3].
        pose proof (IH (MClose l) H3) as H4.
        destruct b as [|y b']; [reflexivity|]. cbn [steps_ok] in H4 |- *. apply andb_true_iff in H4. destruct H4 as [H5 H6].
        rewrite H6, andb_true_r. exact (step_skip x l y H1 H2 H5).
  Qed.

  Lemma msub_steps a b : msub a b -> steps_ok W a = true -> steps_ok W b = true.
  Proof.
    intros H. induction H as [|m a b H IH|l a b H IH]; intros Ha.
    - reflexivity.
    - exact (msub_steps_from a b H m Ha).
    - apply steps_tail in Ha. pose proof (msub_steps_from a b H (MClose l) Ha) as H1. exact (steps_tail _ _ H1).
  Qed.

  Lemma msub_marks_ok a b : msub a b -> forallb (mark_ok W) a = true -> forallb (mark_ok W) b = true.
  Proof.
    intros H. induction H as [|m a b H IH|l a b H IH]; intros Ha; [reflexivity| |].
    - cbn [forallb] in *. apply andb_true_iff in Ha. destruct Ha as [H1 H2]. rewrite H1. exact (IH H2).
    - cbn [forallb] in Ha. apply andb_true_iff in Ha. destruct Ha as [_ Ha]. apply andb_true_iff in Ha. destruct Ha as [_ Ha].
      exact (IH Ha).
  Qed.
End Steps.

(* ------------------------------------------------------------------ marks2 = marks + the empty if-branches *)
Definition m_branch (b : block) : list mark :=
  match block_stats b, block_ret b with
  | [], None => []
  | _, _ => MOpen (block_loc b) :: m_block b ++ [MClose (block_loc b)]
  end.

Lemma m_stat_if es bs l : m_stat (SIf es bs l) = zip_if (map m_exp es) (map m_branch bs).
Proof.
  cbn [m_stat]. fold m_branch. generalize (map m_exp es) (map m_branch bs).
  induction l0 as [|c cs IH]; intros bls; [reflexivity|]. destruct bls as [|b bls']; [reflexivity|].
  cbn [zip_if]. rewrite IH. reflexivity.
Qed.

Definition MSe (e : exp) : Prop :=
  msub (m2_exp e) (m_exp e) /\
  match e with EFunc _ _ _ _ b _ _ _ => msub (m2_block b) (m_block b) | _ => True end.
Definition MSs (s : stat) : Prop := msub (m2_stat s) (m_stat s).
Definition MSb (b : block) : Prop := msub (m2_block b) (m_block b).

Lemma MSe_list es : Forall MSe es -> msub (flat_map m2_exp es) (flat_map m_exp es).
Proof. intros H. apply msub_flat_map. eapply Forall_impl; [|exact H]. intros e He. exact (proj1 He). Qed.

Lemma msub_wrap l a b : msub a b -> msub (MOpen l :: a ++ [MClose l]) (MOpen l :: b ++ [MClose l]).
Proof. intros H. constructor. apply msub_app; [exact H|apply msub_refl]. Qed.

Lemma msub_pre p a b : msub a b -> msub (p ++ a) (p ++ b).
Proof. intros H. apply msub_app; [apply msub_refl|exact H]. Qed.

Lemma msub_if : forall es bs, Forall MSe es -> Forall MSb bs ->
  msub (zip_if (map m2_exp es) (map m2_branch bs)) (zip_if (map m_exp es) (map m_branch bs)).
Proof.
  induction es as [|e es IH]; intros bs He Hb; [constructor|].
  destruct bs as [|b bs']; [constructor|]. cbn [map zip_if].
  inversion He as [|? ? He1 He2]; subst. inversion Hb as [|? ? Hb1 Hb2]; subst.
  apply msub_app; [exact (proj1 He1)|]. apply msub_app; [|exact (IH bs' He2 Hb2)].
  unfold m2_branch, m_branch. destruct b as [ss ret bl]. cbn [block_stats block_ret block_loc].
  destruct ss as [|s ss'].
  - destruct ret as [rs|].
    + apply msub_wrap. exact Hb1.
    + cbn. constructor. constructor.
  - apply msub_wrap. exact Hb1.
Qed.

Theorem marks2_marks : (forall e, MSe e) /\ (forall s, MSs s) /\ (forall b, MSb b).
Proof.
  apply ast_ind3; unfold MSe, MSs, MSb.
  - (* atoms *) intros e Ha. destruct e; try contradiction; (split; [apply msub_refl|exact I]).
  - intros o x l [IH _]. split; [exact IH|exact I].
  - intros o a b l [IHa _] [IHb _]. split; [cbn [m2_exp m_exp]; apply msub_app; assumption|exact I].
  - intros x l [IH _]. split; [exact IH|exact I].
  - intros p k l [IHp _] [IHk _]. split; [cbn [m2_exp m_exp]; apply msub_app; assumption|exact I].
  - intros p nm args l [IHp _] IHargs. split; [|exact I]. cbn [m2_exp m_exp]. constructor.
    apply msub_app; [exact IHp|]. apply msub_app; [exact (MSe_list args IHargs)|apply msub_refl].
  - intros ks vs l IHks IHvs. split; [|exact I]. cbn [m2_exp m_exp]. apply msub_app; [|exact (MSe_list vs IHvs)].
    apply msub_flat_map. eapply Forall_impl; [|exact IHks]. intros k Hk. destruct k as [k'|]; [exact (proj1 Hk)|constructor].
  - intros c f ps pl b l va co IHb. split; [|exact IHb]. cbn [m2_exp m_exp]. constructor.
    apply msub_pre. apply msub_app; [exact IHb|apply msub_refl].
  - (* atomic statements *) intros s Ha. destruct s; try contradiction; constructor.
  - intros b l IHb. cbn [m2_stat m_stat]. apply msub_wrap. exact IHb.
  - intros e [IHe _]. exact IHe.
  - intros es bs l IHes IHbs. rewrite m_stat_if. cbn [m2_stat]. exact (msub_if es bs IHes IHbs).
  - intros e b l [IHe _] IHb. cbn [m2_stat m_stat]. constructor. apply msub_app; [exact IHe|]. apply msub_app; [exact IHb|apply msub_refl].
  - intros b e l IHb [IHe _]. cbn [m2_stat m_stat]. constructor. apply msub_app; [exact IHb|]. apply msub_app; [exact IHe|apply msub_refl].
  - intros n vl e1 e2 e3 b l [IH1 _] [IH2 _] [IH3 _] IHb. cbn [m2_stat m_stat]. constructor. apply msub_pre.
    apply msub_app; [exact IH1|]. apply msub_app; [exact IH2|]. apply msub_app; [exact IH3|].
    apply msub_app; [exact IHb|apply msub_refl].
  - intros ns ls es b l IHes IHb. cbn [m2_stat m_stat]. constructor. apply msub_pre.
    apply msub_app; [exact (MSe_list es IHes)|]. apply msub_app; [exact IHb|apply msub_refl].
  - (* SAssign *) intros vars es l IHv IHe.
    assert (Hgen : msub (flat_map m2_exp vars ++ flat_map m2_exp es) (flat_map m_exp vars ++ flat_map m_exp es))
      by (apply msub_app; [exact (MSe_list vars IHv)|exact (MSe_list es IHe)]).
    cbn [m2_stat m_stat].
    destruct vars as [|v vars']; [exact Hgen|]. destruct v; try exact Hgen.
    destruct vars' as [|v2 vars'']; [|exact Hgen].
    destruct es as [|e es']; [exact Hgen|]. destruct e; try exact Hgen.
    match goal with |- context [match ?x with [] => _ | _ :: _ => _ end] => destruct x; try exact Hgen end.
    destruct es' as [|e2 es'']; [|exact Hgen].
    inversion IHe as [|? ? He1 _]; subst. destruct He1 as [_ Hb].
    constructor. apply msub_pre. apply msub_pre. apply msub_app; [exact Hb|apply msub_refl].
  - intros ns ls at_ es l IHes. cbn [m2_stat m_stat]. apply msub_pre.
    destruct (init_loc ns ls es l) as [il|]; cbn [region_marks]; [apply msub_wrap|]; exact (MSe_list es IHes).
  - (* SLocalFunc *) intros n nl f l [IHf IHb]. cbn [m2_stat m_stat].
    destruct f; try (apply msub_pre; exact IHf).
    constructor. apply msub_pre. apply msub_pre. apply msub_app; [exact IHb|apply msub_refl].
  - intros ss ret l IHss IHret. cbn [m2_block m_block]. apply msub_app.
    + apply msub_flat_map. exact IHss.
    + destruct ret as [es|]; [exact (MSe_list es IHret)|constructor].
Qed.

Theorem laid2_laid W P : laid2_b W P = true -> laid_b W P = true.
Proof.
  unfold laid2_b, laid_b. intros H.
  apply andb_true_iff in H. destruct H as [H H4]. apply andb_true_iff in H. destruct H as [H H3].
  apply andb_true_iff in H. destruct H as [_ H2].
  assert (Hm : msub (marks2 P) (marks P)).
  { unfold marks2, marks. apply msub_wrap. exact (proj2 (proj2 marks2_marks) P). }
  rewrite H2, (msub_marks_ok W _ _ Hm H3), (msub_steps W _ _ Hm H4). reflexivity.
Qed.

(* ------------------------------------------------------------------ fragment + shape_ok gives tb_shape *)
Lemma forallb_of_Forall {A} (p : A -> bool) l : Forall (fun x => p x = true) l -> forallb p l = true.
Proof. intros H. apply forallb_forall. rewrite Forall_forall in H. exact H. Qed.

Theorem core_tb_shape :
  (forall e, core_e e -> tb_shp_exp e = true) /\ (forall s, core_s s -> tb_shp_stat s = true) /\
  (forall b, core_b b -> tb_shp_block b = true).
Proof.
  apply core_ind3.
  - intros e Ha _. destruct e; try contradiction; reflexivity.
  - intros o x l _ IH. exact IH.
  - intros o a b l _ _ IHa IHb. cbn [tb_shp_exp]. rewrite IHa, IHb. reflexivity.
  - intros x l _ IH. exact IH.
  - intros n ln args l _ _ IH. cbn [tb_shp_exp]. exact (forallb_of_Forall _ _ IH).
  - intros f ps pl b l va _ _ IH. exact IH.
  - reflexivity.
  - intros b l _ IH. exact IH.
  - intros n ln args l _ IH. exact IH.
  - intros es bs l Hlen _ _ IHes IHbs. cbn [tb_shp_stat]. rewrite Hlen, Nat.eqb_refl.
    rewrite (forallb_of_Forall _ _ IHes), (forallb_of_Forall _ _ IHbs). reflexivity.
  - intros e b l _ _ IHe IHb. cbn [tb_shp_stat]. rewrite IHe, IHb. reflexivity.
  - intros b e l _ _ IHb IHe. cbn [tb_shp_stat]. rewrite IHe, IHb. reflexivity.
  - intros n vl e1 e2 e3 b l _ _ _ _ _ IH1 IH2 IH3 IHb. cbn [tb_shp_stat]. rewrite IH1, IH2, IH3, IHb. reflexivity.
  - intros ns ls es b l _ _ _ IHes IHb. cbn [tb_shp_stat]. rewrite (forallb_of_Forall _ _ IHes), IHb. reflexivity.
  - intros vars es l Hv _ IHes. cbn [tb_shp_stat]. rewrite (forallb_of_Forall _ _ IHes), andb_true_r.
    apply forallb_forall. rewrite Forall_forall in Hv. intros v Hin. destruct (Hv v Hin) as (n & ln & -> & _). reflexivity.
  - intros ns ls at_ es l _ Hlen _ IHes. cbn [tb_shp_stat].
    apply andb_true_iff. split; [apply Nat.eqb_eq; exact Hlen|].
    exact (forallb_of_Forall _ _ IHes).
  - intros n nl f ps pl b lf va l _ _ IH. exact IH.
  - intros ss ret l _ IHss _ IHret. cbn [tb_shp_block]. rewrite (forallb_of_Forall _ _ IHss). cbn [andb].
    destruct ret as [es|]; [exact (forallb_of_Forall _ _ IHret)|reflexivity].
Qed.

Corollary frag_shape_tb_shape P : in_fragment P = true -> shape_ok P = true -> tb_shape P = true.
Proof. intros Hf Hs. exact (proj2 (proj2 core_tb_shape) P (conj Hf Hs)). Qed.
