(* C19 - completeness of the outline: top-level locals (every declaration), globals. *)
From Coq Require Import List NArith ZArith Bool Lia.
From LH Require Import Base.Bytes Base.Res Model.Lexer Model.Ast Model.Parser Model.LuaFront Model.Symbols Spec.SymbolSpec
  Proofs.SymbolsRange Proofs.SymbolsLocs Proofs.SymbolsMerge Proofs.SymbolsSig Proofs.SymbolsGlobals Proofs.SymbolsLexical
  Proofs.SymbolsWitness Proofs.SymbolsOutline.
Import ListNotations.

(* ------------------------------------------------------------------ globals *)
(* any_name, any_target, not_named: Proofs/SymbolsLexical.v *)

(* what a non-local entry shows of the assignment target it stems from: (name, identifier Loc, Loc of the function
   literal if the value at the same index is one) satisfies pt, the entry is function-valued iff there is such a literal
   and then its range is the Union of the literal and the identifier *)
Definition from_target (fx : fixes) (pt : gtriple -> bool) (s : sym) : Prop :=
  exists ofl, pt (s_key s, s_decl s, ofl) = true /\ s_fn s = is_some ofl /\
              forall fl, ofl = Some fl -> s_loc s = fn_range fx fl (s_decl s).

Lemma init_pre : forall pb pt, pre pb pt init_state.
Proof.
  intros pb pt. split.
  - unfold Kinv, init_state. cbn [env]. constructor; [|constructor]. intros k Hk. destruct Hk.
  - intros kv Hin. destruct Hin.
Qed.

Lemma analyse_post : forall pb pt n b st,
    chk_block pb pt b = true -> analyse n b = Ok st -> post pb pt init_state st (fun k => asg_block k b).
Proof.
  intros pb pt n b st Hc H. unfold analyse in H. destruct (all_g pb pt n) as [_ [_ [_ Hb]]].
  eapply Hb; [exact Hc | apply init_pre | exact H].
Qed.

Lemma var_sym_from_target : forall fx pt lc nm v, pt (gtrip (nm, v)) = true -> from_target fx pt (var_sym fx lc nm v).
Proof.
  intros fx pt lc nm v H. exists (option_map f_loc (v_func v)). rewrite var_sym_key, var_sym_decl, var_sym_fn.
  split; [exact H|]. split; [destruct (v_func v); reflexivity|].
  intros fl Hfl. destruct (v_func v) as [fi|] eqn:Ef; [|discriminate]. cbn [option_map] in Hfl. injection Hfl as <-.
  apply (var_sym_fn_loc fx lc nm v fi Ef).
Qed.

Lemma nonlocal_entry : forall fx st s,
    In s (find_all_symbol fx st) -> s_local s = false -> s_undecl s = false ->
    exists nm v, In (nm, v) (globs st) /\ s = var_sym fx false nm v.
Proof.
  intros fx st s Hin Hl Hu. apply find_all_symbol_parts in Hin. destruct Hin as [Hin|[Hin|Hin]].
  - destruct (find_all_local_entry (fun _ => True) fx _ _ _ (scope_all_True _) Hin) as [nm [v [_ [_ ->]]]].
    rewrite var_sym_local in Hl. discriminate.
  - exact Hin.
  - apply undeclared_syms_in in Hin. destruct Hin as [_ [nm [v [_ [_ [_ ->]]]]]]. cbn [set_undecl s_undecl] in Hu. discriminate.
Qed.

(* (G1) every non-local entry of a defined name stems from an assignment target of the file *)
Theorem outline_global_from_target : forall pt fx n b st s,
    chk_block any_name pt b = true -> analyse n b = Ok st ->
    In s (find_all_symbol fx (finalize st)) -> s_local s = false -> s_undecl s = false -> from_target fx pt s.
Proof.
  intros pt fx n b st s Hc Ha Hin Hl Hu. destruct (analyse_post _ _ _ _ _ Hc Ha) as [[_ HG] _].
  destruct (nonlocal_entry _ _ _ Hin Hl Hu) as [nm [v' [Hg ->]]]. apply var_sym_from_target.
  destruct (finalize_facts st) as [_ [_ [_ Hext]]]. destruct (gext_in _ _ _ _ _ Hext Hg) as [v [Hv Hvx]].
  specialize (HG _ Hv). unfold gtrip in *. cbn [fst snd] in *.
  rewrite (vext_loc _ _ _ Hvx), (vext_func _ _ _ Hvx). exact HG.
Qed.

(* (G2) every assigned name that nothing in the file binds has a non-local entry *)
Theorem outline_global_complete : forall fx n b st nm,
    chk_block (not_named nm) any_target b = true -> asg_block nm b = true -> analyse n b = Ok st ->
    exists s, In s (find_all_symbol fx (finalize st)) /\ s_local s = false /\ s_undecl s = false /\ s_key s = nm.
Proof.
  intros fx n b st nm Hc Hasg Ha. destruct (analyse_post _ _ _ _ _ Hc Ha) as [_ [_ HD]].
  assert (Hm : assoc_mem nm (globs st) = true).
  { apply HD; [|exact Hasg]. unfold not_named. rewrite bb_refl. reflexivity. }
  unfold assoc_mem in Hm. destruct (assoc_get nm (globs st)) as [v|] eqn:Eg; [|discriminate].
  apply assoc_get_key in Eg. destruct (finalize_facts st) as [_ [_ [_ Hext]]].
  destruct (gext_in_l _ _ _ _ _ Hext Eg) as [v' [Hv' _]].
  exists (var_sym fx false nm v'). rewrite var_sym_local, var_sym_undecl, var_sym_key. split; [|auto].
  unfold find_all_symbol. apply in_or_app. right. apply in_or_app. left. apply in_map_iff. exists (nm, v'). auto.
Qed.

(* (G3) lexical version of (G2): nm is assigned at a place where no enclosing local / parameter / loop variable named nm
   is in scope (asgU_block), in a tree of parser shape (shp_block) *)
Lemma init_Kn : forall nm, Kn nm init_state.
Proof. intros nm. unfold Kn, Kinv, init_state. cbn [env]. constructor; [|constructor]. intros k Hk. destruct Hk. Qed.

Theorem outline_global_lexical : forall fx n b st nm,
    shp_block b = true -> asgU_block nm b = true -> analyse n b = Ok st ->
    exists s, In s (find_all_symbol fx (finalize st)) /\ s_local s = false /\ s_undecl s = false /\ s_key s = nm.
Proof.
  intros fx n b st nm Hshp Hasg Ha. unfold analyse in Ha.
  destruct (all_u nm n) as [_ [_ [_ Hb]]]. pose proof (Hb _ _ _ _ _ Hshp (init_Kn nm) Ha Hasg) as Hm.
  unfold M, assoc_mem in Hm. destruct (assoc_get nm (globs st)) as [v|] eqn:Eg; [|discriminate].
  apply assoc_get_key in Eg. destruct (finalize_facts st) as [_ [_ [_ Hext]]].
  destruct (gext_in_l _ _ _ _ _ Hext Eg) as [v' [Hv' _]].
  exists (var_sym fx false nm v'). rewrite var_sym_local, var_sym_undecl, var_sym_key. split; [|auto].
  unfold find_all_symbol. apply in_or_app. right. apply in_or_app. left. apply in_map_iff. exists (nm, v'). auto.
Qed.

(* ------------------------------------------------------------------ from bytes *)
(* the top-level `local` / `local function` declarations of nm in the main block, in order: (identifier Loc, false,
   Loc of the function literal if the value is one) *)
Definition top_local_decls (b : block) (nm : bytes) : list vsig := decls_named nm (top_locals b).

Theorem outline_complete_bytes : forall bs b ss,
    parse_bytes no_gbk classify_tok bs = Ok (PR b [] []) -> outline_of_bytes fx_all bs = Some ss ->
    (* top-level locals: EVERY declaration *)
    (forall nm l ofl, In (l, false, ofl) (top_local_decls b nm) ->
       exists s, In s ss /\ s_local s = true /\ s_undecl s = false /\ s_key s = nm /\ s_decl s = l /\ s_fn s = is_some ofl /\
                 (forall fl, ofl = Some fl -> s_loc s = loc_union fl l)) /\
    (* globals: assigned somewhere, bound nowhere *)
    (forall nm, chk_block (not_named nm) any_target b = true -> asg_block nm b = true ->
       exists s, In s ss /\ s_local s = false /\ s_undecl s = false /\ s_key s = nm) /\
    (* every non-local entry of a defined name is located at an assignment target `name = value` of the file *)
    (forall pt s, chk_block any_name pt b = true -> In s ss -> s_local s = false -> s_undecl s = false ->
                  from_target fx_all pt s).
Proof.
  intros bs b ss Hp Ho. apply outline_of_bytes_inv in Ho. destruct Ho as [b' [st [Hp' [Ha ->]]]].
  rewrite Hp in Hp'. injection Hp' as <-. split; [|split].
  - intros nm l ofl Hin. exact (outline_top_local fx_all _ b st nm l ofl eq_refl Ha Hin).
  - intros nm Hc Hasg. eapply outline_global_complete; eauto.
  - intros pt s Hc Hin Hl Hu. eapply outline_global_from_target; eauto.
Qed.

Theorem outline_globals_lexical_bytes : forall bs b ss nm,
    parse_bytes no_gbk classify_tok bs = Ok (PR b [] []) -> outline_of_bytes fx_all bs = Some ss ->
    shp_block b = true -> asgU_block nm b = true ->
    exists s, In s ss /\ s_local s = false /\ s_undecl s = false /\ s_key s = nm.
Proof.
  intros bs b ss nm Hp Ho Hshp Hasg. apply outline_of_bytes_inv in Ho. destruct Ho as [b' [st [Hp' [Ha ->]]]].
  rewrite Hp in Hp'. injection Hp' as <-. eapply outline_global_lexical; eauto.
Qed.

(* ------------------------------------------------------------------ workspace/symbol: the candidate list of a file *)
(* every lexically global assigned name is among the candidates that getQuerySymbols collects for the file, named
   exactly nm and located at the identifier of an assignment target `nm = ...` of the file *)
Theorem ws_candidate : forall fx n b st nm,
    shp_block b = true -> asgU_block nm b = true -> analyse n b = Ok st ->
    exists w, In w (file_wsyms fx (finalize st)) /\ w_name w = nm /\
              forall pt, chk_block any_name pt b = true -> exists ofl, pt (nm, w_loc w, ofl) = true.
Proof.
  intros fx n b st nm Hshp Hasg Ha. pose proof Ha as Ha0. unfold analyse in Ha.
  destruct (all_u nm n) as [_ [_ [_ Hb]]]. pose proof (Hb _ _ _ _ _ Hshp (init_Kn nm) Ha Hasg) as Hm.
  unfold M, assoc_mem in Hm. destruct (assoc_get nm (globs st)) as [v|] eqn:Eg; [|discriminate].
  apply assoc_get_key in Eg. destruct (finalize_facts st) as [_ [_ [_ Hext]]].
  destruct (gext_in_l _ _ _ _ _ Hext Eg) as [v' [Hv' Hvx]].
  exists (mkW nm (is_some (v_func v')) (v_loc v') (v_gflag v')). split; [|split; [reflexivity|]].
  - unfold file_wsyms. apply in_or_app. left. apply in_flat_map. exists (nm, v').
    split; [exact Hv'|]. left. reflexivity.
  - intros pt Hc. destruct (analyse_post _ _ _ _ _ Hc Ha0) as [[_ HG] _]. specialize (HG _ Eg).
    exists (option_map f_loc (v_func v)). cbn [w_loc]. rewrite (vext_loc _ _ _ Hvx). exact HG.
Qed.

Theorem ws_candidate_bytes : forall fx bs b st nm,
    parse_bytes no_gbk classify_tok bs = Ok (PR b [] []) -> analyse (fuel_of_bytes bs) b = Ok st ->
    shp_block b = true -> asgU_block nm b = true ->
    exists w, In w (file_wsyms fx (finalize st)) /\ w_name w = nm /\
              forall pt, chk_block any_name pt b = true -> exists ofl, pt (nm, w_loc w, ofl) = true.
Proof. intros fx bs b st nm _ Ha Hs Hu. exact (ws_candidate fx _ b st nm Hs Hu Ha). Qed.
