(* C19 - completeness of the outline: top-level locals (last declaration of each name), globals. *)
From Coq Require Import List NArith ZArith Bool Lia.
From LH Require Import Base.Bytes Base.Res Model.Lexer Model.Ast Model.Parser Model.LuaFront Model.Symbols Spec.SymbolSpec
  Proofs.SymbolsRange Proofs.SymbolsLocs Proofs.SymbolsMerge Proofs.SymbolsSig Proofs.SymbolsGlobals Proofs.SymbolsLexical
  Proofs.SymbolsWitness Proofs.SymbolsOutline.
Import ListNotations.

(* ------------------------------------------------------------------ globals *)
(* any_name, any_target, not_named: Proofs/SymbolsLexical.v *)

(* what the outline shows of an entry: key, declaring identifier, range if function-valued *)
Definition entry_triple (s : sym) : gtriple := (s_key s, s_decl s, if s_fn s then Some (s_loc s) else None).

Lemma init_pre : forall pb pt, pre pb pt init_state.
Proof.
  intros pb pt. split.
  - unfold Kinv, init_state. cbn [env]. constructor; [|constructor]. intros k Hk. destruct Hk.
  - intros kv Hin. destruct Hin.
Qed.

Lemma analyse_post : forall pb pt n b st,
    chk_block pb pt b = true -> analyse n b = Ok st -> post pb pt init_state st (fun k => asg_block k b).
Proof.
  intros pb pt n b st Hc H. unfold analyse in H. destruct (all_g pb pt n) as [_ [_ [_ Hb]]].
  eapply Hb; [exact Hc | apply init_pre | exact H].
Qed.

Lemma var_sym_triple : forall fx lc nm v, entry_triple (var_sym fx lc nm v) = gtrip (nm, v).
Proof.
  intros fx lc nm v. unfold entry_triple, gtrip. rewrite var_sym_key, var_sym_decl, var_sym_fn. cbn [fst snd].
  destruct (v_func v) as [fi|] eqn:Ef; cbn [is_some option_map]; [|reflexivity].
  rewrite (var_sym_fn_loc fx lc nm v fi Ef). reflexivity.
Qed.

Lemma nonlocal_entry : forall fx st s,
    In s (find_all_symbol fx st) -> s_local s = false -> exists nm v, In (nm, v) (globs st) /\ s = var_sym fx false nm v.
Proof.
  intros fx st s Hin Hl. unfold find_all_symbol in Hin. apply in_app_or in Hin. destruct Hin as [Hin|Hin].
  - destruct (find_all_local_entry (fun _ => True) fx _ _ _ (scope_all_True _) Hin) as [nm [v [_ [_ ->]]]].
    rewrite var_sym_local in Hl. discriminate.
  - apply in_map_iff in Hin. destruct Hin as [[nm v] [<- Hin]]. exists nm, v. auto.
Qed.

(* (G1) every non-local entry stems from an assignment target of the file *)
Theorem outline_global_from_target : forall pt fx n b st s,
    chk_block any_name pt b = true -> analyse n b = Ok st ->
    In s (find_all_symbol fx (finalize st)) -> s_local s = false -> pt (entry_triple s) = true.
Proof.
  intros pt fx n b st s Hc Ha Hin Hl. destruct (analyse_post _ _ _ _ _ Hc Ha) as [[_ HG] _].
  destruct (nonlocal_entry _ _ _ Hin Hl) as [nm [v' [Hg ->]]]. rewrite var_sym_triple.
  destruct (finalize_facts st) as [_ [_ [_ Hext]]]. destruct (gext_in _ _ _ _ _ Hext Hg) as [v [Hv Hvx]].
  specialize (HG _ Hv). unfold gtrip in *. cbn [fst snd] in *.
  rewrite (vext_loc _ _ _ Hvx), (vext_func _ _ _ Hvx). exact HG.
Qed.

(* (G2) every assigned name that nothing in the file binds has a non-local entry *)
Theorem outline_global_complete : forall fx n b st nm,
    chk_block (not_named nm) any_target b = true -> asg_block nm b = true -> analyse n b = Ok st ->
    exists s, In s (find_all_symbol fx (finalize st)) /\ s_local s = false /\ s_key s = nm.
Proof.
  intros fx n b st nm Hc Hasg Ha. destruct (analyse_post _ _ _ _ _ Hc Ha) as [_ [_ HD]].
  assert (Hm : assoc_mem nm (globs st) = true).
  { apply HD; [|exact Hasg]. unfold not_named. rewrite bb_refl. reflexivity. }
  unfold assoc_mem in Hm. destruct (assoc_get nm (globs st)) as [v|] eqn:Eg; [|discriminate].
  apply assoc_get_key in Eg. destruct (finalize_facts st) as [_ [_ [_ Hext]]].
  destruct (gext_in_l _ _ _ _ _ Hext Eg) as [v' [Hv' _]].
  exists (var_sym fx false nm v'). rewrite var_sym_local, var_sym_key. split; [|auto].
  unfold find_all_symbol. apply in_or_app. right. apply in_map_iff. exists (nm, v'). auto.
Qed.

(* (G3) lexical version of (G2): nm is assigned at a place where no enclosing local / parameter / loop variable named nm
   is in scope (asgU_block), in a tree of parser shape (shp_block) *)
Lemma init_Kn : forall nm, Kn nm init_state.
Proof. intros nm. unfold Kn, Kinv, init_state. cbn [env]. constructor; [|constructor]. intros k Hk. destruct Hk. Qed.

Theorem outline_global_lexical : forall fx n b st nm,
    shp_block b = true -> asgU_block nm b = true -> analyse n b = Ok st ->
    exists s, In s (find_all_symbol fx (finalize st)) /\ s_local s = false /\ s_key s = nm.
Proof.
  intros fx n b st nm Hshp Hasg Ha. unfold analyse in Ha.
  destruct (all_u nm n) as [_ [_ [_ Hb]]]. pose proof (Hb _ _ _ _ _ Hshp (init_Kn nm) Ha Hasg) as Hm.
  unfold M, assoc_mem in Hm. destruct (assoc_get nm (globs st)) as [v|] eqn:Eg; [|discriminate].
  apply assoc_get_key in Eg. destruct (finalize_facts st) as [_ [_ [_ Hext]]].
  destruct (gext_in_l _ _ _ _ _ Hext Eg) as [v' [Hv' _]].
  exists (var_sym fx false nm v'). rewrite var_sym_local, var_sym_key. split; [|auto].
  unfold find_all_symbol. apply in_or_app. right. apply in_map_iff. exists (nm, v'). auto.
Qed.

(* ------------------------------------------------------------------ from bytes *)
Definition top_local_last (b : block) (nm : bytes) : option vsig := last_opt (decls_named nm (top_locals b)).

Theorem outline_complete_bytes : forall bs b ss,
    parse_bytes no_gbk classify_tok bs = Ok (PR b [] []) -> outline_of_bytes true bs = Some ss ->
    (* top-level locals: the last declaration of each name *)
    (forall nm l ofl, top_local_last b nm = Some (l, false, ofl) ->
       exists s, In s ss /\ s_local s = true /\ s_key s = nm /\ s_decl s = l /\ s_fn s = is_some ofl /\
                 (forall fl, ofl = Some fl -> s_loc s = fl)) /\
    (* globals: assigned somewhere, bound nowhere *)
    (forall nm, chk_block (not_named nm) any_target b = true -> asg_block nm b = true ->
       exists s, In s ss /\ s_local s = false /\ s_key s = nm) /\
    (* every non-local entry is located at an assignment target `name = value` of the file *)
    (forall pt s, chk_block any_name pt b = true -> In s ss -> s_local s = false -> pt (entry_triple s) = true).
Proof.
  intros bs b ss Hp Ho. apply outline_of_bytes_inv in Ho. destruct Ho as [b' [st [Hp' [Ha ->]]]].
  rewrite Hp in Hp'. injection Hp' as <-. split; [|split].
  - intros nm l ofl Hlast. eapply outline_top_local; eauto.
  - intros nm Hc Hasg. eapply outline_global_complete; eauto.
  - intros pt s Hc Hin Hl. eapply outline_global_from_target; eauto.
Qed.

Theorem outline_globals_lexical_bytes : forall bs b ss nm,
    parse_bytes no_gbk classify_tok bs = Ok (PR b [] []) -> outline_of_bytes true bs = Some ss ->
    shp_block b = true -> asgU_block nm b = true ->
    exists s, In s ss /\ s_local s = false /\ s_key s = nm.
Proof.
  intros bs b ss nm Hp Ho Hshp Hasg. apply outline_of_bytes_inv in Ho. destruct Ho as [b' [st [Hp' [Ha ->]]]].
  rewrite Hp in Hp'. injection Hp' as <-. eapply outline_global_lexical; eauto.
Qed.

(* ------------------------------------------------------------------ function statements contain their name *)
(* every function-valued `name = value` target is a function statement: the function's Loc contains the identifier *)
Definition fn_target_contains (x : gtriple) : bool :=
  match snd x with Some fl => contains fl (snd (fst x)) | None => true end.

Theorem outline_function_statements : forall bs b ss,
    parse_bytes no_gbk classify_tok bs = Ok (PR b [] []) -> outline_of_bytes true bs = Some ss ->
    (forall nm l fl, top_local_last b nm = Some (l, false, Some fl) -> contains fl l = true ->
       exists s, In s ss /\ s_local s = true /\ s_key s = nm /\ s_decl s = l /\ s_fn s = true /\
                 contains (s_loc s) (s_decl s) = true) /\
    (forall s, chk_block any_name fn_target_contains b = true -> In s ss -> s_local s = false ->
               contains (s_loc s) (s_decl s) = true).
Proof.
  intros bs b ss Hp Ho. destruct (outline_complete_bytes bs b ss Hp Ho) as [H1 [_ H3]]. split.
  - intros nm l fl Hlast Hc. destruct (H1 nm l (Some fl) Hlast) as [s [Hin [Hl [Hk [Hd [Hf Hloc]]]]]].
    exists s. rewrite (Hloc fl eq_refl), Hd. repeat split; auto.
  - intros s Hc Hin Hl. destruct (s_fn s) eqn:Efn.
    + specialize (H3 _ s Hc Hin Hl). unfold fn_target_contains, entry_triple in H3. rewrite Efn in H3. cbn [fst snd] in H3. exact H3.
    + destruct (outline_nonfn_range bs ss s Ho Hin Efn) as [X _]. exact X.
Qed.

(* ------------------------------------------------------------------ workspace/symbol: the candidate list of a file *)
(* every lexically global assigned name is among the candidates that getQuerySymbols collects for the file, named
   exactly nm and located at the identifier of an assignment target `nm = ...` of the file *)
Theorem ws_candidate : forall n b st nm,
    shp_block b = true -> asgU_block nm b = true -> analyse n b = Ok st ->
    exists w, In w (file_wsyms (finalize st)) /\ w_name w = nm /\
              forall pt, chk_block any_name pt b = true -> exists ofl, pt (nm, w_loc w, ofl) = true.
Proof.
  intros n b st nm Hshp Hasg Ha. pose proof Ha as Ha0. unfold analyse in Ha.
  destruct (all_u nm n) as [_ [_ [_ Hb]]]. pose proof (Hb _ _ _ _ _ Hshp (init_Kn nm) Ha Hasg) as Hm.
  unfold M, assoc_mem in Hm. destruct (assoc_get nm (globs st)) as [v|] eqn:Eg; [|discriminate].
  apply assoc_get_key in Eg. destruct (finalize_facts st) as [_ [_ [_ Hext]]].
  destruct (gext_in_l _ _ _ _ _ Hext Eg) as [v' [Hv' Hvx]].
  exists (mkW nm (is_some (v_func v')) (v_loc v')). split; [|split; [reflexivity|]].
  - unfold file_wsyms. apply in_or_app. left. apply in_flat_map. exists (nm, v').
    split; [exact Hv'|]. left. reflexivity.
  - intros pt Hc. destruct (analyse_post _ _ _ _ _ Hc Ha0) as [[_ HG] _]. specialize (HG _ Eg).
    exists (option_map f_loc (v_func v)). cbn [w_loc]. rewrite (vext_loc _ _ _ Hvx). exact HG.
Qed.

Theorem ws_candidate_bytes : forall bs b st nm,
    parse_bytes no_gbk classify_tok bs = Ok (PR b [] []) -> analyse (fuel_of_bytes bs) b = Ok st ->
    shp_block b = true -> asgU_block nm b = true ->
    exists w, In w (file_wsyms (finalize st)) /\ w_name w = nm /\
              forall pt, chk_block any_name pt b = true -> exists ofl, pt (nm, w_loc w, ofl) = true.
Proof. intros bs b st nm _ Ha Hs Hu. exact (ws_candidate _ b st nm Hs Hu Ha). Qed.
