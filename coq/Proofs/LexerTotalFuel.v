(* C01, Lua lexer: the inner fuel-driven loops of Model/Lexer.v never reach their fuel-0 branch with the fuel their
   callers pass.  Stated as fuel irrelevance: above the caller's bound the result does not depend on the fuel, so the
   "normal looking" value returned at fuel 0 never influences a result.  Also: index monotonicity of the scanners. *)
From Coq Require Import List NArith ZArith Bool Arith Lia ZifyNat ZifyN ZifyBool.
From LH Require Import Base.Bytes Base.Res Model.Codec Model.Lexer.
Import ListNotations.
Set Default Proof Using "Type".

(* ------------------------------------------------------------------ nth_byte *)
Lemma nth_byte_Some_lt ch i c : nth_byte ch i = Some c -> (i < length ch)%nat.
Proof. unfold nth_byte. intros H. apply nth_error_Some. congruence. Qed.

Lemma nth_byte_None_ge ch i : nth_byte ch i = None -> (length ch <= i)%nat.
Proof. unfold nth_byte. apply nth_error_None. Qed.

(* ------------------------------------------------------------------ rune_count_f : caller passes [length l] *)
Lemma rune_len_pos l : l <> [] -> (1 <= rune_len l)%nat.
Proof.
  destruct l as [|b0 t]; [congruence|]. intros _. unfold rune_len.
  repeat match goal with
         | |- context [if ?b then _ else _] => destruct b
         | |- context [match ?t with [] => _ | _ :: _ => _ end] => destruct t
         end; lia.
Qed.

Lemma rune_count_f_S f l acc :
  rune_count_f (S f) l acc =
  match l with [] => acc | _ => rune_count_f f (skipn (rune_len l) l) (acc + 1)%Z end.
Proof. reflexivity. Qed.

Lemma rune_count_f_irrel : forall f1 f2 l acc,
  (length l <= f1)%nat -> (length l <= f2)%nat -> rune_count_f f1 l acc = rune_count_f f2 l acc.
Proof.
  induction f1 as [|f1 IH]; intros f2 l acc H1 H2.
  - destruct l; [|simpl in H1; lia]. destruct f2; reflexivity.
  - destruct f2 as [|f2].
    + destruct l; [reflexivity|simpl in H2; lia].
    + rewrite !rune_count_f_S. destruct l as [|b t]; [reflexivity|].
      pose proof (rune_len_pos (b :: t) ltac:(congruence)) as Hp.
      apply IH; rewrite skipn_length; simpl length in *; lia.
Qed.

(* ------------------------------------------------------------------ index_of_sub_f : caller passes [S (length l)] *)
Lemma index_of_sub_f_irrel : forall f1 f2 needle l i,
  (length l < f1)%nat -> (length l < f2)%nat -> index_of_sub_f f1 needle l i = index_of_sub_f f2 needle l i.
Proof.
  induction f1 as [|f1 IH]; intros f2 needle l i H1 H2; [lia|].
  destruct f2 as [|f2]; [lia|]. cbn [index_of_sub_f].
  destruct (test needle l); [reflexivity|]. destruct l as [|c t]; [reflexivity|].
  apply IH; simpl length in *; lia.
Qed.

Lemma index_of_sub_f_bound : forall f needle l i k,
  index_of_sub_f f needle l i = Some k -> (i <= k /\ k - i <= length l)%nat.
Proof.
  induction f as [|f IH]; intros needle l i k H; [discriminate|].
  cbn [index_of_sub_f] in H. destruct (test needle l).
  - injection H as <-. lia.
  - destruct l as [|c t]; [discriminate|]. apply IH in H. simpl length. lia.
Qed.

(* ------------------------------------------------------------------ nl_norm_f : caller passes [length l] *)
Lemma nl_norm_f_S f l :
  nl_norm_f (S f) l =
  match l with
  | [] => []
  | 13%N :: 10%N :: t => 10%N :: nl_norm_f f t
  | 10%N :: 13%N :: t => 10%N :: nl_norm_f f t
  | 13%N :: t => 10%N :: nl_norm_f f t
  | c :: t => c :: nl_norm_f f t
  end.
Proof. reflexivity. Qed.

Lemma nl_norm_f_irrel : forall f1 f2 l,
  (length l <= f1)%nat -> (length l <= f2)%nat -> nl_norm_f f1 l = nl_norm_f f2 l.
Proof.
  induction f1 as [|f1 IH]; intros f2 l H1 H2.
  - destruct l; [|simpl in H1; lia]. destruct f2; reflexivity.
  - destruct f2 as [|f2].
    + destruct l; [reflexivity|simpl in H2; lia].
    + rewrite !nl_norm_f_S.
      repeat match goal with
             | |- context [match ?x with _ => _ end] => is_var x; destruct x
             end; try reflexivity; f_equal; apply IH; simpl length in *; lia.
Qed.

(* ------------------------------------------------------------------ skip_digits_f : caller passes [S (length ch)] *)
Lemma skip_digits_f_irrel : forall f1 f2 ch i,
  (length ch - i < f1)%nat -> (length ch - i < f2)%nat -> skip_digits_f f1 ch i = skip_digits_f f2 ch i.
Proof.
  induction f1 as [|f1 IH]; intros f2 ch i H1 H2; [lia|].
  destruct f2 as [|f2]; [lia|]. cbn [skip_digits_f].
  destruct (nth_byte ch i) as [c|] eqn:Hc; [|reflexivity].
  apply nth_byte_Some_lt in Hc. destruct (is_digit c); [|reflexivity]. apply IH; lia.
Qed.

Lemma skip_digits_f_ge : forall f ch i, (i <= skip_digits_f f ch i)%nat.
Proof.
  induction f as [|f IH]; intros ch i; cbn [skip_digits_f]; [lia|].
  destruct (nth_byte ch i) as [c|]; [|lia]. destruct (is_digit c); [|lia].
  specialize (IH ch (S i)). lia.
Qed.

(* ------------------------------------------------------------------ consume_eol / skip_z_f *)
Lemma consume_eol_ge ch i ln ls p0 ok i' ln' ls' :
  consume_eol ch i ln ls p0 = (ok, i', ln', ls') ->
  (i <= i')%nat /\ (ok = true -> i < i' /\ i < length ch)%nat /\ (ok = false -> i' = i).
Proof.
  unfold consume_eol. destruct (nth_byte ch i) as [c|] eqn:Hc.
  - apply nth_byte_Some_lt in Hc. destruct (is_newline c).
    + destruct (_ || _); intros H; injection H as <- <- <- <-; repeat split; try lia; discriminate.
    + intros H; injection H as <- <- <- <-. repeat split; try lia; discriminate.
  - intros H; injection H as <- <- <- <-. repeat split; try lia; discriminate.
Qed.

(* caller (read_escape) passes [S (length ch)] *)
Lemma skip_z_f_irrel : forall f1 f2 ch i ln ls p0,
  (length ch - i < f1)%nat -> (length ch - i < f2)%nat ->
  skip_z_f f1 ch i ln ls p0 = skip_z_f f2 ch i ln ls p0.
Proof.
  induction f1 as [|f1 IH]; intros f2 ch i ln ls p0 H1 H2; [lia|].
  destruct f2 as [|f2]; [lia|]. cbn [skip_z_f].
  destruct (nth_byte ch i) as [c|] eqn:Hc; [|reflexivity].
  apply nth_byte_Some_lt in Hc. destruct (is_new_white c).
  - apply IH; lia.
  - destruct (consume_eol ch i ln ls p0) as [[[ok i'] ln'] ls'] eqn:He.
    apply consume_eol_ge in He as (Hge & Hok & _).
    destruct ok; [|reflexivity]. specialize (Hok eq_refl). apply IH; lia.
Qed.

Lemma skip_z_f_ge : forall f ch i ln ls p0 i' ln' ls',
  skip_z_f f ch i ln ls p0 = (i', ln', ls') -> (i <= i')%nat.
Proof.
  induction f as [|f IH]; intros ch i ln ls p0 i' ln' ls' H; cbn [skip_z_f] in H.
  - injection H as <- <- <-. lia.
  - destruct (nth_byte ch i) as [c|]; [|injection H as <- <- <-; lia].
    destruct (is_new_white c).
    + apply IH in H. lia.
    + destruct (consume_eol ch i ln ls p0) as [[[ok i1] ln1] ls1] eqn:He.
      apply consume_eol_ge in He as (Hge & _ & _).
      destruct ok; [apply IH in H; lia|injection H as <- <- <-; lia].
Qed.

(* ------------------------------------------------------------------ read_escape never moves backwards *)
Lemma read_escape_ge {fx : FxEscape} ch i ln ls p0 piece i2 ln' ls' es :
  read_escape ch i ln ls p0 = (piece, i2, ln', ls', es) -> (i <= i2)%nat.
Proof.
  unfold read_escape. destruct (nth_byte ch i) as [c|]; [|intros H; injection H as <- <- <- <- <-; lia].
  repeat match goal with
         | |- context [if ?b then _ else _] =>
           lazymatch b with
           | is_hex_digit _ && is_hex_digit _ => fail
           | _ => destruct b
           end
         end;
    try (intros H; injection H as <- <- <- <- <-; lia).
  - (* x *)
    destruct (nth_byte ch (S i)) as [h1|]; [destruct (nth_byte ch (S (S i))) as [h2|]|];
      [destruct (is_hex_digit h1 && is_hex_digit h2)| |];
      intros H; injection H as <- <- <- <- <-; lia.
  - (* newline *)
    destruct (consume_eol ch i ln ls p0) as [[[ok i1] ln1] ls1] eqn:He.
    apply consume_eol_ge in He as (Hge & _ & _).
    intros H; injection H as <- <- <- <- <-; lia.
  - (* z *)
    destruct (skip_z_f (S (length ch)) ch (S i) ln ls p0) as [[i1 ln1] ls1] eqn:Hz.
    apply skip_z_f_ge in Hz. intros H; injection H as <- <- <- <- <-; lia.
  - (* digits *)
    pose proof (skip_digits_f_ge (S (length ch)) ch (S i)) as Hj.
    set (j := skip_digits_f (S (length ch)) ch (S i)) in *. clearbody j.
    intros H0; injection H0 as <- <- <- <- <-; lia.
Qed.

Section WithOracle.
  Context {fx : FxEscape}.
  Variable gbk_runes : list N -> Z.

  (* ---------------------------------------------------------------- scan_short_f : caller passes [S (length ch)], i = 1 *)
  Lemma scan_short_f_irrel : forall f1 f2 delim ch i ss acc ln ls p0 errs,
    (length ch - i < f1)%nat -> (length ch - i < f2)%nat ->
    scan_short_f gbk_runes f1 delim ch i ss acc ln ls p0 errs =
    scan_short_f gbk_runes f2 delim ch i ss acc ln ls p0 errs.
  Proof.
    induction f1 as [|f1 IH]; intros f2 delim ch i ss acc ln ls p0 errs H1 H2; [lia|].
    destruct f2 as [|f2]; [lia|]. cbn [scan_short_f].
    destruct (i <? length ch)%nat eqn:Hlt; [|reflexivity].
    destruct (nth_byte ch i) as [c|] eqn:Hc; [|reflexivity].
    apply nth_byte_Some_lt in Hc.
    destruct (c =? delim)%N; [reflexivity|].
    destruct ((length ch <=? S i)%nat || is_newline c); [reflexivity|].
    destruct (negb (c =? 92)%N).
    - apply IH; lia.
    - destruct (read_escape ch (S i) ln ls p0) as [[[[piece i2] ln'] ls'] es] eqn:Hre.
      apply read_escape_ge in Hre. apply IH; lia.
  Qed.

  (* the state returned by scan_short_f is the input chunk with at least [i] bytes dropped *)
  Lemma scan_short_f_chunk : forall f delim ch i ss acc ln ls p0 errs str s' es ov,
    scan_short_f gbk_runes f delim ch i ss acc ln ls p0 errs = (str, s', es, ov) ->
    exists k, (i <= k)%nat /\ chunk s' = skipn k ch.
  Proof.
    induction f as [|f IH]; intros delim ch i ss acc ln ls p0 errs str s' es ov H; cbn [scan_short_f] in H.
    - injection H as <- <- <- <-. exists i. split; [lia|reflexivity].
    - destruct (i <? length ch)%nat eqn:Hlt;
        [|injection H as <- <- <- <-; exists i; split; [lia|reflexivity]].
      destruct (nth_byte ch i) as [c|] eqn:Hc;
        [|injection H as <- <- <- <-; exists i; split; [lia|reflexivity]].
      destruct (c =? delim)%N.
      { injection H as <- <- <- <-. exists (S i). split; [lia|reflexivity]. }
      destruct ((length ch <=? S i)%nat || is_newline c).
      { injection H as <- <- <- <-. destruct (length ch <=? S i)%nat.
        - exists (S i). split; [lia|reflexivity].
        - exists (S i - 1)%nat. split; [lia|reflexivity]. }
      destruct (negb (c =? 92)%N).
      + apply IH in H as (k & Hk & Hch). exists k. split; [lia|exact Hch].
      + destruct (read_escape ch (S i) ln ls p0) as [[[[piece i2] ln'] ls'] es'] eqn:Hre.
        apply read_escape_ge in Hre. apply IH in H as (k & Hk & Hch). exists k. split; [lia|exact Hch].
  Qed.

End WithOracle.

(* ---------------------------------------------------------------- scan_number_loop : caller passes [S (length ch)] *)
Section Number.
  Lemma scan_number_loop_irrel : forall f1 f2 ch i expo,
    (length ch - i < f1)%nat -> (length ch - i < f2)%nat ->
    scan_number_loop f1 ch i expo = scan_number_loop f2 ch i expo.
  Proof.
    induction f1 as [|f1 IH]; intros f2 ch i expo H1 H2; [lia|].
    destruct f2 as [|f2]; [lia|]. cbn [scan_number_loop].
    destruct (nth_byte ch i) as [c2|] eqn:Hc; [|reflexivity].
    set (i1 := if has_char c2 expo then _ else i).
    assert (Hi1 : (i <= i1)%nat).
    { subst i1. destruct (has_char c2 expo); [|lia].
      destruct (nth_byte ch (S i)) as [c3|]; [destruct (has_char c3 [45%N; 43%N])|]; lia. }
    destruct (nth_byte ch i1) as [c4|] eqn:Hc4; [|reflexivity].
    apply nth_byte_Some_lt in Hc4.
    destruct (_ || _); [|reflexivity]. apply IH; lia.
  Qed.

  Lemma scan_number_loop_ge : forall f ch i expo, (i <= scan_number_loop f ch i expo)%nat.
  Proof.
    induction f as [|f IH]; intros ch i expo; cbn [scan_number_loop]; [lia|].
    destruct (nth_byte ch i) as [c2|] eqn:Hc; [|lia].
    set (i1 := if has_char c2 expo then _ else i).
    assert (Hi1 : (i <= i1)%nat).
    { subst i1. destruct (has_char c2 expo); [|lia].
      destruct (nth_byte ch (S i)) as [c3|]; [destruct (has_char c3 [45%N; 43%N])|]; lia. }
    destruct (nth_byte ch i1) as [c4|]; [|lia].
    destruct (_ || _); [|lia]. specialize (IH ch (S i1) expo). lia.
  Qed.
End Number.
