(* C04, Loc order: the theorems.

   parse_tokens_locs_within : for EVERY key function, token list ending in EOF whose tokens are key-ordered (TokOrd), fuel
       and numeral classifier, with or without syntax errors: every statement / expression / name Loc and every
       then / elseif / else block Loc of the AST returned by parse_tokens is zero_loc (synthesized node) or satisfies
           lo (first token) <= lo l <= hi l <= hi (last token).
   ast_locs_ordered : the instance key = line * W + column with the boolean guard tok_ordered_b on the lexer's output.

   What is NOT true of the parser (model = Go code; witnesses in Properties/C04.v): a call Loc starts at the LAST token of
   its callee, so it does not contain the callee; the Loc of a do / while / for / function / repeat / chunk block
   runs from the first token after the opener to the last token before the closer and is inverted for an empty block. *)
From Coq Require Import List NArith ZArith Bool Arith Lia.
From LH Require Import Base.Bytes Base.Res Model.Lexer Model.Ast Model.Parser Model.Number Model.LuaFront Spec.LspRange.
From LH Require Import Proofs.LexerTotalWf Proofs.LexerTotalMain Proofs.ParserTotalBase Proofs.ParserTotalMain
     Proofs.ParserLocBase Proofs.ParserLocKeys Proofs.ParserLocOrder.
Import ListNotations.
Local Open Scope Z_scope.

Section Main.
  Variable key : Z -> Z -> Z.
  Variable classify : list N -> numcls.
  Variable ts : list ltok.
  Hypothesis Hwf : wfr ts.
  Hypothesis Hord : TokOrd key ts.

  Theorem PK_all : forall n, PK key classify ts n.
  Proof.
    induction n as [|n IH].
    - unfold PK. repeat apply conj; intros; apply post_oof.
    - unfold PK. repeat apply conj.
      + apply K_block; assumption.
      + apply K_block_loc; assumption.
      + apply K_block_loc_excl; assumption.
      + apply K_stats; assumption.
      + apply K_stat; assumption.
      + apply K_assign_or_call; assumption.
      + apply K_if_tail; assumption.
      + apply K_varlist_tail; assumption.
      + apply K_explist; assumption.
      + apply K_explist_tail; assumption.
      + apply K_subexp; assumption.
      + apply K_binop_loop; assumption.
      + apply K_exp0; assumption.
      + apply K_prefixexp; assumption.
      + apply K_finish_prefix; assumption.
      + apply K_args; assumption.
      + apply K_table; assumption.
      + apply K_fieldlist_tail; assumption.
      + apply K_field; assumption.
      + apply K_funcdef; assumption.
  Qed.

  (* every token ends before the last one ends *)
  Lemma chain_last : forall l d t, Forall (tok1 key) l -> chain key l -> In t l -> hi key (SL t) <= hi key (SL (last l d)).
  Proof.
    induction l as [|x l IH]; intros d t Hf Hc Hin; [destruct Hin|].
    inversion Hf as [|x' l' Hx Hl]; subst.
    destruct l as [|y l].
    - destruct Hin as [->|[]]. cbn [last]. lia.
    - change (last (x :: y :: l) d) with (last (y :: l) d).
      change (hi key (SL x) <= lo key (SL y) /\ chain key (y :: l)) in Hc. destruct Hc as [Hxy Hc].
      destruct Hin as [->|Hin]; [|apply IH; assumption].
      inversion Hl as [|y' l'' Hy Hl']; subst. destruct Hy as (_ & Hy & _).
      specialize (IH d y Hl Hc (or_introl eq_refl)). lia.
  Qed.

  Definition first_tok : tok := lt (hd dflt_ltok ts).
  Definition last_tok : tok := last (map lt ts) zero_tok.

  Theorem parse_tokens_locs_within fuel b le pe :
    parse_tokens classify fuel ts = Ok (PR b le pe) ->
    WithinL key (lo key (SL first_tok)) (locs_block b) (hi key (SL last_tok)).
  Proof.
    unfold parse_tokens. intros H.
    destruct (PK_all fuel) as (_ & I2 & _).
    assert (HI0 : Inv ts (init_pst ts)) by (apply Inv_init; destruct Hwf as [Hne _]; exact Hne).
    assert (E0 : kc key (init_pst ts) = lo key (SL first_tok)).
    { unfold kc, heard_loc, ahead_tok, first_tok, init_pst. cbn [rest now otok].
      destruct ts as [|t r] eqn:Ets; [destruct Hwf as [Hne _]; congruence|]. cbn [hd].
      rewrite tok_loc_SL; [reflexivity|].
      destruct Hord as [Hf _]. rewrite Forall_forall in Hf. apply (Hf (lt t)). left. reflexivity. }
    specialize (I2 (lo key (SL first_tok)) (init_pst ts) HI0 ltac:(rewrite E0; lia)).
    destruct (p_block_loc classify fuel (init_pst ts)) as [[b0 st1]|k|]; try discriminate.
    specialize (I2 b0 st1 eq_refl). destruct I2 as (HI1 & _ & _ & _ & _ & HW).
    cbv zeta in H. destruct (Nat.leb 31 _); [discriminate|]. injection H as <- _ _.
    eapply WithinL_weaken; [exact HW|lia|].
    (* the current token of the final state is a token of the list *)
    destruct (state_toks key ts Hord st1 HI1) as (h & Hh & Eh & Hn).
    destruct Hord as [Hf Hc].
    assert (Hlast : forall t, In t (map lt ts) -> hi key (SL t) <= hi key (SL last_tok))
      by (intros t Ht; apply chain_last; assumption).
    unfold kb. destruct (now st1) as [n|].
    - destruct Hn as (Hn & En & _). rewrite En. apply Hlast, Hn.
    - rewrite Hn, Eh. apply Hlast, Hh.
  Qed.
End Main.

(* ------------------------------------------------------------------ the instance line * W + column, as booleans *)
Definition wkey (W : Z) (line col : Z) : Z := line * W + col.

Definition tok1_b (W : Z) (t : tok) : bool :=
  (tlsp t <=? tfrom t) && (lo (wkey W) (SL t) <=? hi (wkey W) (SL t)) &&
  (negb (tk_eqb (tk t) TkEOF) || (hi (wkey W) (SL t) <=? lo (wkey W) (SL t))).
Fixpoint chain_b (W : Z) (l : list tok) : bool :=
  match l with
  | t :: ((t' :: _) as r) => (hi (wkey W) (SL t) <=? lo (wkey W) (SL t')) && chain_b W r
  | _ => true
  end.
Definition tok_ordered_b (W : Z) (ts : list ltok) : bool :=
  forallb (tok1_b W) (map lt ts) && chain_b W (map lt ts).

Lemma chain_b_ok W : forall l, chain_b W l = true -> chain (wkey W) l.
Proof.
  induction l as [|t l IH]; intros H; [exact I|]. destruct l as [|t' l]; [exact I|].
  change ((hi (wkey W) (SL t) <=? lo (wkey W) (SL t')) && chain_b W (t' :: l) = true) in H.
  apply andb_true_iff in H as [H1 H2].
  change (hi (wkey W) (SL t) <= lo (wkey W) (SL t') /\ chain (wkey W) (t' :: l)). split; [lia|apply IH, H2].
Qed.

Lemma tok_ordered_b_ok W ts : tok_ordered_b W ts = true -> TokOrd (wkey W) ts.
Proof.
  unfold tok_ordered_b. intros H. apply andb_true_iff in H as [H1 H2]. split; [|apply chain_b_ok, H2].
  apply Forall_forall. intros t Ht. rewrite forallb_forall in H1. specialize (H1 t Ht). unfold tok1_b in H1.
  apply andb_true_iff in H1 as [H1 H3]. apply andb_true_iff in H1 as [H0 H1].
  split; [lia|]. split; [lia|]. intros Hk. rewrite Hk in H3. cbn in H3. lia.
Qed.

Definition is_zero_loc (l : loc) : bool := (sl l =? 0) && (sc l =? 0) && (el l =? 0) && (ec l =? 0).
Definition loc_ordered_b (W : Z) (l : loc) : bool := is_zero_loc l || (lo (wkey W) l <=? hi (wkey W) l).
Definition all_locs_ordered (W : Z) (b : block) : bool := forallb (loc_ordered_b W) (locs_block b).

Theorem ast_locs_ordered : forall W gbk classify bs ts b le pe,
  lex_all gbk bs = Ok ts -> tok_ordered_b W (parser_view ts) = true ->
  parse_bytes gbk classify bs = Ok (PR b le pe) ->
  all_locs_ordered W b = true.
Proof.
  intros W gbk classify bs ts b le pe Elex Hord H. unfold parse_bytes in H. rewrite Elex in H. cbn [rbind] in H.
  cbv zeta in H.
  pose proof (parser_view_wfr ts (wf_tokens_wfr ts (lex_all_wf gbk bs ts Elex))) as Hwf.
  pose proof (parse_tokens_locs_within (wkey W) classify (parser_view ts) Hwf (tok_ordered_b_ok W _ Hord) _ _ _ _ H) as HW.
  unfold all_locs_ordered. apply forallb_forall. intros l Hl. unfold WithinL in HW. rewrite Forall_forall in HW.
  unfold loc_ordered_b. destruct (HW l Hl) as [->|(_ & Hle & _)]; [reflexivity|].
  apply orb_true_iff. right. lia.
Qed.

Print Assumptions PK_all.
Print Assumptions parse_tokens_locs_within.
Print Assumptions ast_locs_ordered.
