(* C01, Lua lexer: every scanner returns a suffix-length state, and a token scanned from a non-empty chunk is not EOF
   and strictly shortens the chunk (next_token_progress).  Fuel irrelevance of skip_ws_f. *)
From Coq Require Import List NArith ZArith Bool Arith Lia ZifyNat ZifyN ZifyBool.
From LH Require Import Base.Bytes Base.Res Model.Codec Model.Lexer Proofs.LexerTotalFuel.
Import ListNotations.
Set Default Proof Using "Type".

Notation clen s := (length (chunk s)).

(* injection without the reduction side effects of [injection ... as <-] *)
Ltac pinj H := repeat (let H2 := fresh "Hp" in apply pair_equal_spec in H; destruct H as [H H2]); subst.

Lemma adv_len s n : clen (adv s n) = (clen s - n)%nat.
Proof. unfold adv. cbn [chunk]. apply skipn_length. Qed.

(* ------------------------------------------------------------------ long brackets *)
Lemma match_lb_loop_count : forall l idx count orig, (2 <= snd (match_lb_loop l idx count orig))%nat.
Proof.
  induction l as [|c t IH]; intros idx count orig; cbn [match_lb_loop]; [cbn; lia|].
  destruct (c =? 61)%N; [apply IH|]. destruct (c =? 91)%N; cbn; lia.
Qed.

Lemma match_lb_loop_nonempty : forall l idx count orig,
  orig <> [] -> fst (match_lb_loop l idx count orig) <> [] \/ fst (match_lb_loop l idx count orig) = [].
Proof. intros. destruct (fst _); [right; reflexivity|left; discriminate]. Qed.

Lemma mlb_ne c t : c <> 91%N -> match_long_bracket (91%N :: c :: t) = match_lb_loop (c :: t) 1 0 (91%N :: c :: t).
Proof.
  intros Hc. unfold match_long_bracket. destruct c as [|p]; [reflexivity|].
  do 7 (try (destruct p as [p|p|]; try reflexivity)). congruence.
Qed.

(* a chunk that starts with '[' : either an opener is recognised or at least two bytes are reported as consumed *)
Lemma mlb_91 t : fst (match_long_bracket (91%N :: t)) <> [] \/ (2 <= snd (match_long_bracket (91%N :: t)))%nat.
Proof.
  destruct t as [|c t]; [right; cbn; lia|].
  destruct (N.eq_dec c 91) as [->|Hc]; [left; cbn; discriminate|].
  rewrite (mlb_ne c t Hc). right. apply match_lb_loop_count.
Qed.

Lemma scan_long_string_le s str s' es ov :
  scan_long_string s = (str, s', es, ov) -> (clen s' <= clen s)%nat.
Proof.
  unfold scan_long_string. destruct (match_long_bracket (chunk s)) as [lb count].
  destruct lb as [|b lb'].
  - intros H; pinj H. rewrite adv_len. lia.
  - destruct (index_of_sub _ _) as [idx|].
    + intros H; pinj H. cbn [chunk]. rewrite adv_len. lia.
    + intros H; pinj H.
      destruct (_ >? _)%Z; cbn [chunk]; rewrite adv_len; lia.
Qed.

Lemma scan_long_string_lt s str s' es ov :
  scan_long_string s = (str, s', es, ov) -> chunk s <> [] ->
  fst (match_long_bracket (chunk s)) <> [] \/ (1 <= snd (match_long_bracket (chunk s)))%nat ->
  (clen s' < clen s)%nat.
Proof.
  unfold scan_long_string. intros H Hne Hm.
  assert (Hl : (1 <= clen s)%nat) by (destruct (chunk s); [congruence|cbn; lia]).
  destruct (match_long_bracket (chunk s)) as [lb count]. cbn [fst snd] in Hm.
  destruct lb as [|b lb'].
  - pinj H. rewrite adv_len. destruct Hm as [Hm|Hm]; [congruence|lia].
  - destruct (index_of_sub _ _) as [idx|].
    + pinj H. cbn [chunk]. rewrite adv_len, map_length. cbn [length]. lia.
    + pinj H.
      destruct (_ >? _)%Z; cbn [chunk]; rewrite adv_len; lia.
Qed.


  (* ---------------------------------------------------------------- comments and white space *)
  Lemma skip_comment_le s short txt s1 es :
    skip_comment s = (short, txt, s1, es) -> (clen s1 <= clen s - 2)%nat.
  Proof.
    unfold skip_comment.
    match goal with |- context [if ?b then _ else _] => destruct b end.
    - destruct (scan_long_string (adv s 2)) as [[[str s2] es2] ov] eqn:Hs.
      apply scan_long_string_le in Hs. rewrite adv_len in Hs.
      intros H; pinj H. exact Hs.
    - intros H; pinj H. rewrite !adv_len. lia.
  Qed.

  Lemma skip_ws_f_S f prev2 prev1 s cs errs :
    skip_ws_f f prev2 prev1 s cs errs =
    match f with
    | O => (s, cs, errs)
    | S f =>
      match chunk s with
      | [] => (s, cs, errs)
      | c0 :: rest =>
        let wrap := match rest with
                    | c1 :: _ => ((c0 =? 13) && (c1 =? 10)) || ((c0 =? 10) && (c1 =? 13))
                    | [] => false end in
        if wrap then
          let s1 := adv s 2 in skip_ws_f f prev2 prev1 (mkLst (chunk s1) (line s1 + 1)%Z (pos s1) (pos s1)) cs errs
        else if is_newline c0 then
          let s1 := adv s 1 in skip_ws_f f prev2 prev1 (mkLst (chunk s1) (line s1 + 1)%Z (pos s1) (pos s1)) cs errs
        else if is_white c0 then skip_ws_f f prev2 prev1 (adv s 1) cs errs
        else
          let pre_comment := match rest with c1 :: _ => (c0 =? 45) && (c1 =? 45) | [] => false end in
          if negb pre_comment then (s, cs, errs)
          else
            let lc := match prev1 with
                      | Some t => tok_loc (match prev2 with Some p => p | None => zero_tok end) t
                      | None => zero_loc end in
            let head := negb (el lc =? line s)%Z in
            let col := (pos s - lsp s + 2)%Z in
            let '(short, txt, s1, es) := skip_comment s in
            let txt' := trim_suffix_nl_dashes txt in
            skip_ws_f f prev2 prev1 s1 (comment_step cs short head txt' (line s1) col) (errs ++ es)
      end
    end%N.
  Proof. destruct f; reflexivity. Qed.

  (* caller (skip_ws) passes [S (length (chunk s))] *)
  Lemma skip_ws_f_irrel : forall f1 f2 prev2 prev1 s cs errs,
    (clen s < f1)%nat -> (clen s < f2)%nat ->
    skip_ws_f f1 prev2 prev1 s cs errs = skip_ws_f f2 prev2 prev1 s cs errs.
  Proof.
    induction f1 as [|f1 IH]; intros f2 prev2 prev1 s cs errs H1 H2; [lia|].
    destruct f2 as [|f2]; [lia|].
    rewrite (skip_ws_f_S (S f1)), (skip_ws_f_S (S f2)).
    destruct (chunk s) as [|c0 rest] eqn:Hch; [reflexivity|]. cbn [length] in H1, H2. cbv zeta.
    match goal with |- context [if ?b then _ else _] => destruct b end.
    { apply IH; cbn [chunk]; rewrite adv_len, Hch; cbn [length]; lia. }
    destruct (is_newline c0).
    { apply IH; cbn [chunk]; rewrite adv_len, Hch; cbn [length]; lia. }
    destruct (is_white c0).
    { apply IH; rewrite adv_len, Hch; cbn [length]; lia. }
    match goal with |- context [if ?b then _ else _] => destruct b end; [reflexivity|].
    destruct (skip_comment s) as [[[short txt] s1] es] eqn:Hsc.
    apply skip_comment_le in Hsc. rewrite Hch in Hsc. cbn [length] in Hsc.
    apply IH; lia.
  Qed.

  Lemma skip_ws_f_le : forall f prev2 prev1 s cs errs s' cs' errs',
    skip_ws_f f prev2 prev1 s cs errs = (s', cs', errs') -> (clen s' <= clen s)%nat.
  Proof.
    induction f as [|f IH]; intros prev2 prev1 s cs errs s' cs' errs' H; rewrite skip_ws_f_S in H.
    - pinj H. lia.
    - destruct (chunk s) as [|c0 rest] eqn:Hch; [pinj H; rewrite Hch; lia|].
      cbv zeta in H.
      match type of H with context [if ?b then _ else _] => destruct b end.
      { apply IH in H. cbn [chunk] in H. rewrite adv_len, Hch in H. lia. }
      destruct (is_newline c0).
      { apply IH in H. cbn [chunk] in H. rewrite adv_len, Hch in H. lia. }
      destruct (is_white c0).
      { apply IH in H. rewrite adv_len, Hch in H. lia. }
      match type of H with context [if ?b then _ else _] => destruct b end;
        [pinj H; rewrite Hch; lia|].
      destruct (skip_comment s) as [[[short txt] s1] es] eqn:Hsc.
      apply skip_comment_le in Hsc. rewrite Hch in Hsc. apply IH in H. lia.
  Qed.

  Lemma skip_ws_le prev2 prev1 s s1 cms es :
    skip_ws prev2 prev1 s = (s1, cms, es) -> (clen s1 <= clen s)%nat.
  Proof.
    unfold skip_ws.
    destruct (skip_ws_f _ _ _ _ _ _) as [[s' cs] errs] eqn:Hf. apply skip_ws_f_le in Hf.
    intros H; pinj H. exact Hf.
  Qed.

  (* ---------------------------------------------------------------- the individual scanners *)
  Lemma skipn_lt {A} (l : list A) n : l <> [] -> (1 <= n)%nat -> (length (skipn n l) < length l)%nat.
  Proof. intros Hl Hn. rewrite skipn_length. destruct l; [congruence|cbn [length]; lia]. Qed.

  Lemma simple_progress k n s start t s' es :
    simple k n s start = (t, s', es) -> chunk s <> [] -> (1 <= n)%nat ->
    tk t = k /\ (clen s' < clen s)%nat.
  Proof.
    unfold simple. intros H Hne Hn. pinj H. split; [reflexivity|].
    unfold adv; cbn [chunk]. apply skipn_lt; assumption.
  Qed.

  Lemma scan_number_progress s str s1 es :
    scan_number s = (str, s1, es) -> chunk s <> [] -> (clen s1 < clen s)%nat.
  Proof.
    unfold scan_number. destruct (chunk s) as [|b0 t] eqn:Hch; [congruence|]. intros H _.
    destruct (if (b0 =? 46)%N then _ else _) as [[beginCh i] errs] eqn:Hx.
    assert (Hi : (1 <= i)%nat).
    { destruct (b0 =? 46)%N; [destruct (nth_byte (b0 :: t) 1)|]; pinj Hx; lia. }
    pinj H.
    match goal with |- context [adv s ?j] => set (jj := j) end.
    assert (Hj : (1 <= jj)%nat).
    { subst jj. destruct (nth_byte (b0 :: t) i) as [nx|]; [|lia].
      destruct (_ && _).
      - pose proof (scan_number_loop_ge (S (length (b0 :: t))) (b0 :: t) (S i) [80%N; 112%N]). lia.
      - pose proof (scan_number_loop_ge (S (length (b0 :: t))) (b0 :: t) i [69%N; 101%N]). lia. }
    rewrite adv_len, Hch. cbn [length]. lia.
  Qed.

  Lemma scan_identifier_progress s str s1 :
    scan_identifier s = (str, s1) -> chunk s <> [] -> (clen s1 < clen s)%nat.
  Proof.
    unfold scan_identifier. intros H Hne. pinj H.
    unfold adv; cbn [chunk]. apply skipn_lt; [assumption|lia].
  Qed.

  Lemma illegal_len_gt : forall l i j lf b, illegal_len l i = (j, lf, b) -> l <> [] -> (i < j)%nat.
  Proof.
    induction l as [|c t IH]; intros i j lf b H Hne; [congruence|]. cbn [illegal_len] in H.
    destruct (_ || _); [pinj H; lia|].
    destruct (c =? 10)%N; [pinj H; lia|].
    destruct t as [|c' t'].
    - cbn in H. pinj H. lia.
    - apply IH in H; [lia|discriminate].
  Qed.

  Lemma lookup_kw_not_eof str k : lookup_kw str keywords = Some k -> k <> TkEOF.
  Proof.
    unfold keywords, kw. cbn [lookup_kw].
    repeat (destruct (beq_bytes str _); [intros H; injection H as <-; discriminate|]).
    discriminate.
  Qed.


  Section LeavesA.
    Variable s : lst.
    Hypothesis Hne : chunk s <> [].
    Local Set Default Proof Using "Type Hne".

    Lemma leaf_number t s' es :
      (let '(str, s1, es) := scan_number s in (mk TkNumber str (pos s) s1, s1, es)) = (t, s', es) ->
      tk t <> TkEOF /\ (clen s' < clen s)%nat.
    Proof.
      intros H. destruct (scan_number s) as [[str s1] es1] eqn:Hn.
      apply scan_number_progress in Hn; [|exact Hne]. pinj H. split; [discriminate|exact Hn].
    Qed.

    Lemma leaf_ident t s' es :
      (let '(str, s1) := scan_identifier s in
       (mk (match lookup_kw str keywords with Some k => k | None => TkIdentifier end) str (pos s) s1, s1,
        @nil lexerr)) = (t, s', es) ->
      tk t <> TkEOF /\ (clen s' < clen s)%nat.
    Proof.
      intros H. destruct (scan_identifier s) as [str s1] eqn:Hn.
      apply scan_identifier_progress in Hn; [|exact Hne]. pinj H. split; [|exact Hn].
      cbn [tk mk]. destruct (lookup_kw str keywords) as [k|] eqn:Hk; [eapply lookup_kw_not_eof; eassumption|discriminate].
    Qed.

    Lemma leaf_long t s' es rest :
      chunk s = 91%N :: rest ->
      (let '(str, s1, es, ov) := scan_long_string s in
       (mk TkString str (match ov with Some p => p | None => pos s end) s1, s1, es)) = (t, s', es) ->
      tk t <> TkEOF /\ (clen s' < clen s)%nat.
    Proof.
      intros Hch H. destruct (scan_long_string s) as [[[str s1] es1] ov] eqn:Hn.
      apply scan_long_string_lt in Hn; [|exact Hne|].
      - pinj H. split; [discriminate|exact Hn].
      - rewrite Hch. destruct (mlb_91 rest) as [Hm|Hm]; [left; exact Hm|right; lia].
    Qed.

    Lemma leaf_simple k n start t s' es :
      simple k n s start = (t, s', es) -> (1 <= n)%nat -> k <> TkEOF ->
      tk t <> TkEOF /\ (clen s' < clen s)%nat.
    Proof.
      intros H Hn Hk. apply simple_progress in H; [|exact Hne|exact Hn]. destruct H as [-> Hl]. split; assumption.
    Qed.
  End LeavesA.

Section WithOracle.
  Context {fx : FxEscape}.
  Variable gbk_runes : list N -> Z.

  Lemma scan_illegal_progress s lf str s1 :
    scan_illegal gbk_runes s = (lf, str, s1) -> chunk s <> [] -> (clen s1 < clen s)%nat.
  Proof.
    unfold scan_illegal. intros H Hne.
    destruct (illegal_len (chunk s) 0) as [[i lf'] b] eqn:Hi.
    apply illegal_len_gt in Hi; [|assumption].
    pinj H. cbn [chunk]. apply skipn_lt; [assumption|lia].
  Qed.

  Lemma scan_short_string_progress s str s1 es ov :
    scan_short_string gbk_runes s = (str, s1, es, ov) -> chunk s <> [] -> (clen s1 < clen s)%nat.
  Proof.
    unfold scan_short_string. destruct (chunk s) as [|d t] eqn:Hch; [congruence|]. intros H _.
    apply scan_short_f_chunk in H as (k & Hk & Hc). rewrite Hc. apply skipn_lt; [discriminate|lia].
  Qed.

  (* ---------------------------------------------------------------- scan_token *)
  Lemma scan_token_eof s t s' es : scan_token gbk_runes s = (t, s', es) -> chunk s = [] -> tk t = TkEOF /\ s' = s.
  Proof. unfold scan_token. intros H Hc. rewrite Hc in H. pinj H. split; reflexivity. Qed.

  Section LeavesB.
    Variable s : lst.
    Hypothesis Hne : chunk s <> [].
    Local Set Default Proof Using "Type Hne".

    Lemma leaf_illegal t s' es :
      (let '(lf, str, s1) := scan_illegal gbk_runes s in
       let t := mk IKIllegal str (pos s) s1 in
       let s2 := if lf then mkLst (chunk s1) (line s1 + 1)%Z (pos s1) (pos s1) else s1 in
       (t, s2, [LeIllegal])) = (t, s', es) ->
      tk t <> TkEOF /\ (clen s' < clen s)%nat.
    Proof.
      intros H. destruct (scan_illegal gbk_runes s) as [[lf str] s1] eqn:Hn.
      apply scan_illegal_progress in Hn; [|exact Hne]. cbv zeta in H. pinj H. split; [discriminate|].
      destruct lf; cbn [chunk]; exact Hn.
    Qed.

    Lemma leaf_short t s' es :
      (let '(str, s1, es, ov) := scan_short_string gbk_runes s in
       (mk TkString str (match ov with Some p => p | None => pos s end) s1, s1, es)) = (t, s', es) ->
      tk t <> TkEOF /\ (clen s' < clen s)%nat.
    Proof.
      intros H. destruct (scan_short_string gbk_runes s) as [[[str s1] es1] ov] eqn:Hn.
      apply scan_short_string_progress in Hn; [|exact Hne]. pinj H. split; [discriminate|exact Hn].
    Qed.

  End LeavesB.

  Ltac fin H Hne :=
    first [ solve [eapply leaf_simple in H; [exact H|exact Hne|lia|discriminate]]
          | solve [eapply leaf_number in H; [exact H|exact Hne]]
          | solve [eapply leaf_ident in H; [exact H|exact Hne]]
          | solve [eapply leaf_illegal in H; [exact H|exact Hne]]
          | solve [eapply leaf_short in H; [exact H|exact Hne]] ].

  Lemma scan_token_progress s t s' es :
    scan_token gbk_runes s = (t, s', es) -> chunk s <> [] -> tk t <> TkEOF /\ (clen s' < clen s)%nat.
  Proof.
    intros H Hne. unfold scan_token in H.
    destruct (chunk s) as [|c rest] eqn:Hch; [congruence|]. rewrite <- Hch in Hne. rewrite <- Hch. cbv zeta in H.
    repeat match type of H with
           | context [if ?b then _ else _] => destruct b eqn:?
           end;
      try (destruct rest as [|c1 rest'];
           [|repeat match type of H with
                    | context [if ?b then _ else _] => destruct b eqn:?
                    end]);
      try fin H Hne.
    all: match goal with Hc : (?x =? 91)%N = true |- _ => apply N.eqb_eq in Hc; subst x end.
    all: eapply leaf_long in H; [exact H|exact Hne|exact Hch].
  Qed.

  (* ---------------------------------------------------------------- next_token *)
  Lemma next_token_progress prev2 prev1 s lt1 s1 :
    next_token gbk_runes prev2 prev1 s = (lt1, s1) ->
    (clen s1 <= clen s)%nat /\ (tk (lt lt1) <> TkEOF -> (clen s1 < clen s)%nat).
  Proof.
    unfold next_token.
    destruct (skip_ws prev2 prev1 s) as [[s' cms] es1] eqn:Hw. apply skip_ws_le in Hw.
    destruct (scan_token gbk_runes s') as [[t s2] es2] eqn:Ht.
    intros H; pinj H. cbn [lt].
    assert (Hc : chunk s' = [] \/ chunk s' <> []) by (destruct (chunk s'); [left; reflexivity|right; discriminate]).
    destruct Hc as [Hc|Hc].
    - apply scan_token_eof in Ht as [Hk ->]; [|exact Hc]. split; [exact Hw|]. congruence.
    - apply scan_token_progress in Ht as [Hk Hl]; [|exact Hc]. split; [lia|]. intros _. lia.
  Qed.

  (* a token is EOF exactly when it was scanned from an exhausted chunk; then the state does not move any more *)
  Lemma next_token_eof prev2 prev1 s lt1 s1 :
    next_token gbk_runes prev2 prev1 s = (lt1, s1) -> tk (lt lt1) = TkEOF -> chunk s1 = [].
  Proof.
    unfold next_token.
    destruct (skip_ws prev2 prev1 s) as [[s' cms] es1] eqn:Hw.
    destruct (scan_token gbk_runes s') as [[t s2] es2] eqn:Ht.
    intros H; pinj H. cbn [lt]. intros Hk.
    assert (Hc : chunk s' = [] \/ chunk s' <> []) by (destruct (chunk s'); [left; reflexivity|right; discriminate]).
    destruct Hc as [Hc|Hc].
    - apply scan_token_eof in Ht as [_ ->]; assumption.
    - apply scan_token_progress in Ht as [Hk' _]; [congruence|exact Hc].
  Qed.
End WithOracle.
