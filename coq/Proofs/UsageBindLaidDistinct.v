(* C07, layout: on a Laid chunk of the fragment the declaration Locs are pairwise distinct (decl_locs_distinct) and so are
   the Locs of the reads of the trace (hence flags_ok): identifiers at different places of a sorted mark list are
   disjoint non-empty intervals. *)
From Coq Require Import List NArith ZArith Bool Lia Permutation.
From LH Require Import Base.Bytes Model.Lexer Model.Ast Spec.LuaUsage Model.Usage Proofs.UsageBindRun
  Proofs.UsageBindSim Proofs.UsageBind Proofs.UsageBindSweep Proofs.UsageBindUndef Proofs.UsageBindUnused
  Proofs.TraverseBindLaidBase Proofs.UsageBindLaid.
From LH Require Model.Scope Spec.LuaScope Proofs.TraverseBindDefs Proofs.TraverseBindLaidLoops Proofs.TraverseBindLaidMain.
Import ListNotations.
Local Open Scope Z_scope.

Definition rlocs (acts : list action) : list loc :=
  flat_map (fun a => match a with ARead _ l _ _ _ => [l] | _ => [] end) acts.
Lemma rlocs_app a b : rlocs (a ++ b) = rlocs a ++ rlocs b.
Proof. unfold rlocs. apply flat_map_app. Qed.

Lemma NoDup_app_intro {A} (x y : list A) :
  NoDup x -> NoDup y -> (forall l, In l x -> In l y -> False) -> NoDup (x ++ y).
Proof.
  induction x as [|a r IH]; intros Hx Hy Hd; [exact Hy|]. inversion Hx as [|? ? Hn Hr]; subst. cbn. constructor.
  - intros Hin. apply in_app_or in Hin. destruct Hin as [Hin|Hin]; [contradiction|]. apply (Hd a); [left; reflexivity|exact Hin].
  - apply IH; auto. intros l Hl. apply Hd. right. exact Hl.
Qed.

Lemma perm_fornum {A} (v : A) D1 D2 D3 DB :
  Permutation ([v] ++ D1 ++ D2 ++ D3 ++ DB) (D1 ++ D2 ++ D3 ++ v :: DB).
Proof.
  cbn [app]. eapply Permutation_trans; [apply Permutation_middle|]. apply Permutation_app_head.
  eapply Permutation_trans; [apply Permutation_middle|]. apply Permutation_app_head. apply Permutation_middle.
Qed.

Section Distinct.
  Variable W : Z.
  Hypothesis HW : 0 < W.

  (* identifier Locs inside [a, b], pairwise distinct *)
  Definition IL (a b : Z) (ls : list loc) : Prop :=
    Forall (fun l => idok W l /\ a <= lo W l /\ hi W l <= b) ls /\ NoDup ls.

  Lemma IL_nil a b : IL a b [].
  Proof. split; constructor. Qed.

  Lemma IL_widen a b a' b' ls : IL a b ls -> a' <= a -> b <= b' -> IL a' b' ls.
  Proof.
    intros [H1 H2] Ha Hb. split; [|exact H2]. eapply Forall_impl; [|exact H1]. intros l [A1 [A2 A3]]. split; [exact A1|split; lia].
  Qed.

  Lemma IL_perm a b x y : Permutation x y -> IL a b x -> IL a b y.
  Proof.
    intros Hp [H1 H2]. split; [|exact (Permutation_NoDup Hp H2)].
    rewrite Forall_forall in *. intros l Hl. apply H1. exact (Permutation_in _ (Permutation_sym Hp) Hl).
  Qed.

  (* two groups in disjoint intervals *)
  Lemma IL_app a1 b1 a2 b2 a b x y :
    IL a1 b1 x -> IL a2 b2 y -> (b1 <= a2 \/ b2 <= a1) ->
    a <= a1 -> a <= a2 -> b1 <= b -> b2 <= b -> IL a b (x ++ y).
  Proof.
    intros [X1 X2] [Y1 Y2] Hd Ha1 Ha2 Hb1 Hb2. split.
    - apply Forall_app. split; (eapply Forall_impl; [|eassumption]); intros l [A1 [A2 A3]]; (split; [exact A1|split; lia]).
    - rewrite Forall_forall in X1, Y1. apply NoDup_app_intro; auto. intros l Hx Hy.
      destruct (X1 l Hx) as [Hid [P1 P2]]. destruct (Y1 l Hy) as [_ [Q1 Q2]]. pose proof (idok_lt W l Hid). lia.
  Qed.

  Lemma IL_seq a m b x y : IL a m x -> IL m b y -> a <= m -> m <= b -> IL a b (x ++ y).
  Proof. intros Hx Hy Ham Hmb. apply (IL_app a m m b a b x y Hx Hy); auto; lia. Qed.

  Lemma IL_ids : forall ls a b, chain W a (flat_map LS.id_marks ls) b -> IL a b ls.
  Proof.
    induction ls as [|l r IH]; intros a b H; [apply IL_nil|].
    cbn [flat_map] in H. destruct (chain_id W _ _ _ _ H) as [Hid [Ha Hr]].
    pose proof (idok_lt W _ Hid) as Hlt. pose proof (chain_le W _ _ _ Hr) as Hle.
    change (l :: r) with ([l] ++ r). apply (IL_seq a (hi W l) b [l] r); try lia; [|exact (IH _ _ Hr)].
    split; [constructor; [|constructor]; split; [exact Hid|split; lia]|constructor; [intros []|constructor]].
  Qed.

  Definition dlocs (ds : list decl) : list loc := map d_loc ds.
  Lemma dlocs_app a b : dlocs (a ++ b) = dlocs a ++ dlocs b.
  Proof. unfold dlocs. apply map_app. Qed.

  Lemma combine_snd {A B} : forall (xs : list A) (ys : list B), length xs = length ys -> map snd (combine xs ys) = ys.
  Proof.
    induction xs as [|x r IH]; intros ys H; destruct ys as [|y r']; try discriminate; [reflexivity|].
    cbn. f_equal. apply IH. cbn in H. lia.
  Qed.
  Lemma dlocs_plain k ns ls : length ns = length ls -> dlocs (plain_decls k ns ls) = ls.
  Proof. intros H. unfold dlocs, plain_decls. rewrite map_map. cbn [d_loc]. apply (combine_snd ns ls H). Qed.
  Lemma dlocs_local il : forall ns ls ats es lc,
    length ns = length ls -> length ns = length ats -> dlocs (local_decls il ns ls ats es lc) = ls.
  Proof.
    induction ns as [|n ns' IH]; intros ls ats es lc Hl Ha; destruct ls as [|l ls']; try discriminate; [reflexivity|].
    destruct ats as [|a ats']; [discriminate|]. cbn [local_decls]. cbn in Hl, Ha.
    destruct es as [|e es']; cbn [dlocs map d_loc]; f_equal; apply IH; lia.
  Qed.
  Lemma rlocs_adds ns ls : rlocs (adds ns ls) = [].
  Proof. revert ls. induction ns as [|n r IH]; intros ls; [reflexivity|]. destruct ls; [reflexivity|]. cbn. apply IH. Qed.
  Lemma rlocs_local_rest il lc : forall ns ls ats, rlocs (local_rest il ns ls ats lc) = [].
  Proof.
    induction ns as [|n r IH]; intros ls ats; [reflexivity|]. destruct ls; [reflexivity|]. destruct ats; [reflexivity|].
    cbn. apply IH.
  Qed.
  Lemma rlocs_scope a : rlocs (APush :: a ++ [APop]) = rlocs a.
  Proof. change (APush :: a ++ [APop]) with ([APush] ++ a ++ [APop]). rewrite !rlocs_app. cbn. apply app_nil_r. Qed.

  Definition PD (e : exp) : Prop :=
    frag_exp e = true -> forall a b, chain W a (LS.m_exp e) b ->
      IL a b (dlocs (d_exp e)) /\ forall bp flv g, IL a b (rlocs (fst (tr_exp e bp flv g))).
  Definition PDF (e : exp) : Prop :=
    match e with
    | EFunc _ _ _ pls bk _ _ _ =>
      frag_exp e = true -> forall a b, chain W a (flat_map LS.id_marks pls ++ LS.m_block bk) b ->
        IL a b (dlocs (d_exp e)) /\ forall bp flv g, IL a b (rlocs (fst (tr_exp e bp flv g)))
    | _ => True
    end.
  Definition PeD (e : exp) : Prop := PD e /\ PDF e.
  Definition SD (s : stat) : Prop :=
    frag_stat s = true -> forall a b, chain W a (LS.m_stat s) b ->
      IL a b (dlocs (d_stat s)) /\ forall flv slv g, IL a b (rlocs (fst (tr_stat s flv slv g))).
  Definition BD (bk : block) : Prop :=
    frag_block bk = true -> forall a b, chain W a (LS.m_block bk) b ->
      IL a b (dlocs (d_block bk)) /\ forall flv slv g, IL a b (rlocs (fst (tr_block bk flv slv g))).

  Lemma exps_D : forall es a b,
    Forall PeD es -> forallb frag_exp es = true -> chain W a (flat_map LS.m_exp es) b ->
    IL a b (dlocs (flat_map d_exp es)) /\
    forall flv g, IL a b (rlocs (fst (thread (fun x g0 => tr_exp x None flv g0) es g))).
  Proof.
    induction es as [|e r IH]; intros a b Hall Hf Hch; [split; [apply IL_nil|intros; apply IL_nil]|].
    inversion Hall as [|? ? [He _] Hr]; subst. cbn [forallb] in Hf. apply andb_true_iff in Hf. destruct Hf as [Hf1 Hf2].
    cbn [flat_map] in Hch. destruct (chain_app W _ _ _ _ Hch) as [c [C1 C2]].
    pose proof (chain_le W _ _ _ C1) as L1. pose proof (chain_le W _ _ _ C2) as L2.
    destruct (He Hf1 a c C1) as [D1 R1]. destruct (IH c b Hr Hf2 C2) as [D2 R2]. split.
    - cbn [flat_map]. rewrite dlocs_app. apply (IL_seq a c b); auto.
    - intros flv g. cbn [thread]. specialize (R1 None flv g). destruct (tr_exp e None flv g) as [b1 g1].
      specialize (R2 flv g1). destruct (thread (fun x g0 => tr_exp x None flv g0) r g1) as [b2 g2]. cbn [fst] in *.
      rewrite rlocs_app. apply (IL_seq a c b); auto.
  Qed.

  Lemma stats_D : forall ss a b,
    Forall SD ss -> forallb frag_stat ss = true -> chain W a (flat_map LS.m_stat ss) b ->
    IL a b (dlocs (flat_map d_stat ss)) /\
    forall flv slv g, IL a b (rlocs (fst (thread (fun s g0 => tr_stat s flv slv g0) ss g))).
  Proof.
    induction ss as [|s r IH]; intros a b Hall Hf Hch; [split; [apply IL_nil|intros; apply IL_nil]|].
    inversion Hall as [|? ? Hs Hr]; subst. cbn [forallb] in Hf. apply andb_true_iff in Hf. destruct Hf as [Hf1 Hf2].
    cbn [flat_map] in Hch. destruct (chain_app W _ _ _ _ Hch) as [c [C1 C2]].
    pose proof (chain_le W _ _ _ C1) as L1. pose proof (chain_le W _ _ _ C2) as L2.
    destruct (Hs Hf1 a c C1) as [D1 R1]. destruct (IH c b Hr Hf2 C2) as [D2 R2]. split.
    - cbn [flat_map]. rewrite dlocs_app. apply (IL_seq a c b); auto.
    - intros flv slv g. cbn [thread]. specialize (R1 flv slv g). destruct (tr_stat s flv slv g) as [b1 g1].
      specialize (R2 flv slv g1). destruct (thread (fun s0 g0 => tr_stat s0 flv slv g0) r g1) as [b2 g2]. cbn [fst] in *.
      rewrite rlocs_app. apply (IL_seq a c b); auto.
  Qed.

  Lemma block_D bk a c :
    BD bk -> frag_block bk = true -> chain W a (LL.blockmarks bk) c -> a <= c ->
    IL a c (dlocs (d_block bk)) /\ forall flv slv g, IL a c (rlocs (fst (tr_block bk flv slv g))).
  Proof.
    intros Hb Hf Hch Hac. destruct bk as [ss ret l]. unfold LL.blockmarks in Hch. cbn [block_stats block_ret block_loc] in *.
    assert (Hreg : forall mid, chain W a (LS.MOpen l :: mid ++ [LS.MClose l]) c ->
                               chain W (lo W l) mid (hi W l) /\ a <= lo W l /\ hi W l <= c).
    { intros mid H. destruct (chain_region W _ _ _ _ H) as [_ [H2 [H3 H4]]]. auto. }
    destruct ss as [|s ss'].
    - destruct ret as [es|].
      + destruct (Hreg _ Hch) as [H4 [H2 H3]]. destruct (Hb Hf _ _ H4) as [D R].
        split; [exact (IL_widen _ _ _ _ _ D H2 H3)|intros; exact (IL_widen _ _ _ _ _ (R flv slv g) H2 H3)].
      + split; [apply IL_nil|intros; apply IL_nil].
    - destruct (Hreg _ Hch) as [H4 [H2 H3]]. destruct (Hb Hf _ _ H4) as [D R].
      split; [exact (IL_widen _ _ _ _ _ D H2 H3)|intros; exact (IL_widen _ _ _ _ _ (R flv slv g) H2 H3)].
  Qed.

  Lemma if_D : forall es bs a b,
    Forall PeD es -> Forall BD bs -> forallb frag_exp es = true -> forallb frag_block bs = true ->
    chain W a (LL.zipapp (map LS.m_exp es) (map LL.blockmarks bs)) b ->
    IL a b (dlocs (interleave (map d_exp es) (map d_block bs))) /\
    forall flv slv g,
      IL a b (rlocs (fst (alt_thread
                            (map (fun e g0 => tr_exp e None flv (set_inif g0 true)) es)
                            (map (fun bk g0 => let (a2, g2) := tr_block bk flv (slv + 1)%N (set_inif g0 false) in
                                               (APush :: a2 ++ [APop], g2)) bs) g))).
  Proof.
    induction es as [|e es' IH]; intros bs a b He Hb Hfe Hfb Hch; [split; [apply IL_nil|intros; apply IL_nil]|].
    destruct bs as [|bk bs']; [split; [apply IL_nil|intros; apply IL_nil]|].
    inversion He as [|? ? [He1 _] He2]; subst. inversion Hb as [|? ? Hb1 Hb2]; subst.
    cbn [forallb] in Hfe, Hfb. apply andb_true_iff in Hfe. destruct Hfe as [Hfe1 Hfe2].
    apply andb_true_iff in Hfb. destruct Hfb as [Hfb1 Hfb2].
    cbn [map LL.zipapp] in Hch. destruct (chain_app W _ _ _ _ Hch) as [c1 [C1 C2]].
    destruct (chain_app W _ _ _ _ C2) as [c2 [C3 C4]].
    pose proof (chain_le W _ _ _ C1) as L1. pose proof (chain_le W _ _ _ C3) as L2. pose proof (chain_le W _ _ _ C4) as L3.
    destruct (He1 Hfe1 a c1 C1) as [D1 R1]. destruct (block_D bk c1 c2 Hb1 Hfb1 C3 L2) as [D2 R2].
    destruct (IH bs' c2 b He2 Hb2 Hfe2 Hfb2 C4) as [D3 R3]. split.
    - cbn [map interleave]. rewrite !dlocs_app. apply (IL_seq a c1 b); auto; [|lia]. apply (IL_seq c1 c2 b); auto.
    - intros flv slv g. cbn [map alt_thread]. specialize (R1 None flv (set_inif g true)).
      destruct (tr_exp e None flv (set_inif g true)) as [a1 g1].
      specialize (R2 flv (slv + 1)%N (set_inif g1 false)). destruct (tr_block bk flv (slv + 1)%N (set_inif g1 false)) as [a2 g2].
      specialize (R3 flv slv g2). destruct (alt_thread _ _ g2) as [a3 g3]. cbn [fst] in *.
      rewrite !rlocs_app, rlocs_scope. apply (IL_seq a c1 b); auto; [|lia]. apply (IL_seq c1 c2 b); auto.
  Qed.

  Lemma rlocs_local_add_acts il : forall es ns ls ats, rlocs (local_add_acts il ns ls ats es) = [].
  Proof.
    induction es as [|e es' IH]; intros ns ls ats; cbn [local_add_acts]; [apply rlocs_local_rest|].
    destruct ns as [|n ns']; [reflexivity|]. destruct ls as [|l ls']; [reflexivity|].
    destruct ats as [|a ats']; [reflexivity|].
    destruct es' as [|e2 es2].
    - change (AAdd ?v :: ?r) with ([AAdd v] ++ r). rewrite rlocs_app, rlocs_local_rest. reflexivity.
    - change (AAdd ?v :: ?r) with ([AAdd v] ++ r). rewrite rlocs_app, IH. reflexivity.
  Qed.

  Lemma local_go_R flv slv l : forall es ns ls ats g a b,
    length ns = length ls -> length ns = length ats ->
    Forall PeD es -> forallb frag_exp es = true -> chain W a (flat_map LS.m_exp es) b ->
    IL a b (rlocs (fst (tr_stat (SLocal ns ls ats es l) flv slv g))).
  Proof.
    intros es ns ls ats g a b Hl Ha Hall Hf Hch.
    rewrite tr_stat_local.
    destruct (exps_D es a b Hall Hf Hch) as [_ Q]. specialize (Q flv g).
    destruct (thread (fun x g0 => tr_exp x None flv g0) es g) as [a1 g1]. cbn [fst] in *.
    rewrite rlocs_app, rlocs_local_add_acts, app_nil_r. exact Q.
  Qed.

  Ltac bs H := repeat (apply andb_true_iff in H; let H' := fresh H in destruct H as [H H']).

  Lemma PeD_atom e : d_exp e = [] -> (forall bp flv g, fst (tr_exp e bp flv g) = []) ->
                     match e with EFunc _ _ _ _ _ _ _ _ => False | _ => True end -> PeD e.
  Proof.
    intros Hd Ht Hk. split.
    - intros _ a b _. rewrite Hd. split; [apply IL_nil|intros; rewrite Ht; apply IL_nil].
    - destruct e; try exact I. contradiction.
  Qed.
  Lemma PeD_nofunc e : PD e -> match e with EFunc _ _ _ _ _ _ _ _ => False | _ => True end -> PeD e.
  Proof. intros H Hk. split; [exact H|]. destruct e; try exact I. contradiction. Qed.

  Lemma IL_single l a b : idok W l -> a <= lo W l -> hi W l <= b -> IL a b [l].
  Proof. intros H1 H2 H3. split; [constructor; [auto|constructor]|constructor; [intros []|constructor]]. Qed.

  Theorem distinct_all : (forall e, PeD e) /\ (forall s, SD s) /\ (forall b, BD b).
  Proof.
    apply TraverseBindDefs.tb_ast_ind.
    - intros; apply PeD_atom; auto.
    - intros; apply PeD_atom; auto.
    - intros; apply PeD_atom; auto.
    - intros; apply PeD_atom; auto.
    - intros; apply PeD_atom; auto.
    - intros; apply PeD_atom; auto.
    - intros; apply PeD_atom; auto.
    - intros; apply PeD_atom; auto.
    - (* EName *) intros n l. apply PeD_nofunc; [|exact I]. intros _ a b Hch. split; [apply IL_nil|].
      intros bp flv g. cbn [tr_exp fst rlocs flat_map app]. cbn [LS.m_exp] in Hch.
      rewrite <- (app_nil_r (LS.id_marks l)) in Hch. destruct (chain_id W _ _ _ _ Hch) as [Hid [Ha Hb]]. cbn [chain] in Hb.
      apply IL_single; auto.
    - (* EUnop *) intros o x l [IH _]. apply PeD_nofunc; [|exact I]. intros Hf a b Hch. destruct (IH Hf a b Hch) as [D R].
      split; [exact D|]. intros bp flv g. cbn [tr_exp].
      match goal with |- context [tr_exp x None flv ?g1] => specialize (R None flv g1); destruct (tr_exp x None flv g1) end. exact R.
    - (* EBinop *) intros o x y l [IHx _] [IHy _]. apply PeD_nofunc; [|exact I]. intros Hf a b Hch.
      cbn [frag_exp] in Hf. bs Hf. cbn [LS.m_exp] in Hch. destruct (chain_app W _ _ _ _ Hch) as [c [C1 C2]].
      pose proof (chain_le W _ _ _ C1) as L1. pose proof (chain_le W _ _ _ C2) as L2.
      destruct (IHx Hf a c C1) as [D1 R1]. destruct (IHy Hf0 c b C2) as [D2 R2]. split.
      + cbn [d_exp]. rewrite dlocs_app. apply (IL_seq a c b); auto.
      + intros bp flv g. cbn [tr_exp].
        match goal with |- context [tr_exp x ?bp1 flv ?g1] => specialize (R1 bp1 flv g1); destruct (tr_exp x bp1 flv g1) as [a1 g3] end.
        match goal with |- context [tr_exp y ?bp1 flv ?g1] => specialize (R2 bp1 flv g1); destruct (tr_exp y bp1 flv g1) as [a2 g4] end.
        cbn [fst] in *. rewrite rlocs_app. apply (IL_seq a c b); auto.
    - (* EParens *) intros x l [IH _]. apply PeD_nofunc; [|exact I]. intros Hf a b Hch. destruct (IH Hf a b Hch) as [D R].
      split; [exact D|]. intros bp flv g. cbn [tr_exp]. exact (R bp flv g).
    - intros p k l _ _. apply PeD_nofunc; [|exact I]. intros Hf; discriminate.
    - (* ECall *) intros p name args l [IHp _] IHa. apply PeD_nofunc; [|exact I]. intros Hf a b Hch.
      destruct name; [discriminate|]. cbn [frag_exp] in Hf. bs Hf.
      cbn [LS.m_exp] in Hch. rewrite app_assoc in Hch. destruct (chain_region W _ _ _ _ Hch) as [_ [H2 [H3 H4]]].
      destruct (chain_app W _ _ _ _ H4) as [c [C1 C2]].
      pose proof (chain_le W _ _ _ C1) as L1. pose proof (chain_le W _ _ _ C2) as L2.
      destruct (IHp Hf _ _ C1) as [D1 R1]. destruct (exps_D args _ _ IHa Hf0 C2) as [D2 R2]. split.
      + cbn [d_exp]. rewrite dlocs_app. eapply IL_widen; [apply (IL_seq _ c _); eauto|exact H2|exact H3].
      + intros bp flv g. cbn [tr_exp]. specialize (R1 None flv g). destruct (tr_exp p None flv g) as [a1 g1].
        specialize (R2 flv g1). destruct (thread (fun x g0 => tr_exp x None flv g0) args g1) as [a2 g2]. cbn [fst] in *.
        rewrite rlocs_app. eapply IL_widen; [apply (IL_seq _ c _); eauto|exact H2|exact H3].
    - intros ks vs l _ _. apply PeD_nofunc; [|exact I]. intros Hf; discriminate.
    - (* EFunc *) intros c f ps pl bk l va co IHb.
      assert (HF : PDF (EFunc c f ps pl bk l va co)).
      { cbn [PDF]. intros Hf a b Hch. destruct co; [discriminate|]. cbn [frag_exp] in Hf. bs Hf.
        apply Nat.eqb_eq in Hf1.
        destruct (chain_app W _ _ _ _ Hch) as [c1 [C1 C2]].
        pose proof (chain_le W _ _ _ C1) as L1. pose proof (chain_le W _ _ _ C2) as L2.
        destruct (IHb Hf0 c1 b C2) as [D2 R2]. split.
        - cbn [d_exp]. rewrite dlocs_app, (dlocs_plain DParam ps pl Hf1). apply (IL_seq a c1 b); auto. apply IL_ids. exact C1.
        - intros bp flv g. cbn [tr_exp]. specialize (R2 (flv + 1)%N 0%N g). destruct (tr_block bk (flv + 1)%N 0%N g) as [a0 g1].
          cbn [fst] in *. change (APush :: adds ps pl ++ a0 ++ [APop]) with (APush :: (adds ps pl ++ a0 ++ [APop])).
          rewrite app_assoc, rlocs_scope, rlocs_app, rlocs_adds. cbn [app]. exact (IL_widen _ _ _ _ _ R2 L1 (Z.le_refl b)). }
      split; [|exact HF]. intros Hf a b Hch.
      cbn [LS.m_exp] in Hch. rewrite app_assoc in Hch. destruct (chain_region W _ _ _ _ Hch) as [_ [H2 [H3 H4]]].
      destruct (HF Hf _ _ H4) as [D R]. split; [exact (IL_widen _ _ _ _ _ D H2 H3)|].
      intros bp flv g. exact (IL_widen _ _ _ _ _ (R bp flv g) H2 H3).
    - (* SBreak *) intros _ a b _. split; [apply IL_nil|intros; apply IL_nil].
    - intros n l Hf; discriminate.
    - intros n l Hf; discriminate.
    - (* SDo *) intros bk l IHb Hf a b Hch. cbn [frag_stat LS.m_stat] in *.
      destruct (chain_region W _ _ _ _ Hch) as [_ [H2 [H3 H4]]]. destruct (IHb Hf _ _ H4) as [D R]. split.
      + cbn [d_stat]. exact (IL_widen _ _ _ _ _ D H2 H3).
      + intros flv slv g. cbn [tr_stat]. specialize (R flv (slv + 1)%N g). destruct (tr_block bk flv (slv + 1)%N g) as [a0 g1].
        cbn [fst] in *. rewrite rlocs_scope. exact (IL_widen _ _ _ _ _ R H2 H3).
    - (* SCall *) intros e [IHe _] Hf a b Hch. cbn [frag_stat LS.m_stat] in *. destruct (IHe Hf a b Hch) as [D R].
      split; [exact D|]. intros flv slv g. cbn [tr_stat]. exact (R None flv g).
    - (* SIf *) intros es bs l IHe IHb Hf a b Hch. rewrite LL.m_stat_if in Hch. cbn [frag_stat] in Hf. bs Hf.
      destruct (if_D es bs a b IHe IHb Hf1 Hf0 Hch) as [D R]. split; [exact D|]. intros flv slv g. cbn [tr_stat]. exact (R flv slv g).
    - (* SWhile *) intros e bk l [IHe _] IHb Hf a b Hch. cbn [frag_stat LS.m_stat] in *. bs Hf.
      rewrite app_assoc in Hch. destruct (chain_region W _ _ _ _ Hch) as [_ [H2 [H3 H4]]].
      destruct (chain_app W _ _ _ _ H4) as [c [C1 C2]].
      pose proof (chain_le W _ _ _ C1) as L1. pose proof (chain_le W _ _ _ C2) as L2.
      destruct (IHe Hf _ _ C1) as [D1 R1]. destruct (IHb Hf0 _ _ C2) as [D2 R2]. split.
      + cbn [d_stat]. rewrite dlocs_app. eapply IL_widen; [apply (IL_seq _ c _); eauto|exact H2|exact H3].
      + intros flv slv g. cbn [tr_stat]. specialize (R1 None flv g). destruct (tr_exp e None flv g) as [a1 g1].
        specialize (R2 flv (slv + 1)%N g1). destruct (tr_block bk flv (slv + 1)%N g1) as [a2 g2]. cbn [fst] in *.
        rewrite rlocs_app, rlocs_scope. eapply IL_widen; [apply (IL_seq _ c _); eauto|exact H2|exact H3].
    - (* SRepeat *) intros bk e l IHb [IHe _] Hf a b Hch. cbn [frag_stat LS.m_stat] in *. bs Hf.
      rewrite app_assoc in Hch. destruct (chain_region W _ _ _ _ Hch) as [_ [H2 [H3 H4]]].
      destruct (chain_app W _ _ _ _ H4) as [c [C1 C2]].
      pose proof (chain_le W _ _ _ C1) as L1. pose proof (chain_le W _ _ _ C2) as L2.
      destruct (IHb Hf _ _ C1) as [D1 R1]. destruct (IHe Hf0 _ _ C2) as [D2 R2]. split.
      + cbn [d_stat]. rewrite dlocs_app. eapply IL_widen; [apply (IL_seq _ c _); eauto|exact H2|exact H3].
      + intros flv slv g. cbn [tr_stat]. specialize (R1 flv (slv + 1)%N g). destruct (tr_block bk flv (slv + 1)%N g) as [a1 g1].
        specialize (R2 None flv g1). destruct (tr_exp e None flv g1) as [a2 g2]. cbn [fst] in *.
        rewrite app_assoc, rlocs_scope, rlocs_app. eapply IL_widen; [apply (IL_seq _ c _); eauto|exact H2|exact H3].
    - (* SForNum *) intros n vl e1 e2 e3 bk l [IH1 _] [IH2 _] [IH3 _] IHb Hf a b Hch.
      cbn [frag_stat LS.m_stat] in *. bs Hf.
      rewrite !app_assoc in Hch. destruct (chain_region W _ _ _ _ Hch) as [_ [H2 [H3 H4]]].
      rewrite <- !app_assoc in H4. destruct (chain_id W _ _ _ _ H4) as [Hid [Ha Hr]].
      pose proof (idok_lt W _ Hid) as Hlt.
      destruct (chain_app W _ _ _ _ Hr) as [c1 [C1 R1]]. destruct (chain_app W _ _ _ _ R1) as [c2 [C2 R2]].
      destruct (chain_app W _ _ _ _ R2) as [c3 [C3 C4]].
      pose proof (chain_le W _ _ _ C1) as L1. pose proof (chain_le W _ _ _ C2) as L2.
      pose proof (chain_le W _ _ _ C3) as L3. pose proof (chain_le W _ _ _ C4) as L4.
      destruct (IH1 ltac:(assumption) _ _ C1) as [D1 Q1]. destruct (IH2 ltac:(assumption) _ _ C2) as [D2 Q2].
      destruct (IH3 ltac:(assumption) _ _ C3) as [D3 Q3]. destruct (IHb ltac:(assumption) _ _ C4) as [D4 Q4].
      split.
      + cbn [d_stat]. eapply IL_widen; [|exact H2|exact H3].
        (* textual order: vl, e1, e2, e3, block *)
        assert (T : IL (lo W l) (hi W l)
                       ([vl] ++ dlocs (d_exp e1) ++ dlocs (d_exp e2) ++ dlocs (d_exp e3) ++ dlocs (d_block bk))).
        { apply (IL_seq _ (hi W vl) _); try lia; [apply IL_single; auto; lia|].
          apply (IL_seq _ c1 _); auto; try lia. apply (IL_seq _ c2 _); auto; try lia. apply (IL_seq _ c3 _); auto. }
        eapply IL_perm; [|exact T]. rewrite !dlocs_app. cbn [dlocs map d_loc app].
        fold (dlocs (d_block bk)).
        apply perm_fornum.
      + intros flv slv g. cbn [tr_stat].
        specialize (Q1 None flv g). destruct (tr_exp e1 None flv g) as [a1 g1].
        specialize (Q2 None flv g1). destruct (tr_exp e2 None flv g1) as [a2 g2].
        specialize (Q3 None flv g2). destruct (tr_exp e3 None flv g2) as [a3 g3].
        specialize (Q4 flv (slv + 1)%N g3). destruct (tr_block bk flv (slv + 1)%N g3) as [a4 g4]. cbn [fst] in *.
        replace (APush :: a1 ++ a2 ++ a3 ++ AAdd (param_var n vl) :: a4 ++ [APop])
          with (APush :: (a1 ++ a2 ++ a3 ++ [AAdd (param_var n vl)] ++ a4) ++ [APop]) by (rewrite <- !app_assoc; reflexivity).
        rewrite rlocs_scope, !rlocs_app. cbn [rlocs flat_map app].
        eapply IL_widen; [|exact H2|exact H3].
        assert (T : IL (hi W vl) (hi W l) (rlocs a1 ++ rlocs a2 ++ rlocs a3 ++ rlocs a4)).
        { apply (IL_seq _ c1 _); auto; try lia. apply (IL_seq _ c2 _); auto; try lia. apply (IL_seq _ c3 _); auto. }
        eapply IL_widen; [|exact (Z.le_trans _ _ _ Ha (Z.lt_le_incl _ _ Hlt))|apply Z.le_refl].
        eapply IL_perm; [|exact T]. apply Permutation_refl.
    - (* SForIn *) intros ns ls es bk l IHe IHb Hf a b Hch. cbn [frag_stat LS.m_stat] in *. bs Hf.
      rewrite !app_assoc in Hch. destruct (chain_region W _ _ _ _ Hch) as [_ [H2 [H3 H4]]].
      rewrite <- !app_assoc in H4.
      destruct (chain_app W _ _ _ _ H4) as [c1 [C1 R1]]. destruct (chain_app W _ _ _ _ R1) as [c2 [C2 C3]].
      pose proof (chain_le W _ _ _ C1) as L1. pose proof (chain_le W _ _ _ C2) as L2. pose proof (chain_le W _ _ _ C3) as L3.
      destruct (exps_D es _ _ IHe ltac:(assumption) C2) as [D1 Q1]. destruct (IHb ltac:(assumption) _ _ C3) as [D2 Q2].
      match goal with H : (length ns =? length ls)%nat = true |- _ => apply Nat.eqb_eq in H; rename H into Hlen end.
      split.
      + cbn [d_stat]. rewrite !dlocs_app, (dlocs_plain DLoop ns ls Hlen). eapply IL_widen; [|exact H2|exact H3].
        assert (T : IL (lo W l) (hi W l) (ls ++ dlocs (flat_map d_exp es) ++ dlocs (d_block bk))).
        { apply (IL_seq _ c1 _); try lia; [apply IL_ids; exact C1|]. apply (IL_seq _ c2 _); auto. }
        eapply IL_perm; [|exact T]. apply Permutation_app_swap_app.
      + intros flv slv g. cbn [tr_stat]. specialize (Q1 flv g). destruct (thread (fun x g0 => tr_exp x None flv g0) es g) as [a1 g1].
        specialize (Q2 flv (slv + 1)%N g1). destruct (tr_block bk flv (slv + 1)%N g1) as [a2 g2]. cbn [fst] in *.
        replace (APush :: a1 ++ adds ns ls ++ a2 ++ [APop]) with (APush :: (a1 ++ adds ns ls ++ a2) ++ [APop])
          by (rewrite <- !app_assoc; reflexivity).
        rewrite rlocs_scope, !rlocs_app, rlocs_adds. cbn [app].
        eapply IL_widen; [apply (IL_seq c1 c2 (hi W l)); eauto|lia|exact H3].
    - (* SAssign *) intros vars es l IHv IHe Hf a b Hch.
      destruct vars as [|v vars']; try discriminate Hf. destruct v; try discriminate Hf.
      destruct vars' as [|v2 vars']; try discriminate Hf.
      destruct es as [|e es']; try discriminate Hf. destruct es' as [|e2 es']; try discriminate Hf.
      cbn [frag_stat] in Hf. apply andb_true_iff in Hf. destruct Hf as [_ Hfe].
      pose proof (Forall_inv IHe) as [He HeF].
      assert (Hcase : (exists c f0 fn ps pls bk fl va co, e = EFunc c (f0 :: fn) ps pls bk fl va co)
                      \/ LS.m_stat (SAssign [EName n l0] [e] l) = LS.id_marks l0 ++ LS.m_exp e).
      { destruct e as [?|?|?|?|?|? ?|? ?|? ?|? ? ?|? ? ? ?|? ? ?|cls fname pars parlocs bk0 fl0 va0 co0|? ?|? ?|? ? ?|? ? ? ?];
          try (right; cbn; rewrite ?app_nil_r; reflexivity).
        destruct fname as [|f0 fn]; [right; cbn; rewrite ?app_nil_r; reflexivity|]. left. do 9 eexists. reflexivity. }
      assert (Hgoal : forall a' b', a <= a' -> b' <= b ->
                (IL a' b' (dlocs (d_exp e)) /\ forall bp flv g, IL a' b' (rlocs (fst (tr_exp e bp flv g)))) ->
                IL a b (dlocs (d_stat (SAssign [EName n l0] [e] l))) /\
                forall flv slv g, IL a b (rlocs (fst (tr_stat (SAssign [EName n l0] [e] l) flv slv g)))).
      { intros a' b' Ha' Hb' [D R]. split.
        - cbn [d_stat flat_map]. rewrite app_nil_r. exact (IL_widen _ _ _ _ _ D Ha' Hb').
        - intros flv slv g. cbn [tr_stat map assign_thread tl thread fst snd].
          match goal with |- context [tr_exp e None flv ?g0] => specialize (R None flv g0); destruct (tr_exp e None flv g0) as [a1 g1] end.
          cbn [fst snd] in *. rewrite !app_nil_r, rlocs_app. cbn [rlocs flat_map app]. rewrite app_nil_r.
          exact (IL_widen _ _ _ _ _ R Ha' Hb'). }
      destruct Hcase as [[c [f0 [fn [ps [pls [bk [fl [va [co ->]]]]]]]]]|Hm].
      + cbn [LS.m_stat] in Hch. cbn [PDF] in HeF.
        rewrite !app_assoc in Hch. destruct (chain_region W _ _ _ _ Hch) as [Hc [H2 [H3 H4]]].
        rewrite <- !app_assoc in H4. destruct (chain_id W _ _ _ _ H4) as [Hid [Ha Hr]].
        pose proof (idok_lt W _ Hid) as Hlt.
        apply (Hgoal (hi W l0) (hi W fl)); [lia|exact H3|]. exact (HeF Hfe _ _ Hr).
      + rewrite Hm in Hch. destruct (chain_id W _ _ _ _ Hch) as [Hid [Ha Hr]].
        pose proof (idok_lt W _ Hid) as Hlt.
        apply (Hgoal (hi W l0) b); [lia|apply Z.le_refl|]. exact (He Hfe _ _ Hr).
    - (* SLocal *) intros ns ls ats es l IHe Hf a b Hch. cbn [frag_stat LS.m_stat] in *. bs Hf.
      repeat match goal with
             | H : (_ =? _)%nat = true |- _ => apply Nat.eqb_eq in H
             end.
      destruct (chain_app W _ _ _ _ Hch) as [c0 [C1 C2]].
      pose proof (chain_le W _ _ _ C1) as L1. pose proof (chain_le W _ _ _ C2) as L2.
      destruct (LL.local_marks_chain W ns ls es l c0 b C2) as (c1 & c2 & Lc1 & Lc2 & C3 & _).
      pose proof (chain_le W _ _ _ C3) as L3.
      destruct (exps_D es _ _ IHe ltac:(assumption) C3) as [D1 _]. split.
      + cbn [d_stat]. rewrite dlocs_app, (dlocs_local _ ns ls ats es None) by assumption.
        eapply IL_perm; [apply Permutation_app_comm|]. apply (IL_seq a c0 b); auto; [apply IL_ids; exact C1|].
        exact (IL_widen _ _ _ _ _ D1 Lc1 Lc2).
      + intros flv slv g.
        repeat match goal with
               | H : (_ <=? _)%nat = true |- _ => apply Nat.leb_le in H
               end.
        assert (La1 : a <= c1) by lia.
        exact (IL_widen _ _ _ _ _ (local_go_R flv slv l es ns ls ats g c1 c2 ltac:(assumption) ltac:(assumption)
                                              IHe ltac:(assumption) C3) La1 Lc2).
    - (* SLocalFunc *) intros n nl f l [_ IHf] Hf a b Hch. cbn [frag_stat] in Hf. bs Hf.
      destruct f; try discriminate. cbn [PDF LS.m_stat] in *.
      rewrite !app_assoc in Hch. destruct (chain_region W _ _ _ _ Hch) as [Hc [H2 [H3 H4]]].
      rewrite <- !app_assoc in H4. destruct (chain_id W _ _ _ _ H4) as [Hid [Ha Hr]].
      pose proof (idok_lt W _ Hid) as Hlt. pose proof (chain_le W _ _ _ Hr) as Hle.
      destruct (IHf ltac:(assumption) _ _ Hr) as [D R]. split.
      + cbn [d_stat dlocs map d_loc]. change (nl :: ?x) with ([nl] ++ x).
        eapply IL_widen; [apply (IL_seq (lo W l0) (hi W nl) (hi W l0)); [apply IL_single; auto; lia|exact D|lia|exact Hle]|exact H2|exact H3].
      + intros flv slv g. cbn [tr_stat]. specialize (R None flv g).
        match goal with |- context [tr_exp ?ee None flv g] => destruct (tr_exp ee None flv g) as [a1 g1] end.
        cbn [fst] in *. change (AAdd ?v :: a1) with ([AAdd v] ++ a1). rewrite rlocs_app. cbn [rlocs flat_map app].
        eapply IL_widen; [exact R|lia|exact H3].
    - (* Block *) intros ss ret l IHs IHr Hf a b Hch. cbn [frag_block LS.m_block] in *. bs Hf.
      destruct (chain_app W _ _ _ _ Hch) as [c [C1 C2]].
      pose proof (chain_le W _ _ _ C1) as L1. pose proof (chain_le W _ _ _ C2) as L2.
      destruct (stats_D ss a c IHs Hf C1) as [D1 R1].
      destruct ret as [es|].
      + cbn [TraverseBindDefs.tb_ret] in IHr. destruct (exps_D es c b IHr Hf0 C2) as [D2 R2]. split.
        * cbn [d_block]. rewrite dlocs_app. apply (IL_seq a c b); auto.
        * intros flv slv g. cbn [tr_block]. specialize (R1 flv slv g). destruct (thread (fun s g0 => tr_stat s flv slv g0) ss g) as [a1 g1].
          specialize (R2 flv g1). destruct (thread (fun x g0 => tr_exp x None flv g0) es g1) as [a2 g2]. cbn [fst] in *.
          rewrite rlocs_app. apply (IL_seq a c b); auto.
      + split.
        * cbn [d_block]. rewrite app_nil_r. exact (IL_widen _ _ _ _ _ D1 (Z.le_refl a) L2).
        * intros flv slv g. cbn [tr_block]. specialize (R1 flv slv g). destruct (thread (fun s g0 => tr_stat s flv slv g0) ss g) as [a1 g1].
          cbn [fst] in *. rewrite app_nil_r. exact (IL_widen _ _ _ _ _ R1 (Z.le_refl a) L2).
  Qed.
End Distinct.

(* ------------------------------------------------------------------ whole chunks *)
Lemma loc_mem_in l ls : loc_mem l ls = true <-> In l ls.
Proof.
  unfold loc_mem. rewrite existsb_exists. split.
  - intros [x [Hx He]]. apply uloc_eqb_eq in He. subst. exact Hx.
  - intros H. exists l. split; [exact H|apply uloc_eqb_refl].
Qed.

Lemma nodup_locb_complete ls : NoDup ls -> nodup_locb ls = true.
Proof.
  induction 1 as [|x r Hn Hr IH]; [reflexivity|]. cbn. rewrite IH, andb_true_r. apply negb_true_iff.
  destruct (loc_mem x r) eqn:E; [|reflexivity]. apply loc_mem_in in E. contradiction.
Qed.

Definition supp_of (tr : list action) : list loc := flat_map (fun a => match a with ARead _ l _ true _ => [l] | _ => [] end) tr.
Definition circ_of_tr (tr : list action) : list loc := flat_map (fun a => match a with ARead _ l _ _ true => [l] | _ => [] end) tr.

Lemma supp_incl tr : incl (supp_of tr) (rlocs tr).
Proof.
  induction tr as [|a r IH]; [intros x []|]. unfold supp_of, rlocs in *. cbn [flat_map]. intros x Hx.
  apply in_app_or in Hx. apply in_or_app. destruct Hx as [Hx|Hx]; [left|right; apply IH; exact Hx].
  destruct a; try destruct Hx. destruct supp; [exact Hx|destruct Hx].
Qed.
Lemma circ_incl tr : incl (circ_of_tr tr) (rlocs tr).
Proof.
  induction tr as [|a r IH]; [intros x []|]. unfold circ_of_tr, rlocs in *. cbn [flat_map]. intros x Hx.
  apply in_app_or in Hx. apply in_or_app. destruct Hx as [Hx|Hx]; [left|right; apply IH; exact Hx].
  destruct a; try destruct Hx. destruct circ; [exact Hx|destruct Hx].
Qed.

Lemma flags_of_nodup tr :
  NoDup (rlocs tr) ->
  forallb (flag_ok (fun l => loc_mem l (supp_of tr)) (fun l => loc_mem l (circ_of_tr tr))) tr = true.
Proof.
  intros Hnd. apply forallb_forall. intros a Ha. destruct a as [| |v|n l flv su ci|]; try reflexivity.
  destruct (in_split _ _ Ha) as [pre [post E]]. subst tr.
  rewrite rlocs_app in Hnd. cbn [rlocs flat_map app] in Hnd. fold (rlocs post) in Hnd.
  pose proof (NoDup_remove_2 _ _ _ Hnd) as Hni.
  assert (Hpre : ~ In l (rlocs pre)) by (intros H; apply Hni; apply in_or_app; left; exact H).
  assert (Hpost : ~ In l (rlocs post)) by (intros H; apply Hni; apply in_or_app; right; exact H).
  cbn [flag_ok]. apply andb_true_iff. split; apply eqb_true_iff.
  - unfold supp_of. rewrite flat_map_app. cbn [flat_map]. fold (supp_of pre). fold (supp_of post).
    destruct su.
    + symmetry. apply loc_mem_in. apply in_or_app. right. left. reflexivity.
    + symmetry. destruct (loc_mem l (supp_of pre ++ [] ++ supp_of post)) eqn:E; [|reflexivity]. exfalso.
      apply loc_mem_in in E. apply in_app_or in E. destruct E as [E|E]; [apply Hpre; apply supp_incl; exact E|].
      cbn [app] in E. apply Hpost. apply supp_incl. exact E.
  - unfold circ_of_tr. rewrite flat_map_app. cbn [flat_map]. fold (circ_of_tr pre). fold (circ_of_tr post).
    destruct ci.
    + symmetry. apply loc_mem_in. apply in_or_app. right. left. reflexivity.
    + symmetry. destruct (loc_mem l (circ_of_tr pre ++ [] ++ circ_of_tr post)) eqn:E; [|reflexivity]. exfalso.
      apply loc_mem_in in E. apply in_app_or in E. destruct E as [E|E]; [apply Hpre; apply circ_incl; exact E|].
      cbn [app] in E. apply Hpost. apply circ_incl. exact E.
Qed.

Theorem usage_laid_distinct W b :
  in_fragment b = true -> LS.laid_b W b = true -> decl_locs_distinct b = true /\ flags_ok b = true.
Proof.
  intros Hf Hl. unfold LS.laid_b in Hl. apply andb_true_iff in Hl. destruct Hl as [Hl Hst].
  apply andb_true_iff in Hl. destruct Hl as [HW Hok]. apply Z.ltb_lt in HW.
  unfold LS.marks in *. destruct (TraverseBindLaidMain.steps_chain W _ _ Hok Hst) as [c Hb].
  destruct Hb as [_ [_ Hb]]. destruct (chain_app W _ _ _ _ Hb) as [c1 [C1 _]].
  destruct (distinct_all W) as [_ [_ HB]]. destruct (HB b Hf _ _ C1) as [[_ D] R]. split.
  - unfold decl_locs_distinct. apply nodup_locb_complete. exact D.
  - unfold flags_ok. specialize (R 0%N 0%N ign0). destruct R as [_ R].
    change (supp_locs b) with (supp_of (trace b)). change (circ_locs b) with (circ_of_tr (trace b)).
    apply flags_of_nodup. unfold trace. rewrite rlocs_scope. exact R.
Qed.

(* the diagnostics of the file agree, as a set, with the reference on every Laid chunk of the fragment (the classes
   multi_local_order and later_elsewhere are repaired: no class guard is left) *)
Theorem usage_diags_agree_laid_only W c b all others :
  in_fragment b = true -> LS.laid_b W b = true ->
  (forall n, name_mem n all = name_mem n (gnames (s1_gmap (first_pass c b))) || name_mem n others) ->
  forall x, In x (go_diags c b all others) <-> In x (spec_diags c b others).
Proof.
  intros Hf Hl Hall. destruct (usage_laid_distinct W b Hf Hl) as [Hd Hfl].
  exact (usage_diags_agree_laid W c b all others Hf Hl Hfl Hd Hall).
Qed.
