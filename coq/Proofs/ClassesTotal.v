(* C15 / C01: the class traversal terminates for every workspace (cycles, diamonds, self-parents included).
   Measure: number of definitions of the workspace not yet in repeatTypeList; every recursive call of
   getClassTypeInfoList happens after a new definition has been appended. *)
From Coq Require Import List NArith ZArith Bool Lia.
From LH Require Import Base.Res Model.Classes.
Import ListNotations.
Local Open Scope N_scope.

Lemma mem_true_iff x l : mem x l = true <-> In x l.
Proof.
  unfold mem. rewrite existsb_exists. split.
  - intros [y [Hy He]]. apply N.eqb_eq in He. subst. exact Hy.
  - intros H. exists x. split; [exact H|apply N.eqb_refl].
Qed.

Lemma mem_false_iff x l : mem x l = false <-> ~ In x l.
Proof.
  rewrite <- mem_true_iff. destruct (mem x l); split; intros H.
  - discriminate.
  - exfalso. apply H. reflexivity.
  - discriminate.
  - reflexivity.
Qed.

(* ---------- the measure ---------- *)
Definition unseen (s : st) (d : def) : bool := negb (mem (d_id d) (s_defs s)).
Definition unv (tm : tmap) (s : st) : nat := length (filter (unseen s) tm).

Lemma filter_length_le {A} (p : A -> bool) l : (length (filter p l) <= length l)%nat.
Proof. induction l as [|x l IH]; simpl; [lia|]. destruct (p x); simpl; lia. Qed.

Lemma filter_length_mono {A} (p q : A -> bool) l :
  (forall x, In x l -> q x = true -> p x = true) ->
  (length (filter q l) <= length (filter p l))%nat.
Proof.
  induction l as [|x l IH]; intros H; simpl; [lia|].
  assert (IH' := IH (fun y Hy => H y (or_intror Hy))).
  destruct (q x) eqn:Hq.
  - rewrite (H x (or_introl eq_refl) Hq). simpl. lia.
  - destruct (p x); simpl; lia.
Qed.

Lemma filter_length_lt {A} (p q : A -> bool) l x :
  (forall y, In y l -> q y = true -> p y = true) ->
  In x l -> p x = true -> q x = false ->
  (length (filter q l) < length (filter p l))%nat.
Proof.
  induction l as [|y l IH]; intros H Hin Hp Hq; [destruct Hin|].
  simpl. destruct Hin as [->|Hin].
  - rewrite Hp, Hq. simpl.
    assert (Hm := filter_length_mono p q l (fun z Hz => H z (or_intror Hz))). lia.
  - assert (IH' := IH (fun z Hz => H z (or_intror Hz)) Hin Hp Hq).
    destruct (q y) eqn:Hqy.
    + rewrite (H y (or_introl eq_refl) Hqy). simpl. lia.
    + destruct (p y); simpl; lia.
Qed.

Lemma unv_le_length tm s : (unv tm s <= length tm)%nat.
Proof. apply filter_length_le. Qed.

Lemma unv_mono tm s s' : incl (s_defs s) (s_defs s') -> (unv tm s' <= unv tm s)%nat.
Proof.
  intros Hi. apply filter_length_mono. intros x _. unfold unseen.
  rewrite !negb_true_iff, !mem_false_iff. intros Hn Hc. apply Hn. apply Hi. exact Hc.
Qed.

Lemma unv_add_def tm s d :
  In d tm -> mem (d_id d) (s_defs s) = false -> (unv tm (add_def d s) < unv tm s)%nat.
Proof.
  intros Hin Hm. apply filter_length_lt with (x := d).
  - intros y _. unfold unseen, add_def. simpl. rewrite !negb_true_iff.
    destruct (d_id y =? d_id d) eqn:E; simpl; [discriminate|]. tauto.
  - exact Hin.
  - unfold unseen. rewrite Hm. reflexivity.
  - unfold unseen, add_def. simpl. rewrite N.eqb_refl. reflexivity.
Qed.

Lemma unv_add_name tm n s : unv tm (add_name n s) = unv tm s.
Proof. reflexivity. Qed.

Lemma best_of_in l ds d : best_of l ds = Some d -> In d ds.
Proof.
  revert d. induction ds as [|x r IH]; intros d H; simpl in H; [discriminate|].
  destruct (best_of l r) as [b|] eqn:Hb.
  - destruct (Z.ltb (score b l) (score x l)); injection H as <-; [right; apply IH; reflexivity|left; reflexivity].
  - injection H as <-. left. reflexivity.
Qed.

Lemma file_defs_in tm f n d : In d (file_defs tm f n) -> In d tm /\ d_file d = f /\ d_name d = n.
Proof.
  unfold file_defs. rewrite filter_In, andb_true_iff, !N.eqb_eq. tauto.
Qed.

Lemma global_defs_in tm n d : In d (global_defs tm n) <-> In d tm /\ d_name d = n.
Proof. unfold global_defs. rewrite filter_In, N.eqb_eq. tauto. Qed.

Lemma best_in tm f n l d : best tm f n l = Some d -> In d tm /\ d_file d = f /\ d_name d = n.
Proof. intros H. apply best_of_in in H. apply file_defs_in in H. exact H. Qed.

(* ---------- a visitor that succeeds below a bound and only adds to repeatTypeList ---------- *)
Section Total.
  Variable tm : tmap.

  Definition GoodV (k : nat) (V : visitor) : Prop :=
    forall n f l s, (unv tm s < k)%nat ->
      exists o s', V n f l s = Ok (o, s') /\ incl (s_defs s) (s_defs s').

  Lemma parents_loop_total k V self ps f l s :
    GoodV k V -> (unv tm s < k)%nat ->
    exists o s', parents_loop V self ps f l s = Ok (o, s') /\ incl (s_defs s) (s_defs s').
  Proof.
    intros HV. revert s. induction ps as [|p ps IH]; intros s Hs; simpl.
    - exists [], s. split; [reflexivity|apply incl_refl].
    - destruct (mem p (s_names s) || (self =? p)); [apply IH; exact Hs|].
      destruct (HV p f l s Hs) as [o1 [s1 [E1 I1]]]. rewrite E1. simpl.
      assert (Hs1 : (unv tm s1 < k)%nat) by (pose proof (unv_mono tm s s1 I1); lia).
      destruct (IH s1 Hs1) as [o2 [s2 [E2 I2]]]. rewrite E2. simpl.
      exists (o1 ++ o2), s2. split; [reflexivity|]. eapply incl_tran; eassumption.
  Qed.

  Lemma names_loop_total k V ns f l s :
    GoodV k V -> (unv tm s < k)%nat ->
    exists o s', names_loop V ns f l s = Ok (o, s') /\ incl (s_defs s) (s_defs s').
  Proof.
    intros HV. revert s. induction ns as [|m ns IH]; intros s Hs; simpl.
    - exists [], s. split; [reflexivity|apply incl_refl].
    - destruct (mem m (s_names s)); [apply IH; exact Hs|].
      destruct (HV m f l (add_name m s) Hs) as [o1 [s1 [E1 I1]]]. rewrite E1. simpl.
      assert (Hs1 : (unv tm s1 < k)%nat).
      { pose proof (unv_mono tm (add_name m s) s1 I1). rewrite unv_add_name in H. lia. }
      destruct (IH s1 Hs1) as [o2 [s2 [E2 I2]]]. rewrite E2. simpl.
      exists (o1 ++ o2), s2. split; [reflexivity|]. eapply incl_tran; [exact I1|exact I2].
  Qed.

  Lemma one_def_total k V n d s :
    GoodV k V -> (unv tm s < k)%nat ->
    exists o s', one_def V n d s = Ok (o, s') /\ incl (s_defs s) (s_defs s').
  Proof.
    intros HV Hs. unfold one_def. destruct (d_kind d) as [ps fs|t].
    - destruct (parents_loop_total k V n ps (d_file d) (d_line d) s HV Hs) as [o [s' [E I]]].
      rewrite E. simpl. exists (d :: o), s'. split; [reflexivity|exact I].
    - apply (names_loop_total k); assumption.
  Qed.

  Lemma defs_loop_total k V n ds s :
    GoodV k V -> (forall d, In d ds -> In d tm) -> (unv tm s <= k)%nat ->
    exists o s', defs_loop V n ds s = Ok (o, s') /\ incl (s_defs s) (s_defs s').
  Proof.
    intros HV. revert s. induction ds as [|d ds IH]; intros s Hin Hs; simpl.
    - exists [], s. split; [reflexivity|apply incl_refl].
    - assert (Hin' : forall d0, In d0 ds -> In d0 tm) by (intros d0 H0; apply Hin; right; exact H0).
      destruct (mem (d_id d) (s_defs s)) eqn:Hm; [apply IH; assumption|].
      assert (Hlt : (unv tm (add_def d s) < k)%nat).
      { pose proof (unv_add_def tm s d (Hin d (or_introl eq_refl)) Hm). lia. }
      destruct (one_def_total k V n d (add_def d s) HV Hlt) as [o1 [s1 [E1 I1]]]. rewrite E1. simpl.
      assert (Hs1 : (unv tm s1 <= k)%nat) by (pose proof (unv_mono tm _ _ I1); lia).
      destruct (IH s1 Hin' Hs1) as [o2 [s2 [E2 I2]]]. rewrite E2. simpl.
      exists (o1 ++ o2), s2. split; [reflexivity|].
      eapply incl_tran; [|exact I2]. eapply incl_tran; [|exact I1].
      unfold add_def. simpl. apply incl_tl, incl_refl.
  Qed.

  Lemma visit_body_total fx k V :
    GoodV k V -> GoodV (S k) (visit_body_v fx tm V).
  Proof.
    intros HV n f l s Hs. unfold visit_body_v.
    destruct (best tm f n l) as [d|] eqn:Hb.
    - apply best_in in Hb. destruct Hb as [Hin [_ Hnm]]. destruct fx.
      + apply (defs_loop_total k); [exact HV| |lia].
        intros d0 [<-|Hd]; [exact Hin|]. apply global_defs_in in Hd. tauto.
      + destruct (mem (d_id d) (s_defs s)) eqn:Hm.
        * exists [], s. split; [reflexivity|apply incl_refl].
        * assert (Hlt : (unv tm (add_def d s) < k)%nat) by (pose proof (unv_add_def tm s d Hin Hm); lia).
          destruct (one_def_total k V n d (add_def d s) HV Hlt) as [o [s' [E I]]].
          exists o, s'. split; [exact E|]. eapply incl_tran; [|exact I].
          unfold add_def. simpl. apply incl_tl, incl_refl.
    - apply (defs_loop_total k); [exact HV| |lia].
      intros d Hd. apply global_defs_in in Hd. tauto.
  Qed.

  Lemma visit_total fx fuel : GoodV fuel (visit_v fx tm fuel).
  Proof.
    induction fuel as [|k IH].
    - intros n f l s Hs. lia.
    - simpl. apply visit_body_total. exact IH.
  Qed.

  (* cyclic and diamond graphs included: no hypothesis on tm whatsoever; both variants of the lookup *)
  Theorem class_list_v_terminates fx t f l : exists o, class_list_v fx (fuel_of tm) tm t f l = Ok o.
  Proof.
    unfold class_list_v, fuel_of.
    assert (H0 : (unv tm st0 < S (length tm))%nat) by (pose proof (unv_le_length tm st0); lia).
    destruct (names_loop_total (S (length tm)) (visit_v fx tm (S (length tm))) (normal_names t) f l st0
                (visit_total fx _) H0) as [o [s' [E _]]].
    rewrite E. simpl. exists o. reflexivity.
  Qed.

  (* the deployed variant (name and statement cited by Properties/C01.v and C15.v) *)
  Theorem class_list_terminates t f l : exists o, class_list (fuel_of tm) tm t f l = Ok o.
  Proof. exact (class_list_v_terminates c15_split_fixed t f l). Qed.

End Total.

(* ---------- C01: the alias recursion without a visited set (cited from Properties/C01.v) ---------- *)
(* { A -> alias B ; B -> alias A }: GetAllArrayType / GetAllTableType / GetAllTableKeyType never return,
   whatever the stack size (fuel = number of alias jumps).  Confirmed on the server: fatal stack overflow. *)
Definition cyc_tm : tmap :=
  [ mkDef 0 10 0 1 (DAlias (TMulti [TName 11])); mkDef 1 11 0 3 (DAlias (TMulti [TName 10])) ].

Lemma alias_cycle_never_returns leaf : forall fuel,
  resolve leaf cyc_tm fuel (TMulti [TName 10]) 0 = OutOfFuel /\
  resolve leaf cyc_tm fuel (TMulti [TName 11]) 0 = OutOfFuel.
Proof.
  induction fuel as [|k [A B]]; [split; reflexivity|]. split.
  - change (resolve leaf cyc_tm (S k) (TMulti [TName 10]) 0)
      with (rbind (resolve leaf cyc_tm k (TMulti [TName 11]) 0)
                  (fun a => match a with Some e => Ok (Some e) | None => Ok None end)).
    rewrite B. reflexivity.
  - change (resolve leaf cyc_tm (S k) (TMulti [TName 11]) 0)
      with (rbind (resolve leaf cyc_tm k (TMulti [TName 10]) 0)
                  (fun a => match a with Some e => Ok (Some e) | None => Ok None end)).
    rewrite A. reflexivity.
Qed.
