(* C07, part 7: the unused-local diagnostics (types 4 and 17).
   in_fragment b -> pos_clean b -> decl_locs_distinct b ->
   the sweeps of the first pass report exactly (as a set) what `spec_unused` demands:
   type 4 for a declaration iff no read binds to it and it is not exempt, type 17 for the assignments to such a
   declaration. *)
From Coq Require Import List NArith ZArith Bool Lia Permutation.
From LH Require Import Base.Bytes Model.Lexer Model.Ast Spec.LuaUsage Model.Usage Proofs.TraverseBindDefs
  Proofs.UsageBindRun Proofs.UsageBindSim Proofs.UsageBind Proofs.UsageBindSweep Proofs.UsageBindDecls.
Import ListNotations.
Local Open Scope N_scope.

(* ------------------------------------------------------------------ a variable evolved by the occurrences bound to it *)
Definition w17 (d : loc) (os : list occ) : list loc :=
  flat_map (fun o => match o with
                     | OWrite _ l b _ _ _ => if binds_to d b && negb (loc_initial l) then [l] else []
                     | _ => []
                     end) os.

Definition refer_fold (d : loc) (nm : name) (os : list occ) (r : refer) : refer :=
  fold_left (fun r o => match o with
                        | OWrite _ _ b _ _ rhs => if binds_to d b then repoint nm rhs r else r
                        | _ => r
                        end) os r.

Lemma evolve_fields d : forall os v,
  v_name (evolve_at d v os) = v_name v /\ v_loc (evolve_at d v os) = v_loc v /\
  v_close (evolve_at d v os) = v_close v /\ v_rfunc (evolve_at d v os) = v_rfunc v /\
  v_used (evolve_at d v os) = v_used v || existsb (read_binds_to d) os /\
  (v_refer (evolve_at d v os), v_empty (evolve_at d v os)) = refer_fold d (v_name v) os (v_refer v, v_empty v) /\
  (v_used (evolve_at d v os) = false -> v_noassign (evolve_at d v os) = v_noassign v ++ w17 d os).
Proof.
  induction os as [|o r IH]; intros v.
  - cbn. rewrite orb_false_r, app_nil_r. repeat split; reflexivity.
  - cbn [evolve_at fold_left]. fold (evolve_at d (if bound_to d o then apply_occ o v else v) r).
    destruct (IH (if bound_to d o then apply_occ o v else v)) as [A1 [A2 [A3 [A4 [A5 [A6 A7]]]]]].
    destruct o as [n l b flv|n l b flv slv rhs]; cbn [bound_to apply_occ read_binds_to existsb refer_fold fold_left w17 flat_map] in *.
    + destruct (binds_to d b) eqn:Eb.
      * cbn [mark v_name v_loc v_close v_rfunc v_used v_refer v_empty v_noassign orb app] in *.
        rewrite A1, A2, A3, A4, A5. repeat split; try reflexivity.
        -- rewrite orb_true_r. reflexivity.
        -- exact A6.
        -- intros Hu. cbn [orb] in Hu. discriminate.
      * cbn [orb app]. repeat split; assumption.
    + destruct (binds_to d b) eqn:Eb.
      * cbn [assign_to v_name v_loc v_close v_rfunc v_used v_refer v_empty v_noassign orb andb app] in *.
        rewrite A1, A2, A3, A4, A5. repeat split; try reflexivity.
        -- rewrite A6. destruct (repoint (v_name v) rhs (v_refer v, v_empty v)); reflexivity.
        -- intros Hu. rewrite A7 by (rewrite A5; exact Hu). apply orb_false_iff in Hu. destruct Hu as [Hu _].
           rewrite Hu. cbn [negb andb]. destruct (negb (loc_initial l)); cbn [app]; [rewrite <- app_assoc|];
             reflexivity.
      * cbn [orb andb app]. repeat split; assumption.
Qed.

Lemma refer_fold_final os d :
  (forall o, In o os -> bound_to (d_loc d) o = true -> occ_name o = d_name d) ->
  final_refer os d = refer_fold (d_loc d) (d_name d) os (d_value d, d_empty d).
Proof.
  unfold final_refer, refer_fold. generalize (d_value d, d_empty d) as r.
  induction os as [|o rest IH]; intros r H; [reflexivity|]. cbn [fold_left].
  assert (Hr : forall o', In o' rest -> bound_to (d_loc d) o' = true -> occ_name o' = d_name d).
  { intros o' Ho'. apply H. right. exact Ho'. }
  destruct o as [n l b flv|n l b flv slv rhs]; [apply IH; exact Hr|].
  destruct (binds_to (d_loc d) b) eqn:Eb; [|apply IH; exact Hr].
  pose proof (H (OWrite n l b flv slv rhs) (or_introl eq_refl) Eb) as Hn'. cbn [occ_name] in Hn'. subst n.
  apply IH. exact Hr.
Qed.

Lemma w17_spec d os :
  flat_map (fun o => match o with
                     | OWrite _ l bd _ _ _ => if binds_to d bd && negb (loc_initial l) then [(17, l)] else []
                     | _ => []
                     end) os = map (fun l => (17, l)) (w17 d os).
Proof.
  induction os as [|o r IH]; [reflexivity|]. cbn [flat_map w17]. rewrite map_app, IH. f_equal.
  destruct o as [|n l b flv slv rhs]; [reflexivity|]. destruct (binds_to d b && negb (loc_initial l)); reflexivity.
Qed.

Lemma sweep_evolve c os d :
  (forall o, In o os -> bound_to (d_loc d) o = true -> occ_name o = d_name d) ->
  sweep_var c (evolve_at (d_loc d) (var_of_decl d) os) =
  if unused c os d
  then (4, d_loc d) :: flat_map (fun o => match o with
                                          | OWrite _ l bd _ _ _ =>
                                            if binds_to (d_loc d) bd && negb (loc_initial l) then [(17, l)] else []
                                          | _ => []
                                          end) os
  else [].
Proof.
  intros Hn. destruct (evolve_fields (d_loc d) os (var_of_decl d)) as [A1 [A2 [A3 [A4 [A5 [A6 A7]]]]]].
  unfold sweep_var. rewrite A1, A2, A3, A4, A5. rewrite w17_spec.
  assert (Hr : v_refer (evolve_at (d_loc d) (var_of_decl d) os) = fst (final_refer os d)).
  { rewrite (refer_fold_final os d Hn). change (d_name d) with (v_name (var_of_decl d)).
    change (d_value d, d_empty d) with (v_refer (var_of_decl d), v_empty (var_of_decl d)). rewrite <- A6. reflexivity. }
  rewrite Hr. unfold unused, exempt, is_read. cbn [var_of_decl v_name v_loc v_used v_close v_rfunc v_noassign] in *.
  set (N1 := name_eqb (d_name d) s_us). set (N2 := name_eqb (d_name d) s_G).
  set (N3 := name_mem (d_name d) (c_locnouse c)). set (R := existsb (read_binds_to (d_loc d)) os) in *.
  set (SA := sys_alias c (fst (final_refer os d))).
  destruct (d_kind d) eqn:Ek.
  - (* DParam *) cbn [orb negb andb]. rewrite andb_false_r. destruct (N1 || N2 || N3); reflexivity.
  - (* DLoop *) cbn [orb negb andb]. rewrite andb_false_r. destruct (N1 || N2 || N3); reflexivity.
  - (* DLocal *) cbn [orb] in *.
    set (F := match d_value d with Some e => is_func_exp e | None => false end).
    destruct N1, N2, N3; cbn [orb negb andb]; try (rewrite andb_false_r; reflexivity).
    destruct R eqn:ER; cbn [orb negb andb]; [reflexivity|].
    destruct (d_close d); cbn [orb negb andb]; [reflexivity|].
    destruct F; cbn [orb negb andb]; [reflexivity|].
    destruct SA; cbn [orb negb andb]; [reflexivity|].
    rewrite (A7 A5). reflexivity.
  - (* DLocalFun *) cbn [orb negb andb]. rewrite andb_false_r.
    destruct (N1 || N2 || N3); [reflexivity|]. cbn [orb]. destruct (R || d_close d); reflexivity.
Qed.

(* ------------------------------------------------------------------ whole chunks *)
Fixpoint nodup_locb (ls : list loc) : bool :=
  match ls with
  | [] => true
  | x :: r => negb (loc_mem x r) && nodup_locb r
  end.

Lemma nodup_locb_NoDup ls : nodup_locb ls = true -> NoDup ls.
Proof.
  induction ls as [|x r IH]; intros H; [constructor|]. cbn in H. apply andb_true_iff in H. destruct H as [H1 H2].
  constructor; [|apply IH; exact H2]. intros Hin. apply negb_true_iff in H1.
  assert (Ht : loc_mem x r = true).
  { unfold loc_mem. apply existsb_exists. exists x. split; [exact Hin|apply uloc_eqb_refl]. }
  rewrite Ht in H1. discriminate.
Qed.

(* the declaration Locs of the chunk are pairwise distinct (true of parser output: disjoint token spans) *)
Definition decl_locs_distinct (b : block) : bool := nodup_locb (map d_loc (file_decls b)).

Lemma SRel_nil st : SRel st [] -> st = [].
Proof. intros H. inversion H. reflexivity. Qed.

Lemma trace_run_ok b :
  in_fragment b = true -> pos_clean b = true ->
  stack_run (trace b) (@nil (list var)) = [] /\ log_run (trace b) (@nil (list var)) = file_occs b.
Proof.
  intros Hf Hp. destruct usage_sim_all as [_ [_ Hb]].
  destruct (Hb b Hf 0 0 ign0 [] [] [] []) as [seg' [H1 _]].
  - intros n _. reflexivity.
  - intros x Hx. discriminate.
  - unfold trace, file_occs. unfold pos_clean, trace in Hp. revert Hp H1.
    destruct (tr_block b 0 0 ign0) as [a g1]. cbn [fst]. intros Hp H1.
    destruct (SSim_scope a [] seg' _ H1 [] (Forall2_nil _) Hp) as [A1 A2].
    split; [exact (SRel_nil _ A1)|exact A2].
Qed.

Lemma NoDup_map_inj {A B} (f : A -> B) l a b :
  NoDup (map f l) -> In a l -> In b l -> f a = f b -> a = b.
Proof.
  induction l as [|x r IH]; intros Hnd Ha Hb Hf; [destruct Ha|].
  cbn in Hnd. inversion Hnd as [|? ? Hni Hnd']; subst.
  destruct Ha as [->|Ha], Hb as [->|Hb].
  - reflexivity.
  - exfalso. apply Hni. rewrite Hf. apply in_map. exact Hb.
  - exfalso. apply Hni. rewrite <- Hf. apply in_map. exact Ha.
  - apply IH; assumption.
Qed.

Theorem usage_unused_agree c b :
  in_fragment b = true -> pos_clean b = true -> decl_locs_distinct b = true ->
  forall x, In x (s1_diags (first_pass c b)) <-> In x (spec_unused c b).
Proof.
  intros Hf Hp Hd x.
  destruct (trace_run_ok b Hf Hp) as [Hst Hlog].
  pose proof (trace_adds b Hf) as Hperm.
  apply nodup_locb_NoDup in Hd.
  assert (Hnd : NoDup (locs (concat (@nil (list var)) ++ adds_of (trace b)))).
  { cbn [concat app]. unfold locs. eapply Permutation_NoDup; [apply Permutation_map, Permutation_sym, Hperm|].
    rewrite map_map. exact Hd. }
  unfold first_pass, run1. rewrite run1_diags. cbn [s1_diags s1_stack app].
  pose proof (total_char c (trace b) (@nil (list var)) x Hnd) as Ht. unfold total in Ht.
  match type of Ht with
  | In x (_ ++ ?B) <-> _ =>
    assert (Hz : B = []) by exact (f_equal (flat_map (sweep c)) Hst); rewrite Hz in Ht
  end.
  cbn [concat app] in Ht. rewrite app_nil_r in Ht. rewrite Ht, Hlog.
  unfold spec_unused. rewrite in_flat_map.
  assert (Hnames : forall d, In d (file_decls b) ->
            forall o, In o (file_occs b) -> bound_to (d_loc d) o = true -> occ_name o = d_name d).
  { intros d Hdin o Ho Hb. rewrite <- Hlog in Ho.
    pose proof (log_bind_src (trace b) (@nil (list var)) o (d_loc d) Ho Hb) as Hsrc. cbn [concat app] in Hsrc.
    unfold nl_of in Hsrc. apply in_map_iff in Hsrc. destruct Hsrc as [v [Hpv Hv]].
    apply (Permutation_in _ Hperm) in Hv. apply in_map_iff in Hv. destruct Hv as [d' [Hvd Hd']]. subst v.
    unfold proj in Hpv. cbn [var_of_decl v_name v_loc] in Hpv. injection Hpv as Hn Hl.
    rewrite (NoDup_map_inj d_loc (file_decls b) d' d Hd Hd' Hdin Hl) in Hn. symmetry. exact Hn. }
  split.
  - intros [v [Hv H]]. apply (Permutation_in _ Hperm) in Hv. apply in_map_iff in Hv. destruct Hv as [d [Hvd Hdin]].
    subst v. exists d. split; [exact Hdin|]. cbn [var_of_decl v_loc] in H. fold (var_of_decl d) in H.
    rewrite (sweep_evolve c (file_occs b) d (Hnames d Hdin)) in H. exact H.
  - intros [d [Hdin H]]. exists (var_of_decl d). split.
    + apply (Permutation_in _ (Permutation_sym Hperm)). apply in_map. exact Hdin.
    + cbn [var_of_decl v_loc]. fold (var_of_decl d). rewrite (sweep_evolve c (file_occs b) d (Hnames d Hdin)). exact H.
Qed.

(* ------------------------------------------------------------------ both halves: the diagnostics of the file, as a set *)
From LH Require Import Proofs.UsageBindUndef.

Theorem usage_diags_agree c b all others :
  in_fragment b = true -> pos_clean b = true -> flags_ok b = true ->
  decl_locs_distinct b = true ->
  (forall n, name_mem n all = name_mem n (gnames (s1_gmap (first_pass c b))) || name_mem n others) ->
  forall x, In x (go_diags c b all others) <-> In x (spec_diags c b others).
Proof.
  intros Hf Hp Hfl Hd Hall x. unfold go_diags, spec_diags. rewrite !in_app_iff.
  rewrite (usage_unused_agree c b Hf Hp Hd x).
  rewrite (usage_undefined_agree c b all others Hf Hp Hfl Hall). reflexivity.
Qed.

(* ------------------------------------------------------------------ pos_clean discharged from the layout hypothesis Laid *)
From LH Require Spec.LuaScope.
From LH Require Import Proofs.UsageBindLaid.

Theorem usage_diags_agree_laid W c b all others :
  in_fragment b = true -> LuaScope.laid_b W b = true -> flags_ok b = true ->
  decl_locs_distinct b = true ->
  (forall n, name_mem n all = name_mem n (gnames (s1_gmap (first_pass c b))) || name_mem n others) ->
  forall x, In x (go_diags c b all others) <-> In x (spec_diags c b others).
Proof.
  intros Hf Hl. apply usage_diags_agree; auto. exact (usage_laid_pos_clean W b Hf Hl).
Qed.
