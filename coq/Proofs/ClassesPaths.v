(* C15: one indexing step of a completion path (`v[1].`, and `v.k.` for a k that is no member) composed from the
   pieces: element type (array first, then table value) through aliases, then the member closure of that type. *)
From Coq Require Import List NArith Bool.
From LH Require Import Base.Res Model.Classes Spec.ClassClosure
     Proofs.ClassesTotal Proofs.ClassesClosure Proofs.ClassesElem.
Import ListNotations.
Local Open Scope N_scope.

(* what indexing a type gives according to the specification: the array element type if the type (through aliases,
   first union member that has one) is an array, otherwise the table value type *)
Definition index_rel (tm : tmap) (t : ty) (f : N) (r : option ty) : Prop :=
  (exists e, elem_rel leaf_arr tm t f (Some e) /\ r = Some e) \/
  (elem_rel leaf_arr tm t f None /\ elem_rel leaf_val tm t f r).

Lemma model_members_unfold tm t f l :
  exists o, class_list (fuel_of tm) tm t f l = Ok o /\ model_members tm t f l = member_names o.
Proof.
  destruct (class_list_terminates tm t f l) as [o Ho]. exists o. split; [exact Ho|].
  unfold model_members, model_members_v. unfold class_list in Ho. rewrite Ho. reflexivity.
Qed.

Lemma resolve_model_noncyclic leaf tm t f :
  c15_fixed_variant = false -> cyclic_alias leaf tm t f = false ->
  exists r, resolve_model leaf tm t f = Ok r /\ elem_rel leaf tm t f r.
Proof.
  intros Hv Hc. destruct (noncyclic_result leaf tm t f Hc) as [r Hr]. exists r. split.
  - unfold resolve_model. rewrite Hv. unfold cyclic_alias in Hc.
    destruct (detect leaf tm (fuel_of tm) [] t f) as [r'| |] eqn:E.
    + apply detect_done in E. rewrite E in Hr. exact Hr.
    + discriminate.
    + exfalso. eapply detect_total. exact E.
  - eapply resolve_sound. exact Hr.
Qed.

Theorem index_step_members tm t f l :
  c15_fixed_variant = false ->
  cyclic_alias leaf_arr tm t f = false -> cyclic_alias leaf_val tm t f = false ->
  exists r, index_rel tm t f r /\
    complete_at tm (t, f, l) [None] = Ok (match r with Some e => model_members tm e f l | None => [] end).
Proof.
  intros Hv Ha Hb.
  destruct (resolve_model_noncyclic leaf_arr tm t f Hv Ha) as [ra [Ea Ra]].
  destruct (resolve_model_noncyclic leaf_val tm t f Hv Hb) as [rb [Eb Rb]].
  unfold complete_at, follow, sub_key. simpl. rewrite Ea. simpl.
  destruct ra as [e|].
  - exists (Some e). split; [left; exists e; split; [exact Ra|reflexivity]|].
    simpl. destruct (model_members_unfold tm e f l) as [o [Ho Hm]]. rewrite Ho. simpl. rewrite Hm. reflexivity.
  - rewrite Eb. simpl. exists rb. split; [right; split; assumption|].
    destruct rb as [e|]; simpl; [|reflexivity].
    destruct (model_members_unfold tm e f l) as [o [Ho Hm]]. rewrite Ho. simpl. rewrite Hm. reflexivity.
Qed.

(* together with the closure theorem: the names offered after `v[1].` are exactly the members of the element type *)
Theorem index_step_closure tm t f l :
  wf_tm tm -> c15_fixed_variant = false ->
  cyclic_alias leaf_arr tm t f = false -> cyclic_alias leaf_val tm t f = false ->
  exists r o, index_rel tm t f r /\ complete_at tm (t, f, l) [None] = Ok o /\
    match r with
    | Some e => forall x, In x o <-> members_spec tm e x
    | None => o = []
    end.
Proof.
  intros Hwf Hv Ha Hb. destruct (index_step_members tm t f l Hv Ha Hb) as [r [Hr Hc]].
  exists r. eexists. split; [exact Hr|]. split; [exact Hc|].
  destruct r as [e|]; [|reflexivity].
  intros x. apply members_full; assumption.
Qed.

(* ---------- the same step for the FIXED variant: no cyclicity guard ---------- *)
Theorem index_step_members_fixed tm t f l :
  c15_fixed_variant = true ->
  complete_at tm (t, f, l) [None] =
    Ok (match index_exec tm t f with Some e => model_members tm e f l | None => [] end).
Proof.
  intros Hv.
  destruct (resolve_fx_total leaf_arr tm t f) as [ra Ea].
  destruct (resolve_fx_total leaf_val tm t f) as [rb Eb].
  assert (Hi : index_exec tm t f = match ra with Some e => Some e | None => rb end).
  { unfold index_exec. rewrite Ea, Eb. destruct ra, rb; reflexivity. }
  rewrite Hi. unfold complete_at, follow, sub_key.
  rewrite !(resolve_model_fixed _ _ _ _ Hv). rewrite Ea, Eb.
  cbn -[model_members class_list fuel_of].
  destruct ra as [e|]; [|destruct rb as [e|]]; cbn -[model_members class_list fuel_of]; try reflexivity;
    destruct (model_members_unfold tm e f l) as [o [Ho Hm]]; rewrite Ho, Hm; reflexivity.
Qed.

(* with the closure theorem: after `v[1].` exactly the members of the element type the specification computes
   (no cyclicity guard, no shadowing guard: both defects are repaired in the deployed model) *)
Theorem index_step_closure_fixed tm t f l :
  wf_tm tm -> c15_fixed_variant = true ->
  exists o, complete_at tm (t, f, l) [None] = Ok o /\
    match index_exec tm t f with
    | Some e => forall x, In x o <-> members_spec tm e x
    | None => o = []
    end.
Proof.
  intros Hwf Hv. eexists. split; [apply index_step_members_fixed; exact Hv|].
  destruct (index_exec tm t f) as [e|]; [|reflexivity].
  intros x. apply members_full; assumption.
Qed.

(* the executable index specification is the specification wherever the latter has an answer *)
Theorem index_exec_correct tm t f r : wf_tm tm -> index_rel tm t f r -> index_exec tm t f = r.
Proof.
  intros Hwf [[e [Ha ->]]|[Ha Hb]]; unfold index_exec.
  - rewrite (resolve_fx_correct leaf_arr tm Hwf t f _ Ha). reflexivity.
  - rewrite (resolve_fx_correct leaf_arr tm Hwf t f _ Ha), (resolve_fx_correct leaf_val tm Hwf t f _ Hb).
    destruct r; reflexivity.
Qed.

(* ================================================================== the two observables of the property, whole *)
(* member completion after `v.`: exactly the closure (deployed model, no guard) *)
Theorem complete_full tm t f l :
  wf_tm tm -> exists o, complete_at tm (t, f, l) [] = Ok o /\ forall x, In x o <-> members_spec tm t x.
Proof.
  intros Hwf. destruct (model_members_unfold tm t f l) as [o [Ho Hm]].
  exists (member_names o). split.
  - unfold complete_at, follow. cbn -[class_list fuel_of]. rewrite Ho. reflexivity.
  - intros x. rewrite <- Hm. apply members_full. exact Hwf.
Qed.

Lemma field_of_some d k fl : field_of d k = Some fl -> In fl (class_fields d) /\ f_name fl = k.
Proof.
  unfold field_of. intros H. apply find_some in H. destruct H as [Hin He].
  split; [apply in_rev; exact Hin|apply N.eqb_eq; exact He].
Qed.

Lemma field_of_none d k : field_of d k = None -> forall fl, In fl (class_fields d) -> f_name fl <> k.
Proof.
  unfold field_of. intros H fl Hin He.
  apply in_rev in Hin. pose proof (find_none _ _ H fl Hin) as Hf. cbn beta in Hf.
  apply N.eqb_neq in Hf. contradiction.
Qed.

Lemma first_with_some o k d fl : first_with o k = Some (d, fl) -> In d o /\ field_of d k = Some fl.
Proof.
  induction o as [|a r IH]; simpl; [discriminate|].
  destruct (field_of a k) as [fl'|] eqn:E.
  - intros H. injection H as <- <-. split; [left; reflexivity|exact E].
  - intros H. destruct (IH H) as [H1 H2]. split; [right; exact H1|exact H2].
Qed.

Lemma first_with_none o k : first_with o k = None -> forall d, In d o -> field_of d k = None.
Proof.
  induction o as [|a r IH]; simpl; [intros _ d []|].
  destruct (field_of a k) as [fl'|] eqn:E; [discriminate|].
  intros H d [<-|Hd]; [exact E|apply IH; assumption].
Qed.

(* go-to-definition on `v.k`: lands on a ---@field k line of a reachable class declaration whenever the closure has
   a member k at all, and answers "no field" only when it has none *)
Theorem define_full tm t f l k :
  wf_tm tm -> c15_fixed_variant = true ->
  (exists loc, define_at tm (t, f, l) [] k = Ok (Some loc) /\ define_spec tm t k loc) \/
  (define_at tm (t, f, l) [] k = Ok None /\ forall loc, ~ define_spec tm t k loc).
Proof.
  intros Hwf Hv. destruct (class_list_terminates tm t f l) as [o Ho].
  unfold define_at, follow. cbn -[class_list fuel_of first_with resolve_model]. rewrite Ho.
  cbn -[class_list fuel_of first_with resolve_model].
  destruct (first_with o k) as [[d fl]|] eqn:Ef.
  - left. exists (d_file d, f_line fl). split; [reflexivity|].
    apply first_with_some in Ef. destruct Ef as [Hd Hf]. apply field_of_some in Hf. destruct Hf as [Hin Hn].
    exists d, fl. split; [eapply class_list_sound; eassumption|]. split; [exact Hin|]. split; [exact Hn|reflexivity].
  - right. split.
    + rewrite !(resolve_model_fixed _ _ _ _ Hv).
      destruct (resolve_fx_total leaf_arr tm t f) as [ra Ea]. rewrite Ea.
      destruct (resolve_fx_total leaf_val tm t f) as [rb Eb].
      destruct ra as [e|]; cbn [rbind]; [reflexivity|]. rewrite Eb. reflexivity.
    + intros loc [d [fl [Hr [Hin [Hn _]]]]].
      assert (Hk : is_class d).
      { unfold class_fields in Hin. destruct (d_kind d) as [ps fs|t0] eqn:Hkd; [exists ps, fs; exact Hkd|destruct Hin]. }
      assert (Hd : In d o) by (eapply class_list_complete; eassumption).
      apply (field_of_none d k (first_with_none o k Ef d Hd) fl Hin Hn).
Qed.

(* ================================================================== member prefixes of any length *)
(* the indexing part of symbolHasSubKey in the deployed model = the executable index specification *)
Lemma index_model tm t f (l : N) :
  c15_fixed_variant = true ->
  (do a <- resolve_model leaf_arr tm t f;
   match a with
   | Some e => Ok (Some (e, f, l))
   | None => do v <- resolve_model leaf_val tm t f;
             match v with Some e => Ok (Some (e, f, l)) | None => Ok None end
   end) = Ok (match index_exec tm t f with Some e => Some (e, f, l) | None => None end).
Proof.
  intros Hv. rewrite !(resolve_model_fixed _ _ _ _ Hv).
  destruct (resolve_fx_total leaf_arr tm t f) as [ra Ea].
  destruct (resolve_fx_total leaf_val tm t f) as [rb Eb].
  unfold index_exec. rewrite Ea. cbn [rbind].
  destruct ra as [e|]; [reflexivity|]. rewrite Eb. cbn [rbind]. destruct rb; reflexivity.
Qed.

Lemma no_field_no_define tm t f l o k :
  wf_tm tm -> class_list (fuel_of tm) tm t f l = Ok o -> first_with o k = None ->
  forall loc, ~ define_spec tm t k loc.
Proof.
  intros Hwf Ho Ef loc [d [fl [Hr [Hin [Hn _]]]]].
  assert (Hk : is_class d).
  { unfold class_fields in Hin. destruct (d_kind d) as [ps fs|t0] eqn:Hkd; [exists ps, fs; exact Hkd|destruct Hin]. }
  assert (Hd : In d o) by (eapply class_list_complete; eassumption).
  apply (field_of_none d k (first_with_none o k Ef d Hd) fl Hin Hn).
Qed.

(* one step of the deployed model is one step of the specification *)
Lemma sub_key_step tm t f l key :
  wf_tm tm -> c15_fixed_variant = true ->
  (exists k d fl, key = Some k /\ reachable_def tm t d /\ In fl (class_fields d) /\ f_name fl = k /\
                  sub_key tm (t, f, l) key = Ok (Some (f_ty fl, d_file d, d_line d))) \/
  (no_member tm t key /\
   sub_key tm (t, f, l) key = Ok (match index_exec tm t f with Some e => Some (e, f, l) | None => None end)).
Proof.
  intros Hwf Hv. unfold sub_key. destruct key as [k|].
  - destruct (class_list_terminates tm t f l) as [o Ho]. rewrite Ho. cbn [rbind].
    destruct (first_with o k) as [[d fl]|] eqn:Ef.
    + left. exists k, d, fl. split; [reflexivity|].
      apply first_with_some in Ef. destruct Ef as [Hd Hf]. apply field_of_some in Hf. destruct Hf as [Hin Hn].
      split; [eapply class_list_sound; eassumption|]. split; [exact Hin|]. split; [exact Hn|reflexivity].
    + right. split; [exact (no_field_no_define tm t f l o k Hwf Ho Ef)|].
      apply index_model. exact Hv.
  - right. split; [exact I|]. cbn [rbind]. apply index_model. exact Hv.
Qed.

(* following a prefix never fails and follows the specification *)
Theorem follow_path tm :
  wf_tm tm -> c15_fixed_variant = true ->
  forall path s, exists r, follow tm s path = Ok r /\ path_rel tm s path r.
Proof.
  intros Hwf Hv. induction path as [|key rest IH]; intros [[t f] l].
  - exists (Some (t, f, l)). split; [reflexivity|constructor].
  - cbn [follow].
    destruct (sub_key_step tm t f l key Hwf Hv) as [[k [d [fl [-> [Hr [Hin [Hn E]]]]]]]|[Hno E]]; rewrite E; cbn [rbind].
    + destruct (IH (f_ty fl, d_file d, d_line d)) as [r [Er Pr]]. exists r. split; [exact Er|].
      eapply PR_member; eassumption.
    + destruct (index_exec tm t f) as [e|] eqn:Ei.
      * destruct (IH (e, f, l)) as [r [Er Pr]]. exists r. split; [exact Er|]. eapply PR_index; eassumption.
      * exists None. split; [reflexivity|]. apply PR_stuck; assumption.
Qed.

(* completion after `v<path>.`: exactly the closure of the type the prefix denotes *)
Theorem complete_path_full tm s path :
  wf_tm tm -> c15_fixed_variant = true ->
  exists r o, path_rel tm s path r /\ complete_at tm s path = Ok o /\
    match r with
    | Some (t', _, _) => forall x, In x o <-> members_spec tm t' x
    | None => o = []
    end.
Proof.
  intros Hwf Hv. destruct (follow_path tm Hwf Hv path s) as [r [Er Pr]].
  unfold complete_at. rewrite Er. cbn [rbind].
  destruct r as [[[t' f'] l']|].
  - destruct (model_members_unfold tm t' f' l') as [o [Ho Hm]].
    exists (Some (t', f', l')), (member_names o). split; [exact Pr|]. split.
    + rewrite Ho. reflexivity.
    + intros x. rewrite <- Hm. apply members_full. exact Hwf.
  - exists None, []. split; [exact Pr|]. split; reflexivity.
Qed.

(* go-to-definition on `v<path>.k` *)
Theorem define_path_full tm s path k :
  wf_tm tm -> c15_fixed_variant = true ->
  exists r, path_rel tm s path r /\
    match r with
    | Some (t', _, _) =>
        (exists loc, define_at tm s path k = Ok (Some loc) /\ define_spec tm t' k loc) \/
        (define_at tm s path k = Ok None /\ forall loc, ~ define_spec tm t' k loc)
    | None => define_at tm s path k = Ok None
    end.
Proof.
  intros Hwf Hv. destruct (follow_path tm Hwf Hv path s) as [r [Er Pr]].
  exists r. split; [exact Pr|]. unfold define_at. rewrite Er. cbn [rbind].
  destruct r as [[[t' f'] l']|]; [|reflexivity].
  pose proof (define_full tm t' f' l' k Hwf Hv) as Hd.
  unfold define_at, follow in Hd. cbn [rbind] in Hd. exact Hd.
Qed.
