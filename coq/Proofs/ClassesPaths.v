(* C15: one indexing step of a completion path (`v[1].`, and `v.k.` for a k that is no member) composed from the
   pieces: element type (array first, then table value) through aliases, then the member closure of that type. *)
From Coq Require Import List NArith Bool.
From LH Require Import Base.Res Model.Classes Spec.ClassClosure
     Proofs.ClassesTotal Proofs.ClassesClosure Proofs.ClassesElem.
Import ListNotations.
Local Open Scope N_scope.

(* what indexing a type gives according to the specification: the array element type if the type (through aliases,
   first union member that has one) is an array, otherwise the table value type *)
Definition index_rel (tm : tmap) (t : ty) (f : N) (r : option ty) : Prop :=
  (exists e, elem_rel leaf_arr tm t f (Some e) /\ r = Some e) \/
  (elem_rel leaf_arr tm t f None /\ elem_rel leaf_val tm t f r).

Lemma model_members_unfold tm t f l :
  exists o, class_list (fuel_of tm) tm t f l = Ok o /\ model_members tm t f l = member_names o.
Proof.
  destruct (class_list_terminates tm t f l) as [o Ho]. exists o. split; [exact Ho|].
  unfold model_members. rewrite Ho. reflexivity.
Qed.

Lemma resolve_model_noncyclic leaf tm t f :
  c15_fixed_variant = false -> cyclic_alias leaf tm t f = false ->
  exists r, resolve_model leaf tm t f = Ok r /\ elem_rel leaf tm t f r.
Proof.
  intros Hv Hc. destruct (noncyclic_result leaf tm t f Hc) as [r Hr]. exists r. split.
  - unfold resolve_model. rewrite Hv. unfold cyclic_alias in Hc.
    destruct (detect leaf tm (fuel_of tm) [] t f) as [r'| |] eqn:E.
    + apply detect_done in E. rewrite E in Hr. exact Hr.
    + discriminate.
    + exfalso. eapply detect_total. exact E.
  - eapply resolve_sound. exact Hr.
Qed.

Theorem index_step_members tm t f l :
  c15_fixed_variant = false ->
  cyclic_alias leaf_arr tm t f = false -> cyclic_alias leaf_val tm t f = false ->
  exists r, index_rel tm t f r /\
    complete_at tm (t, f, l) [None] = Ok (match r with Some e => model_members tm e f l | None => [] end).
Proof.
  intros Hv Ha Hb.
  destruct (resolve_model_noncyclic leaf_arr tm t f Hv Ha) as [ra [Ea Ra]].
  destruct (resolve_model_noncyclic leaf_val tm t f Hv Hb) as [rb [Eb Rb]].
  unfold complete_at, follow, sub_key. simpl. rewrite Ea. simpl.
  destruct ra as [e|].
  - exists (Some e). split; [left; exists e; split; [exact Ra|reflexivity]|].
    simpl. destruct (model_members_unfold tm e f l) as [o [Ho Hm]]. rewrite Ho. simpl. rewrite Hm. reflexivity.
  - rewrite Eb. simpl. exists rb. split; [right; split; assumption|].
    destruct rb as [e|]; simpl; [|reflexivity].
    destruct (model_members_unfold tm e f l) as [o [Ho Hm]]. rewrite Ho. simpl. rewrite Hm. reflexivity.
Qed.

(* together with the closure theorem: the names offered after `v[1].` are exactly the members of the element type *)
Theorem index_step_closure tm t f l :
  wf_tm tm -> c15_fixed_variant = false ->
  cyclic_alias leaf_arr tm t f = false -> cyclic_alias leaf_val tm t f = false ->
  exists r o, index_rel tm t f r /\ complete_at tm (t, f, l) [None] = Ok o /\
    match r with
    | Some e => shadow_free tm e f = true -> forall x, In x o <-> members_spec tm e x
    | None => o = []
    end.
Proof.
  intros Hwf Hv Ha Hb. destruct (index_step_members tm t f l Hv Ha Hb) as [r [Hr Hc]].
  exists r. eexists. split; [exact Hr|]. split; [exact Hc|].
  destruct r as [e|]; [|reflexivity].
  intros Hsf x. apply members_eq_closure; assumption.
Qed.

(* ---------- the same step for the FIXED variant: no cyclicity guard ---------- *)
Theorem index_step_members_fixed tm t f l :
  c15_fixed_variant = true ->
  complete_at tm (t, f, l) [None] =
    Ok (match index_exec tm t f with Some e => model_members tm e f l | None => [] end).
Proof.
  intros Hv.
  destruct (resolve_fx_total leaf_arr tm t f) as [ra Ea].
  destruct (resolve_fx_total leaf_val tm t f) as [rb Eb].
  assert (Hi : index_exec tm t f = match ra with Some e => Some e | None => rb end).
  { unfold index_exec. rewrite Ea, Eb. destruct ra, rb; reflexivity. }
  rewrite Hi. unfold complete_at, follow, sub_key.
  rewrite !(resolve_model_fixed _ _ _ _ Hv). rewrite Ea, Eb.
  cbn -[model_members class_list fuel_of].
  destruct ra as [e|]; [|destruct rb as [e|]]; cbn -[model_members class_list fuel_of]; try reflexivity;
    destruct (model_members_unfold tm e f l) as [o [Ho Hm]]; rewrite Ho, Hm; reflexivity.
Qed.

(* the executable index specification is the specification wherever the latter has an answer *)
Theorem index_exec_correct tm t f r : wf_tm tm -> index_rel tm t f r -> index_exec tm t f = r.
Proof.
  intros Hwf [[e [Ha ->]]|[Ha Hb]]; unfold index_exec.
  - rewrite (resolve_fx_correct leaf_arr tm Hwf t f _ Ha). reflexivity.
  - rewrite (resolve_fx_correct leaf_arr tm Hwf t f _ Ha), (resolve_fx_correct leaf_val tm Hwf t f _ Hb).
    destruct r; reflexivity.
Qed.
