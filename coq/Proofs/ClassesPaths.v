(* C15: completion / definition paths (`v<path>.`): one indexing step, then prefixes of any length, composed from the
   pieces: element type (array first, then table value) through aliases, member step through the class closure,
   member closure of the type reached.
   fa selects the alias resolution (false = before fix 83efc56, true = repaired); the deployed functions
   (complete_at, define_at, ...) are the `_v true` ones. *)
From Coq Require Import List NArith Bool.
From LH Require Import Base.Res Model.Classes Spec.ClassClosure
     Proofs.ClassesTotal Proofs.ClassesClosure Proofs.ClassesElem.
Import ListNotations.
Local Open Scope N_scope.

(* what indexing a type gives according to the specification: the array element type if the type (through aliases,
   first union member that has one) is an array, otherwise the table value type *)
Definition index_rel (tm : tmap) (t : ty) (f : N) (r : option ty) : Prop :=
  (exists e, elem_rel leaf_arr tm t f (Some e) /\ r = Some e) \/
  (elem_rel leaf_arr tm t f None /\ elem_rel leaf_val tm t f r).

Lemma model_members_unfold tm t f l :
  exists o, class_list (fuel_of tm) tm t f l = Ok o /\ model_members tm t f l = member_names o.
Proof.
  destruct (class_list_terminates tm t f l) as [o Ho]. exists o. split; [exact Ho|].
  unfold model_members, model_members_v. unfold class_list in Ho. rewrite Ho. reflexivity.
Qed.

(* ================================================================== before fix 83efc56 (fa = false) *)
Lemma resolve_model_noncyclic leaf tm t f :
  cyclic_alias leaf tm t f = false ->
  exists r, resolve_model_v false leaf tm t f = Ok r /\ elem_rel leaf tm t f r.
Proof.
  intros Hc. destruct (noncyclic_result leaf tm t f Hc) as [r Hr]. exists r. split.
  - unfold resolve_model_v. unfold cyclic_alias in Hc.
    destruct (detect leaf tm (fuel_of tm) [] t f) as [r'| |] eqn:E.
    + apply detect_done in E. rewrite E in Hr. exact Hr.
    + discriminate.
    + exfalso. eapply detect_total. exact E.
  - eapply resolve_sound. exact Hr.
Qed.

Theorem index_step_members tm t f l :
  cyclic_alias leaf_arr tm t f = false -> cyclic_alias leaf_val tm t f = false ->
  exists r, index_rel tm t f r /\
    complete_at_v false tm (t, f, l) [None] = Ok (match r with Some e => model_members tm e f l | None => [] end).
Proof.
  intros Ha Hb.
  destruct (resolve_model_noncyclic leaf_arr tm t f Ha) as [ra [Ea Ra]].
  destruct (resolve_model_noncyclic leaf_val tm t f Hb) as [rb [Eb Rb]].
  unfold complete_at_v, follow_v, sub_key_v, index_step_v. cbn [rbind]. rewrite Ea. cbn [rbind].
  destruct ra as [e|].
  - exists (Some e). split; [left; exists e; split; [exact Ra|reflexivity]|].
    cbn [rbind]. destruct (model_members_unfold tm e f l) as [o [Ho Hm]]. rewrite Ho. cbn [rbind]. rewrite Hm. reflexivity.
  - rewrite Eb. cbn [rbind]. exists rb. split; [right; split; assumption|].
    destruct rb as [e|]; cbn [rbind]; [|reflexivity].
    destruct (model_members_unfold tm e f l) as [o [Ho Hm]]. rewrite Ho. cbn [rbind]. rewrite Hm. reflexivity.
Qed.

(* together with the closure theorem: the names offered after `v[1].` are exactly the members of the element type *)
Theorem index_step_closure tm t f l :
  wf_tm tm ->
  cyclic_alias leaf_arr tm t f = false -> cyclic_alias leaf_val tm t f = false ->
  exists r o, index_rel tm t f r /\ complete_at_v false tm (t, f, l) [None] = Ok o /\
    match r with
    | Some e => forall x, In x o <-> members_spec tm e x
    | None => o = []
    end.
Proof.
  intros Hwf Ha Hb. destruct (index_step_members tm t f l Ha Hb) as [r [Hr Hc]].
  exists r. eexists. split; [exact Hr|]. split; [exact Hc|].
  destruct r as [e|]; [|reflexivity].
  intros x. apply members_full; assumption.
Qed.

(* ================================================================== the repaired alias resolution (fa = true = deployed) *)
(* the indexing part of symbolHasSubKey = the executable index specification *)
Lemma index_model tm t f (l : N) :
  index_step_v true tm t f l = Ok (match index_exec tm t f with Some e => Some (e, f, l) | None => None end).
Proof.
  unfold index_step_v. rewrite !resolve_model_fixed.
  destruct (resolve_fx_total leaf_arr tm t f) as [ra Ea].
  destruct (resolve_fx_total leaf_val tm t f) as [rb Eb].
  unfold index_exec. rewrite Ea. cbn [rbind].
  destruct ra as [e|]; [reflexivity|]. rewrite Eb. cbn [rbind]. destruct rb; reflexivity.
Qed.

Theorem index_step_members_fixed tm t f l :
  complete_at tm (t, f, l) [None] =
    Ok (match index_exec tm t f with Some e => model_members tm e f l | None => [] end).
Proof.
  change (complete_at tm (t, f, l) [None]) with (complete_at_v true tm (t, f, l) [None]).
  unfold complete_at_v, follow_v, sub_key_v. cbn [rbind]. rewrite index_model. cbn [rbind].
  destruct (index_exec tm t f) as [e|]; cbn [rbind]; [|reflexivity].
  destruct (model_members_unfold tm e f l) as [o [Ho Hm]]. rewrite Ho, Hm. reflexivity.
Qed.

(* with the closure theorem: after `v[1].` exactly the members of the element type the specification computes
   (no cyclicity guard, no shadowing guard: both defects are repaired in the deployed model) *)
Theorem index_step_closure_fixed tm t f l :
  wf_tm tm ->
  exists o, complete_at tm (t, f, l) [None] = Ok o /\
    match index_exec tm t f with
    | Some e => forall x, In x o <-> members_spec tm e x
    | None => o = []
    end.
Proof.
  intros Hwf. eexists. split; [apply index_step_members_fixed|].
  destruct (index_exec tm t f) as [e|]; [|reflexivity].
  intros x. apply members_full; assumption.
Qed.

(* the executable index specification is the specification wherever the latter has an answer *)
Theorem index_exec_correct tm t f r : wf_tm tm -> index_rel tm t f r -> index_exec tm t f = r.
Proof.
  intros Hwf [[e [Ha ->]]|[Ha Hb]]; unfold index_exec.
  - rewrite (resolve_fx_correct leaf_arr tm Hwf t f _ Ha). reflexivity.
  - rewrite (resolve_fx_correct leaf_arr tm Hwf t f _ Ha), (resolve_fx_correct leaf_val tm Hwf t f _ Hb).
    destruct r; reflexivity.
Qed.

(* loop variables of `for k, x in pairs(v)` / `ipairs(v)` *)
Theorem for_value_fixed tm t f l :
  for_value tm (t, f, l) = Ok (match index_exec tm t f with Some e => Some (e, f, l) | None => None end).
Proof. exact (index_model tm t f l). Qed.

Theorem for_pairs_key_fixed tm t f l :
  for_pairs_key tm (t, f, l) = Ok (match pairs_key_exec tm t f with Some e => Some (e, f, l) | None => None end).
Proof.
  change (for_pairs_key tm (t, f, l)) with (for_pairs_key_v true tm (t, f, l)).
  unfold for_pairs_key_v. rewrite !resolve_model_fixed.
  destruct (resolve_fx_total leaf_arr tm t f) as [ra Ea].
  destruct (resolve_fx_total leaf_key tm t f) as [rb Eb].
  unfold pairs_key_exec. rewrite Ea. cbn [rbind].
  destruct ra as [e|]; [reflexivity|]. rewrite Eb. cbn [rbind]. destruct rb; reflexivity.
Qed.

(* ================================================================== the two observables of the property, whole *)
(* member completion after `v.`: exactly the closure (deployed model, no guard) *)
Theorem complete_full tm t f l :
  wf_tm tm -> exists o, complete_at tm (t, f, l) [] = Ok o /\ forall x, In x o <-> members_spec tm t x.
Proof.
  intros Hwf. destruct (model_members_unfold tm t f l) as [o [Ho Hm]].
  exists (member_names o). split.
  - change (complete_at tm (t, f, l) []) with (complete_at_v true tm (t, f, l) []).
    unfold complete_at_v, follow_v. cbn [rbind]. rewrite Ho. reflexivity.
  - intros x. rewrite <- Hm. apply members_full. exact Hwf.
Qed.

Lemma field_of_some d k fl : field_of d k = Some fl -> In fl (class_fields d) /\ f_name fl = k.
Proof.
  unfold field_of. intros H. apply find_some in H. destruct H as [Hin He].
  split; [apply in_rev; exact Hin|apply N.eqb_eq; exact He].
Qed.

Lemma field_of_none d k : field_of d k = None -> forall fl, In fl (class_fields d) -> f_name fl <> k.
Proof.
  unfold field_of. intros H fl Hin He.
  apply in_rev in Hin. pose proof (find_none _ _ H fl Hin) as Hf. cbn beta in Hf.
  apply N.eqb_neq in Hf. contradiction.
Qed.

Lemma first_with_some o k d fl : first_with o k = Some (d, fl) -> In d o /\ field_of d k = Some fl.
Proof.
  induction o as [|a r IH]; simpl; [discriminate|].
  destruct (field_of a k) as [fl'|] eqn:E.
  - intros H. injection H as <- <-. split; [left; reflexivity|exact E].
  - intros H. destruct (IH H) as [H1 H2]. split; [right; exact H1|exact H2].
Qed.

Lemma first_with_none o k : first_with o k = None -> forall d, In d o -> field_of d k = None.
Proof.
  induction o as [|a r IH]; simpl; [intros _ d []|].
  destruct (field_of a k) as [fl'|] eqn:E; [discriminate|].
  intros H d [<-|Hd]; [exact E|apply IH; assumption].
Qed.

Lemma no_field_no_define tm t f l o k :
  wf_tm tm -> class_list (fuel_of tm) tm t f l = Ok o -> first_with o k = None ->
  forall loc, ~ define_spec tm t k loc.
Proof.
  intros Hwf Ho Ef loc [d [fl [Hr [Hin [Hn _]]]]].
  assert (Hk : is_class d).
  { unfold class_fields in Hin. destruct (d_kind d) as [ps fs|t0] eqn:Hkd; [exists ps, fs; exact Hkd|destruct Hin]. }
  assert (Hd : In d o) by (eapply class_list_complete; eassumption).
  apply (field_of_none d k (first_with_none o k Ef d Hd) fl Hin Hn).
Qed.

(* the last step of go-to-definition, from the type the prefix denotes *)
Lemma define_last tm t f l k :
  wf_tm tm ->
  let r := (do o <- class_list (fuel_of tm) tm t f l;
            match first_with o k with
            | Some (d, fl) => Ok (Some (d_file d, f_line fl))
            | None => do a <- index_step_v true tm t f l; Ok None
            end) in
  (exists loc, r = Ok (Some loc) /\ define_spec tm t k loc) \/
  (r = Ok None /\ forall loc, ~ define_spec tm t k loc).
Proof.
  intros Hwf. destruct (class_list_terminates tm t f l) as [o Ho]. cbn zeta. rewrite Ho. cbn [rbind].
  destruct (first_with o k) as [[d fl]|] eqn:Ef.
  - left. exists (d_file d, f_line fl). split; [reflexivity|].
    apply first_with_some in Ef. destruct Ef as [Hd Hf]. apply field_of_some in Hf. destruct Hf as [Hin Hn].
    exists d, fl. split; [eapply class_list_sound; eassumption|]. split; [exact Hin|]. split; [exact Hn|reflexivity].
  - right. split; [rewrite index_model; reflexivity|].
    exact (no_field_no_define tm t f l o k Hwf Ho Ef).
Qed.

(* go-to-definition on `v.k`: lands on a ---@field k line of a reachable class declaration whenever the closure has
   a member k at all, and answers "no field" only when it has none *)
Theorem define_full tm t f l k :
  wf_tm tm ->
  (exists loc, define_at tm (t, f, l) [] k = Ok (Some loc) /\ define_spec tm t k loc) \/
  (define_at tm (t, f, l) [] k = Ok None /\ forall loc, ~ define_spec tm t k loc).
Proof. intros Hwf. exact (define_last tm t f l k Hwf). Qed.

(* ================================================================== member prefixes of any length *)
(* one step of the deployed model is one step of the specification *)
Lemma sub_key_step tm t f l key :
  wf_tm tm ->
  (exists k d fl, key = Some k /\ reachable_def tm t d /\ In fl (class_fields d) /\ f_name fl = k /\
                  sub_key tm (t, f, l) key = Ok (Some (f_ty fl, d_file d, d_line d))) \/
  (no_member tm t key /\
   sub_key tm (t, f, l) key = Ok (match index_exec tm t f with Some e => Some (e, f, l) | None => None end)).
Proof.
  intros Hwf. change (sub_key tm (t, f, l) key) with (sub_key_v true tm (t, f, l) key).
  unfold sub_key_v. destruct key as [k|].
  - destruct (class_list_terminates tm t f l) as [o Ho]. rewrite Ho. cbn [rbind].
    destruct (first_with o k) as [[d fl]|] eqn:Ef.
    + left. exists k, d, fl. split; [reflexivity|].
      apply first_with_some in Ef. destruct Ef as [Hd Hf]. apply field_of_some in Hf. destruct Hf as [Hin Hn].
      split; [eapply class_list_sound; eassumption|]. split; [exact Hin|]. split; [exact Hn|reflexivity].
    + right. split; [exact (no_field_no_define tm t f l o k Hwf Ho Ef)|].
      apply index_model.
  - right. split; [exact I|]. cbn [rbind]. apply index_model.
Qed.

(* following a prefix never fails and follows the specification *)
Theorem follow_path tm :
  wf_tm tm ->
  forall path s, exists r, follow tm s path = Ok r /\ path_rel tm s path r.
Proof.
  intros Hwf. induction path as [|key rest IH]; intros [[t f] l].
  - exists (Some (t, f, l)). split; [reflexivity|constructor].
  - change (follow tm (t, f, l) (key :: rest))
      with (do r <- sub_key tm (t, f, l) key; match r with Some s' => follow tm s' rest | None => Ok None end).
    destruct (sub_key_step tm t f l key Hwf) as [[k [d [fl [-> [Hr [Hin [Hn E]]]]]]]|[Hno E]]; rewrite E; cbn [rbind].
    + destruct (IH (f_ty fl, d_file d, d_line d)) as [r [Er Pr]]. exists r. split; [exact Er|].
      eapply PR_member; eassumption.
    + destruct (index_exec tm t f) as [e|] eqn:Ei.
      * destruct (IH (e, f, l)) as [r [Er Pr]]. exists r. split; [exact Er|]. eapply PR_index; eassumption.
      * exists None. split; [reflexivity|]. apply PR_stuck; assumption.
Qed.

(* completion after `v<path>.`: exactly the closure of the type the prefix denotes *)
Theorem complete_path_full tm s path :
  wf_tm tm ->
  exists r o, path_rel tm s path r /\ complete_at tm s path = Ok o /\
    match r with
    | Some (t', _, _) => forall x, In x o <-> members_spec tm t' x
    | None => o = []
    end.
Proof.
  intros Hwf. destruct (follow_path tm Hwf path s) as [r [Er Pr]].
  change (complete_at tm s path) with
    (do r <- follow tm s path;
     match r with
     | Some (t, f, l) => do o <- class_list (fuel_of tm) tm t f l; Ok (member_names o)
     | None => Ok []
     end).
  rewrite Er. cbn [rbind].
  destruct r as [[[t' f'] l']|].
  - destruct (model_members_unfold tm t' f' l') as [o [Ho Hm]].
    exists (Some (t', f', l')), (member_names o). split; [exact Pr|]. split.
    + rewrite Ho. reflexivity.
    + intros x. rewrite <- Hm. apply members_full. exact Hwf.
  - exists None, []. split; [exact Pr|]. split; reflexivity.
Qed.

(* go-to-definition on `v<path>.k` *)
Theorem define_path_full tm s path k :
  wf_tm tm ->
  exists r, path_rel tm s path r /\
    match r with
    | Some (t', _, _) =>
        (exists loc, define_at tm s path k = Ok (Some loc) /\ define_spec tm t' k loc) \/
        (define_at tm s path k = Ok None /\ forall loc, ~ define_spec tm t' k loc)
    | None => define_at tm s path k = Ok None
    end.
Proof.
  intros Hwf. destruct (follow_path tm Hwf path s) as [r [Er Pr]].
  exists r. split; [exact Pr|].
  change (define_at tm s path k) with
    (do r <- follow tm s path;
     match r with
     | Some (t, f, l) =>
         do o <- class_list (fuel_of tm) tm t f l;
         match first_with o k with
         | Some (d, fl) => Ok (Some (d_file d, f_line fl))
         | None => do a <- index_step_v true tm t f l; Ok None
         end
     | None => Ok None
     end).
  rewrite Er. cbn [rbind].
  destruct r as [[[t' f'] l']|]; [|reflexivity].
  exact (define_last tm t' f' l' k Hwf).
Qed.
