(* C03, token level, completeness in partial-correctness form ("whenever the call returns, it returns at the
   remainder the grammar predicts, with no new parse error"): no fuel arithmetic; termination with the concrete
   fuel is ParserTotalMain.parse_tokens_total_wfr.  This file: the post-condition combinator, the helper loops
   outside the mutual block, the shape lemma "a parsed expression that is a bare EName consumed exactly one
   identifier" (needed for table fields), and precedence climbing over the flat operator form. *)
From Coq Require Import List NArith ZArith Bool Lia.
From LH Require Import Base.Bytes Base.Res Model.Lexer Model.Ast Model.Parser Spec.LuaGrammar.
From LH Require Import Proofs.ParserGrammarBase Proofs.ParserGrammarMono Proofs.ParserGrammarFlat
     Proofs.ParserGrammarComplete.
Import ListNotations.
#[local] Opaque expect next err la.

Definition post {A} (r : Res (A * pst)) (Q : A -> pst -> Prop) : Prop :=
  match r with Ok (a, st') => Q a st' | _ => True end.

Lemma post_ok {A} (a : A) st (Q : A -> pst -> Prop) : Q a st -> post (Ok (a, st)) Q.
Proof. intros H. exact H. Qed.
Ltac pfin := cbn [post]; assumption.

(* ------------------------------------------------------------------ helper loops outside the mutual block *)
Lemma q_namelist_tail ts r : NameTail ts r ->
  forall f st e names locs, at_ st ts e -> post (p_namelist_tail f st names locs) (fun _ st' => at_ st' r e).
Proof.
  induction 1 as [ts N | ts r1 r2 r H1 H2 H3 IH]; intros f st e names locs A; (destruct f; [exact I|]);
    rewrite namelist_tail_eq; look; tkb.
  - pfin.
  - eat H1. eat H2. apply IH. assumption.
Qed.

Lemma q_local_namelist_tail n ts r : AttTail n ts r ->
  forall f st e sc names locs attrs, at_ st ts e -> n <= 1 -> (sc = true -> n = 0) ->
  post (p_local_namelist_tail f st sc names locs attrs) (fun _ st' => at_ st' r e).
Proof.
  induction 1 as [ts N | c n ts r1 r2 r3 r H1 H2 H3 H4 IH]; intros f st e sc names locs attrs A Hn Hsc;
    (destruct f; [exact I|]); rewrite local_namelist_tail_eq; look; tkb.
  - pfin.
  - eat H1. eat H2. destruct (c_local_attr _ _ _ H3) as [_ C3].
    destruct (C3 _ _ A1) as (a & st' & Ea & A' & Hc & Hc1). rewrite Ea.
    assert (Hno : (match a with AttrClose => true | _ => false end) && sc = false).
    { destruct sc; [|apply andb_false_r]. specialize (Hsc eq_refl).
      destruct a; try reflexivity. assert (c = 1) by (apply Hc; reflexivity). lia. }
    rewrite Hno. apply IH; [assumption | lia |].
    intros Hs. apply orb_true_iff in Hs. destruct Hs as [Hs|Hs]; [apply Hsc in Hs; lia|].
    destruct a; try discriminate. assert (c = 1) by (apply Hc; reflexivity). lia.
Qed.

Lemma q_parlist_tail ts r : ParTail ts r ->
  forall f st e names locs, at_ st ts e -> post (p_parlist_tail f st names locs) (fun _ st' => at_ st' r e).
Proof.
  induction 1 as [ts N | ts r1 r2 r H1 H2 H3 IH | ts r1 r H1 H2]; intros f st e names locs A;
    (destruct f; [exact I|]); rewrite parlist_tail_eq; look; tkb.
  - pfin.
  - eat H1. look. tkb. eat H2. apply IH. assumption.
  - eat H1. look. tkb. eat H2. pfin.
Qed.

Lemma q_parlist ts r : ParList ts r ->
  forall f st e, at_ st ts e -> post (p_parlist f st) (fun _ st' => at_ st' r e).
Proof.
  intros H. destruct H as [ts N | ts r H1 | ts r1 r H1 H2]; intros f st e A; unfold p_parlist; look.
  - pfin.
  - eat H1. pfin.
  - eat H1. apply (q_parlist_tail _ _ H2). assumption.
Qed.

Lemma q_funcname_dots ts r : DotNames ts r ->
  forall f st e b fi ex c fn, at_ st ts e -> post (p_funcname_dots f st b fi ex c fn) (fun _ st' => at_ st' r e).
Proof.
  induction 1 as [ts N | ts r1 r2 r H1 H2 H3 IH]; intros f st e b fi ex c fn A;
    (destruct f; [exact I|]); rewrite funcname_dots_eq; look; tkb.
  - pfin.
  - eat H1. eat H2. apply IH. assumption.
Qed.

Lemma q_funcname ts r : FuncName ts r ->
  forall f st e, at_ st ts e -> post (p_funcname f st) (fun _ st' => at_ st' r e).
Proof.
  intros (r1 & r2 & H1 & H2 & H3) f st e A. unfold p_funcname. eat H1.
  pose proof (q_funcname_dots _ _ H2 f st0 e (now_loc st0) (now_str st0) (EName (now_str st0) (now_loc st0)) []
                              (now_str st0) A0) as P.
  destruct (p_funcname_dots _ _ _ _ _ _ _) as [[[[ex cls] fname] st2]|k|]; [|exact I|exact I].
  cbn [post] in P. destruct H3 as [ts0 N | ts0 r3 r Ha Hb].
  - look. tkb. pfin.
  - look. tkb. eat Ha. eat Hb. pfin.
Qed.

(* ------------------------------------------------------------------ results that are a bare name *)
Section Names.
  Variable classify : list N -> numcls.

  Lemma finish_prefix_name n : forall e bl st nm l st',
    p_finish_prefix classify n e bl st = Ok (EName nm l, st') -> e = EName nm l /\ st' = st.
  Proof.
    induction n as [|n IH]; intros e bl st nm l st' H; [discriminate|].
    rewrite finish_prefix_eq in H. dhv H; try (apply IH in H; destruct H as [H _]; discriminate).
    inv_ok H. auto.
  Qed.

  Lemma binop_loop_name n : forall lim bbl e st nm l st',
    p_binop_loop classify n lim bbl e st = Ok (EName nm l, st') -> e = EName nm l /\ st' = st.
  Proof.
    induction n as [|n IH]; intros lim bbl e st nm l st' H; [discriminate|].
    rewrite binop_loop_eq in H. dhv H; try (apply IH in H; destruct H as [H _]; discriminate).
    inv_ok H. auto.
  Qed.

  Lemma table_not_name n st nm l st' : p_table classify n st <> Ok (EName nm l, st').
  Proof.
    intros H. destruct n; [discriminate|]. rewrite table_eq in H. dhv H; inv_ok H; discriminate.
  Qed.
  Lemma funcdef_not_name n bl st nm l st' : p_funcdef classify n bl st <> Ok (EName nm l, st').
  Proof.
    intros H. destruct n; [discriminate|]. rewrite funcdef_eq in H. dhv H; inv_ok H; discriminate.
  Qed.

  Lemma prefixexp_name n st nm l st' :
    p_prefixexp classify n st = Ok (EName nm l, st') -> la st = TkIdentifier /\ st' = expect TkIdentifier st.
  Proof.
    intros H. destruct n; [discriminate|]. rewrite prefixexp_eq in H. dhv H.
    - apply finish_prefix_name in H. destruct H as [_ H]. split; [apply tk_eqb_eq; assumption | assumption].
    - apply finish_prefix_name in H. destruct H as [H _]. destruct e; simpl in H; discriminate.
    - apply finish_prefix_name in H. destruct H as [H _]. discriminate.
  Qed.

  Lemma exp0_name n st nm l st' :
    p_exp0 classify n st = Ok (EName nm l, st') -> la st = TkIdentifier /\ st' = expect TkIdentifier st.
  Proof.
    intros H. destruct n; [discriminate|]. rewrite exp0_eq in H.
    destruct (exp0_start_of (la st)); try (inv_ok H; discriminate).
    - dhv H; inv_ok H; discriminate.
    - exfalso. eapply table_not_name; eauto.
    - exfalso. eapply funcdef_not_name; eauto.
    - eapply prefixexp_name; eauto.
  Qed.

  Lemma subexp_name n lim st nm l st' :
    p_subexp classify n lim st = Ok (EName nm l, st') -> la st = TkIdentifier /\ st' = expect TkIdentifier st.
  Proof.
    intros H. destruct n; [discriminate|]. rewrite subexp_eq in H. dhv H.
    - apply binop_loop_name in H. destruct H as [H _]. discriminate.
    - apply binop_loop_name in H. destruct H as [-> ->]. eapply exp0_name; eauto.
  Qed.
End Names.

(* ------------------------------------------------------------------ precedence climbing consumes the flat form *)
Section Climb.
  Variable classify : list N -> numcls.

  Definition QSimple (ts r : list ltok) : Prop :=
    Simple classify ts r /\
    forall f st e, at_ st ts e -> post (p_exp0 classify f st) (fun _ st' => at_ st' r e).

  Definition qclimb_at (f : nat) : Prop :=
    (forall ts r1 r lim st e, lim <= 11 ->
       OperandQ QSimple ts r1 -> OpsQ QSimple lim r1 r -> at_ st ts e ->
       post (p_subexp classify f lim st) (fun _ st' => at_ st' r e)) /\
    (forall r1 r lim st e bbl e0, lim <= 11 ->
       OpsQ QSimple lim r1 r -> at_ st r1 e ->
       post (p_binop_loop classify f lim bbl e0 st) (fun _ st' => at_ st' r e)).

  Lemma qclimb : forall f, qclimb_at f.
  Proof.
    induction f as [|f [IHs IHl]]; [split; intros; exact I|]. split.
    - intros ts r1 r lim st e Hlim Ho Hops A. rewrite subexp_eq. look.
      destruct Ho as [ts t ts' r1 E U Ho | ts r1 HQ].
      + subst ts. simpl hdk. rewrite is_unop_unop, U.
        pose proof (T_of_hd t ts') as HT. pose proof (unop_not_eof _ U) as NE. eat HT.
        change unary_limit with 10.
        destruct (Nat.le_gt_cases lim 10) as [Hle|Hgt].
        * destruct (ops_split _ lim 10 _ _ Hle Hops) as (r2 & H1 & H2).
          pose proof (IHs ts' r1 r2 10 st0 e ltac:(lia) Ho H1 A0) as P.
          destruct (p_subexp classify f 10 st0) as [[v s2]|k|]; [|exact I|exact I]. cbn [post] in P.
          apply (IHl r2 r); assumption.
        * assert (lim = 11) by lia. subst lim. apply ops_10_11 in Hops.
          pose proof (IHs ts' r1 r 10 st0 e ltac:(lia) Ho Hops A0) as P.
          destruct (p_subexp classify f 10 st0) as [[v s2]|k|]; [|exact I|exact I]. cbn [post] in P.
          apply (IHl r r); try assumption.
          apply OpsQ_end. pose proof (ops_end _ _ _ _ Hops). lia.
      + destruct HQ as (HS & CS).
        rewrite is_unop_unop, (simple_not_unop _ _ _ HS).
        pose proof (CS f st e A) as P.
        destruct (p_exp0 classify f st) as [[v s1]|k|]; [|exact I|exact I]. cbn [post] in P.
        apply (IHl r1 r); assumption.
    - intros r1 r lim st e bbl e0 Hlim Hops A. rewrite binop_loop_eq. look.
      destruct Hops as [r1 Hp | r1 t r2 r3 r E Hp Ho Hops].
      + rewrite climb_cond_false by assumption. pfin.
      + subst r1. simpl hdk. rewrite climb_cond_true by assumption.
        pose proof (T_of_hd t r2) as HT.
        assert (NE : kd t <> TkEOF) by (intros EQ; rewrite EQ in Hp; simpl in Hp; lia).
        eat HT.
        pose proof (prio_sub (kd t)) as Hp11. pose proof (prio_sub_ge (kd t) lim Hp) as Hpge.
        set (p' := if is_right_assoc (kd t) then Nat.pred (prio (kd t)) else prio (kd t)) in *.
        destruct (ops_split _ lim p' _ _ Hpge Hops) as (r4 & H1 & H2).
        pose proof (IHs r2 r3 r4 p' st0 e Hp11 Ho H1 A0) as P.
        destruct (p_subexp classify f p' st0) as [[v s2]|k|]; [|exact I|exact I]. cbn [post] in P.
        apply (IHl r4 r); assumption.
  Qed.
End Climb.
