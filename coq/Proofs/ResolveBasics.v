(* Binder family: facts about the position resolver that hold for EVERY scope tree / workspace (no layout hypothesis):
   - FindMinScope (min_chain) only returns scopes of the tree whose Loc contains the cursor;
   - completion's local labels come from entries declared before the cursor in such scopes (C14, "only those" half);
   - rename uses exactly the reference list (C11); every reference is the definition or a re-resolved occurrence of
     the same name; highlight = the references of the same file (C12); hover says local iff the target is a local. *)
From Coq Require Import List NArith ZArith Bool Lia.
From LH Require Import Base.Bytes Model.Lexer Model.Ast Model.Scope Model.Globals Model.Resolve.
Import ListNotations.
Local Open Scope Z_scope.

(* s' is s or a descendant of s *)
Inductive in_tree : scope -> scope -> Prop :=
| it_here s : in_tree s s
| it_sub s' l vars subs sub : In sub subs -> in_tree s' sub -> in_tree s' (Scope l vars subs).

Lemma in_tree_trans a b c : in_tree a b -> in_tree b c -> in_tree a c.
Proof.
  intros Hab Hbc. induction Hbc.
  - exact Hab.
  - eapply it_sub; eauto.
Qed.

(* what a chain produced below scope s looks like *)
Definition chain_from (s : scope) (line col : Z) (acc c : list (list ventry)) : Prop :=
  exists pre, c = pre ++ acc /\
    forall vars, In vars pre ->
      exists s', in_tree s' s /\ scope_vars s' = vars /\ in_location (scope_loc s') line col = true.

Lemma chain_from_nil s line col acc : chain_from s line col acc acc.
Proof. exists []. split; [reflexivity | intros v []]. Qed.

(* induction principle for the nested scope tree *)
Fixpoint scope_ind' (P : scope -> Prop)
         (H : forall l vars subs, Forall P subs -> P (Scope l vars subs)) (s : scope) {struct s} : P s :=
  match s with
  | Scope l vars subs =>
    H l vars subs ((fix go (ss : list scope) : Forall P ss :=
                      match ss with
                      | [] => Forall_nil P
                      | x :: r => Forall_cons x (scope_ind' P H x) (go r)
                      end) subs)
  end.

Lemma min_chain_sound s : forall line col acc c,
  min_chain s line col acc = Some c -> chain_from s line col acc c.
Proof.
  induction s as [l vars subs IH] using scope_ind'.
  intros line col acc c Hm. cbn [min_chain] in Hm.
  destruct (in_location l line col) eqn:Hin; [|discriminate].
  injection Hm as Hm. subst c.
  (* the scan over the sub-scopes *)
  assert (Hscan : forall ss, (forall x, In x ss -> In x subs) -> Forall
            (fun s0 => forall line col acc c, min_chain s0 line col acc = Some c -> chain_from s0 line col acc c) ss ->
          chain_from (Scope l vars subs) line col acc
            ((fix scan (ss0 : list scope) : list (list ventry) :=
                match ss0 with
                | [] => vars :: acc
                | sub :: r =>
                  if el (scope_loc sub) <? line then scan r
                  else if in_location (scope_loc sub) line col
                       then match min_chain sub line col (vars :: acc) with Some c => c | None => vars :: acc end
                       else if sl (scope_loc sub) >? line then vars :: acc else scan r
                end) ss)).
  { induction ss as [|sub r IHr]; intros Hsub Hall.
    - exists [vars]. split; [reflexivity|].
      intros v [Hv|[]]. subst v. exists (Scope l vars subs). repeat split; [apply it_here | exact Hin].
    - inversion Hall as [|x xs Hx Hxs]; subst.
      assert (Hbase : chain_from (Scope l vars subs) line col acc (vars :: acc)).
      { exists [vars]. split; [reflexivity|].
        intros v [Hv|[]]. subst v. exists (Scope l vars subs). repeat split; [apply it_here | exact Hin]. }
      destruct (el (scope_loc sub) <? line); [apply IHr; auto; intros; apply Hsub; right; auto|].
      destruct (in_location (scope_loc sub) line col).
      + destruct (min_chain sub line col (vars :: acc)) as [c|] eqn:Hc; [|exact Hbase].
        apply Hx in Hc. destruct Hc as [pre [Hpre Hp]].
        exists (pre ++ [vars]). split; [rewrite <- app_assoc; exact Hpre|].
        intros v Hv. apply in_app_or in Hv. destruct Hv as [Hv|[Hv|[]]].
        * destruct (Hp v Hv) as [s' [Ht [Hvs Hl]]]. exists s'. repeat split; auto.
          eapply it_sub; [apply Hsub; left; reflexivity | exact Ht].
        * subst v. exists (Scope l vars subs). repeat split; [apply it_here | exact Hin].
      + destruct (sl (scope_loc sub) >? line); [exact Hbase|].
        apply IHr; auto. intros; apply Hsub; right; auto. }
  apply Hscan; auto.
Qed.

(* ------------------------------------------------------------------ C14: the local labels *)
Theorem complete_locals_sound fi line col n :
  In n (complete_locals fi line col) ->
  exists s v, in_tree s (fi_root fi) /\ In v (scope_vars s) /\ v_name v = n /\ decl_before line col v = true /\
              (in_location (scope_loc s) line col = true \/ s = fi_root fi).
Proof.
  unfold complete_locals, chain_at. intros Hn.
  apply in_flat_map in Hn. destruct Hn as [vars [Hvars Hn]].
  apply in_map_iff in Hn. destruct Hn as [v [Hname Hv]].
  apply filter_In in Hv. destruct Hv as [Hv Hd].
  destruct (min_chain (fi_root fi) line col []) as [c|] eqn:Hc.
  - apply min_chain_sound in Hc. destruct Hc as [pre [Hpre Hp]].
    rewrite app_nil_r in Hpre. subst c.
    destruct (Hp vars Hvars) as [s' [Ht [Hvs Hl]]].
    exists s', v. subst vars. repeat split; auto.
  - destruct Hvars as [Hvars|[]]. subst vars.
    exists (fi_root fi), v. repeat split; auto. apply it_here.
Qed.

(* ------------------------------------------------------------------ C11: rename = references *)
Theorem rename_is_references w f fi n line col :
  references_at MRename w f fi n line col = references_at MRefs w f fi n line col.
Proof. reflexivity. Qed.

(* every reference is the definition Loc or the Loc of a visited occurrence spelled with the same name *)
Definition is_occurrence_of (w : mws) (n : list N) (x : floc) : Prop :=
  exists fi o, In (fst x, fi) w /\ In o (fi_occs fi) /\ o_loc o = snd x /\ beq_bytes (o_name o) n = true.

Theorem references_shape mode w f fi n line col l :
  In (f, fi) w ->
  references_at mode w f fi n line col = Some l ->
  match resolve_at w f fi n line col with
  | TLocal v => forall x, In x l -> x = (f, v_loc v) \/ is_occurrence_of w n x
  | TGlobal F g => forall x, In x l -> x = (F, g_loc g) \/ is_occurrence_of w n x
  | _ => l = []
  end.
Proof.
  intros Hfw Hr. unfold references_at, references_of_target in Hr.
  destruct (resolve_at w f fi n line col) as [v|F g| |] eqn:Ht.
  - injection Hr as Hr. subst l. intros x [Hx|Hx]; [left; auto|right].
    apply in_map_iff in Hx. destruct Hx as [o [Hxo Ho]]. apply filter_In in Ho. destruct Ho as [Ho Hm].
    apply andb_true_iff in Hm. destruct Hm as [Hm _]. unfold occ_matches_local in Hm.
    apply andb_true_iff in Hm. destruct Hm as [Hm _]. apply andb_true_iff in Hm. destruct Hm as [_ Hname].
    subst x. exists fi, o. cbn. auto.
  - assert (Hgen : forall files, (forall x, In x files -> In x w) ->
        forall x, In x (flat_map (fun x0 => map (fun o => (fst x0, o_loc o))
                     (filter (fun o => occ_matches_global w n F g (fst x0) (snd x0) o && negb (skip_define F (g_loc g) (fst x0) (o_loc o)))
                             (fi_occs (snd x0)))) files) -> is_occurrence_of w n x).
    { intros files Hsub x Hx. apply in_flat_map in Hx. destruct Hx as [[X fx] [HX Hx]].
      apply in_map_iff in Hx. destruct Hx as [o [Hxo Ho]]. apply filter_In in Ho. destruct Ho as [Ho Hm].
      apply andb_true_iff in Hm. destruct Hm as [Hm _]. unfold occ_matches_global in Hm.
      apply andb_true_iff in Hm. destruct Hm as [Hm _]. apply andb_true_iff in Hm. destruct Hm as [_ Hname].
      subst x. exists fx, o. cbn in *. repeat split; auto. }
    assert (Hfiles : forall x, In x (match mode with MHighlight => [(f, fi)] | _ => w end) -> In x w).
    { destruct mode; auto; intros x [Hx|[]]; subst; auto. }
    assert (Hhead : forall x, In x (match mode with
                                    | MHighlight => if beq_bytes F f then [(F, g_loc g)] else []
                                    | _ => [(F, g_loc g)] end) -> x = (F, g_loc g)).
    { destruct mode; try (intros x [Hx|[]]; auto). destruct (beq_bytes F f); intros x Hx; [destruct Hx as [Hx|[]]; auto | destruct Hx]. }
    destruct (ws_global w n) eqn:Hws.
    + injection Hr as Hr. subst l. intros x Hx. apply in_app_or in Hx. destruct Hx as [Hx|Hx];
        [left; apply Hhead; exact Hx | right; eapply Hgen; eauto].
    + injection Hr as Hr. subst l. intros x Hx. apply in_app_or in Hx. destruct Hx as [Hx|Hx];
        [left; apply Hhead; exact Hx | right; eapply Hgen; eauto].
    + match type of Hr with (if ?b then _ else _) = _ => destruct b end; [discriminate|].
      injection Hr as Hr. subst l. intros x Hx. apply in_app_or in Hx. destruct Hx as [Hx|Hx];
        [left; apply Hhead; exact Hx | right; eapply Hgen; eauto].
  - injection Hr as Hr. auto.
  - discriminate.
Qed.

(* ------------------------------------------------------------------ C12: hover's local flag = kind of the target *)
Theorem hover_local_iff w f fi n line col :
  hover_at w f fi n line col = HLocal <-> exists v, resolve_at w f fi n line col = TLocal v.
Proof.
  unfold hover_at. destruct (resolve_at w f fi n line col); split; intros H;
    try discriminate; try (destruct H as [v H]; discriminate); eauto.
Qed.

(* a local target is what go-to-definition returns: its declaration, in the same file *)
Theorem define_of_local w f fi n line col v :
  resolve_at w f fi n line col = TLocal v -> define_at w f fi n line col = Some [(f, v_loc v)].
Proof. unfold define_at. intros ->. reflexivity. Qed.

(* highlight = the references that lie in the same file (file names of the workspace are distinct) *)
Lemma filter_all {A} (p : A -> bool) l : (forall a, In a l -> p a = true) -> filter p l = l.
Proof.
  induction l as [|a r IH]; intros H; [reflexivity|]. cbn. rewrite (H a (or_introl eq_refl)).
  f_equal. apply IH. intros b Hb. apply H. right. exact Hb.
Qed.
Lemma filter_none {A} (p : A -> bool) l : (forall a, In a l -> p a = false) -> filter p l = [].
Proof.
  induction l as [|a r IH]; intros H; [reflexivity|]. cbn. rewrite (H a (or_introl eq_refl)).
  apply IH. intros b Hb. apply H. right. exact Hb.
Qed.

Lemma beq_bytes_refl a : beq_bytes a a = true.
Proof. apply beq_bytes_eq. reflexivity. Qed.
Lemma beq_bytes_neq a b : a <> b -> beq_bytes a b = false.
Proof. intros H. destruct (beq_bytes a b) eqn:E; [|reflexivity]. apply beq_bytes_eq in E. contradiction. Qed.

Lemma filter_flat_map_file {A} (g : list N * fileinfo -> list A) (name_of : A -> list N) f fi (w : mws) :
  NoDup (map fst w) -> In (f, fi) w ->
  (forall x a, In a (g x) -> name_of a = fst x) ->
  filter (fun a => beq_bytes (name_of a) f) (flat_map g w) = g (f, fi).
Proof.
  intros Hnd Hin Hg.
  assert (Hother : forall y, fst y <> f -> filter (fun a => beq_bytes (name_of a) f) (g y) = []).
  { intros y Hy. apply filter_none. intros a Ha. rewrite (Hg _ _ Ha). apply beq_bytes_neq. exact Hy. }
  assert (Hrest : forall r, ~ In f (map fst r) -> filter (fun a => beq_bytes (name_of a) f) (flat_map g r) = []).
  { induction r as [|y r' IHr']; intros Hni; [reflexivity|].
    cbn [flat_map]. rewrite filter_app. rewrite Hother, IHr'; [reflexivity| |].
    - intros Hc. apply Hni. right. exact Hc.
    - intros E. apply Hni. left. exact E. }
  induction w as [|x r IH]; [destruct Hin|].
  cbn [flat_map]. rewrite filter_app. inversion Hnd as [|? ? Hnotin Hnd']; subst.
  destruct Hin as [Hx|Hin].
  - subst x. cbn [fst] in *. rewrite Hrest by exact Hnotin. rewrite app_nil_r.
    apply filter_all. intros a Ha. rewrite (Hg _ _ Ha). apply beq_bytes_refl.
  - rewrite IH by auto. rewrite Hother; [reflexivity|].
    intros E. apply Hnotin. rewrite E. change f with (fst (f, fi)). apply in_map. exact Hin.
Qed.

Theorem highlight_is_refs_in_file w f fi n line col l h :
  NoDup (map fst w) -> In (f, fi) w ->
  references_at MRefs w f fi n line col = Some l ->
  references_at MHighlight w f fi n line col = Some h ->
  h = filter (fun x => beq_bytes (fst x) f) l.
Proof.
  intros Hnd Hin Hl Hh. unfold references_at, references_of_target in *. cbv zeta in Hl, Hh.
  destruct (resolve_at w f fi n line col) as [v|F g| |] eqn:Ht.
  - injection Hl as Hl. injection Hh as Hh. subst l h.
    symmetry. apply filter_all. intros a [Ha|Ha]; [subst a; apply beq_bytes_refl|].
    apply in_map_iff in Ha. destruct Ha as [o [Ha _]]. subst a. apply beq_bytes_refl.
  - set (G := fun x : list N * fileinfo =>
                map (fun o => (fst x, o_loc o))
                    (filter (fun o => occ_matches_global w n F g (fst x) (snd x) o && negb (skip_define F (g_loc g) (fst x) (o_loc o)))
                            (fi_occs (snd x)))) in *.
    assert (HG : filter (fun x : list N * loc => beq_bytes (fst x) f) (flat_map G w) = G (f, fi)).
    { apply (filter_flat_map_file G (fun a : list N * loc => fst a)); auto.
      intros x a Ha. unfold G in Ha. apply in_map_iff in Ha. destruct Ha as [o [Ha _]]. subst a. reflexivity. }
    assert (Hhead : filter (fun x : list N * loc => beq_bytes (fst x) f) [(F, g_loc g)]
                    = if beq_bytes F f then [(F, g_loc g)] else []).
    { cbn. destruct (beq_bytes F f); reflexivity. }
    assert (Hone : flat_map G [(f, fi)] = G (f, fi)) by (cbn; apply app_nil_r).
    destruct (ws_global w n) eqn:Hws.
    + injection Hl as Hl. injection Hh as Hh. subst l h. change ((F, g_loc g) :: flat_map G w) with ([(F, g_loc g)] ++ flat_map G w); rewrite filter_app, Hhead, HG; cbn [flat_map]; rewrite ?app_nil_r; reflexivity.
    + injection Hl as Hl. injection Hh as Hh. subst l h. change ((F, g_loc g) :: flat_map G w) with ([(F, g_loc g)] ++ flat_map G w); rewrite filter_app, Hhead, HG; cbn [flat_map]; rewrite ?app_nil_r; reflexivity.
    + match type of Hl with (if ?b then _ else _) = _ => destruct b end; [discriminate|].
      match type of Hh with (if ?b then _ else _) = _ => destruct b end; [discriminate|].
      injection Hl as Hl. injection Hh as Hh. subst l h. change ((F, g_loc g) :: flat_map G w) with ([(F, g_loc g)] ++ flat_map G w); rewrite filter_app, Hhead, HG; cbn [flat_map]; rewrite ?app_nil_r; reflexivity.
  - injection Hl as Hl. injection Hh as Hh. subst. reflexivity.
  - discriminate.
Qed.
