(* The wide layer of the binder family coincides with the narrow one where the narrow one is defined.
     - in_fragment b = true -> in_wide b = true;
     - the wide traversal (ResolveWide.trw_exp ...) equals the one of Scope.v on every AST without a `_G.name` node, hence
       analyse_wide = analyse there - in particular on the narrow fragment;
     - the wide reference binder (LuaScopeWide.bw_exp ...) equals the one of LuaScope.v on the narrow fragment;
     - the wide text cut equals the narrow one on texts that pass the narrow guard text_ok (no square brackets);
     - the wide request functions with g = false are the narrow ones.
   Plus model-level facts about `_G.name` (never resolves to a local; the answer is the file's own newest global of that
   name, else the workspace's single owner). *)
From Coq Require Import List NArith ZArith Bool Lia.
From LH Require Import Base.Bytes Model.Lexer Model.Ast Model.Scope Model.Globals Model.Resolve Model.ResolveWide
  Spec.LuaScope Spec.LuaScopeWide Proofs.PositionBindBase.
Import ListNotations.

(* ------------------------------------------------------------------ small list facts *)
Lemma existsb_false_in {A} (p : A -> bool) l : existsb p l = false -> forall x, In x l -> p x = false.
Proof.
  induction l as [|a r IH]; intros H x Hin; [destruct Hin|].
  cbn [existsb] in H. apply orb_false_iff in H. destruct H as [H1 H2].
  destruct Hin as [->|Hin]; [exact H1 | apply IH; assumption].
Qed.

Lemma forallb_true_in {A} (p : A -> bool) l : forallb p l = true -> forall x, In x l -> p x = true.
Proof. intros H. apply forallb_forall. exact H. Qed.

Lemma Forall2_map_in {A B} (R : B -> B -> Prop) (f g : A -> B) l :
  (forall x, In x l -> R (f x) (g x)) -> Forall2 R (map f l) (map g l).
Proof.
  induction l as [|a r IH]; intros H; cbn [map]; constructor.
  - apply H. left. reflexivity.
  - apply IH. intros x Hx. apply H. right. exact Hx.
Qed.

Lemma flat_map_ext_in {A B} (f g : A -> list B) l :
  (forall x, In x l -> f x = g x) -> flat_map f l = flat_map g l.
Proof.
  induction l as [|a r IH]; intros H; cbn [flat_map]; [reflexivity|].
  rewrite (H a (or_introl eq_refl)), IH; [reflexivity|]. intros x Hx. apply H. right. exact Hx.
Qed.

Lemma index_map_ext_in {A B} (f g : nat -> A -> B) l :
  (forall i x, In x l -> f i x = g i x) -> forall i, index_map f i l = index_map g i l.
Proof.
  induction l as [|a r IH]; intros H i; cbn [index_map]; [reflexivity|].
  rewrite (H i a (or_introl eq_refl)), IH; [reflexivity|]. intros j x Hx. apply H. right. exact Hx.
Qed.

(* ------------------------------------------------------------------ state transformers up to pointwise equality *)
Definition feq {A B} (f g : A -> B) : Prop := forall x, f x = g x.

Lemma apply_all_ext (fs gs : list (tstate -> tstate)) :
  Forall2 feq fs gs -> forall st, apply_all fs st = apply_all gs st.
Proof.
  unfold apply_all. induction 1 as [|f g fs gs Hfg Hr IH]; intros st; cbn [fold_left]; [reflexivity|].
  rewrite (Hfg st). apply IH.
Qed.

Definition beq2 (x y : loc * (tstate -> tstate)) : Prop := fst x = fst y /\ feq (snd x) (snd y).
Definition veq2 (x y : exp * (tstate -> tstate)) : Prop := fst x = fst y /\ feq (snd x) (snd y).

Lemma if_loop_ext cs cs' : Forall2 feq cs cs' -> forall bs bs', Forall2 beq2 bs bs' ->
  forall st, if_loop cs bs st = if_loop cs' bs' st.
Proof.
  induction 1 as [|c c' cs cs' Hc Hcs IH]; intros bs bs' Hb st.
  - destruct Hb; reflexivity.
  - destruct Hb as [|[bl b] [bl' b'] bs bs' [H1 H2] Hbs]; cbn [if_loop]; [reflexivity|].
    cbn [fst snd] in H1, H2. subst bl'. rewrite (Hc st), (H2 (push bl (c' st))). apply IH. exact Hbs.
Qed.

Lemma Forall2_firstn {A B} (R : A -> B -> Prop) k : forall l l', Forall2 R l l' -> Forall2 R (firstn k l) (firstn k l').
Proof.
  induction k as [|k IH]; intros l l' H; [constructor|]. destruct H as [|x y r r' Hxy Hr]; cbn [firstn]; constructor; auto.
Qed.

Lemma local_loop_ext vis vis' : Forall2 veq2 vis vis' ->
  forall ns lc il st, local_loop vis ns lc il st = local_loop vis' ns lc il st.
Proof.
  intros H ns lc il st. unfold local_loop.
  assert (Hf : map fst vis = map fst vis').
  { induction H as [|x y r r' [H1 _] Hr IH]; cbn [map]; [reflexivity|]. rewrite H1, IH. reflexivity. }
  rewrite Hf. f_equal. apply apply_all_ext.
  assert (Hs : forall l l', Forall2 veq2 l l' -> Forall2 feq (map snd l) (map snd l')).
  { induction 1 as [|x y r r' [_ H2] Hr IH]; cbn [map]; constructor; assumption. }
  apply Hs. exact H.
Qed.

Inductive tgt_eq : atarget -> atarget -> Prop :=
| TE_name n l : tgt_eq (TgName n l) (TgName n l)
| TE_other f g : feq f g -> tgt_eq (TgOther f) (TgOther g).

Lemma Forall2_veq2_snd vis vis' : Forall2 veq2 vis vis' -> Forall2 feq (map snd vis) (map snd vis').
Proof. induction 1 as [|x y r r' [_ H] Hr IH]; cbn [map]; constructor; assumption. Qed.

Lemma assign_loop_ext flv slv vars vars' : Forall2 tgt_eq vars vars' -> forall vis vis', Forall2 veq2 vis vis' ->
  forall st, assign_loop flv slv vars vis st = assign_loop flv slv vars' vis' st.
Proof.
  induction 1 as [|v v' vars vars' Hv Hvs IH]; intros vis vis' Hvis st.
  - cbn [assign_loop]. apply apply_all_ext. apply Forall2_veq2_snd. exact Hvis.
  - cbn [assign_loop]. destruct Hvis as [|[e f] [e' f'] vis vis' [H1 H2] Hr].
    + destruct Hv as [n l|f g Hfg].
      * apply IH. constructor.
      * rewrite (Hfg st). apply IH. constructor.
    + cbn [fst snd] in H1, H2. subst e'. rewrite (H2 st). destruct Hv as [n l|f0 g0 Hfg].
      * apply IH. exact Hr.
      * rewrite (Hfg (f' st)). apply IH. exact Hr.
Qed.

(* ------------------------------------------------------------------ the wide traversal on ASTs without `_G.name` *)
Definition Te (e : exp) : Prop := has_w_exp e = false -> forall flv st, trw_exp flv e st = tr_exp flv e st.
Definition Ts (s : stat) : Prop := has_w_stat s = false -> forall flv slv st, trw_stat flv slv s st = tr_stat flv slv s st.
Definition Tb (b : block) : Prop := has_w_block b = false -> forall flv slv st, trw_block flv slv b st = tr_block flv slv b st.

Lemma Te_list es : Forall Te es -> existsb has_w_exp es = false ->
  forall flv, Forall2 feq (map (fun a => trw_exp flv a) es) (map (fun a => tr_exp flv a) es).
Proof.
  intros HF Hg flv. apply Forall2_map_in. intros x Hx st.
  apply (proj1 (Forall_forall _ _) HF x Hx). apply (existsb_false_in _ _ Hg x Hx).
Qed.

Lemma Te_vis es : Forall Te es -> existsb has_w_exp es = false ->
  forall flv, Forall2 veq2 (map (fun e => (e, trw_exp flv e)) es) (map (fun e => (e, tr_exp flv e)) es).
Proof.
  intros HF Hg flv. apply Forall2_map_in. intros x Hx. split; [reflexivity|]. intros st. cbn [snd].
  apply (proj1 (Forall_forall _ _) HF x Hx). apply (existsb_false_in _ _ Hg x Hx).
Qed.

Lemma trw_narrow_all : (forall e, Te e) /\ (forall s, Ts s) /\ (forall b, Tb b).
Proof.
  apply ast_ind3; unfold Te, Ts, Tb.
  - (* atoms *) intros e Ha _ flv st. destruct e; try contradiction; reflexivity.
  - intros o x l IH Hg flv st. cbn [has_w_exp] in Hg. cbn [trw_exp tr_exp]. apply IH. exact Hg.
  - intros o a b l IHa IHb Hg flv st. cbn [has_w_exp] in Hg. apply orb_false_iff in Hg. destruct Hg as [Ha Hb].
    cbn [trw_exp tr_exp]. rewrite (IHa Ha). apply IHb. exact Hb.
  - intros x l IH Hg flv st. cbn [has_w_exp] in Hg. cbn [trw_exp tr_exp]. apply IH. exact Hg.
  - (* index *) intros p k l IHp IHk Hg flv st. cbn [has_w_exp] in Hg. cbn [trw_exp tr_exp].
    destruct (g_key (EIndex p k l)) as [[[gl x] xl]|]; [discriminate Hg|].
    apply orb_false_iff in Hg. destruct Hg as [Hp Hk]. rewrite (IHp Hp). apply IHk. exact Hk.
  - (* call *) intros p nm args l IHp IHa Hg flv st. cbn [has_w_exp] in Hg. apply orb_false_iff in Hg.
    destruct Hg as [Hp Ha]. cbn [trw_exp tr_exp]. rewrite (IHp Hp). apply apply_all_ext. apply Te_list; assumption.
  - (* table *) intros ks vs l IHk IHv Hg flv st. cbn [has_w_exp] in Hg. apply orb_false_iff in Hg.
    destruct Hg as [Hk Hv]. cbn [trw_exp tr_exp].
    assert (HK : Forall2 feq
                   (map (fun k => match k with Some k' => trw_exp flv k' | None => fun s : tstate => s end) ks)
                   (map (fun k => match k with Some k' => tr_exp flv k' | None => fun s : tstate => s end) ks)).
    { apply Forall2_map_in. intros [k'|] Hx s; [|reflexivity].
      apply (proj1 (Forall_forall _ _) IHk (Some k') Hx). apply (existsb_false_in _ _ Hk (Some k') Hx). }
    rewrite (apply_all_ext _ _ HK st). apply apply_all_ext. apply Te_list; assumption.
  - (* function *) intros c f ps pl b l va co IH Hg flv st. cbn [has_w_exp] in Hg. cbn [trw_exp tr_exp].
    rewrite (IH Hg). reflexivity.
  - (* atomic statements *) intros s Ha _ flv slv st. destruct s; try contradiction; reflexivity.
  - intros b l IH Hg flv slv st. cbn [has_w_stat] in Hg. cbn [trw_stat tr_stat]. rewrite (IH Hg). reflexivity.
  - intros e IH Hg flv slv st. cbn [has_w_stat] in Hg. cbn [trw_stat tr_stat]. apply IH. exact Hg.
  - (* if *) intros es bs l IHe IHb Hg flv slv st. cbn [has_w_stat] in Hg. apply orb_false_iff in Hg.
    destruct Hg as [He Hb]. cbn [trw_stat tr_stat]. apply if_loop_ext.
    + apply Te_list; assumption.
    + apply Forall2_map_in. intros x Hx. split; [reflexivity|]. intros s. cbn [snd].
      apply (proj1 (Forall_forall _ _) IHb x Hx). apply (existsb_false_in _ _ Hb x Hx).
  - intros e b l IHe IHb Hg flv slv st. cbn [has_w_stat] in Hg. apply orb_false_iff in Hg. destruct Hg as [He Hb].
    cbn [trw_stat tr_stat]. rewrite (IHe He), (IHb Hb). reflexivity.
  - intros b e l IHb IHe Hg flv slv st. cbn [has_w_stat] in Hg. apply orb_false_iff in Hg. destruct Hg as [Hb He].
    cbn [trw_stat tr_stat]. rewrite (IHb Hb), (IHe He). reflexivity.
  - intros n vl e1 e2 e3 b l IH1 IH2 IH3 IHb Hg flv slv st. cbn [has_w_stat] in Hg.
    apply orb_false_iff in Hg. destruct Hg as [Hg Hb]. apply orb_false_iff in Hg. destruct Hg as [Hg H3].
    apply orb_false_iff in Hg. destruct Hg as [H1 H2].
    cbn [trw_stat tr_stat]. rewrite (IH1 H1), (IH3 H3), (IH2 H2), (IHb Hb). reflexivity.
  - intros ns ls es b l IHe IHb Hg flv slv st. cbn [has_w_stat] in Hg. apply orb_false_iff in Hg.
    destruct Hg as [He Hb]. cbn [trw_stat tr_stat].
    rewrite (apply_all_ext _ _ (Te_list es IHe He flv) (push l st)), (IHb Hb). reflexivity.
  - (* assignment *) intros vars es l IHv IHe Hg flv slv st. cbn [has_w_stat] in Hg. apply orb_false_iff in Hg.
    destruct Hg as [Hv He]. cbn [trw_stat tr_stat]. apply assign_loop_ext.
    + apply Forall2_map_in. intros v Hx.
      pose proof (existsb_false_in _ _ Hv v Hx) as Hgv0. cbn beta in Hgv0. apply orb_false_iff in Hgv0.
      destruct Hgv0 as [Hgv Hmt]. pose proof (proj1 (Forall_forall _ _) IHv v Hx Hgv) as IHx.
      destruct v as [?|?|?|?|?|? ?|? ?|? ?|? ? ?|? ? ? ?|? ? ?|? ? ? ? ? ? ? ?|? ?|? ?|p k l0|? ? ? ?];
        try (constructor; fail); try (constructor; intros ?; reflexivity).
      cbn [has_w_exp] in Hgv. destruct (g_key (EIndex p k l0)) as [[[gl x] xl]|] eqn:Hk; [discriminate Hgv|].
      constructor. intros s0. unfold assign_member. destruct (member_target (EIndex p k l0)); [discriminate Hmt|].
      specialize (IHx flv s0). cbn [trw_exp tr_exp] in IHx. rewrite Hk in IHx. exact IHx.
    + apply Te_vis; assumption.
  - intros ns ls at_ es l IHe Hg flv slv st. cbn [has_w_stat] in Hg. cbn [trw_stat tr_stat].
    apply local_loop_ext. apply Te_vis; assumption.
  - intros n nl f l IH Hg flv slv st. cbn [has_w_stat] in Hg. cbn [trw_stat tr_stat]. apply IH. exact Hg.
  - (* block *) intros ss ret l IHs IHr Hg flv slv st. cbn [has_w_block] in Hg. apply orb_false_iff in Hg.
    destruct Hg as [Hs Hr]. cbn [trw_block tr_block].
    assert (HS : Forall2 feq (map (fun s => trw_stat flv slv s) ss) (map (fun s => tr_stat flv slv s) ss)).
    { apply Forall2_map_in. intros x Hx s. apply (proj1 (Forall_forall _ _) IHs x Hx). apply (existsb_false_in _ _ Hs x Hx). }
    rewrite (apply_all_ext _ _ HS st). destruct ret as [es|]; [|reflexivity].
    cbn [ret_exps] in IHr. apply apply_all_ext. apply Te_list; assumption.
Qed.

Theorem trw_block_narrow : forall b, has_w_block b = false ->
  forall flv slv st, trw_block flv slv b st = tr_block flv slv b st.
Proof. exact (proj2 (proj2 trw_narrow_all)). Qed.

Theorem analyse_wide_no_g : forall b, has_w_block b = false -> analyse_wide b = analyse b.
Proof. intros b Hg. unfold analyse_wide, analyse. rewrite (trw_block_narrow b Hg). reflexivity. Qed.

(* ------------------------------------------------------------------ the narrow fragment lies inside the wide one and
   contains no `_G.name` *)
(* the fragment has no table constructor: tag_local_init_w is tag_local_init on it *)
Definition simple_init (e : exp) : bool := match e with ETable _ _ _ => false | _ => true end.
Definition Fe (e : exp) : Prop := frag_exp e = true -> wide_exp e = true /\ has_w_exp e = false /\ simple_init e = true.
Definition Fs (s : stat) : Prop := frag_stat s = true -> wide_stat s = true /\ has_w_stat s = false.
Definition Fb (b : block) : Prop := frag_block b = true -> wide_block b = true /\ has_w_block b = false.

Lemma Fe_list es : Forall Fe es -> forallb frag_exp es = true ->
  forallb wide_exp es = true /\ existsb has_w_exp es = false.
Proof.
  induction 1 as [|x r Hx Hr IH]; intros Hf; [split; reflexivity|].
  cbn [forallb] in Hf. apply andb_true_iff in Hf. destruct Hf as [H1 H2].
  destruct (Hx H1) as [Hw [Hg _]]. destruct (IH H2) as [Hws Hgs].
  cbn [forallb existsb]. rewrite Hw, Hg, Hws, Hgs. split; reflexivity.
Qed.

Lemma frag_wide_all : (forall e, Fe e) /\ (forall s, Fs s) /\ (forall b, Fb b).
Proof.
  apply ast_ind3; unfold Fe, Fs, Fb.
  - (* atoms *) intros e Ha Hf. destruct e; try contradiction; try discriminate Hf; cbn in Hf |- *;
      repeat split; try reflexivity; exact Hf.
  - intros o x l IH Hf. cbn [frag_exp] in Hf. destruct (IH Hf) as [Hw [Hg _]].
    cbn [wide_exp has_w_exp simple_init]. repeat split; assumption.
  - intros o a b l IHa IHb Hf. cbn [frag_exp] in Hf. apply andb_true_iff in Hf. destruct Hf as [Ha Hb].
    destruct (IHa Ha) as [Hwa [Hga _]]. destruct (IHb Hb) as [Hwb [Hgb _]].
    cbn [wide_exp has_w_exp simple_init]. rewrite Hwa, Hwb, Hga, Hgb. repeat split; reflexivity.
  - intros x l IH Hf. cbn [frag_exp] in Hf. destruct (IH Hf) as [Hw [Hg _]].
    cbn [wide_exp has_w_exp simple_init]. repeat split; assumption.
  - intros p k l _ _ Hf. discriminate Hf.
  - (* call *) intros p nm args l _ IHa Hf.
    destruct p as [?|?|?|?|?|? ?|? ?|? ?|? ? ?|? ? ? ?|? ? ?|? ? ? ? ? ? ? ?|n ln|? ?|? ? ?|? ? ? ?]; try discriminate Hf.
    destruct nm as [m|]; [discriminate Hf|]. cbn [frag_exp] in Hf. apply andb_true_iff in Hf. destruct Hf as [Hn Ha].
    destruct (Fe_list args IHa Ha) as [Hws Hgs].
    cbn [wide_exp has_w_exp simple_init]. rewrite Hn, Hws, Hgs. repeat split; reflexivity.
  - intros ks vs l _ _ Hf. discriminate Hf.
  - (* function *) intros c f ps pl b l va co IH Hf. cbn [frag_exp] in Hf.
    apply andb_true_iff in Hf. destruct Hf as [Hf Hb]. apply andb_true_iff in Hf. destruct Hf as [Hf Hps].
    apply andb_true_iff in Hf. destruct Hf as [Hco Hc]. destruct co; [discriminate Hco|].
    destruct (IH Hb) as [Hw Hg]. cbn [wide_exp has_w_exp simple_init]. rewrite Hps, Hw. repeat split; try reflexivity. exact Hg.
  - (* atomic statements *) intros s Ha Hf. destruct s; try contradiction; try discriminate Hf. split; reflexivity.
  - intros b l IH Hf. cbn [frag_stat] in Hf. destruct (IH Hf) as [Hw Hg]. cbn [wide_stat has_w_stat]. split; assumption.
  - (* call statement *) intros e IH Hf. cbn [frag_stat] in Hf.
    destruct e as [?|?|?|?|?|? ?|? ?|? ?|? ? ?|? ? ? ?|? ? ?|? ? ? ? ? ? ? ?|? ?|? ?|? ? ?|p nm args l]; try discriminate Hf.
    destruct (IH Hf) as [Hw [Hg _]]. cbn [wide_stat has_w_stat]. split; assumption.
  - (* if *) intros es bs l IHe IHb Hf. cbn [frag_stat] in Hf. apply andb_true_iff in Hf. destruct Hf as [He Hb].
    destruct (Fe_list es IHe He) as [Hws Hgs].
    assert (HB : forallb wide_block bs = true /\ existsb has_w_block bs = false).
    { clear - IHb Hb. induction IHb as [|x r Hx Hr IH]; [split; reflexivity|].
      cbn [forallb] in Hb. apply andb_true_iff in Hb. destruct Hb as [H1 H2].
      destruct (Hx H1) as [Hw Hg]. destruct (IH H2) as [Hws Hgs]. cbn [forallb existsb]. rewrite Hw, Hg, Hws, Hgs. split; reflexivity. }
    destruct HB as [Hwb Hgb]. cbn [wide_stat has_w_stat]. rewrite Hws, Hgs, Hwb, Hgb. split; reflexivity.
  - intros e b l IHe IHb Hf. cbn [frag_stat] in Hf. apply andb_true_iff in Hf. destruct Hf as [He Hb].
    destruct (IHe He) as [Hwe [Hge _]]. destruct (IHb Hb) as [Hwb Hgb].
    cbn [wide_stat has_w_stat]. rewrite Hwe, Hge, Hwb, Hgb. split; reflexivity.
  - intros b e l IHb IHe Hf. cbn [frag_stat] in Hf. apply andb_true_iff in Hf. destruct Hf as [Hb He].
    destruct (IHe He) as [Hwe [Hge _]]. destruct (IHb Hb) as [Hwb Hgb].
    cbn [wide_stat has_w_stat]. rewrite Hwe, Hge, Hwb, Hgb. split; reflexivity.
  - intros n vl e1 e2 e3 b l IH1 IH2 IH3 IHb Hf. cbn [frag_stat] in Hf.
    apply andb_true_iff in Hf. destruct Hf as [Hf Hb]. apply andb_true_iff in Hf. destruct Hf as [Hf H3].
    apply andb_true_iff in Hf. destruct Hf as [Hf H2]. apply andb_true_iff in Hf. destruct Hf as [Hn H1].
    destruct (IH1 H1) as [Hw1 [Hg1 _]]. destruct (IH2 H2) as [Hw2 [Hg2 _]]. destruct (IH3 H3) as [Hw3 [Hg3 _]].
    destruct (IHb Hb) as [Hwb Hgb].
    cbn [wide_stat has_w_stat]. rewrite Hn, Hw1, Hw2, Hw3, Hwb, Hg1, Hg2, Hg3, Hgb. split; reflexivity.
  - intros ns ls es b l IHe IHb Hf. cbn [frag_stat] in Hf.
    apply andb_true_iff in Hf. destruct Hf as [Hf Hb]. apply andb_true_iff in Hf. destruct Hf as [Hns He].
    destruct (Fe_list es IHe He) as [Hws Hgs]. destruct (IHb Hb) as [Hwb Hgb].
    cbn [wide_stat has_w_stat]. rewrite Hns, Hws, Hgs, Hwb, Hgb. split; reflexivity.
  - (* assignment: every target is a plain name *) intros vars es l _ IHe Hf. cbn [frag_stat] in Hf.
    apply andb_true_iff in Hf. destruct Hf as [Hv He]. destruct (Fe_list es IHe He) as [Hws Hgs].
    assert (HV : forallb (fun v => match v with EName n _ => frag_name n | EIndex _ _ _ => wide_exp v && negb (has_func v) | _ => false end) vars = true
                 /\ existsb (fun v => has_w_exp v || match member_target v with Some _ => true | None => false end) vars = false).
    { clear - Hv. induction vars as [|v r IH]; [split; reflexivity|].
      cbn [forallb] in Hv. apply andb_true_iff in Hv. destruct Hv as [H1 H2]. destruct (IH H2) as [Ha Hb].
      destruct v; try discriminate H1. cbn [forallb existsb has_w_exp member_target orb]. rewrite H1, Ha, Hb. split; reflexivity. }
    destruct HV as [Hwv Hgv]. cbn [wide_stat has_w_stat]. rewrite Hwv, Hws, Hgv, Hgs. split; reflexivity.
  - intros ns ls at_ es l IHe Hf. cbn [frag_stat] in Hf.
    apply andb_true_iff in Hf. destruct Hf as [Hns He].
    destruct (Fe_list es IHe He) as [Hws Hgs]. cbn [wide_stat has_w_stat]. rewrite Hns, Hws, Hgs. split; reflexivity.
  - intros n nl f l IH Hf. cbn [frag_stat] in Hf. apply andb_true_iff in Hf. destruct Hf as [Hn Hf].
    destruct f as [?|?|?|?|?|? ?|? ?|? ?|? ? ?|? ? ? ?|? ? ?|c fn ps pl b lf va co|? ?|? ?|? ? ?|? ? ? ?]; try discriminate Hf.
    destruct (IH Hf) as [Hw [Hg _]]. cbn [wide_stat has_w_stat]. rewrite Hn, Hw. split; [reflexivity|exact Hg].
  - (* block *) intros ss ret l IHs IHr Hf. cbn [frag_block] in Hf. apply andb_true_iff in Hf. destruct Hf as [Hs Hr].
    assert (HS : forallb wide_stat ss = true /\ existsb has_w_stat ss = false).
    { clear - IHs Hs. induction IHs as [|x r Hx Hr IH]; [split; reflexivity|].
      cbn [forallb] in Hs. apply andb_true_iff in Hs. destruct Hs as [H1 H2].
      destruct (Hx H1) as [Hw Hg]. destruct (IH H2) as [Hws Hgs]. cbn [forallb existsb]. rewrite Hw, Hg, Hws, Hgs. split; reflexivity. }
    destruct HS as [Hws Hgs]. cbn [wide_block has_w_block]. rewrite Hws, Hgs.
    destruct ret as [es|]; [|split; reflexivity]. cbn [ret_exps] in IHr.
    destruct (Fe_list es IHr Hr) as [Hwe Hge]. rewrite Hwe, Hge. split; reflexivity.
Qed.

Theorem in_fragment_in_wide : forall b, in_fragment b = true -> in_wide b = true.
Proof. intros b H. exact (proj1 (proj2 (proj2 frag_wide_all) b H)). Qed.

Theorem in_fragment_no_g : forall b, in_fragment b = true -> has_w_block b = false.
Proof. intros b H. exact (proj2 (proj2 (proj2 frag_wide_all) b H)). Qed.

Theorem analyse_wide_narrow : forall b, in_fragment b = true -> analyse_wide b = analyse b.
Proof. intros b H. apply analyse_wide_no_g. apply in_fragment_no_g. exact H. Qed.

(* ------------------------------------------------------------------ the wide binder on the narrow fragment *)
Definition Be (e : exp) : Prop := frag_exp e = true -> forall flv slv reg en, bw_exp flv slv reg e en = b_exp flv slv reg e en.
Definition Bs (s : stat) : Prop := frag_stat s = true -> forall flv slv reg en, bw_stat flv slv reg s en = b_stat flv slv reg s en.
Definition Bb (b : block) : Prop := frag_block b = true -> forall flv slv reg en, bw_block flv slv reg b en = b_block flv slv reg b en.

Lemma Be_in es : Forall Be es -> forallb frag_exp es = true ->
  forall flv slv reg en x, In x es -> bw_exp flv slv reg x en = b_exp flv slv reg x en.
Proof.
  intros HF Hf flv slv reg en x Hx. apply (proj1 (Forall_forall _ _) HF x Hx). apply (forallb_true_in _ _ Hf x Hx).
Qed.

Lemma seq_stats_ext (fs gs : list (env -> bres)) : Forall2 feq fs gs -> forall en, seq_stats fs en = seq_stats gs en.
Proof.
  unfold seq_stats. intros H en. generalize (en, @nil socc). induction H as [|f g fs gs Hfg Hr IH]; intros acc; cbn [fold_left]; [reflexivity|].
  destruct acc as [en1 os]. rewrite (Hfg en1). apply IH.
Qed.

Lemma frag_simple_init e : frag_exp e = true -> simple_init e = true.
Proof. intros H. exact (proj2 (proj2 (proj1 frag_wide_all e H))). Qed.

Lemma bw_narrow_all : (forall e, Be e) /\ (forall s, Bs s) /\ (forall b, Bb b).
Proof.
  apply ast_ind3; unfold Be, Bs, Bb.
  - (* atoms *) intros e Ha Hf flv slv reg en. destruct e; try contradiction; reflexivity.
  - intros o x l IH Hf flv slv reg en. cbn [frag_exp] in Hf. cbn [bw_exp b_exp]. apply IH. exact Hf.
  - intros o a b l IHa IHb Hf flv slv reg en. cbn [frag_exp] in Hf. apply andb_true_iff in Hf. destruct Hf as [Ha Hb].
    cbn [bw_exp b_exp]. rewrite (IHa Ha), (IHb Hb). reflexivity.
  - intros x l IH Hf flv slv reg en. cbn [frag_exp] in Hf. cbn [bw_exp b_exp]. apply IH. exact Hf.
  - intros p k l _ _ Hf. discriminate Hf.
  - (* call *) intros p nm args l _ IHa Hf flv slv reg en.
    destruct p as [?|?|?|?|?|? ?|? ?|? ?|? ? ?|? ? ? ?|? ? ?|? ? ? ? ? ? ? ?|n ln|? ?|? ? ?|? ? ? ?]; try discriminate Hf.
    destruct nm as [m|]; [discriminate Hf|]. cbn [frag_exp] in Hf. apply andb_true_iff in Hf. destruct Hf as [Hn Ha].
    cbn [bw_exp b_exp]. f_equal. apply flat_map_ext_in. intros x Hx. apply (Be_in args IHa Ha). exact Hx.
  - intros ks vs l _ _ Hf. discriminate Hf.
  - (* function *) intros c f ps pl b l va co IH Hf flv slv reg en. cbn [frag_exp] in Hf.
    apply andb_true_iff in Hf. destruct Hf as [Hf Hb]. cbn [bw_exp b_exp]. rewrite (IH Hb). reflexivity.
  - (* atomic statements *) intros s Ha Hf flv slv reg en. destruct s; try contradiction; reflexivity.
  - intros b l IH Hf flv slv reg en. cbn [frag_stat] in Hf. cbn [bw_stat b_stat]. rewrite (IH Hf). reflexivity.
  - intros e IH Hf flv slv reg en. cbn [frag_stat] in Hf.
    assert (He : frag_exp e = true) by (destruct e; try discriminate Hf; exact Hf).
    cbn [bw_stat b_stat]. rewrite (IH He). reflexivity.
  - (* if *) intros es bs l IHe IHb Hf flv slv reg en. cbn [frag_stat] in Hf. apply andb_true_iff in Hf. destruct Hf as [He Hb].
    cbn [bw_stat b_stat]. f_equal. f_equal.
    + apply flat_map_ext_in. intros x Hx. apply (Be_in es IHe He). exact Hx.
    + apply flat_map_ext_in. intros x Hx. rewrite (proj1 (Forall_forall _ _) IHb x Hx (forallb_true_in _ _ Hb x Hx)). reflexivity.
  - intros e b l IHe IHb Hf flv slv reg en. cbn [frag_stat] in Hf. apply andb_true_iff in Hf. destruct Hf as [He Hb].
    cbn [bw_stat b_stat]. rewrite (IHe He), (IHb Hb). reflexivity.
  - intros b e l IHb IHe Hf flv slv reg en. cbn [frag_stat] in Hf. apply andb_true_iff in Hf. destruct Hf as [Hb He].
    cbn [bw_stat b_stat]. rewrite (IHb Hb). destruct (b_block flv (slv + 1)%Z l b en) as [en1 os]. rewrite (IHe He). reflexivity.
  - intros n vl e1 e2 e3 b l IH1 IH2 IH3 IHb Hf flv slv reg en. cbn [frag_stat] in Hf.
    apply andb_true_iff in Hf. destruct Hf as [Hf Hb]. apply andb_true_iff in Hf. destruct Hf as [Hf H3].
    apply andb_true_iff in Hf. destruct Hf as [Hf H2]. apply andb_true_iff in Hf. destruct Hf as [Hn H1].
    cbn [bw_stat b_stat]. rewrite (IH1 H1), (IH2 H2), (IH3 H3), (IHb Hb). reflexivity.
  - intros ns ls es b l IHe IHb Hf flv slv reg en. cbn [frag_stat] in Hf.
    apply andb_true_iff in Hf. destruct Hf as [Hf Hb]. apply andb_true_iff in Hf. destruct Hf as [Hns He].
    cbn [bw_stat b_stat]. rewrite (IHb Hb).
    rewrite (flat_map_ext_in (fun e => bw_exp flv slv reg e en) (fun e => b_exp flv slv reg e en) es
                             (fun x Hx => Be_in es IHe He flv slv reg en x Hx)). reflexivity.
  - (* assignment *) intros vars es l _ IHe Hf flv slv reg en. cbn [frag_stat] in Hf.
    apply andb_true_iff in Hf. destruct Hf as [Hv He]. cbn [bw_stat b_stat].
    rewrite (map_ext_in (fun e => (e, bw_exp flv slv reg e en)) (fun e => (e, b_exp flv slv reg e en)) es
                        (fun x Hx => f_equal (pair x) (Be_in es IHe He flv slv reg en x Hx))).
    f_equal. f_equal. f_equal. apply index_map_ext_in. intros i v Hx.
    pose proof (forallb_true_in _ _ Hv v Hx) as Hn. destruct v; try discriminate Hn. reflexivity.
  - (* local *) intros ns ls at_ es l IHe Hf flv slv reg en. cbn [frag_stat] in Hf.
    apply andb_true_iff in Hf. destruct Hf as [Hns He].
    cbn [bw_stat b_stat].
    rewrite (map_ext_in (fun e => (e, bw_exp flv slv reg e en)) (fun e => (e, b_exp flv slv reg e en)) es
                        (fun x Hx => f_equal (pair x) (Be_in es IHe He flv slv reg en x Hx))).
    f_equal. f_equal. f_equal. apply index_map_ext_in. intros i eo Hx.
    apply in_map_iff in Hx. destruct Hx as [e [Heq Hin]]. subst eo. cbn [fst snd].
    unfold tag_local_init_w. pose proof (frag_simple_init e (forallb_true_in _ _ He e Hin)) as Hsi.
    destruct e; try reflexivity. discriminate.
  - intros n nl f l IH Hf flv slv reg en. cbn [frag_stat] in Hf. apply andb_true_iff in Hf. destruct Hf as [Hn Hf].
    assert (He : frag_exp f = true) by (destruct f; try discriminate Hf; exact Hf).
    cbn [bw_stat b_stat]. rewrite (IH He). reflexivity.
  - (* block *) intros ss ret l IHs IHr Hf flv slv reg en. cbn [frag_block] in Hf. apply andb_true_iff in Hf. destruct Hf as [Hs Hr].
    cbn [bw_block b_block].
    assert (HS : Forall2 feq (map (fun s => bw_stat flv slv reg s) ss) (map (fun s => b_stat flv slv reg s) ss)).
    { apply Forall2_map_in. intros x Hx e. apply (proj1 (Forall_forall _ _) IHs x Hx). apply (forallb_true_in _ _ Hs x Hx). }
    rewrite (seq_stats_ext _ _ HS en). destruct (seq_stats (map (fun s => b_stat flv slv reg s) ss) en) as [en1 os].
    destruct ret as [es|]; [|reflexivity]. cbn [ret_exps] in IHr.
    rewrite (flat_map_ext_in (fun e => bw_exp flv slv reg e en1) (fun e => b_exp flv slv reg e en1) es
                             (fun x Hx => Be_in es IHr Hr flv slv reg en1 x Hx)). reflexivity.
Qed.

Theorem bind_file_wide_narrow : forall b, in_fragment b = true -> bind_file_wide b = bind_file b.
Proof.
  intros b H. unfold bind_file_wide, bind_file. rewrite (proj2 (proj2 bw_narrow_all) b H). reflexivity.
Qed.

(* ------------------------------------------------------------------ the text side on texts without square brackets *)
Local Open Scope N_scope.

Definition no_sq (l : list N) : Prop := forall c, In c l -> (c =? 91) = false /\ (c =? 93) = false.

Lemma text_ok_no_sq bs : text_ok bs = true -> no_sq bs.
Proof.
  intros H c Hc. unfold text_ok in H. pose proof (forallb_true_in _ _ H c Hc) as Hb.
  apply andb_true_iff in Hb. destruct Hb as [Hb H93]. apply andb_true_iff in Hb. destruct Hb as [_ H91].
  apply negb_true_iff in H91. apply negb_true_iff in H93. split; assumption.
Qed.

Lemma no_sq_cons c l : no_sq (c :: l) -> (c =? 91) = false /\ (c =? 93) = false /\ no_sq l.
Proof.
  intros H. destruct (H c (or_introl eq_refl)) as [H1 H2]. split; [exact H1 | split; [exact H2 |]].
  intros x Hx. apply H. right. exact Hx.
Qed.

Lemma In_firstn {A} (x : A) n l : In x (firstn n l) -> In x l.
Proof.
  revert l. induction n as [|n IH]; intros l H; [destruct H|]. destruct l as [|a r]; [destruct H|].
  cbn [firstn] in H. destruct H as [->|H]; [left; reflexivity | right; apply IH; exact H].
Qed.

Lemma In_skipn {A} (x : A) n l : In x (skipn n l) -> In x l.
Proof.
  revert l. induction n as [|n IH]; intros l H; [exact H|]. destruct l as [|a r]; [destruct H|].
  right. apply IH. exact H.
Qed.

Lemma no_sq_rev_firstn bs n : no_sq bs -> no_sq (rev (firstn n bs)).
Proof. intros H c Hc. apply H. apply In_firstn with n. apply in_rev. exact Hc. Qed.

Lemma no_sq_skipn bs n : no_sq bs -> no_sq (skipn n bs).
Proof. intros H c Hc. apply H. apply In_skipn with n. exact Hc. Qed.

Lemma before_scan_w_no_sq l : no_sq l -> forall i best rb, before_scan_w l i best rb 0%Z = before_scan l i best rb.
Proof.
  induction l as [|ch r IH]; intros Hn i best rb; [reflexivity|].
  apply no_sq_cons in Hn. destruct Hn as [H91 [H93 Hr]].
  cbn [before_scan_w before_scan]. rewrite H91, H93.
  destruct ((ch =? 13) || (ch =? 10)); [reflexivity|].
  rewrite 2!Bool.orb_false_r.
  destruct ((ch =? 95) || (ch =? 46) || (ch =? 58) || is_digit ch || is_letter ch || (ch =? 41) || (ch =? 40)).
  - destruct (ch =? 41); [apply IH; exact Hr|]. destruct (ch =? 40).
    + destruct (rb - 1 <? 0)%Z; [reflexivity | apply IH; exact Hr].
    + apply IH. exact Hr.
  - cbn [Z.gtb Z.compare]. rewrite orb_false_r. destruct (rb >? 0)%Z; [apply IH; exact Hr | reflexivity].
Qed.

Lemma before_index_w_no_sq bs start : no_sq bs -> before_index_w bs start = before_index bs start.
Proof.
  intros H. unfold before_index_w, before_index. rewrite before_scan_w_no_sq; [reflexivity|].
  apply no_sq_rev_firstn. exact H.
Qed.

Lemma quote_then_absent t l : (forall c, In c l -> (c =? t) = false) -> forall seen, quote_then t l seen = false.
Proof.
  induction l as [|ch r IH]; intros H seen; [reflexivity|].
  cbn [quote_then]. destruct ((ch =? 13) || (ch =? 10)); [reflexivity|].
  rewrite (H ch (or_introl eq_refl)), andb_false_r. apply IH. intros c Hc. apply H. right. exact Hc.
Qed.

Lemma special_brackets_no_sq bs off : no_sq bs -> special_brackets bs off = false.
Proof.
  intros H. unfold special_brackets. rewrite quote_then_absent; [reflexivity|].
  intros c Hc. apply (no_sq_skipn bs _ H c Hc).
Qed.

Theorem cut_name_wide_narrow : forall bs off, text_ok bs = true -> cut_of_wcut (cut_name_wide bs off) = cut_name bs off.
Proof.
  intros bs off Hok. pose proof (text_ok_no_sq bs Hok) as Hn. unfold cut_name_wide, cut_name.
  destruct (N.of_nat (length bs) =? 0); [reflexivity|].
  set (off1 := if off =? N.of_nat (length bs) then off - 1 else off).
  set (off2 := if (0 <? off1) && negb (is_idc (nthb bs off1)) then off1 - 1 else off1).
  destruct (negb (is_idc (nthb bs off2))); [reflexivity|].
  rewrite (special_brackets_no_sq bs off2 Hn), (before_index_w_no_sq bs off2 Hn).
  set (str' := after_dots _ _).
  destruct (is_ident str'); [reflexivity|].
  destruct str' as [|c1 [|c2 [|c3 x]]]; try reflexivity.
  destruct ((c1 =? 95) && (c2 =? 71) && (c3 =? 46) && is_ident x); reflexivity.
Qed.

Lemma In_line_prefix_rev c l : In c (line_prefix_rev l) -> In c l.
Proof.
  induction l as [|a r IH]; intros H; [destruct H|]. cbn [line_prefix_rev] in H.
  destruct ((a =? 10) || (a =? 13)); [destruct H|]. destruct H as [->|H]; [left; reflexivity | right; apply IH; exact H].
Qed.

Theorem complete_prefix_wide_narrow : forall bs off, text_ok bs = true -> complete_prefix_wide bs off = complete_prefix bs off.
Proof.
  intros bs off Hok. pose proof (text_ok_no_sq bs Hok) as Hn. unfold complete_prefix_wide, complete_prefix.
  destruct (off =? 0); [reflexivity|]. rewrite (before_index_w_no_sq bs (off - 1) Hn).
  set (lp := line_prefix_rev (rev (firstn (N.to_nat off) bs))).
  assert (Hlp : existsb (N.eqb 91) lp = false).
  { destruct (existsb (N.eqb 91) lp) eqn:E; [|reflexivity]. apply existsb_exists in E. destruct E as [c [Hc Heq]].
    apply In_line_prefix_rev in Hc. destruct (no_sq_rev_firstn bs (N.to_nat off) Hn c Hc) as [H91 _].
    apply N.eqb_eq in Heq. subst c. discriminate H91. }
  rewrite Hlp. reflexivity.
Qed.
Local Close Scope N_scope.

(* ------------------------------------------------------------------ the request functions: g = false is the narrow model *)
Theorem resolve_at_wide_narrow : forall w f fi n line col, resolve_at_wide false w f fi n line col = resolve_at w f fi n line col.
Proof. reflexivity. Qed.

Theorem define_at_wide_narrow : forall w f fi n line col, define_at_wide false w f fi n line col = define_at w f fi n line col.
Proof. intros. unfold define_at_wide, define_at, resolve_at_wide, define_of_target. reflexivity. Qed.

Theorem references_at_wide_narrow : forall mode w f fi n line col,
  references_at_wide mode false w f fi n line col = references_at mode w f fi n line col.
Proof. intros. unfold references_at_wide, references_at, resolve_at_wide, references_of_target. reflexivity. Qed.

Theorem hover_at_wide_narrow : forall w f fi n line col, hover_at_wide false w f fi n line col = hover_at w f fi n line col.
Proof. intros. unfold hover_at_wide, hover_at, resolve_at_wide, hover_of_target. reflexivity. Qed.

Theorem complete_at_wide_narrow : forall w fi pre line col,
  beq_bytes pre name_G = false -> complete_at_wide w fi pre line col = complete_at w fi pre line col.
Proof. intros w fi pre line col H. unfold complete_at_wide. rewrite H. reflexivity. Qed.

(* rename and references stay one computation in the wide model *)
Theorem rename_is_references_wide : forall g w f fi n line col,
  references_at_wide MRename g w f fi n line col = references_at_wide MRefs g w f fi n line col.
Proof. intros. unfold references_at_wide, references_of_target. reflexivity. Qed.

(* ------------------------------------------------------------------ `_G.name` *)
(* never a local, whatever the scope chain at the cursor holds: the answer is the file's own newest global entry of that
   name, else the single owner in the workspace, else nothing (or no prediction when several files own the name) *)
Theorem resolve_G_is_global : forall w f fi n line col,
  resolve_at_wide true w f fi n line col =
  match find_global_var (fi_globals fi) n with
  | Some e => TGlobal f e
  | None => match ws_global w n with WOne f' e => TGlobal f' e | WNone => TNone | WAmbig => TAmbig end
  end.
Proof. reflexivity. Qed.

Theorem resolve_G_never_local : forall w f fi n line col v, resolve_at_wide true w f fi n line col <> TLocal v.
Proof.
  intros w f fi n line col v. unfold resolve_at_wide.
  destruct (find_global_var (fi_globals fi) n); [discriminate|]. destruct (ws_global w n); discriminate.
Qed.

Theorem hover_G_never_local : forall w f fi n line col, hover_at_wide true w f fi n line col <> HLocal.
Proof.
  intros w f fi n line col. unfold hover_at_wide, resolve_at_wide, hover_of_target.
  destruct (find_global_var (fi_globals fi) n); [discriminate|]. destruct (ws_global w n); discriminate.
Qed.

(* the position of the cursor plays no role for `_G.name` *)
Theorem define_G_position_free : forall w f fi n line col line' col',
  define_at_wide true w f fi n line col = define_at_wide true w f fi n line' col'.
Proof. reflexivity. Qed.

(* hover's flag and definition agree in the wide model too (clause 4 of C12 at model level) *)
Theorem hover_local_iff_wide : forall g w f fi n line col,
  hover_at_wide g w f fi n line col = HLocal <-> exists v, resolve_at_wide g w f fi n line col = TLocal v.
Proof.
  intros. unfold hover_at_wide, hover_of_target. destruct (resolve_at_wide g w f fi n line col) as [v| | |]; split;
    try discriminate; try (intros [v' Hv]; discriminate Hv).
  - intros _. exists v. reflexivity.
  - intros _. reflexivity.
Qed.

Theorem define_of_local_wide : forall g w f fi n line col v,
  resolve_at_wide g w f fi n line col = TLocal v -> define_at_wide g w f fi n line col = Some [(f, v_loc v)].
Proof. intros g w f fi n line col v H. unfold define_at_wide. rewrite H. reflexivity. Qed.

(* the traversal: an assignment to `_G.x` always defines or re-assigns the GLOBAL x - a local x in scope is not asked *)
Theorem assign_g_global : forall flv slv x xl st,
  t_frames (assign_g flv slv x xl st) = t_frames st /\
  exists o, t_occs (assign_g flv slv x xl st) = o :: t_occs st /\ o_name o = x /\ o_loc o = xl /\ o_res o = None /\
            (t_globals (assign_g flv slv x xl st) = t_globals st /\ o_kind o = OAssign \/
             t_globals (assign_g flv slv x xl st) = mkG x xl flv slv :: t_globals st /\ o_kind o = ODefineG).
Proof.
  intros flv slv x xl st. unfold assign_g. destruct (find_global_limit (t_globals st) x flv slv xl).
  - split; [reflexivity|]. eexists. repeat split; try reflexivity. left. split; reflexivity.
  - split; [reflexivity|]. eexists. repeat split; try reflexivity. right. split; reflexivity.
Qed.

Theorem use_g_global : forall x xl st,
  t_frames (use_g x xl st) = t_frames st /\ t_globals (use_g x xl st) = t_globals st /\
  exists o, t_occs (use_g x xl st) = o :: t_occs st /\ o_name o = x /\ o_loc o = xl /\ o_res o = None /\ o_kind o = OUse.
Proof. intros. unfold use_g, log_raw. repeat split. eexists. repeat split; reflexivity. Qed.

(* an occurrence without a local resolution never counts as a reference of a local *)
Theorem g_occ_not_local_ref : forall n d o, o_res o = None -> occ_matches_local n d o = false.
Proof. intros n d o H. unfold occ_matches_local. rewrite H. apply andb_false_r. Qed.
