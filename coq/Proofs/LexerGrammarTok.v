(* C03, lexical level, layer 2: names / keywords, operators and punctuation (longest match), numerals (where the
   reference lexer cuts).  Each lemma: on a chunk that starts with a byte of the class, scan_token produces exactly the
   token of Spec/LuaLex.v and raises no lexical error. *)
From Coq Require Import List NArith ZArith Bool Arith Lia ZifyNat ZifyN ZifyBool.
From LH Require Import Base.Bytes Base.Res Model.Codec Model.Lexer Spec.LuaLex.
From LH Require Import Proofs.LexerTotalFuel Proofs.LexerTotalProgress Proofs.LexerGrammarBase.
Import ListNotations.

Local Open Scope N_scope.

Section WithOracle.
  Context {fx : FxEscape}.
  Variable gbk_runes : list N -> Z.

  (* the fall-through of NextTokenStruct: number, identifier / keyword, or illegal token *)
  Definition number_or_rest (s : lst) (c : N) : tok * lst * list lexerr :=
    let start := pos s in
    if (c =? 46) || is_digit c then
      let '(str, s1, es) := scan_number s in (mk TkNumber str start s1, s1, es)
    else if (c =? 95) || is_letter c then
      let '(str, s1) := scan_identifier s in
      (mk (match lookup_kw str keywords with Some k => k | None => TkIdentifier end) str start s1, s1, [])
    else
      let '(lf, str, s1) := scan_illegal gbk_runes s in
      let t := mk IKIllegal str start s1 in
      let s2 := if lf then mkLst (chunk s1) (line s1 + 1)%Z (pos s1) (pos s1) else s1 in
      (t, s2, [LeIllegal]).

  Definition long_or_short (s : lst) (long : bool) : tok * lst * list lexerr :=
    let '(str, s1, es, ov) := if long then scan_long_string s else scan_short_string gbk_runes s in
    (mk TkString str (match ov with Some p => p | None => pos s end) s1, s1, es).

  Lemma scan_token_cons s c rest : chunk s = c :: rest ->
    scan_token gbk_runes s =
    let start := pos s in
    let two (a b : N) := test [a; b] (c :: rest) in
    if c =? 59 then simple TkSepSemi 1 s start
    else if c =? 44 then simple TkSepComma 1 s start
    else if c =? 40 then simple TkSepLparen 1 s start
    else if c =? 41 then simple TkSepRparen 1 s start
    else if c =? 93 then simple TkSepRbrack 1 s start
    else if c =? 123 then simple TkSepLcurly 1 s start
    else if c =? 125 then simple TkSepRcurly 1 s start
    else if c =? 43 then simple TkOpAdd 1 s start
    else if c =? 45 then simple TkOpMinus 1 s start
    else if c =? 42 then simple TkOpMul 1 s start
    else if c =? 94 then simple TkOpPow 1 s start
    else if c =? 37 then simple TkOpMod 1 s start
    else if c =? 38 then simple TkOpBand 1 s start
    else if c =? 124 then simple TkOpBor 1 s start
    else if c =? 35 then simple TkOpNen 1 s start
    else if c =? 58 then if two 58 58 then simple TkSepLabel 2 s start else simple TkSepColon 1 s start
    else if c =? 47 then if two 47 47 then simple TkOpIdiv 2 s start else simple TkOpDiv 1 s start
    else if c =? 126 then if two 126 61 then simple TkOpNe 2 s start else simple TkOpWave 1 s start
    else if c =? 61 then if two 61 61 then simple TkOpEq 2 s start else simple TkOpAssign 1 s start
    else if c =? 60 then
      if two 60 60 then simple TkOpShl 2 s start
      else if two 60 61 then simple TkOpLe 2 s start else simple TkOpLt 1 s start
    else if c =? 62 then
      if two 62 62 then simple TkOpShr 2 s start
      else if two 62 61 then simple TkOpGe 2 s start else simple TkOpGt 1 s start
    else if c =? 46 then
      if test [46; 46; 46] (c :: rest) then simple TkVararg 3 s start
      else if two 46 46 then simple TkOpConcat 2 s start
      else match rest with
           | [] => simple TkSepDot 1 s start
           | c1 :: _ => if negb (is_digit c1) then simple TkSepDot 1 s start else number_or_rest s c
           end
    else if c =? 91 then
      if two 91 91 || two 91 61 then long_or_short s true else simple TkSepLbrack 1 s start
    else if (c =? 39) || (c =? 34) then long_or_short s false
    else number_or_rest s c.
  Proof. intros Hch. unfold scan_token. rewrite Hch. reflexivity. Qed.

  (* ---------------------------------------------------------------- operators *)
  Definition op_start (c : N) : bool :=
    existsb (N.eqb c) [59; 44; 40; 41; 93; 123; 125; 43; 45; 42; 94; 37; 38; 124; 35; 58; 47; 126; 61; 60; 62; 46; 91].

  Lemma lx_operators_eq : lx_operators =
    [ ([46; 46; 46], TkVararg);
      ([46; 46], TkOpConcat); ([58; 58], TkSepLabel); ([47; 47], TkOpIdiv); ([126; 61], TkOpNe); ([61; 61], TkOpEq);
      ([60; 60], TkOpShl); ([60; 61], TkOpLe); ([62; 62], TkOpShr); ([62; 61], TkOpGe);
      ([59], TkSepSemi); ([44], TkSepComma); ([46], TkSepDot); ([58], TkSepColon);
      ([40], TkSepLparen); ([41], TkSepRparen); ([91], TkSepLbrack); ([93], TkSepRbrack);
      ([123], TkSepLcurly); ([125], TkSepRcurly);
      ([61], TkOpAssign); ([45], TkOpMinus); ([126], TkOpWave); ([43], TkOpAdd); ([42], TkOpMul);
      ([47], TkOpDiv); ([94], TkOpPow); ([37], TkOpMod); ([38], TkOpBand); ([124], TkOpBor);
      ([60], TkOpLt); ([62], TkOpGt); ([35], TkOpNen) ].
  Proof. reflexivity. Qed.

  Ltac split_tests :=
    repeat match goal with
           | |- context [(?x =? ?K)] => is_var x; let E := fresh "E" in destruct (x =? K) eqn:E; [apply N.eqb_eq in E; subst x|]
           end.
  Ltac op_done := cbn; eexists _, _; split; reflexivity.
  Ltac op_leaf rest :=
    cbv iota; unfold op_match; rewrite lx_operators_eq;
    first [ solve [op_done]
          | destruct rest as [|?c1 rest];
            [ solve [op_done]
            | cbn [find startsb fst test N.eqb Pos.eqb andb orb]; split_tests; solve [op_done] ] ].

  Lemma scan_token_op s c rest :
    chunk s = c :: rest -> op_start c = true -> not_an_operator (c :: rest) = false ->
    exists w k, op_match (c :: rest) = Some (w, k) /\ scan_token gbk_runes s = simple k (length w) s (pos s).
  Proof.
    intros Hch Hop Hno. rewrite (scan_token_cons s c rest Hch). cbv zeta.
    unfold op_start in Hop. cbn [existsb] in Hop.
    destruct (c =? 59) eqn:E1; [apply N.eqb_eq in E1; subst c; op_leaf rest|].
    destruct (c =? 44) eqn:E2; [apply N.eqb_eq in E2; subst c; op_leaf rest|].
    destruct (c =? 40) eqn:E3; [apply N.eqb_eq in E3; subst c; op_leaf rest|].
    destruct (c =? 41) eqn:E4; [apply N.eqb_eq in E4; subst c; op_leaf rest|].
    destruct (c =? 93) eqn:E5; [apply N.eqb_eq in E5; subst c; op_leaf rest|].
    destruct (c =? 123) eqn:E6; [apply N.eqb_eq in E6; subst c; op_leaf rest|].
    destruct (c =? 125) eqn:E7; [apply N.eqb_eq in E7; subst c; op_leaf rest|].
    destruct (c =? 43) eqn:E8; [apply N.eqb_eq in E8; subst c; op_leaf rest|].
    destruct (c =? 45) eqn:E9; [apply N.eqb_eq in E9; subst c; op_leaf rest|].
    destruct (c =? 42) eqn:E10; [apply N.eqb_eq in E10; subst c; op_leaf rest|].
    destruct (c =? 94) eqn:E11; [apply N.eqb_eq in E11; subst c; op_leaf rest|].
    destruct (c =? 37) eqn:E12; [apply N.eqb_eq in E12; subst c; op_leaf rest|].
    destruct (c =? 38) eqn:E13; [apply N.eqb_eq in E13; subst c; op_leaf rest|].
    destruct (c =? 124) eqn:E14; [apply N.eqb_eq in E14; subst c; op_leaf rest|].
    destruct (c =? 35) eqn:E15; [apply N.eqb_eq in E15; subst c; op_leaf rest|].
    destruct (c =? 58) eqn:E16; [apply N.eqb_eq in E16; subst c; op_leaf rest|].
    destruct (c =? 47) eqn:E17; [apply N.eqb_eq in E17; subst c; op_leaf rest|].
    destruct (c =? 126) eqn:E18; [apply N.eqb_eq in E18; subst c; op_leaf rest|].
    destruct (c =? 61) eqn:E19; [apply N.eqb_eq in E19; subst c; op_leaf rest|].
    destruct (c =? 60) eqn:E20; [apply N.eqb_eq in E20; subst c; op_leaf rest|].
    destruct (c =? 62) eqn:E21; [apply N.eqb_eq in E21; subst c; op_leaf rest|].
    destruct (c =? 46) eqn:E22.
    { apply N.eqb_eq in E22; subst c. cbv iota. unfold op_match. rewrite lx_operators_eq.
      destruct rest as [|c1 rest]; [op_done|].
      cbn [not_an_operator N.eqb Pos.eqb andb orb] in Hno.
      assert (Hd : is_digit c1 = false) by (rewrite cls_digit; lia). rewrite Hd. cbn [negb].
      cbn [find startsb fst test N.eqb Pos.eqb andb orb].
      destruct (c1 =? 46) eqn:F1; [apply N.eqb_eq in F1; subst c1|op_done].
      destruct rest as [|c2 rest]; [op_done|].
      cbn [find startsb fst test N.eqb Pos.eqb andb orb].
      destruct (c2 =? 46) eqn:F2; [apply N.eqb_eq in F2; subst c2|]; op_done. }
    destruct (c =? 91) eqn:E23; [|discriminate].
    apply N.eqb_eq in E23; subst c. cbv iota. unfold op_match. rewrite lx_operators_eq.
    destruct rest as [|c1 rest]; [op_done|].
    cbn [not_an_operator N.eqb Pos.eqb andb orb] in Hno.
    cbn [test N.eqb Pos.eqb andb orb].
    assert (H1 : c1 =? 91 = false) by lia. assert (H2 : c1 =? 61 = false) by lia. rewrite H1, H2. op_done.
  Qed.

  (* ---------------------------------------------------------------- names and keywords *)
  Lemma lookup_kw_find w : forall l,
    lookup_kw w l = match find (fun p => beq_bytes w (fst p)) l with Some p => Some (snd p) | None => None end.
  Proof.
    induction l as [|[w' k] l IH]; cbn [lookup_kw find fst snd]; [reflexivity|].
    destruct (beq_bytes w w'); [reflexivity|exact IH].
  Qed.

  Lemma name_kind_model w : match lookup_kw w keywords with Some k => k | None => TkIdentifier end = name_kind w.
  Proof.
    rewrite lookup_kw_find. unfold name_kind. change lx_keywords with keywords.
    destruct (find _ keywords); reflexivity.
  Qed.

  Lemma ident_len_app body r :
    forallb lx_alnum body = true -> hd_is lx_alnum r = false -> ident_len (body ++ r) = length body.
  Proof.
    intros Hb Hr. induction body as [|c t IH]; cbn [app ident_len length].
    - destruct r as [|x r]; [reflexivity|]. cbn [ident_len hd_is] in *. rewrite cls_alnum, Hr. reflexivity.
    - cbn [forallb] in Hb. apply andb_true_iff in Hb as [Hc Ht]. rewrite cls_alnum, Hc, (IH Ht). reflexivity.
  Qed.

  Lemma ident_len_spec l :
    forallb lx_alnum (firstn (ident_len l) l) = true /\ hd_is lx_alnum (skipn (ident_len l) l) = false.
  Proof.
    induction l as [|c t IH]; cbn [ident_len]; [split; reflexivity|]. rewrite cls_alnum.
    destruct (lx_alnum c) eqn:E.
    - cbn [firstn skipn forallb]. rewrite E. exact IH.
    - cbn [firstn skipn forallb hd_is]. split; [reflexivity|exact E].
  Qed.

  (* a chunk that starts with a letter or an underscore *)
  Lemma alpha_not_special c : lx_alpha c = true ->
    op_start c = false /\ (c =? 39) || (c =? 34) = false /\ (c =? 46) || is_digit c = false /\
    (c =? 95) || is_letter c = true.
  Proof. unfold lx_alpha, op_start, is_digit, is_letter. cbn [existsb]. lia. Qed.

  Lemma op_start_chain c : op_start c = false ->
    (c =? 59) = false /\ (c =? 44) = false /\ (c =? 40) = false /\ (c =? 41) = false /\ (c =? 93) = false /\
    (c =? 123) = false /\ (c =? 125) = false /\ (c =? 43) = false /\ (c =? 45) = false /\ (c =? 42) = false /\
    (c =? 94) = false /\ (c =? 37) = false /\ (c =? 38) = false /\ (c =? 124) = false /\ (c =? 35) = false /\
    (c =? 58) = false /\ (c =? 47) = false /\ (c =? 126) = false /\ (c =? 61) = false /\ (c =? 60) = false /\
    (c =? 62) = false /\ (c =? 46) = false /\ (c =? 91) = false.
  Proof. unfold op_start. cbn [existsb]. lia. Qed.

  (* no operator byte, no quote: the fall-through *)
  Lemma scan_token_rest s c rest :
    chunk s = c :: rest -> op_start c = false -> (c =? 39) || (c =? 34) = false ->
    scan_token gbk_runes s = number_or_rest s c.
  Proof.
    intros Hch Hop Hq. rewrite (scan_token_cons s c rest Hch). cbv zeta.
    destruct (op_start_chain c Hop) as
      (H1&H2&H3&H4&H5&H6&H7&H8&H9&H10&H11&H12&H13&H14&H15&H16&H17&H18&H19&H20&H21&H22&H23).
    rewrite H1, H2, H3, H4, H5, H6, H7, H8, H9, H10, H11, H12, H13, H14, H15, H16, H17, H18, H19, H20, H21, H22, H23, Hq.
    reflexivity.
  Qed.

  Lemma scan_token_name s c rest :
    chunk s = c :: rest -> lx_alpha c = true ->
    exists t s', scan_token gbk_runes s = (t, s', []) /\
      tk t = name_kind (c :: firstn (ident_len rest) rest) /\ tstr t = c :: firstn (ident_len rest) rest /\
      chunk s' = skipn (ident_len rest) rest.
  Proof.
    intros Hch Ha. destruct (alpha_not_special c Ha) as (Hop & Hq & Hn & Hl).
    rewrite (scan_token_rest s c rest Hch Hop Hq). unfold number_or_rest. cbv zeta. rewrite Hn, Hl.
    unfold scan_identifier. rewrite Hch. cbn [tl]. eexists _, _. split; [reflexivity|].
    cbn [mk tk tstr chunk adv]. rewrite ?Hch. cbn [firstn skipn]. rewrite name_kind_model. repeat split; reflexivity.
  Qed.

  (* ---------------------------------------------------------------- numerals *)
  Lemma numch_model c :
    is_digit c || in_rng 97 102 c || in_rng 65 70 c || has_char c [117; 85; 108; 76] || (c =? 46) = lx_numch c.
  Proof. unfold lx_numch, lx_xdigit, lx_digit, is_digit, in_rng, has_char. cbn [existsb]. lia. Qed.

  Lemma expo_dec_model c : has_char c [69; 101] = expo_dec c.
  Proof. unfold has_char, expo_dec. cbn [existsb]. lia. Qed.
  Lemma expo_hex_model c : has_char c [80; 112] = expo_hex c.
  Proof. unfold has_char, expo_hex. cbn [existsb]. lia. Qed.
  Lemma sign_model c : has_char c [45; 43] = lx_sign c.
  Proof. unfold has_char, lx_sign. cbn [existsb]. lia. Qed.

  Lemma num_tail_le expo : forall l, (num_tail expo l <= length l)%nat.
  Proof.
    fix IH 1. intros [|c t]; cbn [num_tail length]; [lia|].
    destruct (expo c).
    - destruct t as [|s t']; cbn [length]; [lia|]. destruct (lx_sign s).
      + destruct t' as [|d t'']; cbn [length]; [lia|]. destruct (lx_numch d); [|lia]. specialize (IH t''). lia.
      + destruct (lx_numch s); [|lia]. specialize (IH t'). lia.
    - destruct (lx_numch c); [|lia]. specialize (IH t). lia.
  Qed.

  Lemma scan_number_loop_spec expoL expo (Hex : forall c, has_char c expoL = expo c) : forall f ch i,
    (length ch - i < f)%nat -> scan_number_loop f ch i expoL = (i + num_tail expo (skipn i ch))%nat.
  Proof.
    induction f as [|f IH]; intros ch i Hf; [lia|]. cbn [scan_number_loop].
    rewrite (nth_byte_skipn ch i). destruct (skipn i ch) as [|c2 t] eqn:E2; cbn [hd_error num_tail]; [lia|].
    assert (Hlen : (S (length t) = length ch - i)%nat).
    { rewrite <- skipn_length, E2. reflexivity. }
    pose proof (skipn_S_cons _ _ _ _ E2) as E3.
    rewrite Hex. destruct (expo c2) eqn:Ee.
    - rewrite (nth_byte_skipn ch (S i)), E3. destruct t as [|c3 t']; cbn [hd_error].
      + rewrite (nth_byte_skipn ch (S i)), E3. cbn [hd_error]. lia.
      + pose proof (skipn_S_cons _ _ _ _ E3) as E4. cbn [length] in Hlen.
        rewrite sign_model. destruct (lx_sign c3) eqn:Es.
        * rewrite (nth_byte_skipn ch (S (S i))), E4. destruct t' as [|c4 t'']; cbn [hd_error]; [lia|].
          rewrite numch_model. destruct (lx_numch c4); [|lia].
          pose proof (skipn_S_cons _ _ _ _ E4) as E5. cbn [length] in Hlen.
          rewrite IH by lia. rewrite E5. lia.
        * rewrite (nth_byte_skipn ch (S i)), E3. cbn [hd_error]. rewrite numch_model. destruct (lx_numch c3); [|lia].
          rewrite IH by lia. rewrite E4. lia.
    - rewrite (nth_byte_skipn ch i), E2. cbn [hd_error]. rewrite numch_model. destruct (lx_numch c2); [|lia].
      rewrite IH by lia. rewrite E3. lia.
  Qed.

  Lemma num_len_le bs : (num_len bs <= length bs)%nat.
  Proof.
    unfold num_len. destruct bs as [|c t]; cbn [length]; [lia|].
    assert (A : forall (d : N) (t : list N), (match t with
               | x :: t' => if ((d =? 48) && ((x =? 120) || (x =? 88)))%N then S (S (num_tail expo_hex t')) else S (num_tail expo_dec t)
               | [] => 1%nat end <= S (length t))%nat).
    { intros d [|x t']; cbn [length]; [lia|]. destruct (_ && _).
      - pose proof (num_tail_le expo_hex t'). lia.
      - pose proof (num_tail_le expo_dec (x :: t')). cbn [length] in *. lia. }
    destruct (c =? 46).
    - destruct t as [|d t']; cbn [length]; [lia|]. specialize (A d t'). lia.
    - apply A.
  Qed.

  Lemma scan_number_spec s : num_starts (chunk s) = true ->
    scan_number s = (firstn (num_len (chunk s)) (chunk s), adv s (num_len (chunk s)), []).
  Proof.
    intros Hst. unfold scan_number. destruct (chunk s) as [|b0 t] eqn:Hch; [discriminate|].
    cbn [num_starts] in Hst.
    assert (Loop : forall d i x t', skipn i (b0 :: t) = x :: t' -> (1 <= i)%nat ->
       (let '(expo, i1) := if (d =? 48) && has_char x [120; 88] then ([80; 112], S i) else ([69; 101], i) in
        scan_number_loop (S (length (b0 :: t))) (b0 :: t) i1 expo) =
       (i + (if ((d =? 48) && ((x =? 120) || (x =? 88)))%N then S (num_tail expo_hex t') else num_tail expo_dec (x :: t')))%nat).
    { intros d i x t' Hsk Hi.
      assert (Hx : has_char x [120; 88] = (x =? 120) || (x =? 88)) by (unfold has_char; cbn [existsb]; lia).
      rewrite Hx. destruct ((d =? 48) && ((x =? 120) || (x =? 88))).
      - rewrite (scan_number_loop_spec _ expo_hex expo_hex_model) by lia.
        rewrite (skipn_S_cons _ _ _ _ Hsk). lia.
      - rewrite (scan_number_loop_spec _ expo_dec expo_dec_model) by lia. rewrite Hsk. reflexivity. }
    unfold num_len. destruct (b0 =? 46) eqn:E46.
    - destruct t as [|d t']; [cbn [hd_is] in Hst; rewrite andb_false_r, orb_false_r in Hst; unfold lx_digit in Hst; lia|].
      change (nth_byte (b0 :: d :: t') 1) with (Some d). cbv iota.
      rewrite nth_byte_skipn. cbn [skipn hd_error].
      destruct t' as [|x t'']; cbn [hd_error]; [reflexivity|].
      rewrite (Loop d 2%nat x t'' eq_refl ltac:(lia)).
      destruct ((d =? 48) && ((x =? 120) || (x =? 88))); reflexivity.
    - cbv iota. rewrite nth_byte_skipn. cbn [skipn hd_error].
      destruct t as [|x t']; cbn [hd_error]; [reflexivity|].
      rewrite (Loop b0 1%nat x t' eq_refl ltac:(lia)).
      destruct ((b0 =? 48) && ((x =? 120) || (x =? 88))); reflexivity.
  Qed.

  Lemma scan_token_number s c rest :
    chunk s = c :: rest -> num_starts (c :: rest) = true ->
    exists t s', scan_token gbk_runes s = (t, s', []) /\
      tk t = TkNumber /\ tstr t = firstn (num_len (c :: rest)) (c :: rest) /\
      chunk s' = skipn (num_len (c :: rest)) (c :: rest).
  Proof.
    intros Hch Hst.
    assert (Hnum : number_or_rest s c =
                   (mk TkNumber (firstn (num_len (c :: rest)) (c :: rest)) (pos s) (adv s (num_len (c :: rest))),
                    adv s (num_len (c :: rest)), [])).
    { unfold number_or_rest. cbv zeta.
      assert (Hd : (c =? 46) || is_digit c = true) by (cbn [num_starts] in Hst; rewrite cls_digit; lia).
      rewrite Hd. rewrite scan_number_spec by (rewrite Hch; exact Hst). rewrite Hch. reflexivity. }
    assert (Hres : scan_token gbk_runes s = number_or_rest s c).
    { destruct (c =? 46) eqn:E46.
      - apply N.eqb_eq in E46. subst c. rewrite (scan_token_cons s 46 rest Hch). cbv zeta.
        cbn [N.eqb Pos.eqb]. cbv iota. cbn [num_starts N.eqb Pos.eqb andb orb lx_digit] in Hst.
        destruct rest as [|c1 rest']; [cbn in Hst; discriminate|]. cbn [hd_is] in Hst.
        cbn [test N.eqb Pos.eqb andb].
        assert (H1 : c1 =? 46 = false) by (unfold lx_digit in Hst; lia). rewrite H1. cbn [andb]. cbv iota.
        assert (Hd : is_digit c1 = true) by (rewrite cls_digit; unfold lx_digit in *; lia). rewrite Hd. reflexivity.
      - apply (scan_token_rest s c rest Hch).
        + cbn [num_starts] in Hst. rewrite E46 in Hst. cbn [andb orb] in Hst. rewrite orb_false_r in Hst.
          unfold op_start, lx_digit in *. cbn [existsb]. lia.
        + cbn [num_starts] in Hst. rewrite E46 in Hst. cbn [andb] in Hst. rewrite orb_false_r in Hst.
          unfold lx_digit in Hst. lia. }
    rewrite Hres, Hnum. eexists _, _. split; [reflexivity|]. cbn [mk tk tstr chunk adv]. rewrite Hch.
    repeat split; reflexivity.
  Qed.

  (* ---------------------------------------------------------------- illegal bytes *)
  Lemma scan_token_illegal s c rest :
    chunk s = c :: rest -> op_start c = false -> (c =? 39) || (c =? 34) = false ->
    lx_alpha c = false -> lx_digit c = false ->
    exists t s', scan_token gbk_runes s = (t, s', [LeIllegal]).
  Proof.
    intros Hch Hop Hq Ha Hd. rewrite (scan_token_rest s c rest Hch Hop Hq). unfold number_or_rest. cbv zeta.
    assert (H1 : (c =? 46) || is_digit c = false).
    { rewrite cls_digit, Hd. destruct (op_start_chain c Hop) as (_&_&_&_&_&_&_&_&_&_&_&_&_&_&_&_&_&_&_&_&_&H&_).
      rewrite H. reflexivity. }
    assert (H2 : (c =? 95) || is_letter c = false) by (rewrite cls_alpha; exact Ha).
    rewrite H1, H2. destruct (scan_illegal gbk_runes s) as [[lf str] s1]. eexists _, _. reflexivity.
  Qed.
End WithOracle.
