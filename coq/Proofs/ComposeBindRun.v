(* Binder family, composition, part 3: whole REQUESTS over file bytes (the request models run_define / run_refs /
   run_complete of Proofs/ResolveRun.v), for a workspace of any number of files.
   Boolean guards on the queried file f of the workspace, from the weakest to the strongest:
     occ_request_guard W files f o = the file parses, its chunk P satisfies bind_guard W P (fragment, Laid2, no_repoint:
       the guard of C05), the occurrence o under the cursor satisfies occ_guard (no class tag on it, no B3 / B4 tag on
       its name) and stands in the text at its Loc (ident_at: Proofs/ComposeBindText.v);
     var_request_guard W files f d = the same for every occurrence the binder gives the declaration d;
     request_guard W files f = the same for every occurrence of the file.
   Proved, for every cursor on an occurrence that Lua binds to a LOCAL declaration:
     - run_define answers exactly that declaration, run_hover says `local` (per-cursor guard);
     - run_refs (references, rename, highlight) answers, as a set, the binder's occurrences of the variable - the
       statement of C06_refs_full / C11_rename_full restricted by the per-cursor guard;
     - c12_clause1 and c12_clause2 hold (the statement of C12_full, clauses 1-2, restricted by the per-variable guard);
     - run_complete offers every visible local with the typed prefix (C14_complete_locals_full restricted by the
       position guards; no text guard needed). *)
From Coq Require Import List NArith ZArith Bool Lia.
From LH Require Import Base.Bytes Base.Res Model.Lexer Model.Ast Model.Scope Model.Globals Model.Resolve Spec.LuaScope
  Proofs.ResolveRun Proofs.ResolveBasics Proofs.ResolveWitness Proofs.ResolveFull
  Proofs.PositionBindBase Proofs.PositionBindFinal Proofs.PositionBindWitness
  Proofs.TraverseBindRefs Proofs.ComposeBind Proofs.ComposeBindText.
Import ListNotations.
Local Open Scope Z_scope.

(* ------------------------------------------------------------------ the chunk of a file of the workspace *)
Definition file_chunk (files : list (list N * list N)) (f : list N) : option block :=
  match parse_all files with
  | Some ps => match find (fun x => beq_bytes (fst x) f) ps with Some (_, P) => Some P | None => None end
  | None => None
  end.

Lemma parse_all_find f : forall files ps, parse_all files = Some ps ->
  match find (fun x => beq_bytes (fst x) f) ps with
  | Some (n, P) => exists bs, find (fun x => beq_bytes (fst x) f) files = Some (n, bs) /\ parse_ok bs = Some P
  | None => find (fun x => beq_bytes (fst x) f) files = None
  end.
Proof.
  induction files as [|[n bs] r IH]; intros ps H; cbn [parse_all] in H.
  - injection H as <-. reflexivity.
  - destruct (parse_ok bs) as [b|] eqn:Eb; [|discriminate].
    destruct (parse_all r) as [r'|] eqn:Er; [|discriminate]. injection H as <-.
    cbn [find fst]. destruct (beq_bytes n f); [exists bs; split; [reflexivity|exact Eb]|].
    exact (IH r' eq_refl).
Qed.

Lemma find_map_snd {A B} (g : A -> B) (f : list N) (l : list (list N * A)) :
  find (fun x => beq_bytes (fst x) f) (map (fun x => (fst x, g (snd x))) l) =
  option_map (fun x => (fst x, g (snd x))) (find (fun x => beq_bytes (fst x) f) l).
Proof.
  induction l as [|[n a] r IH]; [reflexivity|]. cbn [map find fst snd]. destruct (beq_bytes n f); [reflexivity|exact IH].
Qed.

Lemma chunk_facts files f P : file_chunk files f = Some P ->
  exists ps, parse_all files = Some ps /\ ws_file (mws_of ps) f = Some (analyse P) /\
             file_occs (sws_of ps) f = bind_file P /\ parse_ok (bytes_of files f) = Some P.
Proof.
  unfold file_chunk. destruct (parse_all files) as [ps|] eqn:Hp; [|discriminate].
  destruct (find (fun x => beq_bytes (fst x) f) ps) as [[n P']|] eqn:Hf; [|discriminate]. intros H. injection H as ->.
  exists ps. split; [reflexivity|].
  pose proof (parse_all_find f files ps Hp) as Hb. rewrite Hf in Hb. destruct Hb as (bs & Hfb & Hpo).
  split; [|split].
  - unfold ws_file, mws_of. rewrite (find_map_snd analyse), Hf. reflexivity.
  - unfold file_occs, sws_of. rewrite (find_map_snd bind_file), Hf. reflexivity.
  - unfold bytes_of. rewrite Hfb. exact Hpo.
Qed.

(* ------------------------------------------------------------------ the guards *)
Definition text_guard (bs : list N) (P : block) : bool :=
  forallb (fun o => ident_at bs (s_loc o) (s_name o)) (bind_file P).

Definition request_guard (W : Z) (files : list (list N * list N)) (f : list N) : bool :=
  match file_chunk files f with
  | Some P => bind_guard W P && all_occ_guard P && text_guard (bytes_of files f) P
  | None => false
  end.

(* the same per VARIABLE (declaration Loc d of file f): only the occurrences the binder gives d must be untagged and
   stand in the text; the rest of the file may contain tagged occurrences *)
Definition var_text (bs : list N) (P : block) (d : loc) : bool :=
  forallb (fun s => negb (binding_eqb (s_bind s) (BLocal d)) || ident_at bs (s_loc s) (s_name s)) (bind_file P).

Definition var_request_guard (W : Z) (files : list (list N * list N)) (f : list N) (d : loc) : bool :=
  match file_chunk files f with
  | Some P => bind_guard W P && var_guard P d && var_text (bytes_of files f) P d
  | None => false
  end.

Definition complete_guard (W : Z) (files : list (list N * list N)) (f : list N) : bool :=
  match file_chunk files f with
  | Some P => core_guards_b W P
  | None => false
  end.

(* per CURSOR: only the occurrence under the cursor is constrained (enough for definition, references, rename,
   highlight and hover at that cursor; the C12 clauses re-ask at the other occurrences of the variable) *)
Definition occ_request_guard (W : Z) (files : list (list N * list N)) (f : list N) (o : socc) : bool :=
  match file_chunk files f with
  | Some P => bind_guard W P && occ_guard P o && ident_at (bytes_of files f) (s_loc o) (s_name o)
  | None => false
  end.

Lemma occ_request_guard_parts W files f o : occ_request_guard W files f o = true ->
  exists P, file_chunk files f = Some P /\ bind_guard W P = true /\ occ_guard P o = true /\
            ident_at (bytes_of files f) (s_loc o) (s_name o) = true.
Proof.
  unfold occ_request_guard. destruct (file_chunk files f) as [P|]; [|discriminate]. intros H.
  apply andb_true_iff in H. destruct H as [H H3]. apply andb_true_iff in H. destruct H as [H1 H2].
  exists P. repeat split; assumption.
Qed.

Lemma var_request_guard_parts W files f d : var_request_guard W files f d = true ->
  exists P, file_chunk files f = Some P /\ bind_guard W P = true /\ var_guard P d = true /\
            var_text (bytes_of files f) P d = true.
Proof.
  unfold var_request_guard. destruct (file_chunk files f) as [P|]; [|discriminate]. intros H.
  apply andb_true_iff in H. destruct H as [H H3]. apply andb_true_iff in H. destruct H as [H1 H2].
  exists P. repeat split; assumption.
Qed.

Lemma request_guard_var W files f d : request_guard W files f = true -> var_request_guard W files f d = true.
Proof.
  unfold request_guard, var_request_guard. destruct (file_chunk files f) as [P|]; [|discriminate]. intros H.
  apply andb_true_iff in H. destruct H as [H H3]. apply andb_true_iff in H. destruct H as [H1 H2].
  rewrite H1, (all_occ_guard_var P d H2). cbn [andb].
  unfold text_guard in H3. unfold var_text. rewrite forallb_forall in *. intros s Hs. rewrite (H3 s Hs). apply orb_true_r.
Qed.

Lemma ident_at_line bs l n : ident_at bs l n = true -> zl (line0_of l) = sl l /\ Z.of_N (col_of l) = sc l /\ sc l <= ec l.
Proof.
  unfold ident_at. intros H.
  apply andb_true_iff in H. destruct H as [H _]. apply andb_true_iff in H. destruct H as [H _].
  apply andb_true_iff in H. destruct H as [H Hec]. apply andb_true_iff in H. destruct H as [H Hsc].
  apply andb_true_iff in H. destruct H as [Hsl _].
  apply Z.leb_le in Hsl, Hsc. apply Z.eqb_eq in Hec. unfold zl, line0_of, col_of. lia.
Qed.

(* the occurrence under the cursor according to the reference binder *)
Lemma spec_occ_facts files f P line col o :
  file_chunk files f = Some P -> spec_occ files f line col = Some o ->
  In o (bind_file P) /\ sl (s_loc o) = zl line /\ sc (s_loc o) <= Z.of_N col <= ec (s_loc o).
Proof.
  intros Hch Ho. destruct (chunk_facts files f P Hch) as (ps & Hp & _ & Hfo & _).
  unfold spec_occ in Ho. rewrite Hp, Hfo in Ho. unfold occ_at in Ho. apply find_some in Ho. destruct Ho as [Hin Hc].
  unfold occ_covers in Hc.
  apply andb_true_iff in Hc. destruct Hc as [Hc H4]. apply andb_true_iff in Hc. destruct Hc as [Hc H3].
  apply andb_true_iff in Hc. destruct Hc as [H1 H2].
  apply Z.eqb_eq in H1. apply Z.leb_le in H3, H4. repeat split; assumption.
Qed.

Lemma zl_line0 l line : sl l = zl line -> line0_of l = line.
Proof. unfold zl, line0_of. intros H. lia. Qed.

(* ------------------------------------------------------------------ set equality of answers *)
Lemma floc_eqb_refl x : floc_eqb x x = true.
Proof. unfold floc_eqb. rewrite beq_bytes_refl, loc_eqb_refl. reflexivity. Qed.

Lemma same_locs_of_sets (a b : list floc) :
  NoDup a -> NoDup b -> (forall x, In x a <-> In x b) -> same_locs a b = true.
Proof.
  unfold floc in *. intros Ha Hb Hiff. unfold same_locs, flocs_eqb.
  assert (Hlen : length a = length b).
  { apply Nat.le_antisymm; apply NoDup_incl_length; auto; intros x Hx; apply Hiff; exact Hx. }
  rewrite Hlen, Nat.eqb_refl. cbn [andb]. apply andb_true_iff. split; apply forallb_forall; intros x Hx;
    apply existsb_exists; exists x; (split; [apply Hiff; exact Hx|apply floc_eqb_refl]).
Qed.

Lemma spec_refs_local_of (w : sws) f o d :
  s_bind o = BLocal d ->
  spec_refs w f o = map (fun o' => (f, s_loc o')) (filter (fun o' => binding_eqb (s_bind o') (BLocal d)) (file_occs w f)).
Proof. intros Hb. unfold spec_refs, same_var. rewrite Hb. reflexivity. Qed.

Lemma file_occs_single f os : file_occs [(f, os)] f = os.
Proof. unfold file_occs. cbn [find fst]. rewrite beq_bytes_refl. reflexivity. Qed.

(* ------------------------------------------------------------------ one request at a cursor on an occurrence o:
   guards on the chunk and on o alone (no class tag on o, no B3 / B4 tag on its name, o stands in the text) *)
Section OccRequests.
  Variable W : Z.
  Variable files : list (list N * list N).
  Variable f : list N.
  Variable P : block.
  Hypothesis Hch : file_chunk files f = Some P.
  Hypothesis Hbg : bind_guard W P = true.
  Variable o : socc.
  Variable d : loc.
  Hypothesis Hin : In o (bind_file P).
  Hypothesis Hocc : occ_guard P o = true.
  Hypothesis Htxt : ident_at (bytes_of files f) (s_loc o) (s_name o) = true.
  Hypothesis Hb : s_bind o = BLocal d.

  (* textDocument/definition *)
  Theorem run_define_occ (col : N) :
    sc (s_loc o) <= Z.of_N col <= ec (s_loc o) -> run_define files f (line0_of (s_loc o)) col = ALocs [(f, d)].
  Proof.
    intros Hcol. destruct (chunk_facts files f P Hch) as (ps & Hp & Hw & _ & _).
    unfold run_define. rewrite Hp. cbv zeta. rewrite Hw.
    rewrite (request_name_at _ _ _ col Htxt Hcol).
    destruct (ident_at_line _ _ _ Htxt) as (Hl & _ & _). rewrite Hl.
    rewrite (define_is_binder W P (mws_of ps) f o d (Z.of_N col) Hbg Hin (proj1 (occ_guard_parts P o Hocc)) Hb Hcol).
    reflexivity.
  Qed.

  (* textDocument/references, textDocument/rename, textDocument/documentHighlight *)
  Theorem run_refs_occ mode (col : N) :
    sc (s_loc o) <= Z.of_N col <= ec (s_loc o) ->
    exists l, run_refs files mode f (line0_of (s_loc o)) col = ALocs l /\
              (forall x, In x l <-> In x (spec_refs (spec_ws files) f o)) /\
              same_locs l (spec_refs (spec_ws files) f o) = true.
  Proof.
    intros Hcol. destruct (chunk_facts files f P Hch) as (ps & Hp & Hw & Hfo & _).
    unfold run_refs. rewrite Hp. cbv zeta. rewrite Hw.
    rewrite (request_name_at _ _ _ col Htxt Hcol).
    destruct (ident_at_line _ _ _ Htxt) as (Hl & _ & _). rewrite Hl.
    destruct (refs_local_closed mode W P (mws_of ps) f o d (Z.of_N col) Hbg Hin Hocc Hb Hcol)
      as (l & Hrl & Hiff & Hnd1 & Hnd2).
    rewrite Hrl. exists l. split; [reflexivity|].
    assert (E : spec_refs (spec_ws files) f o = spec_refs [(f, bind_file P)] f o).
    { rewrite (spec_refs_local_of _ f o d Hb), (spec_refs_local_of _ f o d Hb). unfold spec_ws. rewrite Hp, Hfo, file_occs_single.
      reflexivity. }
    rewrite E. split; [exact Hiff|]. exact (same_locs_of_sets _ _ Hnd1 Hnd2 Hiff).
  Qed.

  (* textDocument/hover: the label says `local` (also at the very end of the document: hover has no doc-end cut) *)
  Theorem run_hover_occ (col : N) :
    sc (s_loc o) <= Z.of_N col <= ec (s_loc o) -> run_hover files f (line0_of (s_loc o)) col = HLocal.
  Proof.
    intros Hcol. destruct (chunk_facts files f P Hch) as (ps & Hp & Hw & _ & _).
    unfold run_hover. rewrite Hp. cbv zeta. rewrite Hw.
    rewrite (request_name_at _ _ _ col Htxt Hcol).
    destruct (ident_at_line _ _ _ Htxt) as (Hl & _ & _). rewrite Hl.
    apply hover_local_iff.
    destruct (position_is_binder W P (mws_of ps) f o d (Z.of_N col) Hbg Hin (proj1 (occ_guard_parts P o Hocc)) Hb Hcol)
      as (v & Hv & _).
    exists v. exact Hv.
  Qed.
End OccRequests.

(* ------------------------------------------------------------------ the requests about one variable (declaration d) *)
Section Requests.
  Variable W : Z.
  Variable files : list (list N * list N).
  Variable f : list N.
  Variable P : block.
  Hypothesis Hch : file_chunk files f = Some P.
  Hypothesis Hbg : bind_guard W P = true.
  Variable d : loc.
  Hypothesis Hog : var_guard P d = true.
  Hypothesis Htg : var_text (bytes_of files f) P d = true.

  Lemma occ_text o : In o (bind_file P) -> s_bind o = BLocal d -> ident_at (bytes_of files f) (s_loc o) (s_name o) = true.
  Proof.
    intros Hin Hb. unfold var_text in Htg. rewrite forallb_forall in Htg. specialize (Htg o Hin).
    rewrite (proj2 (binding_eqb_local _ _) Hb) in Htg. exact Htg.
  Qed.

  Lemma occ_ok o : In o (bind_file P) -> s_bind o = BLocal d -> occ_guard P o = true.
  Proof. intros Hin Hb. exact (var_guard_occ P d o Hog Hin Hb). Qed.

  Lemma run_define_local o (col : N) :
    In o (bind_file P) -> s_bind o = BLocal d -> sc (s_loc o) <= Z.of_N col <= ec (s_loc o) ->
    run_define files f (line0_of (s_loc o)) col = ALocs [(f, d)].
  Proof.
    intros Hin Hb. exact (run_define_occ W files f P Hch Hbg o d Hin (occ_ok o Hin Hb) (occ_text o Hin Hb) Hb col).
  Qed.

  Lemma run_refs_local mode o (col : N) :
    In o (bind_file P) -> s_bind o = BLocal d -> sc (s_loc o) <= Z.of_N col <= ec (s_loc o) ->
    exists l, run_refs files mode f (line0_of (s_loc o)) col = ALocs l /\
              (forall x, In x l <-> In x (spec_refs (spec_ws files) f o)) /\
              same_locs l (spec_refs (spec_ws files) f o) = true.
  Proof.
    intros Hin Hb. exact (run_refs_occ W files f P Hch Hbg o d Hin (occ_ok o Hin Hb) (occ_text o Hin Hb) Hb mode col).
  Qed.

  Lemma in_refs_occ o r :
    s_bind o = BLocal d -> In r (spec_refs (spec_ws files) f o) ->
    exists o', In o' (bind_file P) /\ s_bind o' = BLocal d /\ r = (f, s_loc o').
  Proof.
    intros Hb Hr. destruct (chunk_facts files f P Hch) as (ps & Hp & _ & Hfo & _).
    rewrite (spec_refs_local_of _ f o d Hb) in Hr. unfold spec_ws in Hr. rewrite Hp, Hfo in Hr.
    apply in_map_iff in Hr. destruct Hr as (o' & Hr & Hin'). apply filter_In in Hin'. destruct Hin' as [Hin' Hm].
    apply binding_eqb_local in Hm. exists o'. repeat split; auto.
  Qed.

  Lemma start_col_on o : In o (bind_file P) -> s_bind o = BLocal d ->
    sc (s_loc o) <= Z.of_N (col_of (s_loc o)) <= ec (s_loc o).
  Proof. intros Hin Hb. destruct (ident_at_line _ _ _ (occ_text o Hin Hb)) as (_ & Hc & Hle). lia. Qed.

  (* C12, clause 1: every reference resolves via definition to the declaration the cursor resolves to *)
  Theorem c12_clause1_local o (col : N) :
    In o (bind_file P) -> s_bind o = BLocal d -> sc (s_loc o) <= Z.of_N col <= ec (s_loc o) ->
    c12_clause1 files f (line0_of (s_loc o)) col = true.
  Proof.
    intros Hin Hb Hcol. unfold c12_clause1.
    destruct (run_refs_local MRefs o col Hin Hb Hcol) as (l & Hrl & Hiff & _). rewrite Hrl.
    rewrite (run_define_local o col Hin Hb Hcol).
    apply forallb_forall. intros r Hr. apply Hiff in Hr.
    destruct (in_refs_occ o r Hb Hr) as (o' & Hin' & Hb' & ->). cbn [fst snd].
    rewrite (run_define_local o' (col_of (s_loc o')) Hin' Hb' (start_col_on o' Hin' Hb')).
    apply same_locs_of_sets; [constructor; [intros []|constructor]|constructor; [intros []|constructor]|reflexivity].
  Qed.

  (* C12, clause 2: the occurrence is among the references of its own declaration *)
  Theorem c12_clause2_local o (col : N) :
    In o (bind_file P) -> s_bind o = BLocal d -> sc (s_loc o) <= Z.of_N col <= ec (s_loc o) ->
    c12_clause2 files f (line0_of (s_loc o)) col (s_loc o) = true.
  Proof.
    intros Hin Hb Hcol. unfold c12_clause2. rewrite (run_define_local o col Hin Hb Hcol).
    cbn [forallb fst snd]. rewrite andb_true_r.
    destruct (TraverseBindSpecDecls.bound_has_named_decl P o d Hin Hb) as (sd & Hsd & _ & Hsl & _ & Hsb).
    destruct (run_refs_local MRefs sd (col_of (s_loc sd)) Hsd Hsb (start_col_on sd Hsd Hsb)) as (l & Hrl & Hiff & _).
    rewrite Hsl in Hrl. rewrite Hrl.
    apply existsb_exists. exists (f, s_loc o). split; [|apply floc_eqb_refl].
    apply Hiff. destruct (chunk_facts files f P Hch) as (ps & Hp & _ & Hfo & _).
    rewrite (spec_refs_local_of _ f sd d Hsb). unfold spec_ws. rewrite Hp, Hfo.
    apply in_map_iff. exists o. split; [reflexivity|]. apply filter_In. split; [exact Hin|].
    apply binding_eqb_local. exact Hb.
  Qed.
End Requests.

(* ------------------------------------------------------------------ in the shape of the full statements, guard per
   cursor: occ_request_guard W files f o *)
Theorem refs_request_closed_occ mode W files f line col o d l :
  occ_request_guard W files f o = true -> spec_occ files f line col = Some o -> s_bind o = BLocal d ->
  run_refs files mode f line col = ALocs l -> same_locs l (spec_refs (spec_ws files) f o) = true.
Proof.
  intros Hg Ho Hb Hr. destruct (occ_request_guard_parts W files f o Hg) as (P & Hch & Hbg & Hocc & Htxt).
  destruct (spec_occ_facts files f P line col o Hch Ho) as (Hin & Hl & Hcol).
  destruct (run_refs_occ W files f P Hch Hbg o d Hin Hocc Htxt Hb mode col Hcol) as (l' & Hrl & _ & Hsame).
  rewrite (zl_line0 _ _ Hl) in Hrl. rewrite Hrl in Hr. injection Hr as <-. exact Hsame.
Qed.

Theorem refs_request_answers_occ mode W files f line col o d :
  occ_request_guard W files f o = true -> spec_occ files f line col = Some o -> s_bind o = BLocal d ->
  exists l, run_refs files mode f line col = ALocs l /\ forall x, In x l <-> In x (spec_refs (spec_ws files) f o).
Proof.
  intros Hg Ho Hb. destruct (occ_request_guard_parts W files f o Hg) as (P & Hch & Hbg & Hocc & Htxt).
  destruct (spec_occ_facts files f P line col o Hch Ho) as (Hin & Hl & Hcol).
  destruct (run_refs_occ W files f P Hch Hbg o d Hin Hocc Htxt Hb mode col Hcol) as (l' & Hrl & Hiff & _).
  rewrite (zl_line0 _ _ Hl) in Hrl. exists l'. split; assumption.
Qed.

Theorem define_request_closed_occ W files f line col o d :
  occ_request_guard W files f o = true -> spec_occ files f line col = Some o -> s_bind o = BLocal d ->
  run_define files f line col = ALocs [(f, d)].
Proof.
  intros Hg Ho Hb. destruct (occ_request_guard_parts W files f o Hg) as (P & Hch & Hbg & Hocc & Htxt).
  destruct (spec_occ_facts files f P line col o Hch Ho) as (Hin & Hl & Hcol).
  rewrite <- (zl_line0 _ _ Hl). exact (run_define_occ W files f P Hch Hbg o d Hin Hocc Htxt Hb col Hcol).
Qed.

Theorem hover_request_local_occ W files f line col o d :
  occ_request_guard W files f o = true -> spec_occ files f line col = Some o -> s_bind o = BLocal d ->
  run_hover files f line col = HLocal.
Proof.
  intros Hg Ho Hb. destruct (occ_request_guard_parts W files f o Hg) as (P & Hch & Hbg & Hocc & Htxt).
  destruct (spec_occ_facts files f P line col o Hch Ho) as (Hin & Hl & Hcol).
  rewrite <- (zl_line0 _ _ Hl). exact (run_hover_occ W files f P Hch Hbg o d Hin Hocc Htxt Hb col Hcol).
Qed.

(* the per-variable guard gives the per-cursor guard at every occurrence of the variable *)
Lemma var_request_guard_occ W files f d line col o :
  var_request_guard W files f d = true -> spec_occ files f line col = Some o -> s_bind o = BLocal d ->
  occ_request_guard W files f o = true.
Proof.
  intros Hg Ho Hb. destruct (var_request_guard_parts W files f d Hg) as (P & Hch & Hbg & Hog & Htg).
  destruct (spec_occ_facts files f P line col o Hch Ho) as (Hin & _ & _).
  unfold occ_request_guard. rewrite Hch, Hbg, (var_guard_occ P d o Hog Hin Hb). cbn [andb].
  unfold var_text in Htg. rewrite forallb_forall in Htg. specialize (Htg o Hin).
  rewrite (proj2 (binding_eqb_local _ _) Hb) in Htg. exact Htg.
Qed.

(* ------------------------------------------------------------------ in the shape of the full statements.
   Guard per variable: var_request_guard W files f d (whole file: request_guard W files f, which implies it for every d) *)
(* C06_refs_full / C11_rename_full restricted by the guard, local variables *)
Theorem refs_request_closed_var mode W files f line col o d l :
  var_request_guard W files f d = true -> spec_occ files f line col = Some o -> s_bind o = BLocal d ->
  run_refs files mode f line col = ALocs l -> same_locs l (spec_refs (spec_ws files) f o) = true.
Proof.
  intros Hg Ho Hb Hr. destruct (var_request_guard_parts W files f d Hg) as (P & Hch & Hbg & Hog & Htg).
  destruct (spec_occ_facts files f P line col o Hch Ho) as (Hin & Hl & Hcol).
  destruct (run_refs_local W files f P Hch Hbg d Hog Htg mode o col Hin Hb Hcol) as (l' & Hrl & _ & Hsame).
  rewrite (zl_line0 _ _ Hl) in Hrl. rewrite Hrl in Hr. injection Hr as <-. exact Hsame.
Qed.

(* ... and the request does answer *)
Theorem refs_request_answers_var mode W files f line col o d :
  var_request_guard W files f d = true -> spec_occ files f line col = Some o -> s_bind o = BLocal d ->
  exists l, run_refs files mode f line col = ALocs l /\ forall x, In x l <-> In x (spec_refs (spec_ws files) f o).
Proof.
  intros Hg Ho Hb. destruct (var_request_guard_parts W files f d Hg) as (P & Hch & Hbg & Hog & Htg).
  destruct (spec_occ_facts files f P line col o Hch Ho) as (Hin & Hl & Hcol).
  destruct (run_refs_local W files f P Hch Hbg d Hog Htg mode o col Hin Hb Hcol) as (l' & Hrl & Hiff & _).
  rewrite (zl_line0 _ _ Hl) in Hrl. exists l'. split; assumption.
Qed.

(* C05 at request level: definition answers exactly the declaration *)
Theorem define_request_closed_var W files f line col o d :
  var_request_guard W files f d = true -> spec_occ files f line col = Some o -> s_bind o = BLocal d ->
  run_define files f line col = ALocs [(f, d)].
Proof.
  intros Hg Ho Hb. destruct (var_request_guard_parts W files f d Hg) as (P & Hch & Hbg & Hog & Htg).
  destruct (spec_occ_facts files f P line col o Hch Ho) as (Hin & Hl & Hcol).
  rewrite <- (zl_line0 _ _ Hl). exact (run_define_local W files f P Hch Hbg d Hog Htg o col Hin Hb Hcol).
Qed.

(* C12_full, clauses 1 and 2, restricted by the guard, local variables *)
Theorem c12_clauses_request_var W files f line col o d :
  var_request_guard W files f d = true -> spec_occ files f line col = Some o -> s_bind o = BLocal d ->
  c12_clause1 files f line col = true /\ c12_clause2 files f line col (s_loc o) = true.
Proof.
  intros Hg Ho Hb. destruct (var_request_guard_parts W files f d Hg) as (P & Hch & Hbg & Hog & Htg).
  destruct (spec_occ_facts files f P line col o Hch Ho) as (Hin & Hl & Hcol).
  rewrite <- (zl_line0 _ _ Hl). split.
  - exact (c12_clause1_local W files f P Hch Hbg d Hog Htg o col Hin Hb Hcol).
  - exact (c12_clause2_local W files f P Hch Hbg d Hog Htg o col Hin Hb Hcol).
Qed.

(* hover on a local says `local` *)
Theorem hover_request_local_var W files f line col o d :
  var_request_guard W files f d = true -> spec_occ files f line col = Some o -> s_bind o = BLocal d ->
  run_hover files f line col = HLocal.
Proof.
  intros Hg Ho Hb. exact (hover_request_local_occ W files f line col o d (var_request_guard_occ W files f d line col o Hg Ho Hb) Ho Hb).
Qed.

(* the same under the whole-file guard *)
Theorem refs_request_closed mode W files f line col o d l :
  request_guard W files f = true -> spec_occ files f line col = Some o -> s_bind o = BLocal d ->
  run_refs files mode f line col = ALocs l -> same_locs l (spec_refs (spec_ws files) f o) = true.
Proof. intros Hg. exact (refs_request_closed_var mode W files f line col o d l (request_guard_var W files f d Hg)). Qed.

Theorem refs_request_answers mode W files f line col o d :
  request_guard W files f = true -> spec_occ files f line col = Some o -> s_bind o = BLocal d ->
  exists l, run_refs files mode f line col = ALocs l /\ forall x, In x l <-> In x (spec_refs (spec_ws files) f o).
Proof. intros Hg. exact (refs_request_answers_var mode W files f line col o d (request_guard_var W files f d Hg)). Qed.

Theorem define_request_closed W files f line col o d :
  request_guard W files f = true -> spec_occ files f line col = Some o -> s_bind o = BLocal d ->
  run_define files f line col = ALocs [(f, d)].
Proof. intros Hg. exact (define_request_closed_var W files f line col o d (request_guard_var W files f d Hg)). Qed.

Theorem c12_clauses_request W files f line col o d :
  request_guard W files f = true -> spec_occ files f line col = Some o -> s_bind o = BLocal d ->
  c12_clause1 files f line col = true /\ c12_clause2 files f line col (s_loc o) = true.
Proof. intros Hg. exact (c12_clauses_request_var W files f line col o d (request_guard_var W files f d Hg)). Qed.

(* all four clauses of C12_full at a cursor on a local (clauses 3 and 4 hold for every workspace) *)
Theorem c12_all_clauses_request W files f line col o d :
  NoDup (map fst files) ->
  var_request_guard W files f d = true -> spec_occ files f line col = Some o -> s_bind o = BLocal d ->
  c12_clause1 files f line col = true /\ c12_clause2 files f line col (s_loc o) = true /\
  c12_clause3 files f line col /\ c12_clause4 files f line col.
Proof.
  intros Hnd Hg Ho Hb. destruct (c12_clauses_request_var W files f line col o d Hg Ho Hb) as [H1 H2].
  split; [exact H1|]. split; [exact H2|]. split; [exact (c12_clause3_holds files f line col Hnd)|exact (c12_clause4_holds files f line col)].
Qed.

(* ------------------------------------------------------------------ C14: completion over file bytes *)
Lemma complete_guard_parts W files f : complete_guard W files f = true ->
  exists P, file_chunk files f = Some P /\ core_guards_b W P = true.
Proof.
  unfold complete_guard. destruct (file_chunk files f) as [P|]; [|discriminate]. intros H. exists P. split; [reflexivity|exact H].
Qed.

Theorem complete_request_locals W files f line col o labels pre off :
  complete_guard W files f = true -> spec_occ files f line col = Some o -> is_decl (s_role o) = false ->
  offset_of (bytes_of files f) line col 0 = Some off -> complete_prefix (bytes_of files f) off = CutName pre ->
  run_complete files f line col = Some labels ->
  forallb (fun n => negb (starts_with pre n) || name_in n labels) (env_names (s_env o) []) = true.
Proof.
  intros Hg Ho Hd Hoff Hpre Hr. destruct (complete_guard_parts W files f Hg) as (P & Hch & Hcg).
  destruct (core_guards_ok W P Hcg) as (Hf & HL & Hn).
  destruct (spec_occ_facts files f P line col o Hch Ho) as (Hin & Hl & Hcol).
  destruct (chunk_facts files f P Hch) as (ps & Hp & Hw & _ & _).
  unfold run_complete in Hr. rewrite Hp in Hr. cbv zeta in Hr. rewrite Hw, Hoff, Hpre in Hr. injection Hr as <-.
  apply forallb_forall. intros n Hn'. destruct (starts_with pre n) eqn:Es; [|reflexivity]. cbn [negb orb].
  unfold name_in. apply existsb_exists. exists n. split; [|apply beq_bytes_refl].
  rewrite <- Hl. exact (complete_at_visible P (mws_of ps) o (Z.of_N col) pre n Hf HL Hn Hin Hd Hcol Hn' Es).
Qed.
